import Ark.Proofs.MleB
import Mathlib.Data.ZMod.Defs
/-
  Property C17 (part B) — the SPARSE multilinear extension of `Ark.Model.Mle`
  (model of poly/src/evaluations/multivariate/multilinear/sparse.rs): the `BTreeMap` helpers,
  `precompute_eq`, `fix_variables` / `evaluate` as hypercube sums, dense ↔ sparse agreement,
  `relabel`, and the arithmetic operators.  Helper lemmas are in Ark/Proofs/MleB.lean.

  Notation (all from Ark/Proofs/MleB.lean):
  * `TreeMap.Sorted m`  — `m` is strictly key-sorted (the `BTreeMap` invariant);
  * `Sparse.WF s`       — `s.evals` is sorted and every key is `< 2^s.numVars`
                          (established by `from_evaluations`, preserved by every operation);
  * `Sparse.index s i`  — the model's `Index<usize>`: the stored value at key `i`, or `0`;
  * `eqPoly x b = Π_{i<|x|} (x_i·b_i + (1−x_i)(1−b_i))`, `b_i = b.testBit i`.
-/
namespace Ark.C17
open Ark Ark.Mle Ark.Mle.TreeMap

/-! ### 7. the `BTreeMap` model -/

/-- `ofTuples l` (`.collect::<BTreeMap>()`) is strictly key-sorted. -/
theorem treemap_ofTuples_sorted {F : Type} (l : List (Nat × F)) : Sorted (ofTuples l) :=
  sorted_ofTuples l

/-- `get? k (ofTuples l)` is the value of the LAST pair of `l` with key `k`. -/
theorem treemap_ofTuples_get {F : Type} (l : List (Nat × F)) (k : Nat) :
    get? k (ofTuples l) = l.reverse.lookup k :=
  get?_ofTuples l k

/-- the pairs of `ofTuples l` come from `l`; a sorted list is a fixed point. -/
theorem treemap_ofTuples_mem {F : Type} (l : List (Nat × F)) :
    (∀ b ∈ ofTuples l, b ∈ l) ∧ (Sorted l → ofTuples l = l) :=
  ⟨fun _ hb => mem_ofTuples hb, ofTuples_of_sorted⟩

/-- `insert` preserves sortedness, and its lookup law. -/
theorem treemap_insert {F : Type} (m : TreeMap F) (hm : Sorted m) (k : Nat) (v : F) :
    Sorted (insert k v m) ∧ ∀ j, get? j (insert k v m) = if j = k then some v else get? j m :=
  ⟨sorted_insert hm, fun _ => get?_insert hm⟩

/-- `accumulate` (`*entry(k).or_insert(0) += x`) preserves sortedness, and its lookup law. -/
theorem treemap_accumulate {F : Type} [CommRing F] (m : TreeMap F) (hm : Sorted m) (k : Nat) (x : F) :
    Sorted (accumulate m k x) ∧
    ∀ j, get? j (accumulate m k x) =
      if j = k then some ((match get? k m with | some y => y | none => 0) + x) else get? j m :=
  ⟨sorted_accumulate hm, fun _ => get?_accumulate hm⟩

/-- on a sorted map `get?` is membership (so `index` is "the stored value or 0"),
    and sorted maps are determined by their lookups. -/
theorem treemap_get_mem {F : Type} (m : TreeMap F) (hm : Sorted m) (k : Nat) (v : F) :
    get? k m = some v ↔ (k, v) ∈ m :=
  get?_eq_some_iff hm

theorem treemap_ext {F : Type} (m₁ m₂ : TreeMap F) (h₁ : Sorted m₁) (h₂ : Sorted m₂)
    (h : ∀ k, get? k m₁ = get? k m₂) : m₁ = m₂ :=
  ext_of_sorted h₁ h₂ h

example : ofTuples [(3, (1 : ZMod 5)), (1, 2), (3, 4)] = [(1, 2), (3, 4)] := by decide +kernel
example : Sorted ([(1, 2), (3, 4)] : TreeMap (ZMod 5)) := by unfold Sorted; decide
example : accumulate ([(1, 2), (3, 4)] : TreeMap (ZMod 5)) 3 3 = [(1, 2), (3, 2)] := by decide +kernel

/-! ### 8. `precompute_eq` -/

/-- `precompute_eq(g)` is the table of `eq(g, ·)` over the hypercube. -/
theorem precompute_eq_table {F : Type} [CommRing F] (g : List F) (hg : g ≠ []) :
    Sparse.precomputeEq g = .ok (List.ofFn (fun b : Fin (2 ^ g.length) => eqPoly g b.val)) := by
  rw [ofFn_eq_map_range (2 ^ g.length) (eqPoly g), precomputeEq_eq_range g hg]
  congr 2; funext b; rw [eqPoly_eq_eqR]

/-- `precompute_eq(&[])` indexes `g[0]`: panic. -/
theorem precompute_eq_empty_panics {F : Type} [CommRing F] :
    Sparse.precomputeEq ([] : List F) = .panic := rfl

example : Sparse.precomputeEq [(2 : ZMod 5), 3] = .ok [2, 1, 2, 1] := by decide +kernel

/-! ### 9. `fix_variables`, `evaluate` -/

/-- batch composition of `eq`: `eq (x₁++x₂) (b₁ + 2^{d₁} b₂) = eq x₁ b₁ · eq x₂ b₂`. -/
theorem eq_batch_composition {F : Type} [CommRing F] (x₁ x₂ : List F) (b₁ b₂ : Nat)
    (h : b₁ < 2 ^ x₁.length) :
    eqPoly (x₁ ++ x₂) (b₁ + 2 ^ x₁.length * b₂) = eqPoly x₁ b₁ * eqPoly x₂ b₂ := by
  simp only [eqPoly_eq_eqR]; exact eqR_append_add x₁ x₂ b₁ b₂ h

/-- `fix_variables(pp)` for `|pp| ≤ num_vars`: never panics, has `num_vars − |pp|` variables, and
    `index r j = Σ_{b<2^|pp|} index s (b + j·2^|pp|) · eq pp b` for EVERY `j`; the result is well-formed
    and its key set is `{ key >> |pp| }`.  (Only sortedness of `s` is needed for the sum formula.) -/
theorem sparse_fix_variables_sum {F : Type} [CommRing F] (s : Sparse F) (pp : List F)
    (hs : Sorted s.evals) (hd : pp.length ≤ s.numVars) :
    ∃ r, Sparse.fixVariables s pp = .ok r ∧ r.numVars = s.numVars - pp.length ∧ Sorted r.evals ∧
      (∀ j, r.index j = ∑ b ∈ Finset.range (2 ^ pp.length),
          s.index (b + j * 2 ^ pp.length) * eqPoly pp b) ∧
      (∀ j, (get? j r.evals).isSome ↔ ∃ iv ∈ s.evals, iv.1 / 2 ^ pp.length = j) := by
  simp only [eqPoly_eq_eqR]; exact Sparse.fixVariables_spec s pp hs hd

/-- `fix_variables` keeps the invariant `WF`. -/
theorem sparse_fix_variables_wf {F : Type} [CommRing F] (s : Sparse F) (pp : List F)
    (hs : Sparse.WF s) (hd : pp.length ≤ s.numVars) (r : Sparse F)
    (e : Sparse.fixVariables s pp = .ok r) : Sparse.WF r :=
  Sparse.fixVariables_wf s pp hs hd r e

/-- `assert!(dim <= num_vars)`. -/
theorem sparse_fix_variables_panic {F : Type} [CommRing F] (s : Sparse F) (pp : List F)
    (hd : s.numVars < pp.length) : Sparse.fixVariables s pp = .panic :=
  Sparse.fixVariables_panic s pp hd

/-- the result (the whole map, not only its denotation) is independent of the internal batch
    `window`: any window `w ≥ 1` and any sufficient fuel give the same output. -/
theorem sparse_fix_window_independent {F : Type} [CommRing F] (s : Sparse F) (pp : List F)
    (hs : Sorted s.evals) (hd : pp.length ≤ s.numVars) (w fuel : Nat) (hw : 1 ≤ w)
    (hf : pp.length ≤ fuel) :
    Sparse.fixVariables s pp =
      (match Sparse.fixLoop w fuel pp s.evals with
       | .ok last => .ok ⟨s.numVars - pp.length, last⟩
       | .panic => .panic) :=
  Sparse.fixVariables_window_indep s pp hs hd w fuel hw hf

/-- THE defining property: `evaluate s x = Σ_{b<2^nv} index s b · eq x b`. -/
theorem sparse_evaluate_sum {F : Type} [CommRing F] (s : Sparse F) (x : List F)
    (hs : Sorted s.evals) (hx : x.length = s.numVars) :
    Sparse.evaluate s x = .ok (∑ b ∈ Finset.range (2 ^ s.numVars), s.index b * eqPoly x b) := by
  simp only [eqPoly_eq_eqR]; exact Sparse.evaluate_spec s x hs hx

/-- `assert!(point.len() == num_vars)`. -/
theorem sparse_evaluate_panic {F : Type} [CommRing F] (s : Sparse F) (x : List F)
    (hx : x.length ≠ s.numVars) : Sparse.evaluate s x = .panic :=
  Sparse.evaluate_panic s x hx

/-- sparse evaluation = the hypercube sum over the DENSE table of `toDense s`
    (which is what `Dense.evaluate (toDense s) x` denotes). -/
theorem sparse_evaluate_eq_dense_table_sum {F : Type} [CommRing F] (s : Sparse F) (x : List F)
    (hs : Sparse.WF s) (hx : x.length = s.numVars) :
    ∃ d, Sparse.toDense s = .ok d ∧ d.numVars = s.numVars ∧
      d.evals = List.ofFn (fun i : Fin (2 ^ s.numVars) => s.index i.val) ∧
      Sparse.evaluate s x =
        .ok (∑ b ∈ Finset.range (2 ^ d.numVars), d.evals.getD b 0 * eqPoly x b) := by
  refine ⟨_, Sparse.toDense_spec s hs, rfl, (ofFn_eq_map_range _ _).symm, ?_⟩
  rw [sparse_evaluate_sum s x hs.1 hx]
  congr 1
  apply Finset.sum_congr rfl
  intro b hb
  have hb' : b < 2 ^ s.numVars := Finset.mem_range.1 hb
  simp [List.getD_eq_getElem?_getD, List.getElem?_map, List.getElem?_range hb']

example : Sparse.WF (⟨2, [(0, 1), (3, 2)]⟩ : Sparse (ZMod 5)) := by
  unfold Sparse.WF Sorted; decide
example : Sparse.fixVariables (⟨2, [(0, 1), (3, 2)]⟩ : Sparse (ZMod 5)) [3] = .ok ⟨1, [(0, 3), (1, 1)]⟩ := by
  decide +kernel
example : Sparse.evaluate (⟨2, [(0, 1), (3, 2)]⟩ : Sparse (ZMod 5)) [3, 2] = .ok 4 := by
  decide +kernel

/-! ### 10. sparse ↔ dense -/

/-- `to_dense_multilinear_extension`: the table `i ↦ index s i`. -/
theorem sparse_to_dense {F : Type} [CommRing F] (s : Sparse F) (hs : Sparse.WF s) :
    Sparse.toDense s = .ok ⟨s.numVars, List.ofFn (fun i : Fin (2 ^ s.numVars) => s.index i.val)⟩ := by
  rw [ofFn_eq_map_range]; exact Sparse.toDense_spec s hs

/-- `to_evaluations`: the table `i ↦ index s i`. -/
theorem sparse_to_evaluations {F : Type} [CommRing F] (s : Sparse F) (hs : Sparse.WF s) :
    Sparse.toEvaluations s = .ok (List.ofFn (fun i : Fin (2 ^ s.numVars) => s.index i.val)) := by
  rw [ofFn_eq_map_range]; exact Sparse.toEvaluations_spec s hs

/-- `to_evaluations` / `to_dense` panic exactly when a key is out of range (no sortedness needed). -/
theorem sparse_to_evaluations_panic_iff {F : Type} [CommRing F] (s : Sparse F) :
    (Sparse.toEvaluations s = .panic ↔ ∃ kv ∈ s.evals, 2 ^ s.numVars ≤ kv.1) ∧
    (Sparse.toDense s = .panic ↔ ∃ kv ∈ s.evals, 2 ^ s.numVars ≤ kv.1) :=
  ⟨Sparse.toEvaluations_panic_iff s, Sparse.toDense_panic_iff s⟩

/-- `from_evaluations` with all indices in range: well-formed, and denotes the last-wins table. -/
theorem sparse_from_evaluations {F : Type} [CommRing F] (nv : Nat) (l : List (Nat × F))
    (h : ∀ kv ∈ l, kv.1 < 2 ^ nv) :
    ∃ s, Sparse.fromEvaluations nv l = .ok s ∧ s.numVars = nv ∧ Sparse.WF s ∧
      ∀ i, s.index i = (l.reverse.lookup i).getD 0 :=
  ⟨_, Sparse.fromEvaluations_ok nv l h, rfl, Sparse.wf_ofTuples nv l h, Sparse.index_ofTuples nv l⟩

/-- `assert!(i < 1 << num_vars)`. -/
theorem sparse_from_evaluations_panic {F : Type} (nv : Nat) (l : List (Nat × F))
    (h : ∃ kv ∈ l, 2 ^ nv ≤ kv.1) : Sparse.fromEvaluations nv l = .panic :=
  Sparse.fromEvaluations_panic nv l h

/-- `index` vanishes outside the hypercube. -/
theorem sparse_index_out_of_range {F : Type} [CommRing F] (s : Sparse F) (hs : Sparse.WF s) (i : Nat)
    (hi : 2 ^ s.numVars ≤ i) : s.index i = 0 :=
  Sparse.index_eq_zero_of_ge hs hi

example : Sparse.toDense (⟨2, [(0, 1), (3, 2)]⟩ : Sparse (ZMod 5)) = .ok ⟨2, [1, 0, 0, 2]⟩ := by
  decide +kernel
example : Sparse.fromEvaluations 2 [(3, (1 : ZMod 5)), (0, 1), (3, 2)] = .ok ⟨2, [(0, 1), (3, 2)]⟩ := by
  decide +kernel
example : Sparse.toEvaluations (⟨1, [(2, 1)]⟩ : Sparse (ZMod 5)) = .panic := by decide +kernel

/-! ### 11. `relabel` -/

/-- no-op when `a = b` or `k = 0` (whatever the ranges). -/
theorem sparse_relabel_noop {F : Type} (s : Sparse F) (a b k : Nat) (h : a = b ∨ k = 0) :
    Sparse.relabel s a b k = .ok s :=
  Sparse.relabel_noop s a b k h

/-- in range and disjoint: the table is permuted by `swapBits`. -/
theorem sparse_relabel {F : Type} [CommRing F] (s : Sparse F) (hs : Sparse.WF s) (a b k : Nat)
    (hk : k ≠ 0) (h1 : max a b + k ≤ s.numVars) (h2 : min a b + k ≤ max a b) :
    ∃ s', Sparse.relabel s a b k = .ok s' ∧ s'.numVars = s.numVars ∧ Sparse.WF s' ∧
      ∀ i, s'.index i = s.index (swapBits i (min a b) (max a b) k) :=
  Sparse.relabel_spec s hs a b k hk h1 h2

/-- otherwise: panic ("invalid relabel argument" / "overlapped swap window is not allowed"). -/
theorem sparse_relabel_panic {F : Type} (s : Sparse F) (a b k : Nat) (hne : a ≠ b) (hk : k ≠ 0)
    (h : ¬ (max a b + k ≤ s.numVars ∧ min a b + k ≤ max a b)) : Sparse.relabel s a b k = .panic :=
  Sparse.relabel_panic s a b k hne hk h

/-- what `swapBits` does with disjoint windows: it exchanges bits `a+j ↔ b+j` (`j < n`),
    and is an involution. -/
theorem swap_bits_testBit (x a b n q : Nat) (h : a + n ≤ b) :
    (swapBits x a b n).testBit q =
      if a ≤ q ∧ q < a + n then x.testBit (q - a + b)
      else if b ≤ q ∧ q < b + n then x.testBit (q - b + a)
      else x.testBit q :=
  testBit_swapBits x a b n q h

theorem swap_bits_involutive (x a b n : Nat) (h : a + n ≤ b) :
    swapBits (swapBits x a b n) a b n = x :=
  swapBits_swapBits x a b n h

example : Sparse.relabel (⟨3, [(1, 1), (6, 2)]⟩ : Sparse (ZMod 5)) 2 0 1 = .ok ⟨3, [(3, 2), (4, 1)]⟩ := by
  decide +kernel
example : Sparse.WF (⟨3, [(1, 1), (6, 2)]⟩ : Sparse (ZMod 5)) := by unfold Sparse.WF Sorted; decide
example : Sparse.relabel (⟨3, [(1, 1), (6, 2)]⟩ : Sparse (ZMod 5)) 0 1 2 = .panic := by decide +kernel

/-! ### 12. arithmetic -/

/-- `is_zero` ⇔ the denoted table is the 0-variable `[0]`. -/
theorem sparse_is_zero {F : Type} [CommRing F] [DecidableEq F] (s : Sparse F) (hs : Sparse.WF s) :
    s.isZero = true ↔ s.numVars = 0 ∧ s.index 0 = 0 :=
  Sparse.isZero_iff hs

/-- a zero operand denotes the zero table (of any arity). -/
theorem sparse_is_zero_index {F : Type} [CommRing F] [DecidableEq F] (s : Sparse F)
    (hz : s.isZero = true) (i : Nat) : s.index i = 0 :=
  Sparse.index_eq_zero_of_isZero hz i

/-- `&a + &b` on its domain: entrywise sum; a zero operand acts as the identity
    (the result then has the arity of the other operand). -/
theorem sparse_add {F : Type} [CommRing F] [DecidableEq F] (s r : Sparse F) (hs : Sparse.WF s)
    (hr : Sparse.WF r) (h : s.numVars = r.numVars ∨ s.isZero = true ∨ r.isZero = true) :
    ∃ t, Sparse.add s r = .ok t ∧ t.numVars = (if s.isZero then r.numVars else s.numVars) ∧
      Sparse.WF t ∧ ∀ i, t.index i = s.index i + r.index i :=
  Sparse.add_spec s r hs hr h

/-- `&a + &b` is `.ok` iff the arities agree or an operand is zero. -/
theorem sparse_add_ok_iff {F : Type} [CommRing F] [DecidableEq F] (s r : Sparse F)
    (hs : Sparse.WF s) (hr : Sparse.WF r) :
    (∃ t, Sparse.add s r = .ok t) ↔ (s.numVars = r.numVars ∨ s.isZero = true ∨ r.isZero = true) := by
  constructor
  · rintro ⟨t, e⟩
    by_contra hc
    simp only [not_or, Bool.not_eq_true] at hc
    rw [Sparse.add_panic s r hc.1 hc.2.1 hc.2.2] at e
    cases e
  · intro h
    obtain ⟨t, e, _⟩ := Sparse.add_spec s r hs hr h
    exact ⟨t, e⟩

/-- `Neg`: entrywise. -/
theorem sparse_neg {F : Type} [CommRing F] (s : Sparse F) (hs : Sparse.WF s) :
    (Sparse.neg s).numVars = s.numVars ∧ Sparse.WF (Sparse.neg s) ∧
      ∀ i, (Sparse.neg s).index i = - s.index i :=
  Sparse.neg_spec s hs

/-- `&a - &b` on its domain: entrywise difference. -/
theorem sparse_sub {F : Type} [CommRing F] [DecidableEq F] (s r : Sparse F) (hs : Sparse.WF s)
    (hr : Sparse.WF r) (h : s.numVars = r.numVars ∨ s.isZero = true ∨ r.isZero = true) :
    ∃ t, Sparse.sub s r = .ok t ∧ t.numVars = (if s.isZero then r.numVars else s.numVars) ∧
      Sparse.WF t ∧ ∀ i, t.index i = s.index i - r.index i :=
  Sparse.sub_spec s r hs hr h

/-- `&a - &b` is `.ok` iff the arities agree or an operand is zero. -/
theorem sparse_sub_ok_iff {F : Type} [CommRing F] [DecidableEq F] (s r : Sparse F)
    (hs : Sparse.WF s) (hr : Sparse.WF r) :
    (∃ t, Sparse.sub s r = .ok t) ↔ (s.numVars = r.numVars ∨ s.isZero = true ∨ r.isZero = true) := by
  constructor
  · rintro ⟨t, e⟩
    by_contra hc
    simp only [not_or, Bool.not_eq_true] at hc
    rw [Sparse.sub_panic s r hr hc.1 hc.2.1 hc.2.2] at e
    cases e
  · intro h
    obtain ⟨t, e, _⟩ := Sparse.sub_spec s r hs hr h
    exact ⟨t, e⟩

/-- `self += (f, &other)` on its domain: entrywise `s + f·o`. -/
theorem sparse_add_scaled {F : Type} [CommRing F] [DecidableEq F] (s : Sparse F) (f : F)
    (o : Sparse F) (hs : Sparse.WF s) (ho : Sparse.WF o)
    (h : s.numVars = o.numVars ∨ s.isZero = true ∨ o.isZero = true) :
    ∃ t, Sparse.addScaled s f o = .ok t ∧ t.numVars = (if s.isZero then o.numVars else s.numVars) ∧
      Sparse.WF t ∧ ∀ i, t.index i = s.index i + f * o.index i :=
  Sparse.addScaled_spec s f o hs ho h

/-- `addScaled` panics iff both operands are non-zero and the arities differ. -/
theorem sparse_add_scaled_panic_iff {F : Type} [CommRing F] [DecidableEq F] (s : Sparse F) (f : F)
    (o : Sparse F) (hs : Sparse.WF s) (ho : Sparse.WF o) :
    Sparse.addScaled s f o = .panic ↔
      (s.isZero = false ∧ o.isZero = false ∧ s.numVars ≠ o.numVars) := by
  constructor
  · intro e
    by_contra hc
    have h : s.numVars = o.numVars ∨ s.isZero = true ∨ o.isZero = true := by
      by_cases h1 : s.isZero = true
      · exact Or.inr (Or.inl h1)
      · by_cases h2 : o.isZero = true
        · exact Or.inr (Or.inr h2)
        · left
          by_contra h3
          exact hc ⟨by simpa using h1, by simpa using h2, h3⟩
    obtain ⟨t, e', _⟩ := Sparse.addScaled_spec s f o hs ho h
    rw [e] at e'; cases e'
  · rintro ⟨h1, h2, h3⟩
    exact Sparse.addScaled_panic s f o h3 h1 h2

/-- the zero polynomial is well-formed and `is_zero`. -/
theorem sparse_zero {F : Type} [CommRing F] [DecidableEq F] :
    Sparse.WF (Sparse.zero : Sparse F) ∧ (Sparse.zero : Sparse F).isZero = true :=
  ⟨Sparse.wf_zero, rfl⟩

example : Sparse.add (⟨2, [(0, 1), (3, 2)]⟩ : Sparse (ZMod 5)) ⟨2, [(0, 4), (1, 1)]⟩ =
    .ok ⟨2, [(1, 1), (3, 2)]⟩ := by decide +kernel
example : Sparse.add (⟨2, [(0, 1), (3, 2)]⟩ : Sparse (ZMod 5)) ⟨0, [(0, 0)]⟩ =
    .ok ⟨2, [(0, 1), (3, 2)]⟩ := by decide +kernel
example : Sparse.add (⟨2, [(0, 1)]⟩ : Sparse (ZMod 5)) ⟨1, [(0, 1)]⟩ = .panic := by decide +kernel
example : Sparse.addScaled (⟨2, [(0, 1), (3, 2)]⟩ : Sparse (ZMod 5)) 2 ⟨2, [(0, 2), (1, 1)]⟩ =
    .ok ⟨2, [(1, 2), (3, 2)]⟩ := by decide +kernel
example : Sparse.sub (⟨2, [(0, 1), (3, 2)]⟩ : Sparse (ZMod 5)) ⟨2, [(0, 1), (1, 1)]⟩ =
    .ok ⟨2, [(1, 4), (3, 2)]⟩ := by decide +kernel
example : (⟨0, [(0, 0)]⟩ : Sparse (ZMod 5)).isZero = true := by decide +kernel

end Ark.C17
