import Ark.Proofs.SurfaceA
set_option linter.style.haveILetI false
set_option linter.unusedSectionVars false

/-
  Property C02 (part C) — the remaining public operations of the extension-field templates
  (`inverse_in_place`, `Div`/`DivAssign`, `Sum`/`Product`, `From<u8…u128>`, `From<i8…i128>`;
  ff/src/fields/models/{quadratic_extension,cubic_extension}.rs, ff/src/fields/arithmetic.rs) and
  `<[u8] as ToConstraintField<F>>::to_field_elements` (ff/src/to_field_vec.rs), on the executable
  models `Ark.Ext.{inverseInPlace, fieldDiv, sumIter, productIter, fromUnsigned, fromSignedInt,
  bytesToFieldElements}` of `Ark/Model/DrvC02.lean`.

  Assumptions as in part B (`BaseLawful`, `QuadLawful`, `CubicLawful` of `Ark.ExtB`); the new bundle
  `OfPrimeLawful D` (`Ark.ExtC`) says that `from_base_prime_field` fills the first coordinate,
  `0` has zero coordinates, negation is coordinatewise and `extension_degree() > 0`; it holds for the
  prime field and is preserved by both templates, hence on every layer of a tower.
-/
namespace Ark.C02c
open Ark Ark.Ext Ark.ExtB Ark.ExtC

/-! ### 1. `Div` / `DivAssign` and `inverse_in_place` -/

section
variable {P E F : Type}

/-- `a / b` panics exactly on `b = 0` (the `unwrap` of `inverse`) and is the field quotient otherwise -/
theorem field_div_exact [Field E] [DecidableEq E] {D : FieldD P E} (hD : BaseLawful D) (a b : E) :
    fieldDiv D a b = if b = 0 then .panic else .ok (a / b) :=
  fieldDiv_eq hD a b

theorem field_div_mul [Field E] [DecidableEq E] {D : FieldD P E} (hD : BaseLawful D) (a b x : E)
    (h : fieldDiv D a b = .ok x) : x * b = a :=
  fieldDiv_ok_mul hD a b x h

theorem field_div_panic_iff [Field E] [DecidableEq E] {D : FieldD P E} (hD : BaseLawful D) (a b : E) :
    fieldDiv D a b = .panic ↔ b = 0 :=
  fieldDiv_panic_iff hD a b

theorem field_div_ok_iff [Field E] [DecidableEq E] {D : FieldD P E} (hD : BaseLawful D) (a b x : E) :
    fieldDiv D a b = .ok x ↔ b ≠ 0 ∧ x = a / b :=
  fieldDiv_ok_iff hD a b x

/-- `inverse_in_place`: `None` and `self` untouched on `0`, else `Some(self)` with `self = a⁻¹` -/
theorem inverse_in_place_exact [Field E] [DecidableEq E] {D : FieldD P E} (hD : BaseLawful D) (a : E) :
    inverseInPlace D a = .ok (if a = 0 then (none, a) else (some a⁻¹, a⁻¹)) :=
  inverseInPlace_eq hD a

example : BaseLawful B7 := B7_lawful
example : fieldDiv B7 (3 : ZMod 7) 5 = .ok 2 := by decide +kernel
example : fieldDiv B7 (3 : ZMod 7) 0 = .panic := by decide +kernel
example : inverseInPlace B7 (5 : ZMod 7) = .ok (some 3, 3) := by decide +kernel
example : inverseInPlace B7 (0 : ZMod 7) = .ok (none, 0) := by decide +kernel

variable [Field F] [DecidableEq F]

/-- quadratic layer (`Mul` = the model's `Quad.mul cfg B`, as the driver supplies it): exact form in
    the field `Quad.field` … -/
theorem quad_div_exact {cfg : QuadCfg F} {B : FieldD P F} (hB : BaseLawful B) (hc : QuadLawful cfg)
    (hnr : ∀ x : F, x * x ≠ cfg.nonresidue) (a b : Quad F) :
    letI := Quad.field cfg B hB hc hnr
    @fieldDiv P (Quad F) ⟨Quad.mul cfg B⟩ (Quad.fieldD cfg B) a b
      = if b = 0 then .panic else .ok (a / b) :=
  quad_fieldDiv_eq hB hc hnr a b

/-- … a returned quotient times the divisor is the dividend … -/
theorem quad_div_mul {cfg : QuadCfg F} {B : FieldD P F} (hB : BaseLawful B) (hc : QuadLawful cfg)
    (hnr : ∀ x : F, x * x ≠ cfg.nonresidue) (a b x : Quad F)
    (h : @fieldDiv P (Quad F) ⟨Quad.mul cfg B⟩ (Quad.fieldD cfg B) a b = .ok x) :
    Quad.mul cfg B x b = a :=
  quad_fieldDiv_ok_mul hB hc hnr a b x h

/-- … the division panics exactly on a zero divisor … -/
theorem quad_div_panic_iff {cfg : QuadCfg F} {B : FieldD P F} (hB : BaseLawful B)
    (hc : QuadLawful cfg) (hnr : ∀ x : F, x * x ≠ cfg.nonresidue) (a b : Quad F) :
    @fieldDiv P (Quad F) ⟨Quad.mul cfg B⟩ (Quad.fieldD cfg B) a b = .panic ↔ b = 0 :=
  quad_fieldDiv_panic_iff hB hc hnr a b

/-- … and succeeds on every non-zero divisor. -/
theorem quad_div_total {cfg : QuadCfg F} {B : FieldD P F} (hB : BaseLawful B) (hc : QuadLawful cfg)
    (hnr : ∀ x : F, x * x ≠ cfg.nonresidue) (a b : Quad F) (hb : b ≠ 0) :
    ∃ x, @fieldDiv P (Quad F) ⟨Quad.mul cfg B⟩ (Quad.fieldD cfg B) a b = .ok x ∧
      Quad.mul cfg B x b = a :=
  quad_fieldDiv_total hB hc hnr a b hb

theorem quad_inverse_in_place {cfg : QuadCfg F} {B : FieldD P F} (hB : BaseLawful B)
    (hc : QuadLawful cfg) (hnr : ∀ x : F, x * x ≠ cfg.nonresidue) (a : Quad F) (ha : a ≠ 0) :
    ∃ i, inverseInPlace (Quad.fieldD cfg B) a = .ok (some i, i) ∧ Quad.mul cfg B a i = 1 :=
  quad_inverseInPlace_ne_zero hB hc hnr a ha

theorem quad_inverse_in_place_zero {cfg : QuadCfg F} {B : FieldD P F} :
    inverseInPlace (Quad.fieldD cfg B) (0 : Quad F) = .ok (none, 0) :=
  quad_inverseInPlace_zero

example : QuadLawful c7neg.wrap ∧ BaseLawful B7 ∧ ∀ x : ZMod 7, x * x ≠ c7neg.wrap.nonresidue :=
  ⟨c7neg_lawful, B7_lawful, nonsq7_neg⟩
example : @fieldDiv _ _ ⟨Quad.mul c7neg.wrap B7⟩ (Quad.fieldD c7neg.wrap B7) ⟨3, 4⟩ ⟨1, 2⟩
    = .ok ⟨5, 1⟩ := by decide +kernel
example : Quad.mul c7neg.wrap B7 (⟨5, 1⟩ : Quad (ZMod 7)) ⟨1, 2⟩ = ⟨3, 4⟩ := by decide
example : @fieldDiv _ _ ⟨Quad.mul c7neg.wrap B7⟩ (Quad.fieldD c7neg.wrap B7) ⟨3, 4⟩ 0
    = .panic := by decide +kernel
example : inverseInPlace (Quad.fieldD c7neg.wrap B7) ⟨3, 4⟩ = .ok (some ⟨6, 6⟩, ⟨6, 6⟩) := by
  decide +kernel

/-- cubic layer -/
theorem cubic_div_exact {cfg : CubicCfg F} {B : FieldD P F} (hB : BaseLawful B)
    (hc : CubicLawful cfg) (hnc : ∀ x : F, x ^ 3 ≠ cfg.nonresidue) (a b : Cubic F) :
    letI := Cubic.field cfg hc hnc
    @fieldDiv P (Cubic F) ⟨Cubic.mul cfg⟩ (Cubic.fieldD cfg B) a b
      = if b = 0 then .panic else .ok (a / b) :=
  cubic_fieldDiv_eq hB hc hnc a b

theorem cubic_div_mul {cfg : CubicCfg F} {B : FieldD P F} (hB : BaseLawful B)
    (hc : CubicLawful cfg) (hnc : ∀ x : F, x ^ 3 ≠ cfg.nonresidue) (a b x : Cubic F)
    (h : @fieldDiv P (Cubic F) ⟨Cubic.mul cfg⟩ (Cubic.fieldD cfg B) a b = .ok x) :
    Cubic.mul cfg x b = a :=
  cubic_fieldDiv_ok_mul hB hc hnc a b x h

theorem cubic_div_panic_iff {cfg : CubicCfg F} {B : FieldD P F} (hB : BaseLawful B)
    (hc : CubicLawful cfg) (hnc : ∀ x : F, x ^ 3 ≠ cfg.nonresidue) (a b : Cubic F) :
    @fieldDiv P (Cubic F) ⟨Cubic.mul cfg⟩ (Cubic.fieldD cfg B) a b = .panic ↔ b = 0 :=
  cubic_fieldDiv_panic_iff hB hc hnc a b

theorem cubic_div_total {cfg : CubicCfg F} {B : FieldD P F} (hB : BaseLawful B)
    (hc : CubicLawful cfg) (hnc : ∀ x : F, x ^ 3 ≠ cfg.nonresidue) (a b : Cubic F) (hb : b ≠ 0) :
    ∃ x, @fieldDiv P (Cubic F) ⟨Cubic.mul cfg⟩ (Cubic.fieldD cfg B) a b = .ok x ∧
      Cubic.mul cfg x b = a :=
  cubic_fieldDiv_total hB hc hnc a b hb

theorem cubic_inverse_in_place {cfg : CubicCfg F} {B : FieldD P F} (hB : BaseLawful B)
    (hc : CubicLawful cfg) (hnc : ∀ x : F, x ^ 3 ≠ cfg.nonresidue) (a : Cubic F) (ha : a ≠ 0) :
    ∃ i, inverseInPlace (Cubic.fieldD cfg B) a = .ok (some i, i) ∧ Cubic.mul cfg a i = 1 :=
  cubic_inverseInPlace_ne_zero hB hc hnc a ha

theorem cubic_inverse_in_place_zero {cfg : CubicCfg F} {B : FieldD P F} :
    inverseInPlace (Cubic.fieldD cfg B) (0 : Cubic F) = .ok (none, 0) :=
  cubic_inverseInPlace_zero

example : CubicLawful c7cub.wrap ∧ ∀ x : ZMod 7, x ^ 3 ≠ c7cub.wrap.nonresidue :=
  ⟨c7cub_lawful, noncube7⟩
example : @fieldDiv _ _ ⟨Cubic.mul c7cub.wrap⟩ (Cubic.fieldD c7cub.wrap B7) ⟨1, 0, 3⟩ ⟨1, 2, 3⟩
    = .ok ⟨3, 5, 5⟩ := by decide +kernel
example : Cubic.mul c7cub.wrap (⟨3, 5, 5⟩ : Cubic (ZMod 7)) ⟨1, 2, 3⟩ = ⟨1, 0, 3⟩ := by decide
example : inverseInPlace (Cubic.fieldD c7cub.wrap B7) ⟨1, 2, 3⟩
    = .ok (some ⟨1, 1, 2⟩, ⟨1, 1, 2⟩) := by decide +kernel

end

/-! ### 2. `Sum` / `Product` -/

section
variable {P E F : Type}

/-- `iter.fold(zero, add)` is the sum of the sequence (associativity suffices) -/
theorem sum_iter_eq_sum [AddMonoid E] (xs : List E) : sumIter xs = xs.sum :=
  sumIter_eq_sum xs

/-- `iter.fold(one, mul)` is the product of the sequence, factors in iteration order -/
theorem product_iter_eq_prod [Monoid E] (xs : List E) : productIter xs = xs.prod :=
  productIter_eq_prod xs

/-- in a commutative structure the iteration order is irrelevant -/
theorem sum_iter_perm [AddCommMonoid E] {xs ys : List E} (h : xs.Perm ys) :
    sumIter xs = sumIter ys :=
  sumIter_perm h

theorem product_iter_perm [CommMonoid E] {xs ys : List E} (h : xs.Perm ys) :
    productIter xs = productIter ys :=
  productIter_perm h

/-- the fold is from the left (this is the statement that does not need any law) -/
theorem sum_iter_snoc [Add E] [Zero E] (xs : List E) (x : E) :
    sumIter (xs ++ [x]) = sumIter xs + x :=
  sumIter_append_singleton xs x

theorem product_iter_snoc [Mul E] [One E] (xs : List E) (x : E) :
    productIter (xs ++ [x]) = productIter xs * x :=
  productIter_append_singleton xs x

example : sumIter [(3 : ZMod 7), 5, 6] = 0 := by decide
example : productIter [(3 : ZMod 7), 5, 6] = 6 := by decide

variable [Field F] [DecidableEq F]

/-- quadratic layer: the product with the model's multiplication is the product in `Quad.commRing` -/
theorem quad_product_iter {cfg : QuadCfg F} {B : FieldD P F} (hB : BaseLawful B)
    (hc : QuadLawful cfg) (xs : List (Quad F)) :
    letI := Quad.commRing cfg B hB hc
    @productIter (Quad F) ⟨Quad.mul cfg B⟩ _ xs = xs.prod :=
  quad_productIter_eq_prod hB hc xs

theorem quad_sum_iter {cfg : QuadCfg F} {B : FieldD P F} (hB : BaseLawful B)
    (hc : QuadLawful cfg) (xs : List (Quad F)) :
    letI := Quad.commRing cfg B hB hc
    sumIter xs = xs.sum :=
  quad_sumIter_eq_sum hB hc xs

/-- the sum is coordinatewise (over any base with `+` and `0`) -/
theorem quad_sum_iter_coords {G : Type} [Add G] [Zero G] (xs : List (Quad G)) :
    sumIter xs = ⟨sumIter (xs.map (·.c0)), sumIter (xs.map (·.c1))⟩ :=
  quad_sumIter_coords xs

theorem cubic_product_iter {cfg : CubicCfg F} (hc : CubicLawful cfg) (xs : List (Cubic F)) :
    letI := Cubic.commRing cfg hc
    @productIter (Cubic F) ⟨Cubic.mul cfg⟩ _ xs = xs.prod :=
  cubic_productIter_eq_prod hc xs

theorem cubic_sum_iter {cfg : CubicCfg F} (hc : CubicLawful cfg) (xs : List (Cubic F)) :
    letI := Cubic.commRing cfg hc
    sumIter xs = xs.sum :=
  cubic_sumIter_eq_sum hc xs

theorem cubic_sum_iter_coords {G : Type} [Add G] [Zero G] (xs : List (Cubic G)) :
    sumIter xs = ⟨sumIter (xs.map (·.c0)), sumIter (xs.map (·.c1)), sumIter (xs.map (·.c2))⟩ :=
  cubic_sumIter_coords xs

example : @productIter _ ⟨Quad.mul c7neg.wrap B7⟩ _ [(⟨3, 4⟩ : Quad (ZMod 7)), ⟨1, 2⟩, ⟨5, 6⟩]
    = ⟨6, 6⟩ := by decide
example : sumIter [(⟨3, 4⟩ : Quad (ZMod 7)), ⟨1, 2⟩, ⟨5, 6⟩] = ⟨2, 5⟩ := by decide
example : @productIter _ ⟨Cubic.mul c7cub.wrap⟩ _ [(⟨1, 2, 3⟩ : Cubic (ZMod 7)), ⟨1, 1, 2⟩, ⟨0, 1, 0⟩]
    = ⟨0, 1, 0⟩ := by decide

end

/-! ### 3. `From<u8 … u128>` / `From<i8 … i128>` -/

section
variable {P F : Type}

/-- prime field, algebraic form: the conversions are the canonical maps `ℕ → F`, `ℤ → F`
    (for `x ≤ 0` the code takes the branch `-abs`; `x = 0` gives `-0 = 0`) -/
theorem from_unsigned_prime [Field F] [DecidableEq F] (x : Nat) :
    fromUnsigned (primeD F) Nat.cast x = (x : F) :=
  fromUnsigned_primeD x

theorem from_signed_prime [Field F] [DecidableEq F] (x : Int) :
    fromSignedInt (primeD F) Nat.cast x = (x : F) :=
  fromSignedInt_primeD x

example : fromSignedInt (primeD (ZMod 7)) Nat.cast (-3) = (4 : ZMod 7) := by decide
example : fromSignedInt (primeD (ZMod 7)) Nat.cast 0 = (0 : ZMod 7) := by decide
example : fromUnsigned (primeD (ZMod 7)) Nat.cast 255 = (3 : ZMod 7) := by decide

variable [Add F] [Sub F] [Mul F] [Neg F] [Zero F] [One F] [DecidableEq F]

/-- one layer up: the value sits in `c0`, the other coordinates are `0` -/
theorem from_unsigned_quad (cfg : QuadCfg F) (B : FieldD P F) (conv : Nat → P) (x : Nat) :
    fromUnsigned (Quad.fieldD cfg B) conv x = ⟨fromUnsigned B conv x, 0⟩ :=
  fromUnsigned_quad cfg B conv x

theorem from_unsigned_cubic (cfg : CubicCfg F) (B : FieldD P F) (conv : Nat → P) (x : Nat) :
    fromUnsigned (Cubic.fieldD cfg B) conv x = ⟨fromUnsigned B conv x, 0, 0⟩ :=
  fromUnsigned_cubic cfg B conv x

/-- signed: the top-level negation reaches the zero coordinates, so `-0 = 0` in the base is needed
    (true in every field and in the executable `Fp p`) -/
theorem from_signed_quad (h0 : -(0 : F) = 0) (cfg : QuadCfg F) (B : FieldD P F) (conv : Nat → P)
    (x : Int) :
    fromSignedInt (Quad.fieldD cfg B) conv x = ⟨fromSignedInt B conv x, 0⟩ :=
  fromSignedInt_quad h0 cfg B conv x

theorem from_signed_cubic (h0 : -(0 : F) = 0) (cfg : CubicCfg F) (B : FieldD P F) (conv : Nat → P)
    (x : Int) :
    fromSignedInt (Cubic.fieldD cfg B) conv x = ⟨fromSignedInt B conv x, 0, 0⟩ :=
  fromSignedInt_cubic h0 cfg B conv x

example : fromSignedInt (Quad.fieldD c7neg.wrap B7) Nat.cast (-3) = (⟨4, 0⟩ : Quad (ZMod 7)) := by
  decide
example : fromSignedInt (Cubic.fieldD c7cub.wrap B7) Nat.cast (-3) = (⟨4, 0, 0⟩ : Cubic (ZMod 7)) := by
  decide

end

/-- `Fp2` / `Fp3` over a prime field: `From<i*>` is `(x : F)` in `c0` -/
theorem from_signed_fp2 {F : Type} [Field F] [DecidableEq F] (cfg : QuadCfg F) (x : Int) :
    fromSignedInt (Quad.fieldD cfg (primeD F)) Nat.cast x = ⟨(x : F), 0⟩ :=
  fromSignedInt_quad_prime cfg x

theorem from_signed_fp3 {F : Type} [Field F] [DecidableEq F] (cfg : CubicCfg F) (x : Int) :
    fromSignedInt (Cubic.fieldD cfg (primeD F)) Nat.cast x = ⟨(x : F), 0, 0⟩ :=
  fromSignedInt_cubic_prime cfg x

/-- executable prime field: `From<u*>` is reduction modulo `p` … -/
theorem from_unsigned_fp (p x : Nat) : (fromUnsigned (fpD p) (Fp.ofNat p) x).val = x % p :=
  fromUnsigned_fp p x

/-- … and `From<i*>` is the least non-negative residue of the signed value -/
theorem from_signed_fp (p : Nat) (hp : 0 < p) (x : Int) :
    (fromSignedInt (fpD p) (Fp.ofNat p) x).val = (x % (p : Int)).toNat :=
  fromSignedInt_fp p hp x

example : (fromSignedInt (fpD 7) (Fp.ofNat 7) (-3)).val = 4 := by decide
example : (fromSignedInt (fpD 7) (Fp.ofNat 7) (-14)).val = 0 := by decide
example : (fromSignedInt (fpD 7) (Fp.ofNat 7) 0).val = 0 := by decide
example : (fromSignedInt (fpD 7) (Fp.ofNat 7) 23).val = 2 := by decide

/-- `OfPrimeLawful` holds at the bottom of a tower and is preserved by both templates -/
theorem fp_of_prime_lawful (p : Nat) : OfPrimeLawful (fpD p) := fpD_ofPrimeLawful p

theorem prime_of_prime_lawful {F : Type} [Field F] [DecidableEq F] : OfPrimeLawful (primeD F) :=
  primeD_ofPrimeLawful

theorem quad_of_prime_lawful {P F : Type} [Zero P] [Neg P]
    [Add F] [Sub F] [Mul F] [Neg F] [Zero F] [One F] [DecidableEq F]
    {cfg : QuadCfg F} {B : FieldD P F} (hB : OfPrimeLawful B) : OfPrimeLawful (Quad.fieldD cfg B) :=
  quad_fieldD_ofPrimeLawful hB

theorem cubic_of_prime_lawful {P F : Type} [Zero P] [Neg P]
    [Add F] [Sub F] [Mul F] [Neg F] [Zero F] [One F] [DecidableEq F]
    {cfg : CubicCfg F} {B : FieldD P F} (hB : OfPrimeLawful B) : OfPrimeLawful (Cubic.fieldD cfg B) :=
  cubic_fieldD_ofPrimeLawful hB

/-- every layer: the base-prime-field coordinates of `From<u*>` are `(conv x, 0, …, 0)` -/
theorem from_unsigned_coords {P E : Type} [Zero P] [Neg P] [Zero E] [Neg E] {D : FieldD P E}
    (hD : OfPrimeLawful D) (conv : Nat → P) (x : Nat) :
    D.toPrimes (fromUnsigned D conv x) = conv x :: List.replicate (D.extDeg - 1) 0 :=
  toPrimes_fromUnsigned hD conv x

/-- every layer: the coordinates of `From<i*>` are `(± conv |x|, 0, …, 0)` -/
theorem from_signed_coords {P E : Type} [Zero P] [Neg P] [Zero E] [Neg E] {D : FieldD P E}
    (hD : OfPrimeLawful D) (h0 : -(0 : P) = 0) (conv : Nat → P) (x : Int) :
    D.toPrimes (fromSignedInt D conv x) =
      (if x > 0 then conv x.natAbs else -conv x.natAbs) :: List.replicate (D.extDeg - 1) 0 :=
  toPrimes_fromSignedInt hD h0 conv x

/-- every layer over the executable `Fp p`: the printed coordinates are `(x mod p, 0, …, 0)` -/
theorem from_unsigned_coords_fp {E : Type} [Zero E] [Neg E] {p : Nat} {D : FieldD (Fp p) E}
    (hD : OfPrimeLawful D) (x : Nat) :
    (D.toPrimes (fromUnsigned D (Fp.ofNat p) x)).map (·.val) =
      x % p :: List.replicate (D.extDeg - 1) 0 :=
  toPrimes_fromUnsigned_fp hD x

theorem from_signed_coords_fp {E : Type} [Zero E] [Neg E] {p : Nat} (hp : 0 < p)
    {D : FieldD (Fp p) E} (hD : OfPrimeLawful D) (x : Int) :
    (D.toPrimes (fromSignedInt D (Fp.ofNat p) x)).map (·.val) =
      (x % (p : Int)).toNat :: List.replicate (D.extDeg - 1) 0 :=
  toPrimes_fromSignedInt_fp hp hD x

/-- two-layer towers over the executable `Fp 7`: `Fp4 = Quad (Quad (Fp 7))`, `Fp6 = Cubic (Quad (Fp 7))` -/
example : OfPrimeLawful D7_4 ∧ OfPrimeLawful D7_6 := ⟨D7_4_ofPrimeLawful, D7_6_ofPrimeLawful⟩
example : (D7_4.toPrimes (fromSignedInt D7_4 (Fp.ofNat 7) (-3))).map (·.val) = [4, 0, 0, 0] := by
  decide
example : (D7_6.toPrimes (fromUnsigned D7_6 (Fp.ofNat 7) 255)).map (·.val) = [3, 0, 0, 0, 0, 0] := by
  decide

/-! ### 4. `<[u8] as ToConstraintField<F>>::to_field_elements` -/

/-- `chunks(0)` panics exactly for moduli of at most 8 bits -/
theorem bytes_to_field_panic_iff (p : Nat) (bs : List Nat) :
    bytesToFieldElements p bs = .panic ↔ p < 2 ^ 8 :=
  bytesToFieldElements_panic_iff p bs

/-- the chunk size `(MODULUS_BIT_SIZE - 1) / 8` vanishes exactly for `p < 256` -/
theorem chunk_size_eq_zero_iff (p : Nat) : chunkSize p = 0 ↔ p < 2 ^ 8 :=
  chunkSize_eq_zero_iff p

/-- for `p ≥ 2^8` and byte inputs the result is `Some`, one element per chunk of
    `m = (MODULUS_BIT_SIZE - 1) / 8` bytes, each the little-endian value of its chunk -/
theorem bytes_to_field_eq (p : Nat) (hp : 2 ^ 8 ≤ p) (bs : List Nat) (hbs : ∀ b ∈ bs, b < 256) :
    bytesToFieldElements p bs = .ok (some ((chunks (chunkSize p) bs bs.length).map leValue)) :=
  bytesToFieldElements_eq p hp bs hbs

/-- in particular `None` is never returned on byte inputs -/
theorem bytes_to_field_ne_none (p : Nat) (bs : List Nat) (hbs : ∀ b ∈ bs, b < 256) :
    bytesToFieldElements p bs ≠ .ok none := by
  by_cases hp : 2 ^ 8 ≤ p
  · rw [bytes_to_field_eq p hp bs hbs]; simp
  · rw [(bytes_to_field_panic_iff p bs).mpr (by omega)]; simp

/-- every element is `< 256^m ≤ 2^(bits-1) ≤ p`: canonical, and the range check cannot fail -/
theorem bytes_to_field_lt (p : Nat) (hp : 2 ^ 8 ≤ p) (bs : List Nat) (hbs : ∀ b ∈ bs, b < 256) :
    ∀ v ∈ (chunks (chunkSize p) bs bs.length).map leValue, v < 256 ^ chunkSize p ∧ v < p :=
  leValue_chunk_lt p hp bs hbs

theorem pow_chunk_size_le (p : Nat) (hp : p ≠ 0) : 256 ^ chunkSize p ≤ p :=
  pow_chunkSize_le p hp

/-- the number of field elements is `⌈len / m⌉` -/
theorem bytes_to_field_length (p : Nat) (hp : 2 ^ 8 ≤ p) (bs : List Nat) :
    ((chunks (chunkSize p) bs bs.length).map leValue).length
      = (bs.length + chunkSize p - 1) / chunkSize p := by
  rw [List.length_map]
  exact chunks_length _ (Nat.pos_of_ne_zero (by rw [Ne, chunkSize_eq_zero_iff]; omega)) bs

/-- `leValue` is the little-endian value `Ark.bytesLE` of C15 -/
theorem le_value_eq_bytesLE (l : List Nat) : leValue l = Ark.bytesLE l :=
  leValue_eq_bytesLE l

example : bytesToFieldElements 65537 [1, 2, 3, 4, 5] = .ok (some [513, 1027, 5]) := by decide +kernel
example : chunkSize 65537 = 2 ∧ (chunks 2 [1, 2, 3, 4, 5] 5).map leValue = [513, 1027, 5] := by
  decide +kernel
example : bytesToFieldElements 255 [1, 2, 3] = .panic := by decide +kernel
example : bytesToFieldElements 256 [1, 2, 3] = .ok (some [1, 2, 3]) := by decide +kernel
/-- the byte hypothesis is needed (the model takes `Nat`s): an out-of-range "byte" gives `None` -/
example : bytesToFieldElements 256 [1, 300] = .ok none := by decide +kernel

end Ark.C02c

