import Ark.Proofs.ExtB
/-
  Property C02 (part B) — norms, inverses, Frobenius, cyclotomic operations and coordinate
  conversions of the extension-field templates of `Ark.Model.Ext`
  (ff/src/fields/models/{quadratic_extension,cubic_extension,fp2,fp3,fp12_2over3over2}.rs,
  ff/src/fields/cyclotomic.rs), over an arbitrary base field `F`.

  Assumptions are bundled (definitions in `Ark/Proofs/ExtB.lean`, namespace `Ark.ExtB`):
  * `BaseLawful B`   — the base dictionary computes `x*x`, `x+x`, `a0*b0+a1*b1`, and
                       `inverse x = .ok (if x = 0 then none else some x⁻¹)`;
  * `QuadLawful cfg` / `CubicLawful cfg` — the hooks multiply by the constant `NONRESIDUE`;
  * `PrimesLawful B` — `to/from_base_prime_field_elem(s)` of the base are inverse bijections with
                       the lists of length `extension_degree()`.
  These are established for the prime field (`primeD_lawful`, `primeD_primesLawful`), for the wrappers
  (`Fp2Cfg.default_wrap_lawful`, …) and are *preserved* by the templates
  (`quad_fieldD_base_lawful`, `cubic_fieldD_base_lawful`, `quad_primes_lawful`, …), so the results
  apply to every layer of a tower (`fp4_frob_pow`, `fp12_cyc_exp…` are two- and three-layer instances).
  Powers `a ^ n` on an extension are taken in the commutative ring `Quad.commRing` /
  `Cubic.commRing` whose multiplication is *definitionally* the model's `Quad.mul cfg B` /
  `Cubic.mul cfg` (`quad_ring_mul`, `cubic_ring_mul`).

  Sharpness is recorded next to the positive results: `quad_inverse_square_nonresidue`
  (β a square ⇒ a non-zero element without inverse), `cubic_inverse_panics_of_cube` (β a cube ⇒ the
  `unwrap` panics), `fp2_frob_panics_of_short_table` (short table ⇒ index panic), and the `F₇`
  example of a unitary element outside the cyclotomic subgroup on which Granger–Scott is wrong.
-/
set_option linter.style.haveILetI false
set_option linter.unusedSectionVars false

namespace Ark.C02
open Ark Ark.Ext Ark.ExtB

section
variable {P F : Type} [Field F] [DecidableEq F]

/-! ### 13. the quadratic norm -/

/-- `norm a = a.c0² - β a.c1²` -/
theorem quad_norm_formula {cfg : QuadCfg F} {B : FieldD P F} (hB : BaseLawful B)
    (hc : QuadLawful cfg) (a : Quad F) :
    Quad.norm cfg B a = a.c0 ^ 2 - cfg.nonresidue * a.c1 ^ 2 :=
  Quad.norm_eq hB hc a

/-- `a · conj a = (norm a, 0)` -/
theorem quad_mul_conj {cfg : QuadCfg F} {B : FieldD P F} (hB : BaseLawful B)
    (hc : QuadLawful cfg) (a : Quad F) :
    Quad.mul cfg B a (Quad.conj a) = ⟨Quad.norm cfg B a, 0⟩ :=
  Quad.mul_conj hB hc a

/-- the norm is multiplicative -/
theorem quad_norm_mul {cfg : QuadCfg F} {B : FieldD P F} (hB : BaseLawful B)
    (hc : QuadLawful cfg) (a b : Quad F) :
    Quad.norm cfg B (Quad.mul cfg B a b) = Quad.norm cfg B a * Quad.norm cfg B b :=
  Quad.norm_mul hB hc a b

example : QuadLawful c7three.wrap ∧ BaseLawful B7 := ⟨c7three_lawful, B7_lawful⟩
example : Quad.norm c7three.wrap B7 (⟨2, 5⟩ : Quad (ZMod 7)) = 6 := by decide
example : Quad.mul c7neg.wrap B7 (⟨2, 5⟩ : Quad (ZMod 7)) (Quad.conj ⟨2, 5⟩) = ⟨1, 0⟩ := by decide

/-! ### 14, 15. the quadratic inverse -/

/-- if `NONRESIDUE` is not a square, every non-zero element has non-zero norm … -/
theorem quad_norm_ne_zero {cfg : QuadCfg F} {B : FieldD P F} (hB : BaseLawful B)
    (hc : QuadLawful cfg) (hnr : ∀ x : F, x * x ≠ cfg.nonresidue) (a : Quad F) (ha : a ≠ 0) :
    Quad.norm cfg B a ≠ 0 :=
  Quad.norm_ne_zero hB hc hnr a ha

/-- … and `inverse` returns `some b` with `a · b = 1`. -/
theorem quad_inverse_correct {cfg : QuadCfg F} {B : FieldD P F} (hB : BaseLawful B)
    (hc : QuadLawful cfg) (hnr : ∀ x : F, x * x ≠ cfg.nonresidue) (a : Quad F) (ha : a ≠ 0) :
    ∃ b, Quad.inverse cfg B a = .ok (some b) ∧ Quad.mul cfg B a b = 1 :=
  ⟨_, Quad.inverse_eq hB hc a (Quad.norm_ne_zero hB hc hnr a ha),
    Quad.mul_inverse hB hc a (Quad.norm_ne_zero hB hc hnr a ha)⟩

/-- the non-residue hypothesis is exactly what is needed: if `β = x²` then `(x, 1) ≠ 0` has norm
    zero and `inverse` returns `None` on it. -/
theorem quad_inverse_square_nonresidue {cfg : QuadCfg F} {B : FieldD P F} (hB : BaseLawful B)
    (hc : QuadLawful cfg) (x : F) (hx : x * x = cfg.nonresidue) :
    (⟨x, 1⟩ : Quad F) ≠ 0 ∧ Quad.inverse cfg B ⟨x, 1⟩ = .ok none :=
  Quad.inverse_none_of_square hB hc x hx

/-- `inverse` never panics -/
theorem quad_inverse_no_panic {cfg : QuadCfg F} {B : FieldD P F} (hB : BaseLawful B) (a : Quad F) :
    Quad.inverse cfg B a ≠ .panic :=
  Quad.inverse_total hB a

/-- `inverse 0 = None` -/
theorem quad_inverse_zero {cfg : QuadCfg F} {B : FieldD P F} :
    Quad.inverse cfg B (0 : Quad F) = .ok none :=
  Quad.inverse_zero

example : ∀ x : ZMod 7, x * x ≠ c7neg.wrap.nonresidue := nonsq7_neg
example : Quad.inverse c7neg.wrap B7 (⟨3, 4⟩ : Quad (ZMod 7)) = .ok (some ⟨6, 6⟩) := by
  decide +kernel
example : Quad.mul c7neg.wrap B7 (⟨3, 4⟩ : Quad (ZMod 7)) ⟨6, 6⟩ = 1 := by decide
/-- over `F₇`, `2 = 3²` is a square: `X² - 2` is reducible and `(3, 1)` has no inverse -/
example : Quad.inverse (Fp2Cfg.default (2 : ZMod 7) []).wrap B7 ⟨3, 1⟩ = .ok none := by
  decide +kernel

/-! ### 16. the cubic inverse -/

/-- if `NONRESIDUE` is not a cube the norm form `a0³ + β a1³ + β² a2³ - 3β a0 a1 a2` is anisotropic -/
theorem cubic_norm_form_ne_zero (β : F) (hnc : ∀ x : F, x ^ 3 ≠ β) (a : Cubic F) (ha : a ≠ 0) :
    a.c0 ^ 3 + β * a.c1 ^ 3 + β ^ 2 * a.c2 ^ 3 - 3 * β * a.c0 * a.c1 * a.c2 ≠ 0 :=
  Cubic.normF_ne_zero β hnc a ha

/-- `inverse` returns `some b` with `a · b = 1`: the `unwrap` is unreachable. -/
theorem cubic_inverse_correct {cfg : CubicCfg F} {B : FieldD P F} (hB : BaseLawful B)
    (hc : CubicLawful cfg) (hnc : ∀ x : F, x ^ 3 ≠ cfg.nonresidue) (a : Cubic F) (ha : a ≠ 0) :
    ∃ b, Cubic.inverse cfg B a = .ok (some b) ∧ Cubic.mul cfg a b = 1 :=
  ⟨_, Cubic.inverse_eq hB hc a (Cubic.normF_ne_zero _ hnc a ha),
    Cubic.mul_inverse hc a (Cubic.normF_ne_zero _ hnc a ha)⟩

theorem cubic_inverse_zero {cfg : CubicCfg F} {B : FieldD P F} :
    Cubic.inverse cfg B (0 : Cubic F) = .ok none :=
  Cubic.inverse_zero

/-- the `unwrap` IS reachable when `β` is a cube: with `β = x³`, `(x², x, 1)·(x, -1, 0) = 0`, the
    element `(-x, 1, 0)` is non-zero with vanishing norm and `inverse` panics on it. -/
theorem cubic_inverse_panics_of_cube {cfg : CubicCfg F} {B : FieldD P F} (hB : BaseLawful B)
    (hc : CubicLawful cfg) (x : F) (hx : x ^ 3 = cfg.nonresidue) :
    Cubic.inverse cfg B (⟨-x, 1, 0⟩ : Cubic F) = .panic :=
  Cubic.inverse_panic_of_cube hB hc x hx

example : ∀ x : ZMod 7, x ^ 3 ≠ c7cub.wrap.nonresidue := noncube7
example : Cubic.inverse c7cub.wrap B7 (⟨1, 2, 3⟩ : Cubic (ZMod 7)) = .ok (some ⟨1, 1, 2⟩) := by
  decide +kernel
example : Cubic.mul c7cub.wrap (⟨1, 2, 3⟩ : Cubic (ZMod 7)) ⟨1, 1, 2⟩ = 1 := by decide
/-- `6 = (-1)³` is a cube in `F₇`: the `unwrap` panics -/
example : Cubic.inverse (Fp3Cfg.default (6 : ZMod 7) [] []).wrap B7 ⟨1, 1, 0⟩ = .panic := by
  decide +kernel

/-! ### the templates produce lawful dictionaries (towers) -/

/-- `Quad F` with the model's operations is a field and `Quad.fieldD` is lawful for it -/
theorem quad_fieldD_base_lawful {cfg : QuadCfg F} {B : FieldD P F} (hB : BaseLawful B)
    (hc : QuadLawful cfg) (hnr : ∀ x : F, x * x ≠ cfg.nonresidue) :
    @BaseLawful P (Quad F) (Quad.field cfg B hB hc hnr) _ (Quad.fieldD cfg B) :=
  Quad.fieldD_baseLawful hB hc hnr

theorem cubic_fieldD_base_lawful {cfg : CubicCfg F} {B : FieldD P F} (hB : BaseLawful B)
    (hc : CubicLawful cfg) (hnc : ∀ x : F, x ^ 3 ≠ cfg.nonresidue) :
    @BaseLawful P (Cubic F) (Cubic.field cfg hc hnc) _ (Cubic.fieldD cfg B) :=
  Cubic.fieldD_baseLawful hB hc hnc

/-- the ring multiplication is the model's multiplication (by definition) -/
theorem quad_ring_mul {cfg : QuadCfg F} {B : FieldD P F} (hB : BaseLawful B) (hc : QuadLawful cfg)
    (a b : Quad F) :
    letI := Quad.commRing cfg B hB hc
    a * b = Quad.mul cfg B a b := rfl

theorem cubic_ring_mul {cfg : CubicCfg F} (hc : CubicLawful cfg) (a b : Cubic F) :
    letI := Cubic.commRing cfg hc
    a * b = Cubic.mul cfg a b := rfl

/-! ### 18. Frobenius -/

/-- quadratic layer: base Frobenius `= x ↦ x^(p^k)`, hook `= · * c (k % D)` with
    `c i = β^((p^i-1)/2)` for `i < D`, `D` a period of the `p`-power map ⇒
    `frobenius_map(k)` returns `a^(p^k)`; in particular it does not panic. -/
theorem quad_frob_pow {cfg : QuadCfg F} {B : FieldD P F} (p : ℕ) [Fact p.Prime] [CharP F p]
    (hp2 : p % 2 = 1) (hB : BaseLawful B) (hc : QuadLawful cfg)
    (hfrobB : ∀ x k, B.frob x k = .ok (x ^ p ^ k))
    (D : ℕ) (c : ℕ → F)
    (hmf : ∀ fe k, cfg.mulFrobCoeff fe k = .ok (fe * c (k % D)))
    (hcv : ∀ i, i < D → c i = cfg.nonresidue ^ ((p ^ i - 1) / 2))
    (hD : 0 < D)
    (hper : letI := Quad.commRing cfg B hB hc; ∀ y : Quad F, y ^ p ^ D = y)
    (a : Quad F) (k : ℕ) :
    letI := Quad.commRing cfg B hB hc
    Quad.frob cfg B a k = .ok (a ^ p ^ k) :=
  Quad.frob_eq_pow p hp2 hB hc hfrobB D c hmf hcv hD hper a k

/-- the period hypothesis holds over a finite base field with `|F|² = p^D` -/
theorem quad_pow_period [Fintype F] {cfg : QuadCfg F} {B : FieldD P F} (hB : BaseLawful B)
    (hc : QuadLawful cfg) (hnr : ∀ x : F, x * x ≠ cfg.nonresidue) (p D : ℕ)
    (hcard : Fintype.card F ^ 2 = p ^ D) :
    letI := Quad.commRing cfg B hB hc
    ∀ y : Quad F, y ^ p ^ D = y :=
  Quad.pow_period hB hc hnr p D hcard

/-- cubic layer (`p ≡ 1 mod 3`): tables `c1 i = β^((p^i-1)/3)`, `c2 i = β^((2p^i-2)/3)` -/
theorem cubic_frob_pow {cfg : CubicCfg F} {B : FieldD P F} (p : ℕ) [Fact p.Prime] [CharP F p]
    (hp3 : p % 3 = 1) (hc : CubicLawful cfg)
    (hfrobB : ∀ x k, B.frob x k = .ok (x ^ p ^ k))
    (D : ℕ) (c1 c2 : ℕ → F)
    (hmf : ∀ x y k, cfg.mulFrobCoeff x y k = .ok (x * c1 (k % D), y * c2 (k % D)))
    (hcv1 : ∀ i, i < D → c1 i = cfg.nonresidue ^ ((p ^ i - 1) / 3))
    (hcv2 : ∀ i, i < D → c2 i = cfg.nonresidue ^ ((2 * p ^ i - 2) / 3))
    (hD : 0 < D)
    (hper : letI := Cubic.commRing cfg hc; ∀ y : Cubic F, y ^ p ^ D = y)
    (a : Cubic F) (k : ℕ) :
    letI := Cubic.commRing cfg hc
    Cubic.frob cfg B a k = .ok (a ^ p ^ k) :=
  Cubic.frob_eq_pow p hp3 hc hfrobB D c1 c2 hmf hcv1 hcv2 hD hper a k

theorem cubic_pow_period [Fintype F] {cfg : CubicCfg F} (hc : CubicLawful cfg)
    (hnc : ∀ x : F, x ^ 3 ≠ cfg.nonresidue) (p D : ℕ) (hcard : Fintype.card F ^ 3 = p ^ D) :
    letI := Cubic.commRing cfg hc
    ∀ y : Cubic F, y ^ p ^ D = y :=
  Cubic.pow_period hc hnc p D hcard

/-- base case: on a prime field (`|F| = p`) the identity is `x ↦ x^(p^k)` -/
theorem prime_frob_pow [Fintype F] (p : ℕ) (hcard : Fintype.card F = p) (x : F) (k : ℕ) :
    (primeD F).frob x k = .ok (x ^ p ^ k) :=
  primeD_frob p hcard x k

/-- `Fp2ConfigWrapper` over the prime field: the hook indexes `FROBENIUS_COEFF_FP2_C1[k % 2]`, which
    never panics for a table of length 2, and `frobenius_map(k) = a ↦ a^(p^k)` -/
theorem fp2_frob_pow [Fintype F] (p : ℕ) [Fact p.Prime] [CharP F p] (hp2 : p % 2 = 1)
    (hcard : Fintype.card F = p) (c : Fp2Cfg F) (hc : QuadLawful c.wrap)
    (hnr : ∀ x : F, x * x ≠ c.wrap.nonresidue)
    (hlen : c.frobC1.length = 2)
    (htbl : ∀ i, i < 2 → c.frobC1.getD i 0 = c.nonresidue ^ ((p ^ i - 1) / 2))
    (a : Quad F) (k : ℕ) :
    letI := Quad.commRing c.wrap (primeD F) primeD_lawful hc
    Quad.frob c.wrap (primeD F) a k = .ok (a ^ p ^ k) :=
  Fp2.frob_eq_pow p hp2 hcard c hc hnr hlen htbl a k

theorem fp3_frob_pow [Fintype F] (p : ℕ) [Fact p.Prime] [CharP F p] (hp3 : p % 3 = 1)
    (hcard : Fintype.card F = p) (c : Fp3Cfg F) (hc : CubicLawful c.wrap)
    (hnc : ∀ x : F, x ^ 3 ≠ c.wrap.nonresidue)
    (hlen1 : c.frobC1.length = 3) (hlen2 : c.frobC2.length = 3)
    (htbl1 : ∀ i, i < 3 → c.frobC1.getD i 0 = c.nonresidue ^ ((p ^ i - 1) / 3))
    (htbl2 : ∀ i, i < 3 → c.frobC2.getD i 0 = c.nonresidue ^ ((2 * p ^ i - 2) / 3))
    (a : Cubic F) (k : ℕ) :
    letI := Cubic.commRing c.wrap hc
    Cubic.frob c.wrap (primeD F) a k = .ok (a ^ p ^ k) :=
  Fp3.frob_eq_pow p hp3 hcard c hc hnc hlen1 hlen2 htbl1 htbl2 a k

/-- a truncated table makes `frobenius_map` panic for some power (the slice index) -/
theorem fp2_frob_panics_of_short_table (c : Fp2Cfg F) (B : FieldD P F)
    (hB : ∀ x k, B.frob x k ≠ .panic) (hlen : c.frobC1.length < 2) (a : Quad F) :
    Quad.frob c.wrap B a c.frobC1.length = .panic :=
  Fp2.frob_panic_of_short_table c B hB hlen a

example : c7neg.frobC1.length = 2 ∧
    ∀ i, i < 2 → c7neg.frobC1.getD i 0 = c7neg.nonresidue ^ ((7 ^ i - 1) / 2) := by
  refine ⟨rfl, fun i hi => ?_⟩
  interval_cases i <;> decide
example : Fintype.card (ZMod 7) = 7 := ZMod.card 7
example : Quad.frob c7neg.wrap B7 (⟨2, 5⟩ : Quad (ZMod 7)) 3 = .ok ⟨2, 2⟩ := by decide
example : c7cub.frobC1.length = 3 ∧ c7cub.frobC2.length = 3 ∧
    (∀ i, i < 3 → c7cub.frobC1.getD i 0 = c7cub.nonresidue ^ ((7 ^ i - 1) / 3)) ∧
    (∀ i, i < 3 → c7cub.frobC2.getD i 0 = c7cub.nonresidue ^ ((2 * 7 ^ i - 2) / 3)) := by
  refine ⟨rfl, rfl, fun i hi => ?_, fun i hi => ?_⟩ <;> interval_cases i <;> decide
example : Cubic.frob c7cub.wrap B7 (⟨1, 2, 3⟩ : Cubic (ZMod 7)) 1 = .ok ⟨1, 4, 5⟩ := by decide

/-- the Frobenius hooks of the upper wrappers multiply by the (embedded) table entry
    `C1[k % DEGREE]`; none of them panics when the table has `DEGREE` entries: `Fp4` … -/
theorem fp4_frob_hook (c2 : Fp2Cfg F) {B : FieldD P F} (hB : BaseLawful B)
    (hc : QuadLawful c2.wrap) (nr : Quad F) (tbl : List F) (h : tbl.length = 4)
    (fe : Quad F) (k : ℕ) :
    letI := Quad.commRing c2.wrap B hB hc
    (Fp4.cfg c2 nr tbl).mulFrobCoeff fe k = .ok (fe * (⟨tbl.getD (k % 4) 0, 0⟩ : Quad F)) :=
  Fp4.cfg_mulFrobCoeff c2 hB hc nr tbl h fe k

/-- … `Fp6` (2-over-3) … -/
theorem fp6a_frob_hook (c3 : Fp3Cfg F) (hc : CubicLawful c3.wrap) (nr : Cubic F)
    (tbl : List F) (h : tbl.length = 6) (fe : Cubic F) (k : ℕ) :
    letI := Cubic.commRing c3.wrap hc
    (Fp6a.cfg c3 nr tbl).mulFrobCoeff fe k = .ok (fe * (⟨tbl.getD (k % 6) 0, 0, 0⟩ : Cubic F)) :=
  Fp6a.cfg_mulFrobCoeff c3 hc nr tbl h fe k

/-- … `Fp6` (3-over-2) … -/
theorem fp6b_frob_hook (c : Fp6bCfg F) (h1 : c.frobC1.length = 6) (h2 : c.frobC2.length = 6)
    (x y : F) (k : ℕ) :
    c.wrap.mulFrobCoeff x y k =
      .ok (x * c.frobC1.getD (k % 6) 0, y * c.frobC2.getD (k % 6) 0) :=
  Fp6bCfg.wrap_mulFrobCoeff c h1 h2 x y k

/-- … and `Fp12`. Together with `quad_frob_pow` / `cubic_frob_pow` (whose base-Frobenius hypothesis is
    the conclusion for the layer below) this covers every layer of the towers. -/
theorem fp12_frob_hook (c6 : Fp6bCfg F) (hc : CubicLawful c6.wrap) (nr : Cubic F)
    (tbl : List F) (h : tbl.length = 12) (fe : Cubic F) (k : ℕ) :
    letI := Cubic.commRing c6.wrap hc
    (Fp12.cfg c6 nr tbl).mulFrobCoeff fe k = .ok (fe * (⟨tbl.getD (k % 12) 0, 0, 0⟩ : Cubic F)) :=
  Fp12.cfg_mulFrobCoeff c6 hc nr tbl h fe k

/-- the two-layer composition spelled out for `Fp4 = Fp2[Y]/(Y² - X)` over the prime field -/
theorem fp4_frob_pow [Fintype F] (p : ℕ) [Fact p.Prime] [CharP F p] (hp2 : p % 2 = 1)
    (hcard : Fintype.card F = p) (c2 : Fp2Cfg F) (hc2 : QuadLawful c2.wrap)
    (hnr2 : ∀ x : F, x * x ≠ c2.wrap.nonresidue)
    (hlen2 : c2.frobC1.length = 2)
    (htbl2 : ∀ i, i < 2 → c2.frobC1.getD i 0 = c2.nonresidue ^ ((p ^ i - 1) / 2))
    (tbl4 : List F) (hlen4 : tbl4.length = 4)
    (hnr4 : letI := Quad.field c2.wrap (primeD F) primeD_lawful hc2 hnr2
      ∀ x : Quad F, x * x ≠ ⟨0, 1⟩)
    (htbl4 : letI := Quad.field c2.wrap (primeD F) primeD_lawful hc2 hnr2
      ∀ i, i < 4 → (⟨tbl4.getD i 0, 0⟩ : Quad F) = (⟨0, 1⟩ : Quad F) ^ ((p ^ i - 1) / 2))
    (a : Quad (Quad F)) (k : ℕ) :
    letI := Quad.field c2.wrap (primeD F) primeD_lawful hc2 hnr2
    letI := Quad.commRing (Fp4.cfg c2 ⟨0, 1⟩ tbl4) (Quad.fieldD c2.wrap (primeD F))
      (Quad.fieldD_baseLawful primeD_lawful hc2 hnr2) (Fp4.cfg_lawful c2 primeD_lawful hc2 hnr2 tbl4)
    Quad.frob (Fp4.cfg c2 ⟨0, 1⟩ tbl4) (Quad.fieldD c2.wrap (primeD F)) a k = .ok (a ^ p ^ k) :=
  Fp4.frob_eq_pow p hp2 hcard c2 hc2 hnr2 hlen2 htbl2 tbl4 hlen4 hnr4 htbl4 a k

/-- non-vacuity of `fp4_frob_pow` over `F₅` (`X² = 2`, `Y² = X`; over `F₇` the element `X` is always
    a square of `F₄₉`) -/
example :
    letI := Quad.field c5two.wrap (primeD (ZMod 5)) primeD_lawful c5two_lawful nonsq5
    (∀ x : Quad (ZMod 5), x * x ≠ ⟨0, 1⟩) ∧
    ∀ i, i < 4 → (⟨tbl5.getD i 0, 0⟩ : Quad (ZMod 5)) = (⟨0, 1⟩ : Quad (ZMod 5)) ^ ((5 ^ i - 1) / 2) :=
  ⟨nonsq5_4, tbl5_ok⟩
example : c5two.frobC1.length = 2 ∧
    ∀ i, i < 2 → c5two.frobC1.getD i 0 = c5two.nonresidue ^ ((5 ^ i - 1) / 2) := by
  refine ⟨rfl, fun i hi => ?_⟩
  interval_cases i <;> decide
example : Quad.frob (Fp4.cfg c5two ⟨0, 1⟩ tbl5) (Quad.fieldD c5two.wrap (primeD (ZMod 5)))
    (⟨⟨1, 2⟩, ⟨3, 4⟩⟩ : Quad (Quad (ZMod 5))) 1 = .ok ⟨⟨1, 3⟩, ⟨1, 2⟩⟩ := by decide

/-! ### 17. the cubic norm -/

/-- once `frobenius_map(d)`, `frobenius_map(2d)` are the `q`- and `q²`-power maps (`q = |F|`), the
    `assert!` is unreachable and the result is `a^q · a^(q²) · a ∈ F`. -/
theorem cubic_norm_no_panic [Fintype F] {cfg : CubicCfg F} {B : FieldD P F} (hc : CubicLawful cfg)
    (hnc : ∀ x : F, x ^ 3 ≠ cfg.nonresidue) (a : Cubic F)
    (hf1 : letI := Cubic.commRing cfg hc
      Cubic.frob cfg B a B.extDeg = .ok (a ^ Fintype.card F))
    (hf2 : letI := Cubic.commRing cfg hc
      Cubic.frob cfg B a (2 * B.extDeg) = .ok (a ^ Fintype.card F ^ 2)) :
    letI := Cubic.commRing cfg hc
    ∃ n : F, Cubic.norm cfg B a = .ok n ∧
      (⟨n, 0, 0⟩ : Cubic F) = a ^ Fintype.card F * (a ^ Fintype.card F ^ 2 * a) :=
  Cubic.norm_spec hc hnc a hf1 hf2

/-- `Fp3` over the prime field with correct tables: unconditional -/
theorem fp3_norm_no_panic [Fintype F] (p : ℕ) [Fact p.Prime] [CharP F p] (hp3 : p % 3 = 1)
    (hcard : Fintype.card F = p) (c : Fp3Cfg F) (hc : CubicLawful c.wrap)
    (hnc : ∀ x : F, x ^ 3 ≠ c.wrap.nonresidue)
    (hlen1 : c.frobC1.length = 3) (hlen2 : c.frobC2.length = 3)
    (htbl1 : ∀ i, i < 3 → c.frobC1.getD i 0 = c.nonresidue ^ ((p ^ i - 1) / 3))
    (htbl2 : ∀ i, i < 3 → c.frobC2.getD i 0 = c.nonresidue ^ ((2 * p ^ i - 2) / 3))
    (a : Cubic F) :
    letI := Cubic.commRing c.wrap hc
    ∃ n : F, Cubic.norm c.wrap (primeD F) a = .ok n ∧
      (⟨n, 0, 0⟩ : Cubic F) = a ^ p * (a ^ p ^ 2 * a) :=
  Fp3.norm_spec p hp3 hcard c hc hnc hlen1 hlen2 htbl1 htbl2 a

example : Cubic.norm c7cub.wrap B7 (⟨1, 2, 3⟩ : Cubic (ZMod 7)) = .ok 4 := by decide
/-- with a wrong table (all ones) the `assert!` fires -/
example : Cubic.norm (Fp3Cfg.default (3 : ZMod 7) [1, 1, 1] [1, 1, 1]).wrap B7 ⟨1, 2, 3⟩ = .panic := by
  decide

/-! ### 19. cyclotomic inverse -/

/-- on unitary elements (`norm a = 1`) `cyclotomic_inverse` returns the conjugate, which is the
    inverse, and coincides with the generic `inverse` -/
theorem cyc_inverse_unitary {cfg : QuadCfg F} {B : FieldD P F} (hB : BaseLawful B)
    (hc : QuadLawful cfg) (D : FieldD P (Quad F)) (cs : Option (Quad F → Quad F)) (a : Quad F)
    (hn : Quad.norm cfg B a = 1) :
    (CycD.conj D cs).cycInverse a = .ok (some (Quad.conj a)) ∧
    Quad.mul cfg B a (Quad.conj a) = 1 ∧
    Quad.inverse cfg B a = .ok (some (Quad.conj a)) :=
  ⟨cycInverse_conj hB hc D cs a hn, Quad.mul_conj_of_norm_one hB hc a hn,
    Quad.inverse_of_norm_one hB hc a hn⟩

/-- in the field structure: `cyclotomic_inverse a = some a⁻¹` -/
theorem cyc_inverse_unitary_inv {cfg : QuadCfg F} {B : FieldD P F} (hB : BaseLawful B)
    (hc : QuadLawful cfg) (hnr : ∀ x : F, x * x ≠ cfg.nonresidue) (D : FieldD P (Quad F))
    (cs : Option (Quad F → Quad F)) (a : Quad F) (hn : Quad.norm cfg B a = 1) :
    letI := Quad.field cfg B hB hc hnr
    (CycD.conj D cs).cycInverse a = .ok (some a⁻¹) :=
  cycInverse_conj_inv hB hc hnr D cs a hn

/-- `cyclotomic_inverse 0 = None` -/
theorem cyc_inverse_zero (D : FieldD P (Quad F)) (cs : Option (Quad F → Quad F)) :
    (CycD.conj D cs).cycInverse (0 : Quad F) = .ok none :=
  cycInverse_conj_zero D cs

example : Quad.norm c7neg.wrap B7 (⟨2, 5⟩ : Quad (ZMod 7)) = 1 := by decide

/-! ### 20. `exp_loop` and `cyclotomic_exp` -/

/-- `exp_loop`'s fold over signed digits (most significant first), starting from `(1, false)`:
    on a unit `u` (with `self_inverse = u⁻¹` when inverses are fast) whose powers are squared
    correctly, the result is `u ^ (value of the digits)`. -/
theorem exp_loop_go_units {E : Type} [Monoid E] [Zero E] [DecidableEq E] (C : CycD E) (u : Eˣ)
    (sinv : E)
    (hsq : ∀ z : ℤ, C.cycSquare ((u ^ z : Eˣ) : E) = ((u ^ z : Eˣ) : E) * ((u ^ z : Eˣ) : E))
    (hinv : C.inverseIsFast = true → sinv = ((u⁻¹ : Eˣ) : E))
    (ds : List Int)
    (hd : ∀ d ∈ ds, d = 0 ∨ d = 1 ∨ (d = -1 ∧ C.inverseIsFast = true)) :
    expLoopGo C (u : E) sinv ds 1 false = ((u ^ digitsValue ds.reverse : Eˣ) : E) := by
  have := expLoopGo_units C u sinv hsq hinv ds hd 0 false (fun _ => rfl)
  simpa using this

/-- `cyclotomic_exp(e)` (both the NAF branch and the plain-bits branch) computes `u ^ e` -/
theorem cyc_exp_units {E : Type} [Monoid E] [Zero E] [DecidableEq E] (C : CycD E) (u : Eˣ)
    (hu : (u : E) ≠ 0)
    (hsq : ∀ z : ℤ, C.cycSquare ((u ^ z : Eˣ) : E) = ((u ^ z : Eˣ) : E) * ((u ^ z : Eˣ) : E))
    (hinv : C.inverseIsFast = true → C.cycInverse (u : E) = .ok (some ((u⁻¹ : Eˣ) : E)))
    (e : List Nat) (he : WF e) :
    cycExp C (u : E) e = .ok ((u : E) ^ value e) :=
  cycExp_units C u hu hsq hinv e he

/-- `cyclotomic_exp` of zero is zero (early return) -/
theorem cyc_exp_zero {E : Type} [Monoid E] [Zero E] [DecidableEq E] (C : CycD E) (e : List Nat) :
    cycExp C (0 : E) e = .ok 0 :=
  cycExp_zero C e

/-- quadratic-extension impls with the generic squaring (Fp2, Fp4, Fp6 2-over-3): on a unitary
    element, `cyclotomic_exp(e) = a ^ e`; no panic (the `unwrap` of `cyclotomic_inverse` is fine) -/
theorem quad_cyc_exp {cfg : QuadCfg F} {B : FieldD P F} (hB : BaseLawful B) (hc : QuadLawful cfg)
    (a : Quad F) (hn : Quad.norm cfg B a = 1) (e : List Nat) (he : WF e) :
    letI := Quad.commRing cfg B hB hc
    cycExp (CycD.conj (Quad.fieldD cfg B) none) a e = .ok (a ^ value e) :=
  Quad.cycExp_conj hB hc a hn e he

/-- default impl (Fp3, Fp6 3-over-2; plain bits, no inverse) on a non-zero element -/
theorem cubic_cyc_exp {cfg : CubicCfg F} {B : FieldD P F} (hB : BaseLawful B)
    (hc : CubicLawful cfg) (hnc : ∀ x : F, x ^ 3 ≠ cfg.nonresidue) (a : Cubic F) (ha : a ≠ 0)
    (e : List Nat) (he : WF e) :
    letI := Cubic.commRing cfg hc
    cycExp (CycD.default (Cubic.fieldD cfg B)) a e = .ok (a ^ value e) :=
  Cubic.cycExp_default hB hc hnc a ha e he

example : WF [11] := by unfold WF; decide +kernel
example :
    letI : Mul (Quad (ZMod 7)) := ⟨Quad.mul c7neg.wrap B7⟩
    cycExp (CycD.conj (Quad.fieldD c7neg.wrap B7) none) (⟨2, 5⟩ : Quad (ZMod 7)) [11]
      = .ok ⟨5, 5⟩ := by decide +kernel
example :
    letI : Mul (Cubic (ZMod 7)) := ⟨Cubic.mul c7cub.wrap⟩
    cycExp (CycD.default (Cubic.fieldD c7cub.wrap B7)) (⟨1, 2, 3⟩ : Cubic (ZMod 7)) [11]
      = .ok ⟨6, 5, 5⟩ := by decide +kernel

/-! ### 21. Granger–Scott squaring of `Fp12` -/

/-- on an element of `Fp12 = Fp6[w]/(w² - v)`, `Fp6 = G[v]/(v³ - ξ)` satisfying the Granger–Scott
    relations `GSRel ξ s` (`Fp4`-adjugate = `Fp6`-conjugate, i.e. `Ā = A² - tBC`, `B̄ = AB - tC²`,
    `C̄ = B² - AC` on the three `Fp4` coordinates), `cyclotomic_square` is the square. -/
theorem fp12_cyc_square_granger_scott {G : Type} [Field G] [DecidableEq G]
    (c6 : Fp6bCfg G) (hc : CubicLawful c6.wrap)
    (hnc : ∀ x : G, x ^ 3 ≠ c6.wrap.nonresidue) (tbl : List G)
    (B2 : FieldD P G) (hB2 : BaseLawful B2) (limbs : List Nat)
    (s : Quad (Cubic G)) (hs : GSRel c6.wrap.nonresidue s) :
    letI := Cubic.field c6.wrap hc hnc
    Fp12.cycSquare c6 B2.double
        (Quad.fieldD (Fp12.cfg c6 ⟨0, 1, 0⟩ tbl) (Cubic.fieldD c6.wrap B2)).square limbs s =
      Quad.mul (Fp12.cfg c6 ⟨0, 1, 0⟩ tbl) (Cubic.fieldD c6.wrap B2) s s :=
  Fp12.cycSquare_eq_mul c6 hc hnc tbl B2 hB2 limbs s hs

/-- the relations hold for `1` and are closed under product and conjugation (= inversion on
    unitary elements): they cut out a subgroup -/
theorem gs_rel_subgroup {G : Type} [Field G] [DecidableEq G] (ξ : G) :
    GSRel ξ (1 : Quad (Cubic G)) ∧
    (∀ x y : Quad (Cubic G), GSRel ξ x → GSRel ξ y → GSRel ξ (mul12 ξ x y)) ∧
    (∀ x : Quad (Cubic G), GSRel ξ x → GSRel ξ (Quad.conj x)) :=
  ⟨GSRel.one ξ, fun _ _ hx hy => hx.mul hy, fun _ hx => hx.conj⟩

/-- `cyclotomic_exp` of `Fp12` (Granger–Scott squaring inside `exp_loop`) -/
theorem fp12_cyc_exp {G : Type} [Field G] [DecidableEq G]
    (c6 : Fp6bCfg G) (hc : CubicLawful c6.wrap)
    (hnc : ∀ x : G, x ^ 3 ≠ c6.wrap.nonresidue) (tbl : List G)
    (B2 : FieldD P G) (hB2 : BaseLawful B2) (limbs : List Nat) (s : Quad (Cubic G))
    (hn : letI := Cubic.field c6.wrap hc hnc
      Quad.norm (Fp12.cfg c6 ⟨0, 1, 0⟩ tbl) (Cubic.fieldD c6.wrap B2) s = 1)
    (hs : GSRel c6.wrap.nonresidue s) (e : List Nat) (he : WF e) :
    letI := Cubic.field c6.wrap hc hnc
    letI := Quad.commRing (Fp12.cfg c6 ⟨0, 1, 0⟩ tbl) (Cubic.fieldD c6.wrap B2)
      (Cubic.fieldD_baseLawful hB2 hc hnc) (Fp12.cfg_lawful c6 hc hnc tbl)
    cycExp (CycD.conj (Quad.fieldD (Fp12.cfg c6 ⟨0, 1, 0⟩ tbl) (Cubic.fieldD c6.wrap B2))
      (some (Fp12.cycSquare c6 B2.double
        (Quad.fieldD (Fp12.cfg c6 ⟨0, 1, 0⟩ tbl) (Cubic.fieldD c6.wrap B2)).square limbs))) s e
      = .ok (s ^ value e) :=
  Fp12.cycExp_spec c6 hc hnc tbl B2 hB2 limbs s hn hs e he

/-- **membership in the cyclotomic subgroup ⇒ relations.**  Over `G = F_q` with `q ≡ 1 (mod 6)`
    (for `G = Fp2`, `q = p²`: exactly the guard `characteristic_square_mod_6_is_one`) and `ξ` neither a
    square nor a cube, every `s ∈ Fp12` with `s^(q² - q + 1) = 1` (`q² - q + 1 = Φ₁₂(p)`) is unitary
    and satisfies the Granger–Scott relations. -/
theorem gs_rel_of_cyclotomic {G : Type} [Field G] [DecidableEq G] [Fintype G] (p : ℕ)
    [Fact p.Prime] [CharP G p] (hq6 : Fintype.card G % 6 = 1) (c6 : Fp6bCfg G)
    (hc : CubicLawful c6.wrap) (hnr : ∀ x : G, x * x ≠ c6.wrap.nonresidue)
    (hnc : ∀ x : G, x ^ 3 ≠ c6.wrap.nonresidue) (tbl : List G)
    (B2 : FieldD P G) (hB2 : BaseLawful B2) (s : Quad (Cubic G))
    (hmem : letI := Cubic.field c6.wrap hc hnc
      letI := Quad.commRing (Fp12.cfg c6 ⟨0, 1, 0⟩ tbl) (Cubic.fieldD c6.wrap B2)
        (Cubic.fieldD_baseLawful hB2 hc hnc) (Fp12.cfg_lawful c6 hc hnc tbl)
      s ^ (Fintype.card G ^ 2 - Fintype.card G + 1) = 1) :
    letI := Cubic.field c6.wrap hc hnc
    Quad.norm (Fp12.cfg c6 ⟨0, 1, 0⟩ tbl) (Cubic.fieldD c6.wrap B2) s = 1 ∧
    GSRel c6.wrap.nonresidue s :=
  Fp12.of_cyclotomic p hq6 c6 hc hnr hnc tbl B2 hB2 s hmem

/-- **Granger–Scott, group-theoretic form**: `cyclotomic_square(s) = s²` for every `s` with
    `s^(q² - q + 1) = 1`. -/
theorem fp12_cyc_square_of_cyclotomic {G : Type} [Field G] [DecidableEq G] [Fintype G] (p : ℕ)
    [Fact p.Prime] [CharP G p] (hq6 : Fintype.card G % 6 = 1) (c6 : Fp6bCfg G)
    (hc : CubicLawful c6.wrap) (hnr : ∀ x : G, x * x ≠ c6.wrap.nonresidue)
    (hnc : ∀ x : G, x ^ 3 ≠ c6.wrap.nonresidue) (tbl : List G)
    (B2 : FieldD P G) (hB2 : BaseLawful B2) (limbs : List Nat) (s : Quad (Cubic G))
    (hmem : letI := Cubic.field c6.wrap hc hnc
      letI := Quad.commRing (Fp12.cfg c6 ⟨0, 1, 0⟩ tbl) (Cubic.fieldD c6.wrap B2)
        (Cubic.fieldD_baseLawful hB2 hc hnc) (Fp12.cfg_lawful c6 hc hnc tbl)
      s ^ (Fintype.card G ^ 2 - Fintype.card G + 1) = 1) :
    letI := Cubic.field c6.wrap hc hnc
    Fp12.cycSquare c6 B2.double
        (Quad.fieldD (Fp12.cfg c6 ⟨0, 1, 0⟩ tbl) (Cubic.fieldD c6.wrap B2)).square limbs s =
      Quad.mul (Fp12.cfg c6 ⟨0, 1, 0⟩ tbl) (Cubic.fieldD c6.wrap B2) s s :=
  fp12_cyc_square_granger_scott c6 hc hnc tbl B2 hB2 limbs s
    (Fp12.of_cyclotomic p hq6 c6 hc hnr hnc tbl B2 hB2 s hmem).2

/-- `cyclotomic_exp` of `Fp12` on the cyclotomic subgroup -/
theorem fp12_cyc_exp_of_cyclotomic {G : Type} [Field G] [DecidableEq G] [Fintype G] (p : ℕ)
    [Fact p.Prime] [CharP G p] (hq6 : Fintype.card G % 6 = 1) (c6 : Fp6bCfg G)
    (hc : CubicLawful c6.wrap) (hnr : ∀ x : G, x * x ≠ c6.wrap.nonresidue)
    (hnc : ∀ x : G, x ^ 3 ≠ c6.wrap.nonresidue) (tbl : List G)
    (B2 : FieldD P G) (hB2 : BaseLawful B2) (limbs : List Nat) (s : Quad (Cubic G))
    (hmem : letI := Cubic.field c6.wrap hc hnc
      letI := Quad.commRing (Fp12.cfg c6 ⟨0, 1, 0⟩ tbl) (Cubic.fieldD c6.wrap B2)
        (Cubic.fieldD_baseLawful hB2 hc hnc) (Fp12.cfg_lawful c6 hc hnc tbl)
      s ^ (Fintype.card G ^ 2 - Fintype.card G + 1) = 1)
    (e : List Nat) (he : WF e) :
    letI := Cubic.field c6.wrap hc hnc
    letI := Quad.commRing (Fp12.cfg c6 ⟨0, 1, 0⟩ tbl) (Cubic.fieldD c6.wrap B2)
      (Cubic.fieldD_baseLawful hB2 hc hnc) (Fp12.cfg_lawful c6 hc hnc tbl)
    cycExp (CycD.conj (Quad.fieldD (Fp12.cfg c6 ⟨0, 1, 0⟩ tbl) (Cubic.fieldD c6.wrap B2))
      (some (Fp12.cycSquare c6 B2.double
        (Quad.fieldD (Fp12.cfg c6 ⟨0, 1, 0⟩ tbl) (Cubic.fieldD c6.wrap B2)).square limbs))) s e
      = .ok (s ^ value e) :=
  Fp12.cycExp_of_cyclotomic p hq6 c6 hc hnr hnc tbl B2 hB2 limbs s hmem e he

/-- the hypotheses are satisfiable: `G = F₇` (`7 ≡ 1 mod 6`), `ξ = 3` (neither a square nor a cube),
    `s = g^((7⁶-1)/43)` has `s^43 = 1`, `43 = 7² - 7 + 1` -/
example : Fintype.card (ZMod 7) % 6 = 1 := by rw [ZMod.card]
example : (∀ x : ZMod 7, x * x ≠ c7six.wrap.nonresidue) ∧ (∀ x : ZMod 7, x ^ 3 ≠ c7six.wrap.nonresidue) :=
  ⟨nonsq7six, noncube7six⟩
example :
    letI := Cubic.field c7six.wrap c7six_lawful noncube7six
    letI := Quad.commRing (Fp12.cfg c7six ⟨0, 1, 0⟩ []) (Cubic.fieldD c7six.wrap B7)
      (Cubic.fieldD_baseLawful B7_lawful c7six_lawful noncube7six)
      (Fp12.cfg_lawful c7six c7six_lawful noncube7six [])
    (⟨⟨0, 4, 5⟩, ⟨6, 5, 2⟩⟩ : Quad (Cubic (ZMod 7))) ^
      (Fintype.card (ZMod 7) ^ 2 - Fintype.card (ZMod 7) + 1) = 1 := by
  rw [ZMod.card]
  decide +kernel

/-- non-vacuity over `G = F₇`, `ξ = 3`: `s = g^((7⁶-1)/43)` is in the subgroup of order
    `Φ₆(7) = 43`, satisfies the relations and is unitary … -/
example : GSRel (3 : ZMod 7) ⟨⟨0, 4, 5⟩, ⟨6, 5, 2⟩⟩ := by unfold GSRel; decide
example : mul12 (3 : ZMod 7) ⟨⟨0, 4, 5⟩, ⟨6, 5, 2⟩⟩ (Quad.conj ⟨⟨0, 4, 5⟩, ⟨6, 5, 2⟩⟩) = 1 := by
  decide
example : Fp12.cycSquare c7six B7.double (fun x => x) [7] ⟨⟨0, 4, 5⟩, ⟨6, 5, 2⟩⟩
    = mul12 (3 : ZMod 7) ⟨⟨0, 4, 5⟩, ⟨6, 5, 2⟩⟩ ⟨⟨0, 4, 5⟩, ⟨6, 5, 2⟩⟩ := by decide
/-- … whereas on a unitary element outside the subgroup the compressed squaring is wrong: the
    hypothesis cannot be dropped -/
example : mul12 (3 : ZMod 7) ⟨⟨1, 3, 0⟩, ⟨5, 6, 2⟩⟩ (Quad.conj ⟨⟨1, 3, 0⟩, ⟨5, 6, 2⟩⟩) = 1 ∧
    Fp12.cycSquare c7six B7.double (fun x => x) [7] ⟨⟨1, 3, 0⟩, ⟨5, 6, 2⟩⟩
      ≠ mul12 (3 : ZMod 7) ⟨⟨1, 3, 0⟩, ⟨5, 6, 2⟩⟩ ⟨⟨1, 3, 0⟩, ⟨5, 6, 2⟩⟩ := by decide

/-! ### 22. `characteristic_square_mod_6_is_one` -/

theorem char_square_mod6 (limbs : List Nat) :
    charSquareMod6IsOne limbs = decide ((value limbs) ^ 2 % 6 = 1) :=
  charSquareMod6IsOne_spec limbs

example : charSquareMod6IsOne [5, 3] = true := by decide +kernel
/-- the BLS12-381 base-field characteristic -/
example : charSquareMod6IsOne [0xb9feffffffffaaab, 0x1eabfffeb153ffff, 0x6730d2a0f6b0f624,
    0x64774b84f38512bf, 0x4b1ba7b6434bacd7, 0x1a0111ea397fe69a] = true := by decide +kernel
example : charSquareMod6IsOne [3] = false := by decide +kernel

/-! ### 23. coordinate conversions -/

end

section primes
variable {P F : Type} [Add F] [Sub F] [Mul F] [Neg F] [Zero F] [One F] [DecidableEq F]

/-- `from_base_prime_field_elems` returns `Some` iff the number of elements is `extension_degree()` -/
theorem quad_from_primes_some_iff {cfg : QuadCfg F} {B : FieldD P F} (hB : PrimesLawful B)
    (l : List P) :
    (Quad.fromPrimes B l).isSome ↔ l.length = (Quad.fieldD cfg B).extDeg :=
  Quad.fromPrimes_isSome hB l

/-- … and is then the two-sided inverse of `to_base_prime_field_elements` -/
theorem quad_from_to_primes {cfg : QuadCfg F} {B : FieldD P F} (hB : PrimesLawful B) (a : Quad F) :
    Quad.fromPrimes B ((Quad.fieldD cfg B).toPrimes a) = some a :=
  Quad.fromPrimes_toPrimes hB a

theorem quad_to_from_primes {cfg : QuadCfg F} {B : FieldD P F} (hB : PrimesLawful B) (l : List P)
    (a : Quad F) (h : Quad.fromPrimes B l = some a) : (Quad.fieldD cfg B).toPrimes a = l :=
  Quad.toPrimes_fromPrimes hB l a h

theorem cubic_from_primes_some_iff {cfg : CubicCfg F} {B : FieldD P F} (hB : PrimesLawful B)
    (l : List P) :
    (Cubic.fromPrimes B l).isSome ↔ l.length = (Cubic.fieldD cfg B).extDeg :=
  Cubic.fromPrimes_isSome hB l

theorem cubic_from_to_primes {cfg : CubicCfg F} {B : FieldD P F} (hB : PrimesLawful B)
    (a : Cubic F) : Cubic.fromPrimes B ((Cubic.fieldD cfg B).toPrimes a) = some a :=
  Cubic.fromPrimes_toPrimes hB a

theorem cubic_to_from_primes {cfg : CubicCfg F} {B : FieldD P F} (hB : PrimesLawful B) (l : List P)
    (a : Cubic F) (h : Cubic.fromPrimes B l = some a) : (Cubic.fieldD cfg B).toPrimes a = l :=
  Cubic.toPrimes_fromPrimes hB l a h

/-- the hypothesis holds for the prime field and is preserved by both templates, hence holds for
    every tower -/
theorem prime_primes_lawful (p : Nat) : PrimesLawful (fpD p) := fpD_primesLawful p

theorem quad_primes_lawful {cfg : QuadCfg F} {B : FieldD P F} (hB : PrimesLawful B) :
    PrimesLawful (Quad.fieldD cfg B) :=
  Quad.fieldD_primesLawful hB

theorem cubic_primes_lawful {cfg : CubicCfg F} {B : FieldD P F} (hB : PrimesLawful B) :
    PrimesLawful (Cubic.fieldD cfg B) :=
  Cubic.fieldD_primesLawful hB

end primes

example : PrimesLawful B7 := primeD_primesLawful
example : Quad.fromPrimes B7 [3, 4] = some (⟨3, 4⟩ : Quad (ZMod 7)) := by decide
example : Quad.fromPrimes (F := ZMod 7) B7 [3, 4, 5] = none := by decide
example : Cubic.fromPrimes (Quad.fieldD c7neg.wrap B7) [1, 2, 3, 4, 5, 6]
    = some (⟨⟨1, 2⟩, ⟨3, 4⟩, ⟨5, 6⟩⟩ : Cubic (Quad (ZMod 7))) := by decide
example : Cubic.fromPrimes (F := Quad (ZMod 7)) (Quad.fieldD c7neg.wrap B7) [1, 2, 3, 4, 5] = none := by
  decide

end Ark.C02
