import Ark.Proofs.LimbsA
/-
  Property C15 (part A) — `toLimbs`, `sub_with_borrow`, `mul2`, `div2`, `Ord::cmp` and the
  signed-digit recodings `find_naf` / `find_wnaf` / `find_relaxed_naf` of
  `Ark.Model.Limbs` (model of ff/src/biginteger/{mod,arithmetic}.rs), for every limb
  count and all well-formed operands.  Helper lemmas are in Ark/Proofs/LimbsA.lean.
-/
namespace Ark.C15
open Ark

/-! ### 1. toLimbs -/

/-- `toLimbs n v` is the well-formed `n`-limb representation of `v mod 2^(64n)`. -/
theorem to_limbs_exact (n v : Nat) :
    value (toLimbs n v) = v % B ^ n ∧ WF (toLimbs n v) ∧ (toLimbs n v).length = n :=
  ⟨Ark.toLimbs_value n v, Ark.toLimbs_wf n v, Ark.toLimbs_length n v⟩

/-- `toLimbs` inverts `value` on well-formed limb lists. -/
theorem to_limbs_roundtrip (a : List Nat) (ha : WF a) : toLimbs a.length (value a) = a :=
  Ark.toLimbs_value_self a ha

example : toLimbs 2 (B + 5) = [5, 1] := by decide +kernel
example : WF [5, 1] := by unfold WF; decide +kernel

/-! ### 2. sub_with_borrow -/

/-- `sub_with_borrow` with borrow-in `c ∈ {0,1}`:
    `result + b + c = a + 2^(64N)·borrow-out`, result well-formed, borrow-out in `{0,1}`. -/
theorem sub_with_borrow_exact (a b : List Nat) (c : Nat) (h : a.length = b.length)
    (ha : WF a) (hb : WF b) (hc : c ≤ 1) :
    let r := subB a b c
    value r.1 + value b + c = value a + B ^ a.length * r.2 ∧ WF r.1 ∧
      r.1.length = a.length ∧ r.2 ≤ 1 :=
  ⟨subB_spec a b c h ha hb hc, subB_wf a b c, subB_length a b c h, subB_borrow_le a b c hc⟩

/-- without borrow-in the result is `(a - b) mod 2^(64N)` and the flag is exactly `a < b`. -/
theorem sub_with_borrow_mod (a b : List Nat) (h : a.length = b.length) (ha : WF a) (hb : WF b) :
    value (subB a b 0).1 = (B ^ a.length + value a - value b) % B ^ a.length ∧
    (subB a b 0).2 = if value a < value b then 1 else 0 :=
  subB_value_mod a b h ha hb

/-- non-vacuity: a borrow propagating through a limb, and a borrow out of the top limb -/
example : subB [0, 1] [1, 0] 0 = ([B - 1, 0], 0) := by decide +kernel
example : subB [0, 0] [1, 0] 1 = ([B - 2, B - 1], 1) := by decide +kernel
example : WF [0, 1] ∧ WF [1, 0] ∧ [0, 1].length = [1, 0].length := by
  unfold WF; decide +kernel

/-! ### 3. mul2 -/

/-- `mul2`: `result + 2^(64N)·(shifted-out bit) = 2·a`, result well-formed, same length. -/
theorem mul2_exact (a : List Nat) (ha : WF a) :
    value (mul2 a).1 + B ^ a.length * (if (mul2 a).2 then 1 else 0) = 2 * value a ∧
    WF (mul2 a).1 ∧ (mul2 a).1.length = a.length :=
  ⟨mul2_spec a ha, mul2_wf a ha, mul2_length a⟩

example : mul2 [B - 1, 2 ^ 63 + 1] = ([B - 2, 3], true) := by decide +kernel
example : WF [B - 1, 2 ^ 63 + 1] := by unfold WF; decide +kernel

/-! ### 4. div2 -/

/-- `div2` is floor division by two; result well-formed, same length. -/
theorem div2_exact (a : List Nat) (ha : WF a) :
    value (div2 a) = value a / 2 ∧ WF (div2 a) ∧ (div2 a).length = a.length :=
  ⟨div2_value a, div2_wf a ha, div2_length a⟩

example : div2 [3, 5] = [2 ^ 63 + 1, 2] := by decide +kernel
example : WF [3, 5] := by unfold WF; decide +kernel

/-! ### 5. cmp -/

/-- `Ord::cmp` on limbs is the order of the denoted integers. -/
theorem cmp_exact (a b : List Nat) (h : a.length = b.length) (ha : WF a) (hb : WF b) :
    cmp a b = compare (value a) (value b) :=
  cmp_spec a b h ha hb

/-- the three outcomes spelled out -/
theorem cmp_iff (a b : List Nat) (h : a.length = b.length) (ha : WF a) (hb : WF b) :
    (cmp a b = .lt ↔ value a < value b) ∧ (cmp a b = .eq ↔ value a = value b) ∧
    (cmp a b = .gt ↔ value b < value a) := by
  rw [cmp_spec a b h ha hb]
  exact ⟨Nat.compare_eq_lt, Nat.compare_eq_eq, Nat.compare_eq_gt⟩

example : cmp [5, 1] [7, 0] = .gt := by decide +kernel
example : WF [5, 1] ∧ WF [7, 0] ∧ [5, 1].length = [7, 0].length := by
  unfold WF; decide +kernel

/-! ### 6. signed-digit recodings -/

/-- `find_naf` reconstructs: the digit string denotes `a`. -/
theorem find_naf_value (a : List Nat) (ha : WF a) : digitsValue (findNaf a) = value a :=
  findNaf_value a ha

/-- every NAF digit is in `{-1, 0, 1}`. -/
theorem find_naf_digits (a : List Nat) (ha : WF a) :
    ∀ d ∈ findNaf a, d = -1 ∨ d = 0 ∨ d = 1 :=
  findNaf_digits a ha

/-- non-adjacency: of any two consecutive digits at least one is zero
    (`getD _ 0` reads past the end as `0`). -/
theorem find_naf_nonadjacent (a : List Nat) (ha : WF a) (i : Nat) :
    (findNaf a).getD i 0 = 0 ∨ (findNaf a).getD (i + 1) 0 = 0 :=
  findNaf_nonadjacent a ha i

/-- the last (most significant) digit, if any, is `1` — in particular non-zero:
    there are no trailing zero digits. -/
theorem find_naf_last (a : List Nat) (ha : WF a) (h : findNaf a ≠ []) :
    (findNaf a).getLast h = 1 ∧ (findNaf a).getLast h ≠ 0 := by
  rw [findNaf_getLast a ha h]; exact ⟨rfl, by decide⟩

example : findNaf [11] = [-1, 0, -1, 0, 1] := by decide +kernel
example : WF [11] ∧ findNaf [11] ≠ [] := by unfold WF; decide +kernel

/-- `find_wnaf` for a supported window `2 ≤ w < 64`: returns `some ds` where `ds` denotes
    `a`, every digit is `0` or odd with `|d| < 2^(w-1)`, and the last digit is positive. -/
theorem find_wnaf_exact (a : List Nat) (w : Nat) (hw2 : 2 ≤ w) (hw : w < 64) (ha : WF a) :
    ∃ ds, findWnaf a w = some ds ∧ digitsValue ds = value a ∧
      (∀ d ∈ ds, d = 0 ∨ (d % 2 = 1 ∧ d.natAbs < 2 ^ (w - 1))) ∧
      (∀ d, ds.getLast? = some d → 0 < d) :=
  findWnaf_spec a w hw2 hw ha

/-- outside the supported window range `find_wnaf` returns `None`. -/
theorem find_wnaf_none (a : List Nat) (w : Nat) (h : ¬ (2 ≤ w ∧ w < 64)) :
    findWnaf a w = none :=
  findWnaf_none a w h

/-- non-vacuity: an input where the digit is negative and the addition carries out of the
    top limb (the `orTop` path): `2^64 - 1 = -1 + 2^64` needs 65 digits. -/
example : findWnaf [B - 1] 4 = some (-1 :: List.replicate 63 0 ++ [1]) := by decide +kernel
example : (findWnaf [B - 1, B - 1] 5).map digitsValue = some ((B : Int) ^ 2 - 1) := by
  decide +kernel
example : WF [B - 1, B - 1] := by unfold WF; decide +kernel

/-- `find_relaxed_naf` never panics and its digit string denotes `a`. -/
theorem find_relaxed_naf_exact (a : List Nat) (ha : WF a) :
    ∃ ds, findRelaxedNaf a = .ok ds ∧ digitsValue ds = value a :=
  findRelaxedNaf_spec a ha

/-- non-vacuity: an input on which the relaxation rewrites the tail `[-1,0,1]` to `[1,1]` -/
example : findRelaxedNaf [11] = .ok [-1, 0, 1, 1] := by decide +kernel

end Ark.C15
