import Ark.Proofs.CfgMeaning2
import Ark.Props.C16Meaning
import Mathlib.Tactic.NormNum.Prime
/-
  Ark.Props.C16Meaning2 — property C16, *meaning lemmas*, second batch: what `checkXxx cfg = true`
  implies mathematically for the checkers of `Ark/Model/Cfg.lean` not covered by
  `Ark/Props/C16Meaning.lean` (+ `C13b`, `C04d`).  Helpers: `Ark/Proofs/CfgMeaning2.lean`.

  Reading tower elements.  A checker computes on coordinate vectors `El = List Nat` of a tower `t : Tw`.
  The lemmas are stated for ANY interpretation `φ : El → K` of the tower in a field `K`
  (`Realises2 t φ`: on well-formed vectors `add/sub/mul/zero/one/const` are the field operations and
  `φ` is injective), and instances are provided for
    * `t = .prime p`            in `K = ZMod p`                 (`realises2_prime`,  `φ = phiP p`,  `[x] ↦ x`)
    * `t = .ext 2 (.prime p) [n]` in `K = AdjoinRoot (X² - n)`  (`realises2_quad`,   `φ = phiQ p n`, `[x₀,x₁] ↦ x₀ + x₁·u`)
  Primality of the characteristic is a hypothesis (`[Fact p.Prime]`), as everywhere in this project;
  irreducibility of `X² - n` follows from `checkNonresidue` (`Ark.C13b.quad_irreducible_of_check`).

  Each theorem is followed by an `example` showing that its hypotheses are satisfiable.
  A table `checker ↦ meaning lemma` is at the end of the file.
-/
set_option linter.style.haveILetI false
set_option linter.unusedVariables false

namespace Ark.Props.C16Meaning2
open Ark.Cfg Ark.Cfg.Meaning2 Ark.IsoId Ark.Props.C16Meaning

instance fact13 : Fact (Nat.Prime 13) := ⟨by norm_num⟩

/-! ### toy configurations for the non-vacuity examples -/

/-- `y² = x³ + 6` over `F_13`: 7 points, generator `(2, 1)` -/
def toySw : SwCfg :=
  { tower := .prime 13, r := 7, cofactor := 1, cofactorLimbs := [1], cofactorInv := 1,
    a := [0], b := [6], gx := [2], gy := [1], gInfinity := false, mulByABasis := [[0]] }

/-- GLV data on `toySw`: `β = 3` (`3³ = 27 = 1`), `λ = 2`, rows `(3, 2)`, `(-2, 1)` (`det = 7`) -/
def toyGlv2 : GlvCfg :=
  { curve := toySw, endoCoeffs := [[3]], lambda := 2,
    decomp := [(true, 3), (true, 2), (false, 2), (true, 1)],
    endoGx := [6], endoGy := [1], endoGInfinity := false }

theorem toy_six_nonsquare : ¬ ∃ y : ZMod 7, y ^ 2 = ((6 : Nat) : ZMod 7) := by decide

/-! ### the realisations -/

/-- the prime tower is realised in `ZMod p` -/
theorem prime_tower_realised (p : Nat) [Fact p.Prime] : Realises2 (K := ZMod p) (.prime p) (phiP p) :=
  realises2_prime p

/-- the quadratic tower `F_p[u]/(u² - n)` is realised in `AdjoinRoot (X² - n)` -/
theorem quad_tower_realised (p n : Nat) [Fact p.Prime] [Fact (Irreducible (quadPoly p n))] (nr : El)
    (hn : nr.headD 0 = n) :
    Realises2 (K := AdjoinRoot (quadPoly p n)) (.ext 2 (.prime p) nr) (phiQ p n) :=
  realises2_quad p n nr hn

example : ∃ (_ : Fact (Nat.Prime 7)) (_ : Fact (Irreducible (quadPoly 7 6))),
    Realises2 (K := AdjoinRoot (quadPoly 7 6)) (.ext 2 (.prime 7) [6]) (phiQ 7 6) := by
  have h7 : Fact (Nat.Prime 7) := ⟨by norm_num⟩
  have hi : Fact (Irreducible (quadPoly 7 6)) := ⟨quadPoly_irreducible 7 6 toy_six_nonsquare⟩
  exact ⟨h7, hi, realises2_quad 7 6 [6] rfl⟩

/-! ### short Weierstrass curves -/

section sw
open Ark.Curve Ark.Curve.SW
variable {K : Type} [Field K] {φ : El → K}

/-- **`checkSwShape`**: the tower is well formed (odd characteristic, layers of degree 2 or 3 with
    reduced non-residues), `a`, `b`, `G.x`, `G.y` are reduced vectors of the right arity, `2 < r`,
    `COFACTOR_INV < r`, the limb vector of the cofactor denotes `COFACTOR` with limbs `< 2^64` -/
theorem sw_shape_meaning (c : SwCfg) (h : checkSwShape c = true) :
    c.tower.wfTower = true ∧ wf c.tower c.a = true ∧ wf c.tower c.b = true ∧
    wf c.tower c.gx = true ∧ wf c.tower c.gy = true ∧ 2 < c.r ∧ c.cofactorInv < c.r ∧
    limbsVal c.cofactorLimbs = c.cofactor ∧ ∀ x ∈ c.cofactorLimbs, x < 2 ^ 64 :=
  swShape_unfold c h

example : checkSwShape toySw = true := by decide +kernel

/-- **`checkSwNonsingular`**: `4a³ + 27b² ≠ 0` in the base field — the curve is non-singular
    (with `2 ≠ 0`: its discriminant `-16(4a³ + 27b²)` is non-zero) -/
theorem sw_nonsingular_meaning (c : SwCfg) (R : Realises2 c.tower φ) (hs : checkSwShape c = true)
    (h : checkSwNonsingular c = true) : 4 * φ c.a ^ 3 + 27 * φ c.b ^ 2 ≠ 0 :=
  sw_nonsingular c R (swShape_unfold c hs).2.1 (swShape_unfold c hs).2.2.1 h

example : 4 * phiP 13 [0] ^ 3 + 27 * phiP 13 [6] ^ 2 ≠ 0 :=
  sw_nonsingular_meaning toySw (realises2_prime 13) (by decide +kernel) (by decide +kernel)

/-- **`checkSwGeneratorOnCurve`, any base field**: `G.y² = G.x³ + a·G.x + b`, and `G` is not flagged
    as the point at infinity -/
theorem sw_generator_on_curve_meaning' (c : SwCfg) (R : Realises2 c.tower φ)
    (hs : checkSwShape c = true) (h : checkSwGeneratorOnCurve c = true) :
    c.gInfinity = false ∧ φ c.gy * φ c.gy = φ c.gx * φ c.gx * φ c.gx + φ c.a * φ c.gx + φ c.b := by
  obtain ⟨_, ha, hb, hx, hy, _⟩ := swShape_unfold c hs
  unfold checkSwGeneratorOnCurve at h
  rw [band, bnot_true] at h
  exact ⟨h.1, sw_onCurve_rep R (Rep.mk' ha) (Rep.mk' hb) (Rep.mk' hx) (Rep.mk' hy) h.2⟩

example : phiP 13 [1] * phiP 13 [1] =
    phiP 13 [2] * phiP 13 [2] * phiP 13 [2] + phiP 13 [0] * phiP 13 [2] + phiP 13 [6] :=
  (sw_generator_on_curve_meaning' toySw (realises2_prime 13) (by decide +kernel)
    (by decide +kernel)).2

variable [DecidableEq K]

/-- the generator is a point of Mathlib's group `(y² = x³ + a x + b).Point` of non-singular points -/
theorem sw_generator_is_point (c : SwCfg) (R : Realises2 c.tower φ) (hs : checkSwShape c = true)
    (hn : checkSwNonsingular c = true) (hc : checkSwGeneratorOnCurve c = true) :
    ∃ G : (wcurve (φ c.a) (φ c.b)).Point, ofPoint G = some (φ c.gx, φ c.gy) :=
  sw_generator_point c R hs hn hc

/-- **`checkSwGeneratorOrder`**: the model's Jacobian double-and-add ladder `Sw.smul` IS scalar
    multiplication in Mathlib's group of points of the curve (`toAff_smulK`), so the check says
    `r • G = 0` and `G ≠ 0` there; with `r` prime, `G` has order exactly `r` -/
theorem sw_generator_order_meaning (c : SwCfg) (R : Realises2 c.tower φ) (hs : checkSwShape c = true)
    (ho : checkSwGeneratorOrder c = true) (G : (wcurve (φ c.a) (φ c.b)).Point)
    (hG : ofPoint G = some (φ c.gx, φ c.gy)) :
    c.r • G = 0 ∧ G ≠ 0 ∧ (c.r.Prime → addOrderOf G = c.r) := by
  obtain ⟨h1, h2⟩ := sw_generator_order c R hs ho G hG
  exact ⟨h1, h2, fun hp => haveI := Fact.mk hp; addOrderOf_eq_prime h1 h2⟩

/-- non-vacuity: `y² = x³ + 3` over `F_13`, `G = (1, 2)` of order `7` -/
example : ∃ G : (wcurve (phiP 13 [0]) (phiP 13 [6])).Point,
    ofPoint G = some (phiP 13 [2], phiP 13 [1]) ∧ 7 • G = 0 ∧ addOrderOf G = 7 := by
  obtain ⟨G, hG⟩ := sw_generator_is_point toySw (realises2_prime 13) (by decide +kernel)
    (by decide +kernel) (by decide +kernel)
  obtain ⟨h1, _, h3⟩ := sw_generator_order_meaning toySw (realises2_prime 13)
    (by decide +kernel) (by decide +kernel) G hG
  exact ⟨G, hG, h1, h3 (by norm_num [toySw])⟩

/-- **summary for a short Weierstrass configuration**: the four generated facts (plus primality of `r`)
    give a point of Mathlib's elliptic-curve group with the dumped coordinates and order exactly `r` -/
theorem sw_config_meaning (c : SwCfg) (R : Realises2 c.tower φ) (hs : checkSwShape c = true)
    (hn : checkSwNonsingular c = true) (hc : checkSwGeneratorOnCurve c = true)
    (ho : checkSwGeneratorOrder c = true) (hr : c.r.Prime) :
    ∃ G : (wcurve (φ c.a) (φ c.b)).Point, ofPoint G = some (φ c.gx, φ c.gy) ∧ addOrderOf G = c.r := by
  obtain ⟨G, hG⟩ := sw_generator_is_point c R hs hn hc
  exact ⟨G, hG, (sw_generator_order_meaning c R hs ho G hG).2.2 hr⟩

omit [DecidableEq K] in
/-- **`checkSwMulByA`**: the dumped values `mul_by_a(e_j)` of the (possibly hard-coded) hook on the standard
    basis are `COEFF_A · e_j` -/
theorem sw_mul_by_a_meaning (c : SwCfg) (R : Realises2 c.tower φ) (hs : checkSwShape c = true)
    (h : checkSwMulByA c = true) :
    c.mulByABasis.length = c.tower.deg ∧ ∀ j, j < c.tower.deg →
      c.mulByABasis[j]? = some (c.tower.mul c.a (unitVec c.tower.deg j)) ∧
      wf c.tower (unitVec c.tower.deg j) = true ∧
      φ (c.tower.mul c.a (unitVec c.tower.deg j)) = φ c.a * φ (unitVec c.tower.deg j) :=
  basis_table R (swShape_unfold c hs).1 (swShape_unfold c hs).2.1 c.mulByABasis h

omit [DecidableEq K] in
/-- what this implies: an ADDITIVE map `H` of the field that takes the dumped values on the basis is
    multiplication by `a` on the additive subgroup generated by the basis.  (Nothing is implied for a hook
    that is not additive; both `mul_by_a` implementations in the tree — `elem * a` and the hard-coded
    `0` / `-elem` / doubling chains — are additive.) -/
theorem sw_mul_by_a_hook (c : SwCfg) (R : Realises2 c.tower φ) (hs : checkSwShape c = true)
    (h : checkSwMulByA c = true) (H : K →+ K)
    (hH : ∀ j e, j < c.tower.deg → c.mulByABasis[j]? = some e → H (φ (unitVec c.tower.deg j)) = φ e) :
    ∀ x ∈ AddSubgroup.closure {y | ∃ j, j < c.tower.deg ∧ y = φ (unitVec c.tower.deg j)},
      H x = φ c.a * x := by
  apply additive_hook_on_closure
  rintro y ⟨j, hj, rfl⟩
  obtain ⟨h1, _, h3⟩ := (sw_mul_by_a_meaning c R hs h).2 j hj
  rw [hH j _ hj h1, h3]

/-- over a prime field the subgroup is everything: the hook IS multiplication by `COEFF_A` -/
theorem sw_mul_by_a_hook_prime (c : SwCfg) (p : Nat) [Fact p.Prime] (ht : c.tower = .prime p)
    (hs : checkSwShape c = true) (h : checkSwMulByA c = true) (H : ZMod p →+ ZMod p)
    (hH : ∀ e, c.mulByABasis[0]? = some e → H 1 = phiP p e) (x : ZMod p) : H x = phiP p c.a * x := by
  have R : Realises2 (K := ZMod p) c.tower (phiP p) := by rw [ht]; exact realises2_prime p
  have e1 : phiP p (unitVec c.tower.deg 0) = 1 := by
    rw [ht]; show ((1 : Nat) : ZMod p) = 1; exact Nat.cast_one
  apply sw_mul_by_a_hook c R hs h H
  · intro j e hj he
    have hj0 : j = 0 := by rw [ht] at hj; simpa [Tw.deg] using hj
    subst hj0
    rw [e1]; exact hH e he
  · have hx := zmod_closure_one p x
    refine AddSubgroup.closure_mono ?_ hx
    rintro y rfl
    exact ⟨0, by rw [ht]; simp [Tw.deg], e1.symm⟩

example : checkSwMulByA toySw = true := by decide +kernel

end sw

/-! ### twisted Edwards curves -/

/-- complete Edwards curve `x² + y² = 1 + 7x²y²` over `F_13` (20 points); `(7, 8)` has order 5;
    Montgomery form `8 y² = x³ + 6 x² + x` -/
def toyTe2 : TeCfg :=
  { tower := .prime 13, r := 5, cofactor := 4, cofactorLimbs := [4], cofactorInv := 4,
    a := [1], d := [7], gx := [7], gy := [8], montA := [6], montB := [8], mulByABasis := [[1]] }

def toyEll : Elligator2Cfg :=
  { curve := toyTe2, z := [2], oneOverCoeffBSquare := [12], coeffAOverCoeffB := [4] }

section te
open Ark.Curve.TE
variable {K : Type} [Field K] {φ : El → K}

/-- **`checkTeShape`** (NB: unlike `checkSwShape` it does not bound the cofactor limbs by `2^64`) -/
theorem te_shape_meaning (c : TeCfg) (h : checkTeShape c = true) :
    c.tower.wfTower = true ∧ wf c.tower c.a = true ∧ wf c.tower c.d = true ∧
    wf c.tower c.gx = true ∧ wf c.tower c.gy = true ∧ wf c.tower c.montA = true ∧
    wf c.tower c.montB = true ∧ 2 < c.r ∧ c.cofactorInv < c.r ∧
    limbsVal c.cofactorLimbs = c.cofactor :=
  teShape_unfold c h

example : checkTeShape toyTe2 = true := by decide +kernel

/-- **`checkTeNondegenerate`**: `a ≠ 0`, `d ≠ 0`, `a ≠ d` in the base field -/
theorem te_nondegenerate_meaning (c : TeCfg) (R : Realises2 c.tower φ) (hs : checkTeShape c = true)
    (h : checkTeNondegenerate c = true) : φ c.a ≠ 0 ∧ φ c.d ≠ 0 ∧ φ c.a ≠ φ c.d :=
  te_nondegenerate c R (teShape_unfold c hs).2.1 (teShape_unfold c hs).2.2.1 h

example : phiP 13 [1] ≠ 0 ∧ phiP 13 [7] ≠ 0 ∧ phiP 13 [1] ≠ phiP 13 [7] :=
  te_nondegenerate_meaning toyTe2 (realises2_prime 13) (by decide +kernel) (by decide +kernel)

/-- **`checkTeGeneratorOnCurve`, any base field**: `a x² + y² = 1 + d x² y²` at the generator -/
theorem te_generator_on_curve_meaning' (c : TeCfg) (R : Realises2 c.tower φ)
    (hs : checkTeShape c = true) (h : checkTeGeneratorOnCurve c = true) :
    φ c.a * (φ c.gx * φ c.gx) + φ c.gy * φ c.gy =
      1 + φ c.d * ((φ c.gx * φ c.gx) * (φ c.gy * φ c.gy)) := by
  obtain ⟨_, ha, hd, hx, hy, _⟩ := teShape_unfold c hs
  exact te_onCurve_rep R (Rep.mk' ha) (Rep.mk' hd) (Rep.mk' hx) (Rep.mk' hy) h

theorem te_generator_onCurve (c : TeCfg) [DecidableEq K] (R : Realises2 c.tower φ)
    (hs : checkTeShape c = true) (h : checkTeGeneratorOnCurve c = true) :
    onCurve (φ c.a) (φ c.d) (φ c.gx, φ c.gy) = true := by
  rw [onCurve_iff]
  have := te_generator_on_curve_meaning' c R hs h
  simp only
  linear_combination this

variable [DecidableEq K]

/-- **`checkTeGeneratorOrder`**: the model's projective double-and-add ladder `Te.smul` computes the
    scalar multiple in the group of any set `S` of curve points that is closed under the Edwards law and
    on which the law is everywhere defined (`AddClosed`; the whole curve when the law is complete), so the
    check says `r • G = 0`, `G ≠ 0` there; with `r` prime the order is exactly `r` -/
theorem te_generator_order_meaning (c : TeCfg) (R : Realises2 c.tower φ) (hs : checkTeShape c = true)
    (h : checkTeGeneratorOrder c = true) (S : K × K → Prop) (hS : AddClosed (φ c.a) (φ c.d) S)
    (hG : S (φ c.gx, φ c.gy)) :
    letI := addCommGroupOfClosed hS
    c.r • (⟨(φ c.gx, φ c.gy), hG⟩ : {P : K × K // S P}) = 0 ∧
      (⟨(φ c.gx, φ c.gy), hG⟩ : {P : K × K // S P}) ≠ 0 ∧
      (c.r.Prime → addOrderOf (⟨(φ c.gx, φ c.gy), hG⟩ : {P : K × K // S P}) = c.r) := by
  letI := addCommGroupOfClosed hS
  obtain ⟨h1, h2⟩ := te_generator_order c R hs h S hS hG
  exact ⟨h1, h2, fun hp => haveI := Fact.mk hp; addOrderOf_eq_prime h1 h2⟩

/-- the same on a curve whose law is complete (e.g. `a` a square and `d` a non-square): the group is
    the whole curve `Point a d` -/
theorem te_generator_order_complete (c : TeCfg) (R : Realises2 c.tower φ) (hs : checkTeShape c = true)
    (hon : checkTeGeneratorOnCurve c = true) (h : checkTeGeneratorOrder c = true)
    (hc : ∀ P Q : K × K, onCurve (φ c.a) (φ c.d) P = true → onCurve (φ c.a) (φ c.d) Q = true →
      affAddDefined (φ c.d) P Q = true) :
    letI := addCommGroupOfDefined (φ c.a) (φ c.d) hc
    c.r • (⟨(φ c.gx, φ c.gy), te_generator_onCurve c R hs hon⟩ : Point (φ c.a) (φ c.d)) = 0 :=
  (te_generator_order_meaning c R hs h _ (addClosed_of_complete _ _ hc)
    (te_generator_onCurve c R hs hon)).1

/-- non-vacuity: on the complete curve `x² + y² = 1 + 7x²y²` over `F_13`, `5 • (7, 8) = 0` -/
example : ∃ (hc : ∀ P Q : ZMod 13 × ZMod 13, onCurve (phiP 13 [1]) (phiP 13 [7]) P = true →
      onCurve (phiP 13 [1]) (phiP 13 [7]) Q = true → affAddDefined (phiP 13 [7]) P Q = true)
    (hG : onCurve (phiP 13 [1]) (phiP 13 [7]) (phiP 13 [7], phiP 13 [8]) = true),
    letI := addCommGroupOfDefined (phiP 13 [1]) (phiP 13 [7]) hc
    5 • (⟨(phiP 13 [7], phiP 13 [8]), hG⟩ : Point (phiP 13 [1]) (phiP 13 [7])) = 0 := by
  have hc : ∀ P Q : ZMod 13 × ZMod 13, onCurve (phiP 13 [1]) (phiP 13 [7]) P = true →
      onCurve (phiP 13 [1]) (phiP 13 [7]) Q = true → affAddDefined (phiP 13 [7]) P Q = true :=
    complete _ _ 1 (by decide) (by decide) (by rintro ⟨r, hr⟩; revert r; decide)
  exact ⟨hc, _, te_generator_order_complete toyTe2 (realises2_prime 13) (by decide +kernel)
    (by decide +kernel) (by decide +kernel) hc⟩

omit [DecidableEq K] in
/-- **`checkTeMulByA`**: the dumped `mul_by_a(e_j)` are `COEFF_A · e_j` (see `sw_mul_by_a_hook` for what this
    implies for an additive hook) -/
theorem te_mul_by_a_meaning (c : TeCfg) (R : Realises2 c.tower φ) (hs : checkTeShape c = true)
    (h : checkTeMulByA c = true) :
    c.mulByABasis.length = c.tower.deg ∧ ∀ j, j < c.tower.deg →
      c.mulByABasis[j]? = some (c.tower.mul c.a (unitVec c.tower.deg j)) ∧
      wf c.tower (unitVec c.tower.deg j) = true ∧
      φ (c.tower.mul c.a (unitVec c.tower.deg j)) = φ c.a * φ (unitVec c.tower.deg j) :=
  basis_table R (teShape_unfold c hs).1 (teShape_unfold c hs).2.1 c.mulByABasis h

omit [DecidableEq K] in
theorem te_mul_by_a_hook (c : TeCfg) (R : Realises2 c.tower φ) (hs : checkTeShape c = true)
    (h : checkTeMulByA c = true) (H : K →+ K)
    (hH : ∀ j e, j < c.tower.deg → c.mulByABasis[j]? = some e → H (φ (unitVec c.tower.deg j)) = φ e) :
    ∀ x ∈ AddSubgroup.closure {y | ∃ j, j < c.tower.deg ∧ y = φ (unitVec c.tower.deg j)},
      H x = φ c.a * x := by
  apply additive_hook_on_closure
  rintro y ⟨j, hj, rfl⟩
  obtain ⟨h1, _, h3⟩ := (te_mul_by_a_meaning c R hs h).2 j hj
  rw [hH j _ hj h1, h3]

example : checkTeMulByA toyTe2 = true := by decide +kernel

omit [DecidableEq K] in
/-- **`checkTeMontgomery`**: `A·(a - d) = 2(a + d)` (i.e. `A = 2(a+d)/(a-d)` when `a ≠ d`) and
    `B·(a - d)/4` is a non-zero square.  NB the checker does NOT say `B = 4/(a - d)`: it accepts every
    `B` in the square class of `4/(a-d)` (the Montgomery curves `B y² = …` of one class are isomorphic) -/
theorem te_montgomery_meaning (c : TeCfg) (R : Realises2 c.tower φ) [Fintype K]
    (hc : Fintype.card K = c.tower.card) (hs : checkTeShape c = true)
    (h : checkTeMontgomery c = true) :
    φ c.montA * (φ c.a - φ c.d) = 2 * (φ c.a + φ c.d) ∧
    φ c.montB * (φ c.a - φ c.d) / 4 ≠ 0 ∧ IsSquare (φ c.montB * (φ c.a - φ c.d) / 4) :=
  te_montgomery c R hc hs h

example : phiP 13 [6] * (phiP 13 [1] - phiP 13 [7]) = 2 * (phiP 13 [1] + phiP 13 [7]) :=
  (te_montgomery_meaning toyTe2 (realises2_prime 13) (prime_card 13) (by decide +kernel)
    (by decide +kernel)).1

/-- **`checkElligatorZ`**: `Z` is a (non-zero) non-square of the base field -/
theorem elligator_z_meaning (c : Elligator2Cfg) (R : Realises2 c.curve.tower φ) [Fintype K]
    (hc : Fintype.card K = c.curve.tower.card) (h : checkElligatorZ c = true) :
    wf c.curve.tower c.z = true ∧ φ c.z ≠ 0 ∧ ¬ IsSquare (φ c.z) :=
  elligator_z c R hc h

example : ¬ IsSquare (phiP 13 [2]) :=
  (elligator_z_meaning toyEll (realises2_prime 13) (prime_card 13) (by decide +kernel)).2.2

/-- **`checkElligatorConsts`**: `B ≠ 0`, `ONE_OVER_COEFF_B_SQUARE = 1/B²`, `COEFF_A_OVER_COEFF_B = A/B`
    (`A`, `B` the Montgomery coefficients).  The two dumped constants must be reduced vectors
    (hypotheses `h1 h2`; the checker itself does not test that) -/
theorem elligator_consts_meaning (c : Elligator2Cfg) (R : Realises2 c.curve.tower φ)
    (hs : checkTeShape c.curve = true)
    (h1 : wf c.curve.tower c.oneOverCoeffBSquare = true)
    (h2 : wf c.curve.tower c.coeffAOverCoeffB = true) (h : checkElligatorConsts c = true) :
    φ c.curve.montB ≠ 0 ∧ φ c.oneOverCoeffBSquare = (φ c.curve.montB ^ 2)⁻¹ ∧
    φ c.coeffAOverCoeffB = φ c.curve.montA / φ c.curve.montB :=
  elligator_consts c R (teShape_unfold c.curve hs).2.2.2.2.2.1 (teShape_unfold c.curve hs).2.2.2.2.2.2.1
    h1 h2 h

example : phiP 13 [12] = (phiP 13 [8] ^ 2)⁻¹ ∧ phiP 13 [4] = phiP 13 [6] / phiP 13 [8] :=
  (elligator_consts_meaning toyEll (realises2_prime 13) (by decide +kernel) (by decide +kernel)
    (by decide +kernel) (by decide +kernel)).2

end te

/-! ### GLV -/

section glv
open Ark.Curve Ark.Curve.SW Ark.GlvEndo
variable {K : Type} [Field K] {φ : El → K}

/-- **`checkGlvBeta`**: exactly one endomorphism coefficient `β`, a reduced vector, with `β³ = 1`, `β ≠ 1`,
    on a curve with `a = 0` — the hypotheses `hβ`, `h1` of `Ark.C04c.glv_endo_additive` / `glv_endo_char`
    (so `(x, y) ↦ (βx, y)` is an endomorphism `φ` of `y² = x³ + b` with `φ² + φ + 1 = 0`) -/
theorem glv_beta_meaning (c : GlvCfg) (R : Realises2 c.curve.tower φ)
    (hs : checkSwShape c.curve = true) (h : checkGlvBeta c = true) :
    c.endoCoeffs = [c.beta] ∧ wf c.curve.tower c.beta = true ∧ φ c.curve.a = 0 ∧
    φ c.beta ^ 3 = 1 ∧ φ c.beta ≠ 1 :=
  glv_beta c R (swShape_unfold c.curve hs).2.1 h

example : phiP 13 [0] = 0 ∧ phiP 13 [3] ^ 3 = 1 ∧ phiP 13 [3] ≠ 1 :=
  (glv_beta_meaning toyGlv2 (realises2_prime 13) (by decide +kernel) (by decide +kernel)).2.2

/-- **`checkGlvEndoForm`**: the compiled `endomorphism_affine(G)` is the finite point `(β·G.x, G.y)` -/
theorem glv_endo_form_meaning (c : GlvCfg) (R : Realises2 c.curve.tower φ)
    (hs : checkSwShape c.curve = true) (hb : checkGlvBeta c = true) (h : checkGlvEndoForm c = true) :
    c.endoGInfinity = false ∧ c.endoGx = c.curve.tower.mul c.beta c.curve.gx ∧
    φ c.endoGx = φ c.beta * φ c.curve.gx ∧ c.endoGy = c.curve.gy :=
  glv_endo_form c R (glv_beta_meaning c R hs hb).2.1 (swShape_unfold c.curve hs).2.2.2.1 h

example : phiP 13 [6] = phiP 13 [3] * phiP 13 [2] :=
  (glv_endo_form_meaning toyGlv2 (realises2_prime 13) (by decide +kernel) (by decide +kernel)
    (by decide +kernel)).2.2.1

/-- **`checkGlvDecompShort`**: every entry of `SCALAR_DECOMP_COEFFS` satisfies `n² ≤ 4r` -/
theorem glv_decomp_short_meaning (c : GlvCfg) (h : checkGlvDecompShort c = true) :
    (∀ e ∈ c.decomp, e.2 * e.2 ≤ 4 * c.curve.r) ∧ ∀ i, c.n i * c.n i ≤ 4 * (c.curve.r : Int) :=
  glv_decomp_short c h

example : checkGlvDecompShort toyGlv2 = true := by decide +kernel

variable [DecidableEq K]

/-- **`checkGlvEigen`**: `φ(G) = λ·G` in Mathlib's group of points of `y² = x³ + b`, `φ = glvEndo β` the
    endomorphism `(x, y) ↦ (βx, y)` — the hypothesis `hg` of `Ark.C04c.glv_mul_correct_on_curve` -/
theorem glv_eigen_meaning (c : GlvCfg) (R : Realises2 c.curve.tower φ)
    (hs : checkSwShape c.curve = true) (hb : checkGlvBeta c = true) (h : checkGlvEigen c = true)
    (hβ : φ c.beta ^ 3 = 1) (G : (wcurve 0 (φ c.curve.b)).Point)
    (hG : ofPoint G = some (φ c.curve.gx, φ c.curve.gy)) :
    glvEndo (φ c.beta) hβ G = c.lambda • G :=
  glv_eigen c R hs hb h hβ G hG

/-- the generator's order on the `a = 0` curve, in the form `hr` of `Ark.C04c.glv_mul_correct_on_curve` -/
theorem glv_generator_order (c : GlvCfg) (R : Realises2 c.curve.tower φ)
    (hs : checkSwShape c.curve = true) (hb : checkGlvBeta c = true)
    (ho : checkSwGeneratorOrder c.curve = true) (G : (wcurve 0 (φ c.curve.b)).Point)
    (hG : ofPoint G = some (φ c.curve.gx, φ c.curve.gy)) : c.curve.r • G = 0 := by
  obtain ⟨hw, ha, _, hx, hy, _⟩ := swShape_unfold c.curve hs
  have ha0 := (glv_beta_meaning c R hs hb).2.2.1
  unfold checkSwGeneratorOrder at ho
  rw [band] at ho
  exact sw_smul_zero R hw ⟨ha, ha0⟩ (Rep.mk' hx) (Rep.mk' hy) _ G hG c.curve.r ho.2

/-- **capstone**: for a GLV configuration passing the generated checks, GLV multiplication
    (`glv_mul_projective` / `glv_mul_affine`, model `Ark.ScalarMul.glvMul`) with the endomorphism
    `(x, y) ↦ (βx, y)` is exact on every multiple of the generator, for every scalar — all hypotheses of
    `Ark.GlvEndo.glvMul_on_subgroup` are discharged from `check…` facts -/
theorem glv_mul_correct_of_checks (c : GlvCfg) (R : Realises2 c.curve.tower φ)
    (hs : checkSwShape c.curve = true) (hb : checkGlvBeta c = true)
    (ho : checkSwGeneratorOrder c.curve = true) (he : checkGlvEigen c = true)
    (hrows : checkGlvDecompRows c = true) (hdet : checkGlvDet c = true)
    (hlad : checkGlvLadderBound c = true)
    (G : (wcurve 0 (φ c.curve.b)).Point) (hG : ofPoint G = some (φ c.curve.gx, φ c.curve.gy))
    (n : Int) (k : Nat) :
    Ark.ScalarMul.glvMul (glvOfCfg c.scalarLimbs c)
      (glvEndo (φ c.beta) (glv_beta_meaning c R hs hb).2.2.2.1) (n • G) k = k • (n • G) := by
  have hβ := (glv_beta_meaning c R hs hb).2.2.2.1
  have hr : 0 < c.curve.r := by have := (swShape_unfold c.curve hs).2.2.2.2.2.1; omega
  have hbound : glvBoundOk (glvOfCfg c.scalarLimbs c) = true := by
    rw [glvBoundOk_iff]
    have hd := Ark.CfgMeaning.glv_det c hdet
    unfold checkGlvLadderBound at hlad
    simp only [Bool.and_eq_true, decide_eq_true_eq] at hlad
    exact ⟨hr, hd, hlad.1, hlad.2⟩
  unfold checkGlvDecompRows at hrows
  simp only [band] at hrows
  obtain ⟨⟨_, r1⟩, r2⟩ := hrows
  have r1' : (c.n 0 + (c.lambda : Int) * c.n 1) % (c.curve.r : Int) = 0 := by simpa using r1
  have r2' : (c.n 2 + (c.lambda : Int) * c.n 3) % (c.curve.r : Int) = 0 := by simpa using r2
  exact glvMul_on_subgroup (glvOfCfg c.scalarLimbs c) _ (glvEndo_add hβ) G
    (glv_eigen_meaning c R hs hb he hβ G hG) (glv_generator_order c R hs hb ho G hG)
    r1' r2' hbound n k

/-- non-vacuity: `y² = x³ + 6` over `F_13`, `G = (2, 1)`, `β = 3`, `λ = 2`: `φ(G) = 2•G` and GLV
    multiplication is exact -/
example : ∃ (G : (wcurve 0 (phiP 13 [6])).Point) (hβ : phiP 13 [3] ^ 3 = 1),
    ofPoint G = some (phiP 13 [2], phiP 13 [1]) ∧ glvEndo (phiP 13 [3]) hβ G = 2 • G ∧
    Ark.ScalarMul.glvMul (glvOfCfg 1 toyGlv2) (glvEndo (phiP 13 [3]) hβ) ((3 : Int) • G) 5
      = 5 • ((3 : Int) • G) := by
  have R := realises2_prime 13
  have hs : checkSwShape toyGlv2.curve = true := by decide +kernel
  have hb : checkGlvBeta toyGlv2 = true := by decide +kernel
  have hβ := (glv_beta_meaning toyGlv2 R hs hb).2.2.2.1
  have ha0 : phiP 13 toyGlv2.curve.a = 0 := (glv_beta_meaning toyGlv2 R hs hb).2.2.1
  obtain ⟨G', hG'⟩ := sw_generator_is_point toySw R (by decide +kernel) (by decide +kernel)
    (by decide +kernel)
  have ha0' : phiP 13 toySw.a = 0 := ha0
  revert G'
  rw [ha0']
  intro G hG
  exact ⟨G, hβ, hG, glv_eigen_meaning toyGlv2 R hs hb (by decide +kernel) hβ G hG,
    glv_mul_correct_of_checks toyGlv2 R hs hb (by decide +kernel) (by decide +kernel)
      (by decide +kernel) (by decide +kernel) (by decide +kernel) G hG 3 5⟩

end glv

/-! ### SWU / Wahby–Boneh -/

instance fact127 : Fact (Nat.Prime 127) := ⟨by norm_num⟩

/-- the 2-isogeny `E' : y² = x³ + 114x + 12 → E : y² = x³ + 37x + 82` over `F_127` (both of order
    `136 = 8·17`); `G' = (14, 62)` of order 17 on `E'` is mapped to `(23, 107)` -/
def toyWb2 : WbCfg :=
  { curve := { tower := .prime 127, r := 17, cofactor := 8, cofactorLimbs := [8], cofactorInv := 15,
               a := [37], b := [82], gx := [72], gy := [57], gInfinity := false },
    iso := { tower := .prime 127, r := 17, cofactor := 8, cofactorLimbs := [8], cofactorInv := 15,
             a := [114], b := [12], gx := [14], gy := [62], gInfinity := false },
    isoZeta := [3],
    xNum := [[117], [126], [1]], xDen := [[126], [1]], yNum := [[11], [125], [1]],
    yDen := [[1], [125], [1]] }

section wb
open Ark.Curve Ark.Curve.SW
variable {K : Type} [Field K] {φ : El → K}

/-- **`checkSwuAB`**: `a ≠ 0` and `b ≠ 0` (what simplified SWU needs) -/
theorem swu_ab_meaning (c : SwuCfg) (R : Realises2 c.curve.tower φ) (hs : checkSwShape c.curve = true)
    (h : checkSwuAB c = true) : φ c.curve.a ≠ 0 ∧ φ c.curve.b ≠ 0 :=
  swu_ab c R (swShape_unfold c.curve hs).2.1 (swShape_unfold c.curve hs).2.2.1 h

example : phiP 127 [114] ≠ 0 ∧ phiP 127 [12] ≠ 0 :=
  swu_ab_meaning ⟨toyWb2.iso, [3]⟩ (realises2_prime 127) (by decide +kernel) (by decide +kernel)

/-- **`checkSwuZeta`, any base field**: `ZETA` is a reduced vector denoting a non-zero non-square -/
theorem swu_zeta_meaning' (c : SwuCfg) (R : Realises2 c.curve.tower φ) [Fintype K]
    (hc : Fintype.card K = c.curve.tower.card) (h : checkSwuZeta c = true) :
    wf c.curve.tower c.zeta = true ∧ φ c.zeta ≠ 0 ∧ ¬ IsSquare (φ c.zeta) :=
  swu_zeta c R hc h

example : ¬ IsSquare (phiP 127 [3]) :=
  (swu_zeta_meaning' ⟨toyWb2.iso, [3]⟩ (realises2_prime 127) (prime_card 127) (by decide +kernel)).2.2

/-- **`checkWbShape`**: the four coefficient lists are non-empty lists of reduced vectors of the curve's
    base field; the isogenous curve has the same `r`.  NB: it does NOT check that the isogenous curve is
    declared over the same tower (`c.iso.tower = c.curve.tower`) -/
theorem wb_shape_meaning (c : WbCfg) (h : checkWbShape c = true) :
    (allB (wf c.curve.tower) c.xNum = true ∧ allB (wf c.curve.tower) c.xDen = true ∧
     allB (wf c.curve.tower) c.yNum = true ∧ allB (wf c.curve.tower) c.yDen = true) ∧
    (c.xNum ≠ [] ∧ c.xDen ≠ [] ∧ c.yNum ≠ [] ∧ c.yDen ≠ []) ∧ c.iso.r = c.curve.r :=
  wbShape_unfold c h

example : checkWbShape toyWb2 = true := by decide +kernel

/-- **`checkWbIsoCurve`** is the conjunction of `checkSwuZeta`, `checkSwuAB` and
    `checkSwGeneratorOnCurve` for the isogenous curve (meanings: `swu_zeta_meaning'`, `swu_ab_meaning`,
    `sw_generator_on_curve_meaning'`) -/
theorem wb_iso_curve_meaning (c : WbCfg) (h : checkWbIsoCurve c = true) :
    checkSwuZeta ⟨c.iso, c.isoZeta⟩ = true ∧ checkSwuAB ⟨c.iso, c.isoZeta⟩ = true ∧
    checkSwGeneratorOnCurve c.iso = true := by
  unfold checkWbIsoCurve at h
  simp only [band] at h
  exact ⟨h.1.1, h.1.2, h.2⟩

example : checkWbIsoCurve toyWb2 = true := by decide +kernel

/-- **`checkWbImageOnCurve`** (`WBMap::check_parameters`): at the isogenous generator `(x₀, y₀)` both
    denominators are non-zero and the image `(xNum(x₀)/xDen(x₀), y₀·yNum(x₀)/yDen(x₀))` satisfies the
    equation of the target curve.  `(x₀, y₀)` must be reduced vectors of the TARGET curve's tower
    (`hx hy`: true when `c.iso.tower = c.curve.tower`, which no checker tests) -/
theorem wb_image_on_curve_meaning (c : WbCfg) (R : Realises2 c.curve.tower φ)
    (hsh : checkWbShape c = true) (hs : checkSwShape c.curve = true)
    (hx : wf c.curve.tower c.iso.gx = true) (hy : wf c.curve.tower c.iso.gy = true)
    (h : checkWbImageOnCurve c = true) :
    let xn := ev φ (φ c.iso.gx) c.xNum
    let xd := ev φ (φ c.iso.gx) c.xDen
    let yn := φ c.iso.gy * ev φ (φ c.iso.gx) c.yNum
    let yd := ev φ (φ c.iso.gx) c.yDen
    xd ≠ 0 ∧ yd ≠ 0 ∧
    (yn / yd) * (yn / yd) = (xn / xd) * (xn / xd) * (xn / xd) + φ c.curve.a * (xn / xd) + φ c.curve.b :=
  wb_image_on_curve c R hsh (swShape_unfold c.curve hs).2.1 (swShape_unfold c.curve hs).2.2.1 hx hy h

example : ev (phiP 127) (phiP 127 [14]) toyWb2.xDen ≠ 0 :=
  (wb_image_on_curve_meaning toyWb2 (realises2_prime 127) (by decide +kernel) (by decide +kernel)
    (by decide +kernel) (by decide +kernel) (by decide +kernel)).1

variable [DecidableEq K]

/-- **`checkWbImageOrder`**: the image `Q` of the isogenous generator is killed by `r` in Mathlib's group of
    points of the target curve (`Tw.inv` is the field inverse because `|K| = Tw.card`) -/
theorem wb_image_order_meaning (c : WbCfg) (R : Realises2 c.curve.tower φ) [Fintype K]
    (hc : Fintype.card K = c.curve.tower.card) (hsh : checkWbShape c = true)
    (hs : checkSwShape c.curve = true)
    (hx : wf c.curve.tower c.iso.gx = true) (hy : wf c.curve.tower c.iso.gy = true)
    (hon : checkWbImageOnCurve c = true) (h : checkWbImageOrder c = true)
    (Q : (wcurve (φ c.curve.a) (φ c.curve.b)).Point)
    (hQ : ofPoint Q = some (ev φ (φ c.iso.gx) c.xNum / ev φ (φ c.iso.gx) c.xDen,
      φ c.iso.gy * ev φ (φ c.iso.gx) c.yNum / ev φ (φ c.iso.gx) c.yDen)) :
    c.curve.r • Q = 0 :=
  wb_image_order c R hc hsh hs hx hy hon h Q hQ

/-- non-vacuity on the toy isogeny: the image point exists in Mathlib's group and `17 • Q = 0` -/
example : ∃ Q : (wcurve (phiP 127 toyWb2.curve.a) (phiP 127 toyWb2.curve.b)).Point, 17 • Q = 0 := by
  have R := realises2_prime 127
  have hsh : checkWbShape toyWb2 = true := by decide +kernel
  have hs : checkSwShape toyWb2.curve = true := by decide +kernel
  have hon : checkWbImageOnCurve toyWb2 = true := by decide +kernel
  obtain ⟨_, _, e⟩ := wb_image_on_curve_meaning toyWb2 R hsh hs (by decide +kernel) (by decide +kernel) hon
  have hΔ := wcurve_delta_ne_zero _ _ (two_ne_zero_of_wfTower R (swShape_unfold _ hs).1)
    (sw_nonsingular_meaning toyWb2.curve R hs (by decide +kernel))
  obtain ⟨Q, hQ⟩ := exists_point hΔ _ ((onCurve_some _ _ _ _).2 e)
  exact ⟨Q, wb_image_order_meaning toyWb2 R (prime_card 127) hsh hs (by decide +kernel)
    (by decide +kernel) hon (by decide +kernel) Q hQ⟩

end wb

/-! ### prime fields -/

/-- `F_7` (`7 ≡ 3 mod 4`): `SQRT_PRECOMP = Case3Mod4 (2)` -/
def toyFp7 : FpCfg :=
  { toyFp with
    modulus := 7, modulusBitSize := 3, modulusMinusOneDivTwo := 3, trace := 3, traceMinusOneDivTwo := 1,
    generator := 3, twoAdicity := 1, twoAdicRoot := 6, characteristic := 7,
    sqrtPrecomp := { kind := 2, modulusPlusOneDivFour := 2 }, modulusPlusOneDivFour := some 2 }

/-- **`checkSqrtPrecomp`**: the dumped `SQRT_PRECOMP` (read over `ZMod p` by `preOf`) and
    `MODULUS_PLUS_ONE_DIV_FOUR` are exactly what the C11 model of `sqrt_precomputation` /
    `MODULUS_PLUS_ONE_DIV_FOUR` (`Ark.Sqrt.sqrtPrecomputation`, `modulusPlusOneDivFour`) computes from the
    modulus, the limb count and `g^t` -/
theorem sqrt_precomp_meaning (c : FpCfg) (hs : checkModulusShape c = true)
    (h2 : checkTwoAdicity c = true) (h : checkSqrtPrecomp c = true) :
    preOf c.modulus c.sqrtPrecomp =
      Ark.Sqrt.sqrtPrecomputation c.limbs c.modulus (((c.generator : Nat) : ZMod c.modulus) ^ c.trace) ∧
    c.modulusPlusOneDivFour = Ark.Sqrt.modulusPlusOneDivFour c.limbs c.modulus :=
  sqrt_precomp_eq c hs h2 h

/-- **the hypothesis `ValidPre` of the C11 square-root theorems** (`Ark.C11.fieldSqrt_spec`,
    `zmodSqrtD_correct_of_valid`) follows, for a prime modulus, from four generated facts -/
theorem sqrt_precomp_valid_meaning (c : FpCfg) [Fact c.modulus.Prime]
    (hs : checkModulusShape c = true) (h2 : checkTwoAdicity c = true)
    (hq : checkGeneratorQNR c = true) (h : checkSqrtPrecomp c = true) :
    ∃ pre, preOf c.modulus c.sqrtPrecomp = some pre ∧ Ark.SqrtP.ValidPre pre :=
  sqrt_precomp_valid c hs h2 hq h

/-- non-vacuity: Tonelli–Shanks constants of `F_17`, `Case3Mod4` constants of `F_7` -/
example : ∃ pre, preOf 17 toyFp.sqrtPrecomp = some pre ∧ Ark.SqrtP.ValidPre pre :=
  haveI : Fact toyFp.modulus.Prime := (inferInstance : Fact (Nat.Prime 17))
  sqrt_precomp_valid_meaning toyFp (by decide +kernel) (by decide +kernel) (by decide +kernel)
    (by decide +kernel)

example : ∃ pre, preOf 7 toyFp7.sqrtPrecomp = some pre ∧ Ark.SqrtP.ValidPre pre :=
  haveI : Fact toyFp7.modulus.Prime := (inferInstance : Fact (Nat.Prime 7))
  sqrt_precomp_valid_meaning toyFp7 (by decide +kernel) (by decide +kernel) (by decide +kernel)
    (by decide +kernel)

/-- **`checkModulusShape`**, all conjuncts: `2 < p` odd, `0 < N`, `p < 2^(64N)`, `MODULUS_BIT_SIZE` is the
    exact bit length, `characteristic = p`, `MODULUS_MINUS_ONE_DIV_TWO = (p-1)/2` -/
theorem modulus_shape_meaning (c : FpCfg) (h : checkModulusShape c = true) :
    2 < c.modulus ∧ c.modulus % 2 = 1 ∧ 0 < c.limbs ∧ c.modulus < 2 ^ (64 * c.limbs) ∧
    2 ^ (c.modulusBitSize - 1) ≤ c.modulus ∧ c.modulus < 2 ^ c.modulusBitSize ∧
    c.characteristic = c.modulus ∧ c.modulusMinusOneDivTwo = (c.modulus - 1) / 2 :=
  modulusShape_unfold c h

example : checkModulusShape toyFp = true := by decide +kernel

/-- **`checkForwarding`**: the `FftField`/`PrimeField` constants are the `MontConfig` ones -/
theorem forwarding_meaning (c : FpCfg) (h : checkForwarding c = true) :
    c.montGenerator = c.generator ∧ c.montTwoAdicRoot = c.twoAdicRoot ∧
    c.montSmallSubgroupBase = c.smallSubgroupBase ∧
    c.montSmallSubgroupBaseAdicity = c.smallSubgroupBaseAdicity ∧
    c.montLargeSubgroupRoot = c.largeSubgroupRoot :=
  forwarding c h

example : checkForwarding toyFp = true := by decide +kernel

/-- **`checkMontFlags`**: `MODULUS_HAS_SPARE_BIT ⇔ p < 2^(64N-1)`;
    `CAN_USE_NO_CARRY_MUL_OPT ⇔ p < 2^(64N-1) ∧ p ≠ 2^(64N-1) - 1`.
    NB: the dumped `CAN_USE_NO_CARRY_SQUARE_OPT` (`noCarrySquare`) is not constrained by any checker -/
theorem mont_flags_meaning (c : FpCfg) (h : checkMontFlags c = true) :
    (c.hasSpareBit = true ↔ c.modulus < 2 ^ (64 * c.limbs - 1)) ∧
    (c.noCarryMul = true ↔ c.modulus < 2 ^ (64 * c.limbs - 1) ∧ c.modulus ≠ 2 ^ (64 * c.limbs - 1) - 1) :=
  mont_flags c h

example : checkMontFlags toyFp = true := by decide +kernel

/-! ### extension fields -/

instance fact5 : Fact (Nat.Prime 5) := ⟨by norm_num⟩

theorem toy_two_nonsquare5 : ¬ ∃ y : ZMod 5, y ^ 2 = ((2 : Nat) : ZMod 5) := by decide
theorem toy_two_noncube7 : ¬ ∃ y : ZMod 7, y ^ 3 = ((2 : Nat) : ZMod 7) := by decide

instance irr52 : Fact (Irreducible (quadPoly 5 2)) := ⟨quadPoly_irreducible 5 2 toy_two_nonsquare5⟩
instance irr76 : Fact (Irreducible (quadPoly 7 6)) := ⟨quadPoly_irreducible 7 6 toy_six_nonsquare⟩
instance irr72 : Fact (Irreducible (cubicPoly 7 2)) := ⟨cubicPoly_irreducible 7 2 toy_two_noncube7⟩

/-- the cubic tower `F_p[u]/(u³ - n)` is realised in `AdjoinRoot (X³ - n)` (`[x₀,x₁,x₂] ↦ x₀ + x₁u + x₂u²`) -/
theorem cubic_tower_realised (p n : Nat) [Fact p.Prime] [Fact (Irreducible (cubicPoly p n))] (nr : El)
    (hn : nr.headD 0 = n) :
    Realises2 (K := AdjoinRoot (cubicPoly p n)) (.ext 3 (.prime p) nr) (phiC p n) :=
  realises2_cubic p n nr hn

/-- `Fp4 = Fp2[v]/(v² - u)` over `Fp2 = F_5[u]/(u² - 2)` -/
def toyFp4 : ExtCfg :=
  { kind := .fp4, p := 5, baseTower := .ext 2 (.prime 5) [2], nonresidue := [0, 1],
    frobC1 := [[1], [2], [4], [3]], frobC2 := [], nrMulBasis := [[0, 1], [2, 0]],
    frobMulBasis := [[[1, 0], [0, 1]], [[2, 0], [0, 2]], [[4, 0], [0, 4]], [[3, 0], [0, 3]]] }

/-- `Fp3 = F_7[u]/(u³ - 2)`; `7³ - 1 = 2 · 171` -/
def toyFp3 : ExtCfg :=
  { kind := .fp3, p := 7, baseTower := .prime 7, nonresidue := [2],
    frobC1 := [[1], [4], [2]], frobC2 := [[1], [2], [4]], nrMulBasis := [[2]],
    frobMulBasis := [[[1], [1]], [[4], [2]], [[2], [4]]],
    twoAdicity := 1, traceMinusOneDivTwo := 85, qnrToT := [6, 0, 0],
    sqrtPrecomp := { kind := 1, twoAdicity := 1, qnrToTrace := [6, 0, 0], traceMinusOneDivTwo := 85 } }

/-- `Fp6 = Fp2[v]/(v³ - (2 + u))` over `Fp2 = F_7[u]/(u² + 1)` (3-over-2: tables with entries in `Fp2`) -/
def toyFp6 : ExtCfg :=
  { kind := .fp6over2, p := 7, baseTower := .ext 2 (.prime 7) [6], nonresidue := [2, 1],
    frobC1 := [[1, 0], [3, 4], [4, 0], [5, 2], [2, 0], [6, 1]],
    frobC2 := [[1, 0], [0, 3], [2, 0], [0, 6], [4, 0], [0, 5]],
    nrMulBasis := [[2, 1], [6, 2]] }

section ext
variable {K : Type} [Field K] {φ : El → K}

/-- **`checkExtShape`**: the base tower has the shape documented for the kind and is well formed,
    `NONRESIDUE` is a reduced vector of the base field, the Frobenius tables have `deg` entries
    (`C2` only for cubic layers) and their entries are reduced vectors of the table field -/
theorem ext_shape_meaning (c : ExtCfg) (h : checkExtShape c = true) :
    c.shapeOK = true ∧ c.baseTower.wfTower = true ∧ wf c.baseTower c.nonresidue = true ∧
    c.frobC1.length = c.tower.deg ∧ c.frobC2.length = (if c.k = 3 then c.tower.deg else 0) ∧
    (∀ x ∈ c.frobC1, wf c.frobTower x = true) ∧ (∀ x ∈ c.frobC2, wf c.frobTower x = true) :=
  extShape_unfold c h

example : checkExtShape toyFp4 = true ∧ checkExtShape toyFp3 = true ∧ checkExtShape toyFp6 = true := by
  decide +kernel

/-- **`checkNonresidue`, any base field, plain branch** (`NONRESIDUE` is not the generator of the layer
    below): `k ∣ q - 1`, `NONRESIDUE ≠ 0` and it is not a `k`-th power, `q = |base field|` — so
    `X^k - NONRESIDUE` (`k ∈ {2, 3}`) has no root, i.e. is irreducible -/
theorem nonresidue_meaning_general (c : ExtCfg) (R : Realises2 c.baseTower φ) [Fintype K]
    (hc : Fintype.card K = c.baseTower.card) (hs : checkExtShape c = true)
    (hne : ∀ k' b nr', c.baseTower = .ext k' b nr' → c.nonresidue ≠ genOf b c.baseTower)
    (h : checkNonresidue c = true) :
    c.k ∣ c.baseTower.card - 1 ∧ φ c.nonresidue ≠ 0 ∧ ¬ ∃ y : K, y ^ c.k = φ c.nonresidue :=
  nonresidue_direct c R hc (extShape_unfold c hs).2.2.1 hne h

/-- non-vacuity with a NON-prime base field: `2 + u` is not a cube in `F_49 = F_7[u]/(u² + 1)` -/
example : ∃ _ : Fintype (AdjoinRoot (quadPoly 7 6)),
    ¬ ∃ y : AdjoinRoot (quadPoly 7 6), y ^ 3 = phiQ 7 6 [2, 1] := by
  letI : Fintype (AdjoinRoot (quadPoly 7 6)) := @Fintype.ofFinite _ (quad_finite 7 6)
  refine ⟨inferInstance, ?_⟩
  exact (nonresidue_meaning_general toyFp6 (realises2_quad 7 6 [6] rfl) (quad_card 7 6 [6])
    (by decide +kernel) (by intro k' b nr' h; cases h; decide) (by decide +kernel)).2.2

/-- **`checkNonresidue`, generator branch** (`NONRESIDUE = Y`, the generator of the layer below
    `b[Y]/(Y^k' - nr')`): the check evaluates `nr'^((q-1)/(k·k'))` in the lower field `b`; if `b` is
    realised in `Kb` and included in `K` by `ι` with `Y^k' = ι(nr')`, then `k·k' ∣ q - 1` and `Y` is not a
    `k`-th power in `K` -/
theorem nonresidue_generator_meaning (c : ExtCfg) (k' : Nat) (b : Tw) (nr' : El)
    (hbase : c.baseTower = .ext k' b nr') (hgen : c.nonresidue = genOf b c.baseTower)
    (R : Realises2 c.baseTower φ) [Fintype K] (hc : Fintype.card K = c.baseTower.card)
    (hs : checkExtShape c = true)
    {Kb : Type} [Field Kb] {ψ : El → Kb} (Rb : Realises2 b ψ) (hnr' : wf b nr' = true) (hb : 0 < b.deg)
    (ι : Kb →+* K) (hpow : φ c.nonresidue ^ k' = ι (ψ nr')) (h : checkNonresidue c = true) :
    c.k * k' ∣ c.baseTower.card - 1 ∧ φ c.nonresidue ≠ 0 ∧ ¬ ∃ y : K, y ^ c.k = φ c.nonresidue :=
  nonresidue_generator c k' b nr' hbase hgen R hc (extShape_unfold c hs).2.2.1 Rb hnr' hb ι hpow h

/-- the instance used by `Fp4` / `Fp12`-style layers over a quadratic field `F_p[u]/(u² - n)`:
    `NONRESIDUE = u` is not a `k`-th power -/
theorem nonresidue_meaning_over_quad (c : ExtCfg) (p n : Nat) [Fact p.Prime]
    [Fact (Irreducible (quadPoly p n))] [Fintype (AdjoinRoot (quadPoly p n))]
    (hbase : c.baseTower = .ext 2 (.prime p) [n]) (hn : n < p) (hgen : c.nonresidue = [0, 1])
    (hs : checkExtShape c = true) (h : checkNonresidue c = true) :
    c.k * 2 ∣ c.baseTower.card - 1 ∧
    ¬ ∃ y : AdjoinRoot (quadPoly p n), y ^ c.k = AdjoinRoot.root (quadPoly p n) := by
  have R : Realises2 (K := AdjoinRoot (quadPoly p n)) c.baseTower (phiQ p n) := by
    rw [hbase]; exact realises2_quad p n [n] rfl
  have hc : Fintype.card (AdjoinRoot (quadPoly p n)) = c.baseTower.card := by
    rw [hbase]; exact quad_card p n [n]
  have hg : c.nonresidue = genOf (.prime p) c.baseTower := by rw [hgen, hbase]; rfl
  have hroot : phiQ p n c.nonresidue = AdjoinRoot.root (quadPoly p n) := by
    rw [hgen, phiQ_pair]; simp
  have hnr' : wf (.prime p) [n] = true := (wf_prime_iff p [n]).2 ⟨n, rfl, hn⟩
  have := nonresidue_generator_meaning c 2 (.prime p) [n] hbase hg R hc hs (realises2_prime p) hnr'
    (by simp [Tw.deg]) (AdjoinRoot.of (quadPoly p n))
    (by rw [hroot, pow_two, root_sq]; rfl) h
  rw [hroot] at this
  exact ⟨this.1, this.2.2⟩

/-- non-vacuity: `u` is not a square in `F_25 = F_5[u]/(u² - 2)` -/
example : ∃ _ : Fintype (AdjoinRoot (quadPoly 5 2)),
    ¬ ∃ y : AdjoinRoot (quadPoly 5 2), y ^ 2 = AdjoinRoot.root (quadPoly 5 2) := by
  letI : Fintype (AdjoinRoot (quadPoly 5 2)) := @Fintype.ofFinite _ (quad_finite 5 2)
  exact ⟨inferInstance, (nonresidue_meaning_over_quad toyFp4 5 2 rfl (by decide) rfl
    (by decide +kernel) (by decide +kernel)).2⟩

/-- the instance used by `Fp6 = Fp3[v]/(v² - u)` (2-over-3, MNT6 / CP6) over a cubic field
    `F_p[u]/(u³ - n)`: `NONRESIDUE = u` is not a `k`-th power -/
theorem nonresidue_meaning_over_cubic (c : ExtCfg) (p n : Nat) [Fact p.Prime]
    [Fact (Irreducible (cubicPoly p n))] [Fintype (AdjoinRoot (cubicPoly p n))]
    (hbase : c.baseTower = .ext 3 (.prime p) [n]) (hn : n < p) (hgen : c.nonresidue = [0, 1, 0])
    (hs : checkExtShape c = true) (h : checkNonresidue c = true) :
    c.k * 3 ∣ c.baseTower.card - 1 ∧
    ¬ ∃ y : AdjoinRoot (cubicPoly p n), y ^ c.k = AdjoinRoot.root (cubicPoly p n) := by
  have R : Realises2 (K := AdjoinRoot (cubicPoly p n)) c.baseTower (phiC p n) := by
    rw [hbase]; exact realises2_cubic p n [n] rfl
  have hc : Fintype.card (AdjoinRoot (cubicPoly p n)) = c.baseTower.card := by
    rw [hbase]; exact cubic_card p n [n]
  have hg : c.nonresidue = genOf (.prime p) c.baseTower := by rw [hgen, hbase]; rfl
  have hroot : phiC p n c.nonresidue = AdjoinRoot.root (cubicPoly p n) := by
    rw [hgen, phiC_triple]; simp
  have hnr' : wf (.prime p) [n] = true := (wf_prime_iff p [n]).2 ⟨n, rfl, hn⟩
  have := nonresidue_generator_meaning c 3 (.prime p) [n] hbase hg R hc hs (realises2_prime p) hnr'
    (by simp [Tw.deg]) (AdjoinRoot.of (cubicPoly p n))
    (by rw [hroot, pow_succ, pow_two, root_cube]; rfl) h
  rw [hroot] at this
  exact ⟨this.1, this.2.2⟩

/-- `Fp6 = Fp3[v]/(v² - u)` over `Fp3 = F_7[u]/(u³ - 3)` (2-over-3) -/
def toyFp6b : ExtCfg :=
  { kind := .fp6over3, p := 7, baseTower := .ext 3 (.prime 7) [3], nonresidue := [0, 1, 0],
    frobC1 := [[1], [3], [2], [6], [4], [5]], frobC2 := [], nrMulBasis := [] }

theorem toy_three_noncube7 : ¬ ∃ y : ZMod 7, y ^ 3 = ((3 : Nat) : ZMod 7) := by decide
instance irr73 : Fact (Irreducible (cubicPoly 7 3)) := ⟨cubicPoly_irreducible 7 3 toy_three_noncube7⟩

/-- non-vacuity: `u` is not a square in `F_343 = F_7[u]/(u³ - 3)` -/
example : ∃ _ : Fintype (AdjoinRoot (cubicPoly 7 3)),
    ¬ ∃ y : AdjoinRoot (cubicPoly 7 3), y ^ 2 = AdjoinRoot.root (cubicPoly 7 3) := by
  letI : Fintype (AdjoinRoot (cubicPoly 7 3)) := @Fintype.ofFinite _ (cubic_finite 7 3)
  exact ⟨inferInstance, (nonresidue_meaning_over_cubic toyFp6b 7 3 rfl (by decide) rfl
    (by decide +kernel) (by decide +kernel)).2⟩

/-- **`checkNonresidueIsGenerator`** (Fp4, Fp6 2-over-3, Fp12): `NONRESIDUE` is the coordinate vector of
    the generator of the layer below (`vzero ++ vone ++ vzero`); for the other kinds the checker is
    vacuous.  Over a quadratic layer this vector denotes `u` (`genOf_quad`) -/
theorem nonresidue_is_generator_meaning (c : ExtCfg) (h : checkNonresidueIsGenerator c = true)
    (hk : c.kind = .fp4 ∨ c.kind = .fp6over3 ∨ c.kind = .fp12) (k' : Nat) (b : Tw) (nr' : El)
    (hbase : c.baseTower = .ext k' b nr') : c.nonresidue = genOf b c.baseTower :=
  nonresidue_is_generator c h hk k' b nr' hbase

example : toyFp4.nonresidue = [0, 1] ∧
    phiQ 5 2 toyFp4.nonresidue = AdjoinRoot.root (quadPoly 5 2) := by
  have := nonresidue_is_generator_meaning toyFp4 (by decide +kernel) (Or.inl rfl) 2 (.prime 5) [2] rfl
  exact ⟨this ▸ (genOf_quad 5 2 [2]).1, this ▸ (genOf_quad 5 2 [2]).2⟩

/-- **`checkNrMulBasis`**: the dumped values of `mul_base_field_by_nonresidue_in_place` on the standard
    basis of the base field are `NONRESIDUE · e_j` (for the consequence for an additive hook see
    `additive_hook_on_closure` / `sw_mul_by_a_hook`) -/
theorem nr_mul_basis_meaning (c : ExtCfg) (R : Realises2 c.baseTower φ) (hs : checkExtShape c = true)
    (h : checkNrMulBasis c = true) :
    c.nrMulBasis.length = c.baseTower.deg ∧ ∀ j, j < c.baseTower.deg →
      c.nrMulBasis[j]? = some (c.baseTower.mul c.nonresidue (unitVec c.baseTower.deg j)) ∧
      wf c.baseTower (unitVec c.baseTower.deg j) = true ∧
      φ (c.baseTower.mul c.nonresidue (unitVec c.baseTower.deg j)) =
        φ c.nonresidue * φ (unitVec c.baseTower.deg j) :=
  basis_table R (extShape_unfold c hs).2.1 (extShape_unfold c hs).2.2.1 c.nrMulBasis h

theorem nr_mul_hook (c : ExtCfg) (R : Realises2 c.baseTower φ) (hs : checkExtShape c = true)
    (h : checkNrMulBasis c = true) (H : K →+ K)
    (hH : ∀ j e, j < c.baseTower.deg → c.nrMulBasis[j]? = some e →
      H (φ (unitVec c.baseTower.deg j)) = φ e) :
    ∀ x ∈ AddSubgroup.closure {y | ∃ j, j < c.baseTower.deg ∧ y = φ (unitVec c.baseTower.deg j)},
      H x = φ c.nonresidue * x := by
  apply additive_hook_on_closure
  rintro y ⟨j, hj, rfl⟩
  obtain ⟨h1, _, h3⟩ := (nr_mul_basis_meaning c R hs h).2 j hj
  rw [hH j _ hj h1, h3]

example : checkNrMulBasis toyFp4 = true ∧ checkNrMulBasis toyFp3 = true ∧
    checkNrMulBasis toyFp6 = true := by decide +kernel

/-- **`checkFrobeniusC1`, any table field** (in particular the `Fp2`-valued tables of Fp6 3-over-2 and
    Fp12): `d ∣ p - 1` and entry `i` is `b^((p^i - 1)/d)`, `b` the documented base, `d` the documented
    divisor -/
theorem frobenius_c1_meaning' (c : ExtCfg) (R : Realises2 c.frobTower φ) (hp : 0 < c.p)
    (hb : wf c.frobTower c.frobBase = true) (h : checkFrobeniusC1 c = true) :
    c.frobDiv ∣ c.p - 1 ∧ ∀ (i : Nat) (hi : i < c.frobC1.length),
      wf c.frobTower c.frobC1[i] = true ∧
      φ c.frobC1[i] = φ c.frobBase ^ ((c.p ^ i - 1) / c.frobDiv) :=
  frobenius_c1_general c R hp hb h

/-- non-vacuity with `Fp2`-valued entries: `FROBENIUS_COEFF_FP6_C1[5] = (2 + u)^((7⁵ - 1)/3)` -/
example : phiQ 7 6 [6, 1] = phiQ 7 6 [2, 1] ^ ((7 ^ 5 - 1) / 3) :=
  ((frobenius_c1_meaning' toyFp6 (realises2_quad 7 6 [6] rfl) (by decide) (by decide +kernel)
    (by decide +kernel)).2 5 (by decide)).2

/-- **`checkFrobeniusC2`**: cubic layers: `C2[i] = C1[i]²`; other layers: the table is empty -/
theorem frobenius_c2_meaning (c : ExtCfg) (R : Realises2 c.frobTower φ) (hs : checkExtShape c = true)
    (h : checkFrobeniusC2 c = true) :
    (c.k ≠ 3 → c.frobC2 = []) ∧
    (c.k = 3 → c.frobC1.length = c.frobC2.length ∧
      ∀ (i : Nat) (h1 : i < c.frobC1.length) (h2 : i < c.frobC2.length),
        c.frobC2[i] = c.frobTower.sq c.frobC1[i] ∧ φ c.frobC2[i] = φ c.frobC1[i] ^ 2) :=
  frobenius_c2 c R (extShape_unfold c hs).2.2.2.2.2.1 h

example : phiQ 7 6 [0, 5] = phiQ 7 6 [6, 1] ^ 2 :=
  (((frobenius_c2_meaning toyFp6 (realises2_quad 7 6 [6] rfl) (by decide +kernel)
    (by decide +kernel)).2 rfl).2 5 (by decide) (by decide)).2

/-- **`checkFrobMulBasis`**: row `power` of the dumped table of `mul_base_field_by_frob_coeff` is
    `frobHookRow` of the table entries `C1[power]` (and `C2[power]` for cubic layers); the entries of a
    row are described by `frobHookRow_quad` (`e_j · C1[power]`) / `frobHookRow_cubic` (the flattened pairs
    `(e_j · C1[power], e_j · C2[power])`) -/
theorem frob_mul_basis_meaning (c : ExtCfg) (h : checkFrobMulBasis c = true) :
    c.frobMulBasis =
      List.zipWith (frobHookRow c) c.frobC1 (if c.k = 3 then c.frobC2 else c.frobC1) :=
  frob_mul_basis c h

theorem frob_hook_row_quad_meaning (c : ExtCfg) (R : Realises2 c.baseTower φ)
    (hs : checkExtShape c = true) (hk : c.k ≠ 3) (c1 c2 : El)
    (he : wf c.baseTower (embed c.baseTower c1) = true) (j : Nat) (hj : j < c.baseTower.deg) :
    (frobHookRow c c1 c2)[j]? = some (c.baseTower.mul (unitVec c.baseTower.deg j) (embed c.baseTower c1)) ∧
    φ (c.baseTower.mul (unitVec c.baseTower.deg j) (embed c.baseTower c1)) =
      φ (unitVec c.baseTower.deg j) * φ (embed c.baseTower c1) :=
  frobHookRow_quad c R (extShape_unfold c hs).2.1 hk c1 c2 he j hj

theorem frob_hook_row_cubic_meaning (c : ExtCfg) (hk : c.k = 3) (c1 c2 : El) :
    frobHookRow c c1 c2 = (c.baseTower.basis.map (fun e =>
      [c.baseTower.mul e (embed c.baseTower c1), c.baseTower.mul e (embed c.baseTower c2)])).flatten :=
  frobHookRow_cubic c hk c1 c2

example : checkFrobMulBasis toyFp4 = true ∧ checkFrobMulBasis toyFp3 = true := by decide +kernel

/-- **`checkFp3TwoAdicity`**: `p³ - 1 = 2^s · t` with `t = 2·TRACE_MINUS_ONE_DIV_TWO + 1` (odd) -/
theorem fp3_two_adicity_meaning (c : ExtCfg) (h : checkFp3TwoAdicity c = true) :
    c.kind = .fp3 ∧ c.p ^ 3 - 1 = 2 ^ c.twoAdicity * (2 * c.traceMinusOneDivTwo + 1) :=
  fp3_two_adicity c h

example : checkFp3TwoAdicity toyFp3 = true := by decide +kernel

/-- **`checkFp3QnrToT`**: `QUADRATIC_NONRESIDUE_TO_T` is a reduced vector of `Fp3` of multiplicative order
    exactly `2^s`, `s ≥ 1` (equivalently, in the cyclic group `Fp3ˣ` with `2^s ‖ p³ - 1`: it is the `t`-th
    power of SOME quadratic non-residue — the checker does not tie it to a particular one), and
    `SQRT_PRECOMP` repeats `s`, this element and `(t-1)/2` as a Tonelli–Shanks record -/
theorem fp3_qnr_to_t_meaning (c : ExtCfg) (R : Realises2 c.tower φ) (h : checkFp3QnrToT c = true) :
    wf c.tower c.qnrToT = true ∧ 0 < c.twoAdicity ∧ orderOf (φ c.qnrToT) = 2 ^ c.twoAdicity ∧
    c.sqrtPrecomp.kind = 1 ∧ c.sqrtPrecomp.twoAdicity = c.twoAdicity ∧
    c.sqrtPrecomp.qnrToTrace = c.qnrToT ∧
    c.sqrtPrecomp.traceMinusOneDivTwo = c.traceMinusOneDivTwo :=
  fp3_qnr_to_t c R h

example : orderOf (phiC 7 2 [6, 0, 0]) = 2 ^ 1 :=
  (fp3_qnr_to_t_meaning toyFp3 (realises2_cubic 7 2 [2] rfl) (by decide +kernel)).2.2.1

/-- a curve over a NON-prime field (as the `G2` curves): `y² = x³ + (1 + 2u)x + (3 + u)` over
    `F_49 = F_7[u]/(u² + 1)`, 44 points, `G = (3 + 5u, 3 + 6u)` of order 11 -/
def toySwQ : SwCfg :=
  { tower := .ext 2 (.prime 7) [6], r := 11, cofactor := 4, cofactorLimbs := [4], cofactorInv := 3,
    a := [1, 2], b := [3, 1], gx := [3, 5], gy := [3, 6], gInfinity := false,
    mulByABasis := [[1, 2], [5, 1]] }

/-- non-vacuity of the curve lemmas over a quadratic field -/
example : ∃ (_ : DecidableEq (AdjoinRoot (quadPoly 7 6)))
    (G : (Ark.Curve.SW.wcurve (phiQ 7 6 [1, 2]) (phiQ 7 6 [3, 1])).Point),
    Ark.Curve.SW.ofPoint G = some (phiQ 7 6 [3, 5], phiQ 7 6 [3, 6]) ∧ addOrderOf G = 11 := by
  letI : DecidableEq (AdjoinRoot (quadPoly 7 6)) := Classical.decEq _
  obtain ⟨G, hG, ho⟩ := sw_config_meaning toySwQ (realises2_quad 7 6 [6] rfl) (by decide +kernel)
    (by decide +kernel) (by decide +kernel) (by decide +kernel) (by norm_num [toySwQ])
  exact ⟨inferInstance, G, hG, ho⟩

example : checkSwMulByA toySwQ = true := by decide +kernel

end ext

/-! ### pairing parameter sets -/

/-- toy BLS12 parameters `x = 4`: `r = x⁴ - x² + 1 = 241`, `p = (x-1)² r/3 + x = 727`; M-type twist -/
def toyBls : Bls12Cfg :=
  { x := 4, xIsNegative := false, twistIsM := true, p := 727, r := 241,
    fp2 := .ext 2 (.prime 727) [726], fp6Nonresidue := [1, 1], g1a := [0], g1b := [4],
    g2a := [0, 0], g2b := [4, 4], g1Cofactor := 3, g2Cofactor := 2197 }

/-- toy BN parameters `x = 1`: `p = 103`, `r = 97`, `6x + 2 = 8`; D-type twist `b'·ξ = b` -/
def toyBn : BnCfg :=
  { x := 1, xIsNegative := false, ateLoopCount := [0, 0, 0, 1], twistIsM := false,
    twistMulByQX := [0, 56], twistMulByQY := [84, 19], p := 103, r := 97,
    fp2 := .ext 2 (.prime 103) [102], fp6Nonresidue := [1, 1], g1a := [0], g1b := [3],
    g2a := [0, 0], g2b := [53, 50], g1Cofactor := 1, g2Cofactor := 109 }

/-- toy BW6 parameters `x = 4`: `r = 727`, `t = y₃ = 447`, `p = 66603` (not prime — only the identities
    are exercised) -/
def toyBw6 : Bw6Cfg :=
  { x := 4, xIsNegative := false, xMinus1Div3 := 1, ateLoopCount1 := 4, ateLoopCount1IsNegative := false,
    ateLoopCount2 := [1, 1, 0, 1], ateLoopCount2IsNegative := false, twistIsM := true, hT := 0, hY := 0,
    tModRIsZero := false, p := 66603, r := 727, fp3 := .ext 3 (.prime 66603) [2], fp6Nonresidue := [],
    g1a := [0], g1b := [5], g2a := [0], g2b := [10], g1Cofactor := 1, g2Cofactor := 1 }

/-- toy MNT4-like parameters: `p = 7`, `r = 5`, `p - r = 2`, `G2` over `F_7[u]/(u² + 1)` -/
def toyMnt : MntCfg :=
  { k := 4, twist := [0, 1], twistCoeffA := [5, 0], ateLoopCount := [1, 0], ateIsLoopCountNeg := false,
    finalExponentLastChunk1 := 1, finalExponentLastChunkW0IsNeg := false,
    finalExponentLastChunkAbsOfW0 := 3, p := 7, r := 5, ext := .ext 2 (.prime 7) [6],
    g1a := [2], g1b := [3], g2a := [5, 0], g2b := [0, 4], g1Cofactor := 1, g2Cofactor := 1 }

instance fact103 : Fact (Nat.Prime 103) := ⟨by norm_num⟩
theorem toy_nonsquare103 : ¬ ∃ y : ZMod 103, y ^ 2 = ((102 : Nat) : ZMod 103) := by decide
instance irr103 : Fact (Irreducible (quadPoly 103 102)) :=
  ⟨quadPoly_irreducible 103 102 toy_nonsquare103⟩

/-- **`checkBls12Cofactors`**: `3h₁ = (x-1)²`, `9h₂ = x⁸ - 4x⁷ + 5x⁶ - 4x⁴ + 6x³ - 4x² - 4x + 13` over `ℤ` -/
theorem bls12_cofactors_meaning (c : Bls12Cfg) (h : checkBls12Cofactors c = true) :
    3 * (c.g1Cofactor : Int) = (c.xi - 1) ^ 2 ∧
    9 * (c.g2Cofactor : Int) = c.xi ^ 8 - 4 * c.xi ^ 7 + 5 * c.xi ^ 6 - 4 * c.xi ^ 4 + 6 * c.xi ^ 3
      - 4 * c.xi ^ 2 - 4 * c.xi + 13 :=
  bls12_cofactors c h

example : checkBls12Family toyBls = true ∧ checkBls12Cofactors toyBls = true := by decide +kernel

section twist
variable {K : Type} [Field K] {φ : El → K}

/-- **`checkBls12Twist`**: `a = 0` on `G1` and `G2` (zero vectors), `Fp2` has characteristic `p`,
    `ξ = Fp6Config::NONRESIDUE` and `b₂` are reduced vectors of `Fp2`, and `b₂ = b₁·ξ` (M-type) resp.
    `b₂·ξ = b₁` (D-type), `b₁` embedded from `F_p` (`hb1`: the embedded `b₁` is a reduced vector — the
    checker does not test that; it follows from `checkSwShape` of the `G1` configuration) -/
theorem bls12_twist_meaning (c : Bls12Cfg) (R : Realises2 c.fp2 φ)
    (hb1 : wf c.fp2 (embed c.fp2 c.g1b) = true) (h : checkBls12Twist c = true) :
    Cfg.isZero c.g1a = true ∧ Cfg.isZero c.g2a = true ∧ c.fp2.char = c.p ∧
    (c.twistIsM = true → φ c.g2b = φ (embed c.fp2 c.g1b) * φ c.fp6Nonresidue) ∧
    (c.twistIsM = false → φ c.g2b * φ c.fp6Nonresidue = φ (embed c.fp2 c.g1b)) := by
  unfold checkBls12Twist at h
  simp only [band] at h
  obtain ⟨⟨⟨⟨⟨h1, h2⟩, h3⟩, h4⟩, h5⟩, h6⟩ := h
  exact ⟨h1, h2, Ark.CfgMeaning.beq_nat_true h3, twistB_rep R c.twistIsM hb1 h4 h5 h6⟩

/-- **`checkBnTwist`**: the same statement for BN curves -/
theorem bn_twist_meaning (c : BnCfg) (R : Realises2 c.fp2 φ)
    (hb1 : wf c.fp2 (embed c.fp2 c.g1b) = true) (h : checkBnTwist c = true) :
    Cfg.isZero c.g1a = true ∧ Cfg.isZero c.g2a = true ∧ c.fp2.char = c.p ∧
    (c.twistIsM = true → φ c.g2b = φ (embed c.fp2 c.g1b) * φ c.fp6Nonresidue) ∧
    (c.twistIsM = false → φ c.g2b * φ c.fp6Nonresidue = φ (embed c.fp2 c.g1b)) := by
  unfold checkBnTwist at h
  simp only [band] at h
  obtain ⟨⟨⟨⟨⟨h1, h2⟩, h3⟩, h4⟩, h5⟩, h6⟩ := h
  exact ⟨h1, h2, Ark.CfgMeaning.beq_nat_true h3, twistB_rep R c.twistIsM hb1 h4 h5 h6⟩

/-- non-vacuity (D-type, `Fp2 = F_103[u]/(u² + 1)`): `b₂·(1 + u) = 3` -/
example : phiQ 103 102 [53, 50] * phiQ 103 102 [1, 1] =
    AdjoinRoot.of (quadPoly 103 102) ((3 : Nat) : ZMod 103) := by
  have := (bn_twist_meaning toyBn (realises2_quad 103 102 [102] rfl) (by decide +kernel)
    (by decide +kernel)).2.2.2.2 rfl
  rw [← (phiQ_embed 103 102 3 [102]).2]
  exact this

example : checkBls12Twist toyBls = true := by decide +kernel

/-- **`checkBnTwistMulByQ`**: `6 ∣ p - 1`, `TWIST_MUL_BY_Q_X = ξ^((p-1)/3)`, `TWIST_MUL_BY_Q_Y = ξ^((p-1)/2)`
    in `Fp2` (`hxi`: `ξ` is a reduced vector — part of `checkBnTwist`) -/
theorem bn_twist_mul_by_q_meaning (c : BnCfg) (R : Realises2 c.fp2 φ)
    (hxi : wf c.fp2 c.fp6Nonresidue = true) (h : checkBnTwistMulByQ c = true) :
    6 ∣ c.p - 1 ∧ φ c.twistMulByQX = φ c.fp6Nonresidue ^ ((c.p - 1) / 3) ∧
    φ c.twistMulByQY = φ c.fp6Nonresidue ^ ((c.p - 1) / 2) :=
  bn_twist_mul_by_q c R hxi h

example : phiQ 103 102 [0, 56] = phiQ 103 102 [1, 1] ^ ((103 - 1) / 3) :=
  (bn_twist_mul_by_q_meaning toyBn (realises2_quad 103 102 [102] rfl) (by decide +kernel)
    (by decide +kernel)).2.1

/-- **`checkBw6Twist`**: `Fp3 = F_p[u]/(u³ - β)`, `a = 0` on both curves, and over `F_p`:
    `b₂ = b₁·β` (M-type) resp. `b₂·β = b₁` (D-type).  NB: unlike `checkBls12Twist` nothing is said about
    the arity / reducedness of `β`, `b₁`, `b₂` (hypotheses `hb1 hβ hb2`) -/
theorem bw6_twist_meaning (c : Bw6Cfg) (p : Nat) (nr : El) [Fact p.Prime]
    (hfp3 : c.fp3 = .ext 3 (.prime p) nr)
    (hb1 : wf (.prime p) (embed (.prime p) c.g1b) = true) (hβ : wf (.prime p) nr = true)
    (hb2 : wf (.prime p) c.g2b = true) (h : checkBw6Twist c = true) :
    p = c.p ∧ Cfg.isZero c.g1a = true ∧ Cfg.isZero c.g2a = true ∧
    (c.twistIsM = true → phiP p c.g2b = phiP p (embed (.prime p) c.g1b) * phiP p nr) ∧
    (c.twistIsM = false → phiP p c.g2b * phiP p nr = phiP p (embed (.prime p) c.g1b)) := by
  unfold checkBw6Twist at h
  rw [hfp3] at h
  simp only [band] at h
  obtain ⟨⟨⟨h1, h2⟩, h3⟩, h4⟩ := h
  exact ⟨Ark.CfgMeaning.beq_nat_true h1, h2, h3, twistB_rep (realises2_prime p) c.twistIsM hb1 hβ hb2 h4⟩

example : checkBw6Twist toyBw6 = true := by decide +kernel

/-- **`checkMntTwist`**: the extension has characteristic `p`; `TWIST` is the coordinate vector
    `[0, 1, 0, …]` of the generator `u`; `TWIST_COEFF_A = a·u²` (MNT4/6 only, not for `k = 0`, CP6);
    the `G2` coefficients are `a' = a·u²`, `b' = b·u³` (`a`, `b` embedded from `F_p`) -/
theorem mnt_twist_meaning (c : MntCfg) (R : Realises2 c.ext φ) (ht : wf c.ext c.twist = true)
    (ha1 : wf c.ext (embed c.ext c.g1a) = true) (hb1 : wf c.ext (embed c.ext c.g1b) = true)
    (h : checkMntTwist c = true) :
    c.ext.char = c.p ∧ c.twist = 0 :: 1 :: List.replicate (c.ext.deg - 2) 0 ∧
    (c.k ≠ 0 → φ c.twistCoeffA = φ (embed c.ext c.g1a) * φ c.twist ^ 2) ∧
    φ c.g2a = φ (embed c.ext c.g1a) * φ c.twist ^ 2 ∧
    φ c.g2b = φ (embed c.ext c.g1b) * φ c.twist ^ 3 := by
  unfold checkMntTwist at h
  simp only [band] at h
  obtain ⟨⟨⟨⟨h1, h2⟩, h3⟩, h4⟩, h5⟩ := h
  have rt : Rep c.ext φ c.twist (φ c.twist) := Rep.mk' ht
  have ra := R.rmul (Rep.mk' (φ := φ) ha1) (R.rsq rt)
  have rb := R.rmul (Rep.mk' (φ := φ) hb1) (R.rmul (R.rsq rt) rt)
  refine ⟨Ark.CfgMeaning.beq_nat_true h1, eq_of_beq h2, ?_, ?_, ?_⟩
  · intro hk
    have hk' : (c.k == 0) = false := by simpa using hk
    rw [hk', Bool.false_or] at h3
    rw [eq_of_beq h3, ra.2]; ring
  · rw [eq_of_beq h4, ra.2]; ring
  · rw [eq_of_beq h5, rb.2]; ring

example : phiQ 7 6 [0, 4] = phiQ 7 6 (embed (.ext 2 (.prime 7) [6]) [3]) * phiQ 7 6 [0, 1] ^ 3 :=
  (mnt_twist_meaning toyMnt (realises2_quad 7 6 [6] rfl) (by decide +kernel) (by decide +kernel)
    (by decide +kernel) (by decide +kernel)).2.2.2.2

end twist

/-- **`checkBnLoopCount`**: `ATE_LOOP_COUNT` consists of digits in `{0, ±1}`, its most significant
    (last) digit is `1`, and `Σ dᵢ·2^i = |6x + 2|` -/
theorem bn_loop_count_meaning (c : BnCfg) (h : checkBnLoopCount c = true) :
    (∀ d ∈ c.ateLoopCount, d = 0 ∨ d = 1 ∨ d = -1) ∧ c.ateLoopCount.getLast? = some 1 ∧
    sdValLE c.ateLoopCount = ((6 * c.xi + 2).natAbs : Int) :=
  bn_loop_count c h

/-- **`checkBnCofactors`**: `h₁ = 1`, `h₂ + r = 2p` -/
theorem bn_cofactors_meaning (c : BnCfg) (h : checkBnCofactors c = true) :
    c.g1Cofactor = 1 ∧ c.g2Cofactor + c.r = 2 * c.p :=
  bn_cofactors c h

example : checkBnFamily toyBn = true ∧ checkBnLoopCount toyBn = true ∧
    checkBnCofactors toyBn = true := by decide +kernel

/-- **`checkBw6XMinus1Div3`**: `3·X_MINUS_1_DIV_3 = x - 1` for `x > 0`, `= -x + 1` for `x < 0` -/
theorem bw6_x_minus_1_div_3_meaning (c : Bw6Cfg) (h : checkBw6XMinus1Div3 c = true) :
    3 * (c.xMinus1Div3 : Int) = (if c.xIsNegative = true then - c.xi + 1 else c.xi - 1) :=
  bw6_x_minus_1_div_3 c h

/-- **`checkBw6LoopCounts`**: `±ATE_LOOP_COUNT_1 = x`; `ATE_LOOP_COUNT_2` has digits in `{0, ±1}`, leading
    digit `1`, and `±Σ dᵢ·2^i = x² - x - 1` -/
theorem bw6_loop_counts_meaning (c : Bw6Cfg) (h : checkBw6LoopCounts c = true) :
    sgn c.ateLoopCount1IsNegative c.ateLoopCount1 = c.xi ∧
    (∀ d ∈ c.ateLoopCount2, d = 0 ∨ d = 1 ∨ d = -1) ∧ c.ateLoopCount2.getLast? = some 1 ∧
    (if c.ateLoopCount2IsNegative = true then - sdValLE c.ateLoopCount2 else sdValLE c.ateLoopCount2)
      = c.xi ^ 2 - c.xi - 1 :=
  bw6_loop_counts c h

/-- **`checkBw6Family`**: `3(r - x) = (x-1)²(x⁴ - x² + 1)` (the scalar field is the base field of the inner
    BLS12 curve) and the CM equation `12p = 3t² + y₃²` (`4p = t² + 3y²`, `y₃ = 3y`) with
    `t = t₀ + h_t·r`, `y₃ = y₃₀ + 3h_y·r`, `s = x⁵ - 3x⁴ + 3x³ - x`, `(t₀, y₃₀) = (s + 3, s + 3)` resp.
    `(-s, s)` when the trace is `0 mod r` -/
theorem bw6_family_meaning (c : Bw6Cfg) (h : checkBw6Family c = true) :
    let x := c.xi
    let r := (c.r : Int)
    let s := x ^ 5 - 3 * x ^ 4 + 3 * x ^ 3 - x
    let t := (if c.tModRIsZero = true then - s else s + 3) + c.hT * r
    let y3 := (if c.tModRIsZero = true then s else s + 3) + 3 * c.hY * r
    3 * (r - x) = (x - 1) ^ 2 * (x ^ 4 - x ^ 2 + 1) ∧ 12 * (c.p : Int) = 3 * t ^ 2 + y3 ^ 2 :=
  bw6_family c h

example : checkBw6XMinus1Div3 toyBw6 = true ∧ checkBw6LoopCounts toyBw6 = true ∧
    checkBw6Family toyBw6 = true := by decide +kernel

/-- **`checkMntLoopCount`**: CP6 (`k = 0`): `±ATE_LOOP_COUNT ≡ p (mod r)`; MNT4/6: digits in `{0, ±1}`
    (most significant first, leading digit `1`), `G1` cofactor `1`, and `±Σ dᵢ·2^(n-1-i) = p - r`
    (`= t - 1`, the Frobenius trace minus one) -/
theorem mnt_loop_count_meaning (c : MntCfg) (h : checkMntLoopCount c = true) :
    (c.k = 0 → (c.r : Int) ∣ sgn c.ateIsLoopCountNeg c.ateLoopCountNat - (c.p : Int)) ∧
    (c.k ≠ 0 → (∀ d ∈ c.ateLoopCount, d = 0 ∨ d = 1 ∨ d = -1) ∧ c.ateLoopCount.head? = some 1 ∧
      c.g1Cofactor = 1 ∧
      (if c.ateIsLoopCountNeg = true then - sdValLE c.ateLoopCount.reverse
        else sdValLE c.ateLoopCount.reverse) = (c.p : Int) - (c.r : Int)) :=
  mnt_loop_count c h

example : checkMntLoopCount toyMnt = true ∧ checkMntFinalExponent toyMnt = true := by decide +kernel

/-! ### summary: checker ↦ meaning lemma

  (`*` = lemma of this file; others: `Ark/Props/C16Meaning.lean`, `C13b.lean`, `C04d.lean`.)
  `R` stands for a realisation `Realises2 tower φ` of the relevant tower in a field `K`
  (`realises2_prime`, `realises2_quad`, `realises2_cubic`); `|K| = Tw.card` where Euler-type criteria or
  `Tw.inv` are involved (`prime_card`, `quad_card`, `cubic_card`).

  prime fields
    checkMontConsts            mont_consts_meaning
    checkModulusShape          modulus_odd, * modulus_shape_meaning (all conjuncts)
    checkTwoAdicity            two_adicity_meaning
    checkGeneratorQNR          generator_is_nonresidue
    checkRootOfUnity           two_adic_root_meaning
    checkLargeSubgroup         large_subgroup_root_meaning
    checkForwarding          * forwarding_meaning                 the five `MontConfig` constants equal the trait ones
    checkSqrtPrecomp         * sqrt_precomp_meaning               dumped `SQRT_PRECOMP` = C11 model `sqrtPrecomputation N p (g^t)`
                             * sqrt_precomp_valid_meaning         … hence `ValidPre` (hypothesis of the C11 sqrt theorems)
    checkMontFlags           * mont_flags_meaning                 spare bit ⇔ p < 2^(64N-1); no-carry-mul ⇔ … ∧ p ≠ 2^(64N-1)-1
  extension fields
    checkExtShape            * ext_shape_meaning
    checkNonresidue            nonresidue_meaning (prime base)
                             * nonresidue_meaning_general         any base field, plain branch
                             * nonresidue_generator_meaning       generator branch (generic), with the instances
                             * nonresidue_meaning_over_quad / nonresidue_meaning_over_cubic
    checkNonresidueIsGenerator * nonresidue_is_generator_meaning  (+ `genOf_quad`: the vector denotes `u`)
    checkNrMulBasis          * nr_mul_basis_meaning, nr_mul_hook  table = NONRESIDUE·e_j; additive hook = mult. on ⟨e_j⟩
    checkFrobeniusC1           frobenius_c1_meaning (F_p-valued), * frobenius_c1_meaning' (any table field)
    checkFrobeniusC2         * frobenius_c2_meaning               C2[i] = C1[i]² (cubic layers), empty otherwise
    checkFrobMulBasis        * frob_mul_basis_meaning, frob_hook_row_quad_meaning, frob_hook_row_cubic_meaning
    checkFp3TwoAdicity       * fp3_two_adicity_meaning            p³ - 1 = 2^s (2m + 1)
    checkFp3QnrToT           * fp3_qnr_to_t_meaning               order exactly 2^s; SQRT_PRECOMP repeats the constants
  short Weierstrass
    checkSwShape             * sw_shape_meaning
    checkSwNonsingular       * sw_nonsingular_meaning             4a³ + 27b² ≠ 0
    checkSwGeneratorOnCurve    sw_generator_on_curve_meaning (prime), * sw_generator_on_curve_meaning', sw_generator_is_point
    checkSwGeneratorOrder    * sw_generator_order_meaning         r • G = 0, G ≠ 0 in Mathlib's `Point`; order r if r prime
                             * sw_config_meaning                  (summary)
    checkSwCofactorInv         cofactor_inv_meaning
    checkSwMulByA            * sw_mul_by_a_meaning, sw_mul_by_a_hook, sw_mul_by_a_hook_prime
  GLV
    checkGlvBeta             * glv_beta_meaning                   β³ = 1, β ≠ 1, a = 0
    checkGlvLambda             glv_meaning
    checkGlvEndoForm         * glv_endo_form_meaning              endomorphism_affine(G) = (β·G.x, G.y)
    checkGlvEigen            * glv_eigen_meaning                  glvEndo β G = λ • G  (hypothesis `hg` of C04c)
    checkGlvDecompRows         glv_meaning
    checkGlvDet                glv_det_meaning
    checkGlvDecompShort      * glv_decomp_short_meaning           n² ≤ 4r for every entry
    checkGlvLadderBound        C04d.bound_ok_of_checks
                             * glv_generator_order, glv_mul_correct_of_checks   (capstone: GLV mul exact on ⟨G⟩)
  SWU / WB
    checkSwuZeta               swu_zeta_meaning (prime), * swu_zeta_meaning' (any field)
    checkSwuAB               * swu_ab_meaning                     a ≠ 0, b ≠ 0
    checkWbShape             * wb_shape_meaning
    checkWbIsoCurve          * wb_iso_curve_meaning               conjunction of the three checks on the isogenous curve
    checkWbImageOnCurve      * wb_image_on_curve_meaning          denominators ≠ 0, image of G' satisfies the curve equation
    checkWbImageOrder        * wb_image_order_meaning             r • image = 0
    checkWbIsoIdentity         C13b.wb_iso_identity_meaning(_quad)
  twisted Edwards / Elligator2
    checkTeShape             * te_shape_meaning
    checkTeNondegenerate     * te_nondegenerate_meaning           a ≠ 0, d ≠ 0, a ≠ d
    checkTeGeneratorOnCurve    te_generator_on_curve_meaning (prime), * te_generator_on_curve_meaning'
    checkTeGeneratorOrder    * te_generator_order_meaning, te_generator_order_complete
    checkTeCofactorInv         te_cofactor_inv_meaning
    checkTeMulByA            * te_mul_by_a_meaning, te_mul_by_a_hook
    checkTeMontgomery        * te_montgomery_meaning              A(a-d) = 2(a+d); B(a-d)/4 a non-zero square
    checkElligatorZ          * elligator_z_meaning                Z a non-square
    checkElligatorConsts     * elligator_consts_meaning           1/B², A/B
  pairing families
    checkBls12Family           bls12_family_meaning
    checkBls12Cofactors      * bls12_cofactors_meaning
    checkBls12Twist          * bls12_twist_meaning                a = 0; b₂ = b₁ξ (M) / b₂ξ = b₁ (D)
    checkBnFamily              bn_family_meaning
    checkBnLoopCount         * bn_loop_count_meaning              Σ dᵢ 2^i = |6x + 2|, digits in {0,±1}, top digit 1
    checkBnTwistMulByQ       * bn_twist_mul_by_q_meaning          ξ^((p-1)/3), ξ^((p-1)/2)
    checkBnTwist             * bn_twist_meaning
    checkBnCofactors         * bn_cofactors_meaning               h₁ = 1, h₂ + r = 2p
    checkBw6XMinus1Div3      * bw6_x_minus_1_div_3_meaning
    checkBw6LoopCounts       * bw6_loop_counts_meaning
    checkBw6Family           * bw6_family_meaning
    checkBw6Twist            * bw6_twist_meaning
    checkMntLoopCount        * mnt_loop_count_meaning
    checkMntFinalExponent      mnt_final_exponent_meaning
    checkMntTwist            * mnt_twist_meaning                  TWIST = u, a' = a u², b' = b u³
-/

end Ark.Props.C16Meaning2
