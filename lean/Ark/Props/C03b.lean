import Ark.Proofs.CurveB
import Mathlib.Data.ZMod.Basic
import Mathlib.Algebra.Field.ZMod
/-
  Property C03 (part b) — twisted-Edwards point arithmetic
  (`Ark.Curve.TE`, model of ec/src/models/twisted_edwards/{group,affine}.rs; extended coordinates
  `(X, Y, T, Z)`, add-2008-hwcd / madd-2008-hwcd / dbl-2008-hwcd) IS the affine Edwards addition
  law `TE.affAdd` on `a x² + y² = 1 + d x² y²`, over an arbitrary field `F`.

  Vocabulary (all from the model): `wellFormed p` (`Z ≠ 0 ∧ T Z = X Y`), `toAff p = some P`
  (`P = (X/Z, Y/Z)`), `affAdd a d` / `affNeg` / `onCurve a d` (the textbook law),
  `affAddDefined d P Q` (both denominators `1 ± d x₁x₂y₁y₂` are non-zero).
  `hA : ∀ e, c.mulByA e = c.a * e` says that the (overridable) `mul_by_a` multiplies by `a`.

    §1 rescaling            §2 unified addition (six entry points)      §3 doubling
    §4 closure              §5 completeness                             §6 the exceptional pairs
    §7 `is_zero`, `==`      §8 neg / conversions / batch normalisation / sums
    §9 `is_on_curve`
  Helpers are in Ark/Proofs/CurveB.lean.
-/
namespace Ark.C03
open Ark Ark.Curve Ark.Curve.TE

variable {F : Type} [Field F] [DecidableEq F]

/-! ### non-vacuity: the complete curve `x² + y² = 1 + 7 x² y²` over `ZMod 13` (20 points;
    `7` is a non-square), the incomplete curves `a = 1, d = 3` and `a = 2, d = 7` -/

local instance fact13 : Fact (Nat.Prime 13) := ⟨by decide⟩
local notation "c13" => (Curve.std (1 : ZMod 13) 7)

example : ∀ e, (c13).mulByA e = (c13).a * e := by intro e; simp [Curve.std, mul_comm]
example : ¬ IsSquare (7 : ZMod 13) := by rintro ⟨r, hr⟩; revert r; decide
example : onCurve (1 : ZMod 13) 7 (2, 4) = true ∧ onCurve (1 : ZMod 13) 7 (5, 6) = true := by decide
/-- `(6, 12, 11, 3)` and `(10, 7, 1, 5)` are two well-formed representations of `(2, 4)` -/
example : wellFormed (⟨6, 12, 11, 3⟩ : Ext (ZMod 13)) = true ∧
    toAff (⟨6, 12, 11, 3⟩ : Ext (ZMod 13)) = some (2, 4) ∧
    wellFormed (⟨10, 7, 1, 5⟩ : Ext (ZMod 13)) = true ∧
    toAff (⟨10, 7, 1, 5⟩ : Ext (ZMod 13)) = some (2, 4) := by decide +kernel

/-! ## 1. rescaling: `(Xλ, Yλ, Tλ, Zλ)` is the same point -/

theorem te_rescale (p : Ext F) (l : F) (hl : l ≠ 0) (hp : wellFormed p = true) :
    wellFormed (⟨p.x * l, p.y * l, p.t * l, p.z * l⟩ : Ext F) = true ∧
    toAff (⟨p.x * l, p.y * l, p.t * l, p.z * l⟩ : Ext F) = toAff p :=
  rescale p l hl hp

example : (⟨6 * 6, 12 * 6, 11 * 6, 3 * 6⟩ : Ext (ZMod 13)) = ⟨10, 7, 1, 5⟩ := by decide

/-! ## 2. the unified addition formulas are the Edwards law wherever the law is defined
    (identity, equal and opposite points included — the code has no case split) -/

/-- `AddAssign<&Self> for Projective` (add-2008-hwcd) -/
theorem te_add (c : Curve F) (hA : ∀ e, c.mulByA e = c.a * e) (p q : Ext F) (P Q : F × F)
    (hp : wellFormed p = true) (hq : wellFormed q = true)
    (hP : toAff p = some P) (hQ : toAff q = some Q) (hd : affAddDefined c.d P Q = true) :
    wellFormed (add c p q) = true ∧ toAff (add c p q) = some (affAdd c.a c.d P Q) :=
  add_correct c hA p q P Q hp hq hP hQ hd

/-- `AddAssign<&Affine> for Projective` (madd-2008-hwcd) -/
theorem te_addMixed (c : Curve F) (hA : ∀ e, c.mulByA e = c.a * e) (p : Ext F) (q : Affine F)
    (P : F × F) (hp : wellFormed p = true) (hP : toAff p = some P)
    (hd : affAddDefined c.d P (ofAffine q) = true) :
    wellFormed (addMixed c p q) = true ∧
      toAff (addMixed c p q) = some (affAdd c.a c.d P (ofAffine q)) :=
  addMixed_correct c hA p q P hp hP hd

/-- `SubAssign<&Self>` -/
theorem te_sub (c : Curve F) (hA : ∀ e, c.mulByA e = c.a * e) (p q : Ext F) (P Q : F × F)
    (hp : wellFormed p = true) (hq : wellFormed q = true)
    (hP : toAff p = some P) (hQ : toAff q = some Q) (hd : affAddDefined c.d P Q = true) :
    wellFormed (sub c p q) = true ∧ toAff (sub c p q) = some (affAdd c.a c.d P (affNeg Q)) :=
  sub_correct c hA p q P Q hp hq hP hQ hd

/-- `SubAssign<&Affine>` -/
theorem te_subMixed (c : Curve F) (hA : ∀ e, c.mulByA e = c.a * e) (p : Ext F) (q : Affine F)
    (P : F × F) (hp : wellFormed p = true) (hP : toAff p = some P)
    (hd : affAddDefined c.d P (ofAffine q) = true) :
    wellFormed (subMixed c p q) = true ∧
      toAff (subMixed c p q) = some (affAdd c.a c.d P (affNeg (ofAffine q))) :=
  subMixed_correct c hA p q P hp hP hd

/-- `Add for Affine` -/
theorem te_affineAdd (c : Curve F) (hA : ∀ e, c.mulByA e = c.a * e) (p q : Affine F)
    (hd : affAddDefined c.d (ofAffine p) (ofAffine q) = true) :
    wellFormed (affineAdd c p q) = true ∧
      toAff (affineAdd c p q) = some (affAdd c.a c.d (ofAffine p) (ofAffine q)) :=
  affineAdd_correct c hA p q hd

/-- `Sub for Affine` -/
theorem te_affineSub (c : Curve F) (hA : ∀ e, c.mulByA e = c.a * e) (p q : Affine F)
    (hd : affAddDefined c.d (ofAffine p) (ofAffine q) = true) :
    wellFormed (affineSub c p q) = true ∧
      toAff (affineSub c p q) = some (affAdd c.a c.d (ofAffine p) (affNeg (ofAffine q))) :=
  affineSub_correct c hA p q hd

/-- subtraction is defined exactly when addition is -/
theorem te_affAddDefined_neg (d : F) (P Q : F × F) :
    affAddDefined d P (affNeg Q) = affAddDefined d P Q :=
  affAddDefined_neg d P Q

/-- the specification has `(0, 1)` as neutral element, always defined … -/
theorem te_affAdd_zero (a d : F) (P : F × F) :
    affAddDefined d P ((0 : F), (1 : F)) = true ∧ affAdd a d P ((0 : F), (1 : F)) = P ∧
      affAdd a d ((0 : F), (1 : F)) P = P :=
  ⟨affAddDefined_zero_right d P, affAdd_zero_right a d P, affAdd_zero_left a d P⟩

/-- … and `affNeg` as inverse on the curve -/
theorem te_affAdd_affNeg (a d : F) (P : F × F) (hP : onCurve a d P = true)
    (hd : affAddDefined d P (affNeg P) = true) : affAdd a d P (affNeg P) = ((0 : F), (1 : F)) :=
  affAdd_affNeg a d P hP hd

-- general pair, equal points (through two different representations), opposite points, identity
example : affAddDefined (7 : ZMod 13) (2, 4) (5, 6) = true ∧
    add c13 ⟨6, 12, 11, 3⟩ (fromAffine ⟨5, 6⟩) = ⟨9, 10, 2, 6⟩ ∧
    toAff (add c13 ⟨6, 12, 11, 3⟩ (fromAffine ⟨5, 6⟩)) = some (affAdd 1 7 (2, 4) (5, 6)) := by
  decide +kernel
example : affAddDefined (7 : ZMod 13) (2, 4) (2, 4) = true ∧
    add c13 ⟨6, 12, 11, 3⟩ ⟨10, 7, 1, 5⟩ = ⟨5, 11, 1, 3⟩ ∧
    toAff (add c13 ⟨6, 12, 11, 3⟩ ⟨10, 7, 1, 5⟩) = some (6, 8) ∧
    affAdd (1 : ZMod 13) 7 (2, 4) (2, 4) = (6, 8) := by decide +kernel
example : affAddDefined (7 : ZMod 13) (2, 4) (affNeg (2, 4)) = true ∧
    toAff (sub c13 ⟨6, 12, 11, 3⟩ ⟨10, 7, 1, 5⟩) = some (0, 1) ∧
    toAff (addMixed c13 ⟨6, 12, 11, 3⟩ Affine.zero) = some (2, 4) ∧
    toAff (affineSub c13 ⟨2, 4⟩ ⟨5, 6⟩) = some (affAdd 1 7 (2, 4) (affNeg (5, 6))) := by
  decide +kernel

/-! ## 3. doubling (dbl-2008-hwcd; valid on the curve) -/

theorem te_double (c : Curve F) (hA : ∀ e, c.mulByA e = c.a * e) (p : Ext F) (P : F × F)
    (hp : wellFormed p = true) (hP : toAff p = some P) (hc : onCurve c.a c.d P = true)
    (hd : affAddDefined c.d P P = true) :
    wellFormed (double c p) = true ∧ toAff (double c p) = some (affAdd c.a c.d P P) :=
  double_correct c hA p P hp hP hc hd

example : double c13 ⟨6, 12, 11, 3⟩ = ⟨6, 8, 9, 1⟩ ∧ affAdd (1 : ZMod 13) 7 (2, 4) (2, 4) = (6, 8) := by
  decide +kernel
/-- the curve equation is needed: off the curve dbl-2008-hwcd differs from the law -/
example : onCurve (1 : ZMod 13) 7 (1, 1) = false ∧ affAddDefined (7 : ZMod 13) (1, 1) (1, 1) = true ∧
    toAff (double c13 ⟨1, 1, 1, 1⟩) ≠ some (affAdd 1 7 (1, 1) (1, 1)) := by decide +kernel

/-! ## 4. closure -/

theorem te_affAdd_onCurve (a d : F) (P Q : F × F) (hP : onCurve a d P = true)
    (hQ : onCurve a d Q = true) (hd : affAddDefined d P Q = true) :
    onCurve a d (affAdd a d P Q) = true :=
  affAdd_onCurve a d P Q hP hQ hd

theorem te_affNeg_onCurve (a d : F) (P : F × F) : onCurve a d (affNeg P) = onCurve a d P :=
  affNeg_onCurve a d P

example : onCurve (1 : ZMod 13) 7 (affAdd 1 7 (2, 4) (5, 6)) = true := by decide +kernel

/-! ## 5. completeness (Bernstein–Lange): `a` a non-zero square and `d` a non-square ⟹ the law is
    defined on the WHOLE curve, hence all the formulas of §2/§3 are the law on the whole curve -/

theorem te_complete (a d α : F) (ha : a = α * α) (hα : α ≠ 0) (hd : ¬ IsSquare d) (P Q : F × F)
    (hP : onCurve a d P = true) (hQ : onCurve a d Q = true) : affAddDefined d P Q = true :=
  complete a d α ha hα hd P Q hP hQ

/-- the same without assuming that `a` is a square: neither `d` nor `a d` is a square -/
theorem te_complete_general (a d : F) (hd : ¬ IsSquare d) (had : ¬ IsSquare (a * d)) (P Q : F × F)
    (hP : onCurve a d P = true) (hQ : onCurve a d Q = true) : affAddDefined d P Q = true :=
  complete_general a d hd had P Q hP hQ

/-- addition on a complete curve: no side condition besides "the inputs are curve points" -/
theorem te_add_complete (c : Curve F) (hA : ∀ e, c.mulByA e = c.a * e) (α : F) (ha : c.a = α * α)
    (hα : α ≠ 0) (hd : ¬ IsSquare c.d) (p q : Ext F) (P Q : F × F)
    (hp : wellFormed p = true) (hq : wellFormed q = true)
    (hP : toAff p = some P) (hQ : toAff q = some Q)
    (hPc : onCurve c.a c.d P = true) (hQc : onCurve c.a c.d Q = true) :
    wellFormed (add c p q) = true ∧ toAff (add c p q) = some (affAdd c.a c.d P Q) ∧
      onCurve c.a c.d (affAdd c.a c.d P Q) = true :=
  have hdef := complete c.a c.d α ha hα hd P Q hPc hQc
  have h := add_correct c hA p q P Q hp hq hP hQ hdef
  ⟨h.1, h.2, affAdd_onCurve c.a c.d P Q hPc hQc hdef⟩

theorem te_addMixed_complete (c : Curve F) (hA : ∀ e, c.mulByA e = c.a * e) (α : F)
    (ha : c.a = α * α) (hα : α ≠ 0) (hd : ¬ IsSquare c.d) (p : Ext F) (q : Affine F) (P : F × F)
    (hp : wellFormed p = true) (hP : toAff p = some P)
    (hPc : onCurve c.a c.d P = true) (hQc : onCurve c.a c.d (ofAffine q) = true) :
    wellFormed (addMixed c p q) = true ∧
      toAff (addMixed c p q) = some (affAdd c.a c.d P (ofAffine q)) ∧
      onCurve c.a c.d (affAdd c.a c.d P (ofAffine q)) = true :=
  have hdef := complete c.a c.d α ha hα hd P _ hPc hQc
  have h := addMixed_correct c hA p q P hp hP hdef
  ⟨h.1, h.2, affAdd_onCurve c.a c.d P _ hPc hQc hdef⟩

theorem te_double_complete (c : Curve F) (hA : ∀ e, c.mulByA e = c.a * e) (α : F)
    (ha : c.a = α * α) (hα : α ≠ 0) (hd : ¬ IsSquare c.d) (p : Ext F) (P : F × F)
    (hp : wellFormed p = true) (hP : toAff p = some P) (hPc : onCurve c.a c.d P = true) :
    wellFormed (double c p) = true ∧ toAff (double c p) = some (affAdd c.a c.d P P) ∧
      onCurve c.a c.d (affAdd c.a c.d P P) = true :=
  have hdef := complete c.a c.d α ha hα hd P P hPc hPc
  have h := double_correct c hA p P hp hP hPc hdef
  ⟨h.1, h.2, affAdd_onCurve c.a c.d P P hPc hPc hdef⟩

example : (1 : ZMod 13) = 1 * 1 ∧ (1 : ZMod 13) ≠ 0 := by decide
/-- on the complete curve every pair of the 20 points can be added -/
example : ∀ P Q : ZMod 13 × ZMod 13, onCurve 1 7 P = true → onCurve 1 7 Q = true →
    affAddDefined 7 P Q = true :=
  te_complete 1 7 1 (by decide) (by decide) (by rintro ⟨r, hr⟩; revert r; decide)

/-! ## 6. incomplete curves: the exceptional pairs.

    FULL STATEMENT NOT PROVED (kept for the record): on an arbitrary (possibly incomplete) curve,
    for every finite set `S` of curve points that is a subgroup of odd (e.g. prime) order of the
    curve group, `∀ P Q ∈ S, affAddDefined d P Q`.  Its proof needs the group structure of the
    desingularised projective curve (the exceptional `Q` are `T − P` for the points `T` at
    infinity, which have order 2 or 4); not attempted.
    What is proved instead is the explicit algebraic description of the failure set. -/

/-- if the law is undefined on two curve points then `Q` is one of the explicit exceptional
    partners of `P`: `(±1/(√d y₁), ±1/(√d x₁))` or `(±1/(√(ad) x₁), ±√(a/d)/y₁)` -/
theorem te_exceptional_partial (a d : F) (P Q : F × F) (hP : onCurve a d P = true)
    (hQ : onCurve a d Q = true) (hd : affAddDefined d P Q = false) :
    (d * Q.1 * Q.1 * P.2 * P.2 = 1 ∧ d * P.1 * P.1 * Q.2 * Q.2 = 1) ∨
    (a * d * P.1 * P.1 * Q.1 * Q.1 = 1 ∧ d * P.2 * P.2 * Q.2 * Q.2 = a) :=
  exceptional_of_not_defined a d P Q hP hQ hd

/-- conversely these relations make a denominator vanish -/
theorem te_exceptional_converse (a d : F) (ha : a ≠ 0) (P Q : F × F)
    (h : (d * Q.1 * Q.1 * P.2 * P.2 = 1 ∧ d * P.1 * P.1 * Q.2 * Q.2 = 1) ∨
      (a * d * P.1 * P.1 * Q.1 * Q.1 = 1 ∧ d * P.2 * P.2 * Q.2 * Q.2 = a)) :
    affAddDefined d P Q = false :=
  not_defined_of_exceptional a d ha P Q h

/-- in particular a failure forces `d` or `a d` to be a square -/
theorem te_isSquare_of_not_defined (a d : F) (P Q : F × F) (hP : onCurve a d P = true)
    (hQ : onCurve a d Q = true) (hd : affAddDefined d P Q = false) :
    IsSquare d ∨ IsSquare (a * d) :=
  isSquare_of_not_defined a d P Q hP hQ hd

/-- `d x₁x₂y₁y₂ = ±1` -/
theorem te_not_defined_iff (d : F) (P Q : F × F) :
    affAddDefined d P Q = false ↔
      (d * P.1 * Q.1 * P.2 * Q.2) * (d * P.1 * Q.1 * P.2 * Q.2) = 1 :=
  affAddDefined_eq_false_iff d P Q

-- `d = 3 = 4²`: first family;  `a = 2` non-square, `d = 7` non-square, `a d = 1`: second family
example : onCurve (1 : ZMod 13) 3 (4, 6) = true ∧ onCurve (1 : ZMod 13) 3 (6, 4) = true ∧
    affAddDefined (3 : ZMod 13) (4, 6) (6, 4) = false ∧
    (3 : ZMod 13) * 6 * 6 * 6 * 6 = 1 ∧ (3 : ZMod 13) * 4 * 4 * 4 * 4 = 1 := by decide
example : onCurve (2 : ZMod 13) 7 (3, 4) = true ∧ onCurve (2 : ZMod 13) 7 (4, 6) = true ∧
    affAddDefined (7 : ZMod 13) (3, 4) (4, 6) = false ∧
    (2 : ZMod 13) * 7 * 3 * 3 * 4 * 4 = 1 ∧ (7 : ZMod 13) * 4 * 4 * 6 * 6 = 2 := by decide

/-! ## 7. `is_zero` and `==` -/

/-- `Zero::is_zero` -/
theorem te_isZero (p : Ext F) (hp : wellFormed p = true) :
    p.isZero = true ↔ toAff p = some ((0 : F), (1 : F)) :=
  isZero_correct p hp

/-- `PartialEq for Projective` (cross-multiplied) -/
theorem te_eq (p q : Ext F) (hp : wellFormed p = true) (hq : wellFormed q = true) :
    p.eq q = true ↔ toAff p = toAff q :=
  eq_correct p q hp hq

/-- `PartialEq<Projective> for Affine` -/
theorem te_affineEqProj (a : Affine F) (q : Ext F) (hq : wellFormed q = true) :
    affineEqProj a q = true ↔ some (ofAffine a) = toAff q :=
  affineEqProj_correct a q hq

/-- `Projective::zero()` -/
theorem te_zero : wellFormed (Ext.zero : Ext F) = true ∧
    toAff (Ext.zero : Ext F) = some ((0 : F), (1 : F)) :=
  zero_correct

example : (⟨6, 12, 11, 3⟩ : Ext (ZMod 13)).eq ⟨10, 7, 1, 5⟩ = true ∧
    (⟨6, 12, 11, 3⟩ : Ext (ZMod 13)).eq ⟨0, 5, 0, 5⟩ = false ∧
    (⟨0, 5, 0, 5⟩ : Ext (ZMod 13)).isZero = true ∧
    wellFormed (⟨0, 5, 0, 5⟩ : Ext (ZMod 13)) = true := by decide
/-- the `T` invariant is needed: `(0, 5, 1, 5)` denotes `(0, 1)` but `is_zero` is false -/
example : toAff (⟨0, 5, 1, 5⟩ : Ext (ZMod 13)) = some (0, 1) ∧
    (⟨0, 5, 1, 5⟩ : Ext (ZMod 13)).isZero = false := by decide +kernel

/-! ## 8. negation, conversions, batch normalisation, sums -/

/-- `Neg for Projective` -/
theorem te_neg (p : Ext F) (P : F × F) (hp : wellFormed p = true) (hP : toAff p = some P) :
    wellFormed p.neg = true ∧ toAff p.neg = some (affNeg P) :=
  neg_correct p P hp hP

/-- `Neg for Affine` -/
theorem te_affine_neg (q : Affine F) : ofAffine q.neg = affNeg (ofAffine q) :=
  affineNeg_correct q

/-- `From<Projective> for Affine`: returns the denoted point whenever `Z ≠ 0` … -/
theorem te_toAffine (p : Ext F) (hz : p.z ≠ 0) :
    ∃ a, toAffine p = .ok a ∧ some (ofAffine a) = toAff p :=
  toAffine_correct p hz

/-- … and the `unwrap` panics exactly for `Z = 0` -/
theorem te_toAffine_panic_iff (p : Ext F) : toAffine p = .panic ↔ p.z = 0 :=
  toAffine_panic_iff p

/-- `From<Affine> for Projective` -/
theorem te_fromAffine (q : Affine F) :
    wellFormed (fromAffine q) = true ∧ toAff (fromAffine q) = some (ofAffine q) :=
  fromAffine_correct q

/-- `normalize_batch` never panics and is the pointwise normalisation: entry `i` is what
    `From<Projective> for Affine` returns on `v[i]`, and denotes the same point -/
theorem te_normalizeBatch (v : List (Ext F)) (hv : ∀ g ∈ v, g.z ≠ 0) :
    ∃ r, normalizeBatch v = .ok r ∧ r.map Outcome.ok = v.map toAffine ∧
      r.map (fun a => some (ofAffine a)) = v.map toAff := by
  refine ⟨_, normalizeBatch_eq v, ?_, ?_⟩
  · rw [List.map_map]
    exact List.map_congr_left (fun g hg => (toAffine_eq g (hv g hg)).symm)
  · rw [List.map_map]
    exact List.map_congr_left (fun g hg => ofAffine_normalizeWith g (hv g hg))

/-- unconditional form (entries with `Z = 0` are mapped with the "inverse" `0`) -/
theorem te_normalizeBatch_eq (v : List (Ext F)) :
    normalizeBatch v = .ok (v.map (fun g => normalizeWith g g.z⁻¹)) :=
  normalizeBatch_eq v

/-- `ark_ff::batch_inversion` over a field -/
theorem te_batchInversion (v : List F) : batchInversion v = some (v.map (·⁻¹)) :=
  batchInversion_eq v

/-- `Sum<Affine> for Projective`: the left fold of the law, provided every partial sum is defined -/
theorem te_sumAffine (c : Curve F) (hA : ∀ e, c.mulByA e = c.a * e) (l : List (Affine F))
    (hs : sumDefined c.a c.d ((0 : F), (1 : F)) (l.map ofAffine)) :
    wellFormed (sumAffine c l) = true ∧
      toAff (sumAffine c l) = some (affSum c.a c.d (l.map ofAffine)) :=
  foldl_addMixed c hA l Ext.zero _ zero_correct.1 zero_correct.2 hs

/-- `Sum<Projective> for Projective` -/
theorem te_sumProj (c : Curve F) (hA : ∀ e, c.mulByA e = c.a * e) (l : List (Ext F))
    (la : List (F × F))
    (hl : List.Forall₂ (fun p P => wellFormed p = true ∧ toAff p = some P) l la)
    (hs : sumDefined c.a c.d ((0 : F), (1 : F)) la) :
    wellFormed (sumProj c l) = true ∧ toAff (sumProj c l) = some (affSum c.a c.d la) :=
  foldl_add c hA l la Ext.zero _ hl zero_correct.1 zero_correct.2 hs

/-- on a complete curve every sum of curve points is defined -/
theorem te_sumDefined_complete (a d α : F) (ha : a = α * α) (hα : α ≠ 0) (hd : ¬ IsSquare d)
    (l : List (F × F)) (hl : ∀ Q ∈ l, onCurve a d Q = true) :
    sumDefined a d ((0 : F), (1 : F)) l :=
  sumDefined_of_complete a d (fun P Q hP hQ => complete a d α ha hα hd P Q hP hQ) l _
    (zero_onCurve a d) hl

theorem te_sumAffine_complete (c : Curve F) (hA : ∀ e, c.mulByA e = c.a * e) (α : F)
    (ha : c.a = α * α) (hα : α ≠ 0) (hd : ¬ IsSquare c.d) (l : List (Affine F))
    (hl : ∀ q ∈ l, onCurve c.a c.d (ofAffine q) = true) :
    wellFormed (sumAffine c l) = true ∧
      toAff (sumAffine c l) = some (affSum c.a c.d (l.map ofAffine)) :=
  te_sumAffine c hA l (te_sumDefined_complete c.a c.d α ha hα hd _ (by
    intro Q hQ
    obtain ⟨q, hq, rfl⟩ := List.mem_map.1 hQ
    exact hl q hq))

example : (⟨6, 12, 11, 3⟩ : Ext (ZMod 13)).neg = ⟨7, 12, 2, 3⟩ ∧
    toAff (⟨7, 12, 2, 3⟩ : Ext (ZMod 13)) = some (affNeg (2, 4)) := by decide +kernel
example : toAffine (⟨6, 12, 11, 3⟩ : Ext (ZMod 13)) = .ok ⟨2, 4⟩ ∧
    toAffine (⟨6, 12, 11, 0⟩ : Ext (ZMod 13)) = .panic := by decide +kernel
example : normalizeBatch [(⟨6, 12, 11, 3⟩ : Ext (ZMod 13)), ⟨0, 5, 0, 5⟩, ⟨5, 6, 4, 1⟩] =
    .ok [⟨2, 4⟩, ⟨0, 1⟩, ⟨5, 6⟩] := by decide +kernel
example : sumAffine c13 [⟨2, 4⟩, ⟨5, 6⟩, ⟨0, 12⟩, ⟨2, 4⟩] = ⟨6, 3, 1, 5⟩ ∧
    toAff (⟨6, 3, 1, 5⟩ : Ext (ZMod 13)) = some (9, 11) ∧
    affSum (1 : ZMod 13) 7 [(2, 4), (5, 6), (0, 12), (2, 4)] = (9, 11) := by decide +kernel
example : sumDefined (1 : ZMod 13) 7 (0, 1) [(2, 4), (5, 6), (0, 12), (2, 4)] :=
  te_sumDefined_complete 1 7 1 (by decide) (by decide) (by rintro ⟨r, hr⟩; revert r; decide) _
    (by decide +kernel)
example : List.Forall₂ (fun p P => wellFormed p = true ∧ toAff p = some P)
    [(⟨6, 12, 11, 3⟩ : Ext (ZMod 13)), ⟨10, 7, 1, 5⟩] [(2, 4), (2, 4)] :=
  .cons (by decide +kernel) (.cons (by decide +kernel) .nil)

/-! ## 9. `is_on_curve` -/

theorem te_isOnCurve (c : Curve F) (hA : ∀ e, c.mulByA e = c.a * e) (q : Affine F) :
    q.isOnCurve c = onCurve c.a c.d (ofAffine q) :=
  isOnCurve_eq c hA q

example : (⟨2, 4⟩ : Affine (ZMod 13)).isOnCurve c13 = true ∧
    (⟨1, 1⟩ : Affine (ZMod 13)).isOnCurve c13 = false := by decide

end Ark.C03
