import Ark.Proofs.BytesSqrt
import Ark.Props.C09
/-
  Property C09b — the compressed point round trip over a prime field, UNCONDITIONALLY.

  `Ark.Props.C09` proves the round trips of `ark-ec`'s point (de)serialisers relative to `SqrtOK K canon`
  (`Field::sqrt` returns some root exactly for squares) and, for twisted Edwards, relative to the curve
  equation solved for `x²` (which over the executable field `Ark.Fp p` needs the correctness of the
  modular inversion `Ark.Spec.modInv`).  Here both are discharged for every prime modulus:

  * the dictionary is `fpCodecV c` (`Ark.Model.BytesSqrt`) — `fpCodec c` with `sqrt` replaced by the C11
    model of the Rust code, `(fpSqrtD false p (sqrt_precomputation N p g^t)).sqrt`, `g` the least quadratic
    non-residue (searched; it exists for every odd prime) — this is the dictionary the driver of C09/C10
    executes (`Ark.Model.DrvC09.kitFp`);
  * `SqrtOK (fpCodecV c)` follows from C11's `fpSqrtD_correct`;
  * `Spec.modInv a p · a ≡ 1 (mod p)` for `p` prime, `p ∤ a` (extended Euclid never runs out of its
    fuel `2·log₂ p + 4`).

  Standing hypotheses: `WFc c` (`1 ≤ N`, `2^(64(N−1)) ≤ p < 2^(64N)`: a real `FpConfig<N>`) and `c.p.Prime`.
  Only theorems and examples here; helper lemmas are in Ark/Proofs/BytesSqrt.lean.
-/
namespace Ark.C09b
open Ark Ark.Bytes

/-! ## 1. The dictionary `fpCodecV`: `fpCodec` except for `sqrt` -/

theorem fp_codec_v_fields (c : FpCfg) :
    (fpCodecV c).serFlags = (fpCodec c).serFlags ∧ (fpCodecV c).deFlags = (fpCodec c).deFlags ∧
    (fpCodecV c).de = (fpCodec c).de ∧ (fpCodecV c).sizeFlags = (fpCodec c).sizeFlags ∧
    (fpCodecV c).lt = (fpCodec c).lt ∧ (fpCodecV c).sqrt = fpSqrtV c (fpSqrtPre c) :=
  ⟨rfl, rfl, rfl, rfl, rfl, rfl⟩

/-- the search for a quadratic non-residue succeeds for every odd prime -/
theorem find_qnr_nonsquare (p : ℕ) [Fact p.Prime] (hp : p ≠ 2) :
    ¬ IsSquare ((findQnr p p 2 : ℕ) : ZMod p) :=
  findQnr_nonsquare p hp

/-- the constants are those of `sqrt_precomputation` with `TWO_ADIC_ROOT_OF_UNITY = g^t` -/
theorem fp_sqrt_pre_eq (p : ℕ) [Fact p.Prime] (n : Nat) :
    fpSqrtPre ⟨p, n⟩ = Sqrt.sqrtPrecomputation n p
      (SqrtP.ofZ p (((findQnr p p 2 : ℕ) : ZMod p) ^ (Sqrt.twoAdic p).2)) :=
  fpSqrtPre_eq p n

/-- the C11 model never panics and never diverges on them: the fallback `none` of `fpSqrtV` is dead code -/
theorem fp_sqrt_v_total {c : FpCfg} (h : WFc c) (hp : c.p.Prime) (h2 : c.p ≠ 2) (a : Fp c.p)
    (ha : a.val < c.p) : ∃ r, (Sqrt.fpSqrtD false c.p (fpSqrtPre c)).sqrt a = .ok r :=
  haveI : Fact c.p.Prime := ⟨hp⟩
  fpSqrtD_total c.p h2 c.N h.p_lt a ha

/-- **`SqrtOK` for every prime modulus** -/
theorem fp_sqrt_ok {c : FpCfg} (h : WFc c) (hp : c.p.Prime) :
    SqrtOK (fpCodecV c) (fun x => x.val < c.p) :=
  fpSqrtOKV hp h.p_lt

theorem fp_codec_v_ok {c : FpCfg} (h : WFc c) : CodecOK (fpCodecV c) (fun x => x.val < c.p) :=
  fpCodecVOK h

theorem fp_lt_ok_v (c : FpCfg) : LtOK (fpCodecV c) (fun x => x.val < c.p) := fpLtOKV c

/-- non-vacuity: `F_13` (Tonelli–Shanks, two-adicity 2, `g = 2`), `F_97` (two-adicity 5, `g = 5`),
    `F_10007` (`p ≡ 3 mod 4`) -/
example : WFc ⟨13, 1⟩ ∧ Nat.Prime 13 := ⟨wfc_13, by decide +kernel⟩
example : WFc ⟨97, 1⟩ ∧ Nat.Prime 97 := ⟨wfc_97, prime_97⟩
example : WFc ⟨10007, 1⟩ ∧ Nat.Prime 10007 := ⟨wfc_10007, prime_10007⟩
example : findQnr 13 13 2 = 2 ∧ findQnr 97 97 2 = 5 := by decide +kernel
example : fpSqrtPre ⟨13, 1⟩ = some (.tonelliShanks 2 ⟨8⟩ 1) ∧
    fpSqrtPre ⟨97, 1⟩ = some (.tonelliShanks 5 ⟨28⟩ 1) ∧
    fpSqrtPre ⟨10007, 1⟩ = some (.case3Mod4 2502) := ⟨rfl, rfl, rfl⟩
example : (fpCodecV ⟨13, 1⟩).sqrt ⟨10⟩ = some ⟨7⟩ ∧ (fpCodecV ⟨13, 1⟩).sqrt ⟨2⟩ = none ∧
    (fpCodecV ⟨13, 1⟩).sqrt ⟨0⟩ = some ⟨0⟩ := by decide +kernel
example : (fpCodecV ⟨97, 1⟩).sqrt ⟨9⟩ = some ⟨94⟩ ∧ (fpCodecV ⟨97, 1⟩).sqrt ⟨5⟩ = none := by decide +kernel
example : (fpCodecV ⟨10007, 1⟩).sqrt ⟨9⟩ = some ⟨3⟩ ∧ (fpCodecV ⟨10007, 1⟩).sqrt ⟨5⟩ = none := by
  decide +kernel

/-! ## 2. Inversion in the executable field -/

/-- `Spec.modInv` (the `Inv` of `Ark.Fp p`) is the inverse modulo a prime -/
theorem mod_inv_correct (a p : ℕ) (hp : p.Prime) (ha : a % p ≠ 0) : (Spec.modInv a p * a) % p = 1 :=
  modInv_mul a p hp ha

theorem fp_mul_inv_cancel {p : ℕ} (hp : p.Prime) (a : Fp p) (ha : a.val % p ≠ 0) : a * a⁻¹ = 1 :=
  Fp.mul_inv_cancel' hp a ha

example : Spec.modInv 5 13 = 8 ∧ ((⟨5⟩ : Fp 13) * (⟨5⟩ : Fp 13)⁻¹ = 1) := by decide +kernel

/-- hence, inside `Fp p`, a point of a twisted-Edwards curve with `a ≠ d` has a non-vanishing
    denominator `a − d·y²` and satisfies the equation solved for `x²` -/
theorem te_solve_fp {p : ℕ} (hp : p.Prime) (E : TECfg (Fp p)) (P : TEAff (Fp p))
    (hon : teIsOnCurve E P = true) (had : E.a.val % p ≠ E.d.val % p) :
    E.a - (P.y * P.y) * E.d ≠ 0 ∧ P.x * P.x = teX2 E P.y :=
  Bytes.te_solve_fp hp E P hon had

/-! ## 3. Short Weierstrass: the round trip in both compression modes and both validation modes -/

/-- **`sw_round_trip_fp_unconditional`**: for every well-formed prime-field configuration, every curve
    record and every point on the curve with reduced coordinates (or the identity), what
    `serialize_with_mode` writes is read back by `deserialize_with_mode` — consuming exactly the bytes
    written, whatever follows — as the identity `(0, 0, true)`, or the point itself; in checked mode a
    point failing `Valid::check` (here: the subgroup test) is `InvalidData`.
    No hypothesis on `sqrt`. -/
theorem sw_round_trip_fp_unconditional {c : FpCfg} (h : WFc c) (hp : c.p.Prime)
    (E : SWCfg (Fp c.p)) (P : SWAff (Fp c.p)) (hc : P.infinity = false → P.x.val < c.p ∧ P.y.val < c.p)
    (hon : swIsOnCurve E P = true) (cm : Compress) (vd : Validate)
    (bs : List Nat) (hs : swSerialize (fpCodecV c) P cm = .ok bs) (tl : List Nat) :
    runM (swDeserialize (fpCodecV c) E cm vd) (bs ++ tl) =
      if P.infinity = true then .ok ⟨0, 0, true⟩ ⟨tl, bs.length⟩
      else if vd = .yes ∧ swCheck E P = false then .err .invalid ⟨tl, bs.length⟩
      else .ok P ⟨tl, bs.length⟩ :=
  C09.sw_round_trip (fpCodecVOK h) h.p_pos (fpSignLaws hp) (fpSqrtOKV hp h.p_lt) (fpLtOKV c)
    E P hc hon cm vd bs hs tl

/-- serialisation itself always succeeds -/
theorem sw_serialize_ok {c : FpCfg} (h : WFc c) (P : SWAff (Fp c.p)) (cm : Compress) :
    ∃ bs, swSerialize (fpCodecV c) P cm = .ok bs := by
  have hser : ∀ (Fl : Type) [Flags Fl], bitSize Fl ≤ 8 → ∀ (x : Fp c.p) (fl : Fl),
      ∃ bs, (fpCodecV c).serFlags Fl x fl = .ok bs := fun Fl _ hf x fl => ⟨_, fpSer_char h Fl hf x fl⟩
  unfold swSerialize
  cases cm with
  | yes => exact hser SWFlags (by decide) _ _
  | no =>
    obtain ⟨a, ha⟩ := hser EmptyFlags (by decide) (if P.infinity then (0, 0, SWFlags.pointAtInfinity)
      else (P.x, P.y, swToFlags (fpCodecV c) P)).1 .mk
    obtain ⟨b, hb⟩ := hser SWFlags (by decide) (if P.infinity then (0, 0, SWFlags.pointAtInfinity)
      else (P.x, P.y, swToFlags (fpCodecV c) P)).2.1 (if P.infinity then (0, 0, SWFlags.pointAtInfinity)
      else (P.x, P.y, swToFlags (fpCodecV c) P)).2.2
    refine ⟨a ++ b, ?_⟩
    simp only [Codec.ser]
    rw [ha, hb]
    rfl

/-- the `Projective` wrappers -/
theorem sw_proj_round_trip_fp_unconditional {c : FpCfg} (h : WFc c) (hp : c.p.Prime)
    (E : SWCfg (Fp c.p)) (P : SWProj (Fp c.p)) (A : SWAff (Fp c.p)) (hA : swToAffine P = .ok A)
    (hc : A.infinity = false → A.x.val < c.p ∧ A.y.val < c.p)
    (hon : swIsOnCurve E A = true) (cm : Compress) (vd : Validate)
    (bs : List Nat) (hs : swProjSerialize (fpCodecV c) P cm = .ok bs) (tl : List Nat) :
    runM (swProjDeserialize (fpCodecV c) E cm vd) (bs ++ tl) =
      if A.infinity = true then .ok ⟨1, 1, 0⟩ ⟨tl, bs.length⟩
      else if vd = .yes ∧ swCheck E A = false then .err .invalid ⟨tl, bs.length⟩
      else .ok ⟨A.x, A.y, 1⟩ ⟨tl, bs.length⟩ :=
  C09.sw_proj_round_trip (fpCodecVOK h) h.p_pos (fpSignLaws hp) (fpSqrtOKV hp h.p_lt) (fpLtOKV c)
    E P A hA hc hon cm vd bs hs tl

/-- the sign rule, unconditionally: `get_ys_from_x_unchecked` returns `(y, −y)` with `¬ (−y < y)`, both
    roots of `x³ + a·x + b`, and returns a pair exactly when that is a square -/
theorem sw_get_ys_fp {c : FpCfg} (h : WFc c) (hp : c.p.Prime) (E : SWCfg (Fp c.p)) (x : Fp c.p) :
    (∀ y1 y2, swGetYsFromX (fpCodecV c) E x = some (y1, y2) →
      y2 = -y1 ∧ (fpCodecV c).lt (-y1) y1 = false ∧ y1 * y1 = swRhs E x ∧ y2 * y2 = swRhs E x) ∧
    ((∃ q, swGetYsFromX (fpCodecV c) E x = some q) ↔ ∃ y : Fp c.p, y.val < c.p ∧ y * y = swRhs E x) :=
  ⟨fun y1 y2 => C09.sw_get_ys_sign (fpSignLaws hp) (fpSqrtOKV hp h.p_lt) (fpLtOKV c) E x y1 y2,
   C09.sw_get_ys_some_iff (fpSignLaws hp) (fpSqrtOKV hp h.p_lt) (fpLtOKV c) E x⟩

/-- `fpCodec` (spec-level Tonelli–Shanks `fpSqrt`) and `fpCodecV` recover the same `y`s whenever `fpSqrt`
    is a square root at all: the switch of the driver's dictionary cannot change a verdict -/
theorem sw_get_ys_codec_indep {c : FpCfg} (h : WFc c) (hp : c.p.Prime)
    (hS : SqrtOK (fpCodec c) (fun x => x.val < c.p)) (E : SWCfg (Fp c.p)) (x : Fp c.p) :
    swGetYsFromX (fpCodec c) E x = swGetYsFromX (fpCodecV c) E x :=
  C09.sw_get_ys_indep (fpSignLaws hp) (fpSqrtOKV hp h.p_lt) hS (fpLtOKV c) rfl E x

/-- non-vacuity.  `y² = x³ + 7` over `F_13` (Tonelli–Shanks path), points `(7, 8)`, `(7, 5)`, the identity;
    `y² = x³ + 3x + 5` over `F_97` (two-adicity 5) and over `F_10007` (`p ≡ 3 mod 4`), point `(1, 3)` / `(1, −3)` -/
example : swIsOnCurve (swCfgFp (p := 13) ⟨0⟩ ⟨7⟩ true 7) ⟨⟨7⟩, ⟨8⟩, false⟩ = true := by decide +kernel
example : swSerialize (fpCodecV ⟨13, 1⟩) ⟨⟨7⟩, ⟨8⟩, false⟩ .yes = .ok [135] ∧
    runM (swDeserialize (fpCodecV ⟨13, 1⟩) (swCfgFp ⟨0⟩ ⟨7⟩ false 7) .yes .yes) ([135] ++ [1]) =
      .ok ⟨⟨7⟩, ⟨8⟩, false⟩ ⟨[1], 1⟩ ∧
    runM (swDeserialize (fpCodecV ⟨13, 1⟩) (swCfgFp ⟨0⟩ ⟨7⟩ false 7) .yes .yes) [7] =
      .ok ⟨⟨7⟩, ⟨5⟩, false⟩ ⟨[], 1⟩ ∧
    runM (swDeserialize (fpCodecV ⟨13, 1⟩) (swCfgFp ⟨0⟩ ⟨7⟩ false 7) .yes .yes) [64] =
      .ok ⟨⟨0⟩, ⟨0⟩, true⟩ ⟨[], 1⟩ ∧
    runM (swDeserialize (fpCodecV ⟨13, 1⟩) (swCfgFp ⟨0⟩ ⟨7⟩ false 7) .yes .yes) [1] =
      .err .invalid ⟨[], 1⟩ := by decide +kernel
example : swIsOnCurve (swCfgFp (p := 97) ⟨3⟩ ⟨5⟩ true 1) ⟨⟨1⟩, ⟨94⟩, false⟩ = true ∧
    swSerialize (fpCodecV ⟨97, 1⟩) ⟨⟨1⟩, ⟨94⟩, false⟩ .yes = .ok [1, 128] ∧
    runM (swDeserialize (fpCodecV ⟨97, 1⟩) (swCfgFp ⟨3⟩ ⟨5⟩ true 1) .yes .yes) [1, 128, 0xee] =
      .ok ⟨⟨1⟩, ⟨94⟩, false⟩ ⟨[0xee], 2⟩ := by decide +kernel
example : swIsOnCurve (swCfgFp (p := 10007) ⟨3⟩ ⟨5⟩ true 1) ⟨⟨1⟩, ⟨10004⟩, false⟩ = true ∧
    swSerialize (fpCodecV ⟨10007, 1⟩) ⟨⟨1⟩, ⟨10004⟩, false⟩ .yes = .ok [1, 128] ∧
    runM (swDeserialize (fpCodecV ⟨10007, 1⟩) (swCfgFp ⟨3⟩ ⟨5⟩ true 1) .yes .yes) [1, 128] =
      .ok ⟨⟨1⟩, ⟨10004⟩, false⟩ ⟨[], 2⟩ ∧
    runM (swDeserialize (fpCodecV ⟨10007, 1⟩) (swCfgFp ⟨3⟩ ⟨5⟩ true 1) .yes .yes) [1, 0] =
      .ok ⟨⟨1⟩, ⟨3⟩, false⟩ ⟨[], 2⟩ ∧
    runM (swDeserialize (fpCodecV ⟨10007, 1⟩) (swCfgFp ⟨3⟩ ⟨5⟩ true 1) .no .yes) [1, 0, 3, 0] =
      .ok ⟨⟨1⟩, ⟨3⟩, false⟩ ⟨[], 4⟩ := by decide +kernel

/-! ## 4. Twisted Edwards -/

/-- **`te_round_trip_compressed_fp_unconditional`**: for every well-formed prime-field configuration, every
    curve record with `a ≠ d` and every point on the curve with reduced coordinates, the compressed
    encoding (`y` and the sign of `x`) is read back as the point — `x` recovered through the inversion
    and the square root of the executable field.  No hypothesis on `sqrt`, none on `modInv`. -/
theorem te_round_trip_compressed_fp_unconditional {c : FpCfg} (h : WFc c) (hp : c.p.Prime)
    (E : TECfg (Fp c.p)) (had : E.a.val % c.p ≠ E.d.val % c.p)
    (P : TEAff (Fp c.p)) (hx : P.x.val < c.p) (hy : P.y.val < c.p)
    (hon : teIsOnCurve E P = true) (vd : Validate)
    (bs : List Nat) (hs : teSerialize (fpCodecV c) P .yes = .ok bs) (tl : List Nat) :
    runM (teDeserialize (fpCodecV c) E .yes vd) (bs ++ tl) =
      if vd = .yes ∧ teCheck E P = false then .err .invalid ⟨tl, bs.length⟩
      else .ok P ⟨tl, bs.length⟩ :=
  C09.te_round_trip_compressed (fpCodecVOK h) (fpSignLaws hp) (fpSqrtOKV hp h.p_lt) (fpLtOKV c) E P hx hy
    (Bytes.te_solve_fp hp E P hon had).1 (Bytes.te_solve_fp hp E P hon had).2 vd bs hs tl

/-- both compression modes -/
theorem te_round_trip_fp_unconditional {c : FpCfg} (h : WFc c) (hp : c.p.Prime)
    (E : TECfg (Fp c.p)) (had : E.a.val % c.p ≠ E.d.val % c.p)
    (P : TEAff (Fp c.p)) (hx : P.x.val < c.p) (hy : P.y.val < c.p)
    (hon : teIsOnCurve E P = true) (cm : Compress) (vd : Validate)
    (bs : List Nat) (hs : teSerialize (fpCodecV c) P cm = .ok bs) (tl : List Nat) :
    runM (teDeserialize (fpCodecV c) E cm vd) (bs ++ tl) =
      if vd = .yes ∧ teCheck E P = false then .err .invalid ⟨tl, bs.length⟩
      else .ok P ⟨tl, bs.length⟩ := by
  cases cm with
  | yes => exact te_round_trip_compressed_fp_unconditional h hp E had P hx hy hon vd bs hs tl
  | no => exact C09.te_round_trip_uncompressed (fpCodecVOK h) E P hx hy vd bs hs tl

/-- the `Projective` wrappers (extended coordinates) -/
theorem te_proj_round_trip_fp_unconditional {c : FpCfg} (h : WFc c) (hp : c.p.Prime)
    (E : TECfg (Fp c.p)) (had : E.a.val % c.p ≠ E.d.val % c.p)
    (P : TEProj (Fp c.p)) (A : TEAff (Fp c.p)) (hA : teToAffine P = .ok A)
    (hx : A.x.val < c.p) (hy : A.y.val < c.p) (hon : teIsOnCurve E A = true)
    (cm : Compress) (vd : Validate)
    (bs : List Nat) (hs : teProjSerialize (fpCodecV c) P cm = .ok bs) (tl : List Nat) :
    runM (teProjDeserialize (fpCodecV c) E cm vd) (bs ++ tl) =
      if vd = .yes ∧ teCheck E A = false then .err .invalid ⟨tl, bs.length⟩
      else .ok ⟨A.x, A.y, A.x * A.y, 1⟩ ⟨tl, bs.length⟩ :=
  C09.te_proj_round_trip (fpCodecVOK h) (fpSignLaws hp) (fpSqrtOKV hp h.p_lt) (fpLtOKV c) E P A hA hx hy
    (Bytes.te_solve_fp hp E A hon had).1 (Bytes.te_solve_fp hp E A hon had).2 cm vd bs hs tl

/-- the hypothesis `a ≠ d` cannot be dropped: on the degenerate "curve" `x² + y² = 1 + x²y²` over `F_13`
    every `(x, 1)` satisfies the equation, and `(5, 1)` is not read back (`a − d·y² = 0`) -/
example : teIsOnCurve (teCfgFp (p := 13) ⟨1⟩ ⟨1⟩ 1) ⟨⟨5⟩, ⟨1⟩⟩ = true ∧
    teSerialize (fpCodecV ⟨13, 1⟩) ⟨⟨5⟩, ⟨1⟩⟩ .yes = .ok [1] ∧
    runM (teDeserialize (fpCodecV ⟨13, 1⟩) (teCfgFp ⟨1⟩ ⟨1⟩ 1) .yes .no) [1] = .err .invalid ⟨[], 1⟩ := by
  decide +kernel

/-- non-vacuity: `x² + y² = 1 + 2·x²·y²` over `F_13`, points `(4, 9)` and `(9, 9) = (−4, 9)`;
    `3x² + y² = 1 + 5x²y²` over `F_97` and `F_10007`, `y = 4` -/
example : teIsOnCurve (teCfgFp (p := 13) ⟨1⟩ ⟨2⟩ 8) ⟨⟨9⟩, ⟨9⟩⟩ = true ∧
    teSerialize (fpCodecV ⟨13, 1⟩) ⟨⟨4⟩, ⟨9⟩⟩ .yes = .ok [9] ∧
    teSerialize (fpCodecV ⟨13, 1⟩) ⟨⟨9⟩, ⟨9⟩⟩ .yes = .ok [137] ∧
    runM (teDeserialize (fpCodecV ⟨13, 1⟩) (teCfgFp ⟨1⟩ ⟨2⟩ 8) .yes .yes) [137] = .ok ⟨⟨9⟩, ⟨9⟩⟩ ⟨[], 1⟩ ∧
    runM (teDeserialize (fpCodecV ⟨13, 1⟩) (teCfgFp ⟨1⟩ ⟨2⟩ 8) .yes .yes) [9] = .ok ⟨⟨4⟩, ⟨9⟩⟩ ⟨[], 1⟩ := by
  decide +kernel
example : teIsOnCurve (teCfgFp (p := 97) ⟨3⟩ ⟨5⟩ 1) ⟨⟨84⟩, ⟨4⟩⟩ = true ∧
    teSerialize (fpCodecV ⟨97, 1⟩) ⟨⟨84⟩, ⟨4⟩⟩ .yes = .ok [132] ∧
    runM (teDeserialize (fpCodecV ⟨97, 1⟩) (teCfgFp ⟨3⟩ ⟨5⟩ 1) .yes .no) [132] = .ok ⟨⟨84⟩, ⟨4⟩⟩ ⟨[], 1⟩ := by
  decide +kernel
example : teIsOnCurve (teCfgFp (p := 10007) ⟨3⟩ ⟨5⟩ 1) ⟨⟨5790⟩, ⟨4⟩⟩ = true ∧
    teSerialize (fpCodecV ⟨10007, 1⟩) ⟨⟨5790⟩, ⟨4⟩⟩ .yes = .ok [4, 128] ∧
    runM (teDeserialize (fpCodecV ⟨10007, 1⟩) (teCfgFp ⟨3⟩ ⟨5⟩ 1) .yes .no) [4, 128] =
      .ok ⟨⟨5790⟩, ⟨4⟩⟩ ⟨[], 2⟩ := by
  decide +kernel

/-! ## 5. The quadratic extension `Fp2 = Fp[u]/(u² − β)` (coordinate field of G2 points) -/

/-- `fp2CodecV` is `fp2Codec` except for `sqrt`, which is C11's `QuadExtField::sqrt` -/
theorem fp2_codec_v_fields (c : FpCfg) (β : ℕ) :
    (fp2CodecV c β).serFlags = (fp2Codec c β).serFlags ∧ (fp2CodecV c β).deFlags = (fp2Codec c β).deFlags ∧
    (fp2CodecV c β).de = (fp2Codec c β).de ∧ (fp2CodecV c β).sizeFlags = (fp2Codec c β).sizeFlags ∧
    (fp2CodecV c β).lt = (fp2Codec c β).lt ∧ (fp2CodecV c β).sqrt = fp2SqrtV c β (fpSqrtPre c) :=
  ⟨rfl, rfl, rfl, rfl, rfl, rfl⟩

/-- the algebra the sign rule needs holds in `Fp2` on reduced representatives: `p` prime, `β` a non-residue -/
theorem fp2_sign_laws {p : ℕ} (hp : p.Prime) (β : ℕ) (hβ : ∀ x : ZMod p, x * x ≠ ((β : ℕ) : ZMod p)) :
    SignLaws (Fp2 p β) (fun x => x.c0.val < p ∧ x.c1.val < p) :=
  fp2SignLaws hp β hβ

/-- `Ord for QuadExtField` (`c1` first) is a strict total order on reduced representatives -/
theorem fp2_lt_ok_v (c : FpCfg) (β : ℕ) :
    LtOK (fp2CodecV c β) (fun x => x.c0.val < c.p ∧ x.c1.val < c.p) :=
  fp2LtOKV c β

theorem fp2_codec_v_ok {c : FpCfg} (h : WFc c) (β : ℕ) :
    CodecOK (fp2CodecV c β) (fun x => x.c0.val < c.p ∧ x.c1.val < c.p) :=
  fp2CodecVOK h β

/-- **`SqrtOK` for `Fp2`**: from C11's `quadSqrt_spec` (soundness, completeness, totality of the complex
    method) transported along `ZMod p → Fp p` (`quadSqrt_map`) -/
theorem fp2_sqrt_ok {c : FpCfg} (h : WFc c) (hp : c.p.Prime) (β : ℕ)
    (hβ : ∀ x : ZMod c.p, x * x ≠ ((β : ℕ) : ZMod c.p)) :
    SqrtOK (fp2CodecV c β) (fun x => x.c0.val < c.p ∧ x.c1.val < c.p) :=
  fp2SqrtOKV hp h.p_lt β hβ

/-- the transport itself: the executable `QuadExtField::sqrt` over `Fp p` is the image of the one over
    `ZMod p` (to which the theorems of C11 apply) -/
theorem quad_sqrt_ofZ (p : ℕ) [Fact p.Prime] (β n : ℕ) (pre : Option (Sqrt.Precomp (ZMod p))) (dbg : Bool)
    (a : Ext.Quad (ZMod p)) :
    Sqrt.quadSqrt dbg (fp2QuadCfg p β) (Ext.fpD p)
        (Sqrt.fpSqrtD false p (pre.map (SqrtP.precompMap (SqrtP.ofZ p)))) (Sqrt.fpPrimeD p n)
        (mapQ (SqrtP.ofZ p) a) =
      SqrtP.Res.map (Option.map (mapQ (SqrtP.ofZ p)))
        (Sqrt.quadSqrt dbg (zCfg p β) (ExtB.primeD (ZMod p)) (SqrtP.zmodSqrtD false p pre)
          (SqrtP.zmodPrimeD p n) a) :=
  quadSqrt_map (ofZ_qhom p β pre) (SqrtP.zmodPrimeD p n) (Sqrt.fpPrimeD p n) (twoInv_ofZ p n) dbg a

/-- **`sw_round_trip_fp2`**: the round trip of short-Weierstrass points over `Fp2`, both compression modes
    and both validation modes, for every well-formed prime-field configuration and every non-residue `β` -/
theorem sw_round_trip_fp2 {c : FpCfg} (h : WFc c) (hp : c.p.Prime) (β : ℕ)
    (hβ : ∀ x : ZMod c.p, x * x ≠ ((β : ℕ) : ZMod c.p))
    (E : SWCfg (Fp2 c.p β)) (P : SWAff (Fp2 c.p β))
    (hc : P.infinity = false →
      (P.x.c0.val < c.p ∧ P.x.c1.val < c.p) ∧ (P.y.c0.val < c.p ∧ P.y.c1.val < c.p))
    (hon : swIsOnCurve E P = true) (cm : Compress) (vd : Validate)
    (bs : List Nat) (hs : swSerialize (fp2CodecV c β) P cm = .ok bs) (tl : List Nat) :
    runM (swDeserialize (fp2CodecV c β) E cm vd) (bs ++ tl) =
      if P.infinity = true then .ok ⟨0, 0, true⟩ ⟨tl, bs.length⟩
      else if vd = .yes ∧ swCheck E P = false then .err .invalid ⟨tl, bs.length⟩
      else .ok P ⟨tl, bs.length⟩ :=
  C09.sw_round_trip (fp2CodecVOK h β) ⟨h.p_pos, h.p_pos⟩ (fp2SignLaws hp β hβ)
    (fp2SqrtOKV hp h.p_lt β hβ) (fp2LtOKV c β) E P hc hon cm vd bs hs tl

theorem sw_proj_round_trip_fp2 {c : FpCfg} (h : WFc c) (hp : c.p.Prime) (β : ℕ)
    (hβ : ∀ x : ZMod c.p, x * x ≠ ((β : ℕ) : ZMod c.p))
    (E : SWCfg (Fp2 c.p β)) (P : SWProj (Fp2 c.p β)) (A : SWAff (Fp2 c.p β)) (hA : swToAffine P = .ok A)
    (hc : A.infinity = false →
      (A.x.c0.val < c.p ∧ A.x.c1.val < c.p) ∧ (A.y.c0.val < c.p ∧ A.y.c1.val < c.p))
    (hon : swIsOnCurve E A = true) (cm : Compress) (vd : Validate)
    (bs : List Nat) (hs : swProjSerialize (fp2CodecV c β) P cm = .ok bs) (tl : List Nat) :
    runM (swProjDeserialize (fp2CodecV c β) E cm vd) (bs ++ tl) =
      if A.infinity = true then .ok ⟨1, 1, 0⟩ ⟨tl, bs.length⟩
      else if vd = .yes ∧ swCheck E A = false then .err .invalid ⟨tl, bs.length⟩
      else .ok ⟨A.x, A.y, 1⟩ ⟨tl, bs.length⟩ :=
  C09.sw_proj_round_trip (fp2CodecVOK h β) ⟨h.p_pos, h.p_pos⟩ (fp2SignLaws hp β hβ)
    (fp2SqrtOKV hp h.p_lt β hβ) (fp2LtOKV c β) E P A hA hc hon cm vd bs hs tl

/-- the sign rule over `Fp2`, unconditionally -/
theorem sw_get_ys_fp2 {c : FpCfg} (h : WFc c) (hp : c.p.Prime) (β : ℕ)
    (hβ : ∀ x : ZMod c.p, x * x ≠ ((β : ℕ) : ZMod c.p)) (E : SWCfg (Fp2 c.p β)) (x y1 y2 : Fp2 c.p β)
    (hy : swGetYsFromX (fp2CodecV c β) E x = some (y1, y2)) :
    y2 = -y1 ∧ (fp2CodecV c β).lt (-y1) y1 = false ∧ y1 * y1 = swRhs E x ∧ y2 * y2 = swRhs E x :=
  C09.sw_get_ys_sign (fp2SignLaws hp β hβ) (fp2SqrtOKV hp h.p_lt β hβ) (fp2LtOKV c β) E x y1 y2 hy

/-- non-vacuity: `F_13[u]/(u² − 2)` (base field: Tonelli–Shanks) and `F_7[u]/(u² + 1)` (`p ≡ 3 mod 4`);
    the curve `y² = x³ + (1 + u)`, the points `(u, ±(5 + 12u))` resp. `(u, ±1)` -/
example : ∀ x : ZMod 13, x * x ≠ ((2 : ℕ) : ZMod 13) := by decide
example : ∀ x : ZMod 7, x * x ≠ ((6 : ℕ) : ZMod 7) := by decide
example : (fp2CodecV ⟨13, 1⟩ 2).sqrt ⟨⟨1⟩, ⟨1⟩⟩ = some ⟨⟨9⟩, ⟨8⟩⟩ ∧ (fp2CodecV ⟨13, 1⟩ 2).sqrt ⟨⟨2⟩, ⟨1⟩⟩ = none ∧
    (fp2CodecV ⟨13, 1⟩ 2).sqrt ⟨⟨2⟩, ⟨0⟩⟩ = some ⟨⟨0⟩, ⟨1⟩⟩ ∧ (fp2CodecV ⟨13, 1⟩ 2).sqrt 0 = some 0 := by
  decide +kernel
example :
    let E : SWCfg (Fp2 13 2) := ⟨0, ⟨⟨1⟩, ⟨1⟩⟩, fun _ => true⟩
    let P : SWAff (Fp2 13 2) := ⟨⟨⟨0⟩, ⟨1⟩⟩, ⟨⟨5⟩, ⟨12⟩⟩, false⟩
    swIsOnCurve E P = true ∧
    swSerialize (fp2CodecV ⟨13, 1⟩ 2) P .yes = .ok [0, 129] ∧
    runM (swDeserialize (fp2CodecV ⟨13, 1⟩ 2) E .yes .yes) ([0, 129] ++ [7]) = .ok P ⟨[7], 2⟩ ∧
    runM (swDeserialize (fp2CodecV ⟨13, 1⟩ 2) E .yes .yes) [0, 1] =
      .ok ⟨⟨⟨0⟩, ⟨1⟩⟩, ⟨⟨8⟩, ⟨1⟩⟩, false⟩ ⟨[], 2⟩ ∧
    runM (swDeserialize (fp2CodecV ⟨13, 1⟩ 2) E .no .yes) [0, 1, 5, 140] = .ok P ⟨[], 4⟩ := by
  decide +kernel
example :
    let E : SWCfg (Fp2 7 6) := ⟨0, ⟨⟨1⟩, ⟨1⟩⟩, fun _ => true⟩
    let P : SWAff (Fp2 7 6) := ⟨⟨⟨0⟩, ⟨1⟩⟩, ⟨⟨6⟩, ⟨0⟩⟩, false⟩
    swIsOnCurve E P = true ∧
    swSerialize (fp2CodecV ⟨7, 1⟩ 6) P .yes = .ok [0, 129] ∧
    runM (swDeserialize (fp2CodecV ⟨7, 1⟩ 6) E .yes .yes) [0, 129] = .ok P ⟨[], 2⟩ := by
  decide +kernel

end Ark.C09b
