import Ark.Proofs.SurfaceB
import Mathlib.Data.ZMod.Basic
import Mathlib.Algebra.Field.ZMod
import Mathlib.Tactic.NormNum.Prime
/-
  Property C08 (part c): the remaining API surface of `ark-poly`'s univariate polynomials —
  `TryInto<SparsePolynomial> for DenseOrSparsePolynomial` and
  `From<DenseOrSparsePolynomial> for DensePolynomial` (poly/src/polynomial/univariate/mod.rs),
  the receiver variants of the sparse operators and the table-based
  `SparsePolynomial::evaluate` / `Field::pow_with_table` (poly/src/polynomial/univariate/sparse.rs).
  The model is `Ark.Model.Poly`; everything is over an abstract `[Field F] [DecidableEq F]`.
  Only property theorems and non-vacuity examples (over `ZMod 5`); helpers are in
  `Ark/Proofs/SurfaceB.lean` (and `Ark/Proofs/PolyB.lean`).

  Vocabulary (`Ark.PolyB`): `coeffB p i = p.getD i 0`, `CanonB p : p.getLast? ≠ some 0`,
  `scoeff s i` = sum of the stored terms of degree `i`, `SCanon s` : degrees strictly increasing
  and every stored coefficient non-zero, `DCanon`, `dcoeff` select the representation.
-/
namespace Ark.C08
open Ark Ark.Poly Ark.PolyB Ark.SurfaceB

set_option linter.unusedSectionVars false

instance factPrime5C : Fact (Nat.Prime 5) := ⟨by norm_num⟩

variable {F : Type} [Field F] [DecidableEq F]

/-! ## 11. `TryInto<SparsePolynomial>` / `From<DenseOrSparsePolynomial>` -/

/-- `try_into()` is `Ok(t)` exactly on the sparse variant holding `t`, `Err(())` exactly on the
    dense variant -/
theorem tryIntoSparse_spec (x : DoS F) :
    (∀ t, x.tryIntoSparse = some t ↔ x = .s t) ∧ (x.tryIntoSparse = none ↔ ∃ p, x = .d p) :=
  ⟨fun t => tryIntoSparse_iff x t, tryIntoSparse_none_iff x⟩

example : (DoS.s [(1, (2 : ZMod 5)), (4, 3)]).tryIntoSparse = some [(1, 2), (4, 3)] ∧
    (DoS.d [(0 : ZMod 5), 2]).tryIntoSparse = none := ⟨rfl, rfl⟩

/-- `DensePolynomial::from(DenseOrSparse)`: the dense variant as stored -/
theorem toDense_dense (p : List F) : (DoS.d p).toDense = .ok p := rfl

/-- … and the sparse variant through `From<SparsePolynomial>`: on a canonical operand no panic, a
    canonical dense vector with the same coefficient function and the same value at every point
    (both as the sum `Σ c·x^d` and as computed by the sparse `evaluate`) -/
theorem toDense_sparse (s : Terms F) (hs : SCanon s) :
    ∃ r, (DoS.s s).toDense = .ok r ∧ CanonB r ∧ (∀ i, coeffB r i = scoeff s i) ∧
      (∀ x, evaluate r x = (s.map (fun t => t.2 * x ^ t.1)).sum) ∧
      ∀ x, sEvaluate s x = .ok (evaluate r x) := toDense_s_spec s hs

/-- both variants at once: the conversion preserves the denoted polynomial -/
theorem toDense_any (x : DoS F) (hx : DCanon x) :
    ∃ r, x.toDense = .ok r ∧ CanonB r ∧ ∀ i, coeffB r i = dcoeff x i := by
  obtain ⟨r, h1, h2, h3, -⟩ := dos_toDense x hx
  exact ⟨r, h1, h2, h3⟩

example : SCanon [(1, (2 : ZMod 5)), (4, 3)] ∧
    (DoS.s [(1, (2 : ZMod 5)), (4, 3)]).toDense = .ok [0, 2, 0, 0, 3] ∧
    evaluate ([0, 2, 0, 0, 3] : List (ZMod 5)) 2 = 2 ∧
    sEvaluate [(1, (2 : ZMod 5)), (4, 3)] 2 = .ok 2 := by decide +kernel
-- a stored trailing zero (non-canonical) hits the `degree()` assertion
example : (DoS.s [(1, (2 : ZMod 5)), (4, 0)]).toDense = .panic := by decide +kernel

/-! ## 12. receiver variants of the sparse operators -/

/-- `Sparse += &Sparse`, `Sparse -= &Sparse`, `Sparse += (f, &Sparse)` are — as coded:
    `self.coeffs = (self.clone() ⊕ …).coeffs` — the by-reference operators of part b -/
theorem sparse_receiver_variants (s t : Terms F) (f : F) :
    sAddAssign s t = sAdd s t ∧ sSubAssign s t = sAdd s (sNeg t) ∧
    sAddAssignScaled s f t = sAdd s (sScale t f) := ⟨rfl, rfl, rfl⟩

example : sAddAssign [(1, (1 : ZMod 5))] [(1, 4), (2, 2)] = sAdd [(1, (1 : ZMod 5))] [(1, 4), (2, 2)] ∧
    sAdd [(1, (1 : ZMod 5))] [(1, 4), (2, 2)] = .ok [(2, 2)] := by decide +kernel

/-! ## 13. `SparsePolynomial::evaluate` and `pow_with_table` -/

/-- the table `[x, x², x⁴, …]` built for a polynomial of degree `d` has one entry per bit of `d`
    (one entry for `d = 0`), entry `i` being `x^(2^i)`; for a `usize` degree at most 64 entries -/
theorem evaluate_table (x : F) (d : Nat) :
    (squarings x (Poly.bitLen d - 1)).length = max 1 (Poly.bitLen d) ∧
    (∀ i, i ≤ Poly.bitLen d - 1 → (squarings x (Poly.bitLen d - 1))[i]? = some (x ^ 2 ^ i)) ∧
    (∀ k, Poly.bitLen d ≤ k ↔ d < 2 ^ k) ∧
    (d < 2 ^ 64 → (squarings x (Poly.bitLen d - 1)).length ≤ 64) :=
  ⟨table_length x d, fun i hi => squarings_getElem? x _ i hi, SurfaceB.bitLen_le_iff d,
    table_length_le_64 x d⟩

/-- `pow_with_table(table, e)` is `Some` exactly when the table has an entry for every bit of `e` -/
theorem powWithTable_some_iff (e : Nat) (tbl : List F) (res : F) :
    (powWithTable (e + 1) tbl e res).isSome ↔ Poly.bitLen e ≤ tbl.length :=
  powWithTable_isSome_iff (e + 1) e tbl res (Nat.lt_succ_self e)

/-- on the table of repeated squarings with `k + 1` entries: `res·x^e` for `e < 2^(k+1)`, `None`
    beyond -/
theorem powWithTable_squarings_spec (e k : Nat) (x res : F) :
    (e < 2 ^ (k + 1) → powWithTable (e + 1) (squarings x k) e res = some (res * x ^ e)) ∧
    (2 ^ (k + 1) ≤ e → powWithTable (e + 1) (squarings x k) e res = none) :=
  powWithTable_squarings_iff e k x res

example : powWithTable 8 (squarings (3 : ZMod 5) 2) 7 1 = some (3 ^ 7) ∧
    powWithTable 9 (squarings (3 : ZMod 5) 2) 8 1 = none ∧
    (squarings (3 : ZMod 5) 2).length = 3 ∧ Poly.bitLen 7 = 3 ∧ Poly.bitLen 8 = 4 := by decide +kernel

/-- `evaluate` (sparse) on a canonical operand: `Σ c·x^d`, never the `pow_with_table` `unwrap`
    panic — the table built from the degree covers every stored exponent.  No bound on the
    exponents is needed; with `usize` exponents (`< 2^64`) the table has at most 64 entries. -/
theorem sEvaluate_table_correct (s : Terms F) (x : F) (hs : SCanon s) :
    sEvaluate s x = .ok ((s.map (fun t => t.2 * x ^ t.1)).sum) ∧
    (∀ t ∈ s, Poly.bitLen t.1 ≤ (squarings x (Poly.bitLen (sdeg s) - 1)).length) ∧
    ((∀ t ∈ s, t.1 < 2 ^ 64) → (squarings x (Poly.bitLen (sdeg s) - 1)).length ≤ 64) :=
  ⟨sEvaluate_spec s x hs, table_covers s x hs, table_length_le_64_of s x⟩

/-- the largest `usize` exponent `2^64 − 1`: all 64 table entries are used -/
theorem sEvaluate_max_exponent (c x : F) (hc : c ≠ 0) :
    sEvaluate [(2 ^ 64 - 1, c)] x = .ok (c * x ^ (2 ^ 64 - 1)) ∧ Poly.bitLen (2 ^ 64 - 1) = 64 ∧
    (squarings x (Poly.bitLen (2 ^ 64 - 1) - 1)).length = 64 :=
  ⟨(sEvaluate_max c x hc).1, bitLen_u64_max, (sEvaluate_max c x hc).2⟩

example : SCanon [(2, (1 : ZMod 5)), (6, 3), (13, 2)] ∧
    sEvaluate [(2, (1 : ZMod 5)), (6, 3), (13, 2)] 2 = .ok 0 ∧
    (squarings (2 : ZMod 5) (Poly.bitLen 13 - 1)).length = 4 := by decide +kernel
example : sEvaluate [(2 ^ 64 - 1, (3 : ZMod 5))] 2 = .ok 4 ∧
    (3 : ZMod 5) * 2 ^ (2 ^ 64 - 1) = 4 := by
  refine ⟨by decide +kernel, ?_⟩
  have h4 : (2 : ZMod 5) ^ 4 = 1 := by decide
  have : 2 ^ 64 - 1 = 4 * ((2 ^ 64 - 4) / 4) + 3 := by norm_num
  rw [this, pow_add, pow_mul, h4, one_pow]
  decide

end Ark.C08
