import Ark.Proofs.MsmB
import Mathlib.Data.ZMod.Defs
/-
  Property C05, part B: `msm_chunks`, `ChunkedPippenger`, `HashMapPippenger`
  (ec/src/scalar_mul/variable_base/{mod.rs, stream_pippenger.rs}).

  The correctness of the inner `msm_bigint` is the hypothesis `MsmOK G cfg P` ("on scalars in the domain `P`
  and for `min |bases| |ks| < 2^64`, `msmBigint cfg bases ks = .ok (Σ_{i<min} value ksᵢ • basesᵢ)`"); part A
  provides it for `P = InRange cfg` (`N` limbs, `u64` limbs, value `< 2^MODULUS_BIT_SIZE`).  The length premise
  (every Rust slice has a `usize` length; the window-size rule is only modelled there) is the only reason for
  the `2^64` side conditions below: everything holds for every history of `add` calls and every buffer size
  (including `0`: never flush, and `1`: always flush) such that the buffer stays a `usize`, i.e.
  the history is shorter than `2^64` **or** `bufSize` is a non-zero `usize`.

  Sums:  `pairSum l = Σ_{(b,k) ∈ l} value k • b`,  `natPairSum l = Σ_{(b,k) ∈ l} k • b`,
         `msmSum bases ks = pairSum (bases.zip ks)`,  `msmSumNat bases ks = natPairSum (bases.zip ks)`.
-/
namespace Ark.C05
open Ark Ark.Msm

section
variable {G : Type} [AddCommGroup G] {cfg : Cfg} {P : List Nat → Prop}

/-! ## 12. `msm_chunks` -/

/-- `msm_chunks` with any chunk size `step > 0`: the `assert!` fires iff there are more scalars than bases;
    otherwise the leading surplus bases are skipped and the result is `Σᵢ ksᵢ • (bases.drop (|bases|-|ks|))ᵢ`,
    whatever the chunking. -/
theorem msmChunksWith_spec (ok : MsmOK G cfg P) (hrB : cfg.r ≤ B ^ cfg.limbs)
    (hP : ∀ v < cfg.r, P (cfg.intoBigint v)) (step : Nat) (hstep : 0 < step)
    (bases : List G) (ks : List Nat) (hk : ∀ k ∈ ks, k < cfg.r)
    (hb : step < 2 ^ 64 ∨ ks.length < 2 ^ 64) :
    msmChunksWith step cfg bases ks =
      if ks.length ≤ bases.length then .ok (msmSumNat (bases.drop (bases.length - ks.length)) ks)
      else .panic := by
  split
  · rename_i hlen
    rw [msmChunksWith_ok ok step hstep bases ks (fun k h => hP k (hk k h)) hlen hb,
      msmSum_map_intoBigint cfg _ ks (fun k h => lt_of_lt_of_le (hk k h) hrB)]
  · exact msmChunksWith_panic step bases ks (by omega)

/-- the `assert!(scalars_stream.len() <= bases_stream.len())` (no hypothesis on the inner MSM) -/
theorem msmChunksWith_assert (step : Nat) (bases : List G) (ks : List Nat)
    (hlen : bases.length < ks.length) : msmChunksWith step cfg bases ks = .panic :=
  msmChunksWith_panic step bases ks hlen

/-- `VariableBaseMSM::msm_chunks` itself (`step = 1 << 20`) -/
theorem msmChunks_spec (ok : MsmOK G cfg P) (hrB : cfg.r ≤ B ^ cfg.limbs)
    (hP : ∀ v < cfg.r, P (cfg.intoBigint v)) (bases : List G) (ks : List Nat)
    (hk : ∀ k ∈ ks, k < cfg.r) :
    msmChunks cfg bases ks =
      if ks.length ≤ bases.length then .ok (msmSumNat (bases.drop (bases.length - ks.length)) ks)
      else .panic :=
  msmChunksWith_spec ok hrB hP _ (by decide) bases ks hk (Or.inl (by decide))

/-- equal lengths: `msm_chunks` is the plain MSM -/
theorem msmChunks_eq_len (ok : MsmOK G cfg P) (hrB : cfg.r ≤ B ^ cfg.limbs)
    (hP : ∀ v < cfg.r, P (cfg.intoBigint v)) (bases : List G) (ks : List Nat)
    (hk : ∀ k ∈ ks, k < cfg.r) (hlen : ks.length = bases.length) :
    msmChunks cfg bases ks = .ok (msmSumNat bases ks) := by
  rw [msmChunks_spec ok hrB hP bases ks hk, if_pos (by omega), hlen, Nat.sub_self, List.drop_zero]

/-! ## 13. `ChunkedPippenger` -/

/-- `add` preserves the invariant "`result + msm(buffer)` = sum of all pairs added so far" (flushing when the
    buffer reaches `bufSize`), for every `bufSize`, and never panics -/
theorem Chunked.add_inv (ok : MsmOK G cfg P) {s : Chunked G} {total : G}
    (h : Chunked.Inv P s total) (b : G) (k : List Nat) (hk : P k)
    (hlen : s.scalarsBuffer.length + 1 < 2 ^ 64) :
    ∃ s', s.add cfg b k = .ok s' ∧ s'.bufSize = s.bufSize ∧
      s'.scalarsBuffer.length ≤ s.scalarsBuffer.length + 1 ∧
      Chunked.Inv P s' (total + value k • b) :=
  Ark.Msm.Chunked.add_inv ok h b k hk hlen

/-- the invariant holds initially with total `0` -/
theorem Chunked.new_inv (bufSize : Nat) : Chunked.Inv P (Chunked.new bufSize : Chunked G) 0 :=
  Ark.Msm.Chunked.new_inv bufSize

/-- the buffer stays strictly below `bufSize` (when `bufSize ≠ 0`) -/
theorem Chunked.add_buffer_lt {s s' : Chunked G} (b : G) (k : List Nat)
    (h : s.bufSize ≠ 0 → s.scalarsBuffer.length < s.bufSize) (hs : s.add cfg b k = .ok s') :
    s'.bufSize ≠ 0 → s'.scalarsBuffer.length < s'.bufSize :=
  Ark.Msm.Chunked.add_buffer_lt b k h hs

/-- `finalize` returns the invariant's total -/
theorem Chunked.finalize_spec (ok : MsmOK G cfg P) {s : Chunked G} {total : G}
    (h : Chunked.Inv P s total) (hlen : s.scalarsBuffer.length < 2 ^ 64) :
    s.finalize cfg = .ok total :=
  Ark.Msm.Chunked.finalize_inv ok h hlen

/-- monotone history: from any state satisfying the invariant, any further sequence of `add`s succeeds,
    keeps `bufSize`, and re-establishes the invariant with the total increased by the sum of the new pairs -/
theorem Chunked.history_spec (ok : MsmOK G cfg P) (adds : List (G × List Nat)) (s : Chunked G)
    (total : G) (h : Chunked.Inv P s total) (hP : ∀ a ∈ adds, P a.2)
    (hB : s.scalarsBuffer.length + adds.length < 2 ^ 64 ∨
          (s.bufSize < 2 ^ 64 ∧ s.scalarsBuffer.length < s.bufSize)) :
    ∃ s', Chunked.addAll cfg s adds = .ok s' ∧ s'.bufSize = s.bufSize ∧
      s'.scalarsBuffer.length < 2 ^ 64 ∧ Chunked.Inv P s' (total + pairSum adds) :=
  Chunked.addAll_inv ok adds s total h hP hB

/-- histories compose (`addAll` is the fold of `add` that `run` performs before `finalize`) -/
theorem Chunked.run_eq_addAll (bufSize : Nat) (adds : List (G × List Nat)) :
    Chunked.run cfg bufSize adds
      = obind (Chunked.addAll cfg (Chunked.new bufSize) adds) fun s => s.finalize cfg :=
  Chunked.run_go_eq cfg _ adds

/-- `new(bufSize)`, any sequence of `add`s with scalars in the domain, `finalize`: the result is `Σ value k • b` -/
theorem Chunked.run_spec (ok : MsmOK G cfg P) (bufSize : Nat) (adds : List (G × List Nat))
    (hP : ∀ a ∈ adds, P a.2) (hB : adds.length < 2 ^ 64 ∨ (0 < bufSize ∧ bufSize < 2 ^ 64)) :
    Chunked.run cfg bufSize adds = .ok (pairSum adds) :=
  Chunked.run_ok ok bufSize adds hP hB

/-! ## 14. `HashMapPippenger` -/

/-- under `MsmOK` the inner MSM does not depend on the order of the `(base, scalar)` pairs -/
theorem msmBigint_perm (ok : MsmOK G cfg P) {l l' : List (G × List Nat)} (h : l.Perm l')
    (hP : ∀ a ∈ l, P a.2) (hlen : l.length < 2 ^ 64) :
    msmBigint cfg (l.map (·.1)) (l.map (·.2)) = msmBigint cfg (l'.map (·.1)) (l'.map (·.2)) :=
  Ark.Msm.msmBigint_perm ok h hP hlen

variable [DecidableEq G]

/-- `*buffer.entry(base).or_insert(0) += scalar`: the weighted sum over the map grows by `k • base`
    (the stored scalar is reduced modulo `r`, invisible on a base with `r • base = 0`) -/
theorem upsert_spec (r : Nat) (base : G) (k : Nat) (h : r • base = 0) (buf : List (G × Nat)) :
    natPairSum (upsert r base k buf) = natPairSum buf + k • base :=
  upsert_sum r base k h buf

omit [AddCommGroup G] in
/-- … as a map: the entry of `base` becomes `(old + k) mod r` (`old = 0` if absent), the other entries are
    untouched, keys stay distinct (equal bases are merged), and the size grows by one exactly for a fresh key -/
theorem upsert_map_spec (r : Nat) (base : G) (k : Nat) (buf : List (G × Nat)) :
    (upsert r base k buf).lookup base = some (((buf.lookup base).getD 0 + k) % r) ∧
    (∀ b', b' ≠ base → (upsert r base k buf).lookup b' = buf.lookup b') ∧
    ((buf.map (·.1)).Nodup → ((upsert r base k buf).map (·.1)).Nodup) ∧
    (upsert r base k buf).length = if base ∈ buf.map (·.1) then buf.length else buf.length + 1 :=
  ⟨upsert_lookup_self r base k buf, fun b' h => upsert_lookup_ne r base k buf b' h,
   upsert_nodup r base k buf, upsert_length r base k buf⟩

/-- `add` preserves the invariant "distinct keys, reduced scalars, `result + Σ v • b` over the map = sum of all
    pairs added so far", for every `bufSize`, and never panics -/
theorem HashMapAcc.add_inv (ok : MsmOK G cfg P) (hr0 : 0 < cfg.r) (hrB : cfg.r ≤ B ^ cfg.limbs)
    (hP : ∀ v < cfg.r, P (cfg.intoBigint v)) {s : HashMapAcc G} {total : G}
    (h : HashMapAcc.Inv cfg s total) (b : G) (k : Nat) (hb : cfg.r • b = 0)
    (hlen : s.buffer.length + 1 < 2 ^ 64) :
    ∃ s', s.add cfg b k = .ok s' ∧ s'.bufSize = s.bufSize ∧ s'.buffer.length ≤ s.buffer.length + 1 ∧
      HashMapAcc.Inv cfg s' (total + k • b) :=
  Ark.Msm.HashMapAcc.add_inv ok hr0 hrB hP h b k hb hlen

omit [DecidableEq G] in
theorem HashMapAcc.finalize_spec (ok : MsmOK G cfg P) (hrB : cfg.r ≤ B ^ cfg.limbs)
    (hP : ∀ v < cfg.r, P (cfg.intoBigint v)) {s : HashMapAcc G} {total : G}
    (h : HashMapAcc.Inv cfg s total) (hlen : s.buffer.length < 2 ^ 64) : s.finalize cfg = .ok total :=
  Ark.Msm.HashMapAcc.finalize_inv ok hrB hP h hlen

/-- monotone history for the hash-map accumulator -/
theorem HashMapAcc.history_spec (ok : MsmOK G cfg P) (hr0 : 0 < cfg.r) (hrB : cfg.r ≤ B ^ cfg.limbs)
    (hP : ∀ v < cfg.r, P (cfg.intoBigint v)) (adds : List (G × Nat)) (s : HashMapAcc G) (total : G)
    (h : HashMapAcc.Inv cfg s total) (hord : ∀ a ∈ adds, cfg.r • a.1 = 0)
    (hB : s.buffer.length + adds.length < 2 ^ 64 ∨ (s.bufSize < 2 ^ 64 ∧ s.buffer.length < s.bufSize)) :
    ∃ s', HashMapAcc.addAll cfg s adds = .ok s' ∧ s'.bufSize = s.bufSize ∧
      s'.buffer.length < 2 ^ 64 ∧ HashMapAcc.Inv cfg s' (total + natPairSum adds) :=
  HashMapAcc.addAll_inv ok hr0 hrB hP adds s total h hord hB

/-- `new(bufSize)`, any sequence of `add`s whose bases are killed by `r`, `finalize`: the result is `Σ k • b`
    (no condition on the scalars `k`: they are reduced modulo `r` on entry) -/
theorem HashMapAcc.run_spec (ok : MsmOK G cfg P) (hr0 : 0 < cfg.r) (hrB : cfg.r ≤ B ^ cfg.limbs)
    (hP : ∀ v < cfg.r, P (cfg.intoBigint v)) (bufSize : Nat) (adds : List (G × Nat))
    (hord : ∀ a ∈ adds, cfg.r • a.1 = 0)
    (hB : adds.length < 2 ^ 64 ∨ (0 < bufSize ∧ bufSize < 2 ^ 64)) :
    HashMapAcc.run cfg bufSize adds = .ok (natPairSum adds) :=
  HashMapAcc.run_ok ok hr0 hrB hP bufSize adds hord hB

omit [DecidableEq G] in
/-- the flush does not depend on the iteration order of the map -/
theorem HashMapAcc.flush_perm (ok : MsmOK G cfg P) (hrB : cfg.r ≤ B ^ cfg.limbs)
    (hP : ∀ v < cfg.r, P (cfg.intoBigint v)) {buf buf' : List (G × Nat)} (hp : buf.Perm buf')
    (h : ∀ e ∈ buf, e.2 < cfg.r) (hlen : buf.length < 2 ^ 64) :
    msmBigint cfg (buf'.map (·.1)) (buf'.map (fun e => cfg.intoBigint e.2))
      = msmBigint cfg (buf.map (·.1)) (buf.map (fun e => cfg.intoBigint e.2)) :=
  Ark.Msm.HashMapAcc.flush_perm ok hrB hP hp h hlen

/-- the association list stands for a hash map: reordering it (at any point of the history, to any
    permutation) changes neither `add`'s behaviour nor the final outcome.  No torsion hypothesis here. -/
theorem HashMapAcc.order_irrelevant (ok : MsmOK G cfg P) (hr0 : 0 < cfg.r) (hrB : cfg.r ≤ B ^ cfg.limbs)
    (hP : ∀ v < cfg.r, P (cfg.intoBigint v)) (adds : List (G × Nat)) (s s' : HashMapAcc G)
    (he : s.buffer.Perm s'.buffer ∧ s.result = s'.result ∧ s.bufSize = s'.bufSize)
    (hn : (s.buffer.map (·.1)).Nodup) (hlt : ∀ e ∈ s.buffer, e.2 < cfg.r)
    (hB : s.buffer.length + adds.length < 2 ^ 64 ∨ (s.bufSize < 2 ^ 64 ∧ s.buffer.length < s.bufSize)) :
    HashMapAcc.run.go cfg s adds = HashMapAcc.run.go cfg s' adds :=
  HashMapAcc.run_go_equiv ok hr0 hrB hP adds s s' he hn hlt hB

/-! ## 15. no panics -/

omit [DecidableEq G] in
theorem msmChunksWith_no_panic (ok : MsmOK G cfg P) (hrB : cfg.r ≤ B ^ cfg.limbs)
    (hP : ∀ v < cfg.r, P (cfg.intoBigint v)) (step : Nat) (hstep : 0 < step)
    (bases : List G) (ks : List Nat) (hk : ∀ k ∈ ks, k < cfg.r)
    (hb : step < 2 ^ 64 ∨ ks.length < 2 ^ 64) :
    msmChunksWith step cfg bases ks = .panic ↔ bases.length < ks.length := by
  rw [msmChunksWith_spec ok hrB hP step hstep bases ks hk hb]
  split
  · constructor
    · intro h; cases h
    · intro h; omega
  · constructor
    · intro _; omega
    · intro _; rfl

omit [DecidableEq G] in
theorem Chunked.run_no_panic (ok : MsmOK G cfg P) (bufSize : Nat) (adds : List (G × List Nat))
    (hP : ∀ a ∈ adds, P a.2) (hB : adds.length < 2 ^ 64 ∨ (0 < bufSize ∧ bufSize < 2 ^ 64)) :
    Chunked.run cfg bufSize adds ≠ .panic := by
  rw [Chunked.run_spec ok bufSize adds hP hB]; intro h; cases h

theorem HashMapAcc.run_no_panic (ok : MsmOK G cfg P) (hr0 : 0 < cfg.r) (hrB : cfg.r ≤ B ^ cfg.limbs)
    (hP : ∀ v < cfg.r, P (cfg.intoBigint v)) (bufSize : Nat) (adds : List (G × Nat))
    (hord : ∀ a ∈ adds, cfg.r • a.1 = 0)
    (hB : adds.length < 2 ^ 64 ∨ (0 < bufSize ∧ bufSize < 2 ^ 64)) :
    HashMapAcc.run cfg bufSize adds ≠ .panic := by
  rw [HashMapAcc.run_spec ok hr0 hrB hP bufSize adds hord hB]; intro h; cases h

/-! ## the instance `P = InRange cfg` (what part A proves about `msm_bigint`) -/

omit [DecidableEq G] in
/-- field elements `k < r` are in the scalar domain of `msm_bigint` -/
theorem inRange_of_lt (hN : 0 < cfg.limbs) (hr : cfg.r < B ^ cfg.limbs) :
    ∀ v < cfg.r, InRange cfg (cfg.intoBigint v) :=
  fun v hv => inRange_intoBigint cfg hN hr v hv

omit [DecidableEq G] in
theorem msmChunks_spec_inRange (ok : MsmOK G cfg (InRange cfg)) (hN : 0 < cfg.limbs)
    (hr : cfg.r < B ^ cfg.limbs) (bases : List G) (ks : List Nat) (hk : ∀ k ∈ ks, k < cfg.r) :
    msmChunks cfg bases ks =
      if ks.length ≤ bases.length then .ok (msmSumNat (bases.drop (bases.length - ks.length)) ks)
      else .panic :=
  msmChunks_spec ok (Nat.le_of_lt hr) (inRange_of_lt hN hr) bases ks hk

omit [DecidableEq G] in
theorem Chunked.run_spec_inRange (ok : MsmOK G cfg (InRange cfg)) (bufSize : Nat)
    (adds : List (G × List Nat))
    (hP : ∀ a ∈ adds, a.2.length = cfg.limbs ∧ WF a.2 ∧ value a.2 < 2 ^ cfg.numBits)
    (hB : adds.length < 2 ^ 64 ∨ (0 < bufSize ∧ bufSize < 2 ^ 64)) :
    Chunked.run cfg bufSize adds = .ok (pairSum adds) :=
  Chunked.run_spec ok bufSize adds hP hB

theorem HashMapAcc.run_spec_inRange (ok : MsmOK G cfg (InRange cfg)) (hN : 0 < cfg.limbs)
    (hr0 : 0 < cfg.r) (hr : cfg.r < B ^ cfg.limbs) (bufSize : Nat) (adds : List (G × Nat))
    (hord : ∀ a ∈ adds, cfg.r • a.1 = 0)
    (hB : adds.length < 2 ^ 64 ∨ (0 < bufSize ∧ bufSize < 2 ^ 64)) :
    HashMapAcc.run cfg bufSize adds = .ok (natPairSum adds) :=
  HashMapAcc.run_spec ok hr0 (Nat.le_of_lt hr) (inRange_of_lt hN hr) bufSize adds hord hB

end

/-! ## non-vacuity: concrete runs of the model on a toy configuration

  `r = 7`, one limb, both MSM back ends; groups `ℤ` and `ZMod 7` (where `7 • b = 0`).  The model values agree
  with the sums the theorems predict, and the side conditions of the theorems hold on these inputs. -/

/-- toy configuration: `r = 7`, `N = 1`, plain bucket method -/
def toyB : Cfg := ⟨7, 1, false⟩
/-- the same with `NEGATION_IS_CHEAP` (signed-digit method) -/
def toyBN : Cfg := ⟨7, 1, true⟩

-- side conditions on the configuration
example : 0 < toyB.limbs ∧ 0 < toyB.r ∧ toyB.r < B ^ toyB.limbs ∧ toyB.numBits = 3 := by decide +kernel
-- scalar-domain hypotheses
example : ∀ a ∈ [((1 : ZMod 7), 3), (5, 2), (1, 6)], toyB.r • a.1 = 0 := by decide

-- the theorems apply to these inputs: every hypothesis except `MsmOK` (part A) is discharged here
theorem toyB_inRange : ∀ a ∈ [((1 : ℤ), [3]), (5, [2]), (-2, [6])], InRange toyB a.2 := by
  intro a ha; simp only [List.mem_cons, List.not_mem_nil, or_false] at ha
  rcases ha with rfl | rfl | rfl <;> exact ⟨rfl, by simp [WF, B], by decide +kernel⟩

example (ok : MsmOK ℤ toyB (InRange toyB)) (bufSize : Nat) :
    Chunked.run toyB bufSize [((1 : ℤ), [3]), (5, [2]), (-2, [6])] = .ok 1 := by
  rw [Chunked.run_spec_inRange ok bufSize _ toyB_inRange (Or.inl (by decide))]; decide +kernel

example (ok : MsmOK (ZMod 7) toyB (InRange toyB)) (bufSize : Nat) :
    HashMapAcc.run toyB bufSize [((1 : ZMod 7), 3), (5, 2), (1, 6)] = .ok 5 := by
  rw [HashMapAcc.run_spec_inRange ok (by decide) (by decide) (by decide +kernel) bufSize _ (by decide)
    (Or.inl (by decide))]
  decide +kernel

example (ok : MsmOK ℤ toyB (InRange toyB)) :
    msmChunks toyB [(100 : ℤ), 1, 5, -2] [3, 2, 6] = .ok 1 := by
  rw [msmChunks_spec_inRange ok (by decide) (by decide +kernel) _ _ (by decide)]; decide +kernel

-- 12. msm_chunks: several chunks, skipped leading base, and the assert
example : msmChunksWith 2 toyB [(100 : ℤ), 1, 5, -2] [3, 2, 6] = .ok 1 := by decide +kernel
example : msmSumNat ([(100 : ℤ), 1, 5, -2].drop 1) [3, 2, 6] = 1 := by decide
example : msmChunksWith 1 toyBN [(1 : ℤ), 5, -2] [3, 2, 6] = .ok 1 := by decide +kernel
example : msmChunksWith 2 toyB [(100 : ℤ), 1] [3, 2, 6] = .panic := by decide +kernel

-- 13. ChunkedPippenger: bufSize 0 (never flushes), 1 (always), 2 (flush + tail), 3 (exact), 5 (no flush)
example : pairSum [((1 : ℤ), [3]), (5, [2]), (-2, [6])] = 1 := by decide +kernel
example : Chunked.run toyB 0 [((1 : ℤ), [3]), (5, [2]), (-2, [6])] = .ok 1 := by decide +kernel
example : Chunked.run toyB 1 [((1 : ℤ), [3]), (5, [2]), (-2, [6])] = .ok 1 := by decide +kernel
example : Chunked.run toyB 2 [((1 : ℤ), [3]), (5, [2]), (-2, [6])] = .ok 1 := by decide +kernel
example : Chunked.run toyBN 2 [((1 : ℤ), [3]), (5, [2]), (-2, [6])] = .ok 1 := by decide +kernel
example : Chunked.run toyB 3 [((1 : ℤ), [3]), (5, [2]), (-2, [6])] = .ok 1 := by decide +kernel
example : Chunked.run toyBN 5 [((1 : ℤ), [3]), (5, [2]), (-2, [6])] = .ok 1 := by decide +kernel
-- the invariant after a two-step history with bufSize 2 (one flush): total = 3•1 + 2•5
example : Chunked.addAll toyB (Chunked.new 2) [((1 : ℤ), [3]), (5, [2])] = .ok ⟨[], [], 13, 2⟩ := rfl

-- 14. HashMapPippenger over ZMod 7: a merge (base 1 twice: 3 + 6 ≡ 2 mod 7), with and without flushes
example : natPairSum [((1 : ZMod 7), 3), (5, 2), (1, 6)] = 5 := by decide +kernel
example : upsert 7 (1 : ZMod 7) 6 [(1, 3), (5, 2)] = [(1, 2), (5, 2)] := by decide +kernel
example : HashMapAcc.run toyB 0 [((1 : ZMod 7), 3), (5, 2), (1, 6)] = .ok 5 := by decide +kernel
example : HashMapAcc.run toyB 1 [((1 : ZMod 7), 3), (5, 2), (1, 6)] = .ok 5 := by decide +kernel
example : HashMapAcc.run toyB 2 [((1 : ZMod 7), 3), (5, 2), (1, 6)] = .ok 5 := by decide +kernel
example : HashMapAcc.run toyBN 3 [((1 : ZMod 7), 3), (5, 2), (1, 6)] = .ok 5 := by decide +kernel
-- over ℤ the torsion hypothesis fails and so does the conclusion (merging reduces 3 + 6 to 2):
-- the hypothesis `r • b = 0` of `HashMapAcc.run_spec` is needed
example : HashMapAcc.run toyB 3 [((1 : ℤ), 3), (5, 2), (1, 6)] = .ok 12 ∧
    natPairSum [((1 : ℤ), 3), (5, 2), (1, 6)] = 19 := by decide +kernel

end Ark.C05
