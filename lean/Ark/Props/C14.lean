import Ark.Proofs.Par
import Mathlib.Data.ZMod.Basic
import Mathlib.Algebra.Field.ZMod
import Mathlib.Algebra.Field.Rat
import Mathlib.Tactic.NormNum
/-
  C14 — independence of the `parallel` feature and of the thread count.

  `Ark.Model.Par` models every `#[cfg(feature = "parallel")]` branch whose result is computed
  differently from the serial branch as a pure function of the thread count
  `T = rayon::current_num_threads()`.  Every theorem below holds for *every* `T` (in particular
  every `T ≥ 1`, whether or not a power of two, whether or not larger than the input; `T = 0`
  cannot occur in Rust and the Lean `n / 0 = 0` happens to be harmless).  Theorems are over an
  arbitrary field `F` (Mathlib `Field`) with decidable equality.
  Only property theorems live here; helper lemmas are in `Ark/Proofs/Par.lean`.
-/
namespace Ark.C14
open Ark Ark.Par

set_option linter.unusedSectionVars false

variable {F : Type} [Field F] [DecidableEq F]

/-- for the non-vacuity examples over `ZMod 17` / `ZMod 13` -/
instance : Fact (Nat.Prime 17) := ⟨by decide⟩
instance : Fact (Nat.Prime 13) := ⟨by decide⟩

/-! ## 0. `Field::pow([e])` -/

/-- the square-and-multiply loop over `BitIteratorBE::without_leading_zeros` is exponentiation -/
theorem pow_eq (a : F) (e : Nat) : pow a e = a ^ e := Par.pow_eq a e

example : pow (3 : ZMod 17) 5 = 5 := by decide

/-! ## 1. `batch_inversion_and_mul` -/

/-- the serial reference maps `x ↦ coeff / x` on the non-zero entries, keeps the zeros, and never
    hits its `unwrap` -/
theorem serialBatchInv_spec (v : List F) (coeff : F) :
    serialBatchInv v coeff = some (v.map fun x => if x = 0 then 0 else coeff * x⁻¹) :=
  serialBatchInv_eq v coeff

/-- the chunked (`par_chunks_mut(max(len / T, 1))`) version agrees with the serial one -/
theorem chunkedBatchInv_eq_serial (T : Nat) (v : List F) (coeff : F) :
    chunkedBatchInv T v coeff = serialBatchInv v coeff := by
  rw [chunkedBatchInv_eq, serialBatchInv_eq]

theorem chunkedBatchInv_spec (T : Nat) (v : List F) (coeff : F) :
    chunkedBatchInv T v coeff = some (v.map fun x => if x = 0 then 0 else coeff * x⁻¹) :=
  chunkedBatchInv_eq T v coeff

/-- panic-freedom: no chunk ever hits the `unwrap` of `inverse()` -/
theorem chunkedBatchInv_ne_none (T : Nat) (v : List F) (coeff : F) :
    chunkedBatchInv T v coeff ≠ none := by
  rw [chunkedBatchInv_eq]; exact Option.some_ne_none _

/-- the two ingredients: chunks concatenate back, for every chunk size `k ≥ 1` -/
theorem flatten_chunks {α : Type} (k : Nat) (hk : 1 ≤ k) (l : List α) :
    (Par.chunks k l).flatten = l :=
  Par.flatten_chunks k hk l

-- `T = 3` on 7 entries: chunks of 2, 2, 2, 1, one of them containing a zero
example : chunkedBatchInv 3 ([1, 2, 0, 4, 5, 6, 7] : List (ZMod 17)) 3
    = some [3, 10, 0, 5, 4, 9, 15] := by decide +kernel
example : Par.chunks 2 ([1, 2, 0, 4, 5, 6, 7] : List (ZMod 17)) = [[1, 2], [0, 4], [5, 6], [7]] := by
  decide +kernel
-- `T = 64` > length: chunks of one element; `T = 1`: a single chunk
example : chunkedBatchInv 64 ([1, 2, 0, 4] : List (ZMod 17)) 1 = some [1, 9, 0, 13] := by
  decide +kernel
example : chunkedBatchInv 1 ([1, 2, 0, 4] : List (ZMod 17)) 1 = some [1, 9, 0, 13] := by
  decide +kernel
example : chunkedBatchInv 3 ([2, 0, 4, 5] : List ℚ) 1 = some [1/2, 0, 1/4, 1/5] := by
  rw [chunkedBatchInv_spec]; norm_num

/-! ## 2. `distribute_powers_and_mul_by_const` -/

/-- the parallel branch (chunks of `max(len / T, 1024)`, chunk `i` starting at
    `c · g.pow(i · chunk)`) agrees with the serial running product -/
theorem distributePowersPar_eq_serial (T : Nat) (coeffs : List F) (g c : F) :
    distributePowersPar T coeffs g c = distributePowersSerial coeffs g c :=
  distributePowersPar_eq T coeffs g c

/-- entry `i` of the serial result is `coeffs[i] · (c · g^i)` -/
theorem distributePowersSerial_spec (coeffs : List F) (g c : F) :
    distributePowersSerial coeffs g c
      = (List.range coeffs.length).map (fun i => coeffs.getD i 0 * (c * g ^ i)) :=
  dps_getElem coeffs g c

theorem distributePowersPar_spec (T : Nat) (coeffs : List F) (g c : F) :
    distributePowersPar T coeffs g c
      = (List.range coeffs.length).map (fun i => coeffs.getD i 0 * (c * g ^ i)) := by
  rw [distributePowersPar_eq, dps_getElem]

/-- the same, entry by entry -/
theorem distributePowersPar_getElem? (T : Nat) (coeffs : List F) (g c : F) (i : Nat) :
    (distributePowersPar T coeffs g c)[i]? = coeffs[i]?.map (fun a => a * (c * g ^ i)) := by
  rw [distributePowersPar_spec]
  by_cases h : i < coeffs.length
  · simp [h, List.getD_eq_getElem?_getD]
  · simp [h]

/-- chunk `i` of a list starts at index `i · k`: the per-chunk loops with starting power
    `c · g^(i·k)` concatenate to the loop over the whole list (any chunk size `k ≥ 1`) -/
theorem distributePowers_chunks (k : Nat) (hk : 1 ≤ k) (coeffs : List F) (g c : F) :
    ((enumFrom 0 (Par.chunks k coeffs)).map
      (fun (x : Nat × List F) => distributePowersSerial x.2 g (c * pow g (x.1 * k)))).flatten
      = distributePowersSerial coeffs g c := by
  have h := dps_chunks k hk g c coeffs.length coeffs 0 (Nat.le_refl _)
  simpa [Par.chunks] using h

example : distributePowersPar 3 ([1, 2, 3, 4] : List (ZMod 17)) 2 5 = [5, 3, 9, 7] := by
  rw [distributePowersPar_spec]; decide +kernel
example : distributePowersPar 64 ([1, 2, 3] : List ℚ) 2 5 = [5, 20, 60] := by
  rw [distributePowersPar_spec]; norm_num [List.range_succ]
example : distributePowersPar 1 ([1, 2, 3] : List (ZMod 17)) 2 5 = [5, 3, 9] := by decide +kernel
-- 2500 entries with `T = 1, 3, 64`: chunks of 2500 / 1024 / 1024 (three chunks, last one short)
example (l : List (ZMod 17)) (_ : l.length = 2500) :
    distributePowersPar 3 l 3 2 = distributePowersSerial l 3 2 :=
  distributePowersPar_eq_serial 3 l 3 2
example : (Par.chunks (max (2500 / 3) 1024) (List.replicate 2500 (1 : ZMod 17))).map List.length
    = [1024, 1024, 452] := by decide +kernel

/-! ## 3. `DensePolynomial::evaluate` -/

/-- chunked Horner (`max(len / T, 16)` coefficients per chunk, chunk `i` scaled by
    `x.pow(i · chunk)`, `.sum()`) is Horner -/
theorem hornerChunked_eq_horner (T : Nat) (coeffs : List F) (x : F) :
    hornerChunked T coeffs x = hornerEvaluate coeffs x :=
  hornerChunked_eq T coeffs x

theorem hornerEvaluate_eq_sum (coeffs : List F) (x : F) :
    hornerEvaluate coeffs x = ∑ i ∈ Finset.range coeffs.length, coeffs.getD i 0 * x ^ i :=
  horner_eq_sum coeffs x

/-- `evaluate` of the parallel build = `evaluate` of the serial build (guards included) -/
theorem evaluatePar_eq_serial (T : Nat) (coeffs : List F) (x : F) :
    evaluatePar T coeffs x = evaluateSerial coeffs x :=
  Par.evaluatePar_eq_serial T coeffs x

/-- and both are `Σ aᵢ xⁱ`, also through the zero-polynomial and the `x = 0` shortcuts -/
theorem evaluateSerial_eq_sum (coeffs : List F) (x : F) :
    evaluateSerial coeffs x = ∑ i ∈ Finset.range coeffs.length, coeffs.getD i 0 * x ^ i := by
  rw [evaluateSerial_eq_horner, horner_eq_sum]

theorem evaluatePar_eq_sum (T : Nat) (coeffs : List F) (x : F) :
    evaluatePar T coeffs x = ∑ i ∈ Finset.range coeffs.length, coeffs.getD i 0 * x ^ i := by
  rw [Par.evaluatePar_eq_serial, evaluateSerial_eq_sum]

-- 40 coefficients, `T = 3`: chunks of 16, 16, 8
example : evaluatePar 3 ((List.range 40).map (Nat.cast : ℕ → ZMod 17)) 3
    = evaluateSerial ((List.range 40).map (Nat.cast : ℕ → ZMod 17)) 3 :=
  evaluatePar_eq_serial 3 _ 3
example : evaluatePar 3 ((List.range 40).map (Nat.cast : ℕ → ZMod 17)) 3 = 7 := by decide +kernel
example : hornerEvaluate ((List.range 40).map (Nat.cast : ℕ → ZMod 17)) 3 = 7 := by decide +kernel
example : evaluatePar 64 ([0, 0, 0] : List (ZMod 17)) 3 = 0 := by decide +kernel   -- zero polynomial
example : evaluatePar 64 ([5, 1, 2] : List (ZMod 17)) 0 = 5 := by decide +kernel   -- `x = 0`
example : hornerChunked 1 ((List.range 40).map (Nat.cast : ℕ → ZMod 17)) 3 = 7 := by
  decide +kernel
example : hornerChunked 64 ((List.range 40).map (Nat.cast : ℕ → ZMod 17)) 3 = 7 := by
  decide +kernel
example : evaluatePar 1 ([1, 2, 3] : List ℚ) 2 = 17 := by
  rw [evaluatePar_eq_sum]; norm_num [Finset.sum_range_succ]

/-! ## 4. `roots_of_unity` -/

/-- the recursive table (`rayon::join` on the two halves of `log_powers`, then
    `out[j·|lo| + i] = hi[j]·lo[i]`) is the table of consecutive powers -/
theorem rootsRec_eq (fuel n : Nat) (w : F) (h : n ≤ fuel) :
    rootsRec fuel (logPowers n w) = powersSeq (2 ^ n) w 1 :=
  Par.rootsRec_eq fuel n w h

theorem powersSeq_spec (n : Nat) (g : F) : powersSeq n g 1 = (List.range n).map (fun i => g ^ i) :=
  powersSeq_one n g

/-- parallel `roots_of_unity` = serial `roots_of_unity` on every power-of-two domain size -/
theorem rootsOfUnityPar_eq_serial (k : Nat) (root : F) :
    rootsOfUnityPar (2 ^ k) root = rootsOfUnitySerial (2 ^ k) root :=
  rootsOfUnityPar_eq k root

theorem rootsOfUnityPar_spec (k : Nat) (root : F) :
    rootsOfUnityPar (2 ^ k) root = (List.range (2 ^ k / 2)).map (fun i => root ^ i) := by
  rw [rootsOfUnityPar_eq, rootsOfUnitySerial, computePowersSerial_eq]

-- `size = 2^10 > 2^7`: the recursive branch is taken (9 log-powers, split 5 + 4)
example : rootsOfUnityPar (2 ^ 10) (3 : ZMod 17) = rootsOfUnitySerial (2 ^ 10) 3 :=
  rootsOfUnityPar_eq_serial 10 3
example : ¬ log2Ceil (2 ^ 10) ≤ LOG_ROOTS_OF_UNITY_PARALLEL_SIZE := by decide +kernel
example : (rootsOfUnityPar (2 ^ 10) (3 : ZMod 17)).length = 512 := by
  rw [rootsOfUnityPar_spec]; simp

/-! ## 5. `parallel_fft`, `best_fft`, mixed-radix `fft_in_place` / `ifft_in_place` -/

/-- [B] `parallel_fft` computes the DFT of its input whenever its two `assert`s hold
    (`log_cpus ≤ log_n`, `2^log_cpus ∣ len`), `ω^len = 1`, and the `serial_fft` pointer computes
    the DFT of the `len / 2^log_cpus`-point coset polynomials with generator `ω^(2^log_cpus)` -/
theorem parallelFft_eq_naiveDft (sfft : List F → F → Nat → Outcome (List F)) (a : List F) (ω : F)
    (logN logCpus : Nat) (hle : logCpus ≤ logN) (hdvd : 2 ^ logCpus ∣ a.length)
    (hω : ω ^ a.length = 1)
    (hs : ∀ b : List F, b.length = a.length / 2 ^ logCpus →
      sfft b (ω ^ 2 ^ logCpus) (kAdicity 2 (a.length / 2 ^ logCpus))
        = .ok (naiveDft b (ω ^ 2 ^ logCpus))) :
    parallelFft sfft a ω logN logCpus = .ok (naiveDft a ω) :=
  parallelFft_eq sfft a ω logN logCpus hle hdvd hω hs

/-- entry `t` of `naiveDft a ω` is `Σ_j a[j] ω^(t·j)` -/
theorem naiveDft_spec (a : List F) (ω : F) :
    naiveDft a ω = (List.range a.length).map
      (fun t => ∑ j ∈ Finset.range a.length, a.getD j 0 * (ω ^ t) ^ j) := by
  rw [naiveDft_eq]; simp only [horner_eq_sum]

/-- panic-freedom of `parallel_fft`: under the two `assert`s, and if the sub-FFT returns vectors
    of the length it was given, no index is out of bounds -/
theorem parallelFft_ok (sfft : List F → F → Nat → Outcome (List F)) (a : List F) (ω : F)
    (logN logCpus : Nat) (hle : logCpus ≤ logN) (hdvd : 2 ^ logCpus ∣ a.length)
    (hs : ∀ b : List F, b.length = a.length / 2 ^ logCpus →
      ∃ r, sfft b (ω ^ 2 ^ logCpus) (kAdicity 2 (a.length / 2 ^ logCpus)) = .ok r ∧
        r.length = a.length / 2 ^ logCpus) :
    ∃ r, parallelFft sfft a ω logN logCpus = .ok r ∧ r.length = a.length :=
  Par.parallelFft_ok sfft a ω logN logCpus hle hdvd hs

/-- `best_fft` with `T` threads = the serial FFT it was given.  In the serial branch
    (`log_n ≤ ⌊log₂ T⌋`) unconditionally; in the parallel branch under the hypotheses of
    `parallelFft_eq_naiveDft` for `log_cpus = ⌊log₂ T⌋` plus correctness of `sfft` on `a` itself -/
theorem bestFft_eq_serial (T : Nat) (sfft : List F → F → Nat → Outcome (List F)) (a : List F)
    (ω : F) (logN : Nat)
    (hpar : log2Floor T < logN →
      2 ^ log2Floor T ∣ a.length ∧ ω ^ a.length = 1 ∧
      (∀ b : List F, b.length = a.length / 2 ^ log2Floor T →
        sfft b (ω ^ 2 ^ log2Floor T) (kAdicity 2 (a.length / 2 ^ log2Floor T))
          = .ok (naiveDft b (ω ^ 2 ^ log2Floor T))) ∧
      sfft a ω logN = .ok (naiveDft a ω)) :
    bestFft T sfft a ω logN = sfft a ω logN :=
  bestFft_eq T sfft a ω logN hpar

/-- `SerialFftSpec T sfft n ω logN` (defined in `Ark/Proofs/Par.lean`) packages exactly the
    hypothesis `hpar` above for all inputs of length `n`; it is satisfied by the naive DFT
    whenever `2^⌊log₂ T⌋ ∣ n` and `ω^n = 1` -/
theorem serialFftSpec_naive (T n : Nat) (ω : F) (logN : Nat) (hd : 2 ^ log2Floor T ∣ n)
    (hω : ω ^ n = 1) :
    SerialFftSpec T (fun a w _ => Outcome.ok (naiveDft a w)) n ω logN :=
  fun _ => ⟨hd, hω, fun _ _ => rfl, fun _ _ => rfl⟩

theorem serialFftSpec_iff (T : Nat) (sfft : List F → F → Nat → Outcome (List F)) (n : Nat) (ω : F)
    (logN : Nat) :
    SerialFftSpec T sfft n ω logN ↔
      (log2Floor T < logN →
        2 ^ log2Floor T ∣ n ∧ ω ^ n = 1 ∧
        (∀ b : List F, b.length = n / 2 ^ log2Floor T →
          sfft b (ω ^ 2 ^ log2Floor T) (kAdicity 2 (n / 2 ^ log2Floor T))
            = .ok (naiveDft b (ω ^ 2 ^ log2Floor T))) ∧
        (∀ b : List F, b.length = n → sfft b ω logN = .ok (naiveDft b ω))) :=
  Iff.rfl

/-- mixed-radix `fft_in_place`: parallel build = serial build -/
theorem mixedFftPar_eq_serial (T : Nat) (sfft : List F → F → Nat → Outcome (List F))
    (d : MixedDomain F) (coeffs : List F)
    (h : SerialFftSpec T sfft d.size d.groupGen d.logSizeOfGroup) :
    mixedFftPar T sfft d coeffs = mixedFftSerial sfft d coeffs :=
  mixedFftPar_eq T sfft d coeffs h

/-- mixed-radix `ifft_in_place`: parallel build = serial build -/
theorem mixedIfftPar_eq_serial (T : Nat) (sfft : List F → F → Nat → Outcome (List F))
    (d : MixedDomain F) (evals : List F)
    (h : SerialFftSpec T sfft d.size d.groupGenInv d.logSizeOfGroup) :
    mixedIfftPar T sfft d evals = mixedIfftSerial sfft d evals :=
  mixedIfftPar_eq T sfft d evals h

/-- the `serial_fft` pointer used by the driver -/
def sfftNaive : List F → F → Nat → Outcome (List F) := fun a w _ => .ok (naiveDft a w)

-- 8 points over `ZMod 17` (`2` has order 8), `T = 3` (→ 2 cosets) and `T = 64` with `log_n = 3`
example : parallelFft sfftNaive ([1, 2, 3, 4, 5, 6, 7, 8] : List (ZMod 17)) 2 3 1
    = .ok (naiveDft [1, 2, 3, 4, 5, 6, 7, 8] 2) :=
  parallelFft_eq_naiveDft sfftNaive _ 2 3 1 (by decide) (by decide) (by decide) (fun _ _ => rfl)
example : parallelFft sfftNaive ([1, 2, 3, 4, 5, 6, 7, 8] : List (ZMod 17)) 2 3 1
    = .ok [2, 8, 14, 6, 13, 3, 12, 1] := by decide +kernel
example : bestFft 3 sfftNaive ([1, 2, 3, 4, 5, 6, 7, 8] : List (ZMod 17)) 2 3
    = .ok [2, 8, 14, 6, 13, 3, 12, 1] := by decide +kernel
example : log2Floor 3 < 3 := by decide
example : bestFft 3 sfftNaive ([1, 2, 3, 4, 5, 6, 7, 8] : List (ZMod 17)) 2 3
    = sfftNaive [1, 2, 3, 4, 5, 6, 7, 8] 2 3 :=
  bestFft_eq_serial 3 _ _ _ _ (fun _ => ⟨by decide, by decide, fun _ _ => rfl, rfl⟩)
example : ∃ r, parallelFft sfftNaive ([1, 2, 3, 4, 5, 6, 7, 8] : List (ZMod 17)) 5 3 2 = .ok r ∧
    r.length = 8 :=   -- `ω = 5` is not an 8-th root of unity: still no panic
  parallelFft_ok sfftNaive _ 5 3 2 (by decide) (by decide)
    (fun b hb => ⟨_, rfl, by rw [naiveDft_length, hb]⟩)
-- a size that is not a power of two: 12 points over `ZMod 13` (`2` has order 12), 4 cosets of 3
example : parallelFft sfftNaive ((List.range 12).map (Nat.cast : ℕ → ZMod 13)) 2 2 2
    = .ok (naiveDft ((List.range 12).map (Nat.cast : ℕ → ZMod 13)) 2) :=
  parallelFft_eq_naiveDft sfftNaive _ 2 2 2 (by decide) (by decide) (by decide +kernel)
    (fun _ _ => rfl)
example : SerialFftSpec 3 (sfftNaive (F := ZMod 17)) 8 2 3 :=
  serialFftSpec_naive 3 8 2 3 (by decide) (by decide)
/-- the 8-point coset domain `3·⟨2⟩` of `ZMod 17` -/
def dom17 : MixedDomain (ZMod 17) :=
  { size := 8, logSizeOfGroup := 3, sizeInv := 15, groupGen := 2, groupGenInv := 9,
    offset := 3, offsetInv := 6 }

example : mixedFftPar 3 sfftNaive dom17 [1, 2, 3] = mixedFftSerial sfftNaive dom17 [1, 2, 3] :=
  mixedFftPar_eq_serial 3 _ _ _
    (serialFftSpec_naive 3 8 (2 : ZMod 17) 3 (by decide) (by decide))
example : mixedIfftPar 3 sfftNaive dom17 [1, 2, 3] = mixedIfftSerial sfftNaive dom17 [1, 2, 3] :=
  mixedIfftPar_eq_serial 3 _ _ _
    (serialFftSpec_naive 3 8 (9 : ZMod 17) 3 (by decide) (by decide))
-- `T = 64`: `log_n = 3 ≤ 6`, the serial branch
example : mixedIfftPar 64 sfftNaive dom17 [1, 2, 3] = mixedIfftSerial sfftNaive dom17 [1, 2, 3] :=
  mixedIfftPar_eq_serial 64 _ _ _ (fun h => absurd h (by decide))
example : mixedFftPar 3 sfftNaive dom17 [1, 2, 3] = .ok [0, 2, 15, 9, 5, 12, 1, 15] := by
  decide +kernel

/-! ## 6. `compute_powers` (`#[allow(unused)]`, no caller): drops the tail -/

/-- as coded, `compute_powers(size, g)` returns only the first
    `(size / chunk) · chunk` powers, `chunk = max(size / T, 128)` -/
theorem computePowersPar_eq_take (T size : Nat) (g : F) (h : 128 ≤ size) :
    computePowersPar T size g
      = (computePowersSerial size g).take (size / max (size / T) 128 * max (size / T) 128) := by
  rw [computePowersPar_large T size g h, computePowersSerial_take _ _ _ (Nat.div_mul_le_self _ _)]

/-- a witness that the function is wrong: 2 threads, 129 powers requested, 128 returned -/
theorem computePowersPar_short : ∃ (T size : Nat) (g : F), (computePowersPar T size g).length < size :=
  ⟨2, 129, 1, by rw [computePowersPar_large 2 129 1 (by omega), computePowersSerial_length]; decide⟩

/-- it is right exactly when nothing is dropped: the chunk size divides `size` … -/
theorem computePowersPar_eq_of_dvd (T size : Nat) (g : F) (h : 128 ≤ size)
    (hd : max (size / T) MIN_PARALLEL_CHUNK_SIZE ∣ size) :
    computePowersPar T size g = computePowersSerial size g := by
  rw [computePowersPar_large T size g h]
  simp only [MIN_PARALLEL_CHUNK_SIZE] at hd
  rw [Nat.div_mul_cancel hd]

/-- … or the serial shortcut `size < MIN_PARALLEL_CHUNK_SIZE` is taken -/
theorem computePowersPar_eq_of_small (T size : Nat) (g : F) (h : size < MIN_PARALLEL_CHUNK_SIZE) :
    computePowersPar T size g = computePowersSerial size g :=
  computePowersPar_small T size g (by simpa [MIN_PARALLEL_CHUNK_SIZE] using h)

/-- the length in general: short as soon as the chunk size does not divide `size` -/
theorem computePowersPar_length (T size : Nat) (g : F) (h : 128 ≤ size) :
    (computePowersPar T size g).length = size / max (size / T) 128 * max (size / T) 128 := by
  rw [computePowersPar_large T size g h, computePowersSerial_length]

example : (computePowersPar 2 129 (3 : ZMod 17)).length = 128 := by
  rw [computePowersPar_length 2 129 3 (by omega)]; decide
example : computePowersPar 3 384 (3 : ZMod 17) = computePowersSerial 384 3 :=
  computePowersPar_eq_of_dvd 3 384 3 (by omega) (by decide)
example : computePowersPar 64 100 (3 : ZMod 17) = computePowersSerial 100 3 :=
  computePowersPar_eq_of_small 64 100 3 (by decide)

end Ark.C14
