import Ark.Proofs.SurfaceC
/-
  Ark.Props.C18b — derived / hand-written (de)serialisation of the `ark-poly` types and of `Fp`
  (model: `Ark.Serial.Poly` in `Ark.Model.Serial`), and the failing writer `encodeInto`.

  P1  reported size = bytes written
  P2  round trip in the four (Compress, Validate) modes; the `check()`-only statement is FALSE for a
      `GeneralEvaluationDomain` over a fallible leaf (counterexample), true for every type without one
  P3  no panic / no abort / hang only on zero-width element loops
  P4  truncation ⇒ `IoError`
  P5  the `GeneralEvaluationDomain` tag: 0 and 1 only
  P6  `Fp`: exactly the `width`-byte little-endian encodings of `n < p`
  P7  allocation bound
  P8  canonical types: an accepted input is the encoding of the returned value; well-typedness
  P9  the unread rest is a suffix; events are only appended
  P10 derive = tuple
  P11 the failing writer
  P12 NEGATIVE: a dense polynomial with a trailing zero coefficient is accepted under `Validate::Yes`
-/
namespace Ark.C18b
open Ark.Serial Ark.Serial.Poly

/-- the limits of the harness' child process -/
def Lx : Limits := { mem := 2 ^ 30, steps := 2 ^ 16 }

/-- a two-byte prime field (`p = 65521`, `width = 2`) and a one-byte one -/
def F2 : FCfg := ⟨65521⟩
def F13 : FCfg := ⟨13⟩

/-- `DensePolynomial { coeffs: Vec<F> }` -/
def tyDense : PTy := .struct [.vec 8 .fp]
/-- `univariate::SparsePolynomial { coeffs: Vec<(usize, F)> }` -/
def tySparse : PTy := .struct [.vec 16 (.tup [.old (.int .usize), .fp])]
/-- `Radix2EvaluationDomain` / `MixedRadixEvaluationDomain`: `size: u64, log_size_of_group: u32`, seven `F` -/
def tyDom : PTy := .struct [.old (.int .u64), .old (.int .u32), .fp, .fp, .fp, .fp, .fp, .fp, .fp]
/-- `Evaluations { evals: Vec<F>, domain: GeneralEvaluationDomain<F> }` -/
def tyEvals : PTy := .struct [.vec 8 .fp, .gdom tyDom tyDom]
/-- `SparseMultilinearExtension { evaluations: BTreeMap<usize, F>, num_vars: usize, zero: F }` -/
def tyMle : PTy := .struct [.map (.old (.int .usize)) .fp, .old (.int .usize), .fp]

def valDom : Val := .seq [.int 2, .int 1, .int 2, .int 32761, .int 65520, .int 65520, .int 1, .int 1, .int 1]
def valEvals : Val := .seq [.seq [.int 258, .int 3], .seq [.int 0, valDom]]
def bytesEvals : List Nat :=
  [2, 0, 0, 0, 0, 0, 0, 0, 2, 1, 3, 0, 0,
   2, 0, 0, 0, 0, 0, 0, 0, 1, 0, 0, 0, 2, 0, 249, 127, 240, 255, 240, 255, 1, 0, 1, 0, 1, 0]
def valMle : Val := .seq [.seq [.seq [.int 1, .int 7], .seq [.int 4, .int 300]], .int 3, .int 0]
def bytesMle : List Nat :=
  [2, 0, 0, 0, 0, 0, 0, 0, 1, 0, 0, 0, 0, 0, 0, 0, 7, 0, 4, 0, 0, 0, 0, 0, 0, 0, 44, 1,
   3, 0, 0, 0, 0, 0, 0, 0, 0, 0]

/-! ## P1 -/

/-- P1: `serialized_size` equals the number of bytes `serialize_with_mode` writes -/
theorem size_eq_written (F : FCfg) (t : PTy) (c : Compress) (v : Val) (bs : List Nat)
    (h : pEncode F t c v = some bs) : pSize F t c v = bs.length :=
  pSize_eq_length F t c v bs h

theorem sizeAll_eq_written (F : FCfg) (ts : List PTy) (c : Compress) (vs : List Val) (bs : List Nat)
    (h : pEncodeAll F ts c vs = some bs) : pSizeAll F ts c vs = bs.length :=
  pSizeAll_eq_length F ts c vs bs h

example : pEncode F2 tyEvals .yes valEvals = some bytesEvals ∧ pSize F2 tyEvals .yes valEvals = 39 := by
  decide +kernel
example : pEncode F2 tyMle .no valMle = some bytesMle ∧ pSize F2 tyMle .no valMle = 38 := by
  decide +kernel

/-! ## P2 -/

/-- P2 (exact hypothesis): the serialisation of `v` deserialises to `v`, consuming exactly the
    encoding, in both validation modes, when `v` passes `check()` and — `pDeep` — the payload of every
    `GeneralEvaluationDomain` inside passes `check()` too (its own `check` is `Ok(())`, but
    `deserialize_with_mode` hands `validate` to the variant).  `pFits`: every sequence length is
    `< 2^64` and no loop over zero-width elements exceeds `L.steps`. -/
theorem roundtrip (L : Limits) (F : FCfg) (t : PTy) (c : Compress) (vd : Validate) (v : Val) (bs : List Nat)
    (he : pEncode F t c v = some bs) (hf : pFits L t v = true) (hc : pCheck t v = true)
    (hd : pDeep t v = true) (rest : List Nat) (e : List Ev) (hm : usedEv e + 512 * bs.length ≤ L.mem) :
    ∃ evs, pDecode L F t c vd ⟨bs ++ rest, e⟩ = .ok v ⟨rest, e ++ evs⟩ ∧ usedEv evs ≤ 512 * bs.length :=
  (prtt_decode L F t c vd v bs he hf hc hd).rt rest e hm

/-- P2 as requested, for every type without a `GeneralEvaluationDomain` inside: `check()` suffices -/
theorem roundtrip_checked (L : Limits) (F : FCfg) (t : PTy) (hg : pNoGdom t = true) (c : Compress)
    (vd : Validate) (v : Val) (bs : List Nat)
    (he : pEncode F t c v = some bs) (hf : pFits L t v = true) (hc : pCheck t v = true)
    (rest : List Nat) (e : List Ev) (hm : usedEv e + 512 * bs.length ≤ L.mem) :
    ∃ evs, pDecode L F t c vd ⟨bs ++ rest, e⟩ = .ok v ⟨rest, e ++ evs⟩ :=
  let ⟨evs, h, _⟩ := roundtrip L F t c vd v bs he hf hc (pDeep_of_noGdom t hg v) rest e hm
  ⟨evs, h⟩

/-- P2 for a `GeneralEvaluationDomain` whose two variants contain no further one (the shipped case):
    the payload must pass its `check()` -/
theorem roundtrip_gdom (L : Limits) (F : FCfg) (r m : PTy) (hr : pNoGdom r = true) (hmm : pNoGdom m = true)
    (c : Compress) (vd : Validate) (tag : Int) (x : Val) (bs : List Nat)
    (he : pEncode F (.gdom r m) c (.seq [.int tag, x]) = some bs)
    (hf : pFits L (.gdom r m) (.seq [.int tag, x]) = true)
    (hc : (if tag = 0 then pCheck r x else pCheck m x) = true)
    (rest : List Nat) (e : List Ev) (hm : usedEv e + 512 * bs.length ≤ L.mem) :
    ∃ evs, pDecode L F (.gdom r m) c vd ⟨bs ++ rest, e⟩ = .ok (.seq [.int tag, x]) ⟨rest, e ++ evs⟩ := by
  have hd : pDeep (.gdom r m) (.seq [.int tag, x]) = true := by
    simp only [pDeep]
    split
    · rename_i h0; rw [if_pos h0] at hc; simp [hc, pDeep_of_noGdom r hr x]
    · rename_i h0; rw [if_neg h0] at hc; simp [hc, pDeep_of_noGdom m hmm x]
  obtain ⟨evs, h, _⟩ := roundtrip L F (.gdom r m) c vd _ bs he hf (by simp [pCheck]) hd rest e hm
  exact ⟨evs, h⟩

example : pEncode F2 tyEvals .yes valEvals = some bytesEvals ∧ pFits Lx tyEvals valEvals = true ∧
    pCheck tyEvals valEvals = true ∧ pDeep tyEvals valEvals = true ∧
    usedEv [] + 512 * bytesEvals.length ≤ Lx.mem := by decide +kernel
example : ∃ evs, pDecode Lx F2 tyEvals .yes .yes ⟨bytesEvals ++ [9, 9], []⟩ = .ok valEvals ⟨[9, 9], [] ++ evs⟩ :=
  let ⟨evs, h, _⟩ := roundtrip Lx F2 tyEvals .yes .yes valEvals bytesEvals (by decide +kernel)
    (by decide +kernel) (by decide +kernel) (by decide +kernel) [9, 9] [] (by decide +kernel)
  ⟨evs, h⟩
example : pNoGdom tyMle = true ∧ pNoGdom tyDense = true ∧ pNoGdom tySparse = true ∧ pNoGdom tyDom = true ∧
    pNoGdom tyEvals = false := by decide +kernel
example : pEncode F2 tyMle .no valMle = some bytesMle ∧ pFits Lx tyMle valMle = true ∧
    pCheck tyMle valMle = true ∧ usedEv [] + 512 * bytesMle.length ≤ Lx.mem := by decide +kernel
example : ∃ evs, pDecode Lx F2 tyMle .no .no ⟨bytesMle ++ [], []⟩ = .ok valMle ⟨[], [] ++ evs⟩ :=
  roundtrip_checked Lx F2 tyMle (by decide +kernel) .no .no valMle bytesMle (by decide +kernel)
    (by decide +kernel) (by decide +kernel) [] [] (by decide +kernel)

/-- COUNTEREXAMPLE to the `check()`-only statement on the whole universe: a `GeneralEvaluationDomain`
    over the fallible leaf `ml` holding the invalid byte `0xEE` passes `check()` (hand-written `Ok(())`),
    serialises, and is refused with `InvalidData` under `Validate::Yes` (accepted under `Validate::No`).
    No shipped type is concerned: both shipped variants consist of `u64`, `u32` and `Fp`, whose `check` is
    `Ok(())`. -/
theorem roundtrip_check_only_false :
    pCheck (.gdom (.old .ml) (.old .ml)) (.seq [.int 0, .int 0xEE]) = true ∧
    pFits Lx (.gdom (.old .ml) (.old .ml)) (.seq [.int 0, .int 0xEE]) = true ∧
    pEncode F13 (.gdom (.old .ml) (.old .ml)) .yes (.seq [.int 0, .int 0xEE]) = some [0, 0xEE] ∧
    (pDecode Lx F13 (.gdom (.old .ml) (.old .ml)) .yes .yes ⟨[0, 0xEE], []⟩).failure = some (.err .invalid) ∧
    (pDecode Lx F13 (.gdom (.old .ml) (.old .ml)) .yes .no ⟨[0, 0xEE], []⟩).failure = none := by
  decide +kernel

/-! ## P3 -/

/-- P3: deserialisation never panics, whatever the type, modes and input -/
theorem no_panic (L : Limits) (F : FCfg) (t : PTy) (c : Compress) (vd : Validate) (s s' : St)
    (h : pDecode L F t c vd s = .fail .panic s') : False :=
  ((safe_pDecode L F t c vd s).2 _ _ h).1 rfl

/-- P3: no allocation failure when the memory limit is at least `512·|input|` above what is in use -/
theorem no_abort (L : Limits) (F : FCfg) (t : PTy) (c : Compress) (vd : Validate) (s s' : St)
    (hm : s.used + 512 * s.inp.length ≤ L.mem) (h : pDecode L F t c vd s = .fail .abort s') : False := by
  have := ((safe_pDecode L F t c vd s).2 _ _ h).2.1 rfl
  omega

/-- P3 in the form of C18 -/
theorem no_panic_no_abort (L : Limits) (F : FCfg) (t : PTy) (c : Compress) (vd : Validate) (bs : List Nat)
    (hm : 4096 * bs.length + 4096 ≤ L.mem) (f : Fail) (s' : St)
    (h : pDecode L F t c vd ⟨bs, []⟩ = .fail f s') : f ≠ .panic ∧ f ≠ .abort := by
  constructor
  · rintro rfl; exact no_panic L F t c vd _ _ h
  · rintro rfl
    exact no_abort L F t c vd ⟨bs, []⟩ s' (by simp only [St.used_eq, usedEv_nil]; omega) h

/-- P3: a hang is a loop over zero-width elements whose trip count, the 8-byte length prefix just
    before the unread input, exceeds `L.steps` -/
theorem hang_only_zero_width (L : Limits) (F : FCfg) (t : PTy) (c : Compress) (vd : Validate) (s s' : St)
    (h : pDecode L F t c vd s = .fail .hang s') :
    pZwLoop t = true ∧ ∃ pre l8, s.inp = pre ++ l8 ++ s'.inp ∧ l8.length = 8 ∧ L.steps < leValue l8 :=
  ((safe_pDecode L F t c vd s).2 _ _ h).2.2 rfl

/-- the shipped types have no zero-width element loop: they never hang -/
example : pZwLoop tyDense = false ∧ pZwLoop tySparse = false ∧ pZwLoop tyEvals = false ∧
    pZwLoop tyMle = false := by decide +kernel
/-- an oversized length prefix: 512 field elements pre-allocated (4096 bytes), then `IoError` -/
example : (pDecode Lx F2 tyDense .yes .yes ⟨[255, 255, 255, 255, 255, 255, 255, 127, 1], []⟩).failure =
      some (.err .io) ∧
    (pDecode Lx F2 tyDense .yes .yes ⟨[255, 255, 255, 255, 255, 255, 255, 127, 1], []⟩).st.evs =
      [⟨512, 8, 1⟩] := by decide +kernel
/-- the hang outcome exists in the universe: `Vec<()>` -/
example : (pDecode Lx F2 (.vec 0 (.tup [])) .yes .yes ⟨[1, 0, 1, 0, 0, 0, 0, 0], []⟩).failure = some .hang ∧
    pZwLoop (.vec 0 (.tup [])) = true := by decide +kernel
/-- the abort outcome exists when memory is short -/
example : (pDecode ⟨100, 10⟩ F2 tyDense .yes .yes ⟨[255, 255, 0, 0, 0, 0, 0, 0], []⟩).failure =
    some .abort := by decide +kernel

/-! ## P4 -/

/-- P4: every strict prefix of a valid encoding is refused with `IoError` -/
theorem truncation (L : Limits) (F : FCfg) (t : PTy) (c : Compress) (vd : Validate) (v : Val) (bs : List Nat)
    (he : pEncode F t c v = some bs) (hf : pFits L t v = true) (hc : pCheck t v = true)
    (hd : pDeep t v = true) (p q : List Nat) (hb : bs = p ++ q) (hq : q ≠ []) (e : List Ev)
    (hm : usedEv e + 512 * bs.length ≤ L.mem) :
    ∃ s', pDecode L F t c vd ⟨p, e⟩ = .fail (.err .io) s' :=
  (prtt_decode L F t c vd v bs he hf hc hd).tr p q e hb hq hm

theorem truncation_checked (L : Limits) (F : FCfg) (t : PTy) (hg : pNoGdom t = true) (c : Compress)
    (vd : Validate) (v : Val) (bs : List Nat)
    (he : pEncode F t c v = some bs) (hf : pFits L t v = true) (hc : pCheck t v = true)
    (p q : List Nat) (hb : bs = p ++ q) (hq : q ≠ []) (e : List Ev)
    (hm : usedEv e + 512 * bs.length ≤ L.mem) :
    ∃ s', pDecode L F t c vd ⟨p, e⟩ = .fail (.err .io) s' :=
  truncation L F t c vd v bs he hf hc (pDeep_of_noGdom t hg v) p q hb hq e hm

example : bytesEvals = bytesEvals.take 30 ++ bytesEvals.drop 30 ∧ bytesEvals.drop 30 ≠ [] := by
  decide +kernel
example : (pDecode Lx F2 tyEvals .yes .yes ⟨bytesEvals.take 30, []⟩).failure = some (.err .io) := by
  decide +kernel

/-! ## P5 -/

/-- P5: the tag byte of a `GeneralEvaluationDomain`: `0` is `Radix2`, `1` is `MixedRadix`, every other
    value is `InvalidData` (after consuming the tag byte only) -/
theorem gdom_tag (L : Limits) (F : FCfg) (r m : PTy) (c : Compress) (vd : Validate) (tag : Nat)
    (rest : List Nat) (e : List Ev) :
    pDecode L F (.gdom r m) c vd ⟨tag :: rest, e⟩ =
      if tag = 0 then (pDecode L F r c vd >>= fun d => pure (.seq [.int 0, d])) ⟨rest, e⟩
      else if tag = 1 then (pDecode L F m c vd >>= fun d => pure (.seq [.int 1, d])) ⟨rest, e⟩
      else .fail (.err .invalid) ⟨rest, e⟩ :=
  pDecode_gdom_cons L F r m c vd tag rest e

theorem gdom_bad_tag (L : Limits) (F : FCfg) (r m : PTy) (c : Compress) (vd : Validate) (tag : Nat)
    (rest : List Nat) (e : List Ev) (ht : 2 ≤ tag) :
    pDecode L F (.gdom r m) c vd ⟨tag :: rest, e⟩ = .fail (.err .invalid) ⟨rest, e⟩ := by
  rw [gdom_tag, if_neg (by omega), if_neg (by omega)]

theorem gdom_empty (L : Limits) (F : FCfg) (r m : PTy) (c : Compress) (vd : Validate) (e : List Ev) :
    pDecode L F (.gdom r m) c vd ⟨[], e⟩ = .fail (.err .io) ⟨[], e⟩ :=
  pDecode_gdom_nil L F r m c vd e

/-- P5: an accepted `GeneralEvaluationDomain` starts with the byte 0 or 1 and is that variant -/
theorem gdom_ok_tag (L : Limits) (F : FCfg) (r m : PTy) (c : Compress) (vd : Validate) (s s' : St) (v : Val)
    (h : pDecode L F (.gdom r m) c vd s = .ok v s') :
    ∃ rest d, (s.inp = 0 :: rest ∧ v = .seq [.int 0, d] ∧ pDecode L F r c vd ⟨rest, s.evs⟩ = .ok d s') ∨
      (s.inp = 1 :: rest ∧ v = .seq [.int 1, d] ∧ pDecode L F m c vd ⟨rest, s.evs⟩ = .ok d s') :=
  pDecode_gdom_ok h

/-- the serialiser writes no other tag -/
theorem gdom_encode_tag (F : FCfg) (r m : PTy) (c : Compress) (v : Val) (bs : List Nat)
    (h : pEncode F (.gdom r m) c v = some bs) :
    ∃ (tag : Int) (x : Val) (b : List Nat), v = .seq [.int tag, x] ∧
      ((tag = 0 ∧ pEncode F r c x = some b ∧ bs = 0 :: b) ∨
       (tag = 1 ∧ pEncode F m c x = some b ∧ bs = 1 :: b)) :=
  pEncode_gdom_inv h

example : (pDecode Lx F2 (.gdom tyDom tyDom) .yes .yes ⟨2 :: bytesEvals.drop 13, []⟩).failure =
    some (.err .invalid) := by decide +kernel
example : ((pDecode Lx F2 (.gdom tyDom tyDom) .yes .yes ⟨1 :: bytesEvals.drop 13, []⟩).value.map
    (fun v => pEncode F2 (.gdom tyDom tyDom) .yes v)) = some (some (1 :: bytesEvals.drop 13)) := by
  decide +kernel

/-! ## P6 -/

/-- P6: `Fp::deserialize_with_mode` accepts exactly the `width`-byte little-endian encodings of the
    `n < p` (on inputs made of bytes), consuming those bytes and recording no allocation -/
theorem fp_accepts_iff (F : FCfg) (s s' : St) (v : Val) (hb : ∀ b ∈ s.inp, b < 256) :
    decFp F s = .ok v s' ↔
      ∃ n, n < F.p ∧ v = .int n ∧ s.inp = leBytes F.width n ++ s'.inp ∧ s'.evs = s.evs :=
  decFp_iff F s s' v hb

/-- P6: `width` bytes whose value is `≥ p` are `InvalidData` -/
theorem fp_not_reduced (F : FCfg) (bs rest : List Nat) (e : List Ev) (hl : bs.length = F.width)
    (hv : F.p ≤ leValue bs) : decFp F ⟨bs ++ rest, e⟩ = .fail (.err .invalid) ⟨rest, e⟩ :=
  decFp_invalid F bs rest e hl hv

/-- P6: fewer than `width` bytes are `IoError` -/
theorem fp_short (F : FCfg) (s : St) (h : s.inp.length < F.width) : decFp F s = .fail (.err .io) s :=
  decFp_short F s h

/-- P6: the modulus fits the advertised width -/
theorem fp_width (F : FCfg) : F.p ≤ 256 ^ F.width := F.p_le

example : F2.width = 2 ∧ F13.width = 1 ∧ (⟨2 ^ 255 - 19⟩ : FCfg).width = 32 := by decide +kernel
example : (decFp F2 ⟨[240, 255, 7], []⟩).value.map (fun v => pEncode F2 .fp .yes v) = some (some [240, 255]) ∧
    (decFp F2 ⟨[241, 255, 7], []⟩).failure = some (.err .invalid) ∧
    (decFp F2 ⟨[241], []⟩).failure = some (.err .io) := by decide +kernel

/-! ## P7 -/

/-- P7: every allocation event requests at most 4096 bytes and at most as many elements as the
    8-byte length prefix (located right before the `rem` unread bytes) announces -/
theorem alloc_bounded (L : Limits) (F : FCfg) (t : PTy) (c : Compress) (vd : Validate) (bs : List Nat)
    (ev : Ev) (h : ev ∈ (pDecode L F t c vd ⟨bs, []⟩).st.evs) :
    ev.n * ev.esz ≤ 4096 ∧
    ∃ pre l8 post, bs = pre ++ l8 ++ post ∧ l8.length = 8 ∧ post.length = ev.rem ∧
      ev.n ≤ leValue l8 := by
  obtain ⟨evs, he, hok⟩ := (safe_pDecode L F t c vd ⟨bs, []⟩).1.evs
  rw [he] at h
  exact hok ev (by simpa using h)

/-- P7, as the executable spec states it (`Ev.bounded 64 4096`) -/
theorem alloc_bounded_spec (L : Limits) (F : FCfg) (t : PTy) (c : Compress) (vd : Validate) (bs : List Nat)
    (ev : Ev) (h : ev ∈ (pDecode L F t c vd ⟨bs, []⟩).st.evs) : ev.bounded 64 4096 = true := by
  have := (alloc_bounded L F t c vd bs ev h).1
  simp only [Ev.bounded, Ev.bytes]; exact decide_eq_true (by omega)

example : (pDecode Lx F2 tyEvals .yes .yes ⟨bytesEvals, []⟩).st.evs = [⟨2, 8, 31⟩] := by decide +kernel

/-! ## P8 -/

/-- P8: for a type with a unique encoding, an accepted input (of bytes) is the encoding of the
    returned value followed by the unread rest -/
theorem canonical_reencode (L : Limits) (F : FCfg) (t : PTy) (c : Compress) (vd : Validate) (s s' : St)
    (v : Val) (hc : pCanonical t = true) (hb : ∀ b ∈ s.inp, b < 256)
    (h : pDecode L F t c vd s = .ok v s') :
    ∃ pre, s.inp = pre ++ s'.inp ∧ pEncode F t c v = some pre := by
  obtain ⟨pre, e, _, hh⟩ := pcw_decode L F t c vd s v s' hb h
  exact ⟨pre, e, hh hc⟩

/-- P8: hence two accepted inputs with the same value and the same rest are equal -/
theorem canonical_unique (L : Limits) (F : FCfg) (t : PTy) (c : Compress) (vd vd' : Validate)
    (bs bs' rest : List Nat) (e e' evs evs' : List Ev) (v : Val) (hc : pCanonical t = true)
    (hb : ∀ b ∈ bs, b < 256) (hb' : ∀ b ∈ bs', b < 256)
    (h : pDecode L F t c vd ⟨bs, e⟩ = .ok v ⟨rest, evs⟩)
    (h' : pDecode L F t c vd' ⟨bs', e'⟩ = .ok v ⟨rest, evs'⟩) : bs = bs' := by
  obtain ⟨pre, e1, h1⟩ := canonical_reencode L F t c vd _ _ v hc hb h
  obtain ⟨pre', e2, h2⟩ := canonical_reencode L F t c vd' _ _ v hc hb' h'
  simp only at e1 e2
  rw [h1] at h2
  cases h2
  rw [e1, e2]

/-- P8: every returned value is a value of the type -/
theorem decoded_well_typed (L : Limits) (F : FCfg) (t : PTy) (c : Compress) (vd : Validate) (s s' : St)
    (v : Val) (hb : ∀ b ∈ s.inp, b < 256) (h : pDecode L F t c vd s = .ok v s') :
    (pEncode F t c v).isSome = true := by
  obtain ⟨pre, _, hw, _⟩ := pcw_decode L F t c vd s v s' hb h
  exact hw

example : pCanonical tyDense = true ∧ pCanonical tySparse = true ∧ pCanonical tyEvals = true ∧
    pCanonical tyMle = false ∧ (∀ b ∈ bytesEvals ++ [77], b < 256) := by decide +kernel
example : (pDecode Lx F2 tyEvals .yes .yes ⟨bytesEvals ++ [77], []⟩).value.map
      (fun v => pEncode F2 tyEvals .yes v) = some (some bytesEvals) ∧
    (pDecode Lx F2 tyEvals .yes .yes ⟨bytesEvals ++ [77], []⟩).st.inp = [77] := by decide +kernel
/-- a map given out of order with a repeated key is accepted and re-encodes sorted (not canonical) -/
example : ((pDecode Lx F13 (.map (.old (.int .u8)) .fp) .yes .yes
      ⟨[3, 0, 0, 0, 0, 0, 0, 0, 9, 1, 4, 2, 9, 3], []⟩).value.map
      (fun v => pEncode F13 (.map (.old (.int .u8)) .fp) .yes v)) =
    some (some [2, 0, 0, 0, 0, 0, 0, 0, 4, 2, 9, 3]) := by decide +kernel

/-! ## P9 -/

/-- P9: the unread rest is a suffix of the input (on success and on failure) -/
theorem rest_is_suffix (L : Limits) (F : FCfg) (t : PTy) (c : Compress) (vd : Validate) (s : St) :
    ∃ pre, s.inp = pre ++ (pDecode L F t c vd s).st.inp :=
  (safe_pDecode L F t c vd s).1.suf

/-- P9: events are only appended -/
theorem events_appended (L : Limits) (F : FCfg) (t : PTy) (c : Compress) (vd : Validate) (s : St) :
    ∃ evs, (pDecode L F t c vd s).st.evs = s.evs ++ evs :=
  let ⟨evs, h, _⟩ := (safe_pDecode L F t c vd s).1.evs
  ⟨evs, h⟩

/-! ## P10 -/

/-- P10: the derive macro (with its syntactic flattening of tuple fields) is the tuple impl, and the
    embedded first universe is the model of C18 -/
theorem derive_eq_tuple (L : Limits) (F : FCfg) (fs : List PTy) (c : Compress) (vd : Validate) (vs : List Val) :
    pEncodeFields F fs c vs = pEncodeAll F fs c vs ∧ pDecodeFields L F fs c vd = pDecodeAll L F fs c vd ∧
    pSizeFields F fs c vs = pSizeAll F fs c vs ∧ pCheckFields fs vs = pCheckAll fs vs :=
  ⟨pEncodeFields_eq F fs c vs, pDecodeFields_eq L F fs c vd, pSizeFields_eq F fs c vs, pCheckFields_eq fs vs⟩

theorem old_is_c18 (L : Limits) (F : FCfg) (t : Ty) (c : Compress) (vd : Validate) (v : Val) :
    pEncode F (.old t) c v = encode t c v ∧ pSize F (.old t) c v = size t c v ∧
    pDecode L F (.old t) c vd = decode L t c vd ∧ pCheck (.old t) v = check t v :=
  ⟨pEncode_old F t c v, pSize_old F t c v, pDecode_old L F t c vd, pCheck_old t v⟩

example : pEncodeFields F13 [.tup [.old (.int .u16), .fp], .opt .fp] .no [.seq [.int 513, .int 12], .some (.int 7)]
    = some [1, 2, 12, 1, 7] := by decide +kernel

/-! ## P11 -/

/-- P11: a writer that accepts `k` bytes and then fails has received the first `min k len` bytes of
    the encoding, and `serialize_with_mode` returned `Err(IoError)` iff `k < len` -/
theorem encode_into (k : Nat) (bs : List Nat) :
    encodeInto k bs = (bs.take k, decide (k < bs.length)) := rfl

theorem encode_into_length (k : Nat) (bs : List Nat) : (encodeInto k bs).1.length = min k bs.length :=
  encodeInto_length k bs

theorem encode_into_ok_iff (k : Nat) (bs : List Nat) : (encodeInto k bs).2 = false ↔ (encodeInto k bs).1 = bs :=
  encodeInto_ok_iff k bs

theorem encode_into_prefix (k : Nat) (bs : List Nat) :
    ∃ rest, bs = (encodeInto k bs).1 ++ rest ∧ ((encodeInto k bs).2 = true ↔ rest ≠ []) :=
  encodeInto_prefix k bs

/-- P11 + P4: what a failing writer received is refused by the reader with `IoError` -/
theorem encode_into_then_decode (L : Limits) (F : FCfg) (t : PTy) (c : Compress) (vd : Validate) (v : Val)
    (bs : List Nat) (he : pEncode F t c v = some bs) (hf : pFits L t v = true) (hc : pCheck t v = true)
    (hd : pDeep t v = true) (k : Nat) (hk : (encodeInto k bs).2 = true)
    (hm : 512 * bs.length ≤ L.mem) :
    ∃ s', pDecode L F t c vd ⟨(encodeInto k bs).1, []⟩ = .fail (.err .io) s' := by
  obtain ⟨rest, e, hr⟩ := encode_into_prefix k bs
  exact truncation L F t c vd v bs he hf hc hd _ rest e (hr.1 hk) [] (by simpa using hm)

example : encodeInto 3 bytesMle = ([2, 0, 0], true) ∧ encodeInto 38 bytesMle = (bytesMle, false) ∧
    encodeInto 0 bytesMle = ([], true) ∧ encodeInto 5 [] = ([], false) := by decide +kernel

/-! ## P12 -/

/-- P12 (NEGATIVE — the recorded library weakness): the derived deserialiser looks at no invariant of
    the type.  The ten bytes `len = 2, 1, 0` are accepted as a `DensePolynomial` under
    `Compress::Yes, Validate::Yes` with coefficient list `[1, 0]`: a trailing zero coefficient, which
    violates the canonical-form invariant every constructor of the type maintains (`degree()` then
    answers 1 for the constant polynomial 1). -/
theorem dense_trailing_zero_accepted :
    pDecode Lx F13 tyDense .yes .yes ⟨[2, 0, 0, 0, 0, 0, 0, 0, 1, 0], []⟩ =
      .ok (.seq [.seq [.int 1, .int 0]]) ⟨[], [⟨2, 8, 2⟩]⟩ := by
  rfl

/-- the same fact through the decidable observers (kernel evaluation) -/
example : (pDecode Lx F13 tyDense .yes .yes ⟨[2, 0, 0, 0, 0, 0, 0, 0, 1, 0], []⟩).failure = none ∧
    (pDecode Lx F13 tyDense .yes .yes ⟨[2, 0, 0, 0, 0, 0, 0, 0, 1, 0], []⟩).value.map
      (Val.eqb (.seq [.seq [.int 1, .int 0]])) = some true ∧
    (pDecode Lx F13 tyDense .yes .yes ⟨[2, 0, 0, 0, 0, 0, 0, 0, 1, 0], []⟩).st.inp = [] := by
  decide +kernel

/-- the canonical encoding of the same polynomial (the constant 1) is a different byte string: two
    byte strings are accepted for one polynomial -/
example : pEncode F13 tyDense .yes (.seq [.seq [.int 1]]) = some [1, 0, 0, 0, 0, 0, 0, 0, 1] := by
  decide +kernel

/-- … and `check()` (derived: `check` of every field) accepts that value -/
theorem dense_trailing_zero_checked : pCheck tyDense (.seq [.seq [.int 1, .int 0]]) = true := by
  decide +kernel

end Ark.C18b
