import Ark.Proofs.MontD
/-
  Property C01 (part D) — field inversion of the Montgomery prime-field backend
  (`Ark.Model.Mont.inverse`, model of `MontConfig::inverse` in
  ff/src/fields/models/fp/montgomery_backend.rs: the binary extended Euclidean algorithm,
  Algorithm 16 of Guajardo–Kumar–Paar–Pelzl).

  Every theorem holds for every configuration `c` consistent with an odd modulus `pv > 1`
  (`CfgOK c pv`): every limb count and both `c.spare = true` and `c.spare = false`.
  Totality needs `gcd(a, pv) = 1`, which holds for every non-zero element when `pv` is prime.
  `R = B ^ c.n = 2^(64N)` is the Montgomery radix; an element `a` denotes `a·R⁻¹ mod p`, so the
  Montgomery form `r` of the inverse satisfies `r·a ≡ R² (mod p)`.
  Helper lemmas are in Ark/Proofs/MontD.lean.
-/
namespace Ark.C01
open Ark Ark.Mont

/-! ### concrete configurations / elements used for the non-vacuity examples -/

example : CfgOK (mkCfg true 1 13) 13 := by
  constructor <;> first | decide +kernel | exact toLimbs_wf _ _
example : CfgOK (mkCfg false 1 (2 ^ 64 - 59)) (2 ^ 64 - 59) := by
  constructor <;> first | decide +kernel | exact toLimbs_wf _ _
example : CfgOK (mkCfg false 2 (2 ^ 128 - 159)) (2 ^ 128 - 159) := by
  constructor <;> first | decide +kernel | exact toLimbs_wf _ _
example : Elem (mkCfg true 1 13) 13 [5] ∧ Elem (mkCfg true 1 13) 13 [8] :=
  ⟨⟨by decide +kernel, by unfold WF; decide +kernel, by decide +kernel⟩,
   ⟨by decide +kernel, by unfold WF; decide +kernel, by decide +kernel⟩⟩
example : Elem (mkCfg false 1 (2 ^ 64 - 59)) (2 ^ 64 - 59) [5] ∧
    Elem (mkCfg false 1 (2 ^ 64 - 59)) (2 ^ 64 - 59) [2 ^ 64 - 60] :=
  ⟨⟨by decide +kernel, by unfold WF; decide +kernel, by decide +kernel⟩,
   ⟨by decide +kernel, by unfold WF; decide +kernel, by decide +kernel⟩⟩
example : Nat.Coprime (value [5]) 13 ∧ Nat.Coprime (value [5]) (2 ^ 64 - 59) ∧ value [5] ≠ 0 := by
  decide +kernel
example : Nat.Prime 13 := by decide +kernel

/-! ### 1. halveMod: multiplication by `2⁻¹ mod p` -/

/-- `halveMod b` is the canonical element `b·2⁻¹ mod p`, in both branches: `b` even (shift),
    `b` odd (`(b + p) / 2`, where without spare bit the carry of `b + p` is restored as the
    top bit after the shift; with spare bit no carry can occur). -/
theorem halve_mod_exact {c : MontCfg} {pv : Nat} (h : CfgOK c pv) (b : List Nat)
    (hb : Elem c pv b) :
    Elem c pv (halveMod c b) ∧ (2 * value (halveMod c b)) % pv = value b :=
  halveMod_spec h b hb

example : halveMod (mkCfg true 1 13) [8] = [4] ∧ halveMod (mkCfg true 1 13) [5] = [9] := by
  decide +kernel
/-- no spare bit: `(p-1) + p` carries out of `2^64`; the lost bit comes back through `orTop` -/
example : halveMod (mkCfg false 1 (2 ^ 64 - 59)) [2 ^ 64 - 61] = [2 ^ 64 - 60] ∧
    (addC [2 ^ 64 - 61] (mkCfg false 1 (2 ^ 64 - 59)).p 0).2 = 1 ∧
    halveMod (mkCfg false 1 (2 ^ 64 - 59)) [5] = [2 ^ 63 - 27] := by decide +kernel

/-! ### 2. the inner `while u.is_even()` loop -/

/-- on `u`: the result is an `N`-limb divisor of `u`; if `0 < u` the fuel `64·N + 1` is enough to
    leave the loop with an odd value, and an even `u` is at least halved -/
theorem even_loop_value (c : MontCfg) (u b : List Nat) (hu : Limbs c u) :
    Limbs c (evenLoop c (64 * c.n + 1) u b).1 ∧
    value (evenLoop c (64 * c.n + 1) u b).1 ∣ value u ∧
    (0 < value u →
      value (evenLoop c (64 * c.n + 1) u b).1 % 2 = 1 ∧
      (value u % 2 = 0 → 2 * value (evenLoop c (64 * c.n + 1) u b).1 ≤ value u)) := by
  obtain ⟨h1, h2, h3⟩ := evenLoop_fst c (64 * c.n + 1) u b hu
  exact ⟨h1, h2, fun h0 => h3 h0 (limbs_lt_fuel hu)⟩

/-- on the cofactor: any congruence `b·X ≡ u·Y (mod p)` survives the loop
    (each halving of `u` is matched by `halveMod` on `b`; 2 is invertible mod the odd `p`) -/
theorem even_loop_cofactor {c : MontCfg} {pv : Nat} (h : CfgOK c pv) (X Y fuel : Nat)
    (u b : List Nat) (hu : Limbs c u) (hb : Elem c pv b)
    (hcg : value b * X ≡ value u * Y [MOD pv]) :
    Elem c pv (evenLoop c fuel u b).2 ∧
    value (evenLoop c fuel u b).2 * X ≡ value (evenLoop c fuel u b).1 * Y [MOD pv] :=
  evenLoop_snd h X Y fuel u b hu hb hcg

example : evenLoop (mkCfg true 1 13) 65 [12] [7] = ([3], [5]) := by decide +kernel
example : Limbs (mkCfg true 1 13) [12] ∧ Elem (mkCfg true 1 13) 13 [7] ∧ 0 < value [12] ∧
    value [7] * 2 ≡ value [12] * 12 [MOD 13] :=
  ⟨⟨by decide +kernel, by unfold WF; decide +kernel⟩,
   ⟨by decide +kernel, by unfold WF; decide +kernel, by decide +kernel⟩, by decide +kernel,
   by decide +kernel⟩

/-! ### 3. isOne and the subtraction step -/

theorem is_one_iff (a : List Nat) (ha : WF a) : isOne a = true ↔ value a = 1 :=
  isOne_iff a ha

example : isOne [1, 0] = true ∧ isOne [1, 1] = false ∧ isOne [2, 0] = false ∧ isOne [0, 0] = false := by
  decide +kernel

/-- `u ← u - v`, `b ← b - cc` (for `v ≤ u`): exact on the integers, and the congruence
    `b·A ≡ u·Y (mod p)` is preserved -/
theorem inverse_sub_step {c : MontCfg} {pv : Nat} (h : CfgOK c pv) (A Y : Nat)
    (u v b cc : List Nat)
    (hu : Limbs c u) (hv : Limbs c v) (hb : Elem c pv b) (hc : Elem c pv cc)
    (cb : value b * A ≡ value u * Y [MOD pv]) (cv : value cc * A ≡ value v * Y [MOD pv])
    (hle : value v ≤ value u) :
    Limbs c (subB u v 0).1 ∧ value (subB u v 0).1 = value u - value v ∧
    Elem c pv (Mont.sub c b cc) ∧
    value (Mont.sub c b cc) * A ≡ value (subB u v 0).1 * Y [MOD pv] :=
  sub_step h A Y u v b cc hu hv hb hc cb cv hle

/-! ### 4. the outer loop -/

/-- the invariant `LoopInv` (`u`, `v` `N`-limb integers; `b`, `cc` elements with
    `b·A ≡ u·Y`, `cc·A ≡ v·Y (mod p)`) holds initially for `(a, p, R2, 0)` with
    `A = a`, `Y = R²` -/
theorem inverse_invariant_initial {c : MontCfg} {pv : Nat} (h : CfgOK c pv) (a : List Nat)
    (ha : Elem c pv a) :
    LoopInv c pv (value a) (B ^ c.n * B ^ c.n) a c.p c.r2 (zeros c.n) := by
  obtain ⟨z1, z2⟩ := zeros_elem h
  refine ⟨ha.limbs, h.p_limbs, ⟨h.r2_len, h.r2_wf, ?_⟩, z1, ?_, ?_⟩
  · rw [h.r2_val]; exact Nat.mod_lt _ (by have := h.p_gt; omega)
  · rw [h.r2_val, Nat.mul_comm (value a)]
    exact (Nat.mod_modEq _ _).mul_right _
  · rw [z2, h.p_val, Nat.zero_mul]
    unfold Nat.ModEq
    rw [Nat.mul_mod_right, Nat.zero_mod]

/-- partial correctness of the outer loop, for any fuel: a returned value is a field element
    `r` with `r·A ≡ Y (mod p)` -/
theorem inverse_loop_sound {c : MontCfg} {pv : Nat} (h : CfgOK c pv) (A Y fuel : Nat)
    (u v b cc : List Nat) (I : LoopInv c pv A Y u v b cc) (r : List Nat)
    (hr : inverseLoop c fuel u v b cc = some r) :
    Elem c pv r ∧ value r * A ≡ Y [MOD pv] :=
  inverseLoop_sound h A Y fuel u v b cc I r hr

/-- termination: from `0 < u`, `gcd(u, v) = 1` and `u·v < 2^f` the loop answers within
    `f + 1` rounds (after the even loops both numbers are odd, so their difference is even and
    is halved in the next round: the product of the odd parts at least halves per round) -/
theorem inverse_loop_terminates (c : MontCfg) (f : Nat) (u v b cc : List Nat)
    (hu : Limbs c u) (hv : Limbs c v) (h0 : 0 < value u)
    (hco : Nat.Coprime (value u) (value v)) (hm : value u * value v < 2 ^ f) :
    ∃ r, inverseLoop c (f + 1) u v b cc = some r :=
  inverseLoop_total c f u v b cc hu hv h0 hco (Or.inr hm)

/-! ### 5. inverse -/

/-- zero has no inverse -/
theorem inverse_zero {c : MontCfg} (a : List Nat) (h0 : value a = 0) :
    Mont.inverse c a = none :=
  Mont.inverse_zero c a h0

/-- partial correctness (needs neither primality nor coprimality): whatever `inverse` returns is
    the canonical element `r` with `r·a ≡ R² (mod p)` -/
theorem inverse_sound {c : MontCfg} {pv : Nat} (h : CfgOK c pv) (a : List Nat)
    (ha : Elem c pv a) (r : List Nat) (hr : Mont.inverse c a = some r) :
    Elem c pv r ∧ (value r * value a) % pv = (B ^ c.n * B ^ c.n) % pv :=
  inverse_sound_spec h a ha r hr

/-- total correctness for elements coprime to the modulus: the fuel `128·N + 2` of the model is
    never exhausted, and the result is the Montgomery form of `a⁻¹` -/
theorem inverse_correct_coprime {c : MontCfg} {pv : Nat} (h : CfgOK c pv) (a : List Nat)
    (ha : Elem c pv a) (hco : Nat.Coprime (value a) pv) (hne : value a ≠ 0) :
    ∃ r, Mont.inverse c a = some r ∧ Elem c pv r ∧
      (value r * value a) % pv = (B ^ c.n * B ^ c.n) % pv :=
  inverse_spec h a ha hco hne

/-- **inverse is correct** for every prime modulus: a non-zero element has the inverse `r`
    (a canonical element, `r·a ≡ R² (mod p)`), and zero gives `none` -/
theorem inverse_correct {c : MontCfg} {pv : Nat} (h : CfgOK c pv) (hp : Nat.Prime pv)
    (a : List Nat) (ha : Elem c pv a) :
    (value a ≠ 0 → ∃ r, Mont.inverse c a = some r ∧ Elem c pv r ∧
      (value r * value a) % pv = (B ^ c.n * B ^ c.n) % pv) ∧
    (value a = 0 → Mont.inverse c a = none) :=
  ⟨fun hne => inverse_spec h a ha (coprime_of_prime hp hne ha.lt) hne,
   fun h0 => Mont.inverse_zero c a h0⟩

/-- `inverse` answers `none` exactly on zero -/
theorem inverse_none_iff {c : MontCfg} {pv : Nat} (h : CfgOK c pv) (hp : Nat.Prime pv)
    (a : List Nat) (ha : Elem c pv a) : Mont.inverse c a = none ↔ value a = 0 := by
  constructor
  · intro hn
    by_contra hne
    obtain ⟨r, hr, _⟩ := (inverse_correct h hp a ha).1 hne
    rw [hn] at hr; exact absurd hr (by simp)
  · exact (inverse_correct h hp a ha).2

/-- the inverse really is an inverse once both sides are taken out of Montgomery form:
    with `a = a'·R` and `r = r'·R (mod p)` one gets `r'·a' ≡ 1 (mod p)` -/
theorem inverse_mul_one {c : MontCfg} {pv : Nat} (h : CfgOK c pv) (a r : List Nat)
    (ha : Elem c pv a) (hr : Mont.inverse c a = some r) (a' r' : Nat)
    (ea : value a ≡ a' * B ^ c.n [MOD pv]) (er : value r ≡ r' * B ^ c.n [MOD pv])
    (hR : Nat.Coprime pv (B ^ c.n)) :
    r' * a' ≡ 1 [MOD pv] := by
  have hs : value r * value a ≡ B ^ c.n * B ^ c.n [MOD pv] := (inverse_sound h a ha r hr).2
  have h1 : (r' * B ^ c.n) * (a' * B ^ c.n) ≡ B ^ c.n * B ^ c.n [MOD pv] :=
    ((er.mul ea).symm).trans hs
  have e : (r' * B ^ c.n) * (a' * B ^ c.n) = (B ^ c.n * B ^ c.n) * (r' * a') := by
    simp only [Nat.mul_comm, Nat.mul_left_comm, Nat.mul_assoc]
  rw [e] at h1
  have h2 : B ^ c.n * B ^ c.n * (r' * a') ≡ B ^ c.n * B ^ c.n * 1 [MOD pv] := by
    rw [Nat.mul_one]; exact h1
  exact Nat.ModEq.cancel_left_of_coprime (Nat.Coprime.mul_right hR hR) h2

/-! non-vacuity: concrete inverses (R² mod 13 = 9, 7·5 = 35 ≡ 9) -/
example : Mont.inverse (mkCfg true 1 13) [5] = some [7] ∧
    (value [7] * value [5]) % 13 = (B ^ 1 * B ^ 1) % 13 := by decide +kernel
example : Mont.inverse (mkCfg true 1 13) [0] = none := by decide +kernel
/-- no spare bit (`p = 2^64 - 59`, `R² mod p = 3481`) -/
example : Mont.inverse (mkCfg false 1 (2 ^ 64 - 59)) [5] = some [7378697629483821319] ∧
    (7378697629483821319 * 5) % (2 ^ 64 - 59) = (B ^ 1 * B ^ 1) % (2 ^ 64 - 59) := by
  decide +kernel
/-- two limbs without spare bit (`p = 2^128 - 159`), `a = 2^100 + 7` -/
example : Mont.inverse (mkCfg false 2 (2 ^ 128 - 159)) [7, 68719476736]
    = some [16761804798576034771, 8307200884529896666] := by decide +kernel
/-- the hypotheses of `inverse_mul_one` are satisfiable: `a' = 6` (`6·R = 6·3 ≡ 5`),
    `r' = 11` (`11·3 ≡ 7`), and indeed `11·6 = 66 ≡ 1 (mod 13)` -/
example : value [5] ≡ 6 * B ^ 1 [MOD 13] ∧ value [7] ≡ 11 * B ^ 1 [MOD 13] ∧
    Nat.Coprime 13 (B ^ 1) := by decide +kernel

end Ark.C01
