import Ark.Proofs.FftA
/-
  Property C07 (part A) — the radix-2 FFT of `Ark.Model.Fft` (model of
  poly/src/domain/{mod.rs, radix2/mod.rs, radix2/fft.rs, utils.rs}) computes polynomial
  evaluation on the domain, and the inverse transform inverts it.

  Spec function (Horner):  `eval c x = c.foldr (fun a acc => a + x * acc) 0 = Σ_j c_j x^j`.
  `brev k a` is bit reversal on `k` bits; the model's `bitrev a k` (64-bit reverse then shift) equals
  it for `k ≤ 64`, `a < 2^k` — the only hypothesis tied to the 64-bit `usize` of the Rust code.
  A radix-2 domain has `size = 2^k`; the root hypothesis `groupGen^(size/2) = −1` is what
  `get_root_of_unity` guarantees (part B proves it from the domain constructor).

  Only property theorems and non-vacuity examples live here; helper lemmas are in
  Ark/Proofs/FftA.lean (namespace `Ark.Fft.A`).
-/
namespace Ark.C07
open Ark Ark.Fft Ark.Fft.A

/-! ### concrete inputs for the non-vacuity examples: `ZMod 17`, `4` has order 4, `2` has order 8 -/

/-- size-4 domain over `ZMod 17` (trivial offset) -/
def d4 : Domain (ZMod 17) :=
  { size := 4, logSizeOfGroup := 2, sizeAsFieldElement := 4, sizeInv := 13, groupGen := 4,
    groupGenInv := 13, offset := 1, offsetInv := 1, offsetPowSize := 1 }

/-- size-8 coset domain over `ZMod 17` with offset `3` -/
def d8 : Domain (ZMod 17) :=
  { size := 8, logSizeOfGroup := 3, sizeAsFieldElement := 8, sizeInv := 15, groupGen := 2,
    groupGenInv := 9, offset := 3, offsetInv := 6, offsetPowSize := 16 }

/-- size-16 domain over `ZMod 17` (`3` is a primitive root mod 17): exercises the degree-aware path
    with a non-trivial duplication factor -/
def d16 : Domain (ZMod 17) :=
  { size := 16, logSizeOfGroup := 4, sizeAsFieldElement := 16, sizeInv := 16, groupGen := 3,
    groupGenInv := 6, offset := 1, offsetInv := 1, offsetPowSize := 1 }

/-- size-256 domain over `ZMod 257` (`3` is a primitive root mod 257): in the last `io` pass and the
    first `oi` pass there are 128 chunks, so the root-compaction branches are exercised -/
def d256 : Domain (ZMod 257) :=
  { size := 256, logSizeOfGroup := 8, sizeAsFieldElement := 256, sizeInv := 256, groupGen := 3,
    groupGenInv := 86, offset := 1, offsetInv := 1, offsetPowSize := 1 }

def xs256 : List (ZMod 257) := (List.range 256).map (fun i => ((i * i + 1 : Nat) : ZMod 257))

section Ring
variable {F : Type} [CommRing F]

/-! ### 0. the spec function -/

theorem eval_def (c : List F) (x : F) : eval c x = c.foldr (fun a acc => a + x * acc) 0 := rfl

/-- `eval` is `Σ_j c_j x^j` -/
theorem eval_is_sum (n : Nat) (c : Nat → F) (y : F) :
    eval ((List.range n).map c) y = ∑ i ∈ Finset.range n, c i * y ^ i := eval_eq_sum n c y

theorem eval_append_exact (lo hi : List F) (x : F) :
    eval (lo ++ hi) x = eval lo x + x ^ lo.length * eval hi x := eval_append lo hi x

example : eval ([1, 2, 3] : List (ZMod 17)) 2 = 0 := by decide

/-! ### 1. powers, strides, coset scaling -/

/-- `compute_powers_serial(n, ω) = [1, ω, …, ω^(n−1)]` -/
theorem compute_powers_serial_exact (n : Nat) (w : F) :
    computePowersSerial n w = (List.range n).map (fun i => w ^ i) := computePowersSerial_eq n w

/-- `compute_powers_and_mul_by_const_serial(n, ω, c) = [c, cω, …]` -/
theorem compute_powers_and_mul_by_const_exact (n : Nat) (r v : F) :
    computePowersAndMulByConstSerial n r v = (List.range n).map (fun i => v * r ^ i) := cpamc_eq n r v

/-- `step_by(s)` on a power table is the power table of `ω^s`, of length `⌈n/s⌉` -/
theorem step_by_powers (s : Nat) (hs : 0 < s) (n : Nat) (w : F) :
    stepBy s (computePowersSerial n w) = computePowersSerial ((n + s - 1) / s) (w ^ s) :=
  stepBy_computePowersSerial s hs n w

example : stepBy 2 (computePowersSerial 5 (3 : ZMod 17)) = computePowersSerial 3 (3 ^ 2) := by decide

/-- `distribute_powers_and_mul_by_const(c, g, k)[i] = c[i]·k·g^i` -/
theorem distribute_powers_and_mul_by_const_exact (c : List F) (g k : F) :
    distributePowersAndMulByConst c g k = c.zipIdx.map (fun xi => xi.1 * k * g ^ xi.2) :=
  distributePowersAndMulByConst_eq c g k

/-- coset = scaling: `distribute_powers(c, h)` is the polynomial `y ↦ c(h·y)` -/
theorem distribute_powers_is_scaling (c : List F) (h y : F) :
    eval (distributePowers c h) y = eval c (h * y) := eval_distributePowers c h y

theorem distribute_powers_and_mul_by_const_eval (c : List F) (g k y : F) :
    eval (distributePowersAndMulByConst c g k) y = k * eval c (g * y) := eval_dpamc c g k y

example : distributePowers ([1, 2, 3] : List (ZMod 17)) 3 = [1, 6, 10] := by decide

/-- `elements()` lists `offset·groupGen^i` for `i < size`, in this order -/
theorem elements_exact (d : Domain F) :
    elements d = (List.range d.size).map (fun i => d.offset * d.groupGen ^ i) := elements_eq d

example : elements d8 = [3, 6, 12, 7, 14, 11, 5, 10] := by decide

/-! ### 2. butterflies: the DIF step and its DIT dual -/

/-- DIF step: after the butterflies with the roots `1, ω, …, ω^(m−1)` (`ω^m = −1`) the low half
    carries the values at the even powers of `ω`, the high half those at the odd powers -/
theorem dif_step_io (lo hi : List F) (w : F) (m : Nat) (hlo : lo.length = m) (hhi : hi.length = m)
    (hw : w ^ m = -1) (k : Nat) :
    eval (lo ++ hi) ((w ^ 2) ^ k)
        = eval (zipButterfly butterflyIO lo hi (computePowersSerial m w)).1 ((w ^ 2) ^ k) ∧
    eval (lo ++ hi) (w * (w ^ 2) ^ k)
        = eval (zipButterfly butterflyIO lo hi (computePowersSerial m w)).2 ((w ^ 2) ^ k) :=
  dif_step lo hi w m hlo hhi hw k

example : ((2 : ZMod 17) ^ 4 = -1) ∧
    zipButterfly butterflyIO [1, 2, 3, 4] [5, 6, 7, 8] (computePowersSerial 4 (2 : ZMod 17))
      = ([6, 8, 10, 12], [13, 9, 1, 2]) := by decide

/-- DIT step (the dual, `butterfly_fn_oi`): from the transforms of the even- and odd-indexed
    coefficients (w.r.t. `ω²`) to the transform of the whole sequence (w.r.t. `ω`, `ω^m = −1`):
    low half = values at `ω^t`, high half = values at `ω^(m+t)`, `t < m` -/
theorem dit_step_oi (c : Nat → F) (m : Nat) (w : F) (hw : w ^ m = -1) :
    zipButterfly butterflyOI
        ((List.range m).map (fun t => eval ((List.range m).map (fun u => c (2 * u))) ((w ^ 2) ^ t)))
        ((List.range m).map (fun t => eval ((List.range m).map (fun u => c (2 * u + 1))) ((w ^ 2) ^ t)))
        (computePowersSerial m w)
      = ((List.range m).map (fun t => eval ((List.range (2 * m)).map c) (w ^ t)),
         (List.range m).map (fun t => eval ((List.range (2 * m)).map c) (w ^ (m + t)))) :=
  dit_step c m w hw

/-! ### 3. chunking and root compaction -/

omit [CommRing F] in
/-- `chunks_mut(cs).for_each(f)` peels off one chunk per step -/
theorem map_chunks_step (f : List F → List F) (cs fuel : Nat) (a b : List F)
    (ha : a.length = cs) (hcs : 0 < cs) :
    mapChunks f cs (fuel + 1) (a ++ b) = f a ++ mapChunks f cs fuel b :=
  mapChunks_append f cs fuel a b ha hcs

omit [CommRing F] in
/-- hence a pass acts chunk-wise -/
theorem map_chunks_flatten (f : List F → List F) (s : Nat) (hs : 0 < s) (cs : List (List F))
    (hcs : ∀ c ∈ cs, c.length = s) (fuel : Nat) (hf : cs.length ≤ fuel) :
    mapChunks f s fuel cs.flatten = (cs.map f).flatten := mapChunks_flatten f s hs cs hcs fuel hf

example : mapChunks (fun c => c.reverse) 2 3 ([1, 2, 3, 4, 5, 6] : List (ZMod 17)) = [2, 1, 4, 3, 6, 5] := by
  decide

/-- `io_helper`, pass number `l` (`numChunks = 2^l`, `gap = 2^j`, `size = 2^(l+j+1)`), whatever the
    history of the `roots`/`step`/`first` variables (`RootsInv`): in BOTH branches — compaction
    (`numChunks ≥ 128`: `roots ← roots.step_by(2·step)`, `step ← 1`) and no compaction
    (`step ← numChunks`) — the roots the butterflies read, `roots.step_by(step)`, are exactly
    `1, ζ, …, ζ^(gap−1)` with `ζ = root^numChunks`; and the invariant is re-established.
    Compaction is only a re-indexing. -/
theorem io_compaction_reindex (k l j : Nat) (h : l + j + 1 = k) (w : F) (roots : List F) (step : Nat)
    (first : Bool) (hR : RootsInv k w l roots step first) (rs : List F × Nat)
    (hrs : rs = if 2 ^ l ≥ MIN_NUM_CHUNKS_FOR_COMPACTION then
        ((if !first then stepBy (step * 2) roots else roots), 1) else (roots, 2 ^ l)) :
    stepBy rs.2 rs.1 = computePowersSerial (2 ^ j) (w ^ 2 ^ l) ∧
      RootsInv k w (l + 1) rs.1 rs.2 false :=
  io_roots_step k l j h w roots step first hR rs hrs

/-- the invariant holds on entry to `io_helper`'s loop (`roots = roots_of_unity`, `step = 1`,
    `first = true`) -/
theorem io_roots_init (k : Nat) (w : F) :
    RootsInv k w 0 (computePowersSerial (2 ^ (k - 1)) w) 1 true := Or.inl ⟨rfl, rfl, rfl, rfl⟩

/-- `oi_helper`, pass with `gap = 2^j` on a size-`2^k` array: the compacted slice
    `roots_cache.step_by(numChunks)[..gap]` (step 1) and the strided cache (step `numChunks`) are the
    same table `1, ζ, …, ζ^(gap−1)`, `ζ = root^numChunks` -/
theorem oi_compaction_reindex (k j : Nat) (hj : j < k) (w : F) (rs : List F × Nat)
    (hrs : rs = if 2 ^ (k - j - 1) ≥ MIN_NUM_CHUNKS_FOR_COMPACTION ∧ 2 ^ j < 2 ^ k / 2 then
        ((stepBy (2 ^ (k - j - 1)) (computePowersSerial (2 ^ (k - 1)) w)).take (2 ^ j), 1)
        else (computePowersSerial (2 ^ (k - 1)) w, 2 ^ (k - j - 1))) :
    stepBy rs.2 rs.1 = computePowersSerial (2 ^ j) (w ^ 2 ^ (k - j - 1)) :=
  oi_roots_step k j hj w rs hrs

/-- non-vacuity of the compaction branch: with `k = 9`, `l = 7` there are `128` chunks -/
example : (2 : Nat) ^ 7 ≥ MIN_NUM_CHUNKS_FOR_COMPACTION ∧ 7 + 1 + 1 = 9 := by decide

/-! ### 4. `io_helper`: in-order input, bit-reversed output -/

/-- `brOrder k` is the list `i ↦ bitrev i k`, `i < 2^k` (for `k ≤ 64`, the width of `u64`) -/
theorem brOrder_eq_bitrev (k : Nat) (hk : k ≤ 64) :
    brOrder k = (List.range (2 ^ k)).map (fun i => bitrev i k) := A.brOrder_eq_bitrev k hk

/-- the model's `bitrev` is bit reversal on `k` bits -/
theorem bitrev_exact (k a : Nat) (hk : k ≤ 64) (ha : a < 2 ^ k) : bitrev a k = brev k a :=
  bitrev_eq k a hk ha

theorem brev_involution (k a : Nat) (h : a < 2 ^ k) : brev k (brev k a) = a := brev_brev k a h

theorem brev_bound (k a : Nat) : brev k a < 2 ^ k := brev_lt k a

example : brOrder 3 = [0, 4, 2, 6, 1, 5, 3, 7] := by decide
example : (List.range 8).map (fun i => bitrev i 3) = [0, 4, 2, 6, 1, 5, 3, 7] := by decide

/-- `io_spec`: on an input of length `2^k = d.size` and a root with `ω^(2^(k−1)) = −1` the iterative
    DIF loop nest returns the values `xi(ω^i)` in bit-reversed order -/
theorem io_spec (d : Domain F) (xi : List F) (w : F) (k : Nat) (hd : d.size = 2 ^ k)
    (hx : xi.length = 2 ^ k) (hw : k = 0 ∨ w ^ 2 ^ (k - 1) = -1) :
    ioHelper d xi w = (brOrder k).map (fun i => eval xi (w ^ i)) := by
  rw [ioHelper_spec d xi w k hd hx hw, brOrder_eq_brU]

/-- indexed form: the value at `ω^i` is stored at position `bitrev i k` -/
theorem io_spec_index (d : Domain F) (xi : List F) (w : F) (k : Nat) (hk : k ≤ 64)
    (hd : d.size = 2 ^ k) (hx : xi.length = 2 ^ k) (hw : k = 0 ∨ w ^ 2 ^ (k - 1) = -1) (i : Nat)
    (hi : i < 2 ^ k) : (ioHelper d xi w)[bitrev i k]? = some (eval xi (w ^ i)) :=
  ioHelper_getElem d xi w k hk hd hx hw i hi

example : d8.size = 2 ^ 3 ∧ ([1, 2, 3, 4, 5, 6, 7, 8] : List (ZMod 17)).length = 2 ^ 3 ∧
    (2 : ZMod 17) ^ 2 ^ (3 - 1) = -1 ∧
    ioHelper d8 [1, 2, 3, 4, 5, 6, 7, 8] 2 = [2, 13, 14, 12, 8, 3, 6, 1] := by decide +kernel

/-! ### 5. `derange` -/

omit [CommRing F] in
/-- `derange(xs, k)[i] = xs[bitrev i]` -/
theorem derange_index (xs : List F) (k : Nat) (hk : k ≤ 64) (hx : xs.length = 2 ^ k) (i : Nat)
    (hi : i < 2 ^ k) : (derange xs k)[i]? = xs[bitrev i k]? := by
  rw [derange_getElem? xs k hk hx i hi, bitrev_eq k i hk hi]

omit [CommRing F] in
theorem derange_length (xs : List F) (k : Nat) (hk : k ≤ 64) (hx : xs.length = 2 ^ k) :
    (derange xs k).length = 2 ^ k := length_derange xs k hk hx

omit [CommRing F] in
/-- `derange` is an involution -/
theorem derange_involution (xs : List F) (k : Nat) (hk : k ≤ 64) (hx : xs.length = 2 ^ k) :
    derange (derange xs k) k = xs := derange_derange xs k hk hx

example : derange ([0, 1, 2, 3, 4, 5, 6, 7] : List (ZMod 17)) 3 = [0, 4, 2, 6, 1, 5, 3, 7] := by decide

/-! ### 6. `oi_helper`: bit-reversed input, in-order output -/

/-- the `oi` dual: on the bit-reversed input the iterative DIT loop nest (entered with gap 1)
    returns the values `xs(ω^i)` in order -/
theorem oi_spec (d : Domain F) (xs : List F) (k : Nat) (hk : k ≤ 64) (hd : d.size = 2 ^ k)
    (hx : xs.length = 2 ^ k) (w : F) (hw : k = 0 ∨ w ^ 2 ^ (k - 1) = -1) :
    oiHelper d (derange xs k) w 1 = (List.range (2 ^ k)).map (fun i => eval xs (w ^ i)) :=
  oiHelper_derange d xs k hk hd hx w hw

example : oiHelper d8 (derange [1, 2, 3, 4, 5, 6, 7, 8] 3) 2 1
    = (List.range 8).map (fun i => eval ([1, 2, 3, 4, 5, 6, 7, 8] : List (ZMod 17)) (2 ^ i)) := by
  decide +kernel

/-- the compaction branch of `oi_helper` is reached (128 chunks at gap 1); first values checked -/
example : xs256.length = 2 ^ 8 ∧ (3 : ZMod 257) ^ 2 ^ (8 - 1) = -1 ∧
    256 / (2 * 1) ≥ MIN_NUM_CHUNKS_FOR_COMPACTION ∧
    (oiHelper d256 (derange xs256 8) 3 1).take 4
      = (List.range 4).map (fun i => eval xs256 (3 ^ i)) := by
  set_option maxRecDepth 100000 in decide +kernel

end Ring

section Fwd
variable {F : Type} [CommRing F] [DecidableEq F]

/-! ### 7. the forward transform -/

/-- THE statement: on a radix-2 domain (`size = 2^k`, `groupGen^(size/2) = −1` or `size = 1`) the
    forward transform of a full-length coefficient vector returns the polynomial's values at the
    domain elements, in domain order.  (`k ≤ 64`: the `u64` bit reversal of `derange`.) -/
theorem in_order_fft_exact (d : Domain F) (xs : List F) (k : Nat) (hk : k ≤ 64) (hd : d.size = 2 ^ k)
    (hx : xs.length = d.size) (hg : d.size = 1 ∨ d.groupGen ^ (d.size / 2) = -1) :
    inOrderFft d xs = (elements d).map (eval xs) :=
  inOrderFft_spec d xs k hk hd hx (root_hyp k d.size hd d.groupGen hg)

example : d8.size = 2 ^ 3 ∧ ([1, 2, 3, 4, 5, 6, 7, 8] : List (ZMod 17)).length = d8.size ∧
    d8.groupGen ^ (d8.size / 2) = -1 ∧ d8.offset ≠ 1 ∧
    inOrderFft d8 [1, 2, 3, 4, 5, 6, 7, 8] = [5, 8, 8, 11, 0, 5, 13, 9] := by decide +kernel

example : d4.size = 2 ^ 2 ∧ d4.groupGen ^ (d4.size / 2) = -1 ∧
    inOrderFft d4 [1, 2, 3, 4] = (elements d4).map (eval [1, 2, 3, 4]) := by decide +kernel

/-- the compaction branch of `io_helper` is reached (128 chunks at gap 1); first values checked -/
example : d256.size = 2 ^ 8 ∧ xs256.length = d256.size ∧ d256.groupGen ^ (d256.size / 2) = -1 ∧
    256 / (2 * 1) ≥ MIN_NUM_CHUNKS_FOR_COMPACTION ∧
    (inOrderFft d256 xs256).take 4 = ((elements d256).take 4).map (eval xs256) := by
  set_option maxRecDepth 100000 in decide +kernel

/-! ### 8. the degree-aware path and `fft_in_place` -/

/-- below the threshold (`|c|·4 ≤ size`, the model's `DEGREE_AWARE_FFT_THRESHOLD_FACTOR`) the
    degree-aware path does not panic and returns what the full path returns on the zero-padded
    input — including the empty input -/
theorem degree_aware_eq_full (d : Domain F) (c : List F) (k : Nat) (hk : k ≤ 64) (hd : d.size = 2 ^ k)
    (hlog : d.logSizeOfGroup = k) (hthr : c.length * DEGREE_AWARE_FFT_THRESHOLD_FACTOR ≤ d.size)
    (hg : d.size = 1 ∨ d.groupGen ^ (d.size / 2) = -1) :
    degreeAwareFft d c = .ok (inOrderFft d (resize c d.size 0)) :=
  degreeAware_eq_full d c k hk hd hlog hthr (root_hyp k d.size hd d.groupGen hg)

/-- the degree-aware path is correct for every input not longer than the domain (not only below the
    threshold), as long as the padded length `2^⌈log₂|c|⌉` is representable -/
theorem degree_aware_exact (d : Domain F) (c : List F) (k : Nat) (hk : k ≤ 64) (hd : d.size = 2 ^ k)
    (hlog : d.logSizeOfGroup = k) (hc : c.length ≤ d.size) (h64 : log2 c.length < 64)
    (hg : d.size = 1 ∨ d.groupGen ^ (d.size / 2) = -1) :
    degreeAwareFft d c = .ok ((elements d).map (eval c)) :=
  degreeAwareFft_spec d c k hk hd hlog hc h64 (root_hyp k d.size hd d.groupGen hg)

example : d16.size = 2 ^ 4 ∧ d16.logSizeOfGroup = 4 ∧
    ([5, 7, 11] : List (ZMod 17)).length * DEGREE_AWARE_FFT_THRESHOLD_FACTOR ≤ d16.size ∧
    d16.groupGen ^ (d16.size / 2) = -1 ∧
    degreeAwareFft d16 [5, 7, 11] = .ok ((elements d16).map (eval [5, 7, 11])) := by decide +kernel

/-- the empty input -/
example : degreeAwareFft d16 [] = .ok (List.replicate 16 0) := by decide +kernel

/-- `fft_in_place` on an input not longer than the domain (both sides of the threshold): the values
    of the polynomial at the domain elements -/
theorem radix2_fft_exact (d : Domain F) (c : List F) (k : Nat) (hk : k ≤ 64) (hd : d.size = 2 ^ k)
    (hlog : d.logSizeOfGroup = k) (hc : c.length ≤ d.size)
    (hg : d.size = 1 ∨ d.groupGen ^ (d.size / 2) = -1) :
    radix2Fft d c = .ok ((elements d).map (eval c)) :=
  radix2Fft_spec d c k hk hd hlog hc (root_hyp k d.size hd d.groupGen hg)

example : radix2Fft d8 [1, 2] = .ok ((elements d8).map (eval [1, 2])) ∧
    radix2Fft d8 [1, 2, 3, 4, 5] = .ok ((elements d8).map (eval [1, 2, 3, 4, 5])) := by decide +kernel

/-- longer inputs are truncated to the domain size -/
theorem radix2_fft_long_truncates (d : Domain F) (c : List F) (hpos : 0 < d.size)
    (hc : d.size < c.length) : radix2Fft d c = radix2Fft d (c.take d.size) :=
  radix2Fft_long d c hpos hc

example : radix2Fft d4 [1, 2, 3, 4, 5, 6] = radix2Fft d4 [1, 2, 3, 4] := by decide +kernel

end Fwd

section Inverse
variable {F : Type} [Field F] [DecidableEq F]

/-! ### 1′. `Field::pow` and `element` -/

/-- the model's exponentiation (one `u64` limb, MSB-first square-and-multiply) -/
theorem pow_exact (a : F) (e : Nat) (he : e < 2 ^ 64) : pow a e = a ^ e := pow_eq a e he

/-- without the bound: the exponent is read modulo `2^64` -/
theorem pow_mod_exact (a : F) (e : Nat) : pow a e = a ^ (e % 2 ^ 64) := pow_eq_mod a e

/-- `element(i) = offset · groupGen^i` -/
theorem element_exact (d : Domain F) (i : Nat) (hi : i < 2 ^ 64) :
    element d i = d.offset * d.groupGen ^ i := element_eq d i hi

theorem elements_are_element (d : Domain F) (hs : d.size ≤ 2 ^ 64) :
    elements d = (List.range d.size).map (element d) := elements_eq_element d hs

/-! ### 9. the inverse transform -/

omit [DecidableEq F] in
/-- orthogonality: `Σ_{j<n} (g^m·g⁻ⁱ)^j = n·[m = i]` for a primitive `n`-th root `g` -/
theorem geom_sum_orthogonality (g gi : F) (n : Nat) (hg : IsPrimitiveRoot g n) (hgi : gi * g = 1)
    (m i : Nat) (hm : m < n) (hi : i < n) :
    ∑ j ∈ Finset.range n, (g ^ m * gi ^ i) ^ j = if m = i then (n : F) else 0 :=
  geom_orth g gi n hg hgi m i hm hi

omit [DecidableEq F] in
/-- a primitive `2^k`-th root satisfies the root hypothesis of the forward theorems -/
theorem primitive_root_half (g : F) (k : Nat) (hk : 0 < k) (hg : IsPrimitiveRoot g (2 ^ k)) :
    g ^ 2 ^ (k - 1) = -1 := neg_one_of_primitive g k hk hg

/-- the inverse transform returns the original (zero-padded) coefficients -/
theorem radix2_ifft_exact (d : Domain F) (c : List F) (k : Nat) (hk : k ≤ 64) (hd : d.size = 2 ^ k)
    (hprim : IsPrimitiveRoot d.groupGen d.size) (hsz : d.sizeInv * (d.size : F) = 1)
    (hgi : d.groupGenInv * d.groupGen = 1) (hoi : d.offsetInv * d.offset = 1)
    (hc : c.length ≤ d.size) :
    radix2Ifft d ((elements d).map (eval c)) = resize c d.size 0 :=
  radix2Ifft_spec d c k hk hd hprim hsz hgi hoi hc

/-- round trip `ifft ∘ fft` -/
theorem radix2_fft_ifft_round_trip (d : Domain F) (c : List F) (k : Nat) (hk : k ≤ 64)
    (hd : d.size = 2 ^ k) (hlog : d.logSizeOfGroup = k)
    (hprim : IsPrimitiveRoot d.groupGen d.size) (hsz : d.sizeInv * (d.size : F) = 1)
    (hgi : d.groupGenInv * d.groupGen = 1) (hoi : d.offsetInv * d.offset = 1)
    (hc : c.length ≤ d.size) :
    ∃ ys, radix2Fft d c = .ok ys ∧ radix2Ifft d ys = resize c d.size 0 := by
  refine ⟨(elements d).map (eval c), ?_, radix2Ifft_spec d c k hk hd hprim hsz hgi hoi hc⟩
  apply radix2Fft_spec d c k hk hd hlog hc
  rcases Nat.eq_zero_or_pos k with h0 | hpos
  · exact Or.inl h0
  · exact Or.inr (neg_one_of_primitive d.groupGen k hpos (hd ▸ hprim))

end Inverse

/-! ### non-vacuity of the inverse theorems over the field `ZMod 17` -/

section Examples17

local instance : Fact (Nat.Prime 17) := ⟨by decide⟩

theorem prim_2_8 : IsPrimitiveRoot (2 : ZMod 17) 8 := by
  refine IsPrimitiveRoot.mk_of_lt _ (by decide) (by decide) ?_
  intro l h0 h8
  interval_cases l <;> decide

example : d8.size = 2 ^ 3 ∧ IsPrimitiveRoot d8.groupGen d8.size ∧
    d8.sizeInv * (d8.size : ZMod 17) = 1 ∧ d8.groupGenInv * d8.groupGen = 1 ∧
    d8.offsetInv * d8.offset = 1 := ⟨rfl, prim_2_8, by decide, by decide, by decide⟩

example : radix2Ifft d8 ((elements d8).map (eval [1, 2, 3, 4, 5])) = [1, 2, 3, 4, 5, 0, 0, 0] := by
  decide +kernel

theorem prim_4_4 : IsPrimitiveRoot (4 : ZMod 17) 4 := by
  refine IsPrimitiveRoot.mk_of_lt _ (by decide) (by decide) ?_
  intro l h0 h4
  interval_cases l <;> decide

example : d4.size = 2 ^ 2 ∧ IsPrimitiveRoot d4.groupGen d4.size ∧
    d4.sizeInv * (d4.size : ZMod 17) = 1 ∧ d4.groupGenInv * d4.groupGen = 1 ∧
    d4.offsetInv * d4.offset = 1 := ⟨rfl, prim_4_4, by decide, by decide, by decide⟩

example : radix2Ifft d4 ((elements d4).map (eval [7, 5])) = [7, 5, 0, 0] := by decide +kernel

example : pow (3 : ZMod 17) 5 = 5 ∧ element d8 3 = 7 := by decide

end Examples17

end Ark.C07
