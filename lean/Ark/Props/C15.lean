import Ark.Proofs.Limbs
/-
  Property C15 — fixed-width big integers are integers modulo 2^(64N) with exact
  carry flags.  Theorems about `Ark.Model.Limbs` (the model of
  ff/src/biginteger/{mod,arithmetic}.rs), for every limb count and all operands.
  Only property theorems live here; helper lemmas are in Ark/Proofs.
-/
namespace Ark.C15
open Ark

/-- `add_with_carry`: for every `N`, the returned limbs and carry flag satisfy
    `result + 2^(64N)·carry = a + b`, the result is well-formed and `carry ∈ {0,1}` —
    i.e. result = (a + b) mod 2^(64N) and the flag is exactly the lost carry. -/
theorem add_with_carry_exact (a b : List Nat) (h : a.length = b.length) (ha : WF a) (hb : WF b) :
    let r := addC a b 0
    value r.1 + B ^ a.length * r.2 = value a + value b ∧ WF r.1 ∧ r.1.length = a.length ∧ r.2 ≤ 1 := by
  refine ⟨by simpa using addC_spec a b 0 h, addC_wf a b 0, addC_length a b 0 h, addC_carry_le a b 0 ha hb (by omega)⟩

theorem add_with_carry_mod (a b : List Nat) (h : a.length = b.length) (ha : WF a) (hb : WF b) :
    value (addC a b 0).1 = (value a + value b) % B ^ a.length ∧
    (addC a b 0).2 = (value a + value b) / B ^ a.length := by
  have ⟨h1, h2, h3, _⟩ := add_with_carry_exact a b h ha hb
  have hlt : value (addC a b 0).1 < B ^ a.length := by
    have := value_lt _ h2; rwa [h3] at this
  have hpos : 0 < B ^ a.length := Nat.pow_pos B_pos
  have h1 : value (addC a b 0).1 + B ^ a.length * (addC a b 0).2 = value a + value b := h1
  constructor
  · rw [← h1, Nat.add_mul_mod_self_left, Nat.mod_eq_of_lt hlt]
  · rw [← h1, Nat.add_mul_div_left _ _ hpos, Nat.div_eq_of_lt hlt, Nat.zero_add]

/-- non-vacuity: a concrete carry out of a two-limb addition -/
example : addC [B - 1, B - 1] [1, 0] 0 = ([0, 0], 1) := by decide +kernel

end Ark.C15
