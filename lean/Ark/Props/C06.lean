import Ark.Proofs.Pairing
/-
  Ark.Props.C06 — the algebraic skeleton of the pairing engines of `ark-ec`
  (`Ark.Model.Pairing`: BLS12, BN, BW6, MNT4/MNT6; model of `ec/src/pairing.rs`,
  `ec/src/models/{bls12,bn,bw6,mnt4,mnt6}`).

  Bilinearity of the pairing itself (Miller functions, divisors) is NOT stated here.  What is proved is
  everything that follows from the *shape* of the code once the target-field dictionary is lawful:

  * hypotheses (all in `Ark.PairingP`, `Ark/Proofs/Pairing.lean`):
      `SparseLawful S`       `mul_by_014 / mul_by_034` multiply by an element of the three coefficients
                             (`Ark.C02.fp12_mulBy014_eq_mul`, `fp6a_mulBy034_eq_mul`, …);
      `TargetLawful DT C`    on all of the field `T`: `square`, `inverse`, total multiplicative
                             Frobenius maps `frob k`, `cyclotomic_inverse = conj` (zero-guarded);
      `CycLawful L`          a submonoid `Cyc` (the cyclotomic subgroup) on which `conj = ⁻¹`,
                             `cyclotomic_square = x²`, `cyclotomic_exp = x ^ e`
                             (`Ark.C02.quad_cyc_exp`, `fp12_cyc_exp_of_cyclotomic`, …);
      `hEasy`                the easy part of the final exponentiation lands in `Cyc`;
      `WF x`                 the limbs of the curve parameters are `u64`s.
    `PairingP.primeTarget` / `primeCyc` (any field with trivial Frobenius, e.g. `ℚ`) and
    `PairingP.quadTarget` / `quadCyc` (the quadratic layer `Quad.fieldD` + `CycD.conj` of a tower,
    instantiated at `ℚ(i)` in `PairingP.Ex.LQi`) show that they are satisfiable by the model's code.
  * 1. multi Miller loop = product of the single Miller loops (chunks of 4 are irrelevant);
    2. MNT: `multi_miller_loop` is the product of `ate_miller_loop` over the kept pairs;
    4. final exponentiations are multiplicative, `multi_pairing = Π pairing`;
    5. pairs with an identity are dropped, `e(O, Q) = e(P, O) = 1`;
    6. affine inputs = prepared inputs;
    7. BLS12: the final exponentiation is `f ↦ f ^ k` with `k · r = 3 (p¹² - 1)`; its values are
       killed by `r`.
  The "list of triples" `l : List (P_i × Q_i × v_i)` packages "for every `i`, the single-pair result
  is `v_i`"; the `_indexed` variants state the same with `as[i]?`, `bs[i]?`.
-/
namespace Ark.C06
open Ark Ark.Ext Ark.Pairing Ark.PairingP Ark.ExtB
set_option linter.unusedSectionVars false
set_option linter.style.haveILetI false

/-! ## 0. how the hypotheses are obtained from C02 -/

/-- `SparseLawful` follows from the form in which `Ark.C02.fp12_mulBy014_eq_mul`,
    `fp12_mulBy034_eq_mul`, `fp6a_mulBy014_eq_mul`, `fp6a_mulBy034_eq_mul` are stated: the sparse
    multiplication is the full multiplication by the embedded sparse operand -/
theorem sparse_lawful_of_eq_mul {G T : Type} [Field T] [DecidableEq T] (S : SparseMul G T)
    (e014 e034 : G → G → G → T) (h014 : ∀ f a b c, S.mulBy014 f a b c = f * e014 a b c)
    (h034 : ∀ f a b c, S.mulBy034 f a b c = f * e034 a b c) : SparseLawful S :=
  ⟨fun f a b c => by rw [h014 f, h014 1, one_mul], fun f a b c => by rw [h034 f, h034 1, one_mul]⟩

example : SparseLawful Ex.S :=
  sparse_lawful_of_eq_mul Ex.S (fun a b c => a + b + c) (fun a b c => a + 2 * b + 3 * c)
    (fun _ _ _ _ => rfl) (fun _ _ _ _ => rfl)

/-! ## 1. multi Miller loop = product of the single Miller loops -/

section miller12
variable {P F G T : Type} [Add G] [Sub G] [Mul G] [Neg G] [Field T] [DecidableEq T]

/-- **BLS12**: if the multi Miller loop of `(P_i, Q_i)_i` returns `v` and the Miller loop of each
    `(P_i, Q_i)` returns `v_i`, then `v = Π v_i` -/
theorem bls12_multi_miller_loop_eq_prod (E : Bls12 P F G T) (hS : SparseLawful E.S)
    (L : TargetLawful E.DT E.C) (l : List (Aff F × G2Prepared G × T)) (v : T)
    (h : Bls12.multiMillerLoopPrepared E (l.map (·.1)) (l.map (·.2.1)) = .ok v)
    (hl : ∀ t ∈ l, Bls12.multiMillerLoopPrepared E [t.1] [t.2.1] = .ok t.2.2) :
    v = (l.map (·.2.2)).prod :=
  Bls12.multi_prod E hS L l v h hl

theorem bls12_multi_miller_loop_eq_prod_indexed (E : Bls12 P F G T) (hS : SparseLawful E.S)
    (L : TargetLawful E.DT E.C) (as : List (Aff F)) (bs : List (G2Prepared G)) (v : T) (vi : ℕ → T)
    (h : Bls12.multiMillerLoopPrepared E as bs = .ok v)
    (hi : ∀ i a b, as[i]? = some a → bs[i]? = some b →
      Bls12.multiMillerLoopPrepared E [a] [b] = .ok (vi i)) :
    v = ((List.range as.length).map vi).prod :=
  prod_indexed _ (Bls12.multi_prod E hS L) (fun _ _ _ h => length_of_zipEq_bind _ _ _ _ h)
    as bs v vi h hi

/-- the same on affine inputs -/
theorem bls12_multi_miller_loop_affine_eq_prod (E : Bls12 P F G T) (hS : SparseLawful E.S)
    (L : TargetLawful E.DT E.C) (l : List (Aff F × Aff G × T)) (v : T)
    (h : Bls12.multiMillerLoop E (l.map (·.1)) (l.map (·.2.1)) = .ok v)
    (hl : ∀ t ∈ l, Bls12.multiMillerLoop E [t.1] [t.2.1] = .ok t.2.2) :
    v = (l.map (·.2.2)).prod :=
  Bls12.multiMillerLoop_prod E hS L l v h hl

/-- **BN** (including the two trailing Frobenius-twisted line evaluations) -/
theorem bn_multi_miller_loop_eq_prod (E : Bn P F G T) (hS : SparseLawful E.S)
    (L : TargetLawful E.DT E.C) (l : List (Aff F × G2Prepared G × T)) (v : T)
    (h : Bn.multiMillerLoopPrepared E (l.map (·.1)) (l.map (·.2.1)) = .ok v)
    (hl : ∀ t ∈ l, Bn.multiMillerLoopPrepared E [t.1] [t.2.1] = .ok t.2.2) :
    v = (l.map (·.2.2)).prod :=
  Bn.multi_prod E hS L l v h hl

theorem bn_multi_miller_loop_eq_prod_indexed (E : Bn P F G T) (hS : SparseLawful E.S)
    (L : TargetLawful E.DT E.C) (as : List (Aff F)) (bs : List (G2Prepared G)) (v : T) (vi : ℕ → T)
    (h : Bn.multiMillerLoopPrepared E as bs = .ok v)
    (hi : ∀ i a b, as[i]? = some a → bs[i]? = some b →
      Bn.multiMillerLoopPrepared E [a] [b] = .ok (vi i)) :
    v = ((List.range as.length).map vi).prod :=
  prod_indexed _ (Bn.multi_prod E hS L) (fun _ _ _ h => length_of_zipEq_bind _ _ _ _ h)
    as bs v vi h hi

theorem bn_multi_miller_loop_affine_eq_prod (E : Bn P F G T) (hS : SparseLawful E.S)
    (L : TargetLawful E.DT E.C) (l : List (Aff F × Aff G × T)) (v : T)
    (h : Bn.multiMillerLoop E (l.map (·.1)) (l.map (·.2.1)) = .ok v)
    (hl : ∀ t ∈ l, Bn.multiMillerLoop E [t.1] [t.2.1] = .ok t.2.2) :
    v = (l.map (·.2.2)).prod :=
  Bn.multiMillerLoop_prod E hS L l v h hl

/-- hypotheses satisfiable: 2 pairs; 6 pairs (two chunks) one of which is an identity pair -/
example : Bls12.multiMillerLoopPrepared Ex.bls [Ex.pt 1 2, Ex.pt 3 4] [Ex.prep 2 1, Ex.prep 2 2]
    = .ok (1 / 59049) := by decide +kernel
example : Bls12.multiMillerLoopPrepared Ex.bls [Ex.pt 1 2] [Ex.prep 2 1] = .ok (1 / 81) := by
  decide +kernel
example : Bls12.multiMillerLoopPrepared Ex.bls [Ex.pt 3 4] [Ex.prep 2 2] = .ok (1 / 729) := by
  decide +kernel
example : (1 / 59049 : ℚ) = ([1 / 81, 1 / 729] : List ℚ).prod :=
  bls12_multi_miller_loop_eq_prod Ex.bls Ex.S_lawful (primeTarget ℚ)
    [(Ex.pt 1 2, Ex.prep 2 1, 1 / 81), (Ex.pt 3 4, Ex.prep 2 2, 1 / 729)] _
    (by decide +kernel) (by decide +kernel)
example : Bls12.multiMillerLoopPrepared Ex.bls
    [Ex.pt 1 2, Ex.pt 3 4, Ex.pt 1 1, Ex.O, Ex.pt 2 2, Ex.pt 5 1]
    [Ex.prep 2 1, Ex.prep 2 2, Ex.prep 2 3, Ex.prep 0 0, Ex.prep 2 1, Ex.prep 2 5]
    = .ok (1 / 1814926284864) := by decide +kernel
example : Bn.multiMillerLoopPrepared Ex.bn [Ex.pt 1 2, Ex.pt 3 4] [Ex.prep 7 1, Ex.prep 7 2]
    = .ok 217832579906859702436109193000000000000000 := by decide +kernel
example : (217832579906859702436109193000000000000000 : ℚ) =
    ([437893890380859375, 497455170514937390661632] : List ℚ).prod :=
  bn_multi_miller_loop_eq_prod Ex.bn Ex.S_lawful (primeTarget ℚ)
    [(Ex.pt 1 2, Ex.prep 7 1, 437893890380859375),
     (Ex.pt 3 4, Ex.prep 7 2, 497455170514937390661632)] _
    (by decide +kernel) (by decide +kernel)

end miller12

section miller6
variable {P F T : Type} [Add F] [Sub F] [Mul F] [Neg F] [Field T] [DecidableEq T]

/-- **BW6** (the Rust code after the fix of the chunk bug: `f_u` enters `f_1` once and only chunk 0
    of the second loop carries `f_u`, `f_u⁻¹`) -/
theorem bw6_multi_miller_loop_eq_prod (E : Bw6 P F T) (hS : SparseLawful E.S)
    (L : TargetLawful E.DT E.C) (l : List (Aff F × Bw6G2Prepared F × T)) (v : T)
    (h : Bw6.multiMillerLoopPrepared E (l.map (·.1)) (l.map (·.2.1)) = .ok v)
    (hl : ∀ t ∈ l, Bw6.multiMillerLoopPrepared E [t.1] [t.2.1] = .ok t.2.2) :
    v = (l.map (·.2.2)).prod :=
  Bw6.multi_prod E hS L l v h hl

theorem bw6_multi_miller_loop_eq_prod_indexed (E : Bw6 P F T) (hS : SparseLawful E.S)
    (L : TargetLawful E.DT E.C) (as : List (Aff F)) (bs : List (Bw6G2Prepared F)) (v : T)
    (vi : ℕ → T) (h : Bw6.multiMillerLoopPrepared E as bs = .ok v)
    (hi : ∀ i a b, as[i]? = some a → bs[i]? = some b →
      Bw6.multiMillerLoopPrepared E [a] [b] = .ok (vi i)) :
    v = ((List.range as.length).map vi).prod :=
  prod_indexed _ (Bw6.multi_prod E hS L) (fun _ _ _ h => length_of_zipEq_bind _ _ _ _ h)
    as bs v vi h hi

theorem bw6_multi_miller_loop_affine_eq_prod (E : Bw6 P F T) (hS : SparseLawful E.S)
    (L : TargetLawful E.DT E.C) (l : List (Aff F × Aff F × T)) (v : T)
    (h : Bw6.multiMillerLoop E (l.map (·.1)) (l.map (·.2.1)) = .ok v)
    (hl : ∀ t ∈ l, Bw6.multiMillerLoop E [t.1] [t.2.1] = .ok t.2.2) :
    v = (l.map (·.2.2)).prod :=
  Bw6.multiMillerLoop_prod E hS L l v h hl

example : (1 / 55556146168914167955466920977413976576714793627 : ℚ) =
    ([1 / 15011005634576864649, 1 / 3701027600772078690141688323] : List ℚ).prod :=
  bw6_multi_miller_loop_eq_prod (Ex.bw6 false true) Ex.S_lawful (primeTarget ℚ)
    [(Ex.pt 1 2, Ex.prep6 3 5 1, 1 / 15011005634576864649),
     (Ex.pt 3 4, Ex.prep6 3 5 2, 1 / 3701027600772078690141688323)] _
    (by decide +kernel) (by decide +kernel)

/-- six pairs: two chunks -/
example : Bw6.multiMillerLoopPrepared (Ex.bw6 false true)
    [Ex.pt 1 2, Ex.pt 3 4, Ex.pt 1 1, Ex.pt 2 1, Ex.pt 2 2, Ex.pt 5 1]
    [Ex.prep6 3 5 1, Ex.prep6 3 5 2, Ex.prep6 3 5 3, Ex.prep6 3 5 1, Ex.prep6 3 5 1, Ex.prep6 3 5 5]
    = .ok (1 / 3314933957647404161288593938593312790916506789681005824299624092947511459385568906795039317206822518951575597907408857359316670318903296) := by
  decide +kernel

end miller6

/-! ## 2. MNT4 / MNT6: `multi_miller_loop` is the product of `ate_miller_loop` over the kept pairs -/

section millerMnt
variable {P F G : Type} [Zero F] [DecidableEq F] [Field G] [DecidableEq G]
  (cfg : QuadCfg G) (B : FieldD P G) (hB : BaseLawful B) (hc : QuadLawful cfg)

/-- by unfolding: zip, drop the pairs with a prepared identity, map `ate_miller_loop`, multiply
    (`product` is the left fold of `*` from `1`) -/
theorem mnt_multi_miller_loop_unfold [Mul (Quad G)] (E : Mnt P F G) (a : List (MntG1Prepared F G))
    (b : List (MntG2Prepared G)) :
    Mnt.multiMillerLoopPrepared E a b =
      obind (zipEq a b) fun zs =>
      obind (mapO (fun z => Mnt.ateMillerLoop E z.1 z.2)
        (zs.filter fun z => !Mnt.g1IsZero z.1 && !Mnt.g2IsZero z.2)) fun fs =>
      .ok (product fs) := rfl

/-- … which, in the ring structure carried by the model's `Quad.mul`, is `List.prod` -/
theorem mnt_product_eq_prod :
    letI := Quad.commRing cfg B hB hc
    ∀ fs : List (Quad G), product fs = fs.prod := by
  letI := Quad.commRing cfg B hB hc
  exact product_eq_prod

/-- **MNT4 / MNT6**: multi Miller loop = product of the single Miller loops -/
theorem mnt_multi_miller_loop_eq_prod :
    letI := Quad.commRing cfg B hB hc
    ∀ (E : Mnt P F G) (l : List (MntG1Prepared F G × MntG2Prepared G × Quad G)) (v : Quad G),
      Mnt.multiMillerLoopPrepared E (l.map (·.1)) (l.map (·.2.1)) = .ok v →
      (∀ t ∈ l, Mnt.multiMillerLoopPrepared E [t.1] [t.2.1] = .ok t.2.2) →
      v = (l.map (·.2.2)).prod :=
  Mnt.multi_prod cfg B hB hc

theorem mnt_multi_miller_loop_affine_eq_prod :
    letI := Quad.commRing cfg B hB hc
    ∀ (E : Mnt P F G) (l : List (Aff F × Aff G × Quad G)) (v : Quad G),
      Mnt.multiMillerLoop E (l.map (·.1)) (l.map (·.2.1)) = .ok v →
      (∀ t ∈ l, Mnt.multiMillerLoop E [t.1] [t.2.1] = .ok t.2.2) →
      v = (l.map (·.2.2)).prod :=
  Mnt.multiMillerLoop_prod cfg B hB hc

/-- non-vacuity over `ℚ(i)`: `(2160 - 170 i)(11404 + 37036 i) = 30928760 + 78059080 i` -/
example :
    letI := Ex.fieldQi
    Mnt.multiMillerLoopPrepared Ex.mnt [Ex.g1 1 2, Ex.g1 3 1] [Ex.g2 1, Ex.g2 2]
      = .ok ⟨30928760, 78059080⟩ := by decide +kernel
example :
    letI := Ex.fieldQi
    (⟨30928760, 78059080⟩ : Quad ℚ) = ([⟨2160, -170⟩, ⟨11404, 37036⟩] : List (Quad ℚ)).prod :=
  mnt_multi_miller_loop_eq_prod Ex.c2.wrap (primeD ℚ) primeD_lawful Ex.c2_lawful Ex.mnt
    [(Ex.g1 1 2, Ex.g2 1, ⟨2160, -170⟩), (Ex.g1 3 1, Ex.g2 2, ⟨11404, 37036⟩)] _
    (by decide +kernel) (by decide +kernel)

end millerMnt

/-! ## 4. the final exponentiations are multiplicative; `multi_pairing = Π pairing` -/

section fe12
variable {P F G T : Type} [Add G] [Sub G] [Mul G] [Neg G] [Field T] [DecidableEq T]

/-- **BLS12**: `final_exponentiation f = Some (hard (easy f))` for `f ≠ 0`, `None` for `0`, where
    `easy12 L f = frob² (conj f · f⁻¹) · (conj f · f⁻¹)` and `Bls12.hardVal` is the addition chain -/
theorem bls12_final_exponentiation_eq (E : Bls12 P F G T) (L : TargetLawful E.DT E.C)
    (CL : CycLawful L) (hx : WF E.x) (hEasy : ∀ f, f ≠ 0 → easy12 L f ∈ CL.Cyc) (f : T) :
    Bls12.finalExponentiation E f = .ok (if f = 0 then none else some (Bls12.feVal E L f)) :=
  Bls12.fe_eq E L CL hx hEasy f

/-- `final_exponentiation (f · g) = final_exponentiation f · final_exponentiation g`
    (`omul`: the product lifted through `Outcome (Option ·)`) -/
theorem bls12_final_exponentiation_mul (E : Bls12 P F G T) (L : TargetLawful E.DT E.C)
    (CL : CycLawful L) (hx : WF E.x) (hEasy : ∀ f, f ≠ 0 → easy12 L f ∈ CL.Cyc) (f g : T) :
    Bls12.finalExponentiation E (f * g) =
      omul (Bls12.finalExponentiation E f) (Bls12.finalExponentiation E g) :=
  fe_mul_of_eq (Bls12.feVal E L) (Bls12.feVal_mul E L) _ (Bls12.fe_eq E L CL hx hEasy) f g

/-- `multi_pairing = Π pairing` -/
theorem bls12_multi_pairing_eq_prod (E : Bls12 P F G T) (hS : SparseLawful E.S)
    (L : TargetLawful E.DT E.C) (CL : CycLawful L) (hx : WF E.x)
    (hEasy : ∀ f, f ≠ 0 → easy12 L f ∈ CL.Cyc) (l : List (Aff F × Aff G × T)) (v : T)
    (h : (Bls12.engine E).multiPairing (l.map (·.1)) (l.map (·.2.1)) = .ok v)
    (hl : ∀ t ∈ l, (Bls12.engine E).pairing t.1 t.2.1 = .ok t.2.2) :
    v = (l.map (·.2.2)).prod :=
  Bls12.multiPairing_prod E hS L CL hx hEasy l v h hl

theorem bn_final_exponentiation_eq (E : Bn P F G T) (L : TargetLawful E.DT E.C)
    (CL : CycLawful L) (hx : WF E.x) (hEasy : ∀ f, f ≠ 0 → easy12 L f ∈ CL.Cyc) (f : T) :
    Bn.finalExponentiation E f = .ok (if f = 0 then none else some (Bn.feVal E L f)) :=
  Bn.fe_eq E L CL hx hEasy f

theorem bn_final_exponentiation_mul (E : Bn P F G T) (L : TargetLawful E.DT E.C)
    (CL : CycLawful L) (hx : WF E.x) (hEasy : ∀ f, f ≠ 0 → easy12 L f ∈ CL.Cyc) (f g : T) :
    Bn.finalExponentiation E (f * g) =
      omul (Bn.finalExponentiation E f) (Bn.finalExponentiation E g) :=
  fe_mul_of_eq (Bn.feVal E L) (Bn.feVal_mul E L) _ (Bn.fe_eq E L CL hx hEasy) f g

theorem bn_multi_pairing_eq_prod (E : Bn P F G T) (hS : SparseLawful E.S)
    (L : TargetLawful E.DT E.C) (CL : CycLawful L) (hx : WF E.x)
    (hEasy : ∀ f, f ≠ 0 → easy12 L f ∈ CL.Cyc) (l : List (Aff F × Aff G × T)) (v : T)
    (h : (Bn.engine E).multiPairing (l.map (·.1)) (l.map (·.2.1)) = .ok v)
    (hl : ∀ t ∈ l, (Bn.engine E).pairing t.1 t.2.1 = .ok t.2.2) :
    v = (l.map (·.2.2)).prod :=
  Bn.multiPairing_prod E hS L CL hx hEasy l v h hl

/-- the hypotheses are satisfiable (target `ℚ`, `CycD.default`, `Cyc = ℚˣ`): the model's final
    exponentiation of `2 · 3` is the product of those of `2` and `3` -/
example : WF Ex.bls.x ∧ WF Ex.bn.x := by
  constructor <;> (unfold WF; decide +kernel)
example : Bls12.finalExponentiation Ex.bls (2 * 3) =
    omul (Bls12.finalExponentiation Ex.bls 2) (Bls12.finalExponentiation Ex.bls 3) :=
  bls12_final_exponentiation_mul Ex.bls (primeTarget ℚ) (primeCyc ℚ) (by unfold WF; decide +kernel)
    (primeCyc_easy12 ℚ) 2 3
example : Bn.finalExponentiation Ex.bn (2 * 3) =
    omul (Bn.finalExponentiation Ex.bn 2) (Bn.finalExponentiation Ex.bn 3) :=
  bn_final_exponentiation_mul Ex.bn (primeTarget ℚ) (primeCyc ℚ) (by unfold WF; decide +kernel)
    (primeCyc_easy12 ℚ) 2 3
/-- … and the same over the quadratic layer `ℚ(i)` of a tower (`Quad.mul`, `Quad.frob`,
    `CycD.conj`, unit circle): the easy part lands on the unit circle -/
example : letI := Ex.fieldQi
    ∀ f : Quad ℚ, f ≠ 0 → easy12 Ex.LQi f ∈ Ex.CLQi.Cyc := by
  letI := Ex.fieldQi
  intro f hf
  exact Ex.CLQi.mul_mem (Ex.CLQi.frob_mem _
    (quad_conj_mul_inv_norm Ex.c2.wrap (primeD ℚ) primeD_lawful Ex.c2_lawful Ex.c2_nonsq f hf) 2)
    (quad_conj_mul_inv_norm Ex.c2.wrap (primeD ℚ) primeD_lawful Ex.c2_lawful Ex.c2_nonsq f hf)

end fe12

section fe6
variable {P F T : Type} [Add F] [Sub F] [Mul F] [Neg F] [Field T] [DecidableEq T]

/-- **BW6** (generic hard part, both `T_MOD_R_IS_ZERO` branches, and the BW6-761 override): the final
    exponentiation panics on `0` (`f.inverse().unwrap()`) and is `Some (hard (easy f))` otherwise -/
theorem bw6_final_exponentiation_eq (E : Bw6 P F T) (L : TargetLawful E.DT E.C) (CL : CycLawful L)
    (hx : WF E.x) (hx3 : WF E.xMinus1Div3) (hconj : ∀ f, E.conj f = L.conj f)
    (hEasy : ∀ f, f ≠ 0 → easy6 L f ∈ CL.Cyc) (f : T) :
    Bw6.finalExponentiation E f = if f = 0 then .panic else .ok (some (Bw6.feVal E L f)) :=
  Bw6.fe_eq E L CL hx hx3 hconj hEasy f

theorem bw6_final_exponentiation_mul (E : Bw6 P F T) (L : TargetLawful E.DT E.C) (CL : CycLawful L)
    (hx : WF E.x) (hx3 : WF E.xMinus1Div3) (hconj : ∀ f, E.conj f = L.conj f)
    (hEasy : ∀ f, f ≠ 0 → easy6 L f ∈ CL.Cyc) (f g : T) :
    Bw6.finalExponentiation E (f * g) =
      omul (Bw6.finalExponentiation E f) (Bw6.finalExponentiation E g) :=
  fe_mul_of_eq' (Bw6.feVal E L) (Bw6.feVal_mul E L) _ (Bw6.fe_eq E L CL hx hx3 hconj hEasy) f g

theorem bw6_multi_pairing_eq_prod (E : Bw6 P F T) (hS : SparseLawful E.S)
    (L : TargetLawful E.DT E.C) (CL : CycLawful L) (hx : WF E.x) (hx3 : WF E.xMinus1Div3)
    (hconj : ∀ f, E.conj f = L.conj f) (hEasy : ∀ f, f ≠ 0 → easy6 L f ∈ CL.Cyc)
    (l : List (Aff F × Aff F × T)) (v : T)
    (h : (Bw6.engine E).multiPairing (l.map (·.1)) (l.map (·.2.1)) = .ok v)
    (hl : ∀ t ∈ l, (Bw6.engine E).pairing t.1 t.2.1 = .ok t.2.2) :
    v = (l.map (·.2.2)).prod :=
  Bw6.multiPairing_prod E hS L CL hx hx3 hconj hEasy l v h hl

/-- satisfiable, for the three hard parts -/
example (o t : Bool) : Bw6.finalExponentiation (Ex.bw6 o t) (2 * 3) =
    omul (Bw6.finalExponentiation (Ex.bw6 o t) 2) (Bw6.finalExponentiation (Ex.bw6 o t) 3) :=
  bw6_final_exponentiation_mul (Ex.bw6 o t) (primeTarget ℚ) (primeCyc ℚ)
    (by show WF [2]; unfold WF; decide +kernel) (by show WF [1]; unfold WF; decide +kernel)
    (fun _ => rfl)
    (primeCyc_easy6 ℚ) 2 3

end fe6

section feMnt
variable {P F G : Type} [Zero F] [DecidableEq F] [Field G] [DecidableEq G]
  (cfg : QuadCfg G) (B : FieldD P G) (hB : BaseLawful B) (hc : QuadLawful cfg)
  (hnr : ∀ x : G, x * x ≠ cfg.nonresidue)

/-- **MNT4 / MNT6**: `first_chunk(v, v⁻¹)`, `first_chunk(v⁻¹, v)`, `last_chunk` -/
theorem mnt_final_exponentiation_eq :
    letI := Quad.field cfg B hB hc hnr
    ∀ (E : Mnt P F G) (L : TargetLawful E.DT E.C) (CL : CycLawful L)
      (_h1 : WF E.finalExponentLastChunk1) (_h0 : WF E.finalExponentLastChunkAbsOfW0)
      (_hEasy : ∀ f : Quad G, f ≠ 0 → Mnt.firstVal L E.isMnt6 f f⁻¹ ∈ CL.Cyc) (f : Quad G),
      Mnt.finalExponentiation E f = .ok (if f = 0 then none else
        some (Mnt.feVal L E.isMnt6 E.finalExponentLastChunkW0IsNeg (value E.finalExponentLastChunk1)
          (value E.finalExponentLastChunkAbsOfW0) f)) :=
  Mnt.fe_eq cfg B hB hc hnr

theorem mnt_final_exponentiation_mul :
    letI := Quad.field cfg B hB hc hnr
    ∀ (E : Mnt P F G) (L : TargetLawful E.DT E.C) (CL : CycLawful L)
      (_h1 : WF E.finalExponentLastChunk1) (_h0 : WF E.finalExponentLastChunkAbsOfW0)
      (_hEasy : ∀ f : Quad G, f ≠ 0 → Mnt.firstVal L E.isMnt6 f f⁻¹ ∈ CL.Cyc) (f g : Quad G),
      Mnt.finalExponentiation E (f * g) =
        omul (Mnt.finalExponentiation E f) (Mnt.finalExponentiation E g) := by
  letI := Quad.field cfg B hB hc hnr
  intro E L CL h1 h0 hEasy f g
  exact fe_mul_of_eq _ (Mnt.feVal_mul L _ _ _ _) _ (Mnt.fe_eq cfg B hB hc hnr E L CL h1 h0 hEasy) f g

theorem mnt_multi_pairing_eq_prod :
    letI := Quad.field cfg B hB hc hnr
    ∀ (E : Mnt P F G) (L : TargetLawful E.DT E.C) (CL : CycLawful L)
      (_h1 : WF E.finalExponentLastChunk1) (_h0 : WF E.finalExponentLastChunkAbsOfW0)
      (_hEasy : ∀ f : Quad G, f ≠ 0 → Mnt.firstVal L E.isMnt6 f f⁻¹ ∈ CL.Cyc)
      (l : List (Aff F × Aff G × Quad G)) (v : Quad G),
      (Mnt.engine E).multiPairing (l.map (·.1)) (l.map (·.2.1)) = .ok v →
      (∀ t ∈ l, (Mnt.engine E).pairing t.1 t.2.1 = .ok t.2.2) →
      v = (l.map (·.2.2)).prod :=
  Mnt.multiPairing_prod cfg B hB hc hnr

/-- satisfiable over `ℚ(i)` (the actual `Quad.fieldD` / `CycD.conj` dictionaries) -/
example :
    letI := Ex.fieldQi
    Mnt.finalExponentiation Ex.mnt (⟨1, 2⟩ * ⟨3, -1⟩) =
      omul (Mnt.finalExponentiation Ex.mnt ⟨1, 2⟩) (Mnt.finalExponentiation Ex.mnt ⟨3, -1⟩) := by
  letI := Ex.fieldQi
  exact mnt_final_exponentiation_mul Ex.c2.wrap (primeD ℚ) primeD_lawful Ex.c2_lawful Ex.c2_nonsq
    Ex.mnt Ex.LQi Ex.CLQi (by unfold WF; decide +kernel) (by unfold WF; decide +kernel)
    (fun f hf =>
      quad_conj_mul_inv_norm Ex.c2.wrap (primeD ℚ) primeD_lawful Ex.c2_lawful Ex.c2_nonsq f hf)
    ⟨1, 2⟩ ⟨3, -1⟩
example :
    letI := Ex.fieldQi
    Mnt.finalExponentiation Ex.mnt ⟨1, 2⟩ = .ok (some ⟨-527 / 625, 336 / 625⟩) := by
  decide +kernel

end feMnt

/-! ## 5. pairs with an identity are dropped; `e(O, Q) = e(P, O) = 1` -/

section ident12
variable {P F G T : Type} [Add G] [Sub G] [Mul G] [Neg G] [Field T] [DecidableEq T]

theorem bls12_identity_pair_dropped (E : Bls12 P F G T) (p : Aff F) (q : G2Prepared G)
    (as : List (Aff F)) (bs : List (G2Prepared G)) (h : p.infinity = true ∨ q.infinity = true) :
    Bls12.multiMillerLoopPrepared E (p :: as) (q :: bs) = Bls12.multiMillerLoopPrepared E as bs :=
  Bls12.multi_cons_identity E p q as bs h

/-- `e(O, Q) = e(P, O) = 1` (the preparation of `Q` must not panic: it runs before the filter) -/
theorem bls12_pairing_identity (E : Bls12 P F G T) (L : TargetLawful E.DT E.C) (CL : CycLawful L)
    (hx : WF E.x) (hEasy : ∀ f, f ≠ 0 → easy12 L f ∈ CL.Cyc) (p : Aff F) (q : Aff G)
    (q' : G2Prepared G) (hq : Bls12.g2Prepare E q = .ok q')
    (h : p.infinity = true ∨ q.infinity = true) :
    (Bls12.engine E).pairing p q = .ok 1 :=
  Bls12.pairing_identity E L CL hx hEasy p q q' hq h

theorem bn_identity_pair_dropped (E : Bn P F G T) (p : Aff F) (q : G2Prepared G)
    (as : List (Aff F)) (bs : List (G2Prepared G)) (h : p.infinity = true ∨ q.infinity = true) :
    Bn.multiMillerLoopPrepared E (p :: as) (q :: bs) = Bn.multiMillerLoopPrepared E as bs :=
  Bn.multi_cons_identity E p q as bs h

theorem bn_pairing_identity (E : Bn P F G T) (L : TargetLawful E.DT E.C) (CL : CycLawful L)
    (hx : WF E.x) (hEasy : ∀ f, f ≠ 0 → easy12 L f ∈ CL.Cyc) (p : Aff F) (q : Aff G)
    (q' : G2Prepared G) (hq : Bn.g2Prepare E q = .ok q')
    (h : p.infinity = true ∨ q.infinity = true) :
    (Bn.engine E).pairing p q = .ok 1 :=
  Bn.pairing_identity E L CL hx hEasy p q q' hq h

/-- in the example configuration the preparation of a G2 point does not panic (`2⁻¹` exists) -/
example (q : Aff ℚ) : ∃ q', Bls12.g2Prepare Ex.bls q = .ok q' := by
  have h2 : invUnwrap Ex.bls.BF.inverse (Ex.bls.BF.double Ex.bls.one) = .ok (1 / 2) := by
    decide +kernel
  unfold Bls12.g2Prepare
  rw [h2]
  simp only [obind_ok]
  split <;> exact ⟨_, rfl⟩
example (q' : G2Prepared ℚ) (hq : Bls12.g2Prepare Ex.bls (Ex.pt 1 2) = .ok q') :
    (Bls12.engine Ex.bls).pairing Ex.O (Ex.pt 1 2) = .ok 1 :=
  bls12_pairing_identity Ex.bls (primeTarget ℚ) (primeCyc ℚ) (by unfold WF; decide +kernel)
    (primeCyc_easy12 ℚ) Ex.O (Ex.pt 1 2) q' hq (Or.inl rfl)
example (q' : G2Prepared ℚ) (hq : Bls12.g2Prepare Ex.bls Ex.O = .ok q') :
    (Bls12.engine Ex.bls).pairing (Ex.pt 1 2) Ex.O = .ok 1 :=
  bls12_pairing_identity Ex.bls (primeTarget ℚ) (primeCyc ℚ) (by unfold WF; decide +kernel)
    (primeCyc_easy12 ℚ) (Ex.pt 1 2) Ex.O q' hq (Or.inr rfl)
example : (Bn.engine Ex.bn).pairing (Ex.pt 1 2) Ex.O = .ok 1 :=
  bn_pairing_identity Ex.bn (primeTarget ℚ) (primeCyc ℚ) (by unfold WF; decide +kernel)
    (primeCyc_easy12 ℚ) (Ex.pt 1 2) Ex.O _ rfl (Or.inr rfl)

end ident12

section ident6
variable {P F T : Type} [Add F] [Sub F] [Mul F] [Neg F] [Field T] [DecidableEq T]

theorem bw6_identity_pair_dropped (E : Bw6 P F T) (p : Aff F) (q : Bw6G2Prepared F)
    (as : List (Aff F)) (bs : List (Bw6G2Prepared F)) (h : p.infinity = true ∨ q.infinity = true) :
    Bw6.multiMillerLoopPrepared E (p :: as) (q :: bs) = Bw6.multiMillerLoopPrepared E as bs :=
  Bw6.multi_cons_identity E p q as bs h

theorem bw6_pairing_identity (E : Bw6 P F T) (L : TargetLawful E.DT E.C) (CL : CycLawful L)
    (hx : WF E.x) (hx3 : WF E.xMinus1Div3) (hconj : ∀ f, E.conj f = L.conj f)
    (hEasy : ∀ f, f ≠ 0 → easy6 L f ∈ CL.Cyc) (p q : Aff F) (q' : Bw6G2Prepared F)
    (hq : Bw6.g2Prepare E q = .ok q') (h : p.infinity = true ∨ q.infinity = true) :
    (Bw6.engine E).pairing p q = .ok 1 :=
  Bw6.pairing_identity E L CL hx hx3 hconj hEasy p q q' hq h

example : (Bw6.engine (Ex.bw6 true false)).pairing (Ex.pt 1 2) Ex.O = .ok 1 :=
  bw6_pairing_identity (Ex.bw6 true false) (primeTarget ℚ) (primeCyc ℚ)
    (by unfold WF; decide +kernel) (by unfold WF; decide +kernel) (fun _ => rfl)
    (primeCyc_easy6 ℚ) (Ex.pt 1 2) Ex.O _ rfl (Or.inr rfl)

end ident6

section identMnt
variable {P F G : Type} [Zero F] [DecidableEq F] [Field G] [DecidableEq G]
  (cfg : QuadCfg G) (B : FieldD P G) (hB : BaseLawful B) (hc : QuadLawful cfg)
  (hnr : ∀ x : G, x * x ≠ cfg.nonresidue)

/-- MNT4 / MNT6 after the fix: the identity is *prepared* as `(0, 0)` and such pairs are dropped -/
theorem mnt_identity_pair_dropped [Mul (Quad G)] (E : Mnt P F G) (p : MntG1Prepared F G)
    (q : MntG2Prepared G) (as : List (MntG1Prepared F G)) (bs : List (MntG2Prepared G))
    (h : Mnt.g1IsZero p = true ∨ Mnt.g2IsZero q = true) :
    Mnt.multiMillerLoopPrepared E (p :: as) (q :: bs) = Mnt.multiMillerLoopPrepared E as bs :=
  Mnt.multi_cons_identity E p q as bs h

theorem mnt_prepare_identity [Mul (Quad G)] (E : Mnt P F G) :
    (∀ p : Aff F, p.infinity = true → Mnt.g1IsZero (Mnt.g1Prepare E p) = true) ∧
    (∀ q : Aff G, q.infinity = true →
      ∃ q', Mnt.g2Prepare E q = .ok q' ∧ Mnt.g2IsZero q' = true) :=
  ⟨Mnt.g1Prepare_infinity E, Mnt.g2Prepare_infinity E⟩

theorem mnt_pairing_identity :
    letI := Quad.field cfg B hB hc hnr
    ∀ (E : Mnt P F G) (L : TargetLawful E.DT E.C) (CL : CycLawful L)
      (_h1 : WF E.finalExponentLastChunk1) (_h0 : WF E.finalExponentLastChunkAbsOfW0)
      (_hEasy : ∀ f : Quad G, f ≠ 0 → Mnt.firstVal L E.isMnt6 f f⁻¹ ∈ CL.Cyc)
      (p : Aff F) (q : Aff G) (q' : MntG2Prepared G), Mnt.g2Prepare E q = .ok q' →
      (p.infinity = true ∨ q.infinity = true) → (Mnt.engine E).pairing p q = .ok 1 :=
  Mnt.pairing_identity cfg B hB hc hnr

example :
    letI := Ex.fieldQi
    (Mnt.engine Ex.mnt).pairing (Ex.pt 1 2) Ex.O = .ok 1 := by
  letI := Ex.fieldQi
  exact mnt_pairing_identity Ex.c2.wrap (primeD ℚ) primeD_lawful Ex.c2_lawful Ex.c2_nonsq
    Ex.mnt Ex.LQi Ex.CLQi (by unfold WF; decide +kernel) (by unfold WF; decide +kernel)
    (fun f hf =>
      quad_conj_mul_inv_norm Ex.c2.wrap (primeD ℚ) primeD_lawful Ex.c2_lawful Ex.c2_nonsq f hf)
    (Ex.pt 1 2) Ex.O _ rfl (Or.inr rfl)

end identMnt

/-! ## 6. affine inputs = prepared inputs -/

section prepared
variable {P F G T : Type} [Add G] [Sub G] [Mul G] [Neg G] [Mul T] [Zero T] [One T] [DecidableEq T]

theorem bls12_multi_miller_loop_prepared (E : Bls12 P F G T) (a : List (Aff F)) (b : List (Aff G)) :
    Bls12.multiMillerLoop E a b =
      obind (mapO (Bls12.g2Prepare E) b) fun b' => Bls12.multiMillerLoopPrepared E a b' := rfl

theorem bn_multi_miller_loop_prepared (E : Bn P F G T) (a : List (Aff F)) (b : List (Aff G)) :
    Bn.multiMillerLoop E a b =
      obind (mapO (Bn.g2Prepare E) b) fun b' => Bn.multiMillerLoopPrepared E a b' := rfl

theorem bw6_multi_miller_loop_prepared {F : Type} [Add F] [Sub F] [Mul F] [Neg F]
    (E : Bw6 P F T) (a b : List (Aff F)) :
    Bw6.multiMillerLoop E a b =
      obind (mapO (Bw6.g2Prepare E) b) fun b' => Bw6.multiMillerLoopPrepared E a b' := rfl

theorem mnt_multi_miller_loop_prepared {G : Type} [Zero F] [DecidableEq F] [Add G] [Sub G] [Mul G]
    [Neg G] [Zero G] [One G] [DecidableEq G] [Mul (Quad G)] (E : Mnt P F G) (a : List (Aff F))
    (b : List (Aff G)) :
    Mnt.multiMillerLoop E a b =
      obind (mapO (Mnt.g2Prepare E) b) fun b' =>
        Mnt.multiMillerLoopPrepared E (a.map (Mnt.g1Prepare E)) b' := rfl

end prepared

/-! ## 7. BLS12: the final exponentiation is a power; its values are killed by `r` -/

section order
variable {P F G T : Type} [Add G] [Sub G] [Mul G] [Neg G] [Field T] [DecidableEq T]

/-- the polynomial identity behind the hard part (Hayashida–Hayasaka–Teruya): with
    `3 p = (x-1)² (x⁴ - x² + 1) + 3 x` and `r = x⁴ - x² + 1`,
    `((x-1)² (x+p) (x²+p²-1) + 3) · r = 3 (p⁴ - p² + 1)` -/
theorem bls12_hard_exponent (x p r : ℤ)
    (hp : 3 * p = (x - 1) ^ 2 * (x ^ 4 - x ^ 2 + 1) + 3 * x) (hr : r = x ^ 4 - x ^ 2 + 1) :
    ((x - 1) ^ 2 * (x + p) * (x ^ 2 + p ^ 2 - 1) + 3) * r = 3 * (p ^ 4 - p ^ 2 + 1) :=
  Bls12.hardExp_mul_r x p r hp hr

/-- on the cyclotomic subgroup, where the Frobenius maps are the `p^k`-th powers, the hard-part
    addition chain computes `a ↦ a ^ ((x-1)² (x+p) (x²+p²-1) + 3)` -/
theorem bls12_hard_part_pow {DT : FieldD P T} {C : CycD T} {L : TargetLawful DT C}
    (CL : CycLawful L) (p : ℕ) (hφ : ∀ a ∈ CL.Cyc, ∀ k, L.frob k a = a ^ (p ^ k)) (x : ℤ)
    {a : T} (ha : a ∈ CL.Cyc) :
    Bls12.hardVal L.frob x a = a ^ ((x - 1) ^ 2 * (x + p) * (x ^ 2 + (p : ℤ) ^ 2 - 1) + 3) :=
  Bls12.hardVal_pow CL p hφ x ha

/-- every value of the final exponentiation has order dividing `r` -/
theorem bls12_final_exponentiation_order (E : Bls12 P F G T) (L : TargetLawful E.DT E.C)
    (CL : CycLawful L) (hx : WF E.x) (hEasy : ∀ f, f ≠ 0 → easy12 L f ∈ CL.Cyc) (p r : ℕ)
    (hφ : ∀ a ∈ CL.Cyc, ∀ k, L.frob k a = a ^ (p ^ k))
    (hcyc : ∀ a ∈ CL.Cyc, a ^ ((p : ℤ) ^ 4 - (p : ℤ) ^ 2 + 1) = 1)
    (hp : 3 * (p : ℤ) = (sval E.xIsNegative E.x - 1) ^ 2 *
      ((sval E.xIsNegative E.x) ^ 4 - (sval E.xIsNegative E.x) ^ 2 + 1) + 3 * sval E.xIsNegative E.x)
    (hr : (r : ℤ) = (sval E.xIsNegative E.x) ^ 4 - (sval E.xIsNegative E.x) ^ 2 + 1)
    (f out : T) (h : Bls12.finalExponentiation E f = .ok (some out)) : out ^ r = 1 :=
  Bls12.fe_order E L CL hx hEasy p r hφ hcyc hp hr f out h

/-- when `conj` and the Frobenius maps are powers on all of `T`: `final_exponentiation f = f ^ k`
    with `k · r = 3 (p¹² - 1)`, `k = (p⁶-1)(p²+1)((x-1)² (x+p) (x²+p²-1) + 3)` -/
theorem bls12_final_exponentiation_pow (E : Bls12 P F G T) (L : TargetLawful E.DT E.C)
    (CL : CycLawful L) (hx : WF E.x) (hEasy : ∀ f, f ≠ 0 → easy12 L f ∈ CL.Cyc) (p r : ℕ)
    (hφ : ∀ a k, L.frob k a = a ^ (p ^ k)) (hconj : ∀ a, L.conj a = a ^ (p ^ 6))
    (hp : 3 * (p : ℤ) = (sval E.xIsNegative E.x - 1) ^ 2 *
      ((sval E.xIsNegative E.x) ^ 4 - (sval E.xIsNegative E.x) ^ 2 + 1) + 3 * sval E.xIsNegative E.x)
    (hr : (r : ℤ) = (sval E.xIsNegative E.x) ^ 4 - (sval E.xIsNegative E.x) ^ 2 + 1)
    (f : T) (hf : f ≠ 0) :
    Bls12.finalExponentiation E f = .ok (some (f ^
      ((((p : ℤ) ^ 6 - 1) * ((p : ℤ) ^ 2 + 1)) * Bls12.hardExp (sval E.xIsNegative E.x) p))) ∧
    ((((p : ℤ) ^ 6 - 1) * ((p : ℤ) ^ 2 + 1)) * Bls12.hardExp (sval E.xIsNegative E.x) p) * r =
      3 * ((p : ℤ) ^ 12 - 1) :=
  Bls12.fe_pow E L CL hx hEasy p r hφ hconj hp hr f hf

/-- the hypotheses are jointly satisfiable (degenerate instance `x = p = r = 1` over `ℚ`; a
    non-degenerate one needs a 12-th degree extension, see the relations for BLS12-381 below) -/
example (out : ℚ) (h : Bls12.finalExponentiation Ex.bls1 5 = .ok (some out)) : out ^ 1 = 1 :=
  bls12_final_exponentiation_order Ex.bls1 (trivTarget ℚ) (trivCyc ℚ) (by unfold WF; decide +kernel)
    (trivCyc_easy12 ℚ) 1 1 (fun a _ k => by simp [trivTarget])
    (fun a ha => by rw [Submonoid.mem_bot.1 ha]; simp)
    (by simp [sval, Ex.bls1, value]) (by simp [sval, Ex.bls1, value]) 5 out h
example : Bls12.finalExponentiation Ex.bls1 5 = .ok (some 1) := by decide +kernel

/-- the parameter relations are those of the BLS12 family: BLS12-381 has `x = -0xd201000000010000` -/
example : (3 : ℤ) * 0x1a0111ea397fe69a4b1ba7b6434bacd764774b84f38512bf6730d2a0f6b0f6241eabfffeb153ffffb9feffffffffaaab
    = ((-0xd201000000010000 : ℤ) - 1) ^ 2 * ((-0xd201000000010000) ^ 4 - (-0xd201000000010000) ^ 2 + 1)
      + 3 * (-0xd201000000010000) ∧
    (0x73eda753299d7d483339d80809a1d80553bda402fffe5bfeffffffff00000001 : ℤ)
      = (-0xd201000000010000) ^ 4 - (-0xd201000000010000) ^ 2 + 1 := by
  constructor <;> norm_num

end order

end Ark.C06
