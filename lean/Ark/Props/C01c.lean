import Ark.Proofs.MontC
/-
  Property C01 (part c) — squaring, the integer conversions and `sum_of_products` of the
  Montgomery prime-field backend modelled in `Ark.Model.Mont`
  (ff/src/fields/models/fp/montgomery_backend.rs, ff-macros/src/montgomery/{square,sum_of_products}.rs)
  are correct for EVERY limb count `N = c.n`, every odd modulus, both flavours (`derived` or not)
  and with or without a spare bit.  `R = B ^ c.n = 2^(64N)`.
  Only property theorems live here; helpers are in Ark/Proofs/MontC.lean.
-/
namespace Ark.C01
open Ark Ark.Mont

/-! ## 1. squaring -/

/-- `offd a = Σ_{i<j} aᵢ aⱼ B^(i+j-1)` (off-diagonal products, relative to limb 1 of the buffer) and
    `diag a = Σ_i aᵢ² B^(2i)` split the square: `a² = diag a + 2·B·offd a`. -/
theorem sq_split (a : List Nat) : value a * value a = diag a + 2 * B * offd a :=
  sq_eq_diag_offd a

example : offd [3, 5, 7] = 3 * (5 + B * 7) + B ^ 2 * (5 * 7) ∧
    diag [3, 5, 7] = 3 * 3 + B ^ 2 * (5 * 5 + B ^ 2 * (7 * 7)) := by decide +kernel

/-- stage 1, `sqOffDiag` on limbs `1 ..` of the zeroed `2N` buffer: the result is well formed, has
    `2N-1` limbs and value `offd a`; moreover that value is `< B^(2N-2)`, i.e. limb `2N-1` of the
    whole buffer is still `0` — so the doubling shift, which overwrites `r[2N-1]`, loses nothing. -/
theorem sq_offdiag_exact {c : MontCfg} {pv : Nat} (h : CfgOK c pv) {a : List Nat} (ha : Limbs c a) :
    value (sqOffDiag a (zeros (2 * c.n - 1))) = offd a ∧ WF (sqOffDiag a (zeros (2 * c.n - 1))) ∧
    (sqOffDiag a (zeros (2 * c.n - 1))).length = 2 * c.n - 1 ∧
    value (sqOffDiag a (zeros (2 * c.n - 1))) < B ^ (2 * c.n - 2) :=
  (sq_stages a h.n_pos ha.len ha.wf).1

/-- stage 2, `sqDouble`: the whole buffer `0 :: offdiag` (value `B·offd a`) is doubled exactly. -/
theorem sq_double_exact {c : MontCfg} {pv : Nat} (h : CfgOK c pv) {a : List Nat} (ha : Limbs c a) :
    value (sqDouble (0 :: sqOffDiag a (zeros (2 * c.n - 1)))) = 2 * (B * offd a) ∧
    WF (sqDouble (0 :: sqOffDiag a (zeros (2 * c.n - 1)))) ∧
    (sqDouble (0 :: sqOffDiag a (zeros (2 * c.n - 1)))).length = 2 * c.n :=
  (sq_stages a h.n_pos ha.len ha.wf).2.1

/-- stage 3, `sqDiag`: the `2N`-limb buffer handed to `redcRows` by `squareCore` (`sqBuf`, see
    `square_core_buffer`) is the output of the three stages, is well formed, and holds exactly `a²`. -/
theorem sq_buffer_exact {c : MontCfg} {pv : Nat} (h : CfgOK c pv) {a : List Nat} (ha : Limbs c a) :
    sqBuf c.n a = sqDiag a (sqDouble (0 :: sqOffDiag a (zeros (2 * c.n - 1)))) 0 ∧
    value (sqBuf c.n a) = value a * value a ∧ WF (sqBuf c.n a) ∧ (sqBuf c.n a).length = 2 * c.n :=
  ⟨(sq_stages a h.n_pos ha.len ha.wf).2.2, sqBuf_spec a h.n_pos ha.len ha.wf⟩

/-- `squareCore` is `redcRows` applied to that buffer (definitional) -/
theorem square_core_buffer (c : MontCfg) (a : List Nat) :
    squareCore c a =
      ((redcRows c c.n (sqBuf c.n a) 0).1, (redcRows c c.n (sqBuf c.n a) 0).2 != 0) := rfl

-- all-ones input, 3 limbs: limb 5 of the buffer is 0 before the shift and the square is exact
example : sqOffDiag (toLimbs 3 (2 ^ 192 - 1)) (zeros 5) = [1, B - 1, B - 1, B - 2, 0] := by
  decide +kernel
example : sqDouble (0 :: sqOffDiag (toLimbs 3 (2 ^ 192 - 1)) (zeros 5))
    = [0, 2, B - 2, B - 1, B - 3, 1] := by decide +kernel
example : value (sqBuf 3 (toLimbs 3 (2 ^ 192 - 1))) = (2 ^ 192 - 1) * (2 ^ 192 - 1) := by
  decide +kernel

/-- hence `squareCore` IS the separated CIOS of `a` with itself … -/
theorem square_core_eq_cios {c : MontCfg} {pv : Nat} (h : CfgOK c pv) {a : List Nat}
    (ha : Limbs c a) : squareCore c a = mulCIOS c a a :=
  squareCore_eq_mulCIOS h ha

/-- … and satisfies the same specification: `(hi, k) = squareCore c a`, `t = hi + (if k then R else 0)`:
    `hi` is an `N`-limb integer, `t < 2p`, `t·R ≡ a² (mod p)`. -/
theorem square_core_exact {c : MontCfg} {pv : Nat} (h : CfgOK c pv) {a : List Nat}
    (ha : Elem c pv a) :
    Limbs c (squareCore c a).1 ∧
    value (squareCore c a).1 + (if (squareCore c a).2 then B ^ c.n else 0) < 2 * pv ∧
    ((value (squareCore c a).1 + (if (squareCore c a).2 then B ^ c.n else 0)) * B ^ c.n) % pv
      = (value a * value a) % pv := by
  rw [squareCore_eq_mulCIOS h ha.limbs]
  obtain ⟨s1, s2, m, _, s3⟩ := mulCIOS_spec h ha ha.limbs
  exact ⟨s1, s2, by rw [s3, Nat.add_mul_mod_self_right]⟩

/-- `square_in_place`: a canonical element `x` with `x·R ≡ a² (mod p)`, on every branch
    (`N = 1` delegating to `mul`; derived with `2 ≤ N ≤ 6 ∧ noCarry` using plain `subtract_modulus`;
    the spare / no-spare tails of both flavours). -/
theorem square_correct {c : MontCfg} {pv : Nat} (h : CfgOK c pv) {a : List Nat}
    (ha : Elem c pv a) :
    Elem c pv (square c a) ∧
    (value (square c a) * B ^ c.n) % pv = (value a * value a) % pv :=
  square_spec h ha

/-- squaring agrees with multiplication -/
theorem square_eq_mul {c : MontCfg} {pv : Nat} (h : CfgOK c pv) {a : List Nat}
    (ha : Elem c pv a) : square c a = Mont.mul c a a :=
  Ark.Mont.square_eq_mul h ha

example : CfgOK (mkCfg false 1 (2 ^ 64 - 59)) (2 ^ 64 - 59) := by
  constructor <;> first | decide +kernel | exact toLimbs_wf _ _
example : CfgOK (mkCfg false 2 (2 ^ 128 - 159)) (2 ^ 128 - 159) := by
  constructor <;> first | decide +kernel | exact toLimbs_wf _ _
example : CfgOK (mkCfg true 2 (2 ^ 100 + 277)) (2 ^ 100 + 277) := by
  constructor <;> first | decide +kernel | exact toLimbs_wf _ _
example : Elem (mkCfg false 1 (2 ^ 64 - 59)) (2 ^ 64 - 59) [0x7fffffffffffffe2] := by
  constructor <;> first | decide +kernel | (unfold WF; decide +kernel)
example : Elem (mkCfg false 2 (2 ^ 128 - 159)) (2 ^ 128 - 159) (toLimbs 2 (2 ^ 128 - 1234567)) := by
  constructor <;> first | decide +kernel | exact toLimbs_wf _ _
example : Elem (mkCfg true 2 (2 ^ 100 + 277)) (2 ^ 100 + 277) (toLimbs 2 (2 ^ 100 + 276)) := by
  constructor <;> first | decide +kernel | exact toLimbs_wf _ _
-- N = 1 (delegates to `mul`), no spare bit, carry branch
example : square (mkCfg false 1 (2 ^ 64 - 59)) [0x7fffffffffffffe2] = [0x32fba9386822b631] := by
  decide +kernel
-- N = 2, no spare bit: `squareCore` returns the carry bit, `subtract_modulus_with_carry`
example : squareCore (mkCfg false 2 (2 ^ 128 - 159)) (toLimbs 2 (2 ^ 128 - 1234567))
    = ([4408655825941673091, 18330726815384334310], true) := by decide +kernel
example : square (mkCfg false 2 (2 ^ 128 - 159)) (toLimbs 2 (2 ^ 128 - 1234567))
    = [4408655825941673250, 18330726815384334310] := by decide +kernel
example : (value [4408655825941673250, 18330726815384334310] * B ^ 2) % (2 ^ 128 - 159)
    = ((2 ^ 128 - 1234567) * (2 ^ 128 - 1234567)) % (2 ^ 128 - 159) := by decide +kernel
-- N = 2, derived, no-carry flag set: the plain `subtract_modulus` branch
example : (mkCfg true 2 (2 ^ 100 + 277)).noCarry = true ∧
    square (mkCfg true 2 (2 ^ 100 + 277)) (toLimbs 2 (2 ^ 100 + 276))
      = [66594743948410051, 29117268675] := by decide +kernel

/-! ## 2. `into_bigint` -/

/-- `N` rotating reduction rows and NO final subtraction: for a canonical element `a` the result `r`
    is an `N`-limb integer with `r < p` and `r·R ≡ a (mod p)`, i.e. `r = a·R⁻¹ mod p`. -/
theorem into_bigint_correct {c : MontCfg} {pv : Nat} (h : CfgOK c pv) {a : List Nat}
    (ha : Elem c pv a) :
    Limbs c (intoBigint c a) ∧ value (intoBigint c a) < pv ∧
    (value (intoBigint c a) * B ^ c.n) % pv = value a % pv :=
  intoBigint_spec h ha

/-- one row divides by `2^64` exactly -/
theorem into_row_exact {c : MontCfg} {pv : Nat} (h : CfgOK c pv) {r : List Nat} (hr : Limbs c r) :
    Limbs c (intoRow c r) ∧ ∃ k, k < B ∧ value (intoRow c r) * B = value r + k * pv :=
  intoRow_spec h hr

example : Elem (mkCfg false 2 (2 ^ 128 - 159)) (2 ^ 128 - 159) (toLimbs 2 (2 ^ 128 - 160)) := by
  constructor <;> first | decide +kernel | exact toLimbs_wf _ _
example : intoBigint (mkCfg false 2 (2 ^ 128 - 159)) (toLimbs 2 (2 ^ 128 - 160))
    = [5336793882959996016, 5684845657935647982] := by decide +kernel
example : (value [5336793882959996016, 5684845657935647982] * B ^ 2) % (2 ^ 128 - 159)
    = (2 ^ 128 - 160) % (2 ^ 128 - 159) := by decide +kernel
example : intoBigint (mkCfg false 1 (2 ^ 64 - 59)) [B - 60] = [3751880150584993537] := by
  decide +kernel

/-! ## 3. `from_bigint` -/

/-- integers `≥ p` are rejected -/
theorem from_bigint_none {c : MontCfg} {pv : Nat} (h : CfgOK c pv) {x : List Nat} (hx : Limbs c x)
    (hge : pv ≤ value x) : fromBigint c x = none :=
  fromBigint_none h hx hge

/-- integers `< p` are mapped to their Montgomery form `x·R mod p` -/
theorem from_bigint_some {c : MontCfg} {pv : Nat} (h : CfgOK c pv) {x : List Nat} (hx : Limbs c x)
    (hlt : value x < pv) :
    ∃ r, fromBigint c x = some r ∧ Elem c pv r ∧ value r = (value x * B ^ c.n) % pv :=
  fromBigint_some h hx hlt

/-- round trip: `into_bigint (from_bigint x) = x` for `x < p` -/
theorem from_into_roundtrip {c : MontCfg} {pv : Nat} (h : CfgOK c pv) {x : List Nat}
    (hx : Limbs c x) (hlt : value x < pv) :
    ∃ r, fromBigint c x = some r ∧ intoBigint c r = x ∧ value (intoBigint c r) = value x := by
  obtain ⟨r, e1, e2, e3⟩ := fromBigint_some h hx hlt
  obtain ⟨i1, i2, i3⟩ := intoBigint_spec h e2
  have hv : value (intoBigint c r) = value x := by
    rw [e3] at i3
    exact from_mont_unique h hlt i2 i3
  exact ⟨r, e1, value_inj _ _ i1.wf hx.wf (by rw [i1.len, hx.len]) hv, hv⟩

/-- round trip: `from_bigint (into_bigint a) = a` for a canonical element `a` -/
theorem into_from_roundtrip {c : MontCfg} {pv : Nat} (h : CfgOK c pv) {a : List Nat}
    (ha : Elem c pv a) : fromBigint c (intoBigint c a) = some a := by
  obtain ⟨i1, i2, i3⟩ := intoBigint_spec h ha
  obtain ⟨r, e1, e2, e3⟩ := fromBigint_some h i1 i2
  rw [e1]
  congr 1
  apply value_inj _ _ e2.wf ha.wf (by rw [e2.len, ha.len])
  rw [e3, i3, Nat.mod_eq_of_lt ha.lt]

example : fromBigint (mkCfg false 2 (2 ^ 128 - 159)) (toLimbs 2 (2 ^ 128 - 159)) = none ∧
    fromBigint (mkCfg false 2 (2 ^ 128 - 159)) (toLimbs 2 (2 ^ 128 - 1)) = none ∧
    fromBigint (mkCfg false 2 (2 ^ 128 - 159)) (toLimbs 2 (2 ^ 128 - 160))
      = some [18446744073709551298, 18446744073709551615] := by decide +kernel
example : value [18446744073709551298, 18446744073709551615]
    = ((2 ^ 128 - 160) * B ^ 2) % (2 ^ 128 - 159) := by decide +kernel
example : intoBigint (mkCfg false 2 (2 ^ 128 - 159)) [18446744073709551298, 18446744073709551615]
    = toLimbs 2 (2 ^ 128 - 160) := by decide +kernel
example : Limbs (mkCfg false 2 (2 ^ 128 - 159)) (toLimbs 2 (2 ^ 128 - 1)) :=
  ⟨by decide +kernel, toLimbs_wf _ _⟩

/-! ## 4. `Fp::new` (the const path behind `MontFp!`) -/

/-- for ANY `N`-limb integer `x` (also `p ≤ x < R`), `Fp::new` returns the canonical Montgomery
    form of `x mod p`. -/
theorem fp_new_correct {c : MontCfg} {pv : Nat} (h : CfgOK c pv) {x : List Nat} (hx : Limbs c x) :
    Elem c pv (fpNew c x) ∧ value (fpNew c x) = (value x * B ^ c.n) % pv :=
  fpNew_spec h hx

/-- the separated CIOS stays below `2p` as soon as the product of the operands is below `R·p` —
    which is what makes an unreduced left operand harmless -/
theorem mul_cios_exact_gen {c : MontCfg} {pv : Nat} (h : CfgOK c pv) {a b : List Nat}
    (ha : Limbs c a) (hb : Limbs c b) (hab : value a * value b < B ^ c.n * pv) :
    Limbs c (mulCIOS c a b).1 ∧
    value (mulCIOS c a b).1 + (if (mulCIOS c a b).2 then B ^ c.n else 0) < 2 * pv ∧
    ((value (mulCIOS c a b).1 + (if (mulCIOS c a b).2 then B ^ c.n else 0)) * B ^ c.n) % pv
      = (value a * value b) % pv := by
  obtain ⟨s1, s2, m, _, s3⟩ := mulCIOS_spec_gen h ha hb hab
  exact ⟨s1, s2, by rw [s3, Nat.add_mul_mod_self_right]⟩

/-- on reduced input `Fp::new` and `from_bigint` agree -/
theorem fp_new_eq_from_bigint {c : MontCfg} {pv : Nat} (h : CfgOK c pv) {x : List Nat}
    (hx : Limbs c x) (hlt : value x < pv) : fromBigint c x = some (fpNew c x) := by
  obtain ⟨r, e1, e2, e3⟩ := fromBigint_some h hx hlt
  obtain ⟨f1, f2⟩ := fpNew_spec h hx
  rw [e1]
  congr 1
  exact value_inj _ _ e2.wf f1.wf (by rw [e2.len, f1.len]) (by rw [e3, f2])

-- unreduced inputs: `x = 2^128 - 1 ≥ p` and `x = 2^64 - 1 ≥ p`
example : fpNew (mkCfg false 2 (2 ^ 128 - 159)) (toLimbs 2 (2 ^ 128 - 1)) = [25122, 0] := by
  decide +kernel
example : value [25122, 0] = ((2 ^ 128 - 1) * B ^ 2) % (2 ^ 128 - 159) := by decide +kernel
example : fpNew (mkCfg false 1 (2 ^ 64 - 59)) [B - 1] = [3422] ∧
    3422 = ((B - 1) * B ^ 1) % (2 ^ 64 - 59) := by decide +kernel
example : Limbs (mkCfg false 1 (2 ^ 64 - 59)) [B - 1] :=
  ⟨by decide +kernel, by unfold WF; decide +kernel⟩

/-! ## 5. `sum_of_products` -/

/-- the interleaved branch is only taken when `modulusBits ≤ 64N − 2`; then every `M` up to the
    chunk size `2·(64N − bits) − 1` satisfies `(M+1)·p ≤ R`, the bound that keeps the wrapping carry
    words of the interleaved loops exact. -/
theorem sop_chunk_bound {c : MontCfg} {pv : Nat} (h : CfgOK c pv)
    (hbits : ¬ modulusBits c ≥ 64 * c.n - 1) {M : Nat}
    (hM : M ≤ 2 * (64 * c.n - modulusBits c) - 1) : (M + 1) * pv ≤ B ^ c.n :=
  Ark.Mont.sop_chunk_bound h hbits hM

/-- one outer step `j` of the two-carry-word variant: with `M` pairs, `(M+1)·p ≤ R` and a running
    value `< (M+1)·p`, the step is an exact Montgomery step on `result + Σᵢ aᵢ[j]·bᵢ` (no carry word
    wraps) and the bound is preserved. `stepAB` is the loop body of `sopInterleavedAB`
    (`sopInterleavedAB_eq`, by `rfl`). -/
theorem sop_step_ab_exact {c : MontCfg} {pv : Nat} (h : CfgOK c pv) {as bs : List (List Nat)}
    (ha : ∀ a ∈ as, Elem c pv a) (hb : ∀ b ∈ bs, Elem c pv b)
    (hM : ((as.zip bs).length + 1) * pv ≤ B ^ c.n) {result : List Nat} (hr : Limbs c result)
    (hrv : value result < ((as.zip bs).length + 1) * pv) (j : Nat) :
    Limbs c (stepAB c (as.zip bs) result j) ∧
    value (stepAB c (as.zip bs) result j) < ((as.zip bs).length + 1) * pv ∧
    ∃ k, k < B ∧ value (stepAB c (as.zip bs) result j) * B
      = value result + ((as.zip bs).map (fun ab => ab.1.getD j 0 * value ab.2)).sum + k * pv :=
  stepAB_spec h (pairsOK_zip ha hb) hM hr hrv j

/-- the same for the single-carry-word variant (`step1` is the loop body of `sopInterleaved1`) -/
theorem sop_step_1_exact {c : MontCfg} {pv : Nat} (h : CfgOK c pv) {as bs : List (List Nat)}
    (ha : ∀ a ∈ as, Elem c pv a) (hb : ∀ b ∈ bs, Elem c pv b)
    (hM : ((as.zip bs).length + 1) * pv ≤ B ^ c.n) {result : List Nat} (hr : Limbs c result)
    (hrv : value result < ((as.zip bs).length + 1) * pv) (j : Nat) :
    Limbs c (step1 c (as.zip bs) result j) ∧
    value (step1 c (as.zip bs) result j) < ((as.zip bs).length + 1) * pv ∧
    ∃ k, k < B ∧ value (step1 c (as.zip bs) result j) * B
      = value result + ((as.zip bs).map (fun ab => ab.1.getD j 0 * value ab.2)).sum + k * pv :=
  step1_spec h (pairsOK_zip ha hb) hM hr hrv j

theorem sop_loop_bodies (c : MontCfg) (as bs : List (List Nat)) :
    sopInterleavedAB c as bs = (List.range c.n).foldl (stepAB c (as.zip bs)) (zeros c.n) ∧
    sopInterleaved1 c as bs = (List.range c.n).foldl (step1 c (as.zip bs)) (zeros c.n) :=
  ⟨rfl, rfl⟩

/-- the interleaved variants followed by `subtract_modulus`, for at most `M` pairs with `(M+1)·p ≤ R` -/
theorem sop_interleaved_correct {c : MontCfg} {pv : Nat} (h : CfgOK c pv) {as bs : List (List Nat)}
    (ha : ∀ a ∈ as, Elem c pv a) (hb : ∀ b ∈ bs, Elem c pv b)
    (hM : ((as.zip bs).length + 1) * pv ≤ B ^ c.n) :
    (Elem c pv (subtractModulus c (sopInterleavedAB c as bs)) ∧
      (value (subtractModulus c (sopInterleavedAB c as bs)) * B ^ c.n) % pv
        = ((as.zip bs).map (fun ab => value ab.1 * value ab.2)).sum % pv) ∧
    (Elem c pv (subtractModulus c (sopInterleaved1 c as bs)) ∧
      (value (subtractModulus c (sopInterleaved1 c as bs)) * B ^ c.n) % pv
        = ((as.zip bs).map (fun ab => value ab.1 * value ab.2)).sum % pv) :=
  ⟨sopInterleavedAB_ok h ha hb hM, sopInterleaved1_ok h ha hb hM⟩

/-- the naive branch: `Σ aᵢ·bᵢ` with `mul` and `add` -/
theorem sop_naive_correct {c : MontCfg} {pv : Nat} (h : CfgOK c pv) {as bs : List (List Nat)}
    (ha : ∀ a ∈ as, Elem c pv a) (hb : ∀ b ∈ bs, Elem c pv b) :
    Elem c pv (sopNaive c as bs) ∧
    (value (sopNaive c as bs) * B ^ c.n) % pv
      = ((as.zip bs).map (fun ab => value ab.1 * value ab.2)).sum % pv :=
  sopNaive_ok h ha hb

/-- `sum_of_products`: for lists of canonical elements of equal length `M` (any `M`), on every branch
    of both flavours (naive; interleaved with two carry words; chunked), the result is a canonical
    element `x` with `x·R ≡ Σᵢ aᵢ·bᵢ (mod p)`. -/
theorem sum_of_products_correct {c : MontCfg} {pv : Nat} (h : CfgOK c pv) {as bs : List (List Nat)}
    (hlen : as.length = bs.length) (ha : ∀ a ∈ as, Elem c pv a) (hb : ∀ b ∈ bs, Elem c pv b) :
    Elem c pv (sumOfProducts c as bs) ∧
    (value (sumOfProducts c as bs) * B ^ c.n) % pv
      = ((as.zip bs).map (fun ab => value ab.1 * value ab.2)).sum % pv :=
  sumOfProducts_ok h hlen ha hb

-- a two-limb modulus of 126 bits: interleaved branch, chunk size 3; 7 pairs → chunks 3, 3, 1
example : CfgOK (mkCfg false 2 (2 ^ 126 - 137)) (2 ^ 126 - 137) := by
  constructor <;> first | decide +kernel | exact toLimbs_wf _ _
example : CfgOK (mkCfg true 2 (2 ^ 126 - 137)) (2 ^ 126 - 137) := by
  constructor <;> first | decide +kernel | exact toLimbs_wf _ _
example : modulusBits (mkCfg false 2 (2 ^ 126 - 137)) = 126 ∧
    2 * (64 * 2 - 126) - 1 = 3 := by decide +kernel
example : ∀ a ∈ (List.range 7).map (fun i => toLimbs 2 (2 ^ 126 - 138 - i)),
    Elem (mkCfg false 2 (2 ^ 126 - 137)) (2 ^ 126 - 137) a := by
  intro a ha
  simp only [List.mem_map, List.mem_range] at ha
  obtain ⟨i, hi, rfl⟩ := ha
  refine ⟨toLimbs_length _ _, toLimbs_wf _ _, ?_⟩
  rw [toLimbs_value]
  have : (2 : Nat) ^ 126 - 138 - i < 2 ^ 126 - 137 := by omega
  exact Nat.lt_of_le_of_lt (Nat.mod_le _ _) this
example : ∀ b ∈ (List.range 7).map (fun i => toLimbs 2 (2 ^ 126 - 200 - 3 * i)),
    Elem (mkCfg true 2 (2 ^ 126 - 137)) (2 ^ 126 - 137) b := by
  intro b hb
  simp only [List.mem_map, List.mem_range] at hb
  obtain ⟨i, hi, rfl⟩ := hb
  refine ⟨toLimbs_length _ _, toLimbs_wf _ _, ?_⟩
  rw [toLimbs_value]
  have : (2 : Nat) ^ 126 - 200 - 3 * i < 2 ^ 126 - 137 := by omega
  exact Nat.lt_of_le_of_lt (Nat.mod_le _ _) this
-- the hypothesis `(M+1)·p ≤ R` of the interleaved theorems at the chunk size `M = 3`
example : (3 + 1) * (2 ^ 126 - 137) ≤ B ^ (mkCfg false 2 (2 ^ 126 - 137)).n := by decide +kernel
-- trait default, M = 7: three chunks, each through the single-carry-word variant
example : sumOfProducts (mkCfg false 2 (2 ^ 126 - 137))
    ((List.range 7).map (fun i => toLimbs 2 (2 ^ 126 - 138 - i)))
    ((List.range 7).map (fun i => toLimbs 2 (2 ^ 126 - 200 - 3 * i)))
    = [12656890094370057192, 4207742717543237138] := by decide +kernel
-- derived, M = 7: two full chunks through the two-carry-word variant, the rest naive
example : sumOfProducts (mkCfg true 2 (2 ^ 126 - 137))
    ((List.range 7).map (fun i => toLimbs 2 (2 ^ 126 - 138 - i)))
    ((List.range 7).map (fun i => toLimbs 2 (2 ^ 126 - 200 - 3 * i)))
    = [12656890094370057192, 4207742717543237138] := by decide +kernel
example : (value [12656890094370057192, 4207742717543237138] * B ^ 2) % (2 ^ 126 - 137)
    = (((List.range 7).map (fun i => (2 ^ 126 - 138 - i) * (2 ^ 126 - 200 - 3 * i))).sum)
        % (2 ^ 126 - 137) := by decide +kernel
-- trait default, M = 2 (two carry words); derived, M = 3 ≤ chunk
example : sumOfProducts (mkCfg false 2 (2 ^ 126 - 137))
    [toLimbs 2 (2 ^ 126 - 138), toLimbs 2 (2 ^ 126 - 139)]
    [toLimbs 2 (2 ^ 126 - 200), toLimbs 2 (2 ^ 126 - 203)]
    = [5655206212378110664, 1708343543322554278] := by decide +kernel
example : (value [5655206212378110664, 1708343543322554278] * B ^ 2) % (2 ^ 126 - 137)
    = ((2 ^ 126 - 138) * (2 ^ 126 - 200) + (2 ^ 126 - 139) * (2 ^ 126 - 203)) % (2 ^ 126 - 137) := by
  decide +kernel
-- the interleaved loop really leaves a value in `[p, 2p)` for `subtract_modulus` to fix
example : (2 ^ 126 - 137) ≤ value (sopInterleaved1 (mkCfg false 2 (2 ^ 126 - 137))
    ((List.range 3).map (fun i => toLimbs 2 (2 ^ 126 - 138 - i)))
    ((List.range 3).map (fun i => toLimbs 2 (2 ^ 126 - 200 - 3 * i)))) := by decide +kernel
-- naive branch (no spare bits to exploit)
example : modulusBits (mkCfg false 2 (2 ^ 128 - 159)) ≥ 64 * 2 - 1 := by decide +kernel
example : (value (sumOfProducts (mkCfg false 2 (2 ^ 128 - 159))
    [toLimbs 2 (2 ^ 128 - 160), toLimbs 2 12345] [toLimbs 2 (2 ^ 128 - 161), toLimbs 2 (2 ^ 127)])
      * B ^ 2) % (2 ^ 128 - 159)
    = ((2 ^ 128 - 160) * (2 ^ 128 - 161) + 12345 * 2 ^ 127) % (2 ^ 128 - 159) := by decide +kernel

end Ark.C01
