import Ark.Proofs.PairingApi
import Ark.Props.C06
/-
  Ark.Props.C06b — the rest of the public API of `ec/src/pairing.rs` (section `api` of
  `Ark.Model.Pairing`): `MillerLoopOutput * scalar`, `Valid::check` / `batch_check`,
  `CanonicalDeserialize`, `Sum`, `mul_bigint`, the repaired `mul_bits_be`, `Neg`, `Sub`,
  `double_in_place`, `Zeroize`, `generator`.

  Hypotheses as in `Ark/Props/C06.lean`: `L : TargetLawful DT C` (the target-field dictionary squares,
  inverts, conjugates), `CL : CycLawful L` (the cyclotomic subgroup `CL.Cyc`, on which
  `cyclotomic_exp` exponentiates), `WF e` (the limbs are `u64`s).  The target group is
  `GT = {x | x ^ r = 1}`; `GT ⊆ CL.Cyc` is the hypothesis `hGT : ∀ x, x ^ r = 1 → x ∈ CL.Cyc`
  (every theorem is first stated for `a ∈ CL.Cyc`, the form used by `C06.lean`).
  `bitsValBE` is `Ark.bitsValBE` (`Ark/Proofs/FieldOps.lean`): the number denoted by a big-endian
  bit list.  Toy targets: `ℚ`, `ZMod 13` (`primeTarget`, `primeCyc`: `Cyc` = the non-zero elements;
  in `ZMod 13` the elements killed by `r = 3` are `{1, 3, 9}`), and `ℚ(i)` (`Ex.LQi`, `Ex.CLQi`).
-/
namespace Ark.C06b
open Ark Ark.Ext Ark.Pairing Ark.PairingP Ark.ExtB Ark.PairingApi Ark.C06
set_option linter.unusedSectionVars false
set_option linter.style.haveILetI false

local instance fact13 : Fact (Nat.Prime 13) := ⟨by decide⟩

/-! ## 1. `Field::pow`, `MillerLoopOutput * scalar` -/

section pow
variable {P T : Type} [Field T] [DecidableEq T] {DT : FieldD P T} {C : CycD T}

/-- `Field::pow` on the target field: for EVERY `a` (also `0`, where `0 ^ 0 = 1`) -/
theorem field_pow_eq (L : TargetLawful DT C) (a : T) (e : List Nat) (he : WF e) :
    fieldPow DT a e = a ^ value e :=
  fieldPow_eq DT L.square_eq a e he

/-- `MillerLoopOutput * scalar = f ^ scalar` -/
theorem miller_loop_output_mul_eq (L : TargetLawful DT C) (f : T) (s : List Nat) (hs : WF s) :
    mloMul DT f s = f ^ value s :=
  fieldPow_eq DT L.square_eq f s hs

example : mloMul (primeD (ZMod 13)) 2 [5] = 6 ∧ ((2 : ZMod 13) ^ value [5] = 6) ∧ WF [5] := by
  refine ⟨by decide +kernel, by decide +kernel, by unfold WF; decide +kernel⟩
example : fieldPow (primeD (ZMod 13)) 2 [5] = 2 ^ value [5] :=
  field_pow_eq (primeTarget (ZMod 13)) 2 [5] (by unfold WF; decide +kernel)
/-- two limbs; zero base with zero exponent -/
example : fieldPow (primeD (ZMod 13)) 2 [1, 1] = 6 ∧ fieldPow (primeD (ZMod 13)) 0 [0, 0] = 1 := by
  decide +kernel

end pow

section fe12
variable {P F G T : Type} [Add G] [Sub G] [Mul G] [Neg G] [Field T] [DecidableEq T]

/-- **BLS12**: `final_exponentiation (f * s) = (final_exponentiation f) ^ s`, where `opow` is the
    `value s`-fold `omul` (`opow x 0 = Some 1`: indeed `0 ^ 0 = 1` in `Field::pow`) -/
theorem bls12_final_exponentiation_mlo_mul (E : Bls12 P F G T) (L : TargetLawful E.DT E.C)
    (CL : CycLawful L) (hx : WF E.x) (hEasy : ∀ f, f ≠ 0 → easy12 L f ∈ CL.Cyc) (f : T)
    (s : List Nat) (hs : WF s) :
    Bls12.finalExponentiation E (mloMul E.DT f s) =
      opow (Bls12.finalExponentiation E f) (value s) := by
  rw [miller_loop_output_mul_eq L f s hs]
  exact fe_pow_of_mul _ (bls12_final_exponentiation_mul E L CL hx hEasy)
    (fe_one_of_eq _ (Bls12.feVal_one E L) _ (bls12_final_exponentiation_eq E L CL hx hEasy)) f _

/-- … in plain form: if `final_exponentiation f = Some w` then
    `final_exponentiation (f * s) = Some (w ^ s)` -/
theorem bls12_final_exponentiation_mlo_mul_some (E : Bls12 P F G T) (L : TargetLawful E.DT E.C)
    (CL : CycLawful L) (hx : WF E.x) (hEasy : ∀ f, f ≠ 0 → easy12 L f ∈ CL.Cyc) (f w : T)
    (s : List Nat) (hs : WF s) (hw : Bls12.finalExponentiation E f = .ok (some w)) :
    Bls12.finalExponentiation E (mloMul E.DT f s) = .ok (some (w ^ value s)) := by
  rw [bls12_final_exponentiation_mlo_mul E L CL hx hEasy f s hs, hw, opow_some]

/-- **BN** -/
theorem bn_final_exponentiation_mlo_mul (E : Bn P F G T) (L : TargetLawful E.DT E.C)
    (CL : CycLawful L) (hx : WF E.x) (hEasy : ∀ f, f ≠ 0 → easy12 L f ∈ CL.Cyc) (f : T)
    (s : List Nat) (hs : WF s) :
    Bn.finalExponentiation E (mloMul E.DT f s) = opow (Bn.finalExponentiation E f) (value s) := by
  rw [miller_loop_output_mul_eq L f s hs]
  exact fe_pow_of_mul _ (bn_final_exponentiation_mul E L CL hx hEasy)
    (fe_one_of_eq _ (Bn.feVal_one E L) _ (bn_final_exponentiation_eq E L CL hx hEasy)) f _

theorem bn_final_exponentiation_mlo_mul_some (E : Bn P F G T) (L : TargetLawful E.DT E.C)
    (CL : CycLawful L) (hx : WF E.x) (hEasy : ∀ f, f ≠ 0 → easy12 L f ∈ CL.Cyc) (f w : T)
    (s : List Nat) (hs : WF s) (hw : Bn.finalExponentiation E f = .ok (some w)) :
    Bn.finalExponentiation E (mloMul E.DT f s) = .ok (some (w ^ value s)) := by
  rw [bn_final_exponentiation_mlo_mul E L CL hx hEasy f s hs, hw, opow_some]

/-- satisfiable (target `ℚ`): `fe (2 * [3]) = (fe 2) ^ 3`, computed by the model -/
example : Bls12.finalExponentiation Ex.bls (mloMul Ex.bls.DT 2 [3]) =
    opow (Bls12.finalExponentiation Ex.bls 2) (value [3]) :=
  bls12_final_exponentiation_mlo_mul Ex.bls (primeTarget ℚ) (primeCyc ℚ)
    (by unfold WF; decide +kernel) (primeCyc_easy12 ℚ) 2 [3] (by unfold WF; decide +kernel)
example : Bn.finalExponentiation Ex.bn (mloMul Ex.bn.DT 2 [3]) =
    opow (Bn.finalExponentiation Ex.bn 2) (value [3]) :=
  bn_final_exponentiation_mlo_mul Ex.bn (primeTarget ℚ) (primeCyc ℚ)
    (by unfold WF; decide +kernel) (primeCyc_easy12 ℚ) 2 [3] (by unfold WF; decide +kernel)
/-- the exceptional corner: `0 * 0 = 0 ^ 0 = 1`, whose final exponentiation is `Some 1`,
    although `final_exponentiation 0 = None` -/
example : Bls12.finalExponentiation Ex.bls (mloMul Ex.bls.DT 0 [0]) = .ok (some 1) ∧
    Bls12.finalExponentiation Ex.bls 0 = .ok none := by decide +kernel

end fe12

section fe6
variable {P F T : Type} [Add F] [Sub F] [Mul F] [Neg F] [Field T] [DecidableEq T]

/-- **BW6** (where `final_exponentiation 0` panics) -/
theorem bw6_final_exponentiation_mlo_mul (E : Bw6 P F T) (L : TargetLawful E.DT E.C)
    (CL : CycLawful L) (hx : WF E.x) (hx3 : WF E.xMinus1Div3) (hconj : ∀ f, E.conj f = L.conj f)
    (hEasy : ∀ f, f ≠ 0 → easy6 L f ∈ CL.Cyc) (f : T) (s : List Nat) (hs : WF s) :
    Bw6.finalExponentiation E (mloMul E.DT f s) = opow (Bw6.finalExponentiation E f) (value s) := by
  rw [miller_loop_output_mul_eq L f s hs]
  exact fe_pow_of_mul _ (bw6_final_exponentiation_mul E L CL hx hx3 hconj hEasy)
    (fe_one_of_eq' _ (Bw6.feVal_one E L) _
      (bw6_final_exponentiation_eq E L CL hx hx3 hconj hEasy)) f _

theorem bw6_final_exponentiation_mlo_mul_some (E : Bw6 P F T) (L : TargetLawful E.DT E.C)
    (CL : CycLawful L) (hx : WF E.x) (hx3 : WF E.xMinus1Div3) (hconj : ∀ f, E.conj f = L.conj f)
    (hEasy : ∀ f, f ≠ 0 → easy6 L f ∈ CL.Cyc) (f w : T) (s : List Nat) (hs : WF s)
    (hw : Bw6.finalExponentiation E f = .ok (some w)) :
    Bw6.finalExponentiation E (mloMul E.DT f s) = .ok (some (w ^ value s)) := by
  rw [bw6_final_exponentiation_mlo_mul E L CL hx hx3 hconj hEasy f s hs, hw, opow_some]

example (o t : Bool) : Bw6.finalExponentiation (Ex.bw6 o t) (mloMul (Ex.bw6 o t).DT 2 [3]) =
    opow (Bw6.finalExponentiation (Ex.bw6 o t) 2) (value [3]) :=
  bw6_final_exponentiation_mlo_mul (Ex.bw6 o t) (primeTarget ℚ) (primeCyc ℚ)
    (by show WF [2]; unfold WF; decide +kernel) (by show WF [1]; unfold WF; decide +kernel)
    (fun _ => rfl) (primeCyc_easy6 ℚ) 2 [3] (by unfold WF; decide +kernel)

end fe6

section feMnt
variable {P F G : Type} [Zero F] [DecidableEq F] [Field G] [DecidableEq G]
  (cfg : QuadCfg G) (B : FieldD P G) (hB : BaseLawful B) (hc : QuadLawful cfg)
  (hnr : ∀ x : G, x * x ≠ cfg.nonresidue)

/-- **MNT4 / MNT6** -/
theorem mnt_final_exponentiation_mlo_mul :
    letI := Quad.field cfg B hB hc hnr
    ∀ (E : Mnt P F G) (L : TargetLawful E.DT E.C) (CL : CycLawful L)
      (_h1 : WF E.finalExponentLastChunk1) (_h0 : WF E.finalExponentLastChunkAbsOfW0)
      (_hEasy : ∀ f : Quad G, f ≠ 0 → Mnt.firstVal L E.isMnt6 f f⁻¹ ∈ CL.Cyc) (f : Quad G)
      (s : List Nat) (_hs : WF s),
      Mnt.finalExponentiation E (mloMul E.DT f s) =
        opow (Mnt.finalExponentiation E f) (value s) := by
  letI := Quad.field cfg B hB hc hnr
  intro E L CL h1 h0 hEasy f s hs
  rw [miller_loop_output_mul_eq L f s hs]
  exact fe_pow_of_mul _ (mnt_final_exponentiation_mul cfg B hB hc hnr E L CL h1 h0 hEasy)
    (fe_one_of_eq _ (Mnt.feVal_one L _ _ _ _) _
      (mnt_final_exponentiation_eq cfg B hB hc hnr E L CL h1 h0 hEasy)) f _

/-- satisfiable over `ℚ(i)` -/
example :
    letI := Ex.fieldQi
    Mnt.finalExponentiation Ex.mnt (mloMul Ex.mnt.DT ⟨1, 2⟩ [3]) =
      opow (Mnt.finalExponentiation Ex.mnt ⟨1, 2⟩) (value [3]) := by
  letI := Ex.fieldQi
  exact mnt_final_exponentiation_mlo_mul Ex.c2.wrap (primeD ℚ) primeD_lawful Ex.c2_lawful
    Ex.c2_nonsq Ex.mnt Ex.LQi Ex.CLQi (by unfold WF; decide +kernel) (by unfold WF; decide +kernel)
    (fun f hf =>
      quad_conj_mul_inv_norm Ex.c2.wrap (primeD ℚ) primeD_lawful Ex.c2_lawful Ex.c2_nonsq f hf)
    ⟨1, 2⟩ [3] (by unfold WF; decide +kernel)

end feMnt

/-! ## 2.–4. `Valid::check`, `batch_check`, `CanonicalDeserialize` -/

section valid
variable {P T : Type} [Field T] [DecidableEq T] {DT : FieldD P T} {C : CycD T}

/-- `check` accepts exactly the elements killed by `r` (`r` = the limbs of the scalar-field
    characteristic) -/
theorem out_check_iff (L : TargetLawful DT C) (r : List Nat) (hr : WF r) (a : T) :
    outCheck DT r a = true ↔ a ^ value r = 1 :=
  outCheck_iff DT L.square_eq r hr a

/-- the all-zero field element (e.g. after `zeroize`) is rejected, unless `r = 0` -/
theorem out_check_zero (L : TargetLawful DT C) (r : List Nat) (hr : WF r) :
    outCheck DT r (0 : T) = true ↔ value r = 0 := by
  rw [out_check_iff L r hr]
  constructor
  · intro h
    by_contra hne
    rw [zero_pow hne] at h
    exact zero_ne_one h
  · intro h; rw [h, pow_zero]

example : outCheck (primeD (ZMod 13)) [3] 9 = true ∧ (9 : ZMod 13) ^ value [3] = 1 ∧
    outCheck (primeD (ZMod 13)) [3] 2 = false ∧ outCheck (primeD (ZMod 13)) [3] 0 = false := by
  decide +kernel
example : outCheck (primeD (ZMod 13)) [3] 9 = true ↔ (9 : ZMod 13) ^ value [3] = 1 :=
  out_check_iff (primeTarget (ZMod 13)) [3] (by unfold WF; decide +kernel) 9

/-- `batch_check` (the serial trait default): every member is checked -/
theorem out_batch_check_iff (L : TargetLawful DT C) (r : List Nat) (hr : WF r) (l : List T) :
    outBatchCheck DT r l = true ↔ ∀ x ∈ l, x ^ value r = 1 :=
  outBatchCheck_iff DT L.square_eq r hr l

example : outBatchCheck (primeD (ZMod 13)) [3] [1, 3, 9, 3] = true ∧
    outBatchCheck (primeD (ZMod 13)) [3] [1, 3, 2, 9] = false := by decide +kernel

/-- the product shortcut ("check the product of the batch") is UNSOUND: for any `x ≠ 0` outside the
    target group the batch `[x, x⁻¹]` has a product that passes `check`, but `batch_check` rejects -/
theorem out_batch_check_product_unsound (L : TargetLawful DT C) (r : List Nat) (hr : WF r) (x : T)
    (hx : x ≠ 0) (hxr : x ^ value r ≠ 1) :
    outCheck DT r ([x, x⁻¹].prod) = true ∧ outBatchCheck DT r [x, x⁻¹] = false := by
  constructor
  · rw [out_check_iff L r hr]
    simp [hx]
  · cases h : outBatchCheck DT r [x, x⁻¹]
    · rfl
    · exact absurd ((out_batch_check_iff L r hr _).1 h x (by simp)) hxr

/-- the concrete witness in `ZMod 13`, `r = 3`: `2 ^ 3 = 8`, `7 = 2⁻¹`, `7 ^ 3 = 5`, `2 · 7 = 1` -/
example : (2 : ZMod 13)⁻¹ = 7 ∧
    outCheck (primeD (ZMod 13)) [3] (([2, 2⁻¹] : List (ZMod 13)).prod) = true ∧
    outCheck (primeD (ZMod 13)) [3] (2 : ZMod 13) = false ∧
    outCheck (primeD (ZMod 13)) [3] (2⁻¹ : ZMod 13) = false ∧
    outBatchCheck (primeD (ZMod 13)) [3] [2, 2⁻¹] = false := by
  have h : (2 : ZMod 13)⁻¹ = 7 := inv_eq_of_mul_eq_one_right (by decide)
  rw [h]
  exact ⟨rfl, by decide +kernel, by decide +kernel, by decide +kernel, by decide +kernel⟩
example : outCheck (primeD (ZMod 13)) [3] (([2, 2⁻¹] : List (ZMod 13)).prod) = true ∧
    outBatchCheck (primeD (ZMod 13)) [3] [2, 2⁻¹] = false :=
  out_batch_check_product_unsound (primeTarget (ZMod 13)) [3] (by unfold WF; decide +kernel) 2
    (by decide) (by decide +kernel)

/-- `deserialize_with_mode(.., Validate::Yes)`: the decoded field element `f` is returned iff
    `f ^ r = 1`; otherwise the error is `InvalidData` -/
theorem out_deserialize_validate_iff (L : TargetLawful DT C) (r : List Nat) (hr : WF r) (f : T) :
    outDeserialize DT r (.ok f) true = .ok f ↔ f ^ value r = 1 :=
  outDeserialize_ok_iff DT L.square_eq r hr f

theorem out_deserialize_validate (L : TargetLawful DT C) (r : List Nat) (hr : WF r) (f : T) :
    outDeserialize DT r (.ok f) true = if f ^ value r = 1 then .ok f else .error "invalid" :=
  outDeserialize_validate DT L.square_eq r hr f

/-- `Validate::No`: every decoded field element is accepted (also outside the group, also `0`);
    a decoding error of the field is passed on in both modes -/
theorem out_deserialize_no_validate (r : List Nat) (f : T) (e : String) (v : Bool) :
    outDeserialize DT r (.ok f) false = .ok f ∧ outDeserialize DT r (.error e) v = .error e :=
  ⟨rfl, rfl⟩

example : outDeserialize (primeD (ZMod 13)) [3] (.ok 9) true = .ok 9 ∧
    outDeserialize (primeD (ZMod 13)) [3] (.ok 2) true = .error "invalid" ∧
    outDeserialize (primeD (ZMod 13)) [3] (.ok 2) false = .ok 2 := by decide +kernel

end valid

/-! ## 5. `Sum` -/

section sum
variable {T : Type} [Field T] [DecidableEq T]

/-- `Sum` is the product of the target-field elements (the empty sum is `zero() = 1`) -/
theorem out_sum_eq_prod (l : List T) : outSum l = l.prod := outSum_eq_prod l

example : outSum ([3, 9, 9] : List (ZMod 13)) = 9 ∧ (([3, 9, 9] : List (ZMod 13)).prod = 9) ∧
    outSum ([] : List (ZMod 13)) = outZero := by decide +kernel

end sum

/-! ## 6. `cyclotomic_exp`, `mul_bigint` -/

section mulBigint
variable {P T : Type} [Field T] [DecidableEq T] {DT : FieldD P T} {C : CycD T}
  {L : TargetLawful DT C}

/-- `cyclotomic_exp` exponentiates on the cyclotomic subgroup (limb lists of any length) -/
theorem cyc_exp_eq (CL : CycLawful L) {a : T} (ha : a ∈ CL.Cyc) (e : List Nat) (he : WF e) :
    cycExp C a e = .ok (a ^ value e) := CL.cycExp_eq a ha e he

/-- … and returns `0` on `0` whatever the exponent (for the exponent `0`: not `0 ^ 0 = 1`) -/
theorem cyc_exp_zero (e : List Nat) : cycExp C (0 : T) e = .ok 0 := cycExp_zero C e

theorem out_mul_bigint_eq (CL : CycLawful L) {a : T} (ha : a ∈ CL.Cyc) (e : List Nat) (he : WF e) :
    outMulBigint C a e = .ok (a ^ value e) := CL.cycExp_eq a ha e he

/-- `mul_bigint` on `GT = {x | x ^ r = 1}`: the result is `a ^ e = a ^ (e mod r)`, again in `GT` -/
theorem out_mul_bigint_gt (CL : CycLawful L) (r : ℕ) (hGT : ∀ x : T, x ^ r = 1 → x ∈ CL.Cyc)
    {a : T} (har : a ^ r = 1) (e : List Nat) (he : WF e) :
    outMulBigint C a e = .ok (a ^ value e) ∧ a ^ value e = a ^ (value e % r) ∧
      (a ^ value e) ^ r = 1 :=
  ⟨out_mul_bigint_eq CL (hGT a har) e he, pow_mod_of_pow_eq_one har _, pow_pow_eq_one har _⟩

/-- scalars that agree modulo `r` (limb lists of any lengths: `e`, `e + r`, …) act in the same way -/
theorem out_mul_bigint_congr (CL : CycLawful L) (r : ℕ) (hGT : ∀ x : T, x ^ r = 1 → x ∈ CL.Cyc)
    {a : T} (har : a ^ r = 1) (e₁ e₂ : List Nat) (h₁ : WF e₁) (h₂ : WF e₂)
    (h : value e₁ % r = value e₂ % r) : outMulBigint C a e₁ = outMulBigint C a e₂ := by
  rw [out_mul_bigint_eq CL (hGT a har) e₁ h₁, out_mul_bigint_eq CL (hGT a har) e₂ h₂,
    pow_mod_of_pow_eq_one har (value e₁), pow_mod_of_pow_eq_one har (value e₂), h]

/-- the scalars `r` and `r + 1` -/
theorem out_mul_bigint_order (CL : CycLawful L) (r : ℕ) (hGT : ∀ x : T, x ^ r = 1 → x ∈ CL.Cyc)
    {a : T} (har : a ^ r = 1) (e : List Nat) (he : WF e) :
    (value e = r → outMulBigint C a e = .ok outZero) ∧
    (value e = r + 1 → outMulBigint C a e = .ok a) := by
  have h := out_mul_bigint_eq CL (hGT a har) e he
  refine ⟨fun hv => ?_, fun hv => ?_⟩
  · rw [h, hv, har]; rfl
  · rw [h, hv, pow_succ, har, one_mul]

/-- the module laws (group written additively: `outAdd = *`, `outZero = 1`) -/
theorem out_mul_bigint_laws (CL : CycLawful L) {a b : T} (ha : a ∈ CL.Cyc) (hb : b ∈ CL.Cyc)
    (e e₁ e₂ : List Nat) (he : WF e) (h₂ : WF e₂) :
    (value e = 0 → outMulBigint C a e = .ok outZero) ∧
    (value e = 1 → outMulBigint C a e = .ok a) ∧
    (value e = value e₁ + value e₂ →
      outMulBigint C a e = .ok (outAdd (a ^ value e₁) (a ^ value e₂))) ∧
    (value e = value e₁ * value e₂ → outMulBigint C a e = outMulBigint C (a ^ value e₁) e₂) ∧
    outMulBigint C (outAdd a b) e = .ok (outAdd (a ^ value e) (b ^ value e)) ∧
    outMulBigint C (outZero : T) e = .ok outZero := by
  have h := out_mul_bigint_eq CL ha e he
  refine ⟨fun hv => ?_, fun hv => ?_, fun hv => ?_, fun hv => ?_, ?_, ?_⟩
  · rw [h, hv, pow_zero]; rfl
  · rw [h, hv, pow_one]
  · rw [h, hv, pow_add]; rfl
  · rw [h, hv, out_mul_bigint_eq CL (CL.pow_mem ha _) e₂ h₂, pow_mul]
  · show outMulBigint C (a * b) e = _
    rw [out_mul_bigint_eq CL (CL.mul_mem ha hb) e he, mul_pow]; rfl
  · show outMulBigint C (1 : T) e = .ok 1
    rw [out_mul_bigint_eq CL CL.Cyc.one_mem e he, one_pow]

/-- non-vacuity in `ZMod 13`, `r = 3`, `GT = {1, 3, 9} ⊆ Cyc = (ZMod 13)ˣ`: one, two and three limbs,
    the scalars `r` and `r + 1` -/
example : ∀ x : ZMod 13, x ^ 3 = 1 → x ∈ (primeCyc (ZMod 13)).Cyc := by
  intro x hx
  show x ≠ 0
  rintro rfl
  exact absurd hx (by decide)
example : outMulBigint (CycD.default (primeD (ZMod 13))) 3 [5] = .ok 9 ∧
    outMulBigint (CycD.default (primeD (ZMod 13))) 3 [1, 1] = .ok 9 ∧
    outMulBigint (CycD.default (primeD (ZMod 13))) 3 [2, 0, 0] = .ok 9 ∧
    outMulBigint (CycD.default (primeD (ZMod 13))) 3 [3] = .ok 1 ∧
    outMulBigint (CycD.default (primeD (ZMod 13))) 3 [4] = .ok 3 ∧
    outMulBigint (CycD.default (primeD (ZMod 13))) 3 [] = .ok 1 := by decide +kernel
example : outMulBigint (CycD.default (primeD (ZMod 13))) 3 [1, 1] = .ok (3 ^ value [1, 1]) ∧
    (3 : ZMod 13) ^ value [1, 1] = 3 ^ (value [1, 1] % 3) ∧ ((3 : ZMod 13) ^ value [1, 1]) ^ 3 = 1 :=
  out_mul_bigint_gt (primeCyc (ZMod 13)) 3
    (fun x hx => by
      show x ≠ 0
      rintro rfl
      exact absurd hx (by decide))
    (by decide) [1, 1] (by unfold WF; decide +kernel)
/-- … and over `ℚ(i)` with the NAF branch (`INVERSE_IS_FAST`): `i ∈` unit circle, `i ^ 4 = 1` -/
example :
    letI := Ex.fieldQi
    outMulBigint (CycD.conj (Quad.fieldD Ex.c2.wrap (primeD ℚ)) none) ⟨0, 1⟩ [7] =
      .ok ((⟨0, 1⟩ : Quad ℚ) ^ value [7]) := by
  letI := Ex.fieldQi
  exact out_mul_bigint_eq Ex.CLQi (a := ⟨0, 1⟩)
    (by show Quad.norm Ex.c2.wrap (primeD ℚ) ⟨0, 1⟩ = 1; decide +kernel) [7]
    (by unfold WF; decide +kernel)
example :
    letI := Ex.fieldQi
    outMulBigint (CycD.conj (Quad.fieldD Ex.c2.wrap (primeD ℚ)) none) ⟨0, 1⟩ [7] = .ok ⟨0, -1⟩ := by
  decide +kernel

end mulBigint

/-! ## 7. the repaired `mul_bits_be` -/

section mulBits
variable {P T : Type} [Field T] [DecidableEq T] {DT : FieldD P T} {C : CycD T}
  {L : TargetLawful DT C}

/-- the limbs rebuilt from the big-endian bit iterator denote the big-endian value of the bits (any
    number of bits, leading zeros allowed), and every limb is a `u64` -/
theorem bits_to_limbs_value (bits : List Bool) :
    value (bitsToLimbsAsCoded bits) = bitsValBE bits ∧ WF (bitsToLimbsAsCoded bits) :=
  bitsToLimbsAsCoded_spec bits

/-- … in particular the bits of a `BigInt` are converted back to (limbs denoting) its value -/
theorem bits_to_limbs_toBitsBE (e : List Nat) (he : WF e) :
    value (bitsToLimbsAsCoded (toBitsBE e)) = value e := by
  rw [(bitsToLimbsAsCoded_spec _).1, bitsValBE_toBitsBE e he]

/-- `mul_bits_be(bits) = a ^ (big-endian value of bits)` on the cyclotomic subgroup -/
theorem out_mul_bits_be_eq (CL : CycLawful L) {a : T} (ha : a ∈ CL.Cyc) (bits : List Bool) :
    outMulBitsBE C a bits = .ok (a ^ bitsValBE bits) := outMulBitsBE_eq CL ha bits

/-- … hence on `GT`, where it agrees with `mul_bigint` of any limbs of the same value mod `r` -/
theorem out_mul_bits_be_gt (CL : CycLawful L) (r : ℕ) (hGT : ∀ x : T, x ^ r = 1 → x ∈ CL.Cyc)
    {a : T} (har : a ^ r = 1) (bits : List Bool) :
    outMulBitsBE C a bits = .ok (a ^ bitsValBE bits) ∧ (a ^ bitsValBE bits) ^ r = 1 ∧
    ∀ e, WF e → value e % r = bitsValBE bits % r → outMulBitsBE C a bits = outMulBigint C a e := by
  refine ⟨outMulBitsBE_eq CL (hGT a har) bits, pow_pow_eq_one har _, fun e he h => ?_⟩
  rw [outMulBitsBE_eq CL (hGT a har) bits, out_mul_bigint_eq CL (hGT a har) e he,
    pow_mod_of_pow_eq_one har (value e), pow_mod_of_pow_eq_one har (bitsValBE bits), h]

/-- `mul_bits_be(BitIteratorBE::new(e)) = mul_bigint(e)` -/
theorem out_mul_bits_be_toBitsBE (CL : CycLawful L) {a : T} (ha : a ∈ CL.Cyc) (e : List Nat)
    (he : WF e) : outMulBitsBE C a (toBitsBE e) = outMulBigint C a e := by
  rw [outMulBitsBE_eq CL ha, out_mul_bigint_eq CL ha e he, bitsValBE_toBitsBE e he]

/-- documentation of the repaired defect: the OLD conversion (no `reverse`) produced limbs denoting
    the value of the REVERSED bit string — `e.mul_bits_be([1, 0])` was `e`, not `2 e` -/
theorem bits_to_limbs_old_defect :
    (∀ bits, value (bitsToLimbsOld bits) = bitsValBE bits.reverse) ∧
    value (bitsToLimbsOld [true, false]) = 1 ∧ (1 : ℕ) ≠ 2 ∧ bitsValBE [true, false] = 2 ∧
    value (bitsToLimbsAsCoded [true, false]) = 2 :=
  ⟨bitsToLimbsOld_value, bitsToLimbsOld_witness.1, by decide, bitsToLimbsOld_witness.2.1,
    bitsToLimbsOld_witness.2.2⟩

example : bitsToLimbsAsCoded [true, false, true, true] = [11] ∧
    bitsValBE [true, false, true, true] = 11 ∧ bitsToLimbsOld [true, false, true, true] = [13] := by
  decide +kernel
/-- 65 bits: two limbs -/
example : bitsToLimbsAsCoded (true :: List.replicate 63 false ++ [true]) = [1, 1] ∧
    bitsToLimbsOld (true :: List.replicate 63 false ++ [true, true]) = [1, 3] := by decide +kernel
example : outMulBitsBE (CycD.default (primeD (ZMod 13))) 3 [true, false] = .ok 9 ∧
    outMulBitsBE (CycD.default (primeD (ZMod 13))) 3 [false, true, false, true] = .ok 9 ∧
    cycExp (CycD.default (primeD (ZMod 13))) 3 (bitsToLimbsOld [true, false]) = .ok 3 := by
  decide +kernel
example : outMulBitsBE (CycD.default (primeD (ZMod 13))) 3 [true, false] =
    .ok (3 ^ bitsValBE [true, false]) :=
  out_mul_bits_be_eq (primeCyc (ZMod 13)) (a := 3) (by show (3 : ZMod 13) ≠ 0; decide) _

end mulBits

/-! ## 8. `Neg`, `Sub`, `double_in_place`; `Zeroize`, `generator` -/

section group
variable {P T : Type} [Field T] [DecidableEq T] {DT : FieldD P T} {C : CycD T}
  {L : TargetLawful DT C}

/-- on ALL of the target field: `neg` / `sub` panic on `0` (the `unwrap` of `cyclotomic_inverse`),
    and otherwise apply `cyclotomic_inverse` = `conj` -/
theorem out_neg_sub_total (L : TargetLawful DT C) (a b : T) :
    outNeg C a = (if a = 0 then .panic else .ok (L.conj a)) ∧
    outSub C a b = (if b = 0 then .panic else .ok (a * L.conj b)) :=
  ⟨outNeg_eq L a, outSub_eq L a b⟩

/-- on the cyclotomic subgroup they are the group operations (`a` of `sub` may be any element) -/
theorem out_neg_sub_double_cyc (CL : CycLawful L) {a b : T} (ha : a ∈ CL.Cyc) (hb : b ∈ CL.Cyc) :
    outNeg C a = .ok a⁻¹ ∧ outSub C a b = .ok (a / b) ∧ outDouble C a = a * a :=
  ⟨outNeg_cyc CL ha, outSub_cyc CL a hb, outDouble_cyc CL ha⟩

/-- on `GT = {x | x ^ r = 1}`; the results are again in `GT` -/
theorem out_neg_sub_double_gt (CL : CycLawful L) (r : ℕ) (hGT : ∀ x : T, x ^ r = 1 → x ∈ CL.Cyc)
    {a b : T} (har : a ^ r = 1) (hbr : b ^ r = 1) :
    (outNeg C a = .ok a⁻¹ ∧ outSub C a b = .ok (a / b) ∧ outDouble C a = a * a) ∧
    (a⁻¹ ^ r = 1 ∧ (a / b) ^ r = 1 ∧ (a * a) ^ r = 1) := by
  refine ⟨out_neg_sub_double_cyc CL (hGT a har) (hGT b hbr), ?_, ?_, ?_⟩
  · rw [inv_pow, har, inv_one]
  · rw [div_pow, har, hbr, div_one]
  · rw [mul_pow, har, one_mul]

/-- `a - a = 0`, `a + (-a) = 0`, `2 a = a + a` in the additive notation of `PairingOutput` -/
theorem out_sub_self (CL : CycLawful L) {a : T} (ha : a ∈ CL.Cyc) :
    outSub C a a = .ok outZero ∧ outAdd a a⁻¹ = outZero ∧ outDouble C a = outAdd a a := by
  refine ⟨?_, ?_, outDouble_cyc CL ha⟩
  · rw [outSub_cyc CL a ha, div_self (CL.ne_zero a ha)]; rfl
  · exact mul_inv_cancel₀ (CL.ne_zero a ha)

/-- `zeroize` leaves the all-zero FIELD element: not the identity `1` of the group, not a member of
    `GT` (for `r ≠ 0`), and `neg` / `sub` of it panic -/
theorem out_zeroize (L : TargetLawful DT C) (a b : T) (r : ℕ) (hr : r ≠ 0) :
    outZeroize a = 0 ∧ outIsZero (outZeroize a) = false ∧ (outZeroize a) ^ r ≠ 1 ∧
    outNeg C (outZeroize a) = .panic ∧ outSub C b (outZeroize a) = .panic := by
  refine ⟨rfl, ?_, ?_, ?_, ?_⟩
  · show decide ((0 : T) = 1) = false
    exact decide_eq_false zero_ne_one
  · show (0 : T) ^ r ≠ 1
    rw [zero_pow hr]; exact zero_ne_one
  · show outNeg C (0 : T) = .panic
    rw [outNeg_eq L, if_pos rfl]
  · show outSub C b (0 : T) = .panic
    rw [outSub_eq L, if_pos rfl]

/-- `generator() = pairing(G1::generator(), G2::generator())` -/
theorem out_generator_eq {A1 A2 : Type} (E : Engine A1 A2 T) (g1 : A1) (g2 : A2) :
    outGenerator E g1 g2 =
      obind (E.multiMillerLoop [g1] [g2]) fun f => obind (E.finalExponentiation f) unwrap := rfl

example : outNeg (CycD.default (primeD (ZMod 13))) 3 = .ok 9 ∧
    outSub (CycD.default (primeD (ZMod 13))) 9 3 = .ok 3 ∧
    outDouble (CycD.default (primeD (ZMod 13))) 3 = 9 ∧
    outNeg (CycD.default (primeD (ZMod 13))) 0 = .panic := by
  have h3 : (3 : ZMod 13)⁻¹ = 9 := inv_eq_of_mul_eq_one_right (by decide)
  refine ⟨?_, ?_, by decide +kernel, by decide +kernel⟩
  · show Outcome.ok ((3 : ZMod 13)⁻¹) = .ok 9
    rw [h3]
  · show Outcome.ok ((9 : ZMod 13) * (3 : ZMod 13)⁻¹) = .ok 3
    rw [h3]; decide
example : (outNeg (CycD.default (primeD (ZMod 13))) 3 = .ok 3⁻¹ ∧
      outSub (CycD.default (primeD (ZMod 13))) 3 9 = .ok (3 / 9) ∧
      outDouble (CycD.default (primeD (ZMod 13))) 3 = 3 * 3) ∧
    ((3 : ZMod 13)⁻¹ ^ 3 = 1 ∧ ((3 : ZMod 13) / 9) ^ 3 = 1 ∧ ((3 : ZMod 13) * 3) ^ 3 = 1) :=
  out_neg_sub_double_gt (primeCyc (ZMod 13)) 3 (a := 3) (b := 9)
    (fun x hx => by
      show x ≠ 0
      rintro rfl
      exact absurd hx (by decide))
    (by decide) (by decide)
/-- … and over `ℚ(i)` with `cyclotomic_inverse = conjugate`: `-(3/5 + 4/5 i) = 3/5 - 4/5 i` -/
example :
    letI := Ex.fieldQi
    outNeg (CycD.conj (Quad.fieldD Ex.c2.wrap (primeD ℚ)) none) ⟨3 / 5, 4 / 5⟩ =
      .ok (⟨3 / 5, 4 / 5⟩ : Quad ℚ)⁻¹ := by
  letI := Ex.fieldQi
  exact (out_neg_sub_double_cyc Ex.CLQi (a := ⟨3 / 5, 4 / 5⟩) (b := ⟨3 / 5, 4 / 5⟩)
    (by show Quad.norm Ex.c2.wrap (primeD ℚ) ⟨3 / 5, 4 / 5⟩ = 1; decide +kernel)
    (by show Quad.norm Ex.c2.wrap (primeD ℚ) ⟨3 / 5, 4 / 5⟩ = 1; decide +kernel)).1

end group

end Ark.C06b
