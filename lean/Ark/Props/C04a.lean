import Ark.Proofs.ScalarMulA
import Ark.Props.C15a
import Mathlib.Data.ZMod.Defs
/-
  Property C04 (part a) — scalar multiplication of `Ark.Model.ScalarMul` (model of
  ec/src/scalar_mul/{mod,wnaf}.rs, ec/src/models/{short_weierstrass,twisted_edwards}/mod.rs,
  ff/src/bits.rs) computes `k • P`:
    1. the double-and-add loops, bit-stream multiplication, `mul_bigint` / `* Fr` wrappers;
    2. the wNAF table of odd multiples and the wNAF digit loop (no out-of-range index);
    3. `WnafContext::{new, mul, table, mul_with_table}`;
    7. the window-size rule of `BatchMulPreprocessing`;
   10. adequacy of the reference `smul` used by the driver's verdicts.
  All statements are over an arbitrary `[AddCommGroup G]` with Mathlib's ℕ- and ℤ-scalar
  multiplication.  Helper lemmas: Ark/Proofs/ScalarMulA.lean.
  (GLV and the fixed-base windows are part b.)
-/
namespace Ark.C04
open Ark Ark.ScalarMul

variable {G : Type} [AddCommGroup G]

/-! ## 1. double-and-add -/

/-- the shared loop: `res ← 2·res (+ base)` per bit, most significant bit first -/
theorem dbl_add_loop_exact (base : G) (bits : List Bool) (acc : G) :
    dblAddLoop base bits acc = 2 ^ bits.length • acc + bitsToNat bits.reverse • base :=
  dblAddLoop_spec base bits acc

example : dblAddLoop (3 : ℤ) [true, false, true] 10 = 2 ^ 3 * 10 + 5 * 3 := by decide

/-- `.skip_while(|b| !b)` does not change the number denoted by a big-endian bit stream -/
theorem skip_leading_zeros_value (bits : List Bool) :
    bitsToNat (skipLeadingZeros bits).reverse = bitsToNat bits.reverse :=
  bitsToNat_skipLeadingZeros_reverse bits

/-- and what is left is empty or starts with a set bit -/
theorem skip_leading_zeros_head (bits : List Bool) :
    skipLeadingZeros bits = [] ∨ ∃ t, skipLeadingZeros bits = true :: t :=
  skipLeadingZeros_head bits

example : skipLeadingZeros [false, false, true, false] = [true, false] := by decide
example : skipLeadingZeros [false, false] = [] := by decide

/-- `sw_double_and_add_affine`, `sw_double_and_add_projective`, `TECurveConfig::mul_affine`,
    `TECurveConfig::mul_projective` all compute `value s • P`, for EVERY well-formed limb slice `s`:
    the empty slice, leading zero limbs, and integers `≥ r` included (no reduction happens). -/
theorem double_and_add_exact (P : G) (s : List Nat) (hs : WF s) :
    swDoubleAndAddAffine P s = value s • P ∧ swDoubleAndAddProjective P s = value s • P ∧
    teMulAffine P s = value s • P ∧ teMulProjective P s = value s • P :=
  ⟨swDoubleAndAddAffine_spec P s hs, swDoubleAndAddProjective_spec P s hs,
   teMulAffine_spec P s hs, teMulProjective_spec P s hs⟩

example : WF [4, 1] ∧ WF [] ∧ WF [5, 0, 0] := by unfold WF; decide +kernel
example : swDoubleAndAddAffine (3 : ZMod 7) [4, 1] = 4 := by decide +kernel
example : teMulProjective (3 : ℤ) [5, 0, 0] = 15 := by decide +kernel
example : swDoubleAndAddProjective (3 : ℤ) [] = 0 := by decide

/-- `PrimeGroup::mul_bits_be`: any bit stream (leading zeros, the empty stream) -/
theorem mul_bits_be_exact (P : G) (bits : List Bool) :
    mulBitsBE P bits = bitsToNat bits.reverse • P :=
  mulBitsBE_spec P bits

example : mulBitsBE (3 : ZMod 7) [false, false, true, false, true] = 1 := by decide
example : mulBitsBE (3 : ℤ) [] = 0 := by decide

/-- the default (non-GLV) `SWCurveConfig::mul_projective` and `mul_affine` -/
theorem sw_mul_projective_default (endo : G → G) (P : G) (s : List Nat) (hs : WF s) :
    swMulProjective .default endo P s = .ok (value s • P) := by
  show Outcome.ok (swDoubleAndAddProjective P s) = _
  rw [swDoubleAndAddProjective_spec P s hs]

theorem sw_mul_affine_exact (P : G) (s : List Nat) (hs : WF s) :
    swMulAffine P s = value s • P :=
  swDoubleAndAddAffine_spec P s hs

example : swMulProjective .default id (3 : ℤ) [2, 0] = .ok 6 := by decide +kernel

/-- `mul_bigint` of `Projective` (default `mul_projective`) / `Affine`, short Weierstrass and
    twisted Edwards -/
theorem mul_bigint_exact (endo : G → G) (P : G) (s : List Nat) (hs : WF s) :
    swProjMulBigint .default endo P s = .ok (value s • P) ∧ swAffMulBigint P s = value s • P ∧
    teProjMulBigint P s = value s • P ∧ teAffMulBigint P s = value s • P :=
  ⟨sw_mul_projective_default endo P s hs, swDoubleAndAddAffine_spec P s hs,
   teMulProjective_spec P s hs, teMulAffine_spec P s hs⟩

/-- `P * k` for a scalar-field element `k` (`N` limbs): in general `(k mod 2^(64N)) • P` … -/
theorem mul_scalar_mod (endo : G → G) (N : Nat) (P : G) (k : Nat) :
    swProjMulScalar .default endo N P k = .ok ((k % B ^ N) • P) ∧
    swAffMulScalar N P k = (k % B ^ N) • P ∧
    teProjMulScalar N P k = (k % B ^ N) • P ∧ teAffMulScalar N P k = (k % B ^ N) • P := by
  have h := mul_bigint_exact endo P (toLimbs N k) (toLimbs_wf N k)
  rw [toLimbs_value] at h
  exact h

/-- … hence `k • P` for every `k` that fits in `N` limbs (every scalar-field element does) -/
theorem mul_scalar_exact (endo : G → G) (N : Nat) (P : G) (k : Nat) (hk : k < 2 ^ (64 * N)) :
    swProjMulScalar .default endo N P k = .ok (k • P) ∧ swAffMulScalar N P k = k • P ∧
    teProjMulScalar N P k = k • P ∧ teAffMulScalar N P k = k • P := by
  have h := mul_bigint_exact endo P (toLimbs N k) (toLimbs_wf N k)
  rw [value_toLimbs_of_lt N k hk] at h
  exact h

example : (B + 4) < 2 ^ (64 * 2) := by unfold B; decide
example : swAffMulScalar 2 (3 : ZMod 7) (B + 4) = 4 := by decide +kernel
example : swProjMulScalar .default id 1 (3 : ℤ) 5 = .ok 15 := by decide +kernel

/-! ## 2. wNAF table and digit loop -/

/-- `WnafContext::table`: `2^(w-1)` entries, entry `i` is `(2i+1)•g`.
    (The model needs no `2 ≤ w` here; Rust only reaches `table` with `2 ≤ w < 64`.) -/
theorem wnaf_table_exact (w : Nat) (g : G) :
    (wnafTable w g).length = 2 ^ (w - 1) ∧
    ∀ i, i < 2 ^ (w - 1) → (wnafTable w g)[i]? = some ((2 * i + 1) • g) :=
  ⟨wnafTable_length w g, wnafTable_getElem? w g⟩

theorem wnaf_table_eq (w : Nat) (g : G) :
    wnafTable w g = (List.range (2 ^ (w - 1))).map (fun i => (2 * i + 1) • g) :=
  wnafTable_eq_map w g

/-- `WnafContext::new(w).table(g)` -/
theorem wnaf_new_table_exact (w : Nat) (g : G) :
    wnafNewTable w g =
      if 2 ≤ w ∧ w < 64 then .ok ((List.range (2 ^ (w - 1))).map (fun i => (2 * i + 1) • g))
      else .panic := by
  unfold wnafNewTable
  by_cases hw : 2 ≤ w ∧ w < 64
  · rw [wnafNew_ok w hw, if_pos hw, ← wnafTable_eq_map]; rfl
  · rw [wnafNew_panic w hw, if_neg hw]; rfl

example : wnafTable 3 (1 : ℤ) = [1, 3, 5, 7] := by decide
example : wnafNewTable 3 (2 : ZMod 7) = .ok [2, 6, 3, 0] := by decide
example : wnafNewTable 1 (2 : ZMod 7) = .panic := by decide

/-- the digit loop of `mul_with_table` over `scalar_wnaf.iter().rev()`: if every digit is `0`, or odd
    with `|d|/2` inside the table, and the table holds the odd multiples of `g`, the loop does not
    panic (no out-of-range index) and returns `digitsValue ds • g` (ℤ-scalar multiplication).
    Oddness of the non-zero digits is necessary: digit `2` would read `tbl[1] = 3•g`. -/
theorem wnaf_loop_exact (tbl : List G) (g : G)
    (htbl : ∀ i (h : i < tbl.length), tbl[i] = (2 * i + 1) • g)
    (ds : List Int) (hds : ∀ d ∈ ds, d = 0 ∨ (d % 2 = 1 ∧ d.natAbs / 2 < tbl.length)) :
    wnafLoop tbl ds.reverse false 0 = .ok (digitsValue ds • g) :=
  wnafLoop_spec_bound tbl g tbl.length
    (fun i hi => by rw [List.getElem?_eq_getElem hi, htbl i hi]) ds hds

/-- index safety alone needs neither oddness nor any assumption on the table's contents -/
theorem wnaf_loop_no_panic (tbl : List G) (ns : List Int)
    (hns : ∀ d ∈ ns, d = 0 ∨ d.natAbs / 2 < tbl.length) (found : Bool) (acc : G) :
    ∃ r, wnafLoop tbl ns found acc = .ok r :=
  wnafLoop_no_panic tbl ns hns found acc

example : wnafLoop [(1 : ℤ), 3, 5, 7] [-3, 0, 0, 7].reverse false 0 = .ok 53 := by decide
example : digitsValue [-3, 0, 0, 7] = 53 := by decide
example : ∀ d ∈ [(-3 : Int), 0, 0, 7], d = 0 ∨ (d % 2 = 1 ∧ d.natAbs / 2 < 4) := by decide
/-- a digit outside the table does panic -/
example : wnafLoop [(1 : ℤ), 3] [5] false 0 = .panic := by decide

/-! ## 3. wNAF multiplication -/

/-- `WnafContext::new(w).mul(g, s)` for every valid window and every well-formed limb list -/
theorem wnaf_new_mul_limbs (w : Nat) (hw2 : 2 ≤ w) (hw : w < 64) (g : G) (s : List Nat)
    (hs : WF s) : wnafNewMul w g s = .ok (value s • g) :=
  wnafNewMul_spec w hw2 hw g s hs

/-- `WnafContext::new(w).mul(g, k)` for a scalar `k` of `N` limbs: `k • g` (fresh table) -/
theorem wnaf_new_mul_exact (w : Nat) (hw2 : 2 ≤ w) (hw : w < 64) (N : Nat) (g : G) (k : Nat)
    (hk : k < 2 ^ (64 * N)) : wnafNewMul w g (toLimbs N k) = .ok (k • g) := by
  rw [wnafNewMul_spec w hw2 hw g _ (toLimbs_wf N k), value_toLimbs_of_lt N k hk]

example : wnafNewMul 4 (3 : ZMod 7) (toLimbs 2 (B + 4)) = .ok 4 := by decide +kernel
example : wnafNewMul 2 (3 : ℤ) (toLimbs 1 (B - 1)) = .ok (3 * ((B - 1 : Nat) : ℤ)) := by
  decide +kernel
example : wnafNewMul 7 (3 : ℤ) (toLimbs 3 (B ^ 2 + 11)) = .ok (3 * ((B ^ 2 + 11 : Nat) : ℤ)) := by
  decide +kernel

/-- `WnafContext::new` panics exactly outside `2 ≤ w < 64`; nothing else in `mul` can panic -/
theorem wnaf_new_mul_panic_iff (w : Nat) (g : G) (s : List Nat) (hs : WF s) :
    wnafNewMul w g s = .panic ↔ ¬ (2 ≤ w ∧ w < 64) :=
  wnafNewMul_panic_iff w g s hs

example : wnafNewMul 1 (3 : ℤ) [5] = .panic ∧ wnafNewMul 64 (3 : ℤ) [5] = .panic := by
  decide +kernel

/-- `mul_with_table` returns the documented `None` exactly for too-short tables -/
theorem wnaf_mul_with_table_none_iff (w : Nat) (t : List G) (s : List Nat) :
    wnafMulWithTable w t s = .ok none ↔ 2 ^ (w - 1) > t.length :=
  wnafMulWithTable_none_iff w t s

/-- with a long-enough table whose first `2^(w-1)` entries are the odd multiples of `g`
    (longer tables, e.g. built for a larger window, are fine): `Some(k • g)` -/
theorem wnaf_mul_with_table_limbs (w : Nat) (hw2 : 2 ≤ w) (hw : w < 64) (t : List G) (g : G)
    (hlen : 2 ^ (w - 1) ≤ t.length)
    (ht : ∀ i, i < 2 ^ (w - 1) → t[i]? = some ((2 * i + 1) • g))
    (s : List Nat) (hs : WF s) :
    wnafMulWithTable w t s = .ok (some (value s • g)) :=
  wnafMulWithTable_spec w hw2 hw t g hlen ht s hs

theorem wnaf_mul_with_table_exact (w : Nat) (hw2 : 2 ≤ w) (hw : w < 64) (t : List G) (g : G)
    (hlen : 2 ^ (w - 1) ≤ t.length)
    (ht : ∀ i, i < 2 ^ (w - 1) → t[i]? = some ((2 * i + 1) • g))
    (N k : Nat) (hk : k < 2 ^ (64 * N)) :
    wnafMulWithTable w t (toLimbs N k) = .ok (some (k • g)) := by
  rw [wnafMulWithTable_spec w hw2 hw t g hlen ht _ (toLimbs_wf N k), value_toLimbs_of_lt N k hk]

/-- the entry point used by the driver: `WnafContext::new(w).mul_with_table(t, s)` -/
theorem wnaf_new_mul_with_table (w : Nat) (t : List G) (s : List Nat) :
    wnafNewMulWithTable w t s =
      if 2 ≤ w ∧ w < 64 then wnafMulWithTable w t s else .panic := by
  unfold wnafNewMulWithTable
  by_cases hw : 2 ≤ w ∧ w < 64
  · rw [wnafNew_ok w hw, if_pos hw]; rfl
  · rw [wnafNew_panic w hw, if_neg hw]; rfl

/-- a table for window 4 used with window 3, and a too-short table -/
example : wnafMulWithTable 3 (wnafTable 4 (2 : ℤ)) (toLimbs 1 1000) = .ok (some 2000) := by
  decide +kernel
example : wnafMulWithTable 4 (wnafTable 3 (2 : ℤ)) (toLimbs 1 1000) = .ok none := by
  decide +kernel
example : ∀ i, i < 2 ^ (3 - 1) → (wnafTable 4 (2 : ℤ))[i]? = some ((2 * i + 1) • (2 : ℤ)) := by
  decide

/-! ## 7. window-size rule -/

/-- `ark_std::log2` as modelled: `log2Ceil x` is the least `m` with `x ≤ 2^m` (so `0 ↦ 0`, `1 ↦ 0`) -/
theorem log2_ceil_le_iff (x m : Nat) : log2Ceil x ≤ m ↔ x ≤ 2 ^ m := log2Ceil_le_iff x m

theorem log2_ceil_bounds (x : Nat) :
    x ≤ 2 ^ log2Ceil x ∧ ∀ m, m < log2Ceil x → 2 ^ m < x :=
  ⟨le_two_pow_log2Ceil x, two_pow_lt_of_lt_log2Ceil x⟩

theorem log2_ceil_two_pow (m : Nat) : log2Ceil (2 ^ m) = m := log2Ceil_two_pow m

theorem ln_without_floats_eq (a : Nat) : lnWithoutFloats a = log2Ceil a * 69 / 100 := rfl

theorem compute_window_size_eq (n : Nat) :
    computeWindowSize n = if n < 32 then 3 else log2Ceil n * 69 / 100 := rfl

/-- the window is never below 3 (in particular never 0: `div_ceil(window)` cannot divide by 0) -/
theorem compute_window_size_ge_three (n : Nat) : 3 ≤ computeWindowSize n :=
  computeWindowSize_ge_three n

/-- and at most 44 for a `usize` number of scalars; it is monotone in the number of scalars -/
theorem compute_window_size_le (n : Nat) (hn : n < 2 ^ 64) : computeWindowSize n ≤ 44 :=
  computeWindowSize_le n hn

theorem compute_window_size_mono {m n : Nat} (h : m ≤ n) :
    computeWindowSize m ≤ computeWindowSize n :=
  computeWindowSize_mono h

example : log2Ceil 0 = 0 ∧ log2Ceil 1 = 0 ∧ log2Ceil 32 = 5 ∧ log2Ceil 33 = 6 := by decide
example : computeWindowSize 31 = 3 ∧ computeWindowSize 32 = 3 ∧ computeWindowSize 100 = 4 ∧
    computeWindowSize (2 ^ 20) = 13 := by decide +kernel

/-! ## 10. spec adequacy: the reference `smul` of the driver's verdicts is `k • P` -/

/-- the recursion of `AffPt.smulAux` / `TEPt.smulAux`, written over a bare `Add`, computes
    `acc + k • base` in every additive commutative monoid once the fuel covers the bits of `k` -/
theorem smul_aux_exact {M : Type} [AddCommMonoid M] (fuel k : Nat) (base acc : M)
    (h : k < 2 ^ fuel) : smulAuxG fuel k base acc = acc + k • base :=
  smulAuxG_spec fuel k base acc h

theorem smul_exact {M : Type} [AddCommMonoid M] (k : Nat) (P : M) : smulG k P = k • P :=
  smulG_spec k P

/-- `AffPt.smul` / `TEPt.smul` are literally that recursion at the points' `Add`/`Zero` … -/
theorem aff_smul_is_generic {p : Nat} {E : SWParams p} (k : Nat) (P : AffPt p E) :
    AffPt.smul k P = smulG k P := affPt_smul_eq k P

theorem te_smul_is_generic {p : Nat} {E : TEParams p} (k : Nat) (P : TEPt p E) :
    TEPt.smul k P = smulG k P := tePt_smul_eq k P

/-- … hence for ANY additive commutative monoid structure `M` on the carrier whose `+` and `0` are
    the affine addition law and the point at infinity, `AffPt.smul k P` is `M`'s `k • P`. -/
theorem aff_smul_adequate {p : Nat} {E : SWParams p} (M : AddCommMonoid (AffPt p E))
    (hadd : ∀ P Q : AffPt p E, AffPt.affAdd P Q = M.add P Q)
    (hzero : (⟨none⟩ : AffPt p E) = M.zero) (k : Nat) (P : AffPt p E) :
    AffPt.smul k P = M.nsmul k P := by
  rw [affPt_smul_eq]
  exact smulG_of_structure _ _ M hadd hzero k P

theorem te_smul_adequate {p : Nat} {E : TEParams p} (M : AddCommMonoid (TEPt p E))
    (hadd : ∀ P Q : TEPt p E, TEPt.teAdd P Q = M.add P Q)
    (hzero : (⟨0, 1⟩ : TEPt p E) = M.zero) (k : Nat) (P : TEPt p E) :
    TEPt.smul k P = M.nsmul k P := by
  rw [tePt_smul_eq]
  exact smulG_of_structure _ _ M hadd hzero k P

example : smulG 11 (3 : ZMod 7) = 5 := by decide
example : smulG (B + 4) (3 : ℤ) = 3 * ((B + 4 : Nat) : ℤ) := by decide +kernel

end Ark.C04
