import Ark.Proofs.ExtA
import Mathlib.Data.ZMod.Basic
/-
  Property C02 (part A) — the multiplication, squaring, sparse multiplications and the
  "multiply by a sub-layer element" routines of the extension-field templates of `ark-ff`
  (`Ark.Model.Ext`: `QuadExtField`, `CubicExtField`, `Fp2`, `Fp3`, `Fp4`, `Fp6` 2-over-3, `Fp6` 3-over-2,
  `Fp12` 2-over-3-over-2) compute the schoolbook product of `F[X]/(X² − β)` resp. `F[X]/(X³ − β)`,
  for every commutative ring `F`, every element, and every configuration whose overridable hooks
  multiply by the constant `NONRESIDUE` (`QuadCfg.Lawful β`, `CubicCfg.Lawful β`) — layer by layer
  up the tower (`LawfulRing` of the `Field` dictionary is inherited by `Quad.fieldD` / `Cubic.fieldD`).
  Helper lemmas are in Ark/Proofs/ExtA.lean.

  Spec.  `Quad.smul β a b = ⟨a₀b₀ + β a₁b₁, a₀b₁ + a₁b₀⟩`,
         `Cubic.smul β a b = ⟨a₀b₀ + β(a₁b₂ + a₂b₁), a₀b₁ + a₁b₀ + β a₂b₂, a₀b₂ + a₁b₁ + a₂b₀⟩`
  (coefficient `i` is `Σ_{j+l=i} a_j b_l + β Σ_{j+l=i+k} a_j b_l`), stacked with the `Mul` of a layer
  being the schoolbook product of that layer (`Fp4.smul`, `Fp6a.smul`, `Fp6b.smul`, `Fp12.smul`).

  In the tower statements the upper layers use *the model's own* multiplication of the lower
  layers (`letI : Mul (Quad F) := ⟨Quad.mul c2.wrap B⟩` …), exactly as the driver instantiates them.

  Hypotheses:
    h  : cfg.Lawful β      hooks compute `β*x`, `x+β*y`, `x+β*y+y`, `x−β*y`; `cfg.nonresidue = β`
    hB : LawfulRing B      `B.square x = x*x`, `B.double x = x+x`, `B.sop2 a0 a1 b0 b1 = a0*b0+a1*b1`,
                           `B.mulByPrime x e = x * B.ofPrime e`
  Fp4 / Fp6(2-over-3) / Fp12 configurations are lawful iff their constant `NONRESIDUE` is the generator
  `⟨0,1⟩` / `⟨0,1,0⟩` of the layer below (their hooks are rotations that never read the constant;
  `mul` never reads it either, `square` reads it only to test `NONRESIDUE == -1`).
-/
namespace Ark.C02
open Ark Ark.Ext

variable {P F : Type} [CommRing F]

/-! ### concrete data for the non-vacuity examples -/

/-- `ℤ[i]`: trait-default hooks, `NONRESIDUE = -1` (complex-squaring branch) -/
def zi : Fp2Cfg ℤ := Fp2Cfg.default (-1) [1, -1]
/-- `ℤ[i]` with the `bls12_381::Fq2Config` overrides -/
def ziNeg : Fp2Cfg ℤ := Fp2Cfg.negOne (-1) [1, -1]
/-- `ℤ[√3]`: `NONRESIDUE = 3` (general squaring branch) -/
def z3 : Fp2Cfg ℤ := Fp2Cfg.default 3 []
/-- `ℤ[∛2]` -/
def zc2 : Fp3Cfg ℤ := Fp3Cfg.default 2 [] []
/-- `(ZMod 7)[X]/(X² − 3)` (3 is a non-residue mod 7) -/
def f7 : Fp2Cfg (ZMod 7) := Fp2Cfg.default 3 []
/-- Fp6 over `ℤ[i]` with the `bls12_381::Fq6Config` override, `ξ = 1 + i` -/
def z6 : Fp6bCfg (Quad ℤ) := Fp6bCfg.bls ⟨1, 1⟩ [] []
/-- the prime-field dictionary -/
def BZ : FieldD ℤ ℤ := ringD ℤ

example : LawfulRing BZ := ringD_lawful ℤ
example : LawfulRing (ringD (ZMod 7)) := ringD_lawful _
example : zi.wrap.Lawful (-1) := Fp2Cfg.default_wrap_lawful _ _
example : ziNeg.wrap.Lawful (-1) := Fp2Cfg.negOne_wrap_lawful rfl _
example : z3.wrap.Lawful 3 := Fp2Cfg.default_wrap_lawful _ _
example : f7.wrap.Lawful 3 := Fp2Cfg.default_wrap_lawful _ _
example : zc2.wrap.Lawful 2 := Fp3Cfg.default_wrap_lawful _ _ _
example : letI := Quad.sMul (-1 : ℤ); z6.wrap.Lawful ⟨1, 1⟩ := Fp6bCfg.bls_wrap_lawful rfl _ _

/-! ### 1. `QuadExtField::mul_assign` -/

theorem quad_mul_schoolbook {β : F} {cfg : QuadCfg F} (h : cfg.Lawful β) {B : FieldD P F}
    (hB : LawfulRing B) (a b : Quad F) :
    Quad.mul cfg B a b = ⟨a.c0 * b.c0 + β * (a.c1 * b.c1), a.c0 * b.c1 + a.c1 * b.c0⟩ :=
  Quad.mul_eq_smul h hB a b

/-- the `sum_of_products` branch (`extension_degree() == 2`): uses `mul_base_field_by_nonresidue_in_place`
    and `sum_of_products` only -/
theorem quad_mul_sop_branch {β : F} {cfg : QuadCfg F} (hm : ∀ x, cfg.mulNr x = β * x) {B : FieldD P F}
    (hs : ∀ a0 a1 b0 b1, B.sop2 a0 a1 b0 b1 = a0 * b0 + a1 * b1) (hd : B.extDeg = 1) (a b : Quad F) :
    Quad.mul cfg B a b = ⟨a.c0 * b.c0 + β * (a.c1 * b.c1), a.c0 * b.c1 + a.c1 * b.c0⟩ :=
  Quad.mul_sop hm hs hd a b

/-- the Karatsuba branch: uses `mul_base_field_by_nonresidue_and_add` only -/
theorem quad_mul_karatsuba_branch {β : F} {cfg : QuadCfg F} (hk : ∀ y x, cfg.mulNrAndAdd y x = x + β * y)
    {B : FieldD P F} (hd : B.extDeg ≠ 1) (a b : Quad F) :
    Quad.mul cfg B a b = ⟨a.c0 * b.c0 + β * (a.c1 * b.c1), a.c0 * b.c1 + a.c1 * b.c0⟩ :=
  Quad.mul_karatsuba hk hd a b

example : Quad.mul zi.wrap BZ ⟨1, 2⟩ ⟨3, 4⟩ = ⟨-5, 10⟩ := by decide
example : Quad.mul f7.wrap (ringD (ZMod 7)) ⟨1, 2⟩ ⟨3, 4⟩ = ⟨6, 3⟩ := by decide
example : BZ.extDeg = 1 ∧ (Quad.fieldD zi.wrap BZ).extDeg ≠ 1 := by decide

/-! ### 2. `QuadExtField::square_in_place` -/

theorem quad_square_schoolbook [DecidableEq F] {β : F} {cfg : QuadCfg F} (h : cfg.Lawful β)
    {B : FieldD P F} (hB : LawfulRing B) (a : Quad F) :
    Quad.square cfg B a = ⟨a.c0 * a.c0 + β * (a.c1 * a.c1), a.c0 * a.c1 + a.c1 * a.c0⟩ :=
  Quad.square_eq_smul h hB a

/-- complex squaring (`NONRESIDUE == -1`): no hook is called -/
theorem quad_square_complex_branch [DecidableEq F] {cfg : QuadCfg F} (hn : cfg.nonresidue = -1)
    {B : FieldD P F} (hdb : ∀ x, B.double x = x + x) (a : Quad F) :
    Quad.square cfg B a = ⟨a.c0 * a.c0 + -1 * (a.c1 * a.c1), a.c0 * a.c1 + a.c1 * a.c0⟩ :=
  Quad.square_complex hn hdb a

/-- general squaring (`NONRESIDUE != -1`): the hooks `sub_and_mul…` and `…plus_one_and_add` are called -/
theorem quad_square_general_branch [DecidableEq F] {β : F} {cfg : QuadCfg F} (hn : cfg.nonresidue ≠ -1)
    (h1 : ∀ y x, cfg.subAndMulNr y x = x - β * y)
    (h2 : ∀ y x, cfg.mulNrPlusOneAndAdd y x = x + β * y + y) {B : FieldD P F}
    (hdb : ∀ x, B.double x = x + x) (a : Quad F) :
    Quad.square cfg B a = ⟨a.c0 * a.c0 + β * (a.c1 * a.c1), a.c0 * a.c1 + a.c1 * a.c0⟩ :=
  Quad.square_general hn h1 h2 hdb a

example : zi.wrap.nonresidue = -1 ∧ z3.wrap.nonresidue ≠ -1 := by decide
example : Quad.square zi.wrap BZ ⟨2, 3⟩ = ⟨-5, 12⟩ := by decide
example : Quad.square z3.wrap BZ ⟨2, 3⟩ = ⟨31, 12⟩ := by decide

/-! ### 3./4. `CubicExtField::mul_assign` (Karatsuba) and `square_in_place` (Chung–Hasan SQR2) -/

theorem cubic_mul_schoolbook {β : F} {cfg : CubicCfg F} (h : cfg.Lawful β) (s o : Cubic F) :
    Cubic.mul cfg s o =
      ⟨s.c0 * o.c0 + β * (s.c1 * o.c2 + s.c2 * o.c1),
       s.c0 * o.c1 + s.c1 * o.c0 + β * (s.c2 * o.c2),
       s.c0 * o.c2 + s.c1 * o.c1 + s.c2 * o.c0⟩ :=
  Cubic.mul_eq_smul h.mulNr_eq s o

theorem cubic_square_schoolbook {β : F} {cfg : CubicCfg F} (h : cfg.Lawful β) {B : FieldD P F}
    (hB : LawfulRing B) (x : Cubic F) :
    Cubic.square cfg B x =
      ⟨x.c0 * x.c0 + β * (x.c1 * x.c2 + x.c2 * x.c1),
       x.c0 * x.c1 + x.c1 * x.c0 + β * (x.c2 * x.c2),
       x.c0 * x.c2 + x.c1 * x.c1 + x.c2 * x.c0⟩ :=
  Cubic.square_eq_smul h.mulNr_eq hB.square_eq hB.double_eq x

example : Cubic.mul zc2.wrap ⟨1, 2, 3⟩ ⟨4, 5, 6⟩ = ⟨58, 49, 28⟩ := by decide
example : Cubic.square zc2.wrap BZ ⟨1, 2, 3⟩ = ⟨25, 22, 10⟩ := by decide

/-! ### 5./6. `Fp6::mul_by_01`, `Fp6::mul_by_1` (3-over-2; `G` is the Fp2 layer) -/

theorem fp6_mulBy01 {G : Type} [CommRing G] {ξ : G} {c : Fp6bCfg G} (h : c.wrap.Lawful ξ)
    (s : Cubic G) (c0 c1 : G) :
    Fp6b.mulBy01 c s c0 c1
      = ⟨s.c0 * c0 + ξ * (s.c2 * c1), s.c0 * c1 + s.c1 * c0, s.c1 * c1 + s.c2 * c0⟩ := by
  rw [Fp6b.mulBy01_eq h.mulNr_eq]; unfold Cubic.smul; congr 1 <;> ring

theorem fp6_mulBy1 {G : Type} [CommRing G] {ξ : G} {c : Fp6bCfg G} (h : c.wrap.Lawful ξ)
    (s : Cubic G) (c1 : G) :
    Fp6b.mulBy1 c s c1 = ⟨ξ * (s.c2 * c1), s.c0 * c1, s.c1 * c1⟩ := by
  rw [Fp6b.mulBy1_eq h.mulNr_eq]; unfold Cubic.smul; congr 1 <;> ring

/-- both are the cubic schoolbook product with the sparse operand `⟨c0, c1, 0⟩` resp. `⟨0, c1, 0⟩` -/
theorem fp6_mulBy01_eq_mul {G : Type} [CommRing G] {ξ : G} {c : Fp6bCfg G} (h : c.wrap.Lawful ξ)
    (s : Cubic G) (c0 c1 : G) :
    Fp6b.mulBy01 c s c0 c1 = Cubic.mul c.wrap s ⟨c0, c1, 0⟩ ∧
    Fp6b.mulBy1 c s c1 = Cubic.mul c.wrap s ⟨0, c1, 0⟩ :=
  ⟨(Fp6b.mulBy01_eq h.mulNr_eq s c0 c1).trans (Cubic.mul_eq_smul h.mulNr_eq s _).symm,
   (Fp6b.mulBy1_eq h.mulNr_eq s c1).trans (Cubic.mul_eq_smul h.mulNr_eq s _).symm⟩

/-- inside the tower: Fp2 multiplication is the model's `Quad.mul c2.wrap B` -/
theorem fp6_mulBy01_tower {β2 : F} {c2 : Fp2Cfg F} (h2 : c2.wrap.Lawful β2) {B : FieldD P F}
    (hB : LawfulRing B) {ξ : Quad F} {c6 : Fp6bCfg (Quad F)}
    (h6 : letI := Quad.sMul β2; c6.wrap.Lawful ξ) (s : Cubic (Quad F)) (c0 c1 : Quad F) :
    letI : Mul (Quad F) := ⟨Quad.mul c2.wrap B⟩
    Fp6b.mulBy01 c6 s c0 c1 = Fp6b.smul β2 ξ s ⟨c0, c1, ⟨0, 0⟩⟩ ∧
    Fp6b.mulBy1 c6 s c1 = Fp6b.smul β2 ξ s ⟨⟨0, 0⟩, c1, ⟨0, 0⟩⟩ :=
  letI := Quad.sMul β2
  ⟨Fp6b.mulBy01_tower h2 hB h6.mulNr_eq s c0 c1, Fp6b.mulBy1_tower h2 hB h6.mulNr_eq s c1⟩

example : letI : Mul (Quad ℤ) := ⟨Quad.mul zi.wrap BZ⟩
    Fp6b.mulBy01 z6 ⟨⟨1, 2⟩, ⟨3, 4⟩, ⟨5, 6⟩⟩ ⟨7, 8⟩ ⟨9, 1⟩
      = Cubic.mul z6.wrap ⟨⟨1, 2⟩, ⟨3, 4⟩, ⟨5, 6⟩⟩ ⟨⟨7, 8⟩, ⟨9, 1⟩, 0⟩ := by decide

/-! ### 7. `Fp12::mul_by_034`, `Fp12::mul_by_014` -/

/-- over an abstract commutative Fp2 layer `G`: the products with `c0 + (c3 + c4·v)·w` resp.
    `(c0 + c1·v) + (c4·v)·w` in `(G[v]/(v³−ξ))[w]/(w²−v)` -/
theorem fp12_mulBy034 {G : Type} [CommRing G] {ξ : G} {c6 : Fp6bCfg G} (h : c6.wrap.Lawful ξ)
    (s : Quad (Cubic G)) (c0 c3 c4 : G) :
    letI := Cubic.sMul ξ
    Fp12.mulBy034 c6 s c0 c3 c4 = Quad.smul ⟨0, 1, 0⟩ s ⟨⟨c0, 0, 0⟩, ⟨c3, c4, 0⟩⟩ :=
  Fp12.mulBy034_eq_smul h.mulNr_eq s c0 c3 c4

theorem fp12_mulBy014 {G : Type} [CommRing G] {ξ : G} {c6 : Fp6bCfg G} (h : c6.wrap.Lawful ξ)
    (s : Quad (Cubic G)) (c0 c1 c4 : G) :
    letI := Cubic.sMul ξ
    Fp12.mulBy014 c6 s c0 c1 c4 = Quad.smul ⟨0, 1, 0⟩ s ⟨⟨c0, c1, 0⟩, ⟨0, c4, 0⟩⟩ :=
  Fp12.mulBy014_eq_smul h.mulNr_eq s c0 c1 c4

/-- inside the tower they equal the model's full `Fp12` multiplication by the embedded sparse operand
    (for every value of the constant `Fp12Config::NONRESIDUE` and every Frobenius table) -/
theorem fp12_mulBy034_eq_mul [DecidableEq F] {β2 : F} {c2 : Fp2Cfg F} (h2 : c2.wrap.Lawful β2)
    {B : FieldD P F} (hB : LawfulRing B) {ξ : Quad F} {c6 : Fp6bCfg (Quad F)}
    (h6 : letI := Quad.sMul β2; c6.wrap.Lawful ξ) (nr : Cubic (Quad F)) (tbl : List (Quad F))
    (s : Quad (Cubic (Quad F))) (c0 c3 c4 : Quad F) :
    letI : Mul (Quad F) := ⟨Quad.mul c2.wrap B⟩
    letI : Mul (Cubic (Quad F)) := ⟨Cubic.mul c6.wrap⟩
    Fp12.mulBy034 c6 s c0 c3 c4
      = Quad.mul (Fp12.cfg c6 nr tbl) (Cubic.fieldD c6.wrap (Quad.fieldD c2.wrap B)) s
          ⟨⟨c0, 0, 0⟩, ⟨c3, c4, 0⟩⟩ :=
  letI := Quad.sMul β2
  Fp12.mulBy034_eq_mul h2 hB h6.mulNr_eq nr tbl s c0 c3 c4

theorem fp12_mulBy014_eq_mul [DecidableEq F] {β2 : F} {c2 : Fp2Cfg F} (h2 : c2.wrap.Lawful β2)
    {B : FieldD P F} (hB : LawfulRing B) {ξ : Quad F} {c6 : Fp6bCfg (Quad F)}
    (h6 : letI := Quad.sMul β2; c6.wrap.Lawful ξ) (nr : Cubic (Quad F)) (tbl : List (Quad F))
    (s : Quad (Cubic (Quad F))) (c0 c1 c4 : Quad F) :
    letI : Mul (Quad F) := ⟨Quad.mul c2.wrap B⟩
    letI : Mul (Cubic (Quad F)) := ⟨Cubic.mul c6.wrap⟩
    Fp12.mulBy014 c6 s c0 c1 c4
      = Quad.mul (Fp12.cfg c6 nr tbl) (Cubic.fieldD c6.wrap (Quad.fieldD c2.wrap B)) s
          ⟨⟨c0, c1, 0⟩, ⟨0, c4, 0⟩⟩ :=
  letI := Quad.sMul β2
  Fp12.mulBy014_eq_mul h2 hB h6.mulNr_eq nr tbl s c0 c1 c4

/-- … and the schoolbook product of the whole tower -/
theorem fp12_mulBy034_schoolbook {β2 : F} {c2 : Fp2Cfg F} (h2 : c2.wrap.Lawful β2)
    {B : FieldD P F} (hB : LawfulRing B) {ξ : Quad F} {c6 : Fp6bCfg (Quad F)}
    (h6 : letI := Quad.sMul β2; c6.wrap.Lawful ξ) (s : Quad (Cubic (Quad F))) (c0 c3 c4 : Quad F) :
    letI : Mul (Quad F) := ⟨Quad.mul c2.wrap B⟩
    Fp12.mulBy034 c6 s c0 c3 c4
      = Fp12.smul β2 ξ ⟨0, 1, 0⟩ s ⟨⟨c0, ⟨0, 0⟩, ⟨0, 0⟩⟩, ⟨c3, c4, ⟨0, 0⟩⟩⟩ :=
  letI := Quad.sMul β2
  Fp12.mulBy034_tower h2 hB h6.mulNr_eq s c0 c3 c4

theorem fp12_mulBy014_schoolbook {β2 : F} {c2 : Fp2Cfg F} (h2 : c2.wrap.Lawful β2)
    {B : FieldD P F} (hB : LawfulRing B) {ξ : Quad F} {c6 : Fp6bCfg (Quad F)}
    (h6 : letI := Quad.sMul β2; c6.wrap.Lawful ξ) (s : Quad (Cubic (Quad F))) (c0 c1 c4 : Quad F) :
    letI : Mul (Quad F) := ⟨Quad.mul c2.wrap B⟩
    Fp12.mulBy014 c6 s c0 c1 c4
      = Fp12.smul β2 ξ ⟨0, 1, 0⟩ s ⟨⟨c0, c1, ⟨0, 0⟩⟩, ⟨⟨0, 0⟩, c4, ⟨0, 0⟩⟩⟩ :=
  letI := Quad.sMul β2
  Fp12.mulBy014_tower h2 hB h6.mulNr_eq s c0 c1 c4

/-- a concrete `Fp12`-shaped element over `ℤ[i]` -/
def s12 : Quad (Cubic (Quad ℤ)) :=
  ⟨⟨⟨1, 2⟩, ⟨3, 4⟩, ⟨5, 6⟩⟩, ⟨⟨7, 8⟩, ⟨9, 10⟩, ⟨11, 12⟩⟩⟩

example : letI : Mul (Quad ℤ) := ⟨Quad.mul zi.wrap BZ⟩
    letI : Mul (Cubic (Quad ℤ)) := ⟨Cubic.mul z6.wrap⟩
    Fp12.mulBy034 z6 s12 ⟨1, 1⟩ ⟨2, 3⟩ ⟨4, 5⟩
      = Quad.mul (Fp12.cfg z6 ⟨0, 1, 0⟩ []) (Cubic.fieldD z6.wrap (Quad.fieldD zi.wrap BZ)) s12
          ⟨⟨⟨1, 1⟩, 0, 0⟩, ⟨⟨2, 3⟩, ⟨4, 5⟩, 0⟩⟩ := by decide +kernel

/-! ### 8. `Fp6::mul_by_034`, `Fp6::mul_by_014` (2-over-3) -/

/-- the schoolbook product in `(F[v]/(v³−β₃))[w]/(w² − v)` with `x0 + (x3 + x4·v)·w`;
    the outer non-residue must be the generator `v = ⟨0,1,0⟩` -/
theorem fp6a_mulBy034 (β3 : F) (s : Quad (Cubic F)) (x0 x3 x4 : F) :
    Fp6a.mulBy034 β3 s x0 x3 x4 = Fp6a.smul β3 ⟨0, 1, 0⟩ s ⟨⟨x0, 0, 0⟩, ⟨x3, x4, 0⟩⟩ :=
  Fp6a.mulBy034_eq_smul β3 s x0 x3 x4

theorem fp6a_mulBy014 (β3 : F) (s : Quad (Cubic F)) (x0 x1 x4 : F) :
    Fp6a.mulBy014 β3 s x0 x1 x4 = Fp6a.smul β3 ⟨0, 1, 0⟩ s ⟨⟨x0, x1, 0⟩, ⟨0, x4, 0⟩⟩ :=
  Fp6a.mulBy014_eq_smul β3 s x0 x1 x4

/-- they equal the model's `Fp6` multiplication by the embedded sparse operand when called (as the
    Rust code does) with `Fp3Config::NONRESIDUE` of a lawful `Fp3Config` -/
theorem fp6a_mulBy034_eq_mul [DecidableEq F] {β3 : F} {c3 : Fp3Cfg F} (h3 : c3.wrap.Lawful β3)
    (B : FieldD P F) (nr : Cubic F) (tbl : List F) (s : Quad (Cubic F)) (x0 x3 x4 : F) :
    letI : Mul (Cubic F) := ⟨Cubic.mul c3.wrap⟩
    Fp6a.mulBy034 c3.nonresidue s x0 x3 x4
      = Quad.mul (Fp6a.cfg c3 nr tbl) (Cubic.fieldD c3.wrap B) s ⟨⟨x0, 0, 0⟩, ⟨x3, x4, 0⟩⟩ := by
  rw [show c3.nonresidue = β3 from h3.nonresidue_eq]
  exact Fp6a.mulBy034_eq_mul h3.mulNr_eq B nr tbl s x0 x3 x4

theorem fp6a_mulBy014_eq_mul [DecidableEq F] {β3 : F} {c3 : Fp3Cfg F} (h3 : c3.wrap.Lawful β3)
    (B : FieldD P F) (nr : Cubic F) (tbl : List F) (s : Quad (Cubic F)) (x0 x1 x4 : F) :
    letI : Mul (Cubic F) := ⟨Cubic.mul c3.wrap⟩
    Fp6a.mulBy014 c3.nonresidue s x0 x1 x4
      = Quad.mul (Fp6a.cfg c3 nr tbl) (Cubic.fieldD c3.wrap B) s ⟨⟨x0, x1, 0⟩, ⟨0, x4, 0⟩⟩ := by
  rw [show c3.nonresidue = β3 from h3.nonresidue_eq]
  exact Fp6a.mulBy014_eq_mul h3.mulNr_eq B nr tbl s x0 x1 x4

example : letI : Mul (Cubic ℤ) := ⟨Cubic.mul zc2.wrap⟩
    Fp6a.mulBy034 zc2.nonresidue ⟨⟨1, 2, 3⟩, ⟨4, 5, 6⟩⟩ 7 8 9
      = Quad.mul (Fp6a.cfg zc2 ⟨0, 1, 0⟩ []) (Cubic.fieldD zc2.wrap BZ) ⟨⟨1, 2, 3⟩, ⟨4, 5, 6⟩⟩
          ⟨⟨7, 0, 0⟩, ⟨8, 9, 0⟩⟩ := by decide

/-! ### 9. multiplication by an element of a sub-layer = product with the embedded element -/

theorem quad_mulByBase (β : F) (a : Quad F) (e : F) : Quad.mulByBase a e = Quad.smul β a ⟨e, 0⟩ :=
  Quad.mulByBase_eq β a e

theorem quad_mulByPrime [DecidableEq F] (β : F) (cfg : QuadCfg F) {B : FieldD P F} (hB : LawfulRing B)
    (a : Quad F) (e : P) :
    Quad.mulByPrime B a e = Quad.smul β a ((Quad.fieldD cfg B).ofPrime e) :=
  Quad.mulByPrime_eq β hB a e

theorem cubic_mulByBase (β : F) (a : Cubic F) (e : F) : Cubic.mulByBase a e = Cubic.smul β a ⟨e, 0, 0⟩ :=
  Cubic.mulByBase_eq β a e

theorem cubic_mulByPrime [DecidableEq F] (β : F) (cfg : CubicCfg F) {B : FieldD P F} (hB : LawfulRing B)
    (a : Cubic F) (e : P) :
    Cubic.mulByPrime B a e = Cubic.smul β a ((Cubic.fieldD cfg B).ofPrime e) :=
  Cubic.mulByPrime_eq β hB a e

theorem fp2_mulAssignByFp (β : F) (a : Quad F) (e : F) : Fp2.mulAssignByFp a e = Quad.smul β a ⟨e, 0⟩ :=
  Fp2.mulAssignByFp_eq β a e

theorem fp3_mulAssignByFp (β : F) (a : Cubic F) (e : F) :
    Fp3.mulAssignByFp a e = Cubic.smul β a ⟨e, 0, 0⟩ :=
  Fp3.mulAssignByFp_eq β a e

theorem fp4_mulByFp (β2 : F) (β4 : Quad F) (a : Quad (Quad F)) (e : F) :
    Fp4.mulByFp a e = Fp4.smul β2 β4 a ⟨⟨e, 0⟩, ⟨0, 0⟩⟩ :=
  Fp4.mulByFp_eq β2 β4 a e

theorem fp4_mulByFp2 {β2 : F} {c2 : Fp2Cfg F} (h2 : c2.wrap.Lawful β2) {B : FieldD P F}
    (hB : LawfulRing B) (β4 : Quad F) (a : Quad (Quad F)) (e : Quad F) :
    letI : Mul (Quad F) := ⟨Quad.mul c2.wrap B⟩
    Fp4.mulByFp2 a e = Fp4.smul β2 β4 a ⟨e, ⟨0, 0⟩⟩ :=
  Fp4.mulByFp2_tower h2 hB β4 a e

theorem fp6_mulByFp (β2 : F) (ξ : Quad F) (a : Cubic (Quad F)) (e : F) :
    Fp6b.mulByFp a e = Fp6b.smul β2 ξ a ⟨⟨e, 0⟩, ⟨0, 0⟩, ⟨0, 0⟩⟩ :=
  Fp6b.mulByFp_eq β2 ξ a e

theorem fp6_mulByFp2 {β2 : F} {c2 : Fp2Cfg F} (h2 : c2.wrap.Lawful β2) {B : FieldD P F}
    (hB : LawfulRing B) (ξ : Quad F) (a : Cubic (Quad F)) (e : Quad F) :
    letI : Mul (Quad F) := ⟨Quad.mul c2.wrap B⟩
    Fp6b.mulByFp2 a e = Fp6b.smul β2 ξ a ⟨e, ⟨0, 0⟩, ⟨0, 0⟩⟩ :=
  Fp6b.mulByFp2_tower h2 hB ξ a e

theorem fp12_mulByFp (β2 : F) (ξ : Quad F) (β12 : Cubic (Quad F)) (a : Quad (Cubic (Quad F))) (e : F) :
    Fp12.mulByFp a e
      = Fp12.smul β2 ξ β12 a ⟨⟨⟨e, 0⟩, ⟨0, 0⟩, ⟨0, 0⟩⟩, ⟨⟨0, 0⟩, ⟨0, 0⟩, ⟨0, 0⟩⟩⟩ :=
  Fp12.mulByFp_eq β2 ξ β12 a e

example : Fp12.mulByFp s12 3 = Fp12.smul (-1) ⟨1, 1⟩ ⟨0, 1, 0⟩ s12 ⟨⟨⟨3, 0⟩, 0, 0⟩, 0⟩ := by decide

/-! ### 10. the rotation hooks; lawfulness of the Fp4 / Fp6 (2-over-3) / Fp12 configurations -/

theorem fp4_mulFp2ByNr {β : F} {c2 : Fp2Cfg F} (h2 : c2.wrap.Lawful β) {B : FieldD P F}
    (hB : LawfulRing B) (x : Quad F) : Fp4.mulFp2ByNr c2 x = Quad.mul c2.wrap B ⟨0, 1⟩ x :=
  Fp4.mulFp2ByNr_eq_mul h2 hB x

theorem fp6a_mulFp3ByNr {β : F} {c3 : Fp3Cfg F} (h3 : c3.wrap.Lawful β) (x : Cubic F) :
    Fp6a.mulFp3ByNr c3 x = Cubic.mul c3.wrap ⟨0, 1, 0⟩ x :=
  Fp6a.mulFp3ByNr_eq_mul h3.mulNr_eq x

theorem fp12_mulFp6ByNr {G : Type} [CommRing G] {ξ : G} {c6 : Fp6bCfg G} (h6 : c6.wrap.Lawful ξ)
    (x : Cubic G) : Fp12.mulFp6ByNr c6 x = Cubic.mul c6.wrap ⟨0, 1, 0⟩ x :=
  Fp12.mulFp6ByNr_eq_mul h6.mulNr_eq x

theorem fp12_mulFp6ByNr_tower {β2 : F} {c2 : Fp2Cfg F} (h2 : c2.wrap.Lawful β2) {B : FieldD P F}
    (hB : LawfulRing B) {ξ : Quad F} {c6 : Fp6bCfg (Quad F)}
    (h6 : letI := Quad.sMul β2; c6.wrap.Lawful ξ) (x : Cubic (Quad F)) :
    letI : Mul (Quad F) := ⟨Quad.mul c2.wrap B⟩
    Fp12.mulFp6ByNr c6 x = Cubic.mul c6.wrap ⟨0, 1, 0⟩ x :=
  letI := Quad.sMul β2
  Fp12.mulFp6ByNr_tower h2 hB h6.mulNr_eq x

/-- `Fp4ConfigWrapper` is `Lawful β` over `F[u]/(u²−β₂)` iff `β = u` and `Fp4Config::NONRESIDUE = u` -/
theorem fp4_cfg_lawful_iff {β2 : F} {c2 : Fp2Cfg F} (h2 : c2.wrap.Lawful β2) (β nr : Quad F)
    (tbl : List F) :
    letI := Quad.sMul β2
    (Fp4.cfg c2 nr tbl).Lawful β ↔ nr = ⟨0, 1⟩ ∧ β = ⟨0, 1⟩ :=
  Fp4.cfg_lawful_iff h2.mulNr_eq β nr tbl

theorem fp6a_cfg_lawful_iff {β3 : F} {c3 : Fp3Cfg F} (h3 : c3.wrap.Lawful β3) (β nr : Cubic F)
    (tbl : List F) :
    letI := Cubic.sMul β3
    (Fp6a.cfg c3 nr tbl).Lawful β ↔ nr = ⟨0, 1, 0⟩ ∧ β = ⟨0, 1, 0⟩ :=
  Fp6a.cfg_lawful_iff h3.mulNr_eq β nr tbl

theorem fp12_cfg_lawful_iff {G : Type} [CommRing G] {ξ : G} {c6 : Fp6bCfg G} (h6 : c6.wrap.Lawful ξ)
    (β nr : Cubic G) (tbl : List G) :
    letI := Cubic.sMul ξ
    (Fp12.cfg c6 nr tbl).Lawful β ↔ nr = ⟨0, 1, 0⟩ ∧ β = ⟨0, 1, 0⟩ :=
  Fp12.cfg_lawful_iff h6.mulNr_eq β nr tbl

/-- the constant is read by `square` only: with `NONRESIDUE = -1` declared on a layer whose hooks
    rotate, `square` (complex squaring) and `mul` (Karatsuba through the hook) disagree -/
example : letI : Mul (Quad ℤ) := ⟨Quad.mul z3.wrap BZ⟩
    Quad.square (Fp4.cfg z3 ⟨-1, 0⟩ []) (Quad.fieldD z3.wrap BZ) ⟨⟨1, 0⟩, ⟨1, 0⟩⟩
      ≠ Quad.mul (Fp4.cfg z3 ⟨-1, 0⟩ []) (Quad.fieldD z3.wrap BZ) ⟨⟨1, 0⟩, ⟨1, 0⟩⟩ ⟨⟨1, 0⟩, ⟨1, 0⟩⟩ := by
  decide

/-! ### 11. lawful configurations -/

theorem ofMulNr_lawful {nr : F} {f : F → F} (hf : ∀ x, f x = nr * x) (mfc : F → Nat → Outcome F) :
    (QuadCfg.ofMulNr nr f mfc).Lawful nr :=
  QuadCfg.ofMulNr_lawful hf mfc

theorem ofMulNr_lawful_iff {β nr : F} {f : F → F} (mfc : F → Nat → Outcome F) :
    (QuadCfg.ofMulNr nr f mfc).Lawful β ↔ nr = β ∧ ∀ x, f x = β * x :=
  QuadCfg.ofMulNr_lawful_iff mfc

theorem fp2_default_lawful (nr : F) (tbl : List F) : (Fp2Cfg.default nr tbl).wrap.Lawful nr :=
  Fp2Cfg.default_wrap_lawful nr tbl

theorem fp2_negOne_lawful {nr : F} (h : nr = -1) (tbl : List F) :
    (Fp2Cfg.negOne nr tbl).wrap.Lawful (-1) :=
  Fp2Cfg.negOne_wrap_lawful h tbl

/-- the `bls12_381::Fq2Config` overrides are lawful for no other constant -/
theorem fp2_negOne_lawful_iff (β nr : F) (tbl : List F) :
    (Fp2Cfg.negOne nr tbl).wrap.Lawful β ↔ nr = -1 ∧ β = -1 :=
  Fp2Cfg.negOne_wrap_lawful_iff β nr tbl

theorem fp3_default_lawful (nr : F) (c1 c2 : List F) : (Fp3Cfg.default nr c1 c2).wrap.Lawful nr :=
  Fp3Cfg.default_wrap_lawful nr c1 c2

theorem fp6_default_lawful {G : Type} [CommRing G] (nr : G) (c1 c2 : List G) :
    (Fp6bCfg.default nr c1 c2).wrap.Lawful nr :=
  Fp6bCfg.default_wrap_lawful nr c1 c2

/-- the `bls12_381::Fq6Config` override `(c0, c1) ↦ (c0 − c1, c1 + c0)` multiplies by `1 + u`
    over `F[u]/(u² + 1)` -/
theorem fp6_bls_lawful {nr : Quad F} (h : nr = ⟨1, 1⟩) (c1 c2 : List (Quad F)) :
    letI := Quad.sMul (-1 : F)
    (Fp6bCfg.bls nr c1 c2).wrap.Lawful ⟨1, 1⟩ :=
  Fp6bCfg.bls_wrap_lawful h c1 c2

theorem fp6_bls_lawful_iff (β2 : F) (ξ nr : Quad F) (c1 c2 : List (Quad F)) :
    letI := Quad.sMul β2
    (Fp6bCfg.bls nr c1 c2).wrap.Lawful ξ ↔ β2 = -1 ∧ ξ = ⟨1, 1⟩ ∧ nr = ⟨1, 1⟩ :=
  Fp6bCfg.bls_wrap_lawful_iff β2 ξ nr c1 c2

/-! ### 12. the `Field` dictionary of a layer is lawful for the schoolbook ring of that layer -/

theorem quad_fieldD_lawful [DecidableEq F] {β : F} {cfg : QuadCfg F} (h : cfg.Lawful β) {B : FieldD P F}
    (hB : LawfulRing B) :
    letI := Quad.sMul β
    LawfulRing (Quad.fieldD cfg B) :=
  Quad.fieldD_lawfulRing h hB

theorem cubic_fieldD_lawful [DecidableEq F] {β : F} {cfg : CubicCfg F} (h : cfg.Lawful β)
    {B : FieldD P F} (hB : LawfulRing B) :
    letI := Cubic.sMul β
    LawfulRing (Cubic.fieldD cfg B) :=
  Cubic.fieldD_lawfulRing h.mulNr_eq hB

/-- the schoolbook product makes every layer a commutative ring on the model's carrier, with the
    model's `+ - neg 0 1` (all `rfl`): this is what lets 1.–4. be applied one layer up -/
theorem quad_commRing_ops (β : F) (a b : Quad F) :
    letI := Quad.commRing β
    a * b = Quad.smul β a b ∧ a + b = ⟨a.c0 + b.c0, a.c1 + b.c1⟩ ∧ a - b = ⟨a.c0 - b.c0, a.c1 - b.c1⟩ ∧
      -a = ⟨-a.c0, -a.c1⟩ ∧ (0 : Quad F) = ⟨0, 0⟩ ∧ (1 : Quad F) = ⟨1, 0⟩ :=
  ⟨rfl, rfl, rfl, rfl, rfl, rfl⟩

theorem cubic_commRing_ops (β : F) (a b : Cubic F) :
    letI := Cubic.commRing β
    a * b = Cubic.smul β a b ∧ a + b = ⟨a.c0 + b.c0, a.c1 + b.c1, a.c2 + b.c2⟩ ∧
      a - b = ⟨a.c0 - b.c0, a.c1 - b.c1, a.c2 - b.c2⟩ ∧ -a = ⟨-a.c0, -a.c1, -a.c2⟩ ∧
      (0 : Cubic F) = ⟨0, 0, 0⟩ ∧ (1 : Cubic F) = ⟨1, 0, 0⟩ :=
  ⟨rfl, rfl, rfl, rfl, rfl, rfl⟩

/-- the model's product, installed as the `Mul` of a layer (as the driver does), *is* the schoolbook
    instance -/
theorem quad_mulInst {β : F} {cfg : QuadCfg F} (h : cfg.Lawful β) {B : FieldD P F} (hB : LawfulRing B) :
    (⟨Quad.mul cfg B⟩ : Mul (Quad F)) = Quad.sMul β :=
  Quad.mulInst_eq h hB

theorem cubic_mulInst {β : F} {cfg : CubicCfg F} (h : cfg.Lawful β) :
    (⟨Cubic.mul cfg⟩ : Mul (Cubic F)) = Cubic.sMul β :=
  Cubic.mulInst_eq h.mulNr_eq

/-- dictionary of Fp6 (3-over-2) inside the tower -/
theorem fp6_fieldD_lawful [DecidableEq F] {β2 : F} {c2 : Fp2Cfg F} (h2 : c2.wrap.Lawful β2)
    {B : FieldD P F} (hB : LawfulRing B) {ξ : Quad F} {c6 : Fp6bCfg (Quad F)}
    (h6 : letI := Quad.sMul β2; c6.wrap.Lawful ξ) :
    letI := Quad.sMul β2
    letI := Cubic.sMul ξ
    LawfulRing (Cubic.fieldD c6.wrap (Quad.fieldD c2.wrap B)) :=
  letI := Quad.sMul β2
  Fp6b.fieldD_lawfulRing h2 hB h6.mulNr_eq

/-! ### headline: `mul` / `square` at the top of every tower = schoolbook product modulo the defining
    binomial at each layer -/

/-- what the tower products mean, layer by layer (all `rfl`) -/
theorem fp4_smul_def (β2 : F) (β4 : Quad F) (a b : Quad (Quad F)) :
    Fp4.smul β2 β4 a b =
      ⟨Quad.smul β2 a.c0 b.c0 + Quad.smul β2 β4 (Quad.smul β2 a.c1 b.c1),
       Quad.smul β2 a.c0 b.c1 + Quad.smul β2 a.c1 b.c0⟩ := rfl

theorem fp6a_smul_def (β3 : F) (β6 : Cubic F) (a b : Quad (Cubic F)) :
    Fp6a.smul β3 β6 a b =
      ⟨Cubic.smul β3 a.c0 b.c0 + Cubic.smul β3 β6 (Cubic.smul β3 a.c1 b.c1),
       Cubic.smul β3 a.c0 b.c1 + Cubic.smul β3 a.c1 b.c0⟩ := rfl

theorem fp6b_smul_def (β2 : F) (ξ : Quad F) (a b : Cubic (Quad F)) :
    Fp6b.smul β2 ξ a b =
      ⟨Quad.smul β2 a.c0 b.c0 + Quad.smul β2 ξ (Quad.smul β2 a.c1 b.c2 + Quad.smul β2 a.c2 b.c1),
       Quad.smul β2 a.c0 b.c1 + Quad.smul β2 a.c1 b.c0 + Quad.smul β2 ξ (Quad.smul β2 a.c2 b.c2),
       Quad.smul β2 a.c0 b.c2 + Quad.smul β2 a.c1 b.c1 + Quad.smul β2 a.c2 b.c0⟩ := rfl

theorem fp12_smul_def (β2 : F) (ξ : Quad F) (β12 : Cubic (Quad F)) (a b : Quad (Cubic (Quad F))) :
    Fp12.smul β2 ξ β12 a b =
      ⟨Fp6b.smul β2 ξ a.c0 b.c0 + Fp6b.smul β2 ξ β12 (Fp6b.smul β2 ξ a.c1 b.c1),
       Fp6b.smul β2 ξ a.c0 b.c1 + Fp6b.smul β2 ξ a.c1 b.c0⟩ := rfl

/-- Fp4 = `(F[u]/(u²−β₂))[w]/(w²−u)`; `mul` holds for every declared constant `nr` -/
theorem fp4_mul_schoolbook [DecidableEq F] {β2 : F} {c2 : Fp2Cfg F} (h2 : c2.wrap.Lawful β2)
    {B : FieldD P F} (hB : LawfulRing B) (nr : Quad F) (tbl : List F) (a b : Quad (Quad F)) :
    letI : Mul (Quad F) := ⟨Quad.mul c2.wrap B⟩
    Quad.mul (Fp4.cfg c2 nr tbl) (Quad.fieldD c2.wrap B) a b = Fp4.smul β2 ⟨0, 1⟩ a b :=
  Fp4.mul_eq_smul h2 hB nr tbl a b

theorem fp4_square_schoolbook [DecidableEq F] {β2 : F} {c2 : Fp2Cfg F} (h2 : c2.wrap.Lawful β2)
    {B : FieldD P F} (hB : LawfulRing B) (tbl : List F) (a : Quad (Quad F)) :
    letI : Mul (Quad F) := ⟨Quad.mul c2.wrap B⟩
    Quad.square (Fp4.cfg c2 ⟨0, 1⟩ tbl) (Quad.fieldD c2.wrap B) a = Fp4.smul β2 ⟨0, 1⟩ a a :=
  Fp4.square_eq_smul h2 hB tbl a

/-- Fp6 (2-over-3) = `(F[v]/(v³−β₃))[w]/(w²−v)` -/
theorem fp6a_mul_schoolbook [DecidableEq F] {β3 : F} {c3 : Fp3Cfg F} (h3 : c3.wrap.Lawful β3)
    (B : FieldD P F) (nr : Cubic F) (tbl : List F) (a b : Quad (Cubic F)) :
    letI : Mul (Cubic F) := ⟨Cubic.mul c3.wrap⟩
    Quad.mul (Fp6a.cfg c3 nr tbl) (Cubic.fieldD c3.wrap B) a b = Fp6a.smul β3 ⟨0, 1, 0⟩ a b :=
  Fp6a.mul_eq_smul h3.mulNr_eq B nr tbl a b

theorem fp6a_square_schoolbook [DecidableEq F] {β3 : F} {c3 : Fp3Cfg F} (h3 : c3.wrap.Lawful β3)
    {B : FieldD P F} (hB : LawfulRing B) (tbl : List F) (a : Quad (Cubic F)) :
    letI : Mul (Cubic F) := ⟨Cubic.mul c3.wrap⟩
    Quad.square (Fp6a.cfg c3 ⟨0, 1, 0⟩ tbl) (Cubic.fieldD c3.wrap B) a = Fp6a.smul β3 ⟨0, 1, 0⟩ a a :=
  Fp6a.square_eq_smul h3.mulNr_eq hB tbl a

/-- Fp6 (3-over-2) = `(F[u]/(u²−β₂))[v]/(v³−ξ)` -/
theorem fp6b_mul_schoolbook {β2 : F} {c2 : Fp2Cfg F} (h2 : c2.wrap.Lawful β2) {B : FieldD P F}
    (hB : LawfulRing B) {ξ : Quad F} {c6 : Fp6bCfg (Quad F)}
    (h6 : letI := Quad.sMul β2; c6.wrap.Lawful ξ) (a b : Cubic (Quad F)) :
    letI : Mul (Quad F) := ⟨Quad.mul c2.wrap B⟩
    Cubic.mul c6.wrap a b = Fp6b.smul β2 ξ a b :=
  letI := Quad.sMul β2
  Fp6b.mul_eq_smul h2 hB h6.mulNr_eq a b

theorem fp6b_square_schoolbook [DecidableEq F] {β2 : F} {c2 : Fp2Cfg F} (h2 : c2.wrap.Lawful β2)
    {B : FieldD P F} (hB : LawfulRing B) {ξ : Quad F} {c6 : Fp6bCfg (Quad F)}
    (h6 : letI := Quad.sMul β2; c6.wrap.Lawful ξ) (a : Cubic (Quad F)) :
    letI : Mul (Quad F) := ⟨Quad.mul c2.wrap B⟩
    Cubic.square c6.wrap (Quad.fieldD c2.wrap B) a = Fp6b.smul β2 ξ a a :=
  letI := Quad.sMul β2
  Fp6b.square_eq_smul h2 hB h6.mulNr_eq a

/-- Fp12 = `((F[u]/(u²−β₂))[v]/(v³−ξ))[w]/(w²−v)`: Karatsuba over cubic Karatsuba over
    `sum_of_products`/Karatsuba is the schoolbook product at every layer -/
theorem fp12_mul_schoolbook [DecidableEq F] {β2 : F} {c2 : Fp2Cfg F} (h2 : c2.wrap.Lawful β2)
    {B : FieldD P F} (hB : LawfulRing B) {ξ : Quad F} {c6 : Fp6bCfg (Quad F)}
    (h6 : letI := Quad.sMul β2; c6.wrap.Lawful ξ) (nr : Cubic (Quad F)) (tbl : List (Quad F))
    (a b : Quad (Cubic (Quad F))) :
    letI : Mul (Quad F) := ⟨Quad.mul c2.wrap B⟩
    letI : Mul (Cubic (Quad F)) := ⟨Cubic.mul c6.wrap⟩
    Quad.mul (Fp12.cfg c6 nr tbl) (Cubic.fieldD c6.wrap (Quad.fieldD c2.wrap B)) a b
      = Fp12.smul β2 ξ ⟨0, 1, 0⟩ a b :=
  letI := Quad.sMul β2
  Fp12.mul_eq_smul h2 hB h6.mulNr_eq nr tbl a b

theorem fp12_square_schoolbook [DecidableEq F] {β2 : F} {c2 : Fp2Cfg F} (h2 : c2.wrap.Lawful β2)
    {B : FieldD P F} (hB : LawfulRing B) {ξ : Quad F} {c6 : Fp6bCfg (Quad F)}
    (h6 : letI := Quad.sMul β2; c6.wrap.Lawful ξ) (tbl : List (Quad F))
    (a : Quad (Cubic (Quad F))) :
    letI : Mul (Quad F) := ⟨Quad.mul c2.wrap B⟩
    letI : Mul (Cubic (Quad F)) := ⟨Cubic.mul c6.wrap⟩
    Quad.square (Fp12.cfg c6 ⟨0, 1, 0⟩ tbl) (Cubic.fieldD c6.wrap (Quad.fieldD c2.wrap B)) a
      = Fp12.smul β2 ξ ⟨0, 1, 0⟩ a a :=
  letI := Quad.sMul β2
  Fp12.square_eq_smul h2 hB h6.mulNr_eq tbl a

/-- non-vacuity: the bls12-381-shaped tower over `ℤ[i]` (`β₂ = −1` with the `Fq2Config` overrides,
    `ξ = 1 + i` with the `Fq6Config` override, `NONRESIDUE₁₂ = v`), evaluated -/
example : letI : Mul (Quad ℤ) := ⟨Quad.mul ziNeg.wrap BZ⟩
    letI : Mul (Cubic (Quad ℤ)) := ⟨Cubic.mul z6.wrap⟩
    Quad.mul (Fp12.cfg z6 ⟨0, 1, 0⟩ []) (Cubic.fieldD z6.wrap (Quad.fieldD ziNeg.wrap BZ)) s12 s12
      = Fp12.smul (-1) ⟨1, 1⟩ ⟨0, 1, 0⟩ s12 s12 ∧
    Quad.square (Fp12.cfg z6 ⟨0, 1, 0⟩ []) (Cubic.fieldD z6.wrap (Quad.fieldD ziNeg.wrap BZ)) s12
      = Fp12.smul (-1) ⟨1, 1⟩ ⟨0, 1, 0⟩ s12 s12 := by decide +kernel

example : Fp12.smul (-1 : ℤ) ⟨1, 1⟩ ⟨0, 1, 0⟩ s12 s12 ≠ s12 := by decide +kernel

end Ark.C02
