import Ark.Proofs.CurveA
import Mathlib.Algebra.Field.ZMod
/-
  Property C03 (part A, short Weierstrass) — the Jacobian point arithmetic of
  `Ark.Curve.SW` (model of ec/src/models/short_weierstrass/{group,affine}.rs) computes the
  textbook affine chord-and-tangent law `affAdd` / `affNeg` on `y² = x³ + a x + b`, for every
  field, every curve configuration whose `mul_by_a` multiplies by `a`, and ALL representatives
  (identity, equal, opposite, order two, arbitrary rescalings).
  Helper lemmas are in Ark/Proofs/CurveA.lean.

  Hypotheses used throughout:
    hA : ∀ e, c.mulByA e = c.a * e     (`mul_by_a` is multiplication by `COEFF_A`; holds for the
                                        trait default, `std_mulByA`)
    h2 : (2 : F) ≠ 0                   (only where the general chord branch is involved: in
                                        characteristic two `add-2007-bl` returns `Z3 = 0`)
-/
namespace Ark.C03
open Ark Ark.Curve Ark.Curve.SW

variable {F : Type} [Field F] [DecidableEq F]

/-! ### concrete curves for the non-vacuity examples -/

instance : Fact (Nat.Prime 13) := ⟨by decide⟩

/-- `y² = x³ + 6` over `F_13` (`a = 0`, 7 points), degree-1/2 doubling formula -/
def c13 : Curve (ZMod 13) := Curve.std 0 6
/-- same curve, `a = 0` doubling formula of extension degree ≥ 3 -/
def c13' : Curve (ZMod 13) := Curve.std 0 6 false
/-- `y² = x³ + 12 x` over `F_13` (`a ≠ 0`, 8 points, three points of order two) -/
def d13 : Curve (ZMod 13) := Curve.std 12 0

/-- the trait-default `mul_by_a` satisfies the hypothesis `hA` -/
theorem sw_std_mulByA (a b : F) (d : Bool) (e : F) :
    (Curve.std a b d).mulByA e = (Curve.std a b d).a * e := std_mulByA a b d e

example : (2 : ZMod 13) ≠ 0 := by decide

/-! ### 1. independence of the representative -/

/-- `(x λ², y λ³, z λ)` and `(x, y, z)` denote the same affine point (also for `z = 0`) -/
theorem sw_toAff_rescale (x y z l : F) (hl : l ≠ 0) :
    toAff ⟨x * (l * l), y * (l * l * l), z * l⟩ = toAff ⟨x, y, z⟩ :=
  toAff_rescale x y z l hl

/-- `(x z², y z³, z)` denotes `(x, y)`; every triple with `z ≠ 0` has this form -/
theorem sw_toAff_mk (x y z : F) (hz : z ≠ 0) :
    toAff ⟨x * (z * z), y * (z * z * z), z⟩ = some (x, y) := toAff_mk x y z hz

example : toAff (⟨2 * 9, 1 * 27, 3⟩ : Jac (ZMod 13)) = toAff ⟨2, 1, 1⟩ := by decide +kernel

/-! ### 2. identity -/

theorem sw_add_identity_left (c : Curve F) (p q : Jac F) (h : p.z = 0) :
    add c p q = q ∧ toAff p = none :=
  ⟨add_of_left_zero c p q h, toAff_of_z_eq_zero h⟩

theorem sw_add_identity_right (c : Curve F) (p q : Jac F) (hp : p.z ≠ 0) (h : q.z = 0) :
    add c p q = p ∧ toAff q = none :=
  ⟨add_of_right_zero c p q hp h, toAff_of_z_eq_zero h⟩

theorem sw_affAdd_identity (a : F) (P : Option (F × F)) :
    affAdd a none P = P ∧ affAdd a P none = P :=
  ⟨affAdd_none_left a P, affAdd_none_right a P⟩

example : add c13 ⟨5, 7, 0⟩ ⟨2, 1, 1⟩ = ⟨2, 1, 1⟩ ∧ add c13 ⟨2, 1, 1⟩ ⟨5, 7, 0⟩ = ⟨2, 1, 1⟩ := by
  decide +kernel

/-! ### 3. general branch (no curve equation needed) -/

theorem sw_add_general (c : Curve F) (h2 : (2 : F) ≠ 0) (p q : Jac F) (hp : p.z ≠ 0)
    (hq : q.z ≠ 0) (hu : p.x * Curve.sq q.z ≠ q.x * Curve.sq p.z) :
    (add c p q).z ≠ 0 ∧ toAff (add c p q) = affAdd c.a (toAff p) (toAff q) :=
  add_general c h2 p q hp hq hu

/-- `(2,1) + (5,1) = (6,12)` on `y² = x³ + 6`, with representatives `z = 3`, `z = 2` -/
example :
    let p : Jac (ZMod 13) := ⟨2 * 9, 1 * 27, 3⟩
    let q : Jac (ZMod 13) := ⟨5 * 4, 1 * 8, 2⟩
    p.z ≠ 0 ∧ q.z ≠ 0 ∧ p.x * Curve.sq q.z ≠ q.x * Curve.sq p.z ∧ toAff (add c13 p q) = some (6, 12) := by
  decide +kernel

/-- `h2` is necessary: over `F_2` the general branch of `add-2007-bl` returns `Z3 = 0` for the
    distinct finite points `(0,1)`, `(1,1)` of `y² = x³ + x + 1`, whose chord sum is finite
    (characteristic two is outside the scope of the short-Weierstrass module) -/
example :
    let c : Curve (ZMod 2) := Curve.std 1 1
    let p : Jac (ZMod 2) := ⟨0, 1, 1⟩
    let q : Jac (ZMod 2) := ⟨1, 1, 1⟩
    onCurve c.a c.b (toAff p) = true ∧ onCurve c.a c.b (toAff q) = true ∧
      toAff (add c p q) = none ∧ affAdd c.a (toAff p) (toAff q) ≠ none := by
  decide +kernel

/-! ### 4. the double branch of `add` -/

theorem sw_add_double_branch (c : Curve F) (p q : Jac F) (hp : p.z ≠ 0) (hq : q.z ≠ 0)
    (hu : p.x * Curve.sq q.z = q.x * Curve.sq p.z) (hs : p.y * q.z * Curve.sq q.z = q.y * p.z * Curve.sq p.z) :
    add c p q = double c p ∧ toAff q = toAff p :=
  add_double_branch c p q hp hq hu hs

example :
    let p : Jac (ZMod 13) := ⟨2 * 9, 1 * 27, 3⟩
    let q : Jac (ZMod 13) := ⟨2 * 4, 1 * 8, 2⟩
    p.z ≠ 0 ∧ q.z ≠ 0 ∧ p.x * Curve.sq q.z = q.x * Curve.sq p.z ∧ p.y * q.z * Curve.sq q.z = q.y * p.z * Curve.sq p.z ∧
      p ≠ q := by
  decide +kernel

/-! ### 5. doubling a point that is not of order two (no curve equation needed);
    one statement covering `a = 0` with both degree variants and `a ≠ 0` -/

theorem sw_double_finite (c : Curve F) (hA : ∀ e, c.mulByA e = c.a * e) (h2 : (2 : F) ≠ 0)
    (p : Jac F) (hz : p.z ≠ 0) (hy : p.y ≠ 0) :
    (double c p).z ≠ 0 ∧ toAff (double c p) = affAdd c.a (toAff p) (toAff p) :=
  double_finite c hA h2 p hz hy

/-- `a = 0`, extension degree 1 or 2 -/
example : c13.a = 0 ∧ c13.deg12 = true ∧
    toAff (double c13 ⟨2 * 9, 1 * 27, 3⟩) = some (6, 1) := by decide +kernel
/-- `a = 0`, extension degree ≥ 3 -/
example : c13'.a = 0 ∧ c13'.deg12 = false ∧
    toAff (double c13' ⟨2 * 9, 1 * 27, 3⟩) = some (6, 1) := by decide +kernel
/-- `a ≠ 0` (dbl-2009-l with `mul_by_a`) : `2·(5,4) = (0,0)` on `y² = x³ + 12x` -/
example : d13.a ≠ 0 ∧ toAff (double d13 ⟨5 * 4, 4 * 8, 2⟩) = some (0, 0) := by decide +kernel

/-! ### 6. doubling a point of order two -/

theorem sw_double_order_two (c : Curve F) (hA : ∀ e, c.mulByA e = c.a * e) (p : Jac F)
    (hz : p.z ≠ 0) (hy : p.y = 0) :
    (double c p).z = 0 ∧ affAdd c.a (toAff p) (toAff p) = none :=
  double_order_two c hA p hz hy

/-- `(1, 0)` has order two on `y² = x³ + 12 x` -/
example :
    let p : Jac (ZMod 13) := ⟨1 * 4, 0, 2⟩
    p.z ≠ 0 ∧ p.y = 0 ∧ onCurve d13.a d13.b (toAff p) = true ∧ (double d13 p).z = 0 := by
  decide +kernel

/-! ### 7. the opposite branch of `add` (curve equation needed) -/

theorem sw_add_opposite_branch (c : Curve F) (p q : Jac F) (hp : p.z ≠ 0) (hq : q.z ≠ 0)
    (hP : onCurve c.a c.b (toAff p) = true) (hQ : onCurve c.a c.b (toAff q) = true)
    (hu : p.x * Curve.sq q.z = q.x * Curve.sq p.z) (hs : p.y * q.z * Curve.sq q.z ≠ q.y * p.z * Curve.sq p.z) :
    add c p q = Jac.zero ∧ toAff q = affNeg (toAff p) ∧ affAdd c.a (toAff p) (toAff q) = none :=
  add_opposite_branch c p q hp hq hP hQ hu hs

example :
    let p : Jac (ZMod 13) := ⟨2 * 9, 1 * 27, 3⟩
    let q : Jac (ZMod 13) := ⟨2 * 4, 12 * 8, 2⟩
    p.z ≠ 0 ∧ q.z ≠ 0 ∧ onCurve c13.a c13.b (toAff p) = true ∧ onCurve c13.a c13.b (toAff q) = true ∧
      p.x * Curve.sq q.z = q.x * Curve.sq p.z ∧ p.y * q.z * Curve.sq q.z ≠ q.y * p.z * Curve.sq p.z := by
  decide +kernel

/-! ### 8. closure of the affine law -/

theorem sw_affAdd_closed (a b : F) (P Q : Option (F × F)) (hP : onCurve a b P = true)
    (hQ : onCurve a b Q = true) : onCurve a b (affAdd a P Q) = true :=
  onCurve_affAdd a b P Q hP hQ

example : onCurve (0 : ZMod 13) 6 (some (2, 1)) = true ∧ onCurve (0 : ZMod 13) 6 (some (5, 1)) = true ∧
    affAdd (0 : ZMod 13) (some (2, 1)) (some (5, 1)) = some (6, 12) := by decide +kernel

/-! ### 9. MAIN: `add` is the group law, for all pairs of representatives -/

theorem sw_add_correct (c : Curve F) (hA : ∀ e, c.mulByA e = c.a * e) (h2 : (2 : F) ≠ 0)
    (p q : Jac F) (hP : onCurve c.a c.b (toAff p) = true) (hQ : onCurve c.a c.b (toAff q) = true) :
    toAff (add c p q) = affAdd c.a (toAff p) (toAff q) ∧
      onCurve c.a c.b (toAff (add c p q)) = true :=
  ⟨toAff_add c hA h2 p q hP hQ, onCurve_add c hA h2 p q hP hQ⟩

/-- the hypotheses hold for the five kinds of pairs (general, equal, opposite, order two, identity) -/
example :
    let P : Jac (ZMod 13) := ⟨2 * 9, 1 * 27, 3⟩
    (∀ e, c13.mulByA e = c13.a * e) ∧ onCurve c13.a c13.b (toAff P) = true ∧
      onCurve c13.a c13.b (toAff (⟨5 * 4, 1 * 8, 2⟩ : Jac (ZMod 13))) = true ∧
      onCurve c13.a c13.b (toAff (⟨2 * 4, 1 * 8, 2⟩ : Jac (ZMod 13))) = true ∧
      onCurve c13.a c13.b (toAff (⟨2 * 4, 12 * 8, 2⟩ : Jac (ZMod 13))) = true ∧
      onCurve c13.a c13.b (toAff (⟨7, 3, 0⟩ : Jac (ZMod 13))) = true ∧
      onCurve d13.a d13.b (toAff (⟨1 * 4, 0, 2⟩ : Jac (ZMod 13))) = true :=
  ⟨std_mulByA _ _ _, by decide +kernel⟩

/-! ### 10. the same statement for the other entry points -/

theorem sw_double_correct (c : Curve F) (hA : ∀ e, c.mulByA e = c.a * e) (p : Jac F)
    (hP : onCurve c.a c.b (toAff p) = true) :
    toAff (double c p) = affAdd c.a (toAff p) (toAff p) ∧
      onCurve c.a c.b (toAff (double c p)) = true :=
  ⟨toAff_double c hA p, by rw [toAff_double c hA p]; exact onCurve_affAdd _ _ _ _ hP hP⟩

/-- the equation of `double` alone needs neither the curve equation nor `2 ≠ 0` -/
theorem sw_double_eq (c : Curve F) (hA : ∀ e, c.mulByA e = c.a * e) (p : Jac F) :
    toAff (double c p) = affAdd c.a (toAff p) (toAff p) := toAff_double c hA p

theorem sw_addMixed_correct (c : Curve F) (hA : ∀ e, c.mulByA e = c.a * e) (h2 : (2 : F) ≠ 0)
    (p : Jac F) (q : Affine F) (hP : onCurve c.a c.b (toAff p) = true)
    (hQ : onCurve c.a c.b (ofAffine q) = true) :
    toAff (addMixed c p q) = affAdd c.a (toAff p) (ofAffine q) ∧
      onCurve c.a c.b (toAff (addMixed c p q)) = true :=
  ⟨toAff_addMixed c hA h2 p q hP hQ, by
    rw [toAff_addMixed c hA h2 p q hP hQ]; exact onCurve_affAdd _ _ _ _ hP hQ⟩

theorem sw_sub_correct (c : Curve F) (hA : ∀ e, c.mulByA e = c.a * e) (h2 : (2 : F) ≠ 0)
    (p q : Jac F) (hP : onCurve c.a c.b (toAff p) = true) (hQ : onCurve c.a c.b (toAff q) = true) :
    toAff (sub c p q) = affAdd c.a (toAff p) (affNeg (toAff q)) ∧
      onCurve c.a c.b (toAff (sub c p q)) = true :=
  ⟨toAff_sub c hA h2 p q hP hQ, by
    rw [toAff_sub c hA h2 p q hP hQ]
    exact onCurve_affAdd _ _ _ _ hP (by rw [onCurve_affNeg]; exact hQ)⟩

theorem sw_subMixed_correct (c : Curve F) (hA : ∀ e, c.mulByA e = c.a * e) (h2 : (2 : F) ≠ 0)
    (p : Jac F) (q : Affine F) (hP : onCurve c.a c.b (toAff p) = true)
    (hQ : onCurve c.a c.b (ofAffine q) = true) :
    toAff (subMixed c p q) = affAdd c.a (toAff p) (affNeg (ofAffine q)) ∧
      onCurve c.a c.b (toAff (subMixed c p q)) = true :=
  ⟨toAff_subMixed c hA h2 p q hP hQ, by
    rw [toAff_subMixed c hA h2 p q hP hQ]
    exact onCurve_affAdd _ _ _ _ hP (by rw [onCurve_affNeg]; exact hQ)⟩

theorem sw_affineAdd_correct (c : Curve F) (hA : ∀ e, c.mulByA e = c.a * e) (h2 : (2 : F) ≠ 0)
    (p q : Affine F) (hP : onCurve c.a c.b (ofAffine p) = true)
    (hQ : onCurve c.a c.b (ofAffine q) = true) :
    toAff (affineAdd c p q) = affAdd c.a (ofAffine p) (ofAffine q) ∧
      onCurve c.a c.b (toAff (affineAdd c p q)) = true :=
  ⟨toAff_affineAdd c hA h2 p q hP hQ, by
    rw [toAff_affineAdd c hA h2 p q hP hQ]; exact onCurve_affAdd _ _ _ _ hP hQ⟩

theorem sw_affineSub_correct (c : Curve F) (hA : ∀ e, c.mulByA e = c.a * e) (h2 : (2 : F) ≠ 0)
    (p q : Affine F) (hP : onCurve c.a c.b (ofAffine p) = true)
    (hQ : onCurve c.a c.b (ofAffine q) = true) :
    toAff (affineSub c p q) = affAdd c.a (ofAffine p) (affNeg (ofAffine q)) ∧
      onCurve c.a c.b (toAff (affineSub c p q)) = true :=
  ⟨toAff_affineSub c hA h2 p q hP hQ, by
    rw [toAff_affineSub c hA h2 p q hP hQ]
    exact onCurve_affAdd _ _ _ _ hP (by rw [onCurve_affNeg]; exact hQ)⟩

/-- for a finite affine operand `madd-2007-bl` returns the same triple as `add-2007-bl` on `(x, y, 1)` -/
theorem sw_addMixed_eq_add (c : Curve F) (p : Jac F) (q : Affine F) (hq : q.infinity = false) :
    addMixed c p q = add c p (fromAffine q) := addMixed_eq_add c p q hq

/-- mixed operations on concrete inputs: general, doubling, opposite, flagged-infinity operand
    with junk coordinates -/
example :
    let P : Jac (ZMod 13) := ⟨2 * 9, 1 * 27, 3⟩
    onCurve c13.a c13.b (ofAffine (⟨5, 1, false⟩ : Affine (ZMod 13))) = true ∧
    onCurve c13.a c13.b (ofAffine (⟨9, 9, true⟩ : Affine (ZMod 13))) = true ∧
    toAff (addMixed c13 P ⟨5, 1, false⟩) = some (6, 12) ∧
    toAff (addMixed c13 P ⟨2, 1, false⟩) = some (6, 1) ∧
    toAff (addMixed c13 P ⟨2, 12, false⟩) = none ∧
    toAff (addMixed c13 P ⟨9, 9, true⟩) = some (2, 1) ∧
    toAff (subMixed c13 P ⟨2, 1, false⟩) = none ∧
    toAff (sub c13 P ⟨5 * 4, 12 * 8, 2⟩) = some (6, 12) ∧
    toAff (affineAdd c13 ⟨2, 1, false⟩ ⟨5, 1, false⟩) = some (6, 12) ∧
    toAff (affineSub c13 ⟨2, 1, false⟩ ⟨5, 12, false⟩) = some (6, 12) := by
  decide +kernel

/-! ### 11. negation -/

theorem sw_neg_correct (p : Jac F) : toAff p.neg = affNeg (toAff p) := toAff_neg p

theorem sw_affine_neg_correct (a : Affine F) : ofAffine a.neg = affNeg (ofAffine a) :=
  ofAffine_neg a

theorem sw_onCurve_neg (a b : F) (P : Option (F × F)) : onCurve a b (affNeg P) = onCurve a b P :=
  onCurve_affNeg a b P

/-- `P + (−P) = O` in the affine law -/
theorem sw_affAdd_neg (a : F) (P : Option (F × F)) : affAdd a P (affNeg P) = none :=
  affAdd_neg_self P

example : toAff (Jac.neg (⟨2 * 9, 1 * 27, 3⟩ : Jac (ZMod 13))) = some (2, 12) := by decide +kernel

/-! ### 12. equality and zero test: no hypothesis at all is needed (any triples, on the curve or
    not; the identity is handled by the explicit `is_zero` branches of the implementation) -/

theorem sw_eq_iff (p q : Jac F) : p.eq q = true ↔ toAff p = toAff q := eq_iff p q

theorem sw_isZero_iff (p : Jac F) : p.isZero = true ↔ toAff p = none := isZero_iff p

theorem sw_affineEqProj_iff (a : Affine F) (q : Jac F) :
    affineEqProj a q = true ↔ ofAffine a = toAff q := affineEqProj_iff a q

example : (⟨2 * 9, 1 * 27, 3⟩ : Jac (ZMod 13)).eq ⟨2 * 4, 1 * 8, 2⟩ = true ∧
    (⟨2 * 9, 1 * 27, 3⟩ : Jac (ZMod 13)).eq ⟨2 * 4, 12 * 8, 2⟩ = false ∧
    (⟨1, 2, 0⟩ : Jac (ZMod 13)).eq ⟨5, 7, 0⟩ = true ∧
    (⟨1, 2, 0⟩ : Jac (ZMod 13)).eq ⟨1, 2, 1⟩ = false := by decide +kernel

/-! ### 13. conversion to and from affine -/

/-- `From<Projective> for Affine` never panics and returns the denoted point -/
theorem sw_toAffine_total (p : Jac F) : ∃ r, toAffine p = .ok r ∧ ofAffine r = toAff p :=
  toAffine_ok p

theorem sw_fromAffine_correct (a : Affine F) : toAff (fromAffine a) = ofAffine a :=
  toAff_fromAffine a

example : toAffine (⟨2 * 9, 1 * 27, 3⟩ : Jac (ZMod 13)) = .ok ⟨2, 1, false⟩ ∧
    toAffine (⟨4, 5, 0⟩ : Jac (ZMod 13)) = .ok Affine.identity := by decide +kernel

/-! ### 14. batch normalisation = pointwise normalisation -/

theorem sw_normalizeBatch_correct (v : List (Jac F)) :
    ∃ l, normalizeBatch v = .ok l ∧ l.map ofAffine = v.map toAff :=
  normalizeBatch_ok v

example : normalizeBatch ([⟨2 * 9, 1 * 27, 3⟩, ⟨4, 5, 0⟩, ⟨5 * 4, 1 * 8, 2⟩] : List (Jac (ZMod 13)))
    = .ok [⟨2, 1, false⟩, Affine.identity, ⟨5, 1, false⟩] := by decide +kernel

/-! ### 15. sums -/

theorem sw_sumProj_correct (c : Curve F) (hA : ∀ e, c.mulByA e = c.a * e) (h2 : (2 : F) ≠ 0)
    (l : List (Jac F)) (hl : ∀ p ∈ l, onCurve c.a c.b (toAff p) = true) :
    toAff (sumProj c l) = affSum c.a (l.map toAff) ∧
      onCurve c.a c.b (toAff (sumProj c l)) = true := by
  have h := foldl_add_spec c hA h2 l hl Jac.zero (by rw [toAff_zero]; rfl)
  rw [toAff_zero] at h
  exact h

theorem sw_sumAffine_correct (c : Curve F) (hA : ∀ e, c.mulByA e = c.a * e) (h2 : (2 : F) ≠ 0)
    (l : List (Affine F)) (hl : ∀ p ∈ l, onCurve c.a c.b (ofAffine p) = true) :
    toAff (sumAffine c l) = affSum c.a (l.map ofAffine) ∧
      onCurve c.a c.b (toAff (sumAffine c l)) = true := by
  have h := foldl_addMixed_spec c hA h2 l hl Jac.zero (by rw [toAff_zero]; rfl)
  rw [toAff_zero] at h
  exact h

example :
    let l : List (Jac (ZMod 13)) := [⟨2 * 9, 1 * 27, 3⟩, ⟨4, 5, 0⟩, ⟨2 * 4, 1 * 8, 2⟩, ⟨5, 1, 1⟩]
    (∀ p ∈ l, onCurve c13.a c13.b (toAff p) = true) ∧ toAff (sumProj c13 l) = some (2, 12) := by
  decide +kernel

/-! ### 16. `is_on_curve` -/

theorem sw_isOnCurve_correct (c : Curve F) (hA : ∀ e, c.mulByA e = c.a * e) (a : Affine F) :
    a.isOnCurve c = onCurve c.a c.b (ofAffine a) := isOnCurve_eq c hA a

example : (⟨5, 4, false⟩ : Affine (ZMod 13)).isOnCurve d13 = true ∧
    (⟨5, 5, false⟩ : Affine (ZMod 13)).isOnCurve d13 = false := by decide +kernel

/-! ### 17. bridge to Mathlib: `affAdd` is the addition of `WeierstrassCurve.Affine.Point`
    on `wcurve a b = ⟨0, 0, 0, a, b⟩`, hence associative and commutative -/

/-- `ofPoint` (forget the nonsingularity proof) is an injective map into the points of the curve
    that turns Mathlib's `0`, `-`, `+` into `none`, `affNeg`, `affAdd` -/
theorem sw_mathlib_bridge (a b : F) :
    Function.Injective (ofPoint (a := a) (b := b)) ∧
    ofPoint (0 : (wcurve a b).Point) = none ∧
    (∀ P : (wcurve a b).Point, onCurve a b (ofPoint P) = true) ∧
    (∀ P : (wcurve a b).Point, ofPoint (-P) = affNeg (ofPoint P)) ∧
    (∀ P Q : (wcurve a b).Point, ofPoint (P + Q) = affAdd a (ofPoint P) (ofPoint Q)) :=
  ⟨ofPoint_injective, rfl, onCurve_ofPoint, ofPoint_neg, ofPoint_add⟩

/-- on a non-singular curve (`Δ = −16 (4a³ + 27b²) ≠ 0`) every point of the curve is a Mathlib point -/
theorem sw_mathlib_surjective (a b : F) (hΔ : -16 * (4 * a ^ 3 + 27 * b ^ 2) ≠ 0)
    (P : Option (F × F)) (hP : onCurve a b P = true) :
    ∃ Q : (wcurve a b).Point, ofPoint Q = P :=
  exists_point (by rw [wcurve_Δ]; exact hΔ) P hP

theorem sw_affAdd_assoc (a b : F) (hΔ : -16 * (4 * a ^ 3 + 27 * b ^ 2) ≠ 0)
    (P Q R : Option (F × F)) (hP : onCurve a b P = true) (hQ : onCurve a b Q = true)
    (hR : onCurve a b R = true) :
    affAdd a (affAdd a P Q) R = affAdd a P (affAdd a Q R) :=
  affAdd_assoc (by rw [wcurve_Δ]; exact hΔ) P Q R hP hQ hR

theorem sw_affAdd_comm (a b : F) (hΔ : -16 * (4 * a ^ 3 + 27 * b ^ 2) ≠ 0)
    (P Q : Option (F × F)) (hP : onCurve a b P = true) (hQ : onCurve a b Q = true) :
    affAdd a P Q = affAdd a Q P :=
  affAdd_comm (by rw [wcurve_Δ]; exact hΔ) P Q hP hQ

example : -16 * (4 * (0 : ZMod 13) ^ 3 + 27 * 6 ^ 2) ≠ 0 := by decide +kernel
example : -16 * (4 * (12 : ZMod 13) ^ 3 + 27 * 0 ^ 2) ≠ 0 := by decide +kernel

/-- consequently the implementation's `add` is associative on the denoted points -/
theorem sw_add_assoc (c : Curve F) (hA : ∀ e, c.mulByA e = c.a * e) (h2 : (2 : F) ≠ 0)
    (hΔ : -16 * (4 * c.a ^ 3 + 27 * c.b ^ 2) ≠ 0) (p q r : Jac F)
    (hP : onCurve c.a c.b (toAff p) = true) (hQ : onCurve c.a c.b (toAff q) = true)
    (hR : onCurve c.a c.b (toAff r) = true) :
    toAff (add c (add c p q) r) = toAff (add c p (add c q r)) := by
  rw [toAff_add c hA h2 _ r (onCurve_add c hA h2 p q hP hQ) hR, toAff_add c hA h2 p q hP hQ,
    toAff_add c hA h2 p _ hP (onCurve_add c hA h2 q r hQ hR), toAff_add c hA h2 q r hQ hR]
  exact sw_affAdd_assoc c.a c.b hΔ _ _ _ hP hQ hR

end Ark.C03
