import Ark.Proofs.SurfaceC
/-
  Property C13c — `hash_to_field` from an XOF reader and the totality of `IsogenyMap::apply`
  (`Ark.Model.H2C`: `XofReader`, `xofElems`, `hashToFieldXof`, `streamReader`, `isoApply`; model of the free
  function `hash_to_field` of ff/src/fields/field_hashers/mod.rs and of ec/src/hashing/curve_maps/wb.rs)
  against RFC 9380 §5.2 (`Rfc.hashToFieldOfBytes`: steps 3–8 of `hash_to_field(msg, 1)` on a given
  `uniform_bytes` string).

  1. `get_len_per_elem` is the `L` of RFC 9380 §5.1
  2. the model IS `m` big-endian chunks of `L` bytes reduced mod `p`, and it requests exactly `m·L` bytes
  3. it panics iff `L > 2048` (the slice of the 2048-byte stack buffer)
  4. relation with the XMD-based `DefaultFieldHasher` for `count = 1` (`C13.hash_to_field_eq_rfc`)
  5. `IsogenyMap::apply` never panics and maps the identity to the identity
-/
namespace Ark.C13c
open Ark Ark.H2C Ark.H2C.P

/-- a toy hash with 2-byte output for the examples (as in `C13`) -/
def toyH (x : Bytes) : Bytes := [x.sum % 256, x.length % 256]

/-! ### 1. `L` -/

/-- `get_len_per_elem::<F, SEC_PARAM>()` is `L = ceil((ceil(log2(p)) + k) / 8)` -/
theorem len_per_elem_eq_paramL (p k : Nat) : getLenPerElem (Rfc.ceilLog2 p) k = Rfc.paramL p k :=
  getLenPerElem_eq p k

example : getLenPerElem (Rfc.ceilLog2 Rfc.blsP) 128 = 64 ∧ Rfc.paramL 127 128 = 17 := by decide +kernel

/-! ### 2. the model is RFC 9380 §5.2 on the bytes of the reader -/

/-- on the harness' stream reader holding at least `m·L` bytes: the result is `hash_to_field` steps 3–8 of
    the RFC on those bytes (`e_j = OS2IP(substr(uniform_bytes, L·j, L)) mod p`), the reader has delivered
    the first `m·L` bytes and has been asked for exactly `m·L` bytes -/
theorem hash_to_field_xof_eq_rfc (p m k : Nat) (d : Bytes) (cnt : Nat) (hL : Rfc.paramL p k ≤ 2048)
    (hd : m * Rfc.paramL p k ≤ d.length) :
    hashToFieldXof streamReader p (Rfc.ceilLog2 p) m k (d, cnt) =
      .ok (Rfc.hashToFieldOfBytes p m k d, (d.drop (m * Rfc.paramL p k), cnt + m * Rfc.paramL p k)) :=
  hashToFieldXof_stream p m k d cnt hL hd

/-- the number of bytes requested is the RFC's `len_in_bytes = count · m · L` with `count = 1` -/
theorem hash_to_field_xof_requests (p m k : Nat) (d : Bytes) (hL : Rfc.paramL p k ≤ 2048)
    (hd : m * Rfc.paramL p k ≤ d.length) :
    ∃ r, hashToFieldXof streamReader p (Rfc.ceilLog2 p) m k (d, 0) = .ok r ∧
      r.2.2 = Rfc.lenInBytes1 p m k := by
  refine ⟨_, hash_to_field_xof_eq_rfc p m k d 0 hL hd, ?_⟩
  simp [Rfc.lenInBytes1]

/-- any stream (the reader continues a short stream with zeros): chunk `j` is bytes `[L·j, L·j + L)` of the
    stream padded with zeros; still exactly `m·L` bytes are requested -/
theorem hash_to_field_xof_any_stream (p m k : Nat) (d : Bytes) (cnt : Nat) (hL : Rfc.paramL p k ≤ 2048) :
    hashToFieldXof streamReader p (Rfc.ceilLog2 p) m k (d, cnt) =
      .ok ((List.range m).map (fun j => os2ip (chunkZ d (Rfc.paramL p k) j) % p),
        (d.drop (m * Rfc.paramL p k), cnt + m * Rfc.paramL p k)) :=
  hashToFieldXof_stream_gen p m k d cnt hL

/-- any reader: `m` calls of `read` on the one `L`-byte buffer (initially zero), one coordinate `< p` each -/
theorem hash_to_field_xof_any_reader {σ : Type} (R : XofReader σ) (p bits m k : Nat) (h : σ)
    (hL : getLenPerElem bits k ≤ 2048) (hp : 0 < p) :
    hashToFieldXof R p bits m k h = .ok (xofElems R p m h (List.replicate (getLenPerElem bits k) 0)) ∧
    (xofElems R p m h (List.replicate (getLenPerElem bits k) 0)).1.length = m ∧
    ∀ c ∈ (xofElems R p m h (List.replicate (getLenPerElem bits k) 0)).1, c < p :=
  ⟨hashToFieldXof_ok R p bits m k h hL, xofElems_length R p m h _, xofElems_lt R p hp m h _⟩

/-- the model's `os2ip` (a left fold) is the RFC's OS2IP -/
theorem os2ip_eq_rfc (b : Bytes) : os2ip b = Rfc.os2ip b := os2ip_eq b

example : Rfc.paramL 127 128 ≤ 2048 ∧ 2 * Rfc.paramL 127 128 ≤ (List.range 40).length := by decide +kernel
example : hashToFieldXof streamReader 127 (Rfc.ceilLog2 127) 2 128 (List.range 40, 0) =
    .ok (Rfc.hashToFieldOfBytes 127 2 128 (List.range 40), ([34, 35, 36, 37, 38, 39], 34)) :=
  hash_to_field_xof_eq_rfc 127 2 128 (List.range 40) 0 (by decide +kernel) (by decide +kernel)
example : Rfc.hashToFieldOfBytes 127 2 128 (List.range 40) = [117, 109] := by decide +kernel
/-- a short stream is continued with zeros -/
example : hashToFieldXof streamReader 127 (Rfc.ceilLog2 127) 2 128 ([1, 2, 3], 5) = .ok ([11, 0], ([], 39)) := by
  decide +kernel

/-! ### 3. the only panic -/

/-- `hash_to_field` panics iff `len_per_base_elem > 2048` (`&mut alloca[0..len_per_base_elem]`) -/
theorem hash_to_field_xof_panic_iff {σ : Type} (R : XofReader σ) (p bits m k : Nat) (h : σ) :
    hashToFieldXof R p bits m k h = .panic ↔ getLenPerElem bits k > 2048 :=
  hashToFieldXof_panic_iff R p bits m k h

theorem hash_to_field_xof_panic_iff_rfc {σ : Type} (R : XofReader σ) (p m k : Nat) (h : σ) :
    hashToFieldXof R p (Rfc.ceilLog2 p) m k h = .panic ↔ Rfc.paramL p k > 2048 := by
  rw [hash_to_field_xof_panic_iff, getLenPerElem_eq]

example : Rfc.paramL 127 16384 > 2048 ∧
    hashToFieldXof streamReader 127 (Rfc.ceilLog2 127) 1 16384 ([], 0) = .panic := by decide +kernel
example : Rfc.paramL 127 16370 = 2048 ∧
    hashToFieldXof streamReader 127 (Rfc.ceilLog2 127) 0 16370 ([], 0) = .ok ([], ([], 0)) := by
  decide +kernel

/-! ### 4. relation with the XMD hasher, `count = 1` -/

/-- RFC 9380 §5.2 with `count = 1` is `hashToFieldOfBytes` of the output of `expand_message` -/
theorem rfc_hash_to_field_count_one (H : Bytes → Bytes) (bLen s p m k : Nat) (dst msg ub : Bytes)
    (h : Rfc.expandMessageXmd H bLen s msg dst (1 * m * Rfc.paramL p k) = some ub) :
    Rfc.hashToField H bLen s p m k dst msg 1 = some [Rfc.hashToFieldOfBytes p m k ub] :=
  rfc_hashToField_one H bLen s p m k dst msg ub h

/-- the XMD-based `DefaultFieldHasher::hash_to_field::<1>` (theorem `C13.hash_to_field_eq_rfc`) and the
    XOF-reader `hash_to_field` fed with the bytes of `expand_message_xmd` return the same field element;
    the latter consumes the whole expander output -/
theorem hash_to_field_xmd_eq_xof (H : Bytes → Bytes) (bLen : Nat) (hH : ∀ x, (H x).length = bLen) (hb : 0 < bLen)
    (p m k : Nat) (hL : Rfc.paramL p k ≤ 256) (dst msg ub : Bytes)
    (hx : Rfc.expandMessageXmd H bLen (Rfc.paramL p k) msg dst (1 * m * Rfc.paramL p k) = some ub) :
    hashToField H bLen p (Rfc.ceilLog2 p) m k 1 dst msg = .ok [Rfc.hashToFieldOfBytes p m k ub] ∧
    hashToFieldXof streamReader p (Rfc.ceilLog2 p) m k (ub, 0) =
      .ok (Rfc.hashToFieldOfBytes p m k ub, ([], m * Rfc.paramL p k)) :=
  hashToField_one_eq_xof H bLen hH hb p m k hL dst msg ub hx

example : Rfc.expandMessageXmd toyH 2 (Rfc.paramL 127 128) [97] [81, 85] (1 * 2 * Rfc.paramL 127 128) =
    some [236, 6, 143, 6, 109, 6, 16, 6, 6, 6, 249, 6, 159, 6, 130, 6, 120, 6, 35, 6, 217, 6, 196, 6, 194, 6,
      189, 6, 107, 6, 22, 6, 20, 6] ∧ (∀ x, (toyH x).length = 2) ∧ Rfc.paramL 127 128 ≤ 256 := by
  refine ⟨by decide +kernel, fun _ => rfl, by decide +kernel⟩
example : hashToField toyH 2 127 (Rfc.ceilLog2 127) 2 128 1 [81, 85] [97] = .ok [[98, 12]] := by decide +kernel
example : hashToFieldXof streamReader 127 (Rfc.ceilLog2 127) 2 128
    ([236, 6, 143, 6, 109, 6, 16, 6, 6, 6, 249, 6, 159, 6, 130, 6, 120, 6, 35, 6, 217, 6, 196, 6, 194, 6,
      189, 6, 107, 6, 22, 6, 20, 6], 0) = .ok ([98, 12], ([], 34)) := by decide +kernel

/-! ### 5. `IsogenyMap::apply` -/

section iso
variable {F : Type} [Field F] [DecidableEq F]

/-- the identity is mapped to the identity -/
theorem iso_apply_identity (iso : Iso F) : isoApply iso none = .ok none := rfl

/-- `IsogenyMap::apply` never panics (`batch_inversion` is only reached with non-zero denominators) -/
theorem iso_apply_total (iso : Iso F) (pt : Option (F × F)) : isoApply iso pt ≠ .panic :=
  isoApply_ne_panic iso pt

/-- … and it is the RFC's `iso_map`, the identity at the poles -/
theorem iso_apply_eq_rfc (iso : Iso F) (pt : Option (F × F)) :
    isoApply iso pt = .ok (pt.bind (fun q => Rfc.isoMap iso q)) := by
  cases pt with
  | none => rfl
  | some q => obtain ⟨x, y⟩ := q; exact isoApply_eq iso x y

end iso

end Ark.C13c
