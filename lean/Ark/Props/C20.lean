import Ark.Proofs.Lit
/-
  Property C20 — compile-time literals.

  `Ark.Model.Lit` (model of ff-macros/src/utils.rs `str_to_limbs_u64`, `BigInt!`, `MontFp!`,
  `Fp::from_sign_and_limbs`, the run-time twins `FromStr`, and the limb-count / trace /
  root-of-unity computations of `#[derive(MontConfig)]`) against the independent reference
  reading `Ark.LitSpec.denote` of `Ark.Model.DrvC20` (positional notation).

  `W = B^N = 2^(64N)`.  Signed values are stated on `Int` with `%` = `Int.emod`
  (non-negative representative).  Helper lemmas are in Ark/Proofs/Lit.lean;
  `Ark.Lit.leSum b ds = Σ dᵢ·b^i` is defined there.
-/
namespace Ark.C20
open Ark Ark.Mont Ark.Lit Ark.LitSpec

/-! ## 1. `str_to_limbs_u64`: acceptance and value -/

/-- whatever `str_to_limbs_u64` accepts, the reference reading accepts too, and the result is
    sign + magnitude of the denoted number `n`: `pos = (0 ≤ n)`, the limbs are well-formed, denote
    `|n|`, and there are exactly `⌈bitLength |n| / 64⌉` of them (one limb `0` for `n = 0`) — i.e. they
    are the canonical limbs `toLimbs _ |n|` without leading zero limbs. -/
theorem str_to_limbs_sound (s : List Char) (pos : Bool) (ls : List Nat)
    (h : strToLimbsU64 s = .ok (pos, ls)) :
    ∃ r, denote true s = some r ∧ value ls = r.value.natAbs ∧ pos = decide (0 ≤ r.value) ∧ WF ls ∧
      ls.length = (if r.value = 0 then 1 else (bitLength r.value.natAbs + 63) / 64) ∧
      ls = toLimbs ls.length r.value.natAbs := by
  obtain ⟨k, hk, rfl, rfl⟩ := (strToLimbsU64_ok_iff s pos ls).mp h
  obtain ⟨r, e1, e2⟩ := litInt_denote s k hk
  subst e2
  refine ⟨r, e1, hexLimbs_value _, rfl, hexLimbs_wf _, ?_, hexLimbs_eq_toLimbs _⟩
  rw [hexLimbs_length]
  simp only [Int.natAbs_eq_zero]

/-- conversely every literal of the conventional shape `[-] [0x|0o|0b] digits` (digits possibly
    separated by `_`) is accepted (no panic), with the denoted sign and magnitude -/
theorem str_to_limbs_complete (s : List Char) (r : Reading) (h : denote true s = some r)
    (hs : r.strictSigned = true) :
    strToLimbsU64 s ≠ .panic ∧
    ∃ ls, strToLimbsU64 s = .ok (decide (0 ≤ r.value), ls) ∧ value ls = r.value.natAbs := by
  have hl := denote_litInt s r h hs
  have he : strToLimbsU64 s = .ok (decide (0 ≤ r.value), hexLimbs r.value.natAbs) :=
    (strToLimbsU64_ok_iff s _ _).mpr ⟨_, hl, rfl, rfl⟩
  exact ⟨(by rw [he]; intro hh; cases hh), _, he, hexLimbs_value _⟩

/-- rejection is a panic of the macro (= compile error), and only strings the reference reading
    rejects or reads with unconventional signs are rejected -/
theorem str_to_limbs_panic (s : List Char) (h : strToLimbsU64 s = .panic) :
    denote true s = none ∨ ∃ r, denote true s = some r ∧ r.strictSigned = false := by
  cases hd : denote true s with
  | none => exact Or.inl rfl
  | some r =>
    right
    refine ⟨r, rfl, ?_⟩
    cases hs : r.strictSigned with
    | false => rfl
    | true => exact absurd h (str_to_limbs_complete s r hd hs).1

-- non-vacuity: negative hex, `_` separators, two limbs, zero, inner sign, and a rejected string
example : strToLimbsU64 "-0x1f".toList = .ok (false, [31]) := by decide +kernel
example : (denote true "-0x1f".toList).map (fun r => (r.value, r.strictSigned)) = some (-31, true) := by
  decide +kernel
example : strToLimbsU64 "0x1_0000_0000_0000_0005".toList = .ok (true, [5, 1]) := by decide +kernel
example : strToLimbsU64 "18446744073709551621".toList = .ok (true, [5, 1]) := by decide +kernel
example : strToLimbsU64 "-0".toList = .ok (true, [0]) := by decide +kernel
example : strToLimbsU64 "-0b-101".toList = .ok (true, [5]) ∧
    (denote true "-0b-101".toList).map (fun r => (r.value, r.strictSigned)) = some (5, false) := by
  decide +kernel
/-- `strictSigned` cannot be dropped from `str_to_limbs_complete`: the reference reads `--0x1f`
    as `31`, the macro panics -/
example : strToLimbsU64 "--0x1f".toList = .panic ∧
    (denote true "--0x1f".toList).map (fun r => r.value) = some 31 := by decide +kernel
example : strToLimbsU64 "0x".toList = .panic ∧ strToLimbsU64 "_1".toList = .panic ∧
    strToLimbsU64 "12a".toList = .panic ∧ strToLimbsU64 "".toList = .panic := by decide +kernel

/-! ## 2. hex digits (`to_radix_le(16)`) -/

/-- for `n > 0` the digit vector satisfies `Σ dᵢ·16^i = n`, every digit is `< 16`, the vector is
    non-empty and its last (most significant) digit is non-zero -/
theorem hex_digits_exact (n : Nat) (hn : 0 < n) :
    leSum 16 (toRadixLE16 n) = n ∧ (∀ d ∈ toRadixLE16 n, d < 16) ∧ toRadixLE16 n ≠ [] ∧
    ∀ d, (toRadixLE16 n).getLast? = some d → d ≠ 0 := by
  obtain ⟨h1, h2, h3, h4⟩ := toRadixLE16_spec n
  exact ⟨h1, h2, h4, h3 (by omega)⟩

theorem hex_digits_zero : toRadixLE16 0 = [0] := rfl

example : toRadixLE16 0x1f0 = [0, 15, 1] := by decide +kernel

/-! ## 3. chunking into limbs -/

/-- sixteen hexits per limb: the limbs denote `Σ dᵢ·16^i`; if every digit is `< 16` every limb is
    `< 2^64`; there are `⌈len/16⌉` limbs -/
theorem chunking_exact (ds : List Nat) :
    value ((chunks 16 ds ds.length).map (fun ch => limbOfChunk ch 0)) = leSum 16 ds ∧
    ((∀ d ∈ ds, d < 16) → WF ((chunks 16 ds ds.length).map (fun ch => limbOfChunk ch 0))) ∧
    ((chunks 16 ds ds.length).map (fun ch => limbOfChunk ch 0)).length = (ds.length + 15) / 16 := by
  refine ⟨?_, ?_, ?_⟩
  · rw [limbOfChunk_zero, value_eq_leSum, ← B_eq_16, chunks_leSum 16 16 (by omega) _ _ (Nat.le_refl _)]
  · intro h
    unfold WF
    rw [limbOfChunk_zero, ← B_eq_16]
    exact chunks_lt 16 16 (by omega) _ _ h
  · rw [List.length_map]
    have ⟨c1, c2⟩ := chunks_length 16 (by omega) ds.length ds (Nat.le_refl _)
    omega

example : (chunks 16 (List.replicate 17 15) 17).map (fun ch => limbOfChunk ch 0) = [B - 1, 15] := by
  decide +kernel

/-! ## 4. decimal round trip -/

/-- `BigUint::from_str(&n.to_string()) == Ok(n)` -/
theorem decimal_roundtrip (n : Nat) : bigUintFromStrRadix (decimal n) 10 = some n :=
  bigUint_decimal n

/-- … and the compile-time parser reads the decimal text as `n`, too -/
theorem decimal_str_to_limbs (n : Nat) :
    ∃ ls, strToLimbsU64 (decimal n) = .ok (true, ls) ∧ value ls = n ∧ WF ls :=
  ⟨_, strToLimbsU64_decimal n, hexLimbs_value n, hexLimbs_wf n⟩

example : decimal 18446744073709551621 = "18446744073709551621".toList := by decide +kernel

/-! ## 5. `BigInt!` -/

/-- for an accepted literal denoting `n`, `BigInt!(s)` at `BigInt<N>` (`N ≥ 1`) compiles iff
    `0 ≤ n < 2^(64N)`, and the constant is then the `N`-limb representation of `n` -/
theorem bigint_macro_iff (N : Nat) (hN : 0 < N) (s : List Char) (r : Reading)
    (h : denote true s = some r) (hacc : strToLimbsU64 s ≠ .panic) (l : List Nat) :
    bigIntMacro N s = .ok l ↔
      0 ≤ r.value ∧ r.value < ((B ^ N : Nat) : Int) ∧ l = toLimbs N r.value.toNat := by
  have hk := accepted_litInt s r h hacc
  constructor
  · intro hl
    by_cases hc : 0 ≤ r.value ∧ r.value.natAbs < B ^ N
    · rw [bigIntMacro_ok N hN s _ hk hc.1 hc.2] at hl
      injection hl with hl
      exact ⟨hc.1, by omega, hl.symm⟩
    · rw [bigIntMacro_panic N hN s _ hk (by omega)] at hl
      cases hl
  · rintro ⟨h0, h1, rfl⟩
    exact bigIntMacro_ok N hN s _ hk h0 (by omega)

theorem bigint_macro_value (N : Nat) (hN : 0 < N) (s : List Char) (r : Reading)
    (h : denote true s = some r) (hacc : strToLimbsU64 s ≠ .panic) (l : List Nat)
    (hl : bigIntMacro N s = .ok l) : (value l : Int) = r.value ∧ l.length = N ∧ WF l := by
  obtain ⟨h0, h1, rfl⟩ := (bigint_macro_iff N hN s r h hacc l).mp hl
  refine ⟨?_, toLimbs_length _ _, toLimbs_wf _ _⟩
  rw [toLimbs_value, Nat.mod_eq_of_lt (by omega)]
  omega

/-- otherwise (negative, too large, or not accepted) the constant does not compile -/
theorem bigint_macro_panic (N : Nat) (hN : 0 < N) (s : List Char) (r : Reading)
    (h : denote true s = some r) (hacc : strToLimbsU64 s ≠ .panic)
    (hbad : r.value < 0 ∨ ((B ^ N : Nat) : Int) ≤ r.value) : bigIntMacro N s = .panic :=
  bigIntMacro_panic N hN s _ (accepted_litInt s r h hacc) (by omega)

theorem bigint_macro_reject (N : Nat) (s : List Char) (h : strToLimbsU64 s = .panic) :
    bigIntMacro N s = .panic := by
  unfold bigIntMacro toSignAndLimbs; rw [h]

example : bigIntMacro 2 "0x1f".toList = .ok [31, 0] := by decide +kernel
example : bigIntMacro 1 "0xffff_ffff_ffff_ffff".toList = .ok [B - 1] := by decide +kernel
example : bigIntMacro 1 "0x1_0000_0000_0000_0000".toList = .panic := by decide +kernel
example : bigIntMacro 1 "-1".toList = .panic := by decide +kernel
/-- `N = 0` is excluded above: `BigInt!("0")` at `BigInt<0>` panics (the parser always returns one limb) -/
example : bigIntMacro 0 "0".toList = .panic := by decide +kernel

/-! ## 6. `Fp::from_sign_and_limbs` -/

/-- for an odd modulus `1 < p < 2^(64N)` and ANY `≤ N` well-formed limbs (also with value `≥ p`):
    the result is the canonical Montgomery form of `±value ls`:
    `value m = ((±value ls) mod p)·W mod p`, `value m < p`, `N` well-formed limbs -/
theorem from_sign_and_limbs_correct (fl : Bool) (N p : Nat) (hN : 0 < N) (hodd : p % 2 = 1)
    (h1 : 1 < p) (hlt : p < B ^ N) (pos : Bool) (ls : List Nat) (hwf : WF ls) (hlen : ls.length ≤ N) :
    ∃ m, fromSignAndLimbs (mkCfg fl N p) pos ls = .ok m ∧
      (value m : Int) = ((if pos then (value ls : Int) else -(value ls : Int)) % (p : Int)
        * ((B ^ N : Nat) : Int)) % (p : Int) ∧
      value m < p ∧ m.length = N ∧ WF m := by
  obtain ⟨m, e1, e2, e3⟩ := fromSignAndLimbs_spec fl N p hN hodd h1 hlt pos ls hwf hlen
  exact ⟨m, e1, e3, e2.lt, e2.len, e2.wf⟩

/-- more than `N` limbs: `assert!(limbs.len() <= N)` fails -/
theorem from_sign_and_limbs_panic (c : MontCfg) (pos : Bool) (ls : List Nat) (h : c.n < ls.length) :
    fromSignAndLimbs c pos ls = .panic :=
  fromSignAndLimbs_panic c pos ls h

/-- `const_neg` is `neg_in_place`: `(p − x) mod p` on a canonical element -/
theorem const_neg_exact {c : MontCfg} {pv : Nat} (h : CfgOK c pv) (a : List Nat) (ha : Elem c pv a) :
    Elem c pv (constNeg c a) ∧ value (constNeg c a) = (pv - value a) % pv := by
  rw [constNeg_eq_neg]; exact Ark.C01.neg_exact h a ha

-- non-vacuity: unreduced input `100 ≥ 13`, both signs; `100 mod 13 = 9`, `R = 2^64 mod 13 = 3`
example : 0 < 1 ∧ 13 % 2 = 1 ∧ 1 < 13 ∧ 13 < B ^ 1 ∧ WF [100] ∧ [100].length ≤ 1 := by
  unfold WF; decide +kernel
example : fromSignAndLimbs (mkCfg true 1 13) true [100] = .ok [1] ∧ (9 * 3) % 13 = 1 := by
  decide +kernel
example : fromSignAndLimbs (mkCfg true 1 13) false [100] = .ok [12] ∧ ((13 - 9) * 3) % 13 = 12 := by
  decide +kernel
example : fromSignAndLimbs (mkCfg false 2 (2 ^ 128 - 159)) false [B - 1, B - 1] = .ok [B - 25281, B - 1] := by
  decide +kernel
example : fromSignAndLimbs (mkCfg true 1 13) true [1, 0] = .panic := by decide +kernel

/-! ## 7. `MontFp!` -/

/-- for an accepted literal denoting `n` with `|n| < 2^(64N)`, `MontFp!(s)` is the canonical
    Montgomery form of `n mod p` -/
theorem mont_fp_correct (fl : Bool) (N p : Nat) (hN : 0 < N) (hodd : p % 2 = 1) (h1 : 1 < p)
    (hlt : p < B ^ N) (s : List Char) (r : Reading) (h : denote true s = some r)
    (hacc : strToLimbsU64 s ≠ .panic) (hsmall : r.value.natAbs < B ^ N) :
    ∃ m, montFp (mkCfg fl N p) s = .ok m ∧
      (value m : Int) = (r.value % (p : Int) * ((B ^ N : Nat) : Int)) % (p : Int) ∧
      value m < p ∧ m.length = N ∧ WF m := by
  obtain ⟨m, e1, e2, e3⟩ := montFp_spec fl N p hN hodd h1 hlt s _ (accepted_litInt s r h hacc) hsmall
  exact ⟨m, e1, e3, e2.lt, e2.len, e2.wf⟩

/-- if `|n| ≥ 2^(64N)` the literal has more than `N` limbs and the constant does not compile -/
theorem mont_fp_overflow (c : MontCfg) (hN : 0 < c.n) (s : List Char) (r : Reading)
    (h : denote true s = some r) (hacc : strToLimbsU64 s ≠ .panic)
    (hbig : B ^ c.n ≤ r.value.natAbs) : montFp c s = .panic :=
  montFp_panic_big c hN s _ (accepted_litInt s r h hacc) hbig

theorem mont_fp_reject (c : MontCfg) (s : List Char) (h : strToLimbsU64 s = .panic) :
    montFp c s = .panic :=
  montFp_panic_none c s ((strToLimbsU64_panic_iff s).mp h)

-- `-0x1f = -31 ≡ 8 (mod 13)`, `8·3 mod 13 = 11`
example : montFp (mkCfg true 1 13) "-0x1f".toList = .ok [11] ∧ ((-31 : Int) % 13 * 3) % 13 = 11 := by
  decide +kernel
example : strToLimbsU64 "-0x1f".toList ≠ .panic := by decide +kernel
-- a literal `≥ p` (not reduced by the parser) and one `≥ W`
example : montFp (mkCfg true 1 13) "0xffff_ffff_ffff_ffff".toList = .ok [6] ∧
    ((2 ^ 64 - 1) % 13 * 3) % 13 = 6 := by decide +kernel
example : montFp (mkCfg true 1 13) "18446744073709551616".toList = .panic := by decide +kernel
example : montFp (mkCfg false 2 (2 ^ 128 - 159)) "-1".toList = .ok [B - 318, B - 1] := by
  decide +kernel

/-! ## 8. the run-time twin `Fp::from_str` -/

/-- whenever the decimal `BigInt` parser accepts `s` as `k`, `from_str` succeeds (none of its `Err`
    branches is reachable) with the canonical Montgomery form of `k mod p` — for every `k`, also
    `|k| ≥ 2^(64N)` -/
theorem fp_from_str_correct (fl : Bool) (N p : Nat) (hN : 0 < N) (hodd : p % 2 = 1) (h1 : 1 < p)
    (hlt : p < B ^ N) (s : List Char) (k : Int) (hk : bigIntFromStrRadix s 10 = some k) :
    ∃ m, fpFromStr (mkCfg fl N p) s = some m ∧
      (value m : Int) = (k % (p : Int) * ((B ^ N : Nat) : Int)) % (p : Int) ∧
      value m < p ∧ m.length = N ∧ WF m := by
  obtain ⟨m, e1, e2, e3⟩ := fpFromStr_spec fl N p hN hodd h1 hlt s k hk
  exact ⟨m, e1, e3, e2.lt, e2.len, e2.wf⟩

/-- the decimal `BigInt` parser against the reference reading (decimal only, no prefixes) -/
theorem bigint_from_str_sound (s : List Char) (k : Int) (hk : bigIntFromStrRadix s 10 = some k) :
    ∃ r, denote false s = some r ∧ r.value = k :=
  bigInt_denote_false s k hk

theorem bigint_from_str_complete (s : List Char) (r : Reading) (h : denote false s = some r)
    (hs : r.strictSigned = true) : bigIntFromStrRadix s 10 = some r.value :=
  denote_false_bigInt s r h hs

theorem biguint_from_str_sound (s : List Char) (n : Nat) (h : bigUintFromStrRadix s 10 = some n) :
    ∃ r, denote false s = some r ∧ r.value = n :=
  bigUint_denote_false s n h

theorem biguint_from_str_complete (s : List Char) (r : Reading) (h : denote false s = some r)
    (hs : r.strictUnsigned = true) : bigUintFromStrRadix s 10 = some r.value.toNat :=
  denote_false_bigUint s r h hs

/-- in terms of the reference reading: a conventional decimal literal `[-]digits` denoting `n`
    parses to the element `n mod p` -/
theorem fp_from_str_denote (fl : Bool) (N p : Nat) (hN : 0 < N) (hodd : p % 2 = 1) (h1 : 1 < p)
    (hlt : p < B ^ N) (s : List Char) (r : Reading) (h : denote false s = some r)
    (hs : r.strictSigned = true) :
    ∃ m, fpFromStr (mkCfg fl N p) s = some m ∧
      (value m : Int) = (r.value % (p : Int) * ((B ^ N : Nat) : Int)) % (p : Int) ∧
      value m < p ∧ m.length = N ∧ WF m :=
  fp_from_str_correct fl N p hN hodd h1 hlt s _ (denote_false_bigInt s r h hs)

/-- and everything `from_str` returns is the element the text denotes -/
theorem fp_from_str_sound (fl : Bool) (N p : Nat) (hN : 0 < N) (hodd : p % 2 = 1) (h1 : 1 < p)
    (hlt : p < B ^ N) (s : List Char) (m : List Nat) (h : fpFromStr (mkCfg fl N p) s = some m) :
    ∃ r, denote false s = some r ∧
      (value m : Int) = (r.value % (p : Int) * ((B ^ N : Nat) : Int)) % (p : Int) := by
  cases hk : bigIntFromStrRadix s 10 with
  | none => rw [fpFromStr_none _ s hk] at h; cases h
  | some k =>
    obtain ⟨r, e1, e2⟩ := bigInt_denote_false s k hk
    obtain ⟨m', f1, _, f2⟩ := fpFromStr_spec fl N p hN hodd h1 hlt s k hk
    rw [f1] at h
    injection h with h
    subst h
    exact ⟨r, e1, by rw [e2]; exact f2⟩

/-- **compile-time literal = run-time element**: for a string the decimal parser accepts, whatever
    `MontFp!` evaluates to is exactly (limb for limb) what `from_str` returns -/
theorem mont_fp_eq_from_str (fl : Bool) (N p : Nat) (hN : 0 < N) (hodd : p % 2 = 1) (h1 : 1 < p)
    (hlt : p < B ^ N) (s : List Char) (k : Int) (hk : bigIntFromStrRadix s 10 = some k)
    (m : List Nat) (hm : montFp (mkCfg fl N p) s = .ok m) : fpFromStr (mkCfg fl N p) s = some m :=
  montFp_fpFromStr fl N p hN hodd h1 hlt s k hk m hm

example : bigIntFromStrRadix "-31".toList 10 = some (-31) ∧
    montFp (mkCfg true 1 13) "-31".toList = .ok [11] ∧
    fpFromStr (mkCfg true 1 13) "-31".toList = some [11] := by decide +kernel
/-- `from_str` has no width limit (the literal is reduced first); `MontFp!` has -/
example : fpFromStr (mkCfg true 1 13) "18446744073709551616".toList = some [9] ∧
    montFp (mkCfg true 1 13) "18446744073709551616".toList = .panic := by decide +kernel
example : fpFromStr (mkCfg true 1 13) "0x1f".toList = none ∧
    fpFromStr (mkCfg true 1 13) "--1".toList = none := by decide +kernel

/-! ## 9. `#[derive(MontConfig)]` -/

/-- the limb-count loop computes `⌈bitLength p / 64⌉`, unless `p` is a power of `2^64` -/
theorem macro_limb_count (p : Nat) (hp : 1 ≤ p) (hne : ∀ k, 1 ≤ k → p ≠ B ^ k) :
    macroLimbCount p = (bitLength p + 63) / 64 :=
  macroLimbCount_eq p hp hne

/-- for `p = 2^(64k)` it is one limb short (`p` itself does not fit `k` limbs) -/
theorem macro_limb_count_power (k : Nat) (hk : 1 ≤ k) :
    macroLimbCount (B ^ k) = k ∧ (bitLength (B ^ k) + 63) / 64 = k + 1 :=
  ⟨macroLimbCount_pow k hk, bitLength_pow k⟩

/-- an odd modulus is never such a power -/
theorem odd_not_power (p : Nat) (hodd : p % 2 = 1) : ∀ k, 1 ≤ k → p ≠ B ^ k :=
  odd_ne_pow p hodd

example : macroLimbCount (2 ^ 64 - 59) = 1 ∧ macroLimbCount (2 ^ 64 + 13) = 2 ∧
    macroLimbCount (2 ^ 64) = 1 ∧ macroLimbCount 1 = 1 := by decide +kernel

/-- the modulus limbs the macro emits (`str_to_limbs_u64(&modulus.to_string()).1`) are
    `toLimbs (macroLimbCount p) p` -/
theorem modulus_limbs (p : Nat) (hp : 1 ≤ p) (hne : ∀ k, 1 ≤ k → p ≠ B ^ k) :
    strToLimbsU64 (decimal p) = .ok (true, toLimbs (macroLimbCount p) p) := by
  rw [strToLimbsU64_decimal, macroLimbCount_eq p hp hne, hexLimbs_eq p (by omega)]

example : strToLimbsU64 (decimal (2 ^ 64 + 13)) = .ok (true, [13, 1]) := by decide +kernel

/-- `trace`: for `p ≥ 2` the halving loop ends with the odd part `t` of `p − 1`:
    `p − 1 = 2^s·t` with `s = twoVal p (p−1)` the 2-adic valuation -/
theorem macro_trace (p : Nat) (hp : 2 ≤ p) :
    ∃ t s, macroTrace p = .ok t ∧ t % 2 = 1 ∧ p - 1 = 2 ^ s * t ∧
      s = twoVal p (p - 1) ∧ t = (p - 1) / 2 ^ twoVal p (p - 1) := by
  obtain ⟨t, s, e1, e2, e3⟩ := macroTrace_spec p hp
  have := twoVal_unique p s t hp e2 e3
  exact ⟨t, s, e1, e2, e3, this.1, this.2⟩

/-- `twoVal` (the driver's reference) is the exact power of two -/
theorem two_val_exact (p : Nat) (hp : 2 ≤ p) :
    2 ^ twoVal p (p - 1) ∣ p - 1 ∧ ¬ 2 ^ (twoVal p (p - 1) + 1) ∣ p - 1 := by
  obtain ⟨t, s, _, e2, e3, e4, _⟩ := macro_trace p hp
  rw [← e4]
  exact exact_pow_of_odd _ s t e2 e3

/-- modulus `0`: `BigUint` subtraction underflows; modulus `1`: the loop never ends -/
theorem macro_trace_degenerate : macroTrace 0 = .panic ∧ macroTrace 1 = .diverge := by
  decide +kernel

example : macroTrace 97 = .ok 3 ∧ 96 = 2 ^ 5 * 3 := by decide +kernel

/-- `modpow` -/
theorem mod_pow_exact (g e m : Nat) : modPow g e m = g ^ e % m :=
  modPow_spec g e m

example : modPow 5 3 97 = 28 := by decide +kernel

/-- `MODULUS.two_adic_valuation()` for an odd `3 ≤ p < 2^(64N)`: returns `s` with `2^s ∥ p − 1` -/
theorem two_adic_valuation_exact (N p : Nat) (hN : 0 < N) (hodd : p % 2 = 1) (h3 : 3 ≤ p)
    (hlt : p < B ^ N) :
    ∃ s, twoAdicValuation (toLimbs N p) = .ok s ∧ 2 ^ s ∣ p - 1 ∧ ¬ 2 ^ (s + 1) ∣ p - 1 ∧
      s = twoVal p (p - 1) := by
  obtain ⟨s, r, e1, e2, e3⟩ := twoAdicValuation_spec N p hN hodd h3 hlt
  have ⟨a, b⟩ := exact_pow_of_odd _ s r e2 e3
  exact ⟨s, e1, a, b, (twoVal_unique p s r (by omega) e2 e3).1⟩

/-- even modulus: `assert!` fails; modulus `1`: the loop never ends -/
theorem two_adic_valuation_degenerate (N : Nat) (hN : 0 < N) :
    (∀ p, p % 2 = 0 → twoAdicValuation (toLimbs N p) = .panic) ∧
    twoAdicValuation (toLimbs N 1) = .diverge :=
  ⟨fun p hp => twoAdicValuation_even N p hN hp, twoAdicValuation_one N hN⟩

example : twoAdicValuation (toLimbs 2 (2 ^ 64 + 1)) = .ok 64 := by decide +kernel
example : 0 < 2 ∧ (2 ^ 64 + 1) % 2 = 1 ∧ 3 ≤ 2 ^ 64 + 1 ∧ 2 ^ 64 + 1 < B ^ 2 := by decide +kernel

/-- **the derive macro end to end** for an odd modulus `p ≥ 3` and a generator `g < 2^(64N)`,
    `N = ⌈bitLength p / 64⌉`: the attribute strings are parsed, nothing panics or diverges, and the
    generated constants are: `N` limbs, the configuration `mkCfg true N p` (whose constants are
    correct by `Ark.C01.mk_cfg_ok`), `MODULUS = toLimbs N p`, `TWO_ADICITY = v₂(p−1)`,
    `GENERATOR = g·R mod p`, `TWO_ADIC_ROOT_OF_UNITY = (g^t mod p)·R mod p` with `t` the odd part of
    `p − 1` (Montgomery limbs). -/
theorem derive_correct (p g : Nat) (hodd : p % 2 = 1) (h3 : 3 ≤ p)
    (hg : g < B ^ ((bitLength p + 63) / 64)) :
    ∃ d k, montConfigDerive (some (decimal p)) (some (decimal g)) none none = .ok d ∧
      derivedConsts d = .ok k ∧
      k.n = (bitLength p + 63) / 64 ∧ k.cfg = mkCfg true ((bitLength p + 63) / 64) p ∧
      k.modulus = toLimbs ((bitLength p + 63) / 64) p ∧
      k.twoAdicity = twoVal p (p - 1) ∧
      Elem k.cfg p k.generator ∧ value k.generator = (g * B ^ k.n) % p ∧
      Elem k.cfg p k.root ∧
      value k.root = (g ^ ((p - 1) / 2 ^ twoVal p (p - 1)) % p * B ^ k.n) % p ∧ k.large = none :=
  derive_pipeline p g hodd h3 hg

example : 97 % 2 = 1 ∧ 3 ≤ 97 ∧ 5 < B ^ ((bitLength 97 + 63) / 64) := by decide +kernel
example : (montConfigDerive (some "97".toList) (some "5".toList) none none matches .ok _) = true := by
  decide +kernel

end Ark.C20
