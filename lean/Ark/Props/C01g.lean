import Ark.Proofs.SurfaceA
/-
  Property C01 (part g) — the remaining public API surface of `Fp` in
  ff/src/fields/models/fp/mod.rs, on the Montgomery backend (`Ark.Model.Mont`), modelled at the
  top of Ark/Model/DrvC01.lean:
    §1 `Div` / `DivAssign` (every receiver variant ends in `*self *= &other.inverse().unwrap()`);
    §2 `Sum`; §3 `Product`; §4 the default bodies of `AdditiveGroup::{double,neg}_in_place`;
    §5 `Field::inverse_in_place`; §6 `Zeroize`; §7 `From<bool|u8…u128|i8…i128>`.
  Every theorem holds for every configuration consistent with the odd modulus (`CfgOK c pv`:
  every limb count, spare bit or not, both flavours); primality (`hp : Nat.Prime pv` on the
  Nat level, `[Fact pv.Prime]` for the `ZMod pv` forms) only where inverses / `den` are involved.
  `R = B ^ c.n = 2^(64N)`; `den c pv a = value a · R⁻¹ ∈ ZMod pv`.
  Helpers are in Ark/Proofs/SurfaceA.lean (`surf_*` lemmas).
-/
namespace Ark.C01g
open Ark Ark.Mont Ark.C01

/-! ### concrete configurations used for the non-vacuity examples -/

local instance fact13 : Fact (Nat.Prime 13) := ⟨prime13⟩

example : CfgOK (mkCfg true 1 13) 13 := by constructor <;> first | decide +kernel | exact toLimbs_wf _ _
example : CfgOK (mkCfg false 1 (2 ^ 64 - 59)) (2 ^ 64 - 59) := by
  constructor <;> first | decide +kernel | exact toLimbs_wf _ _
example : CfgOK (mkCfg false 2 (2 ^ 128 - 159)) (2 ^ 128 - 159) := by
  constructor <;> first | decide +kernel | exact toLimbs_wf _ _
example : Nat.Prime 13 := by decide +kernel
example : Elem (mkCfg true 1 13) 13 [9] ∧ Elem (mkCfg true 1 13) 13 [11] ∧
    Elem (mkCfg true 1 13) 13 [12] ∧ Elem (mkCfg true 1 13) 13 [5] ∧ Elem (mkCfg true 1 13) 13 [0] :=
  ⟨elem13 9 (by omega), elem13 11 (by omega), elem13 12 (by omega), elem13 5 (by omega),
   elem13 0 (by omega)⟩
example : Elem (mkCfg false 1 (2 ^ 64 - 59)) (2 ^ 64 - 59) [2 ^ 64 - 60] ∧
    Elem (mkCfg false 1 (2 ^ 64 - 59)) (2 ^ 64 - 59) [2 ^ 64 - 61] ∧
    Elem (mkCfg false 1 (2 ^ 64 - 59)) (2 ^ 64 - 59) [5] ∧
    Elem (mkCfg false 1 (2 ^ 64 - 59)) (2 ^ 64 - 59) [7] := by
  refine ⟨⟨by decide +kernel, by unfold WF; decide +kernel, by decide +kernel⟩,
    ⟨by decide +kernel, by unfold WF; decide +kernel, by decide +kernel⟩,
    ⟨by decide +kernel, by unfold WF; decide +kernel, by decide +kernel⟩,
    ⟨by decide +kernel, by unfold WF; decide +kernel, by decide +kernel⟩⟩
example : Elem (mkCfg false 2 (2 ^ 128 - 159)) (2 ^ 128 - 159) (toLimbs 2 (2 ^ 128 - 160)) ∧
    Elem (mkCfg false 2 (2 ^ 128 - 159)) (2 ^ 128 - 159) (toLimbs 2 (2 ^ 128 - 200)) ∧
    Elem (mkCfg false 2 (2 ^ 128 - 159)) (2 ^ 128 - 159) (toLimbs 2 77) ∧
    Elem (mkCfg false 2 (2 ^ 128 - 159)) (2 ^ 128 - 159) [7, 68719476736] ∧
    Elem (mkCfg false 2 (2 ^ 128 - 159)) (2 ^ 128 - 159) [5, 9] := by
  refine ⟨?_, ?_, ?_, ?_, ?_⟩ <;>
    exact ⟨by decide +kernel, by unfold WF; decide +kernel, by decide +kernel⟩

/-! ## 1. `Div` / `DivAssign` -/

/-- partial correctness (neither primality nor coprimality needed): whatever `div` returns is the
    canonical element `r` with `r·b ≡ a·R (mod p)`, i.e. the Montgomery form of `a'·b'⁻¹` -/
theorem div_sound {c : MontCfg} {pv : Nat} (h : CfgOK c pv) {a b r : List Nat}
    (ha : Elem c pv a) (hb : Elem c pv b) (e : Mont.div c a b = .ok r) :
    Elem c pv r ∧ (value r * value b) % pv = (value a * B ^ c.n) % pv :=
  surf_div_sound h ha hb e

/-- division panics (the documented `unwrap` of `inverse`) exactly on a zero divisor -/
theorem div_panic_iff {c : MontCfg} {pv : Nat} (h : CfgOK c pv) (hp : Nat.Prime pv)
    (a : List Nat) {b : List Nat} (hb : Elem c pv b) :
    Mont.div c a b = .panic ↔ value b = 0 :=
  surf_div_panic_iff h hp a hb

/-- **division is correct**: total on non-zero divisors, with `r·b ≡ a·R (mod p)` -/
theorem div_correct {c : MontCfg} {pv : Nat} (h : CfgOK c pv) (hp : Nat.Prime pv)
    {a b : List Nat} (ha : Elem c pv a) (hb : Elem c pv b) (hne : value b ≠ 0) :
    ∃ r, Mont.div c a b = .ok r ∧ Elem c pv r ∧
      (value r * value b) % pv = (value a * B ^ c.n) % pv :=
  surf_div_total h hp ha hb hne

/-- uniqueness: the result is THE residue `x < p` with `x·b ≡ a·R (mod p)` -/
theorem div_unique {c : MontCfg} {pv : Nat} (h : CfgOK c pv) (hp : Nat.Prime pv)
    {a b r : List Nat} (ha : Elem c pv a) (hb : Elem c pv b) (e : Mont.div c a b = .ok r)
    (x : Nat) (hx : x < pv) (hxr : (x * value b) % pv = (value a * B ^ c.n) % pv) :
    x = value r :=
  surf_div_unique h hp ha hb e x hx hxr

/-- in `ZMod pv`: a non-zero divisor gives the element denoting `den a / den b`; a zero divisor
    panics -/
theorem div_zmod {c : MontCfg} {pv : Nat} [Fact pv.Prime] (h : CfgOK c pv) {a b : List Nat}
    (ha : Elem c pv a) (hb : Elem c pv b) :
    (den c pv b ≠ 0 →
      ∃ r, Mont.div c a b = .ok r ∧ Elem c pv r ∧ den c pv r = den c pv a / den c pv b) ∧
    (den c pv b = 0 → Mont.div c a b = .panic) :=
  surf_div_den h ha hb

/-- and any returned value denotes the quotient -/
theorem div_zmod_of_ok {c : MontCfg} {pv : Nat} [Fact pv.Prime] (h : CfgOK c pv)
    {a b r : List Nat} (ha : Elem c pv a) (hb : Elem c pv b) (e : Mont.div c a b = .ok r) :
    den c pv r = den c pv a / den c pv b :=
  surf_div_den_of_ok h ha hb e

/-- `[9]`, `[11]` denote `3`, `8`; `3/8 = 2 (mod 13)` is `[6]` (`6·11 = 66 ≡ 1 ≡ 9·3`) -/
example : Mont.div (mkCfg true 1 13) [9] [11] = .ok [6] ∧
    (value [6] * value [11]) % 13 = (value [9] * B ^ 1) % 13 ∧ value [11] ≠ 0 ∧
    Mont.div (mkCfg true 1 13) [9] [0] = .panic := by decide +kernel
example : den (mkCfg true 1 13) 13 [6] = 2 ∧ (3 / 8 : ZMod 13) = 2 :=
  ⟨den_of_mont_value cfg13 (x := 2) (by decide +kernel), by
    rw [div_eq_iff (by decide)]; decide⟩
/-- no spare bit; two limbs without spare bit -/
example : Mont.div (mkCfg false 1 (2 ^ 64 - 59)) [5] [7] = .ok [2635249153387078836] ∧
    (2635249153387078836 * 7) % (2 ^ 64 - 59) = (5 * B ^ 1) % (2 ^ 64 - 59) := by decide +kernel
example : Mont.div (mkCfg false 2 (2 ^ 128 - 159)) [7, 68719476736] [5, 9]
    = .ok [17403429361875645968, 12946015110806121139] := by decide +kernel

/-! ## 2. `Sum` -/

/-- `Sum::sum` is the very fold used inside `sum_of_products` -/
theorem sum_iter_eq_sum_list (c : MontCfg) (xs : List (List Nat)) :
    Mont.sumIter c xs = Mont.sumList c xs :=
  surf_sumIter_eq_sumList xs

/-- `iter.sum()` of canonical elements is the canonical element `(Σ value xᵢ) mod p`
    (the empty sum is zero) -/
theorem sum_iter_exact {c : MontCfg} {pv : Nat} (h : CfgOK c pv) (xs : List (List Nat))
    (hxs : ∀ x ∈ xs, Elem c pv x) :
    Elem c pv (Mont.sumIter c xs) ∧ value (Mont.sumIter c xs) = (xs.map value).sum % pv :=
  surf_sumIter_spec h xs hxs

theorem sum_iter_zmod {c : MontCfg} {pv : Nat} [Fact pv.Prime] (h : CfgOK c pv)
    (xs : List (List Nat)) (hxs : ∀ x ∈ xs, Elem c pv x) :
    den c pv (Mont.sumIter c xs) = (xs.map (den c pv)).sum :=
  surf_sumIter_den h xs hxs

example : Mont.sumIter (mkCfg true 1 13) [[9], [11], [12]] = [6] ∧
    ([[9], [11], [12]].map value).sum % 13 = 6 ∧ Mont.sumIter (mkCfg true 1 13) [] = [0] := by
  decide +kernel
/-- no spare bit, the limb additions overflow `2^64` -/
example : Mont.sumIter (mkCfg false 1 (2 ^ 64 - 59)) [[2 ^ 64 - 60], [2 ^ 64 - 61], [5]] = [2] := by
  decide +kernel
example : Mont.sumIter (mkCfg false 2 (2 ^ 128 - 159))
    [toLimbs 2 (2 ^ 128 - 160), toLimbs 2 (2 ^ 128 - 200), toLimbs 2 77] = [35, 0] := by
  decide +kernel

/-! ## 3. `Product` -/

/-- `iter.product()` of `k` canonical elements is the canonical element `r` with
    `r·R^k ≡ R·∏ value xᵢ (mod p)` (each `mul` divides by `R`; the accumulator starts at
    `ONE = R mod p`; the empty product is `ONE`) -/
theorem product_iter_correct {c : MontCfg} {pv : Nat} (h : CfgOK c pv) (xs : List (List Nat))
    (hxs : ∀ x ∈ xs, Elem c pv x) :
    Elem c pv (Mont.productIter c xs) ∧
    (value (Mont.productIter c xs) * (B ^ c.n) ^ xs.length) % pv
      = (B ^ c.n * (xs.map value).prod) % pv :=
  surf_productIter_spec h xs hxs

/-- uniqueness (`gcd(R^k, p) = 1`) -/
theorem product_iter_unique {c : MontCfg} {pv : Nat} (h : CfgOK c pv) (xs : List (List Nat))
    (hxs : ∀ x ∈ xs, Elem c pv x) (x : Nat) (hx : x < pv)
    (hxr : (x * (B ^ c.n) ^ xs.length) % pv = (B ^ c.n * (xs.map value).prod) % pv) :
    x = value (Mont.productIter c xs) :=
  surf_productIter_unique h xs hxs x hx hxr

theorem product_iter_zmod {c : MontCfg} {pv : Nat} [Fact pv.Prime] (h : CfgOK c pv)
    (xs : List (List Nat)) (hxs : ∀ x ∈ xs, Elem c pv x) :
    den c pv (Mont.productIter c xs) = (xs.map (den c pv)).prod :=
  surf_productIter_den h xs hxs

/-- `3·8·4 = 96 ≡ 5 (mod 13)`, Montgomery form `5·3 ≡ 2` -/
example : Mont.productIter (mkCfg true 1 13) [[9], [11], [12]] = [2] ∧
    (value [2] * (B ^ 1) ^ 3) % 13 = (B ^ 1 * ([[9], [11], [12]].map value).prod) % 13 ∧
    Mont.productIter (mkCfg true 1 13) [] = [3] := by decide +kernel
example : Mont.productIter (mkCfg false 1 (2 ^ 64 - 59)) [[2 ^ 64 - 60], [2 ^ 64 - 61], [5]]
    = [4991908335947830384] := by decide +kernel
example : Mont.productIter (mkCfg false 2 (2 ^ 128 - 159))
    [toLimbs 2 (2 ^ 128 - 160), toLimbs 2 (2 ^ 128 - 200), toLimbs 2 77]
    = [539954535601640193, 11379906671950245916] := by decide +kernel

/-! ## 4. default bodies of `AdditiveGroup::double_in_place` / `neg_in_place` -/

/-- `*self += *self` gives the very same limbs as the backend's `double_in_place` -/
theorem group_double_default_eq {c : MontCfg} {pv : Nat} (h : CfgOK c pv) {a : List Nat}
    (ha : Elem c pv a) : Mont.groupDoubleDefault c a = Mont.double c a :=
  surf_groupDouble_eq h ha

theorem group_double_default_exact {c : MontCfg} {pv : Nat} (h : CfgOK c pv) {a : List Nat}
    (ha : Elem c pv a) :
    Elem c pv (Mont.groupDoubleDefault c a) ∧
    value (Mont.groupDoubleDefault c a) = (2 * value a) % pv :=
  surf_groupDouble_spec h ha

/-- `*self = -(*self)` is the backend's `neg_in_place` -/
theorem group_neg_default_eq (c : MontCfg) (a : List Nat) :
    Mont.groupNegDefault c a = Mont.neg c a :=
  surf_groupNeg_eq a

theorem group_neg_default_exact {c : MontCfg} {pv : Nat} (h : CfgOK c pv) {a : List Nat}
    (ha : Elem c pv a) :
    Elem c pv (Mont.groupNegDefault c a) ∧
    value (Mont.groupNegDefault c a) = (pv - value a) % pv :=
  neg_exact h a ha

theorem group_defaults_zmod {c : MontCfg} {pv : Nat} [Fact pv.Prime] (h : CfgOK c pv)
    {a : List Nat} (ha : Elem c pv a) :
    den c pv (Mont.groupDoubleDefault c a) = 2 * den c pv a ∧
    den c pv (Mont.groupNegDefault c a) = - den c pv a := by
  rw [surf_groupDouble_eq h ha]
  exact ⟨den_double h ha, den_neg h ha⟩

example : Mont.groupDoubleDefault (mkCfg true 1 13) [9] = [5] ∧
    Mont.double (mkCfg true 1 13) [9] = [5] ∧
    Mont.groupNegDefault (mkCfg true 1 13) [4] = [9] := by decide +kernel
/-- no spare bit: `2(p-1) = p-2` -/
example : Mont.groupDoubleDefault (mkCfg false 1 (2 ^ 64 - 59)) [2 ^ 64 - 60] = [2 ^ 64 - 61] ∧
    value (Mont.groupDoubleDefault (mkCfg false 2 (2 ^ 128 - 159)) (toLimbs 2 (2 ^ 128 - 160)))
      = 2 ^ 128 - 161 := by decide +kernel

/-! ## 5. `Field::inverse_in_place` -/

/-- a non-zero element: `Some(self)` is returned and `self` IS the inverse afterwards
    (`r·a ≡ R² (mod p)`); zero: `None`, and `self` is left unchanged -/
theorem inverse_in_place_correct {c : MontCfg} {pv : Nat} (h : CfgOK c pv) (hp : Nat.Prime pv)
    {a : List Nat} (ha : Elem c pv a) :
    (value a ≠ 0 → ∃ r, Mont.inverseInPlace c a = (some r, r) ∧ Elem c pv r ∧
      (value r * value a) % pv = (B ^ c.n * B ^ c.n) % pv) ∧
    (value a = 0 → Mont.inverseInPlace c a = (none, a)) :=
  ⟨surf_inverseInPlace_some h hp ha, surf_inverseInPlace_none a⟩

/-- the returned option is `inverse`'s, and `self` afterwards is that value or the old `self` -/
theorem inverse_in_place_eq (c : MontCfg) (a : List Nat) :
    (Mont.inverseInPlace c a).1 = Mont.inverse c a ∧
    (Mont.inverseInPlace c a).2 = (Mont.inverse c a).getD a :=
  ⟨surf_inverseInPlace_fst a, surf_inverseInPlace_snd a⟩

theorem inverse_in_place_zmod {c : MontCfg} {pv : Nat} [Fact pv.Prime] (h : CfgOK c pv)
    {a : List Nat} (ha : Elem c pv a) :
    (den c pv a ≠ 0 → ∃ r, Mont.inverseInPlace c a = (some r, r) ∧ Elem c pv r ∧
      den c pv r = (den c pv a)⁻¹) ∧
    (den c pv a = 0 → Mont.inverseInPlace c a = (none, a)) :=
  surf_inverseInPlace_den h ha

example : Mont.inverseInPlace (mkCfg true 1 13) [5] = (some [7], [7]) ∧
    (value [7] * value [5]) % 13 = (B ^ 1 * B ^ 1) % 13 ∧ value [5] ≠ 0 ∧
    Mont.inverseInPlace (mkCfg true 1 13) [0] = (none, [0]) := by decide +kernel
example : Mont.inverseInPlace (mkCfg false 1 (2 ^ 64 - 59)) [5]
    = (some [7378697629483821319], [7378697629483821319]) := by decide +kernel
example : Mont.inverseInPlace (mkCfg false 2 (2 ^ 128 - 159)) [7, 68719476736]
    = (some [16761804798576034771, 8307200884529896666],
       [16761804798576034771, 8307200884529896666]) := by decide +kernel

/-! ## 6. `Zeroize` -/

/-- after `zeroize` the element is the canonical zero -/
theorem zeroize_exact {c : MontCfg} {pv : Nat} (h : CfgOK c pv) (a : List Nat) :
    Elem c pv (Mont.zeroize c a) ∧ value (Mont.zeroize c a) = 0 ∧
    Mont.zeroize c a = zeros c.n :=
  surf_zeroize_spec h a

theorem zeroize_zmod {c : MontCfg} {pv : Nat} [Fact pv.Prime] (a : List Nat) :
    den c pv (Mont.zeroize c a) = 0 :=
  den_zeros

example : Mont.zeroize (mkCfg false 2 (2 ^ 128 - 159)) [7, 68719476736] = [0, 0] := by
  decide +kernel

/-! ## 7. `From<bool|u8|u16|u32|u64|u128|i8|i16|i32|i64|i128>`

  The harness dispatch (`"fromw"` in `Ark.DrvC01.run`) sends `bool` (1 bit), `u8`, `u16`, `u32`,
  `u64` to `fromU64 c x`, `u128` to `fromU128 c x`, `i8 … i64` to `fromSigned c false x` and `i128`
  to `fromSigned c true x`, with `x` in the range of the type.  For every width the result is the
  element denoting `x`, whose standard form (`into_bigint`) is the non-negative remainder
  `x mod p` and whose Montgomery limbs hold `(x mod p)·R mod p`.
  The narrow widths inherit the minimal-limb-count hypothesis of `from_u64_zmod`
  (`B ^ (c.n - 1) ≤ pv`; primed variants: the exact condition `N = 1 ∨ |x| < p`);
  `bool`, `u128`, `i128` need nothing. -/

/-- value-level reading of "`r` denotes the integer `x`" -/
theorem den_int_value {c : MontCfg} {pv : Nat} [Fact pv.Prime] (h : CfgOK c pv) {r : List Nat}
    (hr : Elem c pv r) {x : Int} (hd : den c pv r = (x : ZMod pv)) :
    value (intoBigint c r) = (x % (pv : Int)).toNat ∧
    value r = ((x % (pv : Int)).toNat * B ^ c.n) % pv :=
  surf_val_of_den_int h hr hd

theorem den_nat_value {c : MontCfg} {pv : Nat} [Fact pv.Prime] (h : CfgOK c pv) {r : List Nat}
    (hr : Elem c pv r) {x : Nat} (hd : den c pv r = (x : ZMod pv)) :
    value (intoBigint c r) = x % pv ∧ value r = (x % pv * B ^ c.n) % pv :=
  surf_val_of_den_nat h hr hd

/-- `From<u8|u16|u32|u64>` and `From<bool>` (`w = 1`): any width `w ≤ 64`, `x < 2^w` -/
theorem from_unsigned_zmod {c : MontCfg} {pv : Nat} [Fact pv.Prime] (h : CfgOK c pv)
    (hmin : B ^ (c.n - 1) ≤ pv) {w x : Nat} (hw : w ≤ 64) (hx : x < 2 ^ w) :
    ∃ r, fromU64 c x = .ok r ∧ Elem c pv r ∧ den c pv r = (x : ZMod pv) ∧
      value (intoBigint c r) = x % pv ∧ value r = (x % pv * B ^ c.n) % pv := by
  obtain ⟨r, e1, e2, e3⟩ := fromU64_ok h (x := x)
    (u64_lt_of_min h hmin (Nat.lt_of_lt_of_le hx (surf_pow_le_B hw)))
  exact ⟨r, e1, e2, e3, surf_val_of_den_nat h e2 e3⟩

/-- exact condition instead of the minimal-limb-count hypothesis -/
theorem from_unsigned_zmod' {c : MontCfg} {pv : Nat} [Fact pv.Prime] (h : CfgOK c pv) {x : Nat}
    (hx : c.n = 1 ∨ x < pv) :
    ∃ r, fromU64 c x = .ok r ∧ Elem c pv r ∧ den c pv r = (x : ZMod pv) ∧
      value (intoBigint c r) = x % pv ∧ value r = (x % pv * B ^ c.n) % pv := by
  obtain ⟨r, e1, e2, e3⟩ := fromU64_ok h hx
  exact ⟨r, e1, e2, e3, surf_val_of_den_nat h e2 e3⟩

/-- the five unsigned widths of the dispatch, spelled out -/
theorem from_unsigned_widths {c : MontCfg} {pv : Nat} [Fact pv.Prime] (h : CfgOK c pv)
    (hmin : B ^ (c.n - 1) ≤ pv) {w x : Nat} (hw : w ∈ [1, 8, 16, 32, 64]) (hx : x < 2 ^ w) :
    ∃ r, fromU64 c x = .ok r ∧ Elem c pv r ∧ den c pv r = (x : ZMod pv) ∧
      value (intoBigint c r) = x % pv ∧ value r = (x % pv * B ^ c.n) % pv := by
  apply from_unsigned_zmod h hmin (w := w) _ hx
  simp only [List.mem_cons, List.not_mem_nil, or_false] at hw
  omega

/-- `From<bool>` never panics, whatever the limb count (`0, 1 < p`): `false ↦ 0`, `true ↦ ONE` -/
theorem from_bool_zmod {c : MontCfg} {pv : Nat} [Fact pv.Prime] (h : CfgOK c pv) (b : Bool) :
    ∃ r, fromU64 c b.toNat = .ok r ∧ Elem c pv r ∧ den c pv r = (if b then 1 else 0) ∧
      value (intoBigint c r) = b.toNat := by
  have hp := h.p_gt
  have hb : b.toNat < pv := by cases b <;> simp <;> omega
  obtain ⟨r, e1, e2, e3, e4, _⟩ := from_unsigned_zmod' h (x := b.toNat) (Or.inr hb)
  refine ⟨r, e1, e2, ?_, by rw [e4, Nat.mod_eq_of_lt hb]⟩
  rw [e3]; cases b <;> simp

/-- `From<u128>`: every `x < 2^128`, no extra hypothesis -/
theorem from_u128_value {c : MontCfg} {pv : Nat} [Fact pv.Prime] (h : CfgOK c pv) {x : Nat}
    (hx : x < 2 ^ 128) :
    ∃ r, fromU128 c x = .ok r ∧ Elem c pv r ∧ den c pv r = (x : ZMod pv) ∧
      value (intoBigint c r) = x % pv ∧ value r = (x % pv * B ^ c.n) % pv := by
  obtain ⟨r, e1, e2, e3⟩ := fromU128_ok h (x := x) (by rw [← surf_pow128]; exact hx)
  exact ⟨r, e1, e2, e3, surf_val_of_den_nat h e2 e3⟩

/-- `From<i8|i16|i32|i64>`: any width `1 ≤ w ≤ 64`, `-2^(w-1) ≤ x < 2^(w-1)` (negative values and
    the minimum `-2^(w-1)` included); the standard form is the NON-NEGATIVE remainder `x mod p` -/
theorem from_signed_widths {c : MontCfg} {pv : Nat} [Fact pv.Prime] (h : CfgOK c pv)
    (hmin : B ^ (c.n - 1) ≤ pv) {w : Nat} (hw1 : 1 ≤ w) (hw : w ≤ 64) {x : Int}
    (hlo : -(2 ^ (w - 1) : Int) ≤ x) (hhi : x < (2 ^ (w - 1) : Int)) :
    ∃ r, fromSigned c false x = .ok r ∧ Elem c pv r ∧ den c pv r = (x : ZMod pv) ∧
      value (intoBigint c r) = (x % (pv : Int)).toNat ∧
      value r = ((x % (pv : Int)).toNat * B ^ c.n) % pv := by
  obtain ⟨r, e1, e2, e3⟩ := fromSigned_narrow_ok h (x := x)
    (u64_lt_of_min h hmin (surf_natAbs_lt_B hw hw1 hlo hhi))
  exact ⟨r, e1, e2, e3, surf_val_of_den_int h e2 e3⟩

/-- exact condition `N = 1 ∨ |x| < p` -/
theorem from_signed_value' {c : MontCfg} {pv : Nat} [Fact pv.Prime] (h : CfgOK c pv) {x : Int}
    (hx : c.n = 1 ∨ x.natAbs < pv) :
    ∃ r, fromSigned c false x = .ok r ∧ Elem c pv r ∧ den c pv r = (x : ZMod pv) ∧
      value (intoBigint c r) = (x % (pv : Int)).toNat ∧
      value r = ((x % (pv : Int)).toNat * B ^ c.n) % pv := by
  obtain ⟨r, e1, e2, e3⟩ := fromSigned_narrow_ok h hx
  exact ⟨r, e1, e2, e3, surf_val_of_den_int h e2 e3⟩

/-- `From<i128>`: `-2^127 ≤ x < 2^127`, no extra hypothesis -/
theorem from_i128_value {c : MontCfg} {pv : Nat} [Fact pv.Prime] (h : CfgOK c pv) {x : Int}
    (hlo : -(2 ^ 127 : Int) ≤ x) (hhi : x < (2 ^ 127 : Int)) :
    ∃ r, fromSigned c true x = .ok r ∧ Elem c pv r ∧ den c pv r = (x : ZMod pv) ∧
      value (intoBigint c r) = (x % (pv : Int)).toNat ∧
      value r = ((x % (pv : Int)).toNat * B ^ c.n) % pv := by
  obtain ⟨r, e1, e2, e3⟩ := fromSigned_wide_ok h (x := x) (surf_natAbs_lt_B2 hlo hhi)
  exact ⟨r, e1, e2, e3, surf_val_of_den_int h e2 e3⟩

/-- `u8 255 ≡ 8`, `bool true = 1`, `u16 65535 ≡ 2`; `i8 -128 ≡ 2`, `i16 -32768 ≡ 5`,
    `i128 MIN ≡ 2`, `u128 MAX ≡ 8` (mod 13; Montgomery factor `R ≡ 3`) -/
example : fromU64 (mkCfg true 1 13) 255 = .ok [11] ∧ intoBigint (mkCfg true 1 13) [11] = [8] ∧
    255 % 13 = 8 ∧ (8 * B ^ 1) % 13 = 11 ∧ 255 < 2 ^ 8 ∧
    B ^ ((mkCfg true 1 13).n - 1) ≤ 13 := by decide +kernel
example : fromU64 (mkCfg true 1 13) true.toNat = .ok [3] ∧
    fromU64 (mkCfg true 2 13) true.toNat = .ok [9, 0] ∧
    fromU64 (mkCfg true 1 13) 65535 = .ok [6] ∧ 65535 % 13 = 2 := by decide +kernel
example : fromSigned (mkCfg true 1 13) false (-128) = .ok [6] ∧
    intoBigint (mkCfg true 1 13) [6] = [2] ∧ ((-128 : Int) % (13 : Nat)).toNat = 2 ∧
    -(2 ^ (8 - 1) : Int) ≤ -128 ∧ (-128 : Int) < 2 ^ (8 - 1) ∧
    fromSigned (mkCfg true 1 13) false (-32768) = .ok [2] ∧
    ((-32768 : Int) % (13 : Nat)).toNat = 5 := by decide +kernel
example : fromSigned (mkCfg true 1 13) true (-(2 : Int) ^ 127) = .ok [6] ∧
    ((-(2 : Int) ^ 127) % (13 : Nat)).toNat = 2 ∧
    fromU128 (mkCfg true 1 13) (2 ^ 128 - 1) = .ok [11] ∧ (2 ^ 128 - 1) % 13 = 8 := by
  decide +kernel
/-- two limbs without spare bit, `i64::MIN` and `u64::MAX` -/
example : fromSigned (mkCfg false 2 (2 ^ 128 - 159)) false (-(2 : Int) ^ 63)
    = .ok [9223372036854775649, 18446744073709551536] ∧
    fromU64 (mkCfg false 2 (2 ^ 128 - 159)) (2 ^ 64 - 1) = .ok [18446744073709551457, 158] ∧
    B ^ ((mkCfg false 2 (2 ^ 128 - 159)).n - 1) ≤ 2 ^ 128 - 159 := by decide +kernel

end Ark.C01g

