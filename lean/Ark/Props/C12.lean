import Ark.Proofs.Subgroup
import Mathlib.Data.ZMod.Basic
import Mathlib.Tactic.NormNum.GCD
/-
  Property C12 — subgroup membership tests and cofactor clearing of `Ark.Model.Subgroup`
  (model of `ec/src/models/{mod,short_weierstrass,twisted_edwards}/…`, `ec/src/lib.rs` and of the
  overrides in `curves/{bls12_381,bls12_377,bn254}/src/curves/{g1,g2}.rs`,
  `test-curves/src/bls12_381/{g1,g2}.rs`).

  All statements are over an arbitrary `[AddCommGroup G]` whose `==` is lawful
  (`[BEq G] [LawfulBEq G]`; `[DecidableEq G]` only serves to write `decide (… = …)`), with Mathlib's
  ℕ- and ℤ-scalar multiplication.  `r`, `h` are the integers denoted by the configuration:
  `c.r` (which fits in `N = c.nLimbs` limbs) and `value c.cofactor` (`WF`: limbs are `u64`s).
  Helper lemmas: `Ark/Proofs/Subgroup.lean` (and C04: `Ark/Proofs/ScalarMul{A,B}.lean`).

    1. default SW test (cofactor ≠ 1)         2. default TE test
    3. `cofactor_is_one`, the short-cut        4. `clear_cofactor` defaults
    5. `mul_by_cofactor_inv ∘ mul_by_cofactor`, sampling
    6. BLS12-381 `G1` endomorphism test: soundness (on EVERY point) and completeness
    7. `G1` clearing overrides and the coprimality of their multipliers with `r`
    8. `G2` ψ-tests and Budroni–Pintore clearing (unfolding + algebra)
-/
namespace Ark.C12
open Ark Ark.ScalarMul Ark.Subgroup

/-- toy configuration for the examples: the additive group `ZMod 21`, `r = 7`, `h = 3`, `3·5 ≡ 1 (mod 7)` -/
def cfg21 : CurveCfg := { cofactor := [3], cofactorInv := 5, r := 7, nLimbs := 1 }
/-- the same with `COFACTOR = 1` and `r = 21 = #G` -/
def cfg21one : CurveCfg := { cofactor := [1, 0], cofactorInv := 1, r := 21, nLimbs := 1 }

example : WF cfg21.cofactor ∧ cfg21.r < 2 ^ (64 * cfg21.nLimbs) ∧
    cfg21.cofactorInv < 2 ^ (64 * cfg21.nLimbs) ∧ value cfg21.cofactor = 3 ∧
    (value cfg21.cofactor * cfg21.cofactorInv) % cfg21.r = 1 % cfg21.r := by
  unfold WF; decide +kernel

/-! ## 3a. `CurveConfig::cofactor_is_one` -/

/-- `cofactor_is_one()` answers `COFACTOR = 1` (as an integer) for every non-empty limb slice — leading
    zero limbs, limbs `≥ 2^64` included — … -/
theorem cofactor_is_one_exact (l : List Nat) (h : l ≠ []) :
    cofactorIsOne l = .ok (decide (value l = 1)) :=
  cofactorIsOne_of_ne_nil l h

/-- … and panics (index `[0]` out of range) on the empty slice -/
theorem cofactor_is_one_empty : cofactorIsOne [] = .panic := rfl

example : cofactorIsOne [1, 0, 0] = .ok true ∧ cofactorIsOne [3] = .ok false ∧
    cofactorIsOne [1, 1] = .ok false ∧ cofactorIsOne [0] = .ok false := by decide

section defaults
variable {G : Type} [AddCommGroup G] [BEq G] [LawfulBEq G] [DecidableEq G]

/-! ## 1. the default short-Weierstrass test -/

/-- in general the test multiplies by the `N`-limb truncation of `r` … -/
theorem sw_subgroup_test_default_trunc (c : CurveCfg) (P : G)
    (h1 : cofactorIsOne c.cofactor = .ok false) :
    swIsInCorrectSubgroup c P = .ok (decide ((c.r % B ^ c.nLimbs) • P = 0)) := by
  rw [swIsInCorrectSubgroup_not_one c P h1, characteristic_value]

/-- `SWCurveConfig::is_in_correct_subgroup_assuming_on_curve` (default, cofactor ≠ 1): the answer is
    `true` exactly when `r • P` is the identity, for EVERY point `P` of the group (not only for points of
    the subgroup); no panic.  `hfit`: the modulus fits in the `N` limbs of `ScalarField::BigInt`. -/
theorem sw_subgroup_test_default (c : CurveCfg) (P : G) (hfit : c.r < 2 ^ (64 * c.nLimbs))
    (h1 : cofactorIsOne c.cofactor = .ok false) :
    swIsInCorrectSubgroup c P = .ok (decide (c.r • P = 0)) := by
  rw [swIsInCorrectSubgroup_not_one c P h1, characteristic_value_of_fit c hfit]

theorem sw_subgroup_test_default_iff (c : CurveCfg) (P : G) (hfit : c.r < 2 ^ (64 * c.nLimbs))
    (h1 : cofactorIsOne c.cofactor = .ok false) :
    swIsInCorrectSubgroup c P = .ok true ↔ c.r • P = 0 := by
  rw [sw_subgroup_test_default c P hfit h1]; simp

example : cofactorIsOne cfg21.cofactor = .ok false := by decide
/-- both answers occur; the test agrees with `7 • P = 0` on all 21 points -/
example : ∀ P : ZMod 21, swIsInCorrectSubgroup cfg21 P = .ok (decide (7 • P = 0)) := by decide +kernel
example : swIsInCorrectSubgroup cfg21 (3 : ZMod 21) = .ok true ∧
    swIsInCorrectSubgroup cfg21 (7 : ZMod 21) = .ok false := by decide +kernel

/-! ## 2. the default twisted-Edwards test (no short-cut) -/

theorem te_subgroup_test_default_trunc (c : CurveCfg) (P : G) :
    teIsInCorrectSubgroup c P = .ok (decide ((c.r % B ^ c.nLimbs) • P = 0)) := by
  rw [teIsInCorrectSubgroup_value c P, characteristic_value]

/-- `TECurveConfig::is_in_correct_subgroup_assuming_on_curve` (default): `[r • P = 0]` for every point,
    whatever the cofactor -/
theorem te_subgroup_test_default (c : CurveCfg) (P : G) (hfit : c.r < 2 ^ (64 * c.nLimbs)) :
    teIsInCorrectSubgroup c P = .ok (decide (c.r • P = 0)) := by
  rw [teIsInCorrectSubgroup_value c P, characteristic_value_of_fit c hfit]

theorem te_subgroup_test_default_iff (c : CurveCfg) (P : G) (hfit : c.r < 2 ^ (64 * c.nLimbs)) :
    teIsInCorrectSubgroup c P = .ok true ↔ c.r • P = 0 := by
  rw [te_subgroup_test_default c P hfit]; simp

example : ∀ P : ZMod 21, teIsInCorrectSubgroup cfg21 P = .ok (decide (7 • P = 0)) := by decide +kernel
example : ∀ P : ZMod 21, teIsInCorrectSubgroup cfg21one P = .ok true := by decide +kernel

/-! ## 3b. the `cofactor_is_one` short-cut -/

/-- with `COFACTOR = 1` the short-Weierstrass test answers `true` on every input, without looking at it … -/
theorem sw_subgroup_test_cofactor_one_any (c : CurveCfg) (P : G)
    (h1 : cofactorIsOne c.cofactor = .ok true) : swIsInCorrectSubgroup c P = .ok true :=
  swIsInCorrectSubgroup_one c P h1

/-- … which is the right answer under the (trusted, per curve) hypothesis `#E = r`, stated explicitly:
    every point of the group is killed by `r` -/
theorem sw_subgroup_test_cofactor_one (c : CurveCfg) (P : G)
    (h1 : cofactorIsOne c.cofactor = .ok true) (hord : ∀ Q : G, c.r • Q = 0) :
    swIsInCorrectSubgroup c P = .ok true ∧
    swIsInCorrectSubgroup c P = .ok (decide (c.r • P = 0)) := by
  rw [swIsInCorrectSubgroup_one c P h1, hord P]
  simp

/-- an empty `COFACTOR` makes the test panic -/
theorem sw_subgroup_test_empty_cofactor (c : CurveCfg) (P : G) (h : c.cofactor = []) :
    swIsInCorrectSubgroup c P = .panic :=
  swIsInCorrectSubgroup_panic c P h

/-- all three cases in one statement: for a non-empty cofactor, a modulus that fits, and `#E = r`
    whenever the cofactor is `1`, the default test decides `r • P = 0` -/
theorem sw_subgroup_test_correct (c : CurveCfg) (P : G) (hne : c.cofactor ≠ [])
    (hfit : c.r < 2 ^ (64 * c.nLimbs)) (hord : value c.cofactor = 1 → ∀ Q : G, c.r • Q = 0) :
    swIsInCorrectSubgroup c P = .ok (decide (c.r • P = 0)) := by
  by_cases hv : value c.cofactor = 1
  · exact (sw_subgroup_test_cofactor_one c P ((cofactorIsOne_true_iff _).2 ⟨hne, hv⟩) (hord hv)).2
  · exact sw_subgroup_test_default c P hfit ((cofactorIsOne_false_iff _).2 ⟨hne, hv⟩)

example : cofactorIsOne cfg21one.cofactor = .ok true ∧ ∀ Q : ZMod 21, cfg21one.r • Q = 0 := by
  decide +kernel
example : ∀ P : ZMod 21, swIsInCorrectSubgroup cfg21one P = .ok true := by decide +kernel
/-- the hypothesis `#E = r` cannot be dropped: a configuration that claims `COFACTOR = 1` with `r = 7` on a
    group of order 21 accepts a point outside the subgroup -/
example : swIsInCorrectSubgroup { cfg21one with r := 7 } (1 : ZMod 21) = .ok true ∧
    (7 : Nat) • (1 : ZMod 21) ≠ 0 := by decide +kernel

/-! ## 4. cofactor clearing (defaults) -/

/-- `mul_by_cofactor_to_group`, `mul_by_cofactor`, `clear_cofactor` (short Weierstrass): the input times the
    one fixed integer `h = COFACTOR` -/
theorem sw_clear_cofactor_exact (c : CurveCfg) (P : G) (hc : WF c.cofactor) :
    swClearCofactor c P = value c.cofactor • P ∧ swMulByCofactor c P = value c.cofactor • P ∧
    swMulByCofactorToGroup c P = value c.cofactor • P :=
  ⟨swMulByCofactor_value c P hc, swMulByCofactor_value c P hc, swMulByCofactor_value c P hc⟩

/-- … hence a point of the prime-order subgroup, under the order hypothesis `(h·r) • P = 0` -/
theorem sw_clear_cofactor_in_subgroup (c : CurveCfg) (P : G) (hc : WF c.cofactor)
    (hord : (value c.cofactor * c.r) • P = 0) : c.r • swClearCofactor c P = 0 := by
  rw [(sw_clear_cofactor_exact c P hc).1]
  exact smul_smul_of_order _ _ P hord

theorem te_clear_cofactor_exact (c : CurveCfg) (P : G) (hc : WF c.cofactor) :
    teClearCofactor c P = value c.cofactor • P ∧ teMulByCofactor c P = value c.cofactor • P ∧
    teMulByCofactorToGroup c P = value c.cofactor • P :=
  ⟨teMulByCofactor_value c P hc, teMulByCofactor_value c P hc, teMulByCofactor_value c P hc⟩

theorem te_clear_cofactor_in_subgroup (c : CurveCfg) (P : G) (hc : WF c.cofactor)
    (hord : (value c.cofactor * c.r) • P = 0) : c.r • teClearCofactor c P = 0 := by
  rw [(te_clear_cofactor_exact c P hc).1]
  exact smul_smul_of_order _ _ P hord

example : ∀ P : ZMod 21, (value cfg21.cofactor * cfg21.r) • P = 0 := by decide +kernel
example : swClearCofactor cfg21 (5 : ZMod 21) = 15 ∧ teClearCofactor cfg21 (5 : ZMod 21) = 15 ∧
    (7 : Nat) • (15 : ZMod 21) = 0 := by decide +kernel

/-! ## 5. `mul_by_cofactor_inv`, sampling -/

/-- `mul_by_cofactor_inv` multiplies by `COFACTOR_INV.into_bigint()` (a canonical residue: it fits) -/
theorem sw_mul_by_cofactor_inv_exact (c : CurveCfg) (P : G)
    (hfit : c.cofactorInv < 2 ^ (64 * c.nLimbs)) :
    swMulByCofactorInv c P = c.cofactorInv • P ∧ teMulByCofactorInv c P = c.cofactorInv • P := by
  rw [swMulByCofactorInv_value, teMulByCofactorInv_value, mod_pow_of_fit _ _ hfit]
  exact ⟨rfl, rfl⟩

/-- multiplying by the cofactor and then by its inverse modulo `r` is the identity on the subgroup
    (`1 % r` rather than `1`: also true for the degenerate `r = 1`) -/
theorem sw_mul_by_cofactor_inv_cancel (c : CurveCfg) (P : G) (hc : WF c.cofactor)
    (hfit : c.cofactorInv < 2 ^ (64 * c.nLimbs))
    (hinv : (value c.cofactor * c.cofactorInv) % c.r = 1 % c.r) (hP : c.r • P = 0) :
    swMulByCofactorInv c (swMulByCofactor c P) = P := by
  rw [(sw_mul_by_cofactor_inv_exact c _ hfit).1, swMulByCofactor_value c P hc]
  exact inv_smul_cofactor_smul _ _ _ P hinv hP

theorem te_mul_by_cofactor_inv_cancel (c : CurveCfg) (P : G) (hc : WF c.cofactor)
    (hfit : c.cofactorInv < 2 ^ (64 * c.nLimbs))
    (hinv : (value c.cofactor * c.cofactorInv) % c.r = 1 % c.r) (hP : c.r • P = 0) :
    teMulByCofactorInv c (teMulByCofactor c P) = P := by
  rw [(sw_mul_by_cofactor_inv_exact c _ hfit).2, teMulByCofactor_value c P hc]
  exact inv_smul_cofactor_smul _ _ _ P hinv hP

/-- the requested form, with `(h · h⁻¹) % r = 1` -/
theorem sw_mul_by_cofactor_inv_cancel' (c : CurveCfg) (P : G) (hc : WF c.cofactor)
    (hfit : c.cofactorInv < 2 ^ (64 * c.nLimbs))
    (hinv : (value c.cofactor * c.cofactorInv) % c.r = 1) (hP : c.r • P = 0) :
    swMulByCofactorInv c (swMulByCofactor c P) = P ∧ teMulByCofactorInv c (teMulByCofactor c P) = P := by
  have h1 : 1 % c.r = 1 := by
    rcases Nat.lt_or_ge 1 c.r with h | h
    · exact Nat.mod_eq_of_lt h
    · have : c.r = 0 ∨ c.r = 1 := by omega
      rcases this with h0 | h0
      · rw [h0]
      · rw [h0, Nat.mod_one] at hinv; omega
  exact ⟨sw_mul_by_cofactor_inv_cancel c P hc hfit (by rw [hinv, h1]) hP,
    te_mul_by_cofactor_inv_cancel c P hc hfit (by rw [hinv, h1]) hP⟩

example : ∀ P : ZMod 21, cfg21.r • P = 0 →
    swMulByCofactorInv cfg21 (swMulByCofactor cfg21 P) = P := by decide +kernel
/-- outside the subgroup the composition is not the identity -/
example : swMulByCofactorInv cfg21 (swMulByCofactor cfg21 (1 : ZMod 21)) = 15 := by decide +kernel

/-- `Distribution<Affine>::sample` / `Distribution<Projective>::sample` return the cofactor multiple of the
    point found by the rejection loop … -/
theorem sample_exact (c : CurveCfg) (p : G) (hc : WF c.cofactor) :
    swSampleAffine c p = value c.cofactor • p ∧ swSampleProjective c p = value c.cofactor • p ∧
    teSampleAffine c p = value c.cofactor • p ∧ teSampleProjective c p = value c.cofactor • p :=
  ⟨swMulByCofactor_value c p hc, swMulByCofactor_value c p hc,
   teMulByCofactor_value c p hc, teMulByCofactor_value c p hc⟩

/-- … hence a point of the subgroup under the order hypothesis -/
theorem sample_in_subgroup (c : CurveCfg) (p : G) (hc : WF c.cofactor)
    (hord : (value c.cofactor * c.r) • p = 0) :
    c.r • swSampleAffine c p = 0 ∧ c.r • swSampleProjective c p = 0 ∧
    c.r • teSampleAffine c p = 0 ∧ c.r • teSampleProjective c p = 0 := by
  obtain ⟨h1, h2, h3, h4⟩ := sample_exact c p hc
  rw [h1, h2, h3, h4]
  exact ⟨smul_smul_of_order _ _ p hord, smul_smul_of_order _ _ p hord,
    smul_smul_of_order _ _ p hord, smul_smul_of_order _ _ p hord⟩

example : swSampleAffine cfg21 (2 : ZMod 21) = 6 ∧ teSampleProjective cfg21 (2 : ZMod 21) = 6 := by
  decide +kernel

end defaults

/-! ## 7. `G1` clearing overrides -/

/-- the BLS12-381 / BLS12-377 constants (`Config::X`, `Fr::MODULUS`) -/
def bls12381X : Nat := 0xd201000000010000
def bls12381R : Nat := 52435875175126190479447740508185965837690552500527637822603658699938581184513
def bls12377X : Nat := 0x8508c00000000001
def bls12377R : Nat := 8444461749428370424248824938781546531375899335154063827935233455917409239041

section g1clear
variable {G : Type} [AddCommGroup G] [BEq G] [LawfulBEq G] [DecidableEq G] {F : Type} [Mul F]

omit [Mul F] in
/-- `bls12_381::g1::Config::clear_cofactor` (`X_IS_NEGATIVE`): multiplication by `1 - x = 1 + |x|`,
    the integer (no reduction happens as `1 + |x| < r`) -/
theorem bls12381_g1_clear_cofactor_exact (c : CurveCfg) (k : Bls12G1 F) (P : G)
    (hneg : k.xIsNegative = true) (hfit : c.r < 2 ^ (64 * c.nLimbs)) (hx : 1 + value k.x < c.r) :
    bls12381G1ClearCofactor c k P = (1 + value k.x) • P := by
  unfold bls12381G1ClearCofactor
  rw [hneg, oneMinusX_neg c.r k.x hx, swMulAffine_value P _ (toLimbs_wf _ _),
    value_toLimbs_of_lt _ _ (by omega)]

omit [Mul F] in
/-- `bls12_377::g1::Config::clear_cofactor` (`x > 0`): multiplication by `x - 1` -/
theorem bls12377_g1_clear_cofactor_exact (c : CurveCfg) (k : Bls12G1 F) (P : G)
    (hpos : k.xIsNegative = false) (hfit : c.r < 2 ^ (64 * c.nLimbs))
    (h1 : 1 ≤ value k.x) (hx : value k.x < c.r) :
    bls12377G1ClearCofactor c k P = (value k.x - 1) • P := by
  unfold bls12377G1ClearCofactor
  rw [hpos, xMinusOne_pos c.r k.x h1 hx, swMulAffine_value P _ (toLimbs_wf _ _),
    value_toLimbs_of_lt _ _ (by omega)]

/-- `ark_test_curves::bls12_381::g1::Config::clear_cofactor`: the hard-coded `h_eff` -/
theorem test_bls12381_g1_clear_cofactor_exact (P : G) :
    testBls12381G1ClearCofactor P = 0xd201000000010001 • P :=
  testBls12381G1ClearCofactor_value P

omit [BEq G] [LawfulBEq G] [DecidableEq G] [Mul F] in
/-- each override returns a point of the subgroup as soon as `(h_eff · r) • P = 0`
    (for BLS12 `G1`: the exponent of `E(F_p)` divides `(x - 1)·r`; trusted per curve) -/
theorem g1_clear_cofactor_in_subgroup (m r : Nat) (P : G) (hord : (m * r) • P = 0) :
    r • (m • P) = 0 :=
  smul_smul_of_order m r P hord

example : bls12381G1ClearCofactor (F := Nat) { cfg21 with r := 7 }
      { x := [3], xIsNegative := true, beta := 0, glvEndoCoeff := 0,
        glv := { nLimbs := 1, r := 7, lambda := 0, n11 := 0, n12 := 0, n21 := 0, n22 := 0 } }
      (2 : ZMod 21) = 8 ∧
    bls12377G1ClearCofactor (F := Nat) { cfg21 with r := 7 }
      { x := [3], xIsNegative := false, beta := 0, glvEndoCoeff := 0,
        glv := { nLimbs := 1, r := 7, lambda := 0, n11 := 0, n12 := 0, n21 := 0, n22 := 0 } }
      (2 : ZMod 21) = 4 := by decide +kernel

end g1clear

/-- the hypotheses of the two exactness theorems hold for the shipped constants (4 limbs) -/
theorem bls12381_consts_fit : WF [bls12381X] ∧ value [bls12381X] = bls12381X ∧
    1 + bls12381X < bls12381R ∧ bls12381R < 2 ^ (64 * 4) := by
  unfold WF bls12381X bls12381R; decide +kernel

theorem bls12377_consts_fit : WF [bls12377X] ∧ value [bls12377X] = bls12377X ∧
    1 ≤ bls12377X ∧ bls12377X < bls12377R ∧ bls12377R < 2 ^ (64 * 4) := by
  unfold WF bls12377X bls12377R; decide +kernel

/-- the multipliers are coprime to the group order `r` (so clearing is a bijection of the subgroup) -/
theorem bls12381_g1_heff_coprime : Nat.Coprime (1 + bls12381X) bls12381R := by
  unfold bls12381X bls12381R; norm_num

theorem test_bls12381_g1_heff_coprime : Nat.Coprime 0xd201000000010001 bls12381R := by
  unfold bls12381R; norm_num

theorem bls12377_g1_heff_coprime : Nat.Coprime (bls12377X - 1) bls12377R := by
  unfold bls12377X bls12377R; norm_num

/-- `1 - x` of BLS12-381 is the hard-coded constant of `ark_test_curves` -/
theorem bls12381_heff_eq : 1 + bls12381X = 0xd201000000010001 := by unfold bls12381X; decide

/-! ## 6. the BLS12-381 `G1` endomorphism test -/

section g1test
variable {G : Type} [AddCommGroup G] [BEq G] [LawfulBEq G] [DecidableEq G] {F : Type} [Mul F]

/-- the test never panics -/
theorem bls12381_g1_test_no_panic (io : XY F G) (k : Bls12G1 F) (P : G) :
    bls12381G1IsInCorrectSubgroup io k P ≠ .panic :=
  bls12381G1IsInCorrectSubgroup_panic_iff io k P

/-- unfolding: with `X = |x|` and the GLV call returning `X • (X • P)`, the test answers
    `¬(X•P = P ∧ P ≠ 0) ∧ -(X²•P) = φ P` -/
theorem bls12381_g1_test_unfold (io : XY F G) (k : Bls12G1 F) (P : G) (hx : WF k.x)
    (hglv : swProjMulBigint (.glv k.glv) (g1Endomorphism io k.glvEndoCoeff) (value k.x • P) k.x
      = .ok (value k.x • (value k.x • P))) :
    bls12381G1IsInCorrectSubgroup io k P =
      .ok (decide (¬ (value k.x • P = P ∧ P ≠ 0) ∧
        -(value k.x • (value k.x • P)) = g1Endomorphism io k.beta P)) :=
  bls12381G1IsInCorrectSubgroup_eq io k P hx hglv

/-- SOUNDNESS, for every point `P` of the group: if `φ = g1Endomorphism io β` is additive and satisfies
    `φ² + φ + 1 = 0`, `r = x⁴ - x² + 1` (only `x² = |x|²` enters: the sign of `x` is irrelevant), and the GLV
    `mul_bigint` call returns `|x| • Q`, then an accepted point is killed by `r`. -/
theorem bls12381_g1_test_sound (io : XY F G) (k : Bls12G1 F) (r : Nat) (P : G) (hx : WF k.x)
    (hadd : ∀ P Q, g1Endomorphism io k.beta (P + Q) = g1Endomorphism io k.beta P + g1Endomorphism io k.beta Q)
    (hchar : ∀ P, g1Endomorphism io k.beta (g1Endomorphism io k.beta P) + g1Endomorphism io k.beta P + P = 0)
    (hr : (r : Int) = (value k.x : Int) ^ 4 - (value k.x : Int) ^ 2 + 1)
    (hglv : swProjMulBigint (.glv k.glv) (g1Endomorphism io k.glvEndoCoeff) (value k.x • P) k.x
      = .ok (value k.x • (value k.x • P)))
    (htest : bls12381G1IsInCorrectSubgroup io k P = .ok true) : r • P = 0 := by
  rw [bls12381G1IsInCorrectSubgroup_eq io k P hx hglv] at htest
  have h := of_decide_eq_true (Outcome.ok.inj htest)
  exact endo_sound _ hadd hchar r (value k.x) hr P h.2

/-- COMPLETENESS: on a point killed by `r` on which `φ` acts as `-x²`, the test answers `true`.  Nothing
    else is needed: the early-out `x•P = P ∧ P ≠ 0` cannot fire there because `r ≡ 1 (mod x - 1)`. -/
theorem bls12381_g1_test_complete (io : XY F G) (k : Bls12G1 F) (r : Nat) (P : G) (hx : WF k.x)
    (hr : (r : Int) = (value k.x : Int) ^ 4 - (value k.x : Int) ^ 2 + 1)
    (hglv : swProjMulBigint (.glv k.glv) (g1Endomorphism io k.glvEndoCoeff) (value k.x • P) k.x
      = .ok (value k.x • (value k.x • P)))
    (hP : r • P = 0)
    (hφ : g1Endomorphism io k.beta P = (-((value k.x : Int) ^ 2)) • P) :
    bls12381G1IsInCorrectSubgroup io k P = .ok true := by
  rw [bls12381G1IsInCorrectSubgroup_eq io k P hx hglv]
  exact congrArg Outcome.ok (decide_eq_true (endo_complete _ r (value k.x) hr P hP hφ))

omit [BEq G] [LawfulBEq G] [DecidableEq G] [Mul F] in
/-- the GLV hypothesis `hglv` holds for EVERY point `Q` (in the subgroup or not, whatever the
    endomorphism) when the decomposition of the scalar is `(|x|, 0)`: no eigenvalue hypothesis -/
theorem glv_call_short (c : GlvCfg) (endo : G → G) (Q : G) (s : List Nat)
    (hd : decompInt c (value s % c.r) = ((value s : Int), 0))
    (hb : value s < min c.r (2 ^ (64 * c.nLimbs - 1))) :
    swProjMulBigint (.glv c) endo Q s = .ok (value s • Q) :=
  swProjMulBigint_glv_short c endo Q s hd hb

omit [BEq G] [LawfulBEq G] [DecidableEq G] [Mul F] in
/-- REMARK (why the default test must go through `mul_affine`): the GLV `mul_projective` override reduces
    the integer modulo `r` before multiplying, so `Projective::mul_bigint(r)` (any multiple of `r`) is the
    identity on EVERY point, also outside the subgroup — it cannot serve as a membership test.  The default
    test of section 1 calls `mul_affine` (plain double-and-add, never overridden) and is not affected. -/
theorem glv_mul_bigint_multiple_of_r (c : GlvCfg) (endo : G → G) (Q : G) (s : List Nat)
    (hs : value s % c.r = 0) (hr : 0 < c.r) :
    swProjMulBigint (.glv c) endo Q s = .ok 0 :=
  swProjMulBigint_glv_multiple_of_r c endo Q s hs hr

omit [BEq G] [LawfulBEq G] in
/-- `bn254::g1` (cofactor 1): constant `true`, right under `#E = r` -/
theorem bn254_g1_test (r : Nat) (P : G) (hord : ∀ Q : G, r • Q = 0) :
    bn254G1IsInCorrectSubgroup P = .ok (decide (r • P = 0)) := by
  rw [hord P]; simp [bn254G1IsInCorrectSubgroup]

end g1test

/-- `bls12_381::g1::Config as GLVConfig`: `LAMBDA`, `SCALAR_DECOMP_COEFFS` with their signs -/
def bls12381Glv : GlvCfg :=
  { nLimbs := 4, r := bls12381R,
    lambda := 52435875175126190479447740508185965837461563690374988244538805122978187051009,
    n11 := 228988810152649578064853576960394133504, n12 := 1,
    n21 := -1, n22 := 228988810152649578064853576960394133503 }

/-- closed arithmetic facts about the shipped constants: `r = x⁴ - x² + 1`, and the 64-bit `|x|`
    decomposes as `(|x|, 0)` -/
theorem bls12381_r_eq :
    (bls12381R : Int) = (value [bls12381X] : Int) ^ 4 - (value [bls12381X] : Int) ^ 2 + 1 := by
  decide +kernel

theorem bls12381_glv_decomp_x :
    decompInt bls12381Glv (value [bls12381X] % bls12381Glv.r) = ((value [bls12381X] : Int), 0) ∧
    value [bls12381X] < min bls12381Glv.r (2 ^ (64 * bls12381Glv.nLimbs - 1)) := by
  decide +kernel

section g1concrete
variable {G : Type} [AddCommGroup G] [BEq G] [LawfulBEq G] [DecidableEq G] {F : Type} [Mul F]

omit [BEq G] [LawfulBEq G] [DecidableEq G] [Mul F] in
/-- for the shipped BLS12-381 constants the GLV call of the test is exact on every point -/
theorem bls12381_g1_glv_call (endo : G → G) (Q : G) :
    swProjMulBigint (.glv bls12381Glv) endo Q [bls12381X] = .ok (value [bls12381X] • Q) :=
  swProjMulBigint_glv_short _ endo Q _ bls12381_glv_decomp_x.1 bls12381_glv_decomp_x.2

/-- soundness for the shipped constants: the only hypotheses left are the two facts about the curve
    endomorphism `φ(x, y) = (βx, y)` -/
theorem bls12381_g1_test_sound_shipped (io : XY F G) (k : Bls12G1 F) (P : G)
    (hkx : k.x = [bls12381X]) (hkg : k.glv = bls12381Glv)
    (hadd : ∀ P Q, g1Endomorphism io k.beta (P + Q) = g1Endomorphism io k.beta P + g1Endomorphism io k.beta Q)
    (hchar : ∀ P, g1Endomorphism io k.beta (g1Endomorphism io k.beta P) + g1Endomorphism io k.beta P + P = 0)
    (htest : bls12381G1IsInCorrectSubgroup io k P = .ok true) : bls12381R • P = 0 := by
  refine bls12381_g1_test_sound io k bls12381R P (by rw [hkx]; exact bls12381_consts_fit.1) hadd hchar
    (by rw [hkx]; exact bls12381_r_eq) ?_ htest
  rw [hkx, hkg]
  exact bls12381_g1_glv_call _ _

/-- completeness for the shipped constants -/
theorem bls12381_g1_test_complete_shipped (io : XY F G) (k : Bls12G1 F) (P : G)
    (hkx : k.x = [bls12381X]) (hkg : k.glv = bls12381Glv) (hP : bls12381R • P = 0)
    (hφ : g1Endomorphism io k.beta P = (-((bls12381X : Int) ^ 2)) • P) :
    bls12381G1IsInCorrectSubgroup io k P = .ok true := by
  refine bls12381_g1_test_complete io k bls12381R P (by rw [hkx]; exact bls12381_consts_fit.1)
    (by rw [hkx]; exact bls12381_r_eq) ?_ hP ?_
  · rw [hkx, hkg]
    exact bls12381_g1_glv_call _ _
  · rw [hkx, bls12381_consts_fit.2.1]; exact hφ

end g1concrete

/-- the trap on a toy group: `13 ≡ 0`, and the point `1 ∈ ZMod 39` (of order 39) is sent to `0` -/
example : swProjMulBigint (.glv { nLimbs := 1, r := 13, lambda := 9, n11 := 4, n12 := 1, n21 := -1, n22 := 3 })
    (fun Q : ZMod 39 => 22 * Q) (1 : ZMod 39) [13] = .ok 0 ∧ (13 : Nat) • (1 : ZMod 39) ≠ 0 := by
  decide +kernel

/-! non-vacuity: the additive group `ZMod 39`, `x = 2`, `r = 2⁴ - 2² + 1 = 13`, `h = 3`;
    `φ = 22·` has `φ² + φ + 1 = 0` on the whole group and is `-x² = 9` on the subgroup `3·ZMod 39` -/

def io39 : XY (ZMod 39) (ZMod 39) :=
  { xy := fun P => if P = 0 then none else some (P, 0), new := fun x _ => x }

def k39 : Bls12G1 (ZMod 39) :=
  { x := [2], xIsNegative := true, beta := 22, glvEndoCoeff := 22,
    glv := { nLimbs := 1, r := 13, lambda := 9, n11 := 4, n12 := 1, n21 := -1, n22 := 3 } }

example : WF k39.x ∧ ((13 : Nat) : Int) = (value k39.x : Int) ^ 4 - (value k39.x : Int) ^ 2 + 1 ∧
    decompInt k39.glv (value k39.x % k39.glv.r) = ((value k39.x : Int), 0) ∧
    value k39.x < min k39.glv.r (2 ^ (64 * k39.glv.nLimbs - 1)) := by
  unfold WF; decide +kernel
example : (∀ P Q : ZMod 39, g1Endomorphism io39 k39.beta (P + Q)
      = g1Endomorphism io39 k39.beta P + g1Endomorphism io39 k39.beta Q) ∧
    (∀ P : ZMod 39, g1Endomorphism io39 k39.beta (g1Endomorphism io39 k39.beta P)
      + g1Endomorphism io39 k39.beta P + P = 0) ∧
    (∀ P : ZMod 39, (13 : Nat) • P = 0 →
      g1Endomorphism io39 k39.beta P = (-((value k39.x : Int) ^ 2)) • P) := by
  decide +kernel
/-- and the model indeed decides `13 • P = 0` on all 39 points -/
example : ∀ P : ZMod 39, bls12381G1IsInCorrectSubgroup io39 k39 P = .ok (decide ((13 : Nat) • P = 0)) := by
  decide +kernel

/-! ## 8. `G2`: ψ-based tests and the Budroni–Pintore clearing -/

section g2
variable {p nr : Nat} {G : Type} [AddCommGroup G] [BEq G] [LawfulBEq G] [DecidableEq G]

/-- `ψ` does not panic as soon as `FROBENIUS_COEFF_FP2_C1` has its two entries -/
theorem psi_no_panic (io : XY (Fq2 p nr) G) (k : G2Cfg) (h : 2 ≤ k.frobC1.length) (P : G) :
    (∃ Q, bls12381PPowerEndomorphism io k P = .ok Q) ∧
    (∀ c, ∃ Q, pPowerEndomorphismMul io k c P = .ok Q) :=
  ⟨bls12381PPowerEndomorphism_ok io k h P, fun c => pPowerEndomorphismMul_ok io k c h P⟩

/-- unfolding of `bls12_381::g2` (and `ark_test_curves`) `is_in_correct_subgroup_assuming_on_curve`:
    `[x • P = ψ P]` with the signed parameter `x = ±value xLimbs` -/
theorem bls12381_g2_test_unfold (io : XY (Fq2 p nr) G) (k : G2Cfg) (xl : List Nat) (P Q : G)
    (hxl : WF xl) (hψ : bls12381PPowerEndomorphism io k P = .ok Q) :
    bls12381G2IsInCorrectSubgroup io k xl P = .ok (decide (sx k.xIsNegative (value xl) • P = Q)) :=
  bls12381G2IsInCorrectSubgroup_eq io k xl P Q hxl hψ

theorem bls12381_g2_test_iff (io : XY (Fq2 p nr) G) (k : G2Cfg) (xl : List Nat) (P Q : G)
    (hxl : WF xl) (hψ : bls12381PPowerEndomorphism io k P = .ok Q) :
    bls12381G2IsInCorrectSubgroup io k xl P = .ok true ↔ Q = sx k.xIsNegative (value xl) • P := by
  rw [bls12381_g2_test_unfold io k xl P Q hxl hψ]
  simp [eq_comm]

/-- a panic of `ψ` (too short a Frobenius table) is a panic of the test -/
theorem bls12381_g2_test_panic (io : XY (Fq2 p nr) G) (k : G2Cfg) (xl : List Nat) (P : G)
    (hψ : bls12381PPowerEndomorphism io k P = .panic) :
    bls12381G2IsInCorrectSubgroup io k xl P = .panic :=
  bls12381G2IsInCorrectSubgroup_panic io k xl P hψ

/-- `bn254::g2`: `[(6x²) • P = ψ P]` -/
theorem bn254_g2_test_unfold (io : XY (Fq2 p nr) G) (k : G2Cfg) (P Q : G)
    (hψ : pPowerEndomorphismMul io k bn254Psi P = .ok Q) :
    bn254G2IsInCorrectSubgroup io k P =
      .ok (decide ((147946756881789318990833708069417712966 : Nat) • P = Q)) := by
  rw [bn254G2IsInCorrectSubgroup_eq io k P Q hψ, value_bn254SixXSquared]

omit [BEq G] [LawfulBEq G] [DecidableEq G] in
/-- the algebra behind the ψ-tests: `ψ` additive with `ψ² - tψ + p = 0`, `ψ P = x • P`
    ⟹ `(x² - t x + p) • P = 0`; with `n • P = 0` (`n = #E'(F_{p²})`) and the integer hypothesis, stated as
    a Bézout identity `a (x² - t x + p) + b n = r` (i.e. `gcd(x² - t x + p, n) ∣ r`): `r • P = 0` -/
theorem psi_test_sound (ψ : G → G) (hadd : ∀ P Q, ψ (P + Q) = ψ P + ψ Q) (t q : Int)
    (hchar : ∀ P, ψ (ψ P) - t • ψ P + q • P = 0) (x : Int) (P : G) (h : ψ P = x • P)
    (n r a b : Int) (hn : n • P = 0) (hbez : a * (x ^ 2 - t * x + q) + b * n = r) :
    (x ^ 2 - t * x + q) • P = 0 ∧ r • P = 0 := by
  have h1 := psi_sound ψ hadd t q hchar x P h
  exact ⟨h1, bezout_order _ n r a b P h1 hn hbez⟩

/-- soundness of the model's test from the facts about `ψ` (a total function agreeing with the model) -/
theorem bls12381_g2_test_sound (io : XY (Fq2 p nr) G) (k : G2Cfg) (xl : List Nat) (hxl : WF xl)
    (ψ : G → G) (hψ : ∀ P, bls12381PPowerEndomorphism io k P = .ok (ψ P))
    (hadd : ∀ P Q, ψ (P + Q) = ψ P + ψ Q) (t q : Int)
    (hchar : ∀ P, ψ (ψ P) - t • ψ P + q • P = 0) (n r a b : Int)
    (hbez : a * ((sx k.xIsNegative (value xl)) ^ 2 - t * (sx k.xIsNegative (value xl)) + q) + b * n = r)
    (P : G) (hn : n • P = 0)
    (htest : bls12381G2IsInCorrectSubgroup io k xl P = .ok true) : r • P = 0 :=
  (psi_test_sound ψ hadd t q hchar _ P
    ((bls12381_g2_test_iff io k xl P (ψ P) hxl (hψ P)).1 htest) n r a b hn hbez).2

/-- Budroni–Pintore clearing of `bls12_381::g2` (`x = -|x|`), by unfolding:
    `(x² - x - 1) • P + (x - 1) • ψ P + ψ²(2P)` -/
theorem bls12381_g2_clear_cofactor_exact (io : XY (Fq2 p nr) G) (k : G2Cfg) (P Q : G) (hx : WF k.x)
    (hψ : bls12381PPowerEndomorphism io k P = .ok Q) :
    bls12381G2ClearCofactor io k P =
      .ok (((-(value k.x : Int)) ^ 2 - (-(value k.x : Int)) - 1) • P + ((-(value k.x : Int)) - 1) • Q
        + doublePPowerEndomorphism io bls12381Psi (P + P)) ∧
    testBls12381G2ClearCofactor io k P = bls12381G2ClearCofactor io k P := by
  rw [bls12381G2ClearCofactor_eq io k P Q hx hψ, testBls12381G2ClearCofactor_eq io k P Q hx hψ]
  exact ⟨rfl, rfl⟩

/-- `bls12_377::g2` (`x > 0`): the same formula with `x = +value X` -/
theorem bls12377_g2_clear_cofactor_exact (io : XY (Fq2 p nr) G) (k : G2Cfg) (P Q : G) (hx : WF k.x)
    (hψ : pPowerEndomorphismMul io k bls12377Psi P = .ok Q) :
    bls12377G2ClearCofactor io k P =
      .ok ((((value k.x : Int)) ^ 2 - ((value k.x : Int)) - 1) • P + (((value k.x : Int)) - 1) • Q
        + doublePPowerEndomorphism io bls12377Psi (P + P)) :=
  bls12377G2ClearCofactor_eq io k P Q hx hψ

end g2

/-- the integer hypothesis of `psi_test_sound` for BLS12-381 `G2`: with `x = -|x|`, trace `t = x + 1`,
    `q = p` (the base-field characteristic) and `n = h₂·r`, one has `x² - t x + p = p - x = r·(x-1)²/3` and
    `gcd((x-1)²/3, h₂) = 1`; the Bézout identity with explicit coefficients: -/
theorem bls12381_g2_bezout :
    let x : Int := -(bls12381X : Int)
    let t : Int := x + 1
    let q : Int := 4002409555221667393417789825735904156556882819939007885332058136124031650490837864442687629129015664037894272559787
    let h2 : Int := 305502333931268344200999753193121504214466019254188142667664032982267604182971884026507427359259977847832272839041616661285803823378372096355777062779109
    (-4002409555221667393417789825735904156556882819939007885332058136124031650490837864442687629129000531661671330917036)
        * (x ^ 2 - t * x + q) + 1 * (h2 * (bls12381R : Int)) = (bls12381R : Int) ∧
    (bls12381R : Int) ∣ x ^ 2 - t * x + q := by
  decide +kernel

/-! non-vacuity for the `G2` statements: `G = ZMod 13` with coordinates in `Fq2 13 2`; the constant
    `P_POWER_ENDOMORPHISM_COEFF_0.c1 ≡ 3 (mod 13)`, so the model's `ψ` is `3·` -/

def io13 : XY (Fq2 13 2) (ZMod 13) :=
  { xy := fun P => some (⟨⟨P.val⟩, 0⟩, 0), new := fun x _ => (x.c1.val : ZMod 13) }

def k13 (X : Nat) (neg : Bool) : G2Cfg := { x := [X], xIsNegative := neg, frobC1 := [1, 12] }

example : ∀ P : ZMod 13, bls12381PPowerEndomorphism io13 (k13 10 true) P = .ok (3 * P) := by
  decide +kernel
example : (∀ P : ZMod 13, bls12381G2IsInCorrectSubgroup io13 (k13 10 true) [10] P = .ok true) ∧
    (∀ P : ZMod 13, bls12381G2IsInCorrectSubgroup io13 (k13 5 false) [5] P = .ok (decide (P = 0))) := by
  decide +kernel
/-- `ψ = 3·` on `ZMod 13`: `ψ² - 4ψ + 3 = 0`, `x = -10`, `x² - 4x + 3 = 143 = 11·13` -/
example : (∀ P Q : ZMod 13, 3 * (P + Q) = 3 * P + 3 * Q) ∧
    (∀ P : ZMod 13, 3 * (3 * P) - (4 : Int) • (3 * P) + (3 : Int) • P = 0) ∧
    (∀ P : ZMod 13, (13 : Int) • P = 0) ∧
    (1 : Int) * ((-10) ^ 2 - 4 * (-10) + 3) + (-10) * 13 = 13 := by
  decide +kernel
example : bls12381G2ClearCofactor io13 (k13 10 true) (1 : ZMod 13)
    = .ok (((-(10 : Int)) ^ 2 - (-(10 : Int)) - 1) • (1 : ZMod 13) + ((-(10 : Int)) - 1) • (3 : ZMod 13)
      + doublePPowerEndomorphism io13 bls12381Psi (1 + 1)) := by
  decide +kernel

end Ark.C12
