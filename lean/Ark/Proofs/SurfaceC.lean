import Ark.Proofs.Serial
import Ark.Proofs.Bytes
import Ark.Proofs.BytesSqrt
import Ark.Proofs.H2C
import Mathlib.Data.ZMod.Basic
/-
  Ark.Proofs.SurfaceC — helper lemmas for the API-surface properties C18b, C09c, C13c:

  * `Ark.Serial.Poly` (C18b): the `ark-poly` type universe `PTy` of `Ark.Model.Serial` — induction
    principle, derive = tuple, `serialized_size`, the normal form of the length-prefixed readers, the
    safety invariant of every run, the order on well-typed values, round trip / truncation, canonicity,
    the `GeneralEvaluationDomain` tag, `Fp`, the failing writer.
  * `Ark.Bytes` (C09c): flag algebra, `from_random_bytes_with_flags` never panics,
    `AffineRepr::from_random_bytes` for short-Weierstrass and twisted-Edwards points; at the end of the
    file: `Fp::from_random_bytes_with_flags` inverts `serialize_with_flags` (`fpFrb_RT`).
  * `Ark.H2C.P` (C13c): `hash_to_field` from an XOF reader.
-/
namespace Ark.Serial.Poly
open Ark.Serial

/-! ## C18b: the `ark-poly` universe `PTy` -/

theorem PTy.ind {P : PTy → Prop} {Q : List PTy → Prop}
    (old : ∀ t, P (.old t)) (fp : P .fp) (vec : ∀ esz t, P t → P (.vec esz t))
    (map : ∀ k v, P k → P v → P (.map k v)) (tup : ∀ ts, Q ts → P (.tup ts))
    (struct : ∀ fs, Q fs → P (.struct fs)) (gdom : ∀ r m, P r → P m → P (.gdom r m))
    (opt : ∀ t, P t → P (.opt t)) (arr : ∀ n t, P t → P (.arr n t)) (wrap : ∀ t, P t → P (.wrap t))
    (nil : Q []) (cons : ∀ t ts, P t → Q ts → Q (t :: ts)) : ∀ t, P t :=
  fun t => @PTy.rec P Q old fp vec map tup struct gdom opt arr wrap nil cons t

/-! ### derive = tuple -/

theorem pEncodeFields_eq_aux (F : FCfg) : ∀ t : PTy,
    (∀ us, t = .tup us → ∀ c vs, pEncodeFields F us c vs = pEncodeAll F us c vs) := by
  apply PTy.ind (P := fun t => ∀ us, t = .tup us → ∀ c vs, pEncodeFields F us c vs = pEncodeAll F us c vs)
    (Q := fun ts => ∀ c vs, pEncodeFields F ts c vs = pEncodeAll F ts c vs)
  case tup => intro ts h us e; cases e; exact h
  case nil => intro c vs; cases vs <;> simp [pEncodeFields, pEncodeAll]
  case cons =>
    intro t ts hP hQ c vs
    cases vs with
    | nil => cases t <;> simp [pEncodeFields, pEncodeAll]
    | cons v vs =>
      cases t
      case tup us =>
        cases v <;> simp [pEncodeFields, pEncodeAll, pEncode, hQ, hP us rfl]
      all_goals simp [pEncodeFields, pEncodeAll, hQ]
  all_goals intros; simp_all

theorem pEncodeFields_eq (F : FCfg) (fs : List PTy) (c : Compress) (vs : List Val) :
    pEncodeFields F fs c vs = pEncodeAll F fs c vs :=
  pEncodeFields_eq_aux F (.tup fs) fs rfl c vs

theorem pSizeFields_eq_aux (F : FCfg) : ∀ t : PTy,
    (∀ us, t = .tup us → ∀ c vs, pSizeFields F us c vs = pSizeAll F us c vs) := by
  apply PTy.ind (P := fun t => ∀ us, t = .tup us → ∀ c vs, pSizeFields F us c vs = pSizeAll F us c vs)
    (Q := fun ts => ∀ c vs, pSizeFields F ts c vs = pSizeAll F ts c vs)
  case tup => intro ts h us e; cases e; exact h
  case nil => intro c vs; cases vs <;> simp [pSizeFields, pSizeAll]
  case cons =>
    intro t ts hP hQ c vs
    cases vs with
    | nil => cases t <;> simp [pSizeFields, pSizeAll]
    | cons v vs =>
      cases t
      case tup us =>
        cases v <;> simp [pSizeFields, pSizeAll, pSize, hQ, hP us rfl]
      all_goals simp [pSizeFields, pSizeAll, hQ]
  all_goals intros; simp_all

theorem pSizeFields_eq (F : FCfg) (fs : List PTy) (c : Compress) (vs : List Val) :
    pSizeFields F fs c vs = pSizeAll F fs c vs :=
  pSizeFields_eq_aux F (.tup fs) fs rfl c vs

theorem pCheckFields_eq_aux : ∀ t : PTy,
    (∀ us, t = .tup us → ∀ vs, pCheckFields us vs = pCheckAll us vs) := by
  apply PTy.ind (P := fun t => ∀ us, t = .tup us → ∀ vs, pCheckFields us vs = pCheckAll us vs)
    (Q := fun ts => ∀ vs, pCheckFields ts vs = pCheckAll ts vs)
  case tup => intro ts h us e; cases e; exact h
  case nil => intro vs; cases vs <;> simp [pCheckFields, pCheckAll]
  case cons =>
    intro t ts hP hQ vs
    cases vs with
    | nil => cases t <;> simp [pCheckFields, pCheckAll]
    | cons v vs =>
      cases t
      case tup us =>
        cases v <;> simp [pCheckFields, pCheckAll, pCheck, hQ, hP us rfl]
      all_goals simp [pCheckFields, pCheckAll, hQ]
  all_goals intros; simp_all

theorem pCheckFields_eq (fs : List PTy) (vs : List Val) : pCheckFields fs vs = pCheckAll fs vs :=
  pCheckFields_eq_aux (.tup fs) fs rfl vs

theorem pDecodeFields_eq_aux (L : Limits) (F : FCfg) : ∀ t : PTy,
    (∀ us, t = .tup us → ∀ c v, pDecodeFields L F us c v = pDecodeAll L F us c v) := by
  apply PTy.ind (P := fun t => ∀ us, t = .tup us → ∀ c v, pDecodeFields L F us c v = pDecodeAll L F us c v)
    (Q := fun ts => ∀ c v, pDecodeFields L F ts c v = pDecodeAll L F ts c v)
  case tup => intro ts h us e; cases e; exact h
  case nil => intro c v; simp [pDecodeFields, pDecodeAll]
  case cons =>
    intro t ts hP hQ c v
    cases t
    case tup us =>
      simp only [pDecodeFields, pDecodeAll, pDecode, hQ, hP us rfl, M.bind_assoc, M.pure_bind]
    all_goals simp [pDecodeFields, pDecodeAll, hQ]
  all_goals intros; simp_all

theorem pDecodeFields_eq (L : Limits) (F : FCfg) (fs : List PTy) (c : Compress) (v : Validate) :
    pDecodeFields L F fs c v = pDecodeAll L F fs c v :=
  pDecodeFields_eq_aux L F (.tup fs) fs rfl c v

theorem pEncode_struct (F fs c v) : pEncode F (.struct fs) c v = pEncode F (.tup fs) c v := by
  cases v <;> simp [pEncode, pEncodeFields_eq]
theorem pSize_struct (F fs c v) : pSize F (.struct fs) c v = pSize F (.tup fs) c v := by
  cases v <;> simp [pSize, pSizeFields_eq]
theorem pCheck_struct (fs v) : pCheck (.struct fs) v = pCheck (.tup fs) v := by
  cases v <;> simp [pCheck, pCheckFields_eq]
theorem pDecode_struct (L F fs c v) : pDecode L F (.struct fs) c v = pDecode L F (.tup fs) c v := by
  simp [pDecode, pDecodeFields_eq]
theorem pZeroWidth_struct (fs) : pZeroWidth (.struct fs) = pZeroWidth (.tup fs) := by
  simp [pZeroWidth]
theorem pCanonical_struct (fs) : pCanonical (.struct fs) = pCanonical (.tup fs) := by
  simp [pCanonical]

theorem pEncode_wrap (F t c v) : pEncode F (.wrap t) c v = pEncode F t c v := by simp [pEncode]
theorem pSize_wrap (F t c v) : pSize F (.wrap t) c v = pSize F t c v := by simp [pSize]
theorem pDecode_wrap (L F t c vd) : pDecode L F (.wrap t) c vd = pDecode L F t c vd := by simp [pDecode]
theorem pCheck_wrap (t v) : pCheck (.wrap t) v = pCheck t v := by simp [pCheck]
theorem pEncode_old (F t c v) : pEncode F (.old t) c v = encode t c v := by simp [pEncode]
theorem pSize_old (F t c v) : pSize F (.old t) c v = size t c v := by simp [pSize]
theorem pDecode_old (L F t c vd) : pDecode L F (.old t) c vd = decode L t c vd := by simp [pDecode]
theorem pCheck_old (t v) : pCheck (.old t) v = check t v := by simp [pCheck]

/-- the hand-written `GeneralEvaluationDomain` serialiser -/
theorem pEncode_gdom (F r m c v) : pEncode F (.gdom r m) c v =
    match v with
    | .seq [.int tag, x] =>
      if tag = 0 then (pEncode F r c x).map (fun b => 0 :: b)
      else if tag = 1 then (pEncode F m c x).map (fun b => 1 :: b) else none
    | _ => none := by
  cases v with
  | seq vs =>
    match vs with
    | [] => simp [pEncode]
    | [a] => cases a <;> simp [pEncode]
    | [a, x] => cases a <;> simp [pEncode]
    | a :: b :: y :: r => cases a <;> simp [pEncode]
  | _ => simp [pEncode]

theorem pSize_gdom (F r m c v) : pSize F (.gdom r m) c v =
    match v with
    | .seq [.int tag, x] => 1 + (if tag = 0 then pSize F r c x else pSize F m c x)
    | _ => 0 := by
  cases v with
  | seq vs =>
    match vs with
    | [] => simp [pSize]
    | [a] => cases a <;> simp [pSize]
    | [a, x] => cases a <;> simp [pSize]
    | a :: b :: y :: r => cases a <;> simp [pSize]
  | _ => simp [pSize]

/-- inversion of a successful `GeneralEvaluationDomain` serialisation -/
theorem pEncode_gdom_inv {F r m c v bs} (h : pEncode F (.gdom r m) c v = some bs) :
    ∃ (tag : Int) (x : Val) (b : List Nat), v = .seq [.int tag, x] ∧
      ((tag = 0 ∧ pEncode F r c x = some b ∧ bs = 0 :: b) ∨
       (tag = 1 ∧ pEncode F m c x = some b ∧ bs = 1 :: b)) := by
  rw [pEncode_gdom] at h
  split at h
  · rename_i tag x
    split at h
    · rename_i h0
      simp only [Option.map_eq_some_iff] at h
      obtain ⟨b, hb, rfl⟩ := h
      exact ⟨tag, x, b, rfl, Or.inl ⟨h0, hb, rfl⟩⟩
    · split at h
      · rename_i h1
        simp only [Option.map_eq_some_iff] at h
        obtain ⟨b, hb, rfl⟩ := h
        exact ⟨tag, x, b, rfl, Or.inr ⟨h1, hb, rfl⟩⟩
      · cases h
  · cases h

/-! ### the entry serialiser of a map is the serialiser of the pair type -/

theorem pEntryEnc_eq (F : FCfg) (k v : PTy) (c : Compress) (e : Val) :
    (match e with
      | .seq [a, b] =>
        match pEncode F k c a, pEncode F v c b with
        | some x, some y => some (x ++ y)
        | _, _ => none
      | _ => none : Option (List Nat)) = pEncode F (.tup [k, v]) c e := by
  cases e with
  | seq vs =>
    match vs with
    | [] => simp [pEncode, pEncodeAll]
    | [a] => simp [pEncode, pEncodeAll]
    | [a, b] =>
      simp only [pEncode, pEncodeAll]
      cases pEncode F k c a <;> cases pEncode F v c b <;> simp
    | a :: b :: x :: r =>
      simp only [pEncode, pEncodeAll]
      cases pEncode F k c a <;> cases pEncode F v c b <;> simp
  | _ => simp [pEncode]

theorem pEncode_map_eq (F : FCfg) (k v : PTy) (c : Compress) (es : List Val) :
    pEncode F (.map k v) c (.seq es) =
      if sortedBy entryKey es then encSeq (fun e => pEncode F (.tup [k, v]) c e) es else none := by
  simp only [pEncode, encSeq]
  split
  · congr 2
    funext e
    exact pEntryEnc_eq F k v c e
  · rfl

theorem pEntrySize_eq (F : FCfg) (k v : PTy) (c : Compress) (e : Val) (b : List Nat) :
    pEncode F (.tup [k, v]) c e = some b →
    (match e with
      | .seq [a, b] => pSize F k c a + pSize F v c b
      | _ => 0) = pSize F (.tup [k, v]) c e := by
  intro he
  cases e with
  | seq vs =>
    match vs with
    | [] => simp [pSize, pSizeAll]
    | [a] => simp [pEncode, pEncodeAll] at he
    | [a, b] => simp [pSize, pSizeAll]
    | a :: b :: x :: r =>
      simp only [pEncode, pEncodeAll] at he
      cases pEncode F k c a <;> cases pEncode F v c b <;> simp at he
  | _ => simp [pEncode] at he

/-! ### T1: `serialized_size` = bytes written -/

theorem pSize_eq_length (F : FCfg) : ∀ t c v bs, pEncode F t c v = some bs → pSize F t c v = bs.length := by
  apply PTy.ind (P := fun t => ∀ c v bs, pEncode F t c v = some bs → pSize F t c v = bs.length)
    (Q := fun ts => ∀ c vs bs, pEncodeAll F ts c vs = some bs → pSizeAll F ts c vs = bs.length)
  case old => intro t c v bs e; rw [pEncode_old] at e; rw [pSize_old]; exact size_eq_length t c v bs e
  case fp =>
    intro c v bs e
    cases v <;> simp only [pEncode] at e <;> try simp at e
    obtain ⟨_, rfl⟩ := e
    simp [pSize]
  case vec =>
    intro esz t ih c v bs e; cases v <;> simp only [pEncode] at e <;> try simp at e
    simp only [pSize]; exact encSeq_length (fun v b h => ih c v b h) _ _ e
  case tup => intro ts ih c v bs e; cases v <;> simp [pEncode] at e; simp [pSize, ih c _ bs e]
  case struct =>
    intro ts ih c v bs e; rw [pEncode_struct] at e; rw [pSize_struct]
    cases v <;> simp [pEncode] at e; simp [pSize, ih c _ bs e]
  case gdom =>
    intro r m ihr ihm c v bs e
    obtain ⟨tag, x, b, rfl, h | h⟩ := pEncode_gdom_inv e
    · obtain ⟨rfl, hb, rfl⟩ := h
      simp [pSize, ihr c x b hb]; omega
    · obtain ⟨rfl, hb, rfl⟩ := h
      simp [pSize, ihm c x b hb]; omega
  case opt =>
    intro t ih c v bs e; cases v <;> simp [pEncode] at e
    · subst e; simp [pSize]
    · obtain ⟨b, hb, rfl⟩ := e; simp [pSize, ih c _ b hb]; omega
  case arr =>
    intro n t ih c v bs e; cases v <;> simp [pEncode] at e
    simp only [pSize]; exact concatMapM_length (fun v b h => ih c v b h) _ _ e.2
  case wrap => intro t ih c v bs e; rw [pEncode_wrap] at e; rw [pSize_wrap]; exact ih c v bs e
  case map =>
    intro k v ihk ihv c x bs e
    cases x with
    | seq es =>
      rw [pEncode_map_eq] at e
      split at e
      · have hent : ∀ e b, pEncode F (.tup [k, v]) c e = some b → pSize F (.tup [k, v]) c e = b.length := by
          intro e b he
          cases e with
          | seq vs =>
            match vs, he with
            | [a, b'], he =>
              simp only [pEncode, pEncodeAll] at he
              cases ha : pEncode F k c a with
              | none => simp [ha] at he
              | some x =>
                cases hb' : pEncode F v c b' with
                | none => simp [ha, hb'] at he
                | some y =>
                  simp only [ha, hb', Option.some.injEq] at he; subst he
                  simp [pSize, pSizeAll, ihk c a x ha, ihv c b' y hb']
            | [], he => simp [pEncode, pEncodeAll] at he
            | [a], he => simp [pEncode, pEncodeAll] at he
            | a :: b :: x :: r, he =>
              simp only [pEncode, pEncodeAll] at he
              cases pEncode F k c a <;> cases pEncode F v c b <;> simp at he
          | _ => simp [pEncode] at he
        have h2 := encSeq_length (g := fun e => pSize F (.tup [k, v]) c e) hent es bs e
        rw [← h2]
        simp only [pSize]
        congr 1
        have hmem := encSeq_mem e
        rename_i hs
        clear h2 e hs
        induction es with
        | nil => rfl
        | cons x xs ih =>
          simp only [sumMap]
          obtain ⟨b, hb⟩ := hmem x (by simp)
          have h1 := pEntrySize_eq F k v c x b hb
          have h2 := ih (fun y hy => hmem y (by simp [hy]))
          exact h1 ▸ h2 ▸ rfl
      · cases e
    | _ => simp [pEncode] at e
  case nil => intro c vs bs e; cases vs <;> simp [pEncodeAll] at e; subst e; simp [pSizeAll]
  case cons =>
    intro t ts iht ihts c vs bs e
    cases vs with
    | nil => simp [pEncodeAll] at e
    | cons v vs =>
      simp only [pEncodeAll] at e
      cases hv : pEncode F t c v with
      | none => simp [hv] at e
      | some a =>
        cases hvs : pEncodeAll F ts c vs with
        | none => simp [hv, hvs] at e
        | some b =>
          simp only [hv, hvs, Option.some.injEq] at e; subst e
          simp [pSizeAll, iht c v a hv, ihts c vs b hvs]

theorem pSizeAll_eq_length (F : FCfg) (ts c vs bs) (h : pEncodeAll F ts c vs = some bs) :
    pSizeAll F ts c vs = bs.length := by
  have := pSize_eq_length F (.tup ts) c (.seq vs) bs (by simpa [pEncode] using h)
  simpa [pSize] using this

/-! ### normal form of the length-prefixed readers -/

def pSeqK (t : PTy) (v : Validate) (vs : List Val) : M Val := do
  batchM v (vs.all (fun x => pCheck t x))
  pure (.seq vs)

theorem pDecode_vec (L F esz t c v) : pDecode L F (.vec esz t) c v =
    lenHdr L true (some esz) (pZeroWidth t) (pDecode L F t c .no) (pSeqK t v) := by
  rw [lenHdr_eq]; simp only [pDecode, loopM, true_and]; rfl

def pEntryM (L : Limits) (F : FCfg) (k vt : PTy) (c : Compress) (v : Validate) : M Val := do
  let a ← pDecode L F k c v
  let b ← pDecode L F vt c v
  pure (.seq [a, b])

theorem pDecode_map (L F k vt c v) : pDecode L F (.map k vt) c v =
    lenHdr L false none (pZeroWidth k && pZeroWidth vt) (pEntryM L F k vt c v)
      (fun es => pure (.seq (fromIter entryKey es))) := by
  rw [lenHdr_eq]; simp only [pDecode, loopM, pEntryM]; rfl

theorem pEntryM_eq (L F k vt c v) : pEntryM L F k vt c v = pDecode L F (.tup [k, vt]) c v := by
  simp only [pEntryM, pDecode, pDecodeAll, M.bind_assoc, M.pure_bind]

theorem pDecode_arr (L F n t c v) : pDecode L F (.arr n t) c v =
    (repeatM (pDecode L F t c .no) n >>= pSeqK t v) := by
  simp only [pDecode]; rfl

/-! ### T3 / T6 / T8: safety of every run -/

mutual
/-- the type contains a length-prefixed container of zero-width elements -/
def pZwLoop : PTy → Bool
  | .old t => zwLoop t
  | .vec _ t => pZeroWidth t || pZwLoop t
  | .map k v => (pZeroWidth k && pZeroWidth v) || pZwLoop k || pZwLoop v
  | .tup ts => pZwLoopAny ts
  | .struct fs => pZwLoopAny fs
  | .gdom r m => pZwLoop r || pZwLoop m
  | .opt t => pZwLoop t
  | .arr _ t => pZwLoop t
  | .wrap t => pZwLoop t
  | .fp => false
def pZwLoopAny : List PTy → Bool
  | [] => false
  | t :: ts => pZwLoop t || pZwLoopAny ts
end

theorem Safe.pSeqK {L Z} (t : PTy) (v : Validate) (vs : List Val) : Safe L Z (pSeqK t v vs) :=
  Safe.bind (Safe.batchM _ _) (fun _ => Safe.pure _)

theorem Safe.decFp {L Z} (F : FCfg) : Safe L Z (decFp F) := by
  unfold Poly.decFp
  exact Safe.bind (Safe.readExact _) (fun _ => Safe.ite (Safe.failErr _) (Safe.pure _))

theorem safe_pDecode (L : Limits) (F : FCfg) :
    ∀ t c vd, Safe L (pZwLoop t = true) (pDecode L F t c vd) := by
  apply PTy.ind (P := fun t => ∀ c vd, Safe L (pZwLoop t = true) (pDecode L F t c vd))
    (Q := fun ts => ∀ c vd, Safe L (pZwLoopAny ts = true) (pDecodeAll L F ts c vd))
  case old => intro t c vd; rw [pDecode_old]; exact (safe_decode L t c vd).mono (by simp [pZwLoop])
  case fp => intro c vd; simp only [pDecode]; exact Safe.decFp F
  case vec =>
    intro esz t ih c vd; rw [pDecode_vec]
    exact Safe.lenHdr _ _ _ (by simp +contextual [pZwLoop])
      ((ih c .no).mono (by simp +contextual [pZwLoop])) (fun _ => Safe.pSeqK _ _ _)
  case map =>
    intro k v ihk ihv c vd; rw [pDecode_map]
    refine Safe.lenHdr _ _ _ (by simp +contextual [pZwLoop]) ?_ (fun _ => Safe.pure _)
    exact Safe.bind ((ihk c vd).mono (by simp +contextual [pZwLoop]))
      (fun _ => Safe.bind ((ihv c vd).mono (by simp +contextual [pZwLoop])) (fun _ => Safe.pure _))
  case tup =>
    intro ts ih c vd; simp only [pDecode]
    exact Safe.bind ((ih c vd).mono (by simp [pZwLoop])) (fun _ => Safe.pure _)
  case struct =>
    intro ts ih c vd; rw [pDecode_struct]; simp only [pDecode]
    exact Safe.bind ((ih c vd).mono (by simp [pZwLoop])) (fun _ => Safe.pure _)
  case gdom =>
    intro r m ihr ihm c vd; simp only [pDecode]
    refine Safe.bind (Safe.decU 1) (fun tag => ?_)
    refine Safe.ite ?_ (Safe.ite ?_ (Safe.failErr _))
    · exact Safe.bind ((ihr c vd).mono (by simp +contextual [pZwLoop])) (fun _ => Safe.pure _)
    · exact Safe.bind ((ihm c vd).mono (by simp +contextual [pZwLoop])) (fun _ => Safe.pure _)
  case opt =>
    intro t ih c vd; simp only [pDecode]
    refine Safe.bind Safe.decBool (fun b => ?_)
    cases b
    · exact Safe.pure _
    · exact Safe.bind ((ih c vd).mono (by simp [pZwLoop])) (fun _ => Safe.pure _)
  case arr =>
    intro n t ih c vd; simp only [pDecode]
    exact Safe.bind (Safe.repeatM ((ih c .no).mono (by simp [pZwLoop])) n)
      (fun _ => Safe.bind (Safe.batchM _ _) (fun _ => Safe.pure _))
  case wrap => intro t ih c vd; rw [pDecode_wrap]; exact (ih c vd).mono (by simp [pZwLoop])
  case nil => intro c vd; simp only [pDecodeAll]; exact Safe.pure _
  case cons =>
    intro t ts iht ihts c vd; simp only [pDecodeAll]
    exact Safe.bind ((iht c vd).mono (by simp +contextual [pZwLoopAny]))
      (fun _ => Safe.bind ((ihts c vd).mono (by simp +contextual [pZwLoopAny])) (fun _ => Safe.pure _))

/-! ### well-typed values and the order on them -/

/-- `v` is a value of the type `t` (over the field `F`) -/
def PWT (F : FCfg) (t : PTy) (v : Val) : Prop := ∃ c, (pEncode F t c v).isSome
def PWTs (F : FCfg) (ts : List PTy) (vs : List Val) : Prop := ∃ c, (pEncodeAll F ts c vs).isSome

theorem PWT.old_inv {F t v} (h : PWT F (.old t) v) : WT t v := by
  obtain ⟨c, h⟩ := h; rw [pEncode_old] at h; exact ⟨c, h⟩
theorem PWT.fp_inv {F v} (h : PWT F .fp v) : ∃ i, v = .int i := by
  obtain ⟨c, h⟩ := h; cases v <;> simp [pEncode] at h; exact ⟨_, rfl⟩
theorem PWT.vec_inv {F n t v} (h : PWT F (.vec n t) v) : ∃ vs, v = .seq vs ∧ ∀ x ∈ vs, PWT F t x := by
  obtain ⟨c, h⟩ := h; cases v <;> simp only [pEncode] at h <;> try simp at h
  exact ⟨_, rfl, fun x hx => ⟨c, (encSeq_isSome _ _).1 h x hx⟩⟩
theorem PWT.arr_inv {F n t v} (h : PWT F (.arr n t) v) : ∃ vs, v = .seq vs ∧ ∀ x ∈ vs, PWT F t x := by
  obtain ⟨c, h⟩ := h; cases v <;> simp [pEncode] at h
  refine ⟨_, rfl, fun x hx => ⟨c, ?_⟩⟩
  split at h
  · exact (concatMapM_isSome _ _).1 h x hx
  · simp at h
theorem PWT.opt_inv {F t v} (h : PWT F (.opt t) v) : v = .none ∨ ∃ x, v = .some x ∧ PWT F t x := by
  obtain ⟨c, h⟩ := h
  cases v with
  | none => exact Or.inl rfl
  | some x => simp [pEncode] at h; exact Or.inr ⟨x, rfl, c, h⟩
  | _ => simp [pEncode] at h
theorem PWT.tup_inv {F ts v} (h : PWT F (.tup ts) v) : ∃ vs, v = .seq vs ∧ PWTs F ts vs := by
  obtain ⟨c, h⟩ := h; cases v <;> simp [pEncode] at h
  exact ⟨_, rfl, c, h⟩
theorem PWT.struct_inv {F ts v} (h : PWT F (.struct ts) v) : PWT F (.tup ts) v := by
  obtain ⟨c, h⟩ := h; rw [pEncode_struct] at h; exact ⟨_, h⟩
theorem PWT.wrap_inv {F t v} (h : PWT F (.wrap t) v) : PWT F t v := by
  obtain ⟨c, h⟩ := h; rw [pEncode_wrap] at h; exact ⟨c, h⟩
theorem PWT.map_inv {F k v x} (h : PWT F (.map k v) x) :
    ∃ es, x = .seq es ∧ sortedBy entryKey es = true ∧ ∀ e ∈ es, PWT F (.tup [k, v]) e := by
  obtain ⟨c, h⟩ := h
  cases x with
  | seq es =>
    rw [pEncode_map_eq] at h
    split at h
    · rename_i hs
      exact ⟨_, rfl, hs, fun x hx => ⟨c, (encSeq_isSome _ _).1 h x hx⟩⟩
    · simp at h
  | _ => simp [pEncode] at h
theorem PWT.gdom_inv {F r m v} (h : PWT F (.gdom r m) v) :
    ∃ (tag : Int) (x : Val), v = .seq [.int tag, x] ∧ ((tag = 0 ∧ PWT F r x) ∨ (tag = 1 ∧ PWT F m x)) := by
  obtain ⟨c, h⟩ := h
  obtain ⟨bs, hbs⟩ := Option.isSome_iff_exists.1 h
  obtain ⟨tag, x, b, rfl, h1 | h1⟩ := pEncode_gdom_inv hbs
  · exact ⟨tag, x, rfl, Or.inl ⟨h1.1, c, by rw [h1.2.1]; rfl⟩⟩
  · exact ⟨tag, x, rfl, Or.inr ⟨h1.1, c, by rw [h1.2.1]; rfl⟩⟩
theorem PWTs.nil_inv {F vs} (h : PWTs F [] vs) : vs = [] := by
  obtain ⟨c, h⟩ := h; cases vs <;> simp [pEncodeAll] at h; rfl
theorem PWTs.cons_inv {F t ts vs} (h : PWTs F (t :: ts) vs) :
    ∃ v vs', vs = v :: vs' ∧ PWT F t v ∧ PWTs F ts vs' := by
  obtain ⟨c, h⟩ := h
  cases vs with
  | nil => simp [pEncodeAll] at h
  | cons v vs =>
    refine ⟨v, vs, rfl, ⟨c, ?_⟩, ⟨c, ?_⟩⟩ <;>
    · simp only [pEncodeAll] at h
      cases h1 : pEncode F t c v <;> cases h2 : pEncodeAll F ts c vs <;> simp [h1, h2] at h ⊢
theorem PWT.pair_inv {F k v e} (h : PWT F (.tup [k, v]) e) :
    ∃ a b, e = .seq [a, b] ∧ PWT F k a ∧ PWT F v b := by
  obtain ⟨vs, rfl, h1⟩ := h.tup_inv
  obtain ⟨a, vs1, rfl, ha, h2⟩ := h1.cons_inv
  obtain ⟨b, vs2, rfl, hb, h3⟩ := h2.cons_inv
  rw [h3.nil_inv]
  exact ⟨a, b, rfl, ha, hb⟩

/-- the order on tagged values `[tag, x]` whose payload type depends on the tag -/
theorem ordOn_tagged {W0 W1 : Val → Prop} (h0 : OrdOn W0) (h1 : OrdOn W1) :
    OrdOn (fun v => ∃ (tag : Int) (x : Val), v = .seq [.int tag, x] ∧
      ((tag = 0 ∧ W0 x) ∨ (tag = 1 ∧ W1 x))) := by
  have cmp2 : ∀ (a b : Int) (x y : Val), Val.cmp (.seq [.int a, x]) (.seq [.int b, y]) =
      if a < b then .lt else if b < a then .gt else Val.cmp x y := by
    intro a b x y
    simp only [Val.cmp, Val.cmpList]
    by_cases hab : a < b
    · simp [hab]
    · by_cases hba : b < a
      · simp [hab, hba]
      · simp only [hab, hba, if_false]
        cases Val.cmp x y <;> rfl
  constructor
  · rintro _ _ ⟨ta, x, rfl, hx⟩ ⟨tb, y, rfl, hy⟩ e
    rw [cmp2] at e
    by_cases hab : ta < tb
    · simp [hab] at e
    · by_cases hba : tb < ta
      · simp [hab, hba] at e
      · simp only [hab, hba, if_false] at e
        have : ta = tb := by omega
        subst this
        rcases hx with ⟨rfl, hx⟩ | ⟨rfl, hx⟩ <;> rcases hy with ⟨hc, hy⟩ | ⟨hc, hy⟩ <;>
          first | (exfalso; omega) | skip
        · rw [h0.eq_imp x y hx hy e]
        · rw [h1.eq_imp x y hx hy e]
  · rintro _ _ _ ⟨ta, x, rfl, hx⟩ ⟨tb, y, rfl, hy⟩ ⟨tc, z, rfl, hz⟩ e1 e2
    rw [cmp2] at e1 e2 ⊢
    by_cases hab : ta < tb
    · by_cases hbc : tb < tc
      · rw [if_pos (by omega)]
      · by_cases hcb : tc < tb
        · simp [hbc, hcb] at e2
        · have : tb = tc := by omega
          subst this; rw [if_pos hab]
    · by_cases hba : tb < ta
      · simp [hab, hba] at e1
      · simp only [hab, hba, if_false] at e1
        have : ta = tb := by omega
        subst this
        by_cases hbc : ta < tc
        · rw [if_pos hbc]
        · by_cases hcb : tc < ta
          · simp [hbc, hcb] at e2
          · simp only [hbc, hcb, if_false] at e2 ⊢
            have : ta = tc := by omega
            subst this
            rcases hx with ⟨rfl, hx⟩ | ⟨rfl, hx⟩ <;> rcases hy with ⟨hc, hy⟩ | ⟨hc, hy⟩ <;>
              rcases hz with ⟨hd, hz⟩ | ⟨hd, hz⟩ <;> first | (exfalso; omega) | skip
            · exact h0.trans x y z hx hy hz e1 e2
            · exact h1.trans x y z hx hy hz e1 e2

theorem ordOn_PWT (F : FCfg) : ∀ t, OrdOn (PWT F t) := by
  apply PTy.ind (P := fun t => OrdOn (PWT F t)) (Q := fun ts => OrdOnL (PWTs F ts))
  case old => intro t; exact (ordOn_WT t).mono (fun _ h => h.old_inv)
  case fp => exact ordOn_int.mono (fun _ h => h.fp_inv)
  case vec => intro n t ih; exact ih.seqAll.mono (fun _ h => h.vec_inv)
  case arr => intro n t ih; exact ih.seqAll.mono (fun _ h => h.arr_inv)
  case opt => intro t ih; exact (ordOn_opt ih).mono (fun _ h => h.opt_inv)
  case tup => intro ts ih; exact ih.seq.mono (fun _ hv => hv.tup_inv)
  case struct => intro ts ih; exact (ih.seq.mono (fun _ hv => hv.tup_inv)).mono (fun _ h => h.struct_inv)
  case wrap => intro t ih; exact ih.mono (fun _ h => h.wrap_inv)
  case gdom => intro r m ihr ihm; exact (ordOn_tagged ihr ihm).mono (fun _ h => h.gdom_inv)
  case map =>
    intro k v ihk ihv
    have hp : OrdOn (PWT F (.tup [k, v])) :=
      (((OrdOnL.cons ihk (((OrdOnL.cons ihv (OrdOnL.nil.mono (fun _ hv => PWTs.nil_inv hv))).mono
        (fun _ hv => PWTs.cons_inv hv)))).mono (fun _ hv => PWTs.cons_inv hv)).seq).mono
        (fun _ hv => hv.tup_inv)
    exact hp.seqAll.mono (fun _ h => by obtain ⟨vs, e, _, h⟩ := h.map_inv; exact ⟨vs, e, h⟩)
  case nil => exact OrdOnL.nil.mono (fun _ hv => hv.nil_inv)
  case cons => intro t ts h hl; exact (OrdOnL.cons h hl).mono (fun _ hv => hv.cons_inv)

/-! ### T2 / T4: round trip and truncation -/

mutual
/-- every sequence length fits a `u64` and no loop over zero-width elements exceeds `L.steps` -/
def pFits (L : Limits) : PTy → Val → Bool
  | .old t, v => fits L t v
  | .vec _ t, .seq vs => decide (vs.length < 2 ^ 64) && (!pZeroWidth t || decide (vs.length ≤ L.steps))
      && vs.all (fun v => pFits L t v)
  | .map k v, .seq es => decide (es.length < 2 ^ 64) &&
      (!(pZeroWidth k && pZeroWidth v) || decide (es.length ≤ L.steps)) &&
      es.all (fun e => match e with
        | .seq [a, b] => pFits L k a && pFits L v b
        | _ => true)
  | .tup ts, .seq vs => pFitsAll L ts vs
  | .struct fs, .seq vs => pFitsAll L fs vs
  | .gdom r m, .seq [.int tag, v] => if tag = 0 then pFits L r v else pFits L m v
  | .opt t, .some v => pFits L t v
  | .arr _ t, .seq vs => vs.all (fun v => pFits L t v)
  | .wrap t, v => pFits L t v
  | _, _ => true
def pFitsAll (L : Limits) : List PTy → List Val → Bool
  | t :: ts, v :: vs => pFits L t v && pFitsAll L ts vs
  | _, _ => true
end

/-- the modulus fits the advertised number of bytes -/
theorem FCfg.p_le (F : FCfg) : F.p ≤ 256 ^ F.width := by
  unfold FCfg.width FCfg.bits
  split
  · rename_i h; rw [h]; exact Nat.zero_le _
  · have h1 : F.p < 2 ^ (F.p.log2 + 1) := Nat.lt_log2_self
    have h2 : (256 : Nat) ^ ((F.p.log2 + 1 + 7) / 8) = 2 ^ (8 * ((F.p.log2 + 1 + 7) / 8)) := by
      rw [Nat.pow_mul]
    rw [h2]
    exact Nat.le_of_lt (Nat.lt_of_lt_of_le h1 (Nat.pow_le_pow_right (by decide) (by omega)))

theorem decFp_run (F : FCfg) (n : Nat) (hn : n < F.p) (rest : List Nat) (e : List Ev) :
    decFp F ⟨leBytes F.width n ++ rest, e⟩ = .ok (.int n) ⟨rest, e⟩ := by
  unfold decFp
  simp only [run_bind, readExact_append F.width _ rest e (leBytes_length _ _),
    leValue_leBytes F.width n (Nat.lt_of_lt_of_le hn F.p_le)]
  rw [if_neg (by omega)]; rfl

theorem decFp_short (F : FCfg) (s : St) (h : s.inp.length < F.width) :
    decFp F s = .fail (.err .io) s := by
  unfold decFp
  simp only [run_bind, readExact_short F.width s h]

theorem RTT.decFp {L} (F : FCfg) (n : Nat) (hn : n < F.p) :
    RTT L (Poly.decFp F) (leBytes F.width n) (.int n) := by
  constructor
  · intro rest e _
    exact ⟨[], by simp [decFp_run F n hn rest e]⟩
  · intro p q e hb hq _
    refine ⟨_, decFp_short F ⟨p, e⟩ ?_⟩
    have h1 := congrArg List.length hb
    have h2 : q.length ≠ 0 := fun h0 => hq (List.eq_nil_of_length_eq_zero h0)
    simp only [List.length_append, leBytes_length] at h1
    simp only; omega

theorem RTT.pSeqK {L} (t : PTy) (vd : Validate) (vs : List Val)
    (h : vd = .no ∨ vs.all (fun v => pCheck t v) = true) :
    RTT L (Poly.pSeqK t vd vs) [] (Val.seq vs) := by
  have : Poly.pSeqK t vd vs = Pure.pure (Val.seq vs) := by
    unfold Poly.pSeqK batchM
    rcases h with h | h
    · subst h; simp; rfl
    · rw [h]; simp; rfl
  rw [this]; exact RTT.pure _

mutual
/-- what `Validate::Yes` validates beyond `check()`: `GeneralEvaluationDomain::check` is the hand-written
    `Ok(())`, but `deserialize_with_mode` hands `validate` to the deserialiser of the variant -/
def pDeep : PTy → Val → Bool
  | .vec _ t, .seq vs => vs.all (fun v => pDeep t v)
  | .map k v, .seq es => es.all (fun e => match e with
      | .seq [a, b] => pDeep k a && pDeep v b
      | _ => true)
  | .tup ts, .seq vs => pDeepAll ts vs
  | .struct fs, .seq vs => pDeepAll fs vs
  | .gdom r m, .seq [.int tag, v] =>
    if tag = 0 then pCheck r v && pDeep r v else pCheck m v && pDeep m v
  | .opt t, .some v => pDeep t v
  | .arr _ t, .seq vs => vs.all (fun v => pDeep t v)
  | .wrap t, v => pDeep t v
  | _, _ => true
def pDeepAll : List PTy → List Val → Bool
  | t :: ts, v :: vs => pDeep t v && pDeepAll ts vs
  | _, _ => true
end

def PPT (L : Limits) (F : FCfg) (t : PTy) : Prop :=
  ∀ c vd v bs, pEncode F t c v = some bs → pFits L t v = true → pCheck t v = true →
    pDeep t v = true → RTT L (pDecode L F t c vd) bs v
def PQT (L : Limits) (F : FCfg) (ts : List PTy) : Prop :=
  ∀ c vd vs bs, pEncodeAll F ts c vs = some bs → pFitsAll L ts vs = true → pCheckAll ts vs = true →
    pDeepAll ts vs = true → RTT L (pDecodeAll L F ts c vd) bs vs

theorem prtt_nil (L F) : PQT L F [] := by
  intro c vd vs bs e _ _ _
  cases vs <;> simp [pEncodeAll] at e
  subst e; simp only [pDecodeAll]; exact RTT.pure _

theorem prtt_cons {L F t ts} (ht : PPT L F t) (hts : PQT L F ts) : PQT L F (t :: ts) := by
  intro c vd vs bs e hf hv hd
  cases vs with
  | nil => simp [pEncodeAll] at e
  | cons v vs =>
    simp only [pEncodeAll] at e
    cases h1 : pEncode F t c v with
    | none => simp [h1] at e
    | some a =>
      cases h2 : pEncodeAll F ts c vs with
      | none => simp [h1, h2] at e
      | some b =>
        simp only [h1, h2, Option.some.injEq] at e; subst e
        simp only [pFitsAll, pCheckAll, pDeepAll, Bool.and_eq_true] at hf hv hd
        simp only [pDecodeAll]
        have := RTT.bind (ht c vd v a h1 hf.1 hv.1 hd.1)
          (k := fun x => pDecodeAll L F ts c vd >>= fun xs => Pure.pure (x :: xs))
          (RTT.bind (hts c vd vs b h2 hf.2 hv.2 hd.2) (k := fun xs => Pure.pure (v :: xs)) (RTT.pure _))
        simpa using this

theorem prtt_tup {L F ts} (h : PQT L F ts) : PPT L F (.tup ts) := by
  intro c vd v bs e hf hv hd
  cases v <;> simp [pEncode] at e
  simp only [pFits, pCheck, pDeep] at hf hv hd
  simp only [pDecode]
  have := RTT.bind (h c vd _ bs e hf hv hd) (k := fun xs => Pure.pure (Val.seq xs)) (RTT.pure _)
  simpa using this

theorem pDeep_struct (fs v) : pDeep (.struct fs) v = pDeep (.tup fs) v := by
  cases v <;> simp [pDeep]
theorem pFits_struct (L fs v) : pFits L (.struct fs) v = pFits L (.tup fs) v := by
  cases v <;> simp [pFits]

/-- T2 + T4 for the `ark-poly` universe -/
theorem prtt_decode (L : Limits) (F : FCfg) : ∀ t, PPT L F t := by
  apply PTy.ind (P := PPT L F) (Q := PQT L F)
  case old =>
    intro t c vd v bs e hf hv _
    rw [pEncode_old] at e; rw [pDecode_old]
    simp only [pFits, pCheck] at hf hv
    exact rtt_decode L t c vd v bs e hf (vcheck_of_check t vd v hv)
  case fp =>
    intro c vd v bs e _ _ _
    cases v with
    | int x =>
      simp only [pEncode] at e
      obtain ⟨⟨hx0, hxp⟩, rfl⟩ := ite_some_eq e
      simp only [pDecode]
      have : ((x.toNat : Nat) : Int) = x := by omega
      have h := RTT.decFp (L := L) F x.toNat hxp
      rwa [this] at h
    | _ => simp [pEncode] at e
  case vec =>
    intro esz t ih c vd v bs e hf hv hd
    cases v <;> simp only [pEncode] at e <;> try simp at e
    rename_i vs
    rw [pDecode_vec]
    simp only [pFits, pCheck, pDeep, Bool.and_eq_true, Bool.or_eq_true, decide_eq_true_eq,
      Bool.not_eq_true', List.all_eq_true] at hf hv hd
    refine RTT.container _ _ _ (p := fun v => pFits L t v = true ∧ pCheck t v = true ∧ pDeep t v = true)
      (fun v b h1 h2 => ih c .no v b h1 h2.1 h2.2.1 h2.2.2) vs bs e hf.1.1 ?_
      (fun v hv' => ⟨hf.2 v hv', hv v hv', hd v hv'⟩)
      (RTT.pSeqK t vd vs (Or.inr (List.all_eq_true.2 hv)))
    intro hz; rcases hf.1.2 with h | h
    · rw [hz] at h; cases h
    · exact h
  case map =>
    intro k v ihk ihv c vd x bs e hf hv hd
    cases x with
    | seq es =>
      rw [pEncode_map_eq] at e
      have hs : sortedBy entryKey es = true := by
        by_cases hs : sortedBy entryKey es = true
        · exact hs
        · rw [if_neg hs] at e; cases e
      rw [if_pos hs] at e
      simp only [pFits, pCheck, pDeep, Bool.and_eq_true, Bool.or_eq_true, decide_eq_true_eq,
        Bool.not_eq_true', List.all_eq_true] at hf hv hd
      rw [pDecode_map, pEntryM_eq]
      have hp : PPT L F (.tup [k, v]) := prtt_tup (prtt_cons ihk (prtt_cons ihv (prtt_nil L F)))
      have hwt : ∀ x ∈ es, PWT F (.tup [k, v]) x := fun x hx => by
        obtain ⟨b, hb⟩ := encSeq_mem e x hx; exact ⟨c, by rw [hb]; rfl⟩
      have hfix : fromIter entryKey es = es :=
        fromIter_of_sorted (ordOn_PWT F k) entryKey es
          (fun x hx => by
            obtain ⟨a, b, rfl, ha, _⟩ := (hwt x hx).pair_inv
            exact ha) hs
      refine RTT.container _ _ _
        (p := fun e => pFits L (.tup [k, v]) e = true ∧ pCheck (.tup [k, v]) e = true ∧
          pDeep (.tup [k, v]) e = true)
        (fun x b h1 h2 => hp c vd x b h1 h2.1 h2.2.1 h2.2.2) es bs e hf.1.1 ?_ ?_
        (by rw [hfix]; exact RTT.pure _)
      · intro hz; rcases hf.1.2 with h | h
        · rw [hz] at h; cases h
        · exact h
      · intro x hx
        obtain ⟨a, b, rfl, _, _⟩ := (hwt x hx).pair_inv
        have h1 := hf.2 _ hx
        have h2 := hv.1 _ hx
        have h3 := hv.2 _ hx
        have h4 := hd _ hx
        simp only [Bool.and_eq_true] at h1 h4
        simp only at h2 h3
        simp [pFits, pFitsAll, pCheck, pCheckAll, pDeep, pDeepAll, h1, h2, h3, h4]
    | _ => simp [pEncode] at e
  case tup => intro ts ih; exact prtt_tup ih
  case struct =>
    intro ts ih c vd v bs e hf hv hd
    rw [pEncode_struct] at e; rw [pDecode_struct]
    rw [pCheck_struct] at hv; rw [pDeep_struct] at hd; rw [pFits_struct] at hf
    exact prtt_tup ih c vd v bs e hf hv hd
  case gdom =>
    intro r m ihr ihm c vd v bs e hf _ hd
    obtain ⟨tag, x, b, rfl, h | h⟩ := pEncode_gdom_inv e
    · obtain ⟨rfl, hb, rfl⟩ := h
      simp only [pFits, pDeep, if_true, Bool.and_eq_true] at hf hd
      simp only [pDecode]
      have h2 := RTT.bind (ihr c vd x b hb hf hd.1 hd.2)
        (k := fun d => Pure.pure (Val.seq [Val.int 0, d])) (RTT.pure _)
      have := RTT.bind (RTT.decU (L := L) 1 [0] rfl)
        (k := fun tag : Nat => if tag = 0 then pDecode L F r c vd >>= fun d => Pure.pure (Val.seq [Val.int 0, d])
          else if tag = 1 then pDecode L F m c vd >>= fun d => Pure.pure (Val.seq [Val.int 1, d])
          else failM (.err .invalid)) (r := Val.seq [Val.int 0, x]) (b2 := b ++ [])
        (by simpa using h2)
      simpa using this
    · obtain ⟨rfl, hb, rfl⟩ := h
      have h10 : ¬ ((1 : Int) = 0) := by decide
      simp only [pFits, pDeep, h10, if_false, Bool.and_eq_true] at hf hd
      simp only [pDecode]
      have h2 := RTT.bind (ihm c vd x b hb hf hd.1 hd.2)
        (k := fun d => Pure.pure (Val.seq [Val.int 1, d])) (RTT.pure _)
      have := RTT.bind (RTT.decU (L := L) 1 [1] rfl)
        (k := fun tag : Nat => if tag = 0 then pDecode L F r c vd >>= fun d => Pure.pure (Val.seq [Val.int 0, d])
          else if tag = 1 then pDecode L F m c vd >>= fun d => Pure.pure (Val.seq [Val.int 1, d])
          else failM (.err .invalid)) (r := Val.seq [Val.int 1, x]) (b2 := b ++ [])
        (by simpa using h2)
      simpa using this
  case opt =>
    intro t ih c vd v bs e hf hv hd
    cases v with
    | none =>
      simp [pEncode] at e; subst e; simp only [pDecode]
      have := RTT.bind (RTT.decBool (L := L) false)
        (k := fun b => if b = true then pDecode L F t c vd >>= fun x => Pure.pure (Val.some x)
          else Pure.pure Val.none) (r := Val.none) (b2 := []) (by simpa using RTT.pure _)
      simpa using this
    | some x =>
      simp [pEncode] at e
      obtain ⟨b, hb, rfl⟩ := e
      simp only [pFits, pCheck, pDeep] at hf hv hd
      simp only [pDecode]
      have h2 := RTT.bind (ih c vd x b hb hf hv hd) (k := fun x => Pure.pure (Val.some x)) (RTT.pure _)
      have := RTT.bind (RTT.decBool (L := L) true)
        (k := fun b => if b = true then pDecode L F t c vd >>= fun x => Pure.pure (Val.some x)
          else Pure.pure Val.none) (r := Val.some x) (b2 := b ++ []) (by simpa using h2)
      simpa using this
    | _ => simp [pEncode] at e
  case arr =>
    intro n t ih c vd v bs e hf hv hd
    cases v <;> simp [pEncode] at e
    rename_i vs
    obtain ⟨hn, e⟩ := e
    subst hn
    simp only [pFits, pCheck, pDeep, List.all_eq_true] at hf hv hd
    rw [pDecode_arr]
    have h1 := RTT.repeatM (L := L) (d := pDecode L F t c .no)
      (p := fun v => pFits L t v = true ∧ pCheck t v = true ∧ pDeep t v = true)
      (fun v b h1 h2 => ih c .no v b h1 h2.1 h2.2.1 h2.2.2) vs bs e
      (fun v hv' => ⟨hf v hv', hv v hv', hd v hv'⟩)
    have h2 := RTT.pSeqK (L := L) t vd vs (Or.inr (List.all_eq_true.2 hv))
    exact (RTT.bind h1 h2).of_eq (by simp)
  case wrap =>
    intro t ih c vd v bs e hf hv hd
    rw [pEncode_wrap] at e; rw [pDecode_wrap]
    simp only [pFits, pCheck, pDeep] at hf hv hd
    exact ih c vd v bs e hf hv hd
  case nil => exact prtt_nil L F
  case cons => intro t ts h1 h2; exact prtt_cons h1 h2

/-! ### T7: canonicity and well-typedness of decoded values -/

theorem pSeqK_ok {t : PTy} {vd : Validate} {vs : List Val} {s : St} {r : Val} {s' : St}
    (h : pSeqK t vd vs s = .ok r s') : r = .seq vs ∧ s' = s := by
  unfold pSeqK batchM at h
  obtain ⟨u, s1, h1, h2⟩ := bind_ok h
  obtain ⟨rfl, rfl⟩ := pure_ok h2
  split at h1
  · cases h1
  · obtain ⟨_, rfl⟩ := pure_ok h1; exact ⟨rfl, rfl⟩

theorem decFp_ok {F : FCfg} {s : St} {v : Val} {s' : St} (h : decFp F s = .ok v s') :
    ∃ bs, s.inp = bs ++ s'.inp ∧ bs.length = F.width ∧ leValue bs < F.p ∧ v = .int (leValue bs) ∧
      s'.evs = s.evs := by
  unfold decFp at h
  obtain ⟨bs, s1, h1, h2⟩ := bind_ok h
  obtain ⟨e, l, he⟩ := readExact_ok h1
  simp only at h2
  split at h2
  · cases h2
  · rename_i hlt
    obtain ⟨rfl, rfl⟩ := pure_ok h2
    exact ⟨bs, e, l, by omega, rfl, he⟩

def PPC (L : Limits) (F : FCfg) (t : PTy) : Prop :=
  ∀ c vd, CW (pCanonical t) (pDecode L F t c vd) (pEncode F t c)
def PQC (L : Limits) (F : FCfg) (ts : List PTy) : Prop :=
  ∀ c vd, CW (pCanonicalAll ts) (pDecodeAll L F ts c vd) (pEncodeAll F ts c)

theorem pcw_nil (L F) : PQC L F [] := by
  intro c vd s a s' _ h
  simp only [pDecodeAll] at h
  obtain ⟨rfl, rfl⟩ := pure_ok h
  exact ⟨[], rfl, by simp [pEncodeAll], fun _ => by simp [pEncodeAll]⟩

theorem pcw_cons {L F t ts} (ht : PPC L F t) (hts : PQC L F ts) : PQC L F (t :: ts) := by
  intro c vd s a s' hb h
  simp only [pDecodeAll] at h
  obtain ⟨x, s1, h1, h2⟩ := bind_ok h
  obtain ⟨xs, s2, h3, h4⟩ := bind_ok h2
  obtain ⟨rfl, rfl⟩ := pure_ok h4
  obtain ⟨p1, e1, w1, c1⟩ := ht c vd s x s1 hb h1
  obtain ⟨p2, e2, w2, c2⟩ := hts c vd s1 xs s' (bytes_suffix hb e1).2 h3
  refine ⟨p1 ++ p2, by rw [e1, e2]; simp, ?_, ?_⟩
  · simp only [pEncodeAll]
    obtain ⟨a1, ha1⟩ := Option.isSome_iff_exists.1 w1
    obtain ⟨a2, ha2⟩ := Option.isSome_iff_exists.1 w2
    simp [ha1, ha2]
  · intro hc
    simp only [pCanonicalAll, Bool.and_eq_true] at hc
    simp [pEncodeAll, c1 hc.1, c2 hc.2]

theorem pcw_tup {L F ts} (h : PQC L F ts) : PPC L F (.tup ts) := by
  intro c vd s a s' hb hd
  simp only [pDecode] at hd
  obtain ⟨xs, s1, h1, h2⟩ := bind_ok hd
  obtain ⟨rfl, rfl⟩ := pure_ok h2
  obtain ⟨p, e, w, cc⟩ := h c vd s xs s' hb h1
  exact ⟨p, e, by simpa [pEncode] using w, fun hc => by
    simp only [pCanonical] at hc; simpa [pEncode] using cc hc⟩

/-- T7 for the `ark-poly` universe -/
theorem pcw_decode (L : Limits) (F : FCfg) : ∀ t, PPC L F t := by
  apply PTy.ind (P := PPC L F) (Q := PQC L F)
  case old =>
    intro t c vd
    simp only [pDecode_old, pCanonical]
    have : pEncode F (.old t) c = encode t c := by funext v; exact pEncode_old F t c v
    rw [this]; exact cw_decode L t c vd
  case fp =>
    intro c vd s a s' hb hd
    simp only [pDecode] at hd
    obtain ⟨bs, e, l, hlt, rfl, _⟩ := decFp_ok hd
    have hbs := leBytes_leValue bs (bytes_suffix hb e).1
    rw [l] at hbs
    have henc : pEncode F .fp c (.int (leValue bs)) = some bs := by
      simp only [pEncode, Int.toNat_natCast]
      rw [if_pos ⟨by omega, hlt⟩, hbs]
    exact ⟨bs, e, by simp [henc], fun _ => henc⟩
  case vec =>
    intro esz t ih c vd s a s' hb hd
    rw [pDecode_vec] at hd
    obtain ⟨vs, s3, pre, hk, e, w, cc⟩ := lenHdr_cw (ih c .no) hb hd
    obtain ⟨rfl, rfl⟩ := pSeqK_ok hk
    refine ⟨pre, e, ?_, fun hc => ?_⟩
    · simp only [pEncode]; exact (encSeq_isSome _ _).2 w
    · simp only [pCanonical] at hc; simp only [pEncode]; exact cc hc
  case map =>
    intro k v ihk ihv c vd s a s' hb hd
    rw [pDecode_map, pEntryM_eq] at hd
    have hp : PPC L F (.tup [k, v]) := pcw_tup (pcw_cons ihk (pcw_cons ihv (pcw_nil L F)))
    obtain ⟨vs, s3, pre, hk, e, w, _⟩ := lenHdr_cw (hp c vd) hb hd
    obtain ⟨rfl, rfl⟩ := pure_ok hk
    refine ⟨pre, e, ?_, fun hc => by simp [pCanonical] at hc⟩
    have hs : sortedBy entryKey (fromIter entryKey vs) = true :=
      sortedBy_fromIter (ordOn_PWT F k) entryKey vs (fun x hx => by
        obtain ⟨a, b, rfl, ha, _⟩ := (PWT.pair_inv ⟨c, w x hx⟩)
        exact ha)
    rw [pEncode_map_eq, if_pos hs]
    exact (encSeq_isSome _ _).2 (fun v hv => w v (mem_fromIter_subset entryKey vs v hv))
  case tup => intro ts ih; exact pcw_tup ih
  case struct =>
    intro ts ih c vd
    rw [pDecode_struct, pCanonical_struct]
    have : pEncode F (.struct ts) c = pEncode F (.tup ts) c := by funext v; exact pEncode_struct F ts c v
    rw [this]; exact pcw_tup ih c vd
  case gdom =>
    intro r m ihr ihm c vd s a s' hb hd
    simp only [pDecode] at hd
    obtain ⟨tag, s1, h1, h2⟩ := bind_ok hd
    obtain ⟨tb, e1, l1, rfl⟩ := decU_ok h1
    have hb1 := (bytes_suffix hb e1).2
    match tb, l1 with
    | [t0], _ =>
      simp only [leValue_single] at h2
      by_cases h0 : t0 = 0
      · subst h0
        simp only [if_true] at h2
        obtain ⟨d, s2, h3, h4⟩ := bind_ok h2
        obtain ⟨rfl, rfl⟩ := pure_ok h4
        obtain ⟨p, e, w, cc⟩ := ihr c vd s1 d s' hb1 h3
        refine ⟨0 :: p, by rw [e1, e]; simp, ?_, fun hc => ?_⟩
        · simpa [pEncode] using w
        · simp only [pCanonical, Bool.and_eq_true] at hc
          simp [pEncode, cc hc.1]
      · rw [if_neg h0] at h2
        by_cases h1' : t0 = 1
        · subst h1'
          simp only [if_true] at h2
          obtain ⟨d, s2, h3, h4⟩ := bind_ok h2
          obtain ⟨rfl, rfl⟩ := pure_ok h4
          obtain ⟨p, e, w, cc⟩ := ihm c vd s1 d s' hb1 h3
          refine ⟨1 :: p, by rw [e1, e]; simp, ?_, fun hc => ?_⟩
          · simpa [pEncode] using w
          · simp only [pCanonical, Bool.and_eq_true] at hc
            simp [pEncode, cc hc.2]
        · rw [if_neg h1'] at h2; cases h2
  case opt =>
    intro t ih c vd s a s' hb hd
    simp only [pDecode] at hd
    obtain ⟨b, s1, h1, h2⟩ := bind_ok hd
    have e1 := decBool_ok h1
    cases b with
    | false =>
      simp only [Bool.false_eq_true, if_false] at h2 e1
      obtain ⟨rfl, rfl⟩ := pure_ok h2
      exact ⟨[0], by simpa using e1, by simp [pEncode], fun _ => by simp [pEncode]⟩
    | true =>
      simp only [if_true] at h2 e1
      obtain ⟨x, s2, h3, h4⟩ := bind_ok h2
      obtain ⟨rfl, rfl⟩ := pure_ok h4
      have hb1 : ∀ b ∈ s1.inp, b < 256 := fun b hb' => hb b (by rw [e1]; simp [hb'])
      obtain ⟨p, e, w, cc⟩ := ih c vd s1 x s' hb1 h3
      refine ⟨1 :: p, by rw [e1, e]; simp, by simpa [pEncode] using w, fun hc => ?_⟩
      simp only [pCanonical] at hc
      simp [pEncode, cc hc]
  case arr =>
    intro n t ih c vd s a s' hb hd
    rw [pDecode_arr] at hd
    obtain ⟨vs, s1, h1, h2⟩ := bind_ok hd
    obtain ⟨rfl, rfl⟩ := pSeqK_ok h2
    obtain ⟨p, e, w, cc⟩ := CW.repeatM (ih c .no) n s vs s' hb h1
    have hl := repeatM_length _ _ _ _ _ h1
    refine ⟨p, e, by simpa [pEncode, hl] using w, fun hc => ?_⟩
    simp only [pCanonical] at hc
    simp [pEncode, hl, cc hc]
  case wrap =>
    intro t ih c vd
    simp only [pDecode_wrap, pCanonical]
    have : pEncode F (.wrap t) c = pEncode F t c := by funext v; exact pEncode_wrap F t c v
    rw [this]; exact ih c vd
  case nil => exact pcw_nil L F
  case cons => intro t ts h1 h2; exact pcw_cons h1 h2

/-! ### the `GeneralEvaluationDomain` tag -/

theorem pDecode_gdom_cons (L F r m c vd) (tag : Nat) (rest : List Nat) (e : List Ev) :
    pDecode L F (.gdom r m) c vd ⟨tag :: rest, e⟩ =
      if tag = 0 then (pDecode L F r c vd >>= fun d => pure (.seq [.int 0, d])) ⟨rest, e⟩
      else if tag = 1 then (pDecode L F m c vd >>= fun d => pure (.seq [.int 1, d])) ⟨rest, e⟩
      else .fail (.err .invalid) ⟨rest, e⟩ := by
  simp only [pDecode]
  rw [run_bind, decU1_cons]
  simp only
  split
  · rfl
  · split <;> rfl

theorem pDecode_gdom_nil (L F r m c vd) (e : List Ev) :
    pDecode L F (.gdom r m) c vd ⟨[], e⟩ = .fail (.err .io) ⟨[], e⟩ := by
  simp only [pDecode]
  rw [run_bind, decU_short 1 ⟨[], e⟩ (by simp)]

theorem pDecode_gdom_ok {L F r m c vd} {s s' : St} {v : Val} (h : pDecode L F (.gdom r m) c vd s = .ok v s') :
    ∃ rest d, (s.inp = 0 :: rest ∧ v = .seq [.int 0, d] ∧ pDecode L F r c vd ⟨rest, s.evs⟩ = .ok d s') ∨
      (s.inp = 1 :: rest ∧ v = .seq [.int 1, d] ∧ pDecode L F m c vd ⟨rest, s.evs⟩ = .ok d s') := by
  obtain ⟨inp, e⟩ := s
  cases inp with
  | nil => rw [pDecode_gdom_nil] at h; cases h
  | cons tag rest =>
    rw [pDecode_gdom_cons] at h
    split at h
    · rename_i h0; subst h0
      obtain ⟨d, s1, h1, h2⟩ := bind_ok h
      obtain ⟨rfl, rfl⟩ := pure_ok h2
      exact ⟨rest, d, Or.inl ⟨rfl, rfl, h1⟩⟩
    · split at h
      · rename_i _ h1'; subst h1'
        obtain ⟨d, s1, h1, h2⟩ := bind_ok h
        obtain ⟨rfl, rfl⟩ := pure_ok h2
        exact ⟨rest, d, Or.inr ⟨rfl, rfl, h1⟩⟩
      · cases h

/-! ### `Fp` -/

theorem decFp_invalid (F : FCfg) (bs rest : List Nat) (e : List Ev) (hl : bs.length = F.width)
    (hv : F.p ≤ leValue bs) : decFp F ⟨bs ++ rest, e⟩ = .fail (.err .invalid) ⟨rest, e⟩ := by
  unfold decFp
  simp only [run_bind, readExact_append F.width bs rest e hl]
  rw [if_pos hv]; rfl

/-- `Fp::deserialize` accepts exactly the `width`-byte little-endian encodings of `n < p` -/
theorem decFp_iff (F : FCfg) (s s' : St) (v : Val) (hb : ∀ b ∈ s.inp, b < 256) :
    decFp F s = .ok v s' ↔
      ∃ n, n < F.p ∧ v = .int n ∧ s.inp = leBytes F.width n ++ s'.inp ∧ s'.evs = s.evs := by
  constructor
  · intro h
    obtain ⟨bs, e, l, hlt, rfl, he⟩ := decFp_ok h
    have hbs := leBytes_leValue bs (bytes_suffix hb e).1
    rw [l] at hbs
    exact ⟨leValue bs, hlt, rfl, by rw [hbs]; exact e, he⟩
  · rintro ⟨n, hn, rfl, e, he⟩
    obtain ⟨inp, evs⟩ := s
    obtain ⟨inp', evs'⟩ := s'
    simp only at e he
    subst e he
    exact decFp_run F n hn inp' _

/-! ### the failing writer -/

theorem encodeInto_fst (k : Nat) (bs : List Nat) : (encodeInto k bs).1 = bs.take k := rfl
theorem encodeInto_snd (k : Nat) (bs : List Nat) : (encodeInto k bs).2 = decide (k < bs.length) := rfl

theorem encodeInto_length (k : Nat) (bs : List Nat) : (encodeInto k bs).1.length = min k bs.length := by
  simp [encodeInto]

theorem encodeInto_ok_iff (k : Nat) (bs : List Nat) :
    (encodeInto k bs).2 = false ↔ (encodeInto k bs).1 = bs := by
  simp only [encodeInto, decide_eq_false_iff_not, Nat.not_lt]
  constructor
  · exact List.take_of_length_le
  · intro h
    have := congrArg List.length h
    simp only [List.length_take] at this; omega

theorem encodeInto_prefix (k : Nat) (bs : List Nat) :
    ∃ rest, bs = (encodeInto k bs).1 ++ rest ∧ ((encodeInto k bs).2 = true ↔ rest ≠ []) := by
  refine ⟨bs.drop k, by simp [encodeInto], ?_⟩
  simp only [encodeInto, decide_eq_true_eq, ne_eq, List.drop_eq_nil_iff, Nat.not_le]

/-! ### types without a `GeneralEvaluationDomain`: `check()` is all that `Validate::Yes` validates -/

mutual
def pNoGdom : PTy → Bool
  | .gdom _ _ => false
  | .vec _ t => pNoGdom t
  | .map k v => pNoGdom k && pNoGdom v
  | .tup ts => pNoGdomAll ts
  | .struct fs => pNoGdomAll fs
  | .opt t => pNoGdom t
  | .arr _ t => pNoGdom t
  | .wrap t => pNoGdom t
  | _ => true
def pNoGdomAll : List PTy → Bool
  | [] => true
  | t :: ts => pNoGdom t && pNoGdomAll ts
end

theorem pDeep_of_noGdom : ∀ t, pNoGdom t = true → ∀ v, pDeep t v = true := by
  apply PTy.ind (P := fun t => pNoGdom t = true → ∀ v, pDeep t v = true)
    (Q := fun ts => pNoGdomAll ts = true → ∀ vs, pDeepAll ts vs = true)
  case old => intro t _ v; simp [pDeep]
  case fp => intro _ v; simp [pDeep]
  case vec =>
    intro esz t ih h v
    simp only [pNoGdom] at h
    cases v <;> simp only [pDeep, List.all_eq_true]
    intro x _; exact ih h x
  case map =>
    intro k v ihk ihv h x
    simp only [pNoGdom, Bool.and_eq_true] at h
    cases x <;> simp only [pDeep, List.all_eq_true]
    intro e _
    split
    · simp [ihk h.1, ihv h.2]
    · rfl
  case tup => intro ts ih h v; simp only [pNoGdom] at h; cases v <;> simp only [pDeep]; exact ih h _
  case struct => intro ts ih h v; simp only [pNoGdom] at h; cases v <;> simp only [pDeep]; exact ih h _
  case gdom => intro r m _ _ h; simp [pNoGdom] at h
  case opt => intro t ih h v; simp only [pNoGdom] at h; cases v <;> simp only [pDeep]; exact ih h _
  case arr =>
    intro n t ih h v
    simp only [pNoGdom] at h
    cases v <;> simp only [pDeep, List.all_eq_true]
    intro x _; exact ih h x
  case wrap => intro t ih h v; simp only [pNoGdom] at h; simp only [pDeep]; exact ih h v
  case nil => intro _ vs; cases vs <;> simp [pDeepAll]
  case cons =>
    intro t ts iht ihts h vs
    simp only [pNoGdomAll, Bool.and_eq_true] at h
    cases vs <;> simp [pDeepAll, iht h.1, ihts h.2]

end Ark.Serial.Poly

open Ark
set_option linter.unusedSimpArgs false
set_option linter.unusedSectionVars false
namespace Ark.Bytes

/-! ## C09c: flag algebra -/

theorem sw_fromU8_bitmask (f : SWFlags) : Flags.fromU8 (Flags.u8Bitmask f) = some f := by
  cases f <;> rfl

theorem te_fromU8_bitmask (f : TEFlags) : Flags.fromU8 (Flags.u8Bitmask f) = some f := by
  cases f <;> rfl

theorem empty_fromU8_bitmask (f : EmptyFlags) : Flags.fromU8 (Flags.u8Bitmask f) = some f := by
  cases f; rfl

/-- `SWFlags::from_u8` on every byte: bit 7 = negative, bit 6 = infinity, both set is rejected -/
theorem sw_fromU8_byte : ∀ v, v < 256 →
    Flags.fromU8 (Fl := SWFlags) v =
      (if v < 64 then some .yIsPositive else if v < 128 then some .pointAtInfinity
       else if v < 192 then some .yIsNegative else none) := by
  decide +kernel

theorem te_fromU8_byte : ∀ v, v < 256 →
    Flags.fromU8 (Fl := TEFlags) v = (if v < 128 then some .xIsPositive else some .xIsNegative) := by
  decide +kernel

/-- `from_u8_remove_flags` clears exactly the two flag bits (when it accepts the byte) -/
theorem sw_removeFlags_byte : ∀ v, v < 256 →
    fromU8RemoveFlags SWFlags v = (Flags.fromU8 (Fl := SWFlags) v).map (fun f => (f, v % 64)) := by
  decide +kernel

theorem te_removeFlags_byte : ∀ v, v < 256 →
    fromU8RemoveFlags TEFlags v = (Flags.fromU8 (Fl := TEFlags) v).map (fun f => (f, v % 128)) := by
  decide +kernel

/-- the cleared byte and the mask recompose the original byte -/
theorem sw_removeFlags_recompose_b : ∀ v, v < 256 →
    (fromU8RemoveFlags SWFlags v).all (fun q => (q.2 ||| Flags.u8Bitmask q.1 == v) &&
      (q.2 &&& Flags.u8Bitmask q.1 == 0) && decide (q.2 < 64)) = true := by
  decide +kernel

theorem sw_removeFlags_recompose (v : Nat) (hv : v < 256) (f : SWFlags) (v' : Nat)
    (h : fromU8RemoveFlags SWFlags v = some (f, v')) :
    v' ||| Flags.u8Bitmask f = v ∧ v' &&& Flags.u8Bitmask f = 0 ∧ v' < 64 := by
  have := sw_removeFlags_recompose_b v hv
  rw [h] at this
  simpa [and_assoc] using this

theorem te_removeFlags_recompose_b : ∀ v, v < 256 →
    (fromU8RemoveFlags TEFlags v).all (fun q => (q.2 ||| Flags.u8Bitmask q.1 == v) &&
      (q.2 &&& Flags.u8Bitmask q.1 == 0) && decide (q.2 < 128)) = true := by
  decide +kernel

theorem te_removeFlags_recompose (v : Nat) (hv : v < 256) (f : TEFlags) (v' : Nat)
    (h : fromU8RemoveFlags TEFlags v = some (f, v')) :
    v' ||| Flags.u8Bitmask f = v ∧ v' &&& Flags.u8Bitmask f = 0 ∧ v' < 128 := by
  have := te_removeFlags_recompose_b v hv
  rw [h] at this
  simpa [and_assoc] using this

section flagsY
variable {F : Type} [Add F] [Sub F] [Mul F] [Neg F] [Zero F] [One F] [Inv F] [DecidableEq F]

theorem swFlagsFromY_eq_toFlags (K : Codec F) (x y : F) :
    swFlagsFromY K y = swToFlags K ⟨x, y, false⟩ := by
  simp [swFlagsFromY, swToFlags]

theorem swFlagsFromY_isPositive (K : Codec F) (y : F) :
    (swFlagsFromY K y).isPositive = some (K.le y (-y)) := by
  unfold swFlagsFromY
  cases h : K.le y (-y) <;> simp [SWFlags.isPositive]

theorem swFlagsFromY_not_infinity (K : Codec F) (y : F) : (swFlagsFromY K y).isInfinity = false := by
  unfold swFlagsFromY
  split <;> rfl

theorem teFlagsFromX_isNegative (K : Codec F) (x : F) :
    (teFlagsFromX K x).isNegative = !K.le x (-x) := by
  unfold teFlagsFromX
  cases h : K.le x (-x) <;> simp [TEFlags.isNegative]
end flagsY

/-! ## C09c: `from_random_bytes_with_flags` never panics on a real configuration -/

theorem copyFromU8Slice_go_length (N : Nat) : ∀ (chunks : List (List Nat)) (i : Nat) (b : SerBuf),
    (SerBuf.copyFromU8Slice.go N i chunks b).buffers.length = b.buffers.length := by
  intro chunks
  induction chunks with
  | nil => intro i b; rfl
  | cons ch rest ih =>
    intro i b
    unfold SerBuf.copyFromU8Slice.go
    split
    · rw [ih]; simp
    · rw [ih]

theorem copyFromU8Slice_length (N : Nat) (b : SerBuf) (bytes : List Nat) :
    (SerBuf.copyFromU8Slice N b bytes).buffers.length = b.buffers.length := by
  unfold SerBuf.copyFromU8Slice
  exact copyFromU8Slice_go_length N _ _ _

theorem zeroed_length (N : Nat) : (SerBuf.zeroed N).buffers.length = N := by
  simp [SerBuf.zeroed]

theorem fpFromRandomBytesFlags_no_panic {c : FpCfg} (h : WFc c) (Fl : Type) [Flags Fl] (bytes : List Nat) :
    fpFromRandomBytesFlags c Fl bytes ≠ .panic := by
  unfold fpFromRandomBytesFlags
  split
  · simp
  · simp only
    have hlen : (SerBuf.copyFromU8Slice c.N (SerBuf.zeroed c.N) bytes).buffers.length = c.N := by
      rw [copyFromU8Slice_length, zeroed_length]
    have hN := h.N_pos
    have hlt : c.N - 1 < (SerBuf.copyFromU8Slice c.N (SerBuf.zeroed c.N) bytes).buffers.length := by
      rw [hlen]; omega
    unfold SerBuf.lastNPlus1
    rw [List.getElem?_eq_getElem hlt]
    simp only
    rw [if_neg (by omega)]
    simp only
    generalize hm : maskLast _ _ _ _ _ _ = mk
    obtain ⟨masked, flags⟩ := mk
    simp only
    split
    · rename_i hp
      exact absurd hp (fp_de_plain_total' h _)
    · simp
    · simp
where
  fp_de_plain_total' {c : FpCfg} (h : WFc c) (bs : List Nat) : runM (fpDe c .yes .yes) bs ≠ .panic :=
    (fpDe_reads h .yes .yes).no_panic _

theorem extFromRandomBytesFlags_no_panic {c : FpCfg} (h : WFc c) (t : Tower) :
    ∀ (Fl : Type) [Flags Fl] (bytes : List Nat), extFromRandomBytesFlags c Fl t bytes ≠ .panic := by
  induction t with
  | base =>
    intro Fl _ bytes
    unfold extFromRandomBytesFlags
    have := fpFromRandomBytesFlags_no_panic h Fl bytes
    split <;> simp_all
  | quad t ih =>
    intro Fl _ bytes
    unfold extFromRandomBytesFlags
    simp only
    split
    · rename_i hp; exact absurd hp (ih EmptyFlags _)
    · simp
    · split
      · rename_i hp; exact absurd hp (ih Fl _)
      · simp
      · simp
  | cubic t ih =>
    intro Fl _ bytes
    unfold extFromRandomBytesFlags
    simp only
    split
    · rename_i hp; exact absurd hp (ih EmptyFlags _)
    · simp
    · split
      · rename_i hp; exact absurd hp (ih EmptyFlags _)
      · simp
      · split
        · rename_i hp; exact absurd hp (ih Fl _)
        · simp
        · simp

/-- the quadratic template over the prime field returns a value of the quadratic shape -/
theorem extFromRandomBytesFlags_quadBase_shape {c : FpCfg} (Fl : Type) [Flags Fl] (bytes : List Nat)
    (v : ExtV c.p) (fl : Fl) (hv : extFromRandomBytesFlags c Fl (.quad .base) bytes = .ok (some (v, fl))) :
    ∃ a b, v = .quad (.base a) (.base b) := by
  unfold extFromRandomBytesFlags at hv
  simp only at hv
  split at hv
  · cases hv
  · cases hv
  · rename_i c0 _ h0
    split at hv
    · cases hv
    · cases hv
    · rename_i c1 fl1 h1
      simp only [Outcome.ok.injEq, Option.some.injEq, Prod.mk.injEq] at hv
      obtain ⟨rfl, -⟩ := hv
      unfold extFromRandomBytesFlags at h0 h1
      split at h0
      · cases h0
      · cases h0
      · simp only [Outcome.ok.injEq, Option.some.injEq, Prod.mk.injEq] at h0
        split at h1
        · cases h1
        · cases h1
        · simp only [Outcome.ok.injEq, Option.some.injEq, Prod.mk.injEq] at h1
          exact ⟨_, _, by rw [← h0.1, ← h1.1]⟩

theorem fp2FromRandomBytesFlags_no_panic {c : FpCfg} (h : WFc c) (β : Nat) (Fl : Type) [Flags Fl]
    (bytes : List Nat) : fp2FromRandomBytesFlags c β Fl bytes ≠ .panic := by
  unfold fp2FromRandomBytesFlags
  split
  · rename_i hp; exact absurd hp (extFromRandomBytesFlags_no_panic h _ Fl bytes)
  · simp
  · simp
  · rename_i x hx hne
    exfalso
    obtain ⟨v, fl⟩ := x
    obtain ⟨a, b, rfl⟩ := extFromRandomBytesFlags_quadBase_shape Fl bytes v fl hne
    exact hx a b fl rfl


/-! ## C09c: `AffineRepr::from_random_bytes` -/

section frb
variable {F : Type} [Add F] [Sub F] [Mul F] [Neg F] [Zero F] [One F] [Inv F] [DecidableEq F]

/-- the type of `BaseField::from_random_bytes_with_flags` -/
abbrev Frb (F : Type) := (Fl : Type) → [Flags Fl] → List Nat → Outcome (Option (F × Fl))

/-- contract between the field's `from_random_bytes_with_flags` and its `serialize_with_flags`:
    the serialisation of a canonical element with a flag is read back as that element and flag -/
def FrbRT (K : Codec F) (canon : F → Prop) (frb : Frb F) : Prop :=
  ∀ (Fl : Type) [Flags Fl], FlagsOK Fl → ∀ (x : F) (fl : Fl) (bs : List Nat), canon x →
    K.serFlags Fl x fl = .ok bs → frb Fl bs = .ok (some (x, fl))

theorem swFromRandomBytes_no_panic (K : Codec F) (E : SWCfg F) (frb : Frb F) (bytes : List Nat)
    (h : frb SWFlags bytes ≠ .panic) : swFromRandomBytes K E frb bytes ≠ .panic := by
  unfold swFromRandomBytes
  split
  · rename_i hp; exact absurd hp h
  · simp
  · split
    · simp
    · split <;> simp

theorem teFromRandomBytes_no_panic (K : Codec F) (E : TECfg F) (frb : Frb F) (bytes : List Nat)
    (h : frb TEFlags bytes ≠ .panic) : teFromRandomBytes K E frb bytes ≠ .panic := by
  unfold teFromRandomBytes
  split
  · rename_i hp; exact absurd hp h
  · simp
  · simp

/-- both members of the pair returned by `get_ys_from_x_unchecked` solve the curve equation
    (no hypothesis on the order) -/
theorem swGetYs_sq {K : Codec F} {canon : F → Prop} (hL : SignLaws F canon) (hS : SqrtOK K canon)
    (E : SWCfg F) (x y1 y2 : F) (h : swGetYsFromX K E x = some (y1, y2)) :
    y1 * y1 = swRhs E x ∧ y2 * y2 = swRhs E x := by
  rw [swGetYsFromX_eq] at h
  cases hsq : K.sqrt (swRhs E x) with
  | none => rw [hsq] at h; cases h
  | some y =>
    rw [hsq] at h
    obtain ⟨hy, hyy⟩ := hS.sound _ _ (swRhs_canon hL E x) hsq
    simp only at h
    split at h <;> (simp only [Option.some.injEq, Prod.mk.injEq] at h; rw [← h.1, ← h.2])
    · exact ⟨hyy, by rw [hL.neg_sq, hyy]⟩
    · exact ⟨by rw [hL.neg_sq, hyy], hyy⟩

theorem swGetPointFromX_onCurve {K : Codec F} {canon : F → Prop} (hL : SignLaws F canon)
    (hS : SqrtOK K canon) (E : SWCfg F) (x : F) (g : Bool) (P : SWAff F)
    (h : swGetPointFromX K E x g = some P) :
    swIsOnCurve E P = true ∧ P.infinity = false ∧ P.x = x := by
  unfold swGetPointFromX at h
  cases hg : swGetYsFromX K E x with
  | none => rw [hg] at h; cases h
  | some q =>
    obtain ⟨y1, y2⟩ := q
    obtain ⟨e1, e2⟩ := swGetYs_sq hL hS E x y1 y2 hg
    rw [hg] at h
    simp only [Option.map_some, Option.some.injEq] at h
    cases g <;> simp only [Bool.false_eq_true, if_false, if_true] at h <;> subst h
    · exact ⟨(swIsOnCurve_iff E _ rfl).mpr e1, rfl, rfl⟩
    · exact ⟨(swIsOnCurve_iff E _ rfl).mpr e2, rfl, rfl⟩

/-- what `from_random_bytes` can return: the identity `(0, 0, true)` or a finite point on the curve -/
theorem swFromRandomBytes_onCurve {K : Codec F} {canon : F → Prop} (hL : SignLaws F canon)
    (hS : SqrtOK K canon) (E : SWCfg F) (frb : Frb F) (bytes : List Nat) (P : SWAff F)
    (h : swFromRandomBytes K E frb bytes = .ok (some P)) :
    swIsOnCurve E P = true ∧ (P.infinity = true → P = SWAff.identity) := by
  unfold swFromRandomBytes at h
  split at h
  · cases h
  · cases h
  · split at h
    · simp only [Outcome.ok.injEq, Option.some.injEq] at h
      subst h
      exact ⟨by simp [swIsOnCurve, SWAff.identity], fun _ => rfl⟩
    · split at h
      · simp only [Outcome.ok.injEq] at h
        obtain ⟨h1, h2, -⟩ := swGetPointFromX_onCurve hL hS E _ _ P h
        exact ⟨h1, fun hi => by rw [h2] at hi; cases hi⟩
      · cases h

theorem teGetXs_sq {K : Codec F} {canon : F → Prop} (hL : SignLaws F canon) (hS : SqrtOK K canon)
    (E : TECfg F) (y x1 x2 : F) (h : teGetXsFromY K E y = some (x1, x2)) :
    x1 * x1 = teX2 E y ∧ x2 * x2 = teX2 E y ∧ E.a - (y * y) * E.d ≠ 0 := by
  rw [teGetXsFromY_eq] at h
  by_cases hden : E.a - (y * y) * E.d = 0
  · rw [if_pos hden] at h; cases h
  rw [if_neg hden] at h
  have hcan : canon (teX2 E y) := hL.canon_mul _ _
  cases hsq : K.sqrt (teX2 E y) with
  | none => rw [hsq] at h; cases h
  | some x =>
    rw [hsq] at h
    obtain ⟨hx, hxx⟩ := hS.sound _ _ hcan hsq
    simp only at h
    split at h <;> (simp only [Option.some.injEq, Prod.mk.injEq] at h; rw [← h.1, ← h.2])
    · exact ⟨hxx, by rw [hL.neg_sq, hxx], hden⟩
    · exact ⟨by rw [hL.neg_sq, hxx], hxx, hden⟩

/-- a point returned by `get_point_from_y_unchecked` satisfies the curve equation solved for `x²` -/
theorem teGetPointFromY_solved {K : Codec F} {canon : F → Prop} (hL : SignLaws F canon)
    (hS : SqrtOK K canon) (E : TECfg F) (y : F) (g : Bool) (P : TEAff F)
    (h : teGetPointFromY K E y g = some P) :
    P.y = y ∧ P.x * P.x = teX2 E P.y ∧ E.a - (P.y * P.y) * E.d ≠ 0 := by
  unfold teGetPointFromY at h
  cases hg : teGetXsFromY K E y with
  | none => rw [hg] at h; cases h
  | some q =>
    obtain ⟨x1, x2⟩ := q
    obtain ⟨e1, e2, hden⟩ := teGetXs_sq hL hS E y x1 x2 hg
    rw [hg] at h
    simp only [Option.map_some, Option.some.injEq] at h
    cases g <;> simp only [Bool.false_eq_true, if_false, if_true] at h <;> subst h
    · exact ⟨rfl, e1, hden⟩
    · exact ⟨rfl, e2, hden⟩

theorem teFromRandomBytes_solved {K : Codec F} {canon : F → Prop} (hL : SignLaws F canon)
    (hS : SqrtOK K canon) (E : TECfg F) (frb : Frb F) (bytes : List Nat) (P : TEAff F)
    (h : teFromRandomBytes K E frb bytes = .ok (some P)) :
    P.x * P.x = teX2 E P.y ∧ E.a - (P.y * P.y) * E.d ≠ 0 := by
  unfold teFromRandomBytes at h
  split at h
  · cases h
  · cases h
  · simp only [Outcome.ok.injEq] at h
    exact (teGetPointFromY_solved hL hS E _ _ P h).2

/-- the recorded sign inversion: `from_random_bytes` on the compressed serialisation of a finite
    point returns the point with the OTHER `y` (`greatest = y_is_positive` selects the larger root for
    the flag of the smaller one) -/
theorem swFromRandomBytes_serialize {K : Codec F} {canon : F → Prop} {frb : Frb F}
    (hR : FrbRT K canon frb) (hL : SignLaws F canon) (hS : SqrtOK K canon) (hO : LtOK K canon)
    (E : SWCfg F) (P : SWAff F) (hinf : P.infinity = false) (hx : canon P.x) (hy : canon P.y)
    (hon : swIsOnCurve E P = true) (bs : List Nat) (hs : swSerialize K P .yes = .ok bs) :
    swFromRandomBytes K E frb bs = .ok (some ⟨P.x, -P.y, false⟩) := by
  obtain ⟨x, y, inf⟩ := P
  simp only at hinf hx hy
  subst hinf
  unfold swSerialize at hs
  simp only [Bool.false_eq_true, if_false] at hs
  have hf := hR SWFlags swFlagsOK x _ bs hx hs
  have hon' := (swIsOnCurve_iff E ⟨x, y, false⟩ rfl).mp hon
  obtain ⟨y1, y2, hg, hsel⟩ := swSelect_y hL hS hO E x y hy hon'
  obtain ⟨e2, -, -, c1, -⟩ := swGetYs_spec hL hS hO E x y1 y2 hg
  unfold swFromRandomBytes
  rw [hf]
  simp only
  have hni : (swToFlags K ⟨x, y, false⟩).isInfinity = false := swToFlags_not_inf K ⟨x, y, false⟩ rfl
  rw [if_neg (by rw [hni]; simp)]
  have hpos : (swToFlags K ⟨x, y, false⟩).isPositive = some (K.le y (-y)) := by
    rw [← swFlagsFromY_eq_toFlags K x y]; exact swFlagsFromY_isPositive K y
  rw [hpos]
  simp only [swGetPointFromX, hg, Option.map_some]
  by_cases hle : K.le y (-y) = true
  · rw [if_pos hle] at hsel
    rw [hle]; simp only [if_true]
    rw [e2, hsel]
  · rw [if_neg hle] at hsel
    have hle' : K.le y (-y) = false := by simpa using hle
    rw [hle']; simp only [Bool.false_eq_true, if_false]
    rw [← hsel, e2, hL.neg_neg y1 c1]

/-- … and the identity is read back as the identity -/
theorem swFromRandomBytes_serialize_identity {K : Codec F} {canon : F → Prop} {frb : Frb F}
    (hR : FrbRT K canon frb) (h0 : canon 0) (E : SWCfg F) (P : SWAff F) (hinf : P.infinity = true)
    (bs : List Nat) (hs : swSerialize K P .yes = .ok bs) :
    swFromRandomBytes K E frb bs = .ok (some SWAff.identity) := by
  unfold swSerialize at hs
  simp only [hinf, if_true] at hs
  have hf := hR SWFlags swFlagsOK 0 _ bs h0 hs
  unfold swFromRandomBytes
  rw [hf]
  simp [SWFlags.isInfinity]

/-- twisted Edwards: `from_random_bytes` inverts the compressed serialisation (`greatest =
    flags.is_negative()` selects the root the flag was computed from) -/
theorem teFromRandomBytes_serialize {K : Codec F} {canon : F → Prop} {frb : Frb F}
    (hR : FrbRT K canon frb) (hL : SignLaws F canon) (hS : SqrtOK K canon) (hO : LtOK K canon)
    (E : TECfg F) (P : TEAff F) (hx : canon P.x) (hy : canon P.y)
    (hden : E.a - (P.y * P.y) * E.d ≠ 0) (hsolve : P.x * P.x = teX2 E P.y)
    (bs : List Nat) (hs : teSerialize K P .yes = .ok bs) :
    teFromRandomBytes K E frb bs = .ok (some P) := by
  obtain ⟨x, y⟩ := P
  simp only at hx hy hden hsolve
  unfold teSerialize at hs
  simp only at hs
  have hf := hR TEFlags teFlagsOK y _ bs hy hs
  obtain ⟨x1, x2, hg⟩ := teGetXs_some (K := K) hL hS E y x hden hx hsolve
  obtain ⟨e2, l, e, c1, -, -⟩ := teGetXs_spec hL hS hO E y x1 x2 hg
  subst e2
  have hsel := sign_select hL hO x x1 hx c1 (by rw [e]; exact hsolve.symm) l
  unfold teFromRandomBytes
  rw [hf]
  simp only [teGetPointFromY, hg, Option.map_some, teFlagsFromX_isNegative]
  by_cases hle : K.le x (-x) = true
  · rw [if_pos hle] at hsel
    rw [hle]; simp [hsel]
  · rw [if_neg hle] at hsel
    have hle' : K.le x (-x) = false := by simpa using hle
    rw [hle']; simp [hsel]

end frb

/-- over a genuine field the solved form is the curve equation -/
theorem teIsOnCurve_of_solved {F : Type} [Field F] [DecidableEq F] (E : TECfg F) (P : TEAff F)
    (hsolve : P.x * P.x = teX2 E P.y) (hden : E.a - (P.y * P.y) * E.d ≠ 0) :
    teIsOnCurve E P = true := by
  unfold teIsOnCurve
  simp only [beq_iff_eq]
  unfold teX2 at hsolve
  have h2 : (E.a - (P.y * P.y) * E.d) * (P.x * P.x) = 1 - P.y * P.y := by
    rw [hsolve, ← mul_assoc, mul_inv_cancel₀ hden, one_mul]
  linear_combination h2

/-- … and so it is inside the executable `Fp p`, `p` prime -/
theorem teIsOnCurve_of_solved_fp {p : ℕ} (hp : p.Prime) (E : TECfg (Fp p)) (P : TEAff (Fp p))
    (hsolve : P.x * P.x = teX2 E P.y) (hden : E.a - (P.y * P.y) * E.d ≠ 0) :
    teIsOnCurve E P = true := by
  have : Fact p.Prime := ⟨hp⟩
  unfold teIsOnCurve
  simp only [beq_iff_eq]
  have hdz : toZ (E.a - (P.y * P.y) * E.d) ≠ 0 := by
    intro h0
    apply hden
    exact toZ_inj _ _ (Nat.mod_lt _ hp.pos) (by show (0 : ℕ) < p; exact hp.pos) (by rw [h0, toZ_zero])
  have hz := congrArg toZ hsolve
  unfold teX2 at hz
  rw [toZ_mul, toZ_mul, toZ_inv hp _ hdz, toZ_sub hp.pos 1, toZ_one, toZ_mul, eq_comm,
    inv_mul_eq_iff_eq_mul₀ hdz, toZ_sub hp.pos, toZ_mul, toZ_mul] at hz
  refine toZ_inj _ _ (Nat.mod_lt _ hp.pos) (Nat.mod_lt _ hp.pos) ?_
  simp only [toZ_add, toZ_mul, toZ_one]
  linear_combination (-1 : ZMod p) * hz

end Ark.Bytes

namespace Ark.H2C.P
open Ark Ark.H2C

/-! ## C13c: hash_to_field from an XOF reader -/

section xof

/-- the `j`-th chunk of `L` bytes of the stream `d` continued by zeros -/
def chunkZ (d : Bytes) (L j : Nat) : Bytes :=
  (d.drop (L * j)).take L ++ List.replicate (L - (d.length - L * j)) 0

theorem chunkZ_length (d : Bytes) (L j : Nat) : (chunkZ d L j).length = L := by
  unfold chunkZ
  simp only [List.length_append, List.length_take, List.length_drop, List.length_replicate]
  omega

theorem chunkZ_of_le (d : Bytes) (L j : Nat) (h : L * (j + 1) ≤ d.length) :
    chunkZ d L j = (d.drop (L * j)).take L := by
  unfold chunkZ
  have : L - (d.length - L * j) = 0 := by rw [Nat.mul_add, Nat.mul_one] at h; omega
  rw [this]; simp

theorem streamReader_read (d : Bytes) (cnt : Nat) (buf : Bytes) :
    streamReader.read (d, cnt) buf =
      (chunkZ d buf.length 0, (d.drop buf.length, cnt + buf.length)) := by
  simp [streamReader, chunkZ]

theorem chunkZ_drop (d : Bytes) (L j : Nat) : chunkZ (d.drop L) L j = chunkZ d L (j + 1) := by
  unfold chunkZ
  rw [List.drop_drop, List.length_drop]
  have e1 : L + L * j = L * (j + 1) := by rw [Nat.mul_add, Nat.mul_one, Nat.add_comm]
  have e2 : d.length - L - L * j = d.length - L * (j + 1) := by rw [← e1]; omega
  rw [e1, e2]

/-- the reader loop on the harness' stream reader: `m` reads of `L` bytes each -/
theorem xofElems_stream (p L : Nat) : ∀ (m : Nat) (d : Bytes) (cnt : Nat) (buf : Bytes), buf.length = L →
    xofElems streamReader p m (d, cnt) buf =
      ((List.range m).map (fun j => os2ip (chunkZ d L j) % p), (d.drop (m * L), cnt + m * L)) := by
  intro m
  induction m with
  | zero => intro d cnt buf _; simp [xofElems]
  | succ m ih =>
    intro d cnt buf hb
    simp only [xofElems, streamReader_read, hb]
    rw [ih (d.drop L) (cnt + L) (chunkZ d L 0) (chunkZ_length d L 0)]
    simp only [List.drop_drop, List.range_succ_eq_map, List.map_cons, List.map_map]
    refine Prod.ext ?_ (Prod.ext ?_ ?_)
    · simp only [List.cons.injEq, true_and]
      apply List.map_congr_left
      intro j _
      simp only [Function.comp, chunkZ_drop]
    · simp only; congr 1; rw [Nat.succ_mul]; omega
    · simp only; rw [Nat.succ_mul]; omega

theorem hashToFieldOfBytes_eq (p m k : Nat) (ub : Bytes) :
    Rfc.hashToFieldOfBytes p m k ub =
      (List.range m).map (fun j => os2ip ((ub.drop (Rfc.paramL p k * j)).take (Rfc.paramL p k)) % p) := by
  unfold Rfc.hashToFieldOfBytes
  simp only [os2ip_eq]

/-- the XOF-reader `hash_to_field` on the stream reader, any stream (zeros after its end) -/
theorem hashToFieldXof_stream_gen (p m k : Nat) (d : Bytes) (cnt : Nat) (hL : Rfc.paramL p k ≤ 2048) :
    hashToFieldXof streamReader p (Rfc.ceilLog2 p) m k (d, cnt) =
      .ok ((List.range m).map (fun j => os2ip (chunkZ d (Rfc.paramL p k) j) % p),
        (d.drop (m * Rfc.paramL p k), cnt + m * Rfc.paramL p k)) := by
  unfold hashToFieldXof
  simp only [getLenPerElem_eq]
  rw [if_neg (by omega), xofElems_stream p (Rfc.paramL p k) m d cnt _ (by simp)]

/-- … with at least `m·L` bytes in the stream: the RFC's `hash_to_field` steps on those bytes -/
theorem hashToFieldXof_stream (p m k : Nat) (d : Bytes) (cnt : Nat) (hL : Rfc.paramL p k ≤ 2048)
    (hd : m * Rfc.paramL p k ≤ d.length) :
    hashToFieldXof streamReader p (Rfc.ceilLog2 p) m k (d, cnt) =
      .ok (Rfc.hashToFieldOfBytes p m k d, (d.drop (m * Rfc.paramL p k), cnt + m * Rfc.paramL p k)) := by
  rw [hashToFieldXof_stream_gen p m k d cnt hL, hashToFieldOfBytes_eq]
  congr 2
  apply List.map_congr_left
  intro j hj
  rw [List.mem_range] at hj
  rw [chunkZ_of_le]
  have : (j + 1) * Rfc.paramL p k ≤ m * Rfc.paramL p k := Nat.mul_le_mul_right _ hj
  rw [Nat.mul_comm]; omega

theorem hashToFieldXof_panic_iff {σ : Type} (R : XofReader σ) (p bits m k : Nat) (h : σ) :
    hashToFieldXof R p bits m k h = .panic ↔ getLenPerElem bits k > 2048 := by
  unfold hashToFieldXof
  simp only
  split
  · simp [*]
  · simp [*]

theorem hashToFieldXof_ok {σ : Type} (R : XofReader σ) (p bits m k : Nat) (h : σ)
    (hL : getLenPerElem bits k ≤ 2048) :
    hashToFieldXof R p bits m k h = .ok (xofElems R p m h (List.replicate (getLenPerElem bits k) 0)) := by
  unfold hashToFieldXof
  simp only
  rw [if_neg (by omega)]

/-- any reader: exactly `m` coordinates, each `< p` -/
theorem xofElems_length {σ : Type} (R : XofReader σ) (p : Nat) : ∀ (m : Nat) (h : σ) (buf : Bytes),
    (xofElems R p m h buf).1.length = m := by
  intro m
  induction m with
  | zero => intros; rfl
  | succ m ih => intro h buf; simp only [xofElems, List.length_cons, ih]

theorem xofElems_lt {σ : Type} (R : XofReader σ) (p : Nat) (hp : 0 < p) : ∀ (m : Nat) (h : σ) (buf : Bytes),
    ∀ c ∈ (xofElems R p m h buf).1, c < p := by
  intro m
  induction m with
  | zero => intro h buf c hc; simp [xofElems] at hc
  | succ m ih =>
    intro h buf c hc
    simp only [xofElems, List.mem_cons] at hc
    rcases hc with rfl | hc
    · exact Nat.mod_lt _ hp
    · exact ih _ _ c hc

/-- RFC `hash_to_field` with `count = 1` is `hashToFieldOfBytes` of the expander's output -/
theorem rfc_hashToField_one (H : Bytes → Bytes) (bLen s p m k : Nat) (dst msg ub : Bytes)
    (h : Rfc.expandMessageXmd H bLen s msg dst (1 * m * Rfc.paramL p k) = some ub) :
    Rfc.hashToField H bLen s p m k dst msg 1 = some [Rfc.hashToFieldOfBytes p m k ub] := by
  unfold Rfc.hashToField
  simp only [h, Rfc.hashToFieldOfBytes]
  simp

/-- relation with the XMD hasher (`count = 1`): the XOF-reader function fed with the bytes of
    `expand_message_xmd` returns the element the XMD-based `hash_to_field` returns -/
theorem hashToField_one_eq_xof (H : Bytes → Bytes) (bLen : Nat) (hH : ∀ x, (H x).length = bLen) (hb : 0 < bLen)
    (p m k : Nat) (hL : Rfc.paramL p k ≤ 256) (dst msg ub : Bytes)
    (hx : Rfc.expandMessageXmd H bLen (Rfc.paramL p k) msg dst (1 * m * Rfc.paramL p k) = some ub) :
    hashToField H bLen p (Rfc.ceilLog2 p) m k 1 dst msg = .ok [Rfc.hashToFieldOfBytes p m k ub] ∧
    hashToFieldXof streamReader p (Rfc.ceilLog2 p) m k (ub, 0) =
      .ok (Rfc.hashToFieldOfBytes p m k ub, ([], m * Rfc.paramL p k)) := by
  have h1 := hashToField_eq H bLen hH hb p m k 1 hL dst msg
  rw [rfc_hashToField_one H bLen _ p m k dst msg ub hx] at h1
  refine ⟨h1, ?_⟩
  have hx' := expandXmd_eq H bLen (Rfc.paramL p k) hL dst msg (1 * m * Rfc.paramL p k)
  rw [hx] at hx'
  have hlen := expandXmd_length H bLen hH hb _ _ _ _ _ hx'
  rw [Nat.one_mul] at hlen
  rw [hashToFieldXof_stream p m k ub 0 (by omega) (by omega)]
  simp [← hlen]
end xof

section isoTotal
variable {F : Type} [Field F] [DecidableEq F]

theorem isoApply_ne_panic (iso : Iso F) (pt : Option (F × F)) : isoApply iso pt ≠ .panic := by
  cases pt with
  | none => simp [isoApply]
  | some q => obtain ⟨x, y⟩ := q; rw [isoApply_eq]; simp
end isoTotal

end Ark.H2C.P

open Ark
set_option linter.unusedSimpArgs false
set_option linter.unusedSectionVars false
namespace Ark.Bytes

/-! ## C09c: `Fp::from_random_bytes_with_flags` inverts `serialize_with_flags` -/

theorem maskLast_eq (fl fm : Nat) : ∀ (bs ms : List Nat) (i f : Nat),
    maskLast fl fm i bs ms f =
      (List.zipWith (· &&& ·) bs ms,
        if i ≤ fl ∧ fl < i + min bs.length ms.length then bs.getD (fl - i) 0 &&& fm else f) := by
  intro bs
  induction bs with
  | nil => intro ms i f; simp [maskLast]
  | cons b bs ih =>
    intro ms i f
    cases ms with
    | nil => simp [maskLast]
    | cons m ms =>
      simp only [maskLast, ih, List.zipWith_cons_cons, List.length_cons]
      refine Prod.ext rfl ?_
      simp only
      by_cases h1 : i = fl
      · subst h1
        rw [if_neg (by omega), if_pos rfl, if_pos (by omega)]
        simp
      · rw [if_neg h1]
        by_cases h2 : i + 1 ≤ fl ∧ fl < i + 1 + min bs.length ms.length
        · rw [if_pos h2, if_pos (by omega)]
          obtain ⟨d, hd⟩ : ∃ d, fl - i = d + 1 := ⟨fl - i - 1, by omega⟩
          rw [hd, List.getD_cons_succ, show fl - (i + 1) = d by omega]
        · rw [if_neg h2, if_neg (by omega)]

theorem toB_and (k a b : Nat) : toB k (a &&& b) = List.zipWith (· &&& ·) (toB k a) (toB k b) := by
  induction k generalizing a b with
  | zero => rfl
  | succ k ih =>
    simp only [toB, List.zipWith_cons_cons]
    have h1 : (a &&& b) % 256 = a % 256 &&& b % 256 := Nat.and_mod_two_pow (n := 8)
    have h2 : (a &&& b) / 256 = a / 256 &&& b / 256 := Nat.and_div_two_pow (n := 8)
    rw [h1, h2, ih]

theorem byte_and_top : ∀ k, k ≤ 8 → ∀ x, x < 256 → x &&& ((255 <<< k) % 256) = x / 2 ^ k * 2 ^ k := by
  decide +kernel


theorem chunks8_nil (fuel : Nat) : SerBuf.chunks8 fuel [] = [] := by
  cases fuel <;> simp [SerBuf.chunks8]

theorem flatten_replicate8 (k : Nat) :
    (List.replicate k (List.replicate 8 (0 : Nat))).flatten = List.replicate (8 * k) 0 := by
  induction k with
  | zero => rfl
  | succ k ih =>
    rw [List.replicate_succ, List.flatten_cons, ih, show 8 * (k + 1) = 8 + 8 * k by omega,
      List.replicate_add]

theorem getD_replicate_zero (k j : Nat) : (List.replicate k (0 : Nat)).getD j 0 = 0 := by
  simp only [List.getD_eq_getElem?_getD, List.getElem?_replicate]
  split <;> rfl

/-- the loop of `copy_from_u8_slice` from limb `i` on, when the limbs from `i` on are still zero:
    the bytes `r` (at most `8(N−i)+1` of them) fill the limbs in order, a last extra byte goes to `last` -/
theorem copyGo_spec (N : Nat) : ∀ (fuel : Nat) (r : List Nat) (i : Nat) (b : SerBuf),
    r.length < fuel → b.buffers.length = N → i ≤ N → r.length ≤ 8 * (N - i) + 1 →
    b.buffers.drop i = List.replicate (N - i) (List.replicate 8 0) →
    (SerBuf.copyFromU8Slice.go N i (SerBuf.chunks8 fuel r) b).buffers.length = N ∧
    (SerBuf.copyFromU8Slice.go N i (SerBuf.chunks8 fuel r) b).buffers.take i = b.buffers.take i ∧
    (∀ l ∈ (SerBuf.copyFromU8Slice.go N i (SerBuf.chunks8 fuel r) b).buffers.drop i, l.length = 8) ∧
    (∀ j, ((SerBuf.copyFromU8Slice.go N i (SerBuf.chunks8 fuel r) b).buffers.drop i).flatten.getD j 0 =
      if j < 8 * (N - i) then r.getD j 0 else 0) ∧
    (SerBuf.copyFromU8Slice.go N i (SerBuf.chunks8 fuel r) b).last =
      (if 8 * (N - i) < r.length then r.getD (8 * (N - i)) 0 else b.last) := by
  intro fuel
  induction fuel with
  | zero => intro r i b h; omega
  | succ fuel ih =>
    intro r i b hr hb hi hlen hz
    cases r with
    | nil =>
      simp only [SerBuf.chunks8, List.isEmpty_nil, if_true, SerBuf.copyFromU8Slice.go]
      refine ⟨hb, by trivial, ?_, ?_, by simp⟩
      · rw [hz]; intro l hl; rw [List.eq_of_mem_replicate hl]; simp
      · intro j
        rw [hz, flatten_replicate8, getD_replicate_zero]
        split <;> simp
    | cons a r' =>
      have hne : (a :: r').isEmpty = false := rfl
      simp only [SerBuf.chunks8, hne, Bool.false_eq_true, if_false, SerBuf.copyFromU8Slice.go]
      by_cases hiN : i < N
      · rw [if_pos hiN]
        -- the limb at `i` is zero
        have hgi : b.buffers.getD i [] = List.replicate 8 0 := by
          have h1 : (b.buffers.drop i)[0]? = some (List.replicate 8 0) := by
            rw [hz, List.getElem?_replicate, if_pos (by omega)]
          rw [List.getElem?_drop] at h1
          simp only [Nat.add_zero] at h1
          simp [List.getD, h1]
        set L := overwritePrefix (b.buffers.getD i []) ((a :: r').take 8) with hL
        have hLlen : L.length = 8 := by
          rw [hL, hgi]; unfold overwritePrefix
          simp only [List.length_append, List.length_take, List.length_drop, List.length_replicate,
            List.length_cons]
          omega
        have hLget : ∀ j, j < 8 → L.getD j 0 = (a :: r').getD j 0 := by
          intro j hj
          rw [hL, hgi]; unfold overwritePrefix
          simp only [List.getD_eq_getElem?_getD, List.getElem?_append, List.length_take,
            List.getElem?_take, List.getElem?_drop, List.getElem?_replicate]
          by_cases h1 : j < min 8 (a :: r').length
          · rw [if_pos h1, if_pos (by omega)]
          · rw [if_neg h1]
            have : (a :: r')[j]? = none := by
              rw [List.getElem?_eq_none_iff]; omega
            rw [this]
            split <;> rfl
        have ih' := ih ((a :: r').drop 8) (i + 1) { b with buffers := b.buffers.set i L }
          (by simp only [List.length_drop, List.length_cons] at hr ⊢; omega)
          (by simp [hb]) (by omega)
          (by simp only [List.length_drop, List.length_cons] at hlen ⊢; omega)
          (by
            simp only
            rw [List.drop_set_of_lt (by omega), ← List.drop_drop (i := 1) (j := i), hz,
              List.drop_replicate]
            congr 1)
        obtain ⟨h1, h2, h3, h4, h5⟩ := ih'
        simp only at h1 h2 h3 h4 h5
        generalize hb' : SerBuf.copyFromU8Slice.go N (i + 1) (SerBuf.chunks8 fuel ((a :: r').drop 8))
          { b with buffers := b.buffers.set i L } = b' at *
        have hbi : b'.buffers[i]? = some L := by
          have := congrArg (fun l => l[i]?) h2
          simp only [List.getElem?_take, if_pos (Nat.lt_succ_self i)] at this
          rw [this, List.getElem?_set_self (by omega)]
        have hdrop : b'.buffers.drop i = L :: b'.buffers.drop (i + 1) := by
          rw [List.drop_eq_getElem_cons (by rw [h1]; exact hiN)]
          congr 1
          have := List.getElem?_eq_getElem (l := b'.buffers) (i := i) (by rw [h1]; exact hiN)
          rw [hbi] at this
          exact (Option.some.inj this).symm
        refine ⟨h1, ?_, ?_, ?_, ?_⟩
        · have := congrArg (List.take i) h2
          rw [List.take_take, List.take_take, Nat.min_eq_left (Nat.le_succ i), List.take_set_of_le (Nat.le_refl i)]
            at this
          exact this
        · rw [hdrop]; intro l hl
          rcases List.mem_cons.mp hl with rfl | hl
          · exact hLlen
          · exact h3 l hl
        · intro j
          rw [hdrop, List.flatten_cons]
          by_cases hj8 : j < 8
          · have e1 : (L ++ (b'.buffers.drop (i + 1)).flatten).getD j 0 = L.getD j 0 := by
              simp only [List.getD_eq_getElem?_getD, List.getElem?_append, hLlen, if_pos hj8]
            rw [e1, hLget j hj8, if_pos (by omega)]
          · have e1 : (L ++ (b'.buffers.drop (i + 1)).flatten).getD j 0 =
                (b'.buffers.drop (i + 1)).flatten.getD (j - 8) 0 := by
              simp only [List.getD_eq_getElem?_getD, List.getElem?_append, hLlen, if_neg hj8]
            rw [e1, h4 (j - 8)]
            simp only [List.getD_eq_getElem?_getD, List.getElem?_drop]
            by_cases hj : j < 8 * (N - i)
            · rw [if_pos (by omega), if_pos hj, show 8 + (j - 8) = j by omega]
            · rw [if_neg (by omega), if_neg hj]
        · rw [h5]
          simp only [List.length_drop, List.getD_eq_getElem?_getD, List.getElem?_drop]
          by_cases hl : 8 * (N - i) < (a :: r').length
          · rw [if_pos (by omega), if_pos hl, show 8 + 8 * (N - (i + 1)) = 8 * (N - i) by omega]
          · rw [if_neg (by omega), if_neg hl]
      · rw [if_neg hiN]
        have hiN' : i = N := by omega
        subst hiN'
        have hr' : r' = [] := by
          simp only [Nat.sub_self, Nat.mul_zero, Nat.zero_add, List.length_cons] at hlen
          exact List.eq_nil_of_length_eq_zero (by omega)
        subst hr'
        simp only [List.drop_succ_cons, List.drop_nil, chunks8_nil, SerBuf.copyFromU8Slice.go]
        refine ⟨hb, by trivial, ?_, ?_, by simp⟩
        · rw [hz]; simp
        · intro j; rw [hz]; simp


theorem ext_getD {xs ys : List Nat} (hl : xs.length = ys.length)
    (h : ∀ j, j < xs.length → xs.getD j 0 = ys.getD j 0) : xs = ys := by
  apply List.ext_getElem hl
  intro j h1 h2
  have := h j h1
  simp only [List.getD_eq_getElem?_getD, List.getElem?_eq_getElem h1, List.getElem?_eq_getElem h2,
    Option.getD_some] at this
  exact this

theorem flatten_length8 (ls : List (List Nat)) (h : ∀ l ∈ ls, l.length = 8) :
    ls.flatten.length = 8 * ls.length := by
  induction ls with
  | nil => rfl
  | cons l ls ih =>
    simp only [List.flatten_cons, List.length_append, List.length_cons, h l (by simp),
      ih (fun x hx => h x (by simp [hx]))]
    omega

theorem getD_toB_all (k v j : Nat) (hv : v < 256 ^ k) : (toB k v).getD j 0 = v / 256 ^ j % 256 := by
  by_cases hj : j < k
  · exact getD_toB k v j hj
  · have h1 : (toB k v).getD j 0 = 0 := by
      simp only [List.getD_eq_getElem?_getD]
      rw [List.getElem?_eq_none_iff.mpr (by rw [toB_length]; omega)]; rfl
    have h2 : v / 256 ^ j = 0 := Nat.div_eq_of_lt (Nat.lt_of_lt_of_le hv (Nat.pow_le_pow_right (by decide) (by omega)))
    rw [h1, h2]

/-- closed form of `copy_from_u8_slice` on the `S` little-endian bytes of `V` -/
theorem copyU8_toB (n S V : Nat) (h1 : 8 * n < S) (h2 : S ≤ 8 * (n + 1) + 1) (hV : V < 256 ^ S) :
    ∃ init : List (List Nat), init.length = n ∧ (∀ l ∈ init, l.length = 8) ∧ init.flatten = toB (8 * n) V ∧
      SerBuf.copyFromU8Slice (n + 1) (SerBuf.zeroed (n + 1)) (toB S V) =
        ⟨init ++ [toB 8 (V / 256 ^ (8 * n))], V / 256 ^ (8 * (n + 1)) % 256⟩ := by
  obtain ⟨g1, -, g3, g4, g5⟩ := copyGo_spec (n + 1) (S + 1) (toB S V) 0 (SerBuf.zeroed (n + 1))
    (by rw [toB_length]; omega) (zeroed_length _) (Nat.zero_le _) (by rw [toB_length]; omega)
    (by simp [SerBuf.zeroed])
  have hcopy : SerBuf.copyFromU8Slice (n + 1) (SerBuf.zeroed (n + 1)) (toB S V) =
      SerBuf.copyFromU8Slice.go (n + 1) 0 (SerBuf.chunks8 (S + 1) (toB S V)) (SerBuf.zeroed (n + 1)) := by
    unfold SerBuf.copyFromU8Slice; rw [toB_length]
  rw [hcopy]
  generalize SerBuf.copyFromU8Slice.go (n + 1) 0 (SerBuf.chunks8 (S + 1) (toB S V)) (SerBuf.zeroed (n + 1)) = b'
    at *
  simp only [List.drop_zero, Nat.sub_zero, toB_length] at g3 g4 g5
  have g4' : ∀ j, b'.buffers.flatten.getD j 0 = if j < 8 * (n + 1) then V / 256 ^ j % 256 else 0 := by
    intro j; rw [g4 j, getD_toB_all S V j hV]
  obtain ⟨bufs, lst⟩ := b'
  simp only at g1 g3 g4' g5
  -- split the limbs
  have hsplit : bufs = bufs.take n ++ [bufs.getD n []] := by
    have : bufs.drop n = [bufs.getD n []] := by
      rw [List.drop_eq_getElem_cons (by omega)]
      have hd : bufs.drop (n + 1) = [] := List.drop_eq_nil_of_le (by omega)
      rw [hd]
      simp [List.getD, List.getElem?_eq_getElem (show n < bufs.length by omega)]
    conv_lhs => rw [← List.take_append_drop n bufs, this]
  have hinit8 : ∀ l ∈ bufs.take n, l.length = 8 := fun l hl => g3 l (List.mem_of_mem_take hl)
  have hll8 : (bufs.getD n []).length = 8 := by
    have hn : n < bufs.length := by omega
    have : bufs.getD n [] = bufs[n] := by simp [List.getD, List.getElem?_eq_getElem hn]
    rw [this]; exact g3 _ (List.getElem_mem hn)
  have hflat : bufs.flatten = (bufs.take n).flatten ++ bufs.getD n [] := by
    conv_lhs => rw [hsplit]
    simp
  have hil : (bufs.take n).flatten.length = 8 * n := by
    rw [flatten_length8 _ hinit8, List.length_take]; congr 1; omega
  refine ⟨bufs.take n, by rw [List.length_take]; omega, hinit8, ?_, ?_⟩
  · apply ext_getD (by rw [hil, toB_length])
    intro j hj
    rw [hil] at hj
    have := g4' j
    rw [hflat, if_pos (by omega)] at this
    simp only [List.getD_eq_getElem?_getD, List.getElem?_append, hil, if_pos hj] at this
    rw [getD_toB _ _ _ hj]
    simpa [List.getD_eq_getElem?_getD] using this
  · have hll : bufs.getD n [] = toB 8 (V / 256 ^ (8 * n)) := by
      apply ext_getD (by rw [hll8, toB_length])
      intro j hj
      rw [hll8] at hj
      have := g4' (8 * n + j)
      rw [hflat, if_pos (by omega)] at this
      simp only [List.getD_eq_getElem?_getD, List.getElem?_append, hil,
        if_neg (show ¬ 8 * n + j < 8 * n by omega), show 8 * n + j - 8 * n = j by omega] at this
      rw [getD_toB _ _ _ hj, Nat.div_div_eq_div_mul, ← Nat.pow_add]
      simpa [List.getD_eq_getElem?_getD] using this
    have hlst : lst = V / 256 ^ (8 * (n + 1)) % 256 := by
      rw [g5]
      by_cases hS : 8 * (n + 1) < S
      · rw [if_pos hS, getD_toB_all S V _ hV]
      · rw [if_neg hS]
        have : V / 256 ^ (8 * (n + 1)) = 0 :=
          Nat.div_eq_of_lt (Nat.lt_of_lt_of_le hV (Nat.pow_le_pow_right (by decide) (by omega)))
        rw [this]; rfl
    rw [← hll, ← hlst]
    exact congrArg (fun x => SerBuf.mk x lst) hsplit


theorem shr_mask : ∀ sh, sh < 64 → (2 ^ 64 - 1) >>> sh = 2 ^ (64 - sh) - 1 := by decide +kernel

theorem or_eq_add_of_top (k o m : Nat) (ho : o < 2 ^ k) (hm : m % 2 ^ k = 0) : o ||| m = o + m := by
  have hm' : m = (m / 2 ^ k) <<< k := by
    rw [Nat.shiftLeft_eq]; have := Nat.div_add_mod m (2 ^ k); rw [hm] at this; rw [Nat.mul_comm]; omega
  rw [hm', Nat.or_comm, Nat.add_comm]
  exact (Nat.shiftLeft_add_eq_or_of_lt ho _).symm

theorem top_plus_mask_lt (bsz o m : Nat) (ho : o < 2 ^ (8 - bsz)) (hm : m < 256)
    (hm0 : m % 2 ^ (8 - bsz) = 0) : o + m < 256 := by
  have h3 := Nat.div_add_mod m (2 ^ (8 - bsz))
  rw [hm0, Nat.add_zero] at h3
  have h4 : m / 2 ^ (8 - bsz) < 256 / 2 ^ (8 - bsz) ∨ 256 / 2 ^ (8 - bsz) ≤ m / 2 ^ (8 - bsz) := by omega
  have h5 : 2 ^ (8 - bsz) * (256 / 2 ^ (8 - bsz)) = 256 := by
    have : (2 : Nat) ^ (8 - bsz) ∣ 2 ^ 8 := Nat.pow_dvd_pow 2 (Nat.sub_le _ _)
    exact Nat.mul_div_cancel' this
  rcases h4 with h4 | h4
  · have := Nat.mul_le_mul_left (2 ^ (8 - bsz)) (Nat.succ_le_of_lt h4)
    rw [Nat.mul_succ] at this
    omega
  · have := Nat.mul_le_mul_left (2 ^ (8 - bsz)) h4
    omega

/-- the flag byte: masking with `u8::MAX << (8 - BIT_SIZE)` recovers the mask -/
theorem flag_byte_and (bsz o m : Nat) (hb : bsz ≤ 8) (ho : o < 2 ^ (8 - bsz)) (hm : m < 256)
    (hm0 : m % 2 ^ (8 - bsz) = 0) :
    (o + m) &&& (if 8 - bsz ≥ 8 then 0 else (255 <<< (8 - bsz)) % 256) = m := by
  have hom : o + m < 256 := by
    have h2 : 2 ^ (8 - bsz) ≤ 256 := Nat.le_trans (Nat.pow_le_pow_right (by decide) (Nat.sub_le _ _)) (by decide)
    have h3 := Nat.div_add_mod m (2 ^ (8 - bsz))
    rw [hm0, Nat.add_zero] at h3
    have h4 : m / 2 ^ (8 - bsz) < 256 / 2 ^ (8 - bsz) ∨ 256 / 2 ^ (8 - bsz) ≤ m / 2 ^ (8 - bsz) := by omega
    have h5 : 2 ^ (8 - bsz) * (256 / 2 ^ (8 - bsz)) = 256 := by
      have : (2 : Nat) ^ (8 - bsz) ∣ 2 ^ 8 := Nat.pow_dvd_pow 2 (Nat.sub_le _ _)
      exact Nat.mul_div_cancel' this
    rcases h4 with h4 | h4
    · have := Nat.mul_le_mul_left (2 ^ (8 - bsz)) (Nat.succ_le_of_lt h4)
      rw [Nat.mul_succ] at this
      omega
    · have := Nat.mul_le_mul_left (2 ^ (8 - bsz)) h4
      omega
  split
  · rename_i h8
    have : 8 - bsz = 8 := by omega
    rw [this] at hm0
    have : m = 0 := by omega
    rw [this]; simp
  · rename_i h8
    rw [byte_and_top (8 - bsz) (Nat.sub_le _ _) (o + m) hom]
    have h3 := Nat.div_add_mod m (2 ^ (8 - bsz))
    rw [hm0, Nat.add_zero] at h3
    rw [← h3, Nat.add_comm, Nat.mul_add_div (Nat.two_pow_pos _), Nat.div_eq_of_lt ho, Nat.add_zero,
      Nat.mul_comm]


/-- what `serialize_with_flags` writes is the `S` little-endian bytes of `x + 256^(S−1)·mask` -/
theorem fpSer_value {c : FpCfg} (h : WFc c) {Fl : Type} [Flags Fl] (hF : FlagsOK Fl) (x : Fp c.p)
    (hx : x.val < c.p) (fl : Fl) (bs : List Nat) (hs : fpSerFlags c Fl x fl = .ok bs) :
    bs = toB (fpSizeFlags c Fl) (x.val + 256 ^ (fpSizeFlags c Fl - 1) * Flags.u8Bitmask fl) ∧
    x.val + 256 ^ (fpSizeFlags c Fl - 1) * Flags.u8Bitmask fl < 256 ^ fpSizeFlags c Fl ∧
    x.val / 256 ^ (fpSizeFlags c Fl - 1) < 2 ^ (8 - bitSize Fl) := by
  have hf := hF.bits_le
  obtain ⟨h1, h2⟩ := h.size_range Fl hf
  rw [fpSer_char h Fl hf] at hs
  obtain ⟨ho1, ho2⟩ := serOld_reduced h Fl hf x.val hx
  cases hs
  generalize hS : fpSizeFlags c Fl = S at *
  rw [ho1] at ho2 ⊢
  generalize ho : x.val / 256 ^ (S - 1) = o at *
  have hm := hF.mask_lt fl
  have hm0 := hF.mask_top fl
  generalize Flags.u8Bitmask fl = m at *
  rw [Nat.mod_eq_of_lt hm, or_eq_add_of_top _ o m ho2 hm0]
  have hom : o + m < 256 := by
    have h2' : 2 ^ (8 - bitSize Fl) ≤ 256 :=
      Nat.le_trans (Nat.pow_le_pow_right (by decide) (Nat.sub_le _ _)) (by decide)
    have h3 := Nat.div_add_mod m (2 ^ (8 - bitSize Fl))
    rw [hm0, Nat.add_zero] at h3
    have h5 : 2 ^ (8 - bitSize Fl) * (256 / 2 ^ (8 - bitSize Fl)) = 256 := by
      have : (2 : Nat) ^ (8 - bitSize Fl) ∣ 2 ^ 8 := Nat.pow_dvd_pow 2 (Nat.sub_le _ _)
      exact Nat.mul_div_cancel' this
    have h4 : m / 2 ^ (8 - bitSize Fl) < 256 / 2 ^ (8 - bitSize Fl) ∨
        256 / 2 ^ (8 - bitSize Fl) ≤ m / 2 ^ (8 - bitSize Fl) := by omega
    rcases h4 with h4 | h4
    · have := Nat.mul_le_mul_left (2 ^ (8 - bitSize Fl)) (Nat.succ_le_of_lt h4)
      rw [Nat.mul_succ] at this
      omega
    · have := Nat.mul_le_mul_left (2 ^ (8 - bitSize Fl)) h4
      omega
  have hxd := Nat.div_add_mod x.val (256 ^ (S - 1))
  rw [ho] at hxd
  have hV : x.val + 256 ^ (S - 1) * m = x.val % 256 ^ (S - 1) + 256 ^ (S - 1) * (o + m) := by
    rw [Nat.mul_add]; omega
  refine ⟨?_, ?_, ho2⟩
  · rw [hV, show S = (S - 1) + 1 by omega, toB_add, Nat.add_sub_cancel]
    congr 1
    · rw [← toB_mod (S - 1) x.val, ← toB_mod (S - 1) (x.val % 256 ^ (S - 1) + 256 ^ (S - 1) * (o + m)),
        Nat.add_mul_mod_self_left, Nat.mod_mod]
    · rw [Nat.add_mul_div_left _ _ (Nat.pow_pos (by decide)),
        Nat.div_eq_of_lt (Nat.mod_lt _ (Nat.pow_pos (by decide))), Nat.zero_add]
      simp [toB, Nat.mod_eq_of_lt hom]
  · rw [hV]
    have hr := Nat.mod_lt x.val (Nat.pow_pos (n := S - 1) (show 0 < 256 by decide))
    calc x.val % 256 ^ (S - 1) + 256 ^ (S - 1) * (o + m)
        < 256 ^ (S - 1) * (o + m + 1) := by
          rw [Nat.mul_add (256 ^ (S - 1)) (o + m) 1, Nat.mul_one]; omega
      _ ≤ 256 ^ (S - 1) * 256 := Nat.mul_le_mul_left _ (by omega)
      _ = 256 ^ S := by rw [← Nat.pow_succ]; congr 1; omega


theorem slice_take (init : List (List Nat)) (a M8 : List Nat) (lst n : Nat) (hil : init.length = n)
    (hfl : init.flatten.length = 8 * n) (hM : M8.length = 8) :
    List.take ((n + 1) * 8) (SerBuf.setLastNPlus1 (n + 1) ⟨init ++ [a], lst⟩ (M8 ++ [0])).asSlice =
      init.flatten ++ M8 := by
  subst hil
  unfold SerBuf.setLastNPlus1 SerBuf.asSlice
  simp only [Nat.add_sub_cancel]
  rw [List.take_left' hM, List.set_append_right _ _ (Nat.le_refl _), Nat.sub_self, List.set_cons_zero,
    List.flatten_append]
  simp only [List.flatten_cons, List.flatten_nil, List.append_nil]
  rw [List.take_left' (by rw [List.length_append, hfl, hM]; omega)]

theorem fpFrb_RT {c : FpCfg} (h : WFc c) {Fl : Type} [Flags Fl] (hF : FlagsOK Fl) (x : Fp c.p)
    (hx : x.val < c.p) (hNb : 8 * c.N + 1 < 2 ^ 64) (fl : Fl) (bs : List Nat)
    (hs : fpSerFlags c Fl x fl = .ok bs) :
    fpFromRandomBytesFlags c Fl bs = .ok (some (x, fl)) := by
  have hf := hF.bits_le
  obtain ⟨h1, h2⟩ := h.size_range Fl hf
  have hN := h.N_pos
  obtain ⟨hbs, hVlt, hol⟩ := fpSer_value h hF x hx fl bs hs
  have hm := hF.mask_lt fl
  have hm0 := hF.mask_top fl
  have hfrom := hF.from_or fl 0 (Nat.two_pow_pos _)
  rw [Nat.or_zero] at hfrom
  have hbits_gt := h.bits_gt
  have hbits_le := h.bits_le
  have hxb : x.val < 2 ^ c.bits := Nat.lt_trans hx h.p_lt_bits
  -- the empty-flag serialisation, for the final `deserialize_compressed`
  obtain ⟨h1e, h2e⟩ := h.size_range EmptyFlags (by decide)
  have hse := fpSer_char h EmptyFlags (by decide) x .mk
  obtain ⟨hbs0, -, -⟩ := fpSer_value h emptyFlagsOK x hx .mk _ hse
  have hS0 : fpSizeFlags c EmptyFlags ≤ 8 * c.N := by
    unfold fpSizeFlags bufferByteSize; show (c.bits + 0 + 7) / 8 ≤ 8 * c.N; omega
  have hSdef : fpSizeFlags c Fl = (c.bits + bitSize Fl + 7) / 8 := rfl
  unfold fpFromRandomBytesFlags
  rw [if_neg (by omega)]
  obtain ⟨p, N⟩ := c
  obtain ⟨n, rfl⟩ : ∃ n, N = n + 1 := ⟨N - 1, by simp at hN; omega⟩
  simp only [Nat.add_sub_cancel] at *
  generalize hS : fpSizeFlags ⟨p, n + 1⟩ Fl = S at *
  generalize hS0' : fpSizeFlags ⟨p, n + 1⟩ EmptyFlags = S0 at *
  generalize hbts : FpCfg.bits ⟨p, n + 1⟩ = bits at *
  generalize hmk : Flags.u8Bitmask fl = m at *
  set V := x.val + 256 ^ (S - 1) * m with hVdef
  obtain ⟨init, hil, hi8, hifl, hcopy⟩ := copyU8_toB n S V h1 h2 hVlt
  rw [hbs, hcopy]
  have hse' : fpSerFlags ⟨p, n + 1⟩ EmptyFlags x .mk = .ok (toB S0 x.val) := by
    rw [hse, hbs0]
    show Res.ok (toB S0 (x.val + 256 ^ (S0 - 1) * 0)) = _
    rw [Nat.mul_zero, Nat.add_zero]
  have hlast : SerBuf.lastNPlus1 (n + 1) ⟨init ++ [toB 8 (V / 256 ^ (8 * n))], V / 256 ^ (8 * (n + 1)) % 256⟩ =
      .ok (toB 9 (V / 256 ^ (8 * n))) := by
    unfold SerBuf.lastNPlus1
    simp only [Nat.add_sub_cancel, SerBuf.getElem?_init_last init _ n hil, Nat.add_one_ne_zero, if_false]
    rw [show 9 = 8 + 1 by rfl, toB_add, Nat.div_div_eq_div_mul, ← Nat.pow_add,
      show 8 * n + 8 = 8 * (n + 1) by omega]
    rfl
  simp only [hlast]
  have hbb : bufferByteSize (bits + bitSize Fl) = S := by rw [hSdef]; rfl
  have hw1 : wsub S 1 = S - 1 := wsub_eq S 1 (by omega) (by omega)
  have hw2 : wsub (64 * (n + 1)) bits % 2 ^ 32 = 64 * (n + 1) - bits := by
    have e : wsub (64 * (n + 1)) bits = 64 * (n + 1) - bits :=
      wsub_eq (64 * (n + 1)) bits hbits_le (by omega)
    rw [e]; exact Nat.mod_eq_of_lt (by omega)
  rw [hbb, hw1, hw2, if_neg (show ¬ (64 * (n + 1) - bits ≥ 64) by omega),
    shr_mask (64 * (n + 1) - bits) (by omega), le8_eq_toB, maskLast_eq]
  obtain ⟨e, he1, he2⟩ : ∃ e, 64 - (64 * (n + 1) - bits) = e ∧ bits = 64 * n + e := ⟨bits - 64 * n, by omega, by omega⟩
  rw [he1]
  have hzip : List.zipWith (fun x1 x2 => x1 &&& x2) (toB 9 (V / 256 ^ (8 * n))) (toB 8 (2 ^ e - 1) ++ [0]) =
      toB 8 (V / 256 ^ (8 * n) % 2 ^ e) ++ [0] := by
    rw [show 9 = 8 + 1 by rfl, toB_add, List.zipWith_append (by simp [toB_length]), ← toB_and,
      Nat.and_two_pow_sub_one_eq_mod]
    simp [toB]
  simp only [hzip, toB_length, List.length_append, List.length_cons, List.length_nil]
  -- (A) the bytes handed to `deserialize_compressed`
  have hk : 8 * (S - 1) + (8 - bitSize Fl) ≥ bits := by omega
  have hdvd : 2 ^ bits ∣ 256 ^ (S - 1) * m := by
    have h3 := Nat.div_add_mod m (2 ^ (8 - bitSize Fl))
    rw [hm0, Nat.add_zero] at h3
    rw [← h3, ← Nat.mul_assoc, show (256 : Nat) = 2 ^ 8 by rfl, ← Nat.pow_mul, ← Nat.pow_add]
    exact Dvd.dvd.mul_right (Nat.pow_dvd_pow 2 hk) _
  have hVmod : V % 2 ^ bits = x.val := by
    obtain ⟨q, hq⟩ := hdvd
    rw [hVdef, hq, Nat.add_mul_mod_self_left, Nat.mod_eq_of_lt hxb]
  have hlimb : V / 256 ^ (8 * n) % 2 ^ e = x.val / 256 ^ (8 * n) := by
    rw [show (256 : Nat) = 2 ^ 8 by rfl, ← Nat.pow_mul, show 8 * (8 * n) = 64 * n by omega,
      ← Nat.mod_mul_right_div_self, ← Nat.pow_add, ← he2, hVmod]
  have hlow : toB (8 * n) V = toB (8 * n) x.val := by
    have e1 : 256 ^ (S - 1) = 256 ^ (8 * n) * 256 ^ (S - 1 - 8 * n) := by
      rw [← Nat.pow_add, show 8 * n + (S - 1 - 8 * n) = S - 1 by omega]
    have e2 : V % 256 ^ (8 * n) = x.val % 256 ^ (8 * n) := by
      rw [hVdef, e1, Nat.mul_assoc, Nat.add_mul_mod_self_left]
    rw [← toB_mod (8 * n) V, ← toB_mod (8 * n) x.val, e2]
  have hslice : List.take ((n + 1) * 8)
      (SerBuf.setLastNPlus1 (n + 1)
        { buffers := init ++ [toB 8 (V / 256 ^ (8 * n))], last := V / 256 ^ (8 * (n + 1)) % 256 }
        (toB 8 (V / 256 ^ (8 * n) % 2 ^ e) ++ [0])).asSlice =
      toB S0 x.val ++ toB (8 * (n + 1) - S0) (x.val / 256 ^ S0) := by
    rw [slice_take init _ _ _ n hil (by rw [hifl, toB_length]) (toB_length _ _), hifl, hlow, hlimb,
      ← toB_add, ← toB_add, show S0 + (8 * (n + 1) - S0) = 8 * n + 8 by omega]
  rw [hslice]
  have hde := fpDe_RT h x hx (toB S0 x.val) hse' .yes .yes (toB (8 * (n + 1) - S0) (x.val / 256 ^ S0)) 0
  unfold runM
  rw [hde]
  simp only
  -- (C) the flags
  rw [if_pos (by omega), Nat.sub_zero, getD_toB _ _ _ (by omega), Nat.div_div_eq_div_mul, ← Nat.pow_add,
    show 8 * n + (S - 1 - 8 * n) = S - 1 by omega, hVdef, Nat.add_mul_div_left _ _ (Nat.pow_pos (by decide))]
  have hom : x.val / 256 ^ (S - 1) + m < 256 := top_plus_mask_lt (bitSize Fl) _ m hol hm hm0
  rw [Nat.mod_eq_of_lt hom, flag_byte_and (bitSize Fl) _ m hf hol hm hm0, hfrom]
  rfl

/-- the contract `FrbRT` holds for the prime-field dictionaries of the model (any `usize`-sized limb count) -/
theorem fpFrbRT {c : FpCfg} (h : WFc c) (hNb : 8 * c.N + 1 < 2 ^ 64) :
    FrbRT (fpCodec c) (fun x => x.val < c.p) (fpFromRandomBytesFlags c) :=
  fun _ _ hF x fl bs hx hs => fpFrb_RT h hF x hx hNb fl bs hs

theorem fpFrbRTV {c : FpCfg} (h : WFc c) (hNb : 8 * c.N + 1 < 2 ^ 64) :
    FrbRT (fpCodecV c) (fun x => x.val < c.p) (fpFromRandomBytesFlags c) :=
  fun _ _ hF x fl bs hx hs => fpFrb_RT h hF x hx hNb fl bs hs

end Ark.Bytes

namespace Ark.Bytes

/-- `Fp2::from_random_bytes_with_flags` (quadratic template: the input is split at `len / 2`) inverts
    `serialize_with_flags`: the `EmptyFlags` half and the flagged half differ by at most one byte -/
theorem fp2Frb_RT {c : FpCfg} (h : WFc c) (hNb : 8 * c.N + 1 < 2 ^ 64) (β : Nat) {Fl : Type} [Flags Fl]
    (hF : FlagsOK Fl) (x : Fp2 c.p β) (hx : x.c0.val < c.p ∧ x.c1.val < c.p) (fl : Fl) (bs : List Nat)
    (hs : (fp2Codec c β).serFlags Fl x fl = .ok bs) :
    fp2FromRandomBytesFlags c β Fl bs = .ok (some (x, fl)) := by
  have hf := hF.bits_le
  change extSerFlags c Fl (.quad (.base x.c0) (.base x.c1)) fl = .ok bs at hs
  simp only [extSerFlags] at hs
  obtain ⟨a, ha, hs⟩ := Res_bind_ok_inv hs
  obtain ⟨b, hb, hs⟩ := Res_bind_ok_inv hs
  cases hs
  have hla : a.length = fpSizeFlags c EmptyFlags := fpSer_size h ha
  have hlb : b.length = fpSizeFlags c Fl := fpSer_size h hb
  have hsplit : (a ++ b).length / 2 = a.length := by
    rw [List.length_append, hla, hlb]
    unfold fpSizeFlags bufferByteSize
    show (((c.bits + 0 + 7) / 8) + ((c.bits + bitSize Fl + 7) / 8)) / 2 = (c.bits + 0 + 7) / 8
    omega
  have h0 := fpFrb_RT h emptyFlagsOK x.c0 hx.1 hNb .mk a ha
  have h1 := fpFrb_RT h hF x.c1 hx.2 hNb fl b hb
  unfold fp2FromRandomBytesFlags
  have hext : extFromRandomBytesFlags c Fl (.quad .base) (a ++ b) =
      .ok (some (.quad (.base x.c0) (.base x.c1), fl)) := by
    simp only [extFromRandomBytesFlags, hsplit, List.take_left', List.drop_left', h0, h1]
  rw [hext]

theorem fp2FrbRT {c : FpCfg} (h : WFc c) (hNb : 8 * c.N + 1 < 2 ^ 64) (β : Nat) :
    FrbRT (fp2Codec c β) (fun x => x.c0.val < c.p ∧ x.c1.val < c.p) (fp2FromRandomBytesFlags c β) :=
  fun _ _ hF x fl bs hx hs => fp2Frb_RT h hNb β hF x hx fl bs hs

theorem fp2FrbRTV {c : FpCfg} (h : WFc c) (hNb : 8 * c.N + 1 < 2 ^ 64) (β : Nat) :
    FrbRT (fp2CodecV c β) (fun x => x.c0.val < c.p ∧ x.c1.val < c.p) (fp2FromRandomBytesFlags c β) :=
  fun _ _ hF x fl bs hx hs => fp2Frb_RT h hNb β hF x hx fl bs hs

end Ark.Bytes
