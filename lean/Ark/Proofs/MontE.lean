import Ark.Proofs.MontDefs
import Mathlib.Tactic.Ring
import Mathlib.Tactic.Linarith
import Mathlib.Data.Nat.ModEq
/-
  Helper lemmas for C01 (part E): the configuration constants computed by `mkCfg`
  (`INV`, `R`, `R2`, `MODULUS_HAS_SPARE_BIT`, `CAN_USE_NO_CARRY_MUL_OPT`) are what they
  should be, for every limb count `n ≥ 1` and every odd modulus `1 < pv < B^n`.
-/
namespace Ark.Mont
open Ark

/-! ### 1. `INV` -/

theorem invLoop_lt (m0 : Nat) : ∀ (k inv : Nat), inv < B → invLoop m0 k inv < B
  | 0, inv, h => by simpa [invLoop] using h
  | k + 1, inv, _ => by
    rw [invLoop]; exact invLoop_lt m0 k _ (Nat.mod_lt _ B_pos)

/-- `k` rounds of `inv ← inv² · m0` compute `inv^(2^k) · m0^(2^k - 1)` modulo `2^64` -/
theorem invLoop_modEq (m0 : Nat) :
    ∀ (k inv : Nat), invLoop m0 k inv ≡ inv ^ (2 ^ k) * m0 ^ (2 ^ k - 1) [MOD B]
  | 0, inv => by simp [invLoop]; exact Nat.ModEq.refl _
  | k + 1, inv => by
    rw [invLoop]
    refine (invLoop_modEq m0 k (((inv * inv) % B * m0) % B)).trans ?_
    have h1 : ((inv * inv) % B * m0) % B ≡ inv * inv * m0 [MOD B] :=
      (Nat.mod_modEq _ _).trans ((Nat.mod_modEq _ _).mul_right _)
    refine ((h1.pow (2 ^ k)).mul_right (m0 ^ (2 ^ k - 1))).trans ?_
    have hk : 0 < 2 ^ k := Nat.two_pow_pos k
    have e1 : 2 ^ (k + 1) = 2 * 2 ^ k := by rw [pow_succ]; ring
    have e2 : 2 ^ (k + 1) - 1 = 2 ^ k + (2 ^ k - 1) := by omega
    have : (inv * inv * m0) ^ 2 ^ k * m0 ^ (2 ^ k - 1)
        = inv ^ 2 ^ (k + 1) * m0 ^ (2 ^ (k + 1) - 1) := by
      rw [e2, e1, pow_add m0, pow_mul, mul_pow, mul_assoc, pow_two]
    rw [this]

/-- `invLoop m0 k 1 = m0^(2^k - 1) mod 2^64` -/
theorem invLoop_one (m0 k : Nat) : invLoop m0 k 1 = m0 ^ (2 ^ k - 1) % B := by
  have h := invLoop_modEq m0 k 1
  rw [one_pow, one_mul] at h
  have hlt := invLoop_lt m0 k 1 (by unfold B; norm_num)
  unfold Nat.ModEq at h
  rw [Nat.mod_eq_of_lt hlt] at h
  exact h

theorem odd_sq_eq (x : Nat) (hx : x % 2 = 1) : ∃ t, x ^ 2 = 1 + 8 * t := by
  refine ⟨x ^ 2 / 8, ?_⟩
  have h8 : x ^ 2 % 8 = 1 := by
    have : x % 8 = 1 ∨ x % 8 = 3 ∨ x % 8 = 5 ∨ x % 8 = 7 := by omega
    rcases this with h | h | h | h <;> rw [Nat.pow_mod, h]
  omega

/-- for odd `x`: `x^(2^(j+1)) ≡ 1 (mod 2^(j+3))` -/
theorem odd_pow_two_pow (x : Nat) (hx : x % 2 = 1) :
    ∀ j : Nat, ∃ t, x ^ (2 ^ (j + 1)) = 1 + 2 ^ (j + 3) * t
  | 0 => by simpa using odd_sq_eq x hx
  | j + 1 => by
    obtain ⟨t, ht⟩ := odd_pow_two_pow x hx j
    refine ⟨t + 2 ^ (j + 2) * t ^ 2, ?_⟩
    rw [pow_succ 2 (j + 1), pow_mul, ht]; ring

/-- the multiplicative order of an odd number modulo `2^64` divides `2^63` (even `2^62`) -/
theorem odd_pow_modEq_one (x : Nat) (hx : x % 2 = 1) : x ^ (2 ^ 63) ≡ 1 [MOD B] := by
  obtain ⟨t, ht⟩ := odd_pow_two_pow x hx 61
  have e : x ^ (2 ^ 63) = 1 + B * (2 * t + B * t ^ 2) := by
    have : (2 : Nat) ^ 63 = 2 ^ (61 + 1) * 2 := by norm_num
    rw [this, pow_mul, ht]; unfold B; ring
  rw [e]
  unfold Nat.ModEq
  rw [Nat.add_mul_mod_self_left]

theorem computeInv_lt (m0 : Nat) : computeInv m0 < B := Nat.mod_lt _ B_pos

/-- `INV · m0 ≡ -1 (mod 2^64)` for every odd `m0` -/
theorem computeInv_spec (m0 : Nat) (hodd : m0 % 2 = 1) : (computeInv m0 * m0 + 1) % B = 0 := by
  unfold computeInv
  have hlt := invLoop_lt m0 63 1 (by unfold B; norm_num)
  have h : invLoop m0 63 1 ≡ m0 ^ (2 ^ 63 - 1) [MOD B] := by
    rw [invLoop_one]; exact Nat.mod_modEq _ _
  generalize invLoop m0 63 1 = i at hlt h
  -- i * m0 ≡ 1
  have h1 : i * m0 ≡ 1 [MOD B] := by
    refine (h.mul_right m0).trans ?_
    have : m0 ^ (2 ^ 63 - 1) * m0 = m0 ^ (2 ^ 63) := by
      have e : 2 ^ 63 - 1 + 1 = 2 ^ 63 := by norm_num
      rw [← pow_succ, e]
    rw [this]; exact odd_pow_modEq_one m0 hodd
  have h2 : (B - i) % B * m0 + 1 ≡ (B - i) * m0 + i * m0 [MOD B] :=
    ((Nat.mod_modEq _ _).mul_right m0).add h1.symm
  have h3 : (B - i) * m0 + i * m0 = B * m0 := by
    rw [← Nat.add_mul]; congr 1; omega
  rw [h3] at h2
  unfold Nat.ModEq at h2
  rw [h2, Nat.mul_mod_right]

/-! ### 2. `const_modulo!`, `R`, `R2` -/

/-- value of a big-endian (most-significant first) bit list -/
def bitsValueBE : List Bool → Nat
  | [] => 0
  | b :: bs => (if b then 1 else 0) * 2 ^ bs.length + bitsValueBE bs

theorem bitsValueBE_replicate_false (k : Nat) : bitsValueBE (List.replicate k false) = 0 := by
  induction k with
  | zero => rfl
  | succ k ih => simp [List.replicate_succ, bitsValueBE, ih]

theorem bitsValueBE_one_zeros (k : Nat) :
    bitsValueBE (true :: List.replicate k false) = 2 ^ k := by
  simp [bitsValueBE, bitsValueBE_replicate_false]

private theorem mod_lt_two_mul {a m : Nat} (h : a < 2 * m) :
    a % m = if a < m then a else a - m := by
  split
  · exact Nat.mod_eq_of_lt ‹_›
  · rw [Nat.mod_eq_sub_mod (by omega), Nat.mod_eq_of_lt (by omega)]

/-- one round of the long division: shift in one bit, subtract the divisor once if needed
    (the explicit carry covers `2·rem ≥ 2^(64N)`, i.e. moduli without a spare bit) -/
theorem constModulo_step (w p rem b : Nat) (hp : p < w) (hrem : rem < p) (hb : b ≤ 1) :
    (if (decide (2 * rem % w + b ≥ p) || decide (2 * rem ≥ w)) = true
      then (w + (2 * rem % w + b) - p) % w else 2 * rem % w + b) = (2 * rem + b) % p := by
  rw [mod_lt_two_mul (a := 2 * rem + b) (by omega)]
  have hd : 2 * rem % w = if 2 * rem < w then 2 * rem else 2 * rem - w :=
    mod_lt_two_mul (by omega)
  by_cases hc : 2 * rem < w
  · rw [if_pos hc] at hd
    rw [hd]
    by_cases hge : 2 * rem + b < p
    · have : (decide (2 * rem + b ≥ p) || decide (2 * rem ≥ w)) = false := by
        simp; omega
      rw [this, if_pos hge]; simp
    · have : (decide (2 * rem + b ≥ p) || decide (2 * rem ≥ w)) = true := by
        simp; omega
      rw [this, if_neg hge, if_pos rfl]
      have e : w + (2 * rem + b) - p = (2 * rem + b - p) + w := by omega
      rw [e, Nat.add_mod_right, Nat.mod_eq_of_lt (by omega)]
  · rw [if_neg hc] at hd
    rw [hd]
    have : (decide (2 * rem - w + b ≥ p) || decide (2 * rem ≥ w)) = true := by
      simp; omega
    rw [this, if_pos rfl, if_neg (by omega)]
    have e : w + (2 * rem - w + b) - p = 2 * rem + b - p := by omega
    rw [e, Nat.mod_eq_of_lt (by omega)]

/-- `const_modulo!` computes the remainder of the dividend (given as its big-endian bits,
    prefixed by the current remainder) modulo `p` -/
theorem constModuloLoop_spec (w p : Nat) (hp : p < w) :
    ∀ (bits : List Bool) (rem : Nat), rem < p →
      constModuloLoop w p bits rem = (rem * 2 ^ bits.length + bitsValueBE bits) % p
  | [], rem, hrem => by
    simp [constModuloLoop, bitsValueBE, Nat.mod_eq_of_lt hrem]
  | bit :: bits, rem, hrem => by
    have hp0 : 0 < p := by omega
    rw [constModuloLoop]
    have hb : (if bit then 1 else 0 : Nat) ≤ 1 := by split <;> omega
    have hstep := constModulo_step w p rem (if bit then 1 else 0) hp hrem hb
    rw [hstep, constModuloLoop_spec w p hp bits _ (Nat.mod_lt _ hp0)]
    simp only [bitsValueBE, List.length_cons]
    generalize (if bit then 1 else 0 : Nat) = b
    have e : rem * 2 ^ (bits.length + 1) + (b * 2 ^ bits.length + bitsValueBE bits)
        = (2 * rem + b) * 2 ^ bits.length + bitsValueBE bits := by ring
    rw [e]
    exact ((Nat.mod_modEq _ _).mul_right _).add_right _

/-- `R = 2^(64N) mod p` -/
theorem montgomeryR_eq (n pv : Nat) (h0 : 0 < pv) (hlt : pv < B ^ n) :
    montgomeryR n pv = B ^ n % pv := by
  unfold montgomeryR
  rw [constModuloLoop_spec _ _ hlt _ _ h0, bitsValueBE_one_zeros, Nat.zero_mul, Nat.zero_add]
  congr 1
  unfold B; rw [← pow_mul]

/-- `R2 = 2^(128N) mod p` -/
theorem montgomeryR2_eq (n pv : Nat) (h0 : 0 < pv) (hlt : pv < B ^ n) :
    montgomeryR2 n pv = (B ^ n * B ^ n) % pv := by
  unfold montgomeryR2
  rw [constModuloLoop_spec _ _ hlt _ _ h0, bitsValueBE_one_zeros, Nat.zero_mul, Nat.zero_add]
  congr 1
  unfold B; rw [← pow_mul, ← pow_add]; congr 1; omega

/-! ### 3. `mkCfg` -/

/-- the top limb of `toLimbs (n+1) v` -/
theorem toLimbs_getLastD (n v : Nat) :
    (toLimbs (n + 1) v).getLastD 0 = v / B ^ n % B := by
  induction n generalizing v with
  | zero => simp [toLimbs]
  | succ n ih =>
    have h := ih (v / B)
    simp only [toLimbs, List.getLastD_cons] at h ⊢
    rw [h, Nat.div_div_eq_div_mul, pow_succ, Nat.mul_comm]

/-- the top limb of the modulus is `pv / B^(n-1)` -/
theorem top_limb (n pv : Nat) (hn : 0 < n) (hlt : pv < B ^ n) :
    (toLimbs n pv).getLastD 0 = pv / B ^ (n - 1) := by
  obtain ⟨m, rfl⟩ : ∃ m, n = m + 1 := ⟨n - 1, by omega⟩
  rw [toLimbs_getLastD, Nat.add_sub_cancel]
  apply Nat.mod_eq_of_lt
  rw [Nat.div_lt_iff_lt_mul (Nat.pow_pos B_pos)]
  rwa [pow_succ, Nat.mul_comm] at hlt

/-- `MODULUS_HAS_SPARE_BIT`: the test `top >> 63 == 0` says `2·p < 2^(64N)` -/
theorem spare_test_iff (n pv : Nat) (hn : 0 < n) (hlt : pv < B ^ n) :
    ((toLimbs n pv).getLastD 0 / 2 ^ 63 == 0) = true ↔ 2 * pv < B ^ n := by
  rw [top_limb n pv hn hlt]
  obtain ⟨m, rfl⟩ : ∃ m, n = m + 1 := ⟨n - 1, by omega⟩
  rw [Nat.add_sub_cancel, beq_iff_eq]
  have hpos : 0 < B ^ m := Nat.pow_pos B_pos
  have h1 : pv / B ^ m / 2 ^ 63 = 0 ↔ pv / B ^ m < 2 ^ 63 := by
    generalize pv / B ^ m = t
    omega
  have hs : B ^ (m + 1) = B ^ m * B := pow_succ B m
  rw [h1, Nat.div_lt_iff_lt_mul hpos, hs]
  have hB : B = 2 * 2 ^ 63 := by unfold B; norm_num
  generalize B ^ m = X
  rw [hB]
  constructor <;> intro h <;> nlinarith

theorem mkCfg_noCarry_spare (derived : Bool) (n pv : Nat) :
    (mkCfg derived n pv).noCarry = true → (mkCfg derived n pv).spare = true := by
  unfold mkCfg
  simp only
  generalize (toLimbs n pv).getLastD 0 = top
  cases derived
  · simp only [Bool.false_eq_true, if_false, Bool.and_eq_true]
    exact fun h => h.1
  · simp only [if_true, Bool.and_eq_true, decide_eq_true_eq, beq_iff_eq]
    intro h
    have := h.1
    omega

/-- every field of `mkCfg derived n pv` is what it should be -/
theorem mkCfg_ok (derived : Bool) (n pv : Nat) (hn : 0 < n) (hodd : pv % 2 = 1)
    (h1 : 1 < pv) (hlt : pv < B ^ n) : CfgOK (mkCfg derived n pv) pv := by
  have h0 : 0 < pv := by omega
  have hpval : value (toLimbs n pv) = pv := by
    rw [toLimbs_value, Nat.mod_eq_of_lt hlt]
  have hB2 : B % 2 = 0 := by unfold B; norm_num
  have hm0 : (pv % B) % 2 = 1 := by
    rw [Nat.mod_mod_of_dvd _ (by unfold B; norm_num : 2 ∣ B)]; exact hodd
  have hhead : (toLimbs n pv).headD 0 = pv % B := by
    rw [headD_eq _ (toLimbs_wf n pv), hpval]
  have hr_lt : B ^ n % pv < B ^ n := Nat.lt_trans (Nat.mod_lt _ h0) hlt
  have hr2_lt : (B ^ n * B ^ n) % pv < B ^ n := Nat.lt_trans (Nat.mod_lt _ h0) hlt
  exact
    { n_pos := hn
      p_len := toLimbs_length n pv
      p_wf := toLimbs_wf n pv
      p_val := hpval
      p_odd := hodd
      p_gt := h1
      inv_lt := computeInv_lt _
      inv_ok := by
        show (computeInv ((toLimbs n pv).headD 0) * (pv % B) + 1) % B = 0
        rw [hhead]; exact computeInv_spec _ hm0
      spare_iff := spare_test_iff n pv hn hlt
      noCarry_spare := mkCfg_noCarry_spare derived n pv
      r_len := toLimbs_length n _
      r_wf := toLimbs_wf n _
      r_val := by
        show value (toLimbs n (montgomeryR n pv)) = B ^ n % pv
        rw [toLimbs_value, montgomeryR_eq n pv h0 hlt, Nat.mod_eq_of_lt hr_lt]
      r2_len := toLimbs_length n _
      r2_wf := toLimbs_wf n _
      r2_val := by
        show value (toLimbs n (montgomeryR2 n pv)) = (B ^ n * B ^ n) % pv
        rw [toLimbs_value, montgomeryR2_eq n pv h0 hlt, Nat.mod_eq_of_lt hr2_lt] }

end Ark.Mont
