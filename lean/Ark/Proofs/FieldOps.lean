import Ark.Model.FieldOps
import Ark.Proofs.LimbsB
import Mathlib.Algebra.Field.Basic
import Mathlib.Tactic.Ring
import Mathlib.Tactic.FieldSimp
import Mathlib.Data.List.Forall2
import Mathlib.Data.List.Induction
/-
  Ark.Proofs.FieldOps — abstract correctness of the field-generic algorithms of
  `Ark.Model.FieldOps` (`Ops.pow`, `Ops.batchInvMul`) relative to an interpretation of the
  concrete representation type `F` into an abstract field `K`.
-/
namespace Ark

/-- An interpretation of a record of operations `o : Ops F` into a field `K`: a validity predicate
    `V` on representations, a denotation `φ`, and the facts that the operations used by `pow` and
    `batchInvMul` preserve validity and commute with `φ` on valid inputs. -/
structure Ops.Interp {F : Type} (o : Ops F) (K : Type) [Field K] where
  V : F → Prop
  φ : F → K
  one_V : V o.one
  one_φ : φ o.one = 1
  mul_V : ∀ {a b : F}, V a → V b → V (o.mul a b)
  mul_φ : ∀ {a b : F}, V a → V b → φ (o.mul a b) = φ a * φ b
  square_V : ∀ {a : F}, V a → V (o.square a)
  square_φ : ∀ {a : F}, V a → φ (o.square a) = φ a * φ a
  isZero_iff : ∀ {a : F}, V a → (o.isZero a = true ↔ φ a = 0)
  inv_some : ∀ {a : F}, V a → φ a ≠ 0 → ∃ b, o.inv a = some b ∧ V b ∧ φ b = (φ a)⁻¹

/-- the natural number denoted by a big-endian bit list (leading zeros allowed) -/
def bitsValBE (bits : List Bool) : Nat :=
  bits.foldl (fun n b => 2 * n + (if b then 1 else 0)) 0

theorem bitsToNat_eq_foldr (bs : List Bool) :
    bitsToNat bs = bs.foldr (fun b n => (if b then 1 else 0) + 2 * n) 0 := by
  induction bs with
  | nil => rfl
  | cons b bs ih => simp only [bitsToNat, List.foldr_cons, ih]

/-- `bitsValBE` is the little-endian value of the reversed list -/
theorem bitsValBE_eq_bitsToNat_reverse (bits : List Bool) :
    bitsValBE bits = bitsToNat bits.reverse := by
  rw [bitsToNat_eq_foldr, List.foldr_reverse]
  unfold bitsValBE
  congr 1
  funext n b
  omega

theorem bitsValBE_toBitsBE (e : List Nat) (he : WF e) : bitsValBE (toBitsBE e) = value e := by
  rw [bitsValBE_eq_bitsToNat_reverse, toBitsBE, List.reverse_reverse, bitsToNat_toBitsLE e he]

theorem bitsValBE_dropWhile (bits : List Bool) :
    bitsValBE (bits.dropWhile (· == false)) = bitsValBE bits := by
  induction bits with
  | nil => rfl
  | cons b bs ih =>
    cases b
    · simp only [List.dropWhile_cons, beq_self_eq_true, if_true]
      rw [ih]; simp [bitsValBE]
    · simp

namespace Ops
variable {F : Type} {o : Ops F} {K : Type} [Field K]

/-! ## pow -/

theorem pow_fold (I : o.Interp K) {a : F} (ha : I.V a) :
    ∀ (bits : List Bool) (res : F) (n : Nat), I.V res → I.φ res = I.φ a ^ n →
      I.V (bits.foldl (fun res bit => let s := o.square res; if bit then o.mul s a else s) res) ∧
      I.φ (bits.foldl (fun res bit => let s := o.square res; if bit then o.mul s a else s) res)
        = I.φ a ^ (bits.foldl (fun n b => 2 * n + (if b then 1 else 0)) n) := by
  intro bits
  induction bits with
  | nil => intro res n hV hφ; exact ⟨hV, hφ⟩
  | cons b bs ih =>
    intro res n hV hφ
    simp only [List.foldl_cons]
    apply ih
    · cases b
      · simpa using I.square_V hV
      · simpa using I.mul_V (I.square_V hV) ha
    · cases b
      · simp only [Bool.false_eq_true, if_false, Nat.add_zero]
        rw [I.square_φ hV, hφ]; ring
      · simp only [if_true]
        rw [I.mul_φ (I.square_V hV) ha, I.square_φ hV, hφ]; ring

/-- `Field::pow` is exponentiation by the number denoted by the big-endian bit list -/
theorem pow_correct (I : o.Interp K) {a : F} (ha : I.V a) (bits : List Bool) :
    I.V (o.pow a bits) ∧ I.φ (o.pow a bits) = I.φ a ^ bitsValBE bits := by
  have h := pow_fold I ha (bits.dropWhile (· == false)) o.one 0 I.one_V (by rw [I.one_φ, pow_zero])
  rw [← bitsValBE_dropWhile bits]
  exact h

/-- the form used by the drivers: the exponent is a limb list -/
theorem pow_limbs_correct (I : o.Interp K) {a : F} (ha : I.V a) (e : List Nat) (he : WF e) :
    I.V (o.pow a (toBitsBE e)) ∧ I.φ (o.pow a (toBitsBE e)) = I.φ a ^ value e := by
  rw [← bitsValBE_toBitsBE e he]; exact pow_correct I ha _

/-! ## batch inversion -/

theorem prefixProds_nil (t : F) : o.prefixProds [] t = [] := rfl

theorem prefixProds_cons_zero {f : F} (fs : List F) (t : F) (h : o.isZero f = true) :
    o.prefixProds (f :: fs) t = o.prefixProds fs t := by
  simp [prefixProds, h]

theorem prefixProds_cons_nz {f : F} (fs : List F) (t : F) (h : ¬ o.isZero f = true) :
    o.prefixProds (f :: fs) t = o.mul t f :: o.prefixProds fs (o.mul t f) := by
  simp [prefixProds, h]

theorem prefixProds_append (xs ys : List F) (t : F) :
    o.prefixProds (xs ++ ys) t =
      o.prefixProds xs t ++ o.prefixProds ys ((o.prefixProds xs t).getLast?.getD t) := by
  induction xs generalizing t with
  | nil => simp [prefixProds_nil]
  | cons f fs ih =>
    by_cases h : o.isZero f = true
    · simp only [List.cons_append, prefixProds_cons_zero _ _ h, ih]
    · simp only [List.cons_append, prefixProds_cons_nz _ _ h, ih, List.cons_append]
      congr 2
      cases hP : o.prefixProds fs (o.mul t f) with
      | nil => simp
      | cons p ps => simp [List.getLast?_cons]

/-- all running products are valid and non-zero -/
theorem prefixProds_V (I : o.Interp K) (v : List F) (hv : ∀ f ∈ v, I.V f) :
    ∀ t, I.V t → I.φ t ≠ 0 → ∀ p ∈ o.prefixProds v t, I.V p ∧ I.φ p ≠ 0 := by
  induction v with
  | nil => intro t _ _ p hp; simp [prefixProds_nil] at hp
  | cons f fs ih =>
    intro t ht ht0 p hp
    have hf : I.V f := hv f (by simp)
    have hfs : ∀ g ∈ fs, I.V g := fun g hg => hv g (by simp [hg])
    by_cases h : o.isZero f = true
    · rw [prefixProds_cons_zero _ _ h] at hp
      exact ih hfs t ht ht0 p hp
    · rw [prefixProds_cons_nz _ _ h] at hp
      have hf0 : I.φ f ≠ 0 := fun e => h ((I.isZero_iff hf).2 e)
      have hm : I.V (o.mul t f) := I.mul_V ht hf
      have hm0 : I.φ (o.mul t f) ≠ 0 := by rw [I.mul_φ ht hf]; exact mul_ne_zero ht0 hf0
      rcases List.mem_cons.1 hp with rfl | hp
      · exact ⟨hm, hm0⟩
      · exact ih hfs _ hm hm0 p hp

theorem last_V (I : o.Interp K) (v : List F) (hv : ∀ f ∈ v, I.V f) (t : F) (ht : I.V t)
    (ht0 : I.φ t ≠ 0) :
    I.V ((o.prefixProds v t).getLast?.getD t) ∧ I.φ ((o.prefixProds v t).getLast?.getD t) ≠ 0 := by
  cases h : (o.prefixProds v t).getLast? with
  | none => exact ⟨ht, ht0⟩
  | some p => exact prefixProds_V I v hv t ht ht0 p (List.mem_of_getLast? h)

/-- the invariant linking the reversed vector `fs`, the list `ss` of shifted running products and
    the denotation `t` of the running inverse: at each non-zero entry `f` the head `s` of `ss`
    satisfies `t * φ s * φ f = c` -/
def BackInv (I : o.Interp K) (c : K) : List F → List F → K → Prop
  | [], _, _ => True
  | f :: fs, ss, t =>
    (I.φ f = 0 → BackInv I c fs ss t) ∧
    (I.φ f ≠ 0 → ∃ s ss', ss = s :: ss' ∧ I.V s ∧ t * I.φ s * I.φ f = c ∧
        BackInv I c fs ss' (t * I.φ f))

theorem BackInv_append (I : o.Interp K) (c : K) (e : List F) :
    ∀ (fs ss : List F) (t : K), BackInv I c fs ss t → BackInv I c fs (ss ++ e) t := by
  intro fs
  induction fs with
  | nil => intro ss t _; trivial
  | cons f fs ih =>
    intro ss t h
    refine ⟨fun h0 => ih _ _ (h.1 h0), fun h0 => ?_⟩
    obtain ⟨s, ss', rfl, hs, he, hr⟩ := h.2 h0
    exact ⟨s, ss' ++ e, rfl, hs, he, ih _ _ hr⟩

/-- the pointwise postcondition of `serial_batch_inversion_and_mul` -/
def BatchRel (I : o.Interp K) (c : K) (f r : F) : Prop :=
  I.V r ∧ (I.φ f = 0 → r = f) ∧ (I.φ f ≠ 0 → I.φ r = c * (I.φ f)⁻¹)

theorem batchBack_spec (I : o.Interp K) (c : K) :
    ∀ (fs ss : List F) (tmp : F), (∀ f ∈ fs, I.V f) → I.V tmp → BackInv I c fs ss (I.φ tmp) →
      List.Forall₂ (BatchRel I c) fs (o.batchBack fs ss tmp) := by
  intro fs
  induction fs with
  | nil => intro ss tmp _ _ _; simp [batchBack]
  | cons f fs ih =>
    intro ss tmp hv ht hI
    have hf : I.V f := hv f (by simp)
    have hfs : ∀ g ∈ fs, I.V g := fun g hg => hv g (by simp [hg])
    by_cases h : o.isZero f = true
    · have h0 : I.φ f = 0 := (I.isZero_iff hf).1 h
      have e : o.batchBack (f :: fs) ss tmp = f :: o.batchBack fs ss tmp := by
        simp [batchBack, h]
      rw [e]
      exact List.Forall₂.cons ⟨hf, fun _ => rfl, fun hn => absurd h0 hn⟩ (ih ss tmp hfs ht (hI.1 h0))
    · have h0 : I.φ f ≠ 0 := fun e => h ((I.isZero_iff hf).2 e)
      obtain ⟨s, ss', rfl, hs, he, hr⟩ := hI.2 h0
      have e : o.batchBack (f :: fs) (s :: ss') tmp =
          o.mul tmp s :: o.batchBack fs ss' (o.mul tmp f) := by
        simp [batchBack, h]
      rw [e]
      refine List.Forall₂.cons ⟨I.mul_V ht hs, fun hz => absurd hz h0, fun _ => ?_⟩ ?_
      · rw [I.mul_φ ht hs, ← he]; field_simp
      · apply ih ss' _ hfs (I.mul_V ht hf)
        rw [I.mul_φ ht hf]; exact hr

/-- the invariant holds for the products computed by the first pass (shifted by one) -/
theorem backInv_prefixProds (I : o.Interp K) (c : K) (t0 : F) (ht0 : I.V t0) (ht00 : I.φ t0 ≠ 0) :
    ∀ (v : List F), (∀ f ∈ v, I.V f) → ∀ T : K,
      T * I.φ ((o.prefixProds v t0).getLast?.getD t0) = c →
      BackInv I c v.reverse ((t0 :: o.prefixProds v t0).reverse.drop 1) T := by
  intro v
  induction v using List.reverseRecOn with
  | nil => intro _ T _; trivial
  | append_singleton fs f ih =>
    intro hv T hT
    have hf : I.V f := hv f (by simp)
    have hfs : ∀ g ∈ fs, I.V g := fun g hg => hv g (by simp [hg])
    have hl := last_V I fs hfs t0 ht0 ht00
    rw [List.reverse_append, List.reverse_singleton, List.singleton_append]
    rw [prefixProds_append] at hT ⊢
    by_cases h : o.isZero f = true
    · have h0 : I.φ f = 0 := (I.isZero_iff hf).1 h
      rw [prefixProds_cons_zero _ _ h, prefixProds_nil, List.append_nil] at hT ⊢
      exact ⟨fun _ => ih hfs T hT, fun hn => absurd h0 hn⟩
    · have h0 : I.φ f ≠ 0 := fun e => h ((I.isZero_iff hf).2 e)
      rw [prefixProds_cons_nz _ _ h, prefixProds_nil] at hT ⊢
      refine ⟨fun hz => absurd hz h0, fun _ => ?_⟩
      generalize hP : o.prefixProds fs t0 = P at hT hl ih ⊢
      have hT' : T * I.φ (o.mul (P.getLast?.getD t0) f) = c := by
        simpa [List.getLast?_append] using hT
      rw [I.mul_φ hl.1 hf] at hT'
      refine ⟨P.getLast?.getD t0, (t0 :: P).reverse.drop 1, ?_, hl.1, ?_, ?_⟩
      · rw [← List.cons_append, List.reverse_append, List.reverse_singleton, List.singleton_append,
          List.drop_one, List.tail_cons]
        cases P using List.reverseRecOn with
        | nil => simp
        | append_singleton ps p _ => simp
      · rw [← hT']; ring
      · apply ih hfs
        rw [← hT']; ring

/-- `serial_batch_inversion_and_mul` never panics and maps every non-zero entry `x` to
    `coeff / x`, leaving zero entries untouched (relational form) -/
theorem batchInvMul_rel (I : o.Interp K) (v : List F) (coeff : F) (hv : ∀ f ∈ v, I.V f)
    (hc : I.V coeff) :
    ∃ w, o.batchInvMul v coeff = some w ∧ List.Forall₂ (BatchRel I (I.φ coeff)) v w := by
  have h10 : I.φ o.one ≠ 0 := by rw [I.one_φ]; exact one_ne_zero
  have hl := last_V I v hv o.one I.one_V h10
  obtain ⟨ti, hti, htiV, htiφ⟩ := I.inv_some hl.1 hl.2
  have htmpV : I.V (o.mul ti coeff) := I.mul_V htiV hc
  refine ⟨(o.batchBack v.reverse (((o.prefixProds v o.one).reverse.drop 1) ++ [o.one])
    (o.mul ti coeff)).reverse, ?_, ?_⟩
  · simp only [batchInvMul, hti]
  · rw [← List.forall₂_reverse_iff, List.reverse_reverse]
    apply batchBack_spec I _ _ _ _ (fun f hf => hv f (List.mem_reverse.1 hf)) htmpV
    have hB := backInv_prefixProds I (I.φ coeff) o.one I.one_V h10 v hv (I.φ (o.mul ti coeff))
      (by have := hl.2; rw [I.mul_φ htiV hc, htiφ]; field_simp)
    cases hP : (o.prefixProds v o.one).reverse with
    | nil =>
      rw [List.reverse_cons, hP] at hB
      simpa using BackInv_append I _ [o.one] _ _ _ hB
    | cons p ps =>
      rw [List.reverse_cons, hP] at hB
      simpa using hB

theorem batchInvMul_correct (I : o.Interp K) (v : List F) (coeff : F) (hv : ∀ f ∈ v, I.V f)
    (hc : I.V coeff) :
    ∃ w, o.batchInvMul v coeff = some w ∧ w.length = v.length ∧ (∀ x ∈ w, I.V x) ∧
      ∀ (i : Nat) (h1 : i < v.length) (h2 : i < w.length),
        (I.φ v[i] = 0 → w[i] = v[i]) ∧
        (I.φ v[i] ≠ 0 → I.φ w[i] = I.φ coeff * (I.φ v[i])⁻¹) := by
  obtain ⟨w, hw, hR⟩ := batchInvMul_rel I v coeff hv hc
  rw [List.forall₂_iff_get] at hR
  obtain ⟨hlen, hget⟩ := hR
  refine ⟨w, hw, hlen.symm, ?_, ?_⟩
  · intro x hx
    obtain ⟨i, hi, rfl⟩ := List.getElem_of_mem hx
    exact (hget i (by omega) hi).1
  · intro i h1 h2
    exact (hget i h1 h2).2

end Ops
end Ark
