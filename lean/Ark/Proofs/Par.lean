import Ark.Model.Par
import Ark.Proofs.FieldOps
import Mathlib.Algebra.BigOperators.Group.Finset.Basic
import Mathlib.Algebra.BigOperators.Ring.Finset
import Mathlib.Algebra.BigOperators.Intervals
import Mathlib.Algebra.Field.Basic
import Mathlib.Tactic.Ring
import Mathlib.Tactic.Linarith
/-
  Ark.Proofs.Par — helper lemmas for property C14: every `parallel` branch of `Ark.Model.Par`
  computes, for every thread count `T ≥ 1`, the same value as its serial reference.
-/
namespace Ark.Par

/-! ## 0. lists: `chunks`, `enumFrom`, `allSome`, `allOk` -/

section Lists
variable {α β : Type}

theorem chunksAux_nil (k fuel : Nat) : chunksAux k fuel ([] : List α) = [] := by
  cases fuel <;> simp [chunksAux]

theorem chunksAux_cons_of_ne (k fuel : Nat) (l : List α) (h : l ≠ []) :
    chunksAux k (fuel + 1) l = l.take k :: chunksAux k fuel (l.drop k) := by
  cases l with
  | nil => exact absurd rfl h
  | cons a as => simp [chunksAux]

/-- induction principle for statements about `chunksAux k fuel l` with enough fuel -/
theorem flatten_chunksAux (k : Nat) (hk : 1 ≤ k) :
    ∀ (fuel : Nat) (l : List α), l.length ≤ fuel → (chunksAux k fuel l).flatten = l := by
  intro fuel
  induction fuel with
  | zero => intro l hl; have : l = [] := List.length_eq_zero_iff.1 (by omega); subst this; rfl
  | succ fuel ih =>
    intro l hl
    by_cases h : l = []
    · subst h; rfl
    · rw [chunksAux_cons_of_ne k fuel l h, List.flatten_cons, ih, List.take_append_drop]
      have : 0 < l.length := List.length_pos_iff.2 h
      rw [List.length_drop]; omega

/-- `slice.chunks(k)` concatenates back to the slice -/
theorem flatten_chunks (k : Nat) (hk : 1 ≤ k) (l : List α) : (chunks k l).flatten = l :=
  flatten_chunksAux k hk l.length l (Nat.le_refl _)

theorem allSome_map_some (f : α → β) (l : List α) :
    allSome (l.map (fun a => some (f a))) = some (l.map f) := by
  induction l with
  | nil => rfl
  | cons a as ih => simp [allSome, ih]

theorem allOk_map_ok (f : α → β) (l : List α) :
    allOk (l.map (fun a => Outcome.ok (f a))) = .ok (l.map f) := by
  induction l with
  | nil => rfl
  | cons a as ih => simp [allOk, ih]

/-- concatenating `a` blocks of `b` consecutive values -/
theorem flatten_range_blocks (f : Nat → β) (a b : Nat) :
    ((List.range a).map (fun j => (List.range b).map (fun i => f (j * b + i)))).flatten
      = (List.range (a * b)).map f := by
  induction a with
  | zero => simp
  | succ a ih =>
    rw [List.range_succ, List.map_append, List.flatten_append, ih, Nat.succ_mul, List.range_add,
      List.map_append]
    simp

end Lists

section Field
variable {F : Type} [Field F] [DecidableEq F]

/-! ## 1. `pow a e = a ^ e` -/

theorem bitsBE_fold (e : Nat) : ∀ (n acc : Nat),
    (((List.range n).reverse.map (fun i => e.testBit i)).foldl
      (fun k b => 2 * k + (if b then 1 else 0)) acc) = acc * 2 ^ n + e % 2 ^ n := by
  intro n
  induction n with
  | zero => intro acc; simp [Nat.mod_one]
  | succ n ih =>
    intro acc
    rw [List.range_succ, List.reverse_append, List.reverse_singleton, List.singleton_append,
      List.map_cons, List.foldl_cons, ih]
    have h1 : e % 2 ^ (n + 1) = e % 2 ^ n + 2 ^ n * (e / 2 ^ n % 2) := by
      rw [pow_succ, Nat.mod_mul]
    rw [h1, Nat.testBit_eq_decide_div_mod_eq]
    rcases Nat.mod_two_eq_zero_or_one (e / 2 ^ n) with h | h <;> simp [h] <;> ring

theorem pow_fold (a : F) (bits : List Bool) (res : F) (n : Nat) (h : res = a ^ n) :
    bits.foldl (fun res bit => let s := res * res; if bit then s * a else s) res
      = a ^ (bits.foldl (fun n b => 2 * n + (if b then 1 else 0)) n) := by
  induction bits generalizing res n with
  | nil => exact h
  | cons b bs ih =>
    simp only [List.foldl_cons]
    apply ih
    subst h
    cases b
    · simp only [Bool.false_eq_true, if_false, Nat.add_zero]; ring
    · simp only [if_true]; ring

/-- the model's square-and-multiply is exponentiation (no truncation of the exponent) -/
theorem pow_eq (a : F) (e : Nat) : pow a e = a ^ e := by
  unfold pow
  rw [pow_fold a _ 1 0 (by simp)]
  congr 1
  unfold bitsBE
  split
  · next h => simp [h]
  · rw [bitsBE_fold, Nat.mod_eq_of_lt Nat.lt_log2_self]; simp

/-! ## 2. batch inversion -/

/-- `Par.ops F` interpreted in `F` itself -/
def opsInterp : (ops F).Interp F where
  V := fun _ => True
  φ := id
  one_V := trivial
  one_φ := rfl
  mul_V := fun _ _ => trivial
  mul_φ := fun _ _ => rfl
  square_V := fun _ => trivial
  square_φ := fun _ => rfl
  isZero_iff := fun {a} _ => by simp [ops]
  inv_some := fun {a} _ h => ⟨a⁻¹, by simp only [id] at h; simp [ops, h], trivial, rfl⟩

/-- the element-wise specification of `batch_inversion_and_mul` -/
def binvSpec (coeff : F) (x : F) : F := if x = 0 then 0 else coeff * x⁻¹

theorem serialBatchInv_eq (v : List F) (coeff : F) :
    serialBatchInv v coeff = some (v.map (binvSpec coeff)) := by
  obtain ⟨w, hw, hlen, -, hget⟩ :=
    Ops.batchInvMul_correct (opsInterp (F := F)) v coeff (fun _ _ => trivial) trivial
  unfold serialBatchInv
  rw [hw]
  congr 1
  apply List.ext_getElem (by simpa using hlen)
  intro i h1 h2
  have hi : i < v.length := by omega
  obtain ⟨h0, hn⟩ := hget i hi h1
  simp only [opsInterp, id] at h0 hn
  simp only [List.getElem_map, binvSpec]
  by_cases hz : v[i] = 0
  · rw [if_pos hz, h0 hz, hz]
  · rw [if_neg hz, hn hz]

theorem chunkedBatchInv_eq (T : Nat) (v : List F) (coeff : F) :
    chunkedBatchInv T v coeff = some (v.map (binvSpec coeff)) := by
  unfold chunkedBatchInv
  simp only [serialBatchInv_eq]
  rw [allSome_map_some, Option.map_some, ← List.map_flatten, flatten_chunks _ (by omega)]

/-! ## 3. `distribute_powers_and_mul_by_const` -/

theorem dps_append (xs ys : List F) (g p : F) :
    distributePowersSerial (xs ++ ys) g p
      = distributePowersSerial xs g p ++ distributePowersSerial ys g (p * g ^ xs.length) := by
  induction xs generalizing p with
  | nil => simp [distributePowersSerial]
  | cons a as ih =>
    simp only [List.cons_append, distributePowersSerial, ih, List.length_cons, List.cons.injEq,
      true_and]
    congr 2; ring

theorem dps_chunks (k : Nat) (hk : 1 ≤ k) (g c : F) :
    ∀ (fuel : Nat) (l : List F) (i : Nat), l.length ≤ fuel →
      ((enumFrom i (chunksAux k fuel l)).map
        (fun (x : Nat × List F) => distributePowersSerial x.2 g (c * pow g (x.1 * k)))).flatten
        = distributePowersSerial l g (c * g ^ (i * k)) := by
  intro fuel
  induction fuel with
  | zero =>
    intro l i hl
    have : l = [] := List.length_eq_zero_iff.1 (by omega)
    subst this; rfl
  | succ fuel ih =>
    intro l i hl
    by_cases h : l = []
    · subst h; rfl
    · have hpos : 0 < l.length := List.length_pos_iff.2 h
      rw [chunksAux_cons_of_ne k fuel l h]
      simp only [enumFrom, List.map_cons, List.flatten_cons]
      rw [ih _ _ (by rw [List.length_drop]; omega), pow_eq]
      conv_rhs => rw [← List.take_append_drop k l, dps_append]
      congr 1
      rcases Nat.lt_or_ge l.length k with hlt | hge
      · rw [List.drop_of_length_le (by omega)]; rfl
      · rw [List.length_take, Nat.min_eq_left hge]
        congr 1; ring

theorem dps_getElem (l : List F) (g p : F) :
    distributePowersSerial l g p = (List.range l.length).map (fun i => l.getD i 0 * (p * g ^ i)) := by
  induction l generalizing p with
  | nil => rfl
  | cons a as ih =>
    rw [distributePowersSerial, ih, List.length_cons, List.range_succ_eq_map, List.map_cons,
      List.map_map]
    simp only [List.getD_cons_zero, pow_zero, mul_one, List.cons.injEq, true_and]
    apply List.map_congr_left
    intro i _
    simp only [Function.comp, List.getD_cons_succ]
    ring

/-! ## 4. Horner in chunks -/

theorem horner_nil (x : F) : hornerEvaluate ([] : List F) x = 0 := rfl

theorem horner_cons (a : F) (l : List F) (x : F) :
    hornerEvaluate (a :: l) x = hornerEvaluate l x * x + a := rfl

theorem horner_append (xs ys : List F) (x : F) :
    hornerEvaluate (xs ++ ys) x = hornerEvaluate xs x + hornerEvaluate ys x * x ^ xs.length := by
  induction xs with
  | nil => simp [horner_nil]
  | cons a as ih => simp only [List.cons_append, horner_cons, ih, List.length_cons]; ring

theorem sum_foldl (l : List F) (acc : F) : l.foldl (· + ·) acc = acc + sum l := by
  unfold sum
  induction l generalizing acc with
  | nil => simp
  | cons a as ih => rw [List.foldl_cons, List.foldl_cons, ih, ih (0 + a)]; ring

theorem sum_nil : sum ([] : List F) = 0 := rfl

theorem sum_cons (a : F) (l : List F) : sum (a :: l) = a + sum l := by
  rw [sum, List.foldl_cons, sum_foldl]; ring

theorem horner_chunks (k : Nat) (hk : 1 ≤ k) (x : F) :
    ∀ (fuel : Nat) (l : List F) (i : Nat), l.length ≤ fuel →
      sum ((enumFrom i (chunksAux k fuel l)).map
        (fun (p : Nat × List F) => hornerEvaluate p.2 x * pow x (p.1 * k)))
        = hornerEvaluate l x * x ^ (i * k) := by
  intro fuel
  induction fuel with
  | zero =>
    intro l i hl
    have : l = [] := List.length_eq_zero_iff.1 (by omega)
    subst this; simp [chunksAux, enumFrom, sum_nil, horner_nil]
  | succ fuel ih =>
    intro l i hl
    by_cases h : l = []
    · subst h; simp [chunksAux, enumFrom, sum_nil, horner_nil]
    · have hpos : 0 < l.length := List.length_pos_iff.2 h
      rw [chunksAux_cons_of_ne k fuel l h]
      simp only [enumFrom, List.map_cons, sum_cons]
      rw [ih _ _ (by rw [List.length_drop]; omega), pow_eq]
      conv_rhs => rw [← List.take_append_drop k l, horner_append]
      rcases Nat.lt_or_ge l.length k with hlt | hge
      · rw [List.drop_of_length_le (by omega)]; simp [horner_nil]
      · rw [List.length_take, Nat.min_eq_left hge]
        ring

theorem horner_eq_sum (l : List F) (x : F) :
    hornerEvaluate l x = ∑ i ∈ Finset.range l.length, l.getD i 0 * x ^ i := by
  induction l with
  | nil => simp [horner_nil]
  | cons a as ih =>
    rw [horner_cons, ih, List.length_cons, Finset.sum_range_succ', Finset.sum_mul]
    simp only [List.getD_cons_succ, List.getD_cons_zero, pow_zero, mul_one]
    congr 1
    apply Finset.sum_congr rfl
    intro i _; ring

theorem horner_all_zero (l : List F) (h : ∀ c ∈ l, c = 0) (x : F) : hornerEvaluate l x = 0 := by
  induction l with
  | nil => rfl
  | cons a as ih =>
    rw [horner_cons, ih (fun c hc => h c (by simp [hc])), h a (by simp)]; simp

end Field
end Ark.Par
