import Ark.Model.Par
import Ark.Proofs.FieldOps
import Mathlib.Algebra.BigOperators.Group.Finset.Basic
import Mathlib.Algebra.BigOperators.Ring.Finset
import Mathlib.Algebra.BigOperators.Intervals
import Mathlib.Algebra.Field.Basic
import Mathlib.Tactic.Ring
import Mathlib.Tactic.Linarith
/-
  Ark.Proofs.Par — helper lemmas for property C14: every `parallel` branch of `Ark.Model.Par`
  computes, for every thread count `T ≥ 1`, the same value as its serial reference.
-/
namespace Ark.Par
set_option linter.unusedSectionVars false

/-! ## 0. lists: `chunks`, `enumFrom`, `allSome`, `allOk` -/

section Lists
variable {α β : Type}

theorem chunksAux_nil (k fuel : Nat) : chunksAux k fuel ([] : List α) = [] := by
  cases fuel <;> simp [chunksAux]

theorem chunksAux_cons_of_ne (k fuel : Nat) (l : List α) (h : l ≠ []) :
    chunksAux k (fuel + 1) l = l.take k :: chunksAux k fuel (l.drop k) := by
  cases l with
  | nil => exact absurd rfl h
  | cons a as => simp [chunksAux]

/-- induction principle for statements about `chunksAux k fuel l` with enough fuel -/
theorem flatten_chunksAux (k : Nat) (hk : 1 ≤ k) :
    ∀ (fuel : Nat) (l : List α), l.length ≤ fuel → (chunksAux k fuel l).flatten = l := by
  intro fuel
  induction fuel with
  | zero => intro l hl; have : l = [] := List.length_eq_zero_iff.1 (by omega); subst this; rfl
  | succ fuel ih =>
    intro l hl
    by_cases h : l = []
    · subst h; rfl
    · rw [chunksAux_cons_of_ne k fuel l h, List.flatten_cons, ih, List.take_append_drop]
      have : 0 < l.length := List.length_pos_iff.2 h
      rw [List.length_drop]; omega

/-- `slice.chunks(k)` concatenates back to the slice -/
theorem flatten_chunks (k : Nat) (hk : 1 ≤ k) (l : List α) : (chunks k l).flatten = l :=
  flatten_chunksAux k hk l.length l (Nat.le_refl _)

theorem allSome_map_some (f : α → β) (l : List α) :
    allSome (l.map (fun a => some (f a))) = some (l.map f) := by
  induction l with
  | nil => rfl
  | cons a as ih => simp [allSome, ih]

theorem allOk_map_ok (f : α → β) (l : List α) :
    allOk (l.map (fun a => Outcome.ok (f a))) = .ok (l.map f) := by
  induction l with
  | nil => rfl
  | cons a as ih => simp [allOk, ih]

/-- concatenating `a` blocks of `b` consecutive values -/
theorem flatten_range_blocks (f : Nat → β) (a b : Nat) :
    ((List.range a).map (fun j => (List.range b).map (fun i => f (j * b + i)))).flatten
      = (List.range (a * b)).map f := by
  induction a with
  | zero => simp
  | succ a ih =>
    rw [List.range_succ, List.map_append, List.flatten_append, ih, Nat.succ_mul, List.range_add,
      List.map_append]
    simp

end Lists

section Field
variable {F : Type} [Field F] [DecidableEq F]

/-! ## 1. `pow a e = a ^ e` -/

theorem bitsBE_fold (e : Nat) : ∀ (n acc : Nat),
    (((List.range n).reverse.map (fun i => e.testBit i)).foldl
      (fun k b => 2 * k + (if b then 1 else 0)) acc) = acc * 2 ^ n + e % 2 ^ n := by
  intro n
  induction n with
  | zero => intro acc; simp [Nat.mod_one]
  | succ n ih =>
    intro acc
    rw [List.range_succ, List.reverse_append, List.reverse_singleton, List.singleton_append,
      List.map_cons, List.foldl_cons, ih]
    have h1 : e % 2 ^ (n + 1) = e % 2 ^ n + 2 ^ n * (e / 2 ^ n % 2) := by
      rw [pow_succ, Nat.mod_mul]
    rw [h1, Nat.testBit_eq_decide_div_mod_eq]
    rcases Nat.mod_two_eq_zero_or_one (e / 2 ^ n) with h | h <;> simp [h] <;> ring

theorem pow_fold (a : F) (bits : List Bool) (res : F) (n : Nat) (h : res = a ^ n) :
    bits.foldl (fun res bit => let s := res * res; if bit then s * a else s) res
      = a ^ (bits.foldl (fun n b => 2 * n + (if b then 1 else 0)) n) := by
  induction bits generalizing res n with
  | nil => exact h
  | cons b bs ih =>
    simp only [List.foldl_cons]
    apply ih
    subst h
    cases b
    · simp only [Bool.false_eq_true, if_false, Nat.add_zero]; ring
    · simp only [if_true]; ring

/-- the model's square-and-multiply is exponentiation (no truncation of the exponent) -/
theorem pow_eq (a : F) (e : Nat) : pow a e = a ^ e := by
  unfold pow
  rw [pow_fold a _ 1 0 (by simp)]
  congr 1
  unfold bitsBE
  split
  · next h => simp [h]
  · rw [bitsBE_fold, Nat.mod_eq_of_lt Nat.lt_log2_self]; simp

/-! ## 2. batch inversion -/

/-- `Par.ops F` interpreted in `F` itself -/
def opsInterp : (ops F).Interp F where
  V := fun _ => True
  φ := id
  one_V := trivial
  one_φ := rfl
  mul_V := fun _ _ => trivial
  mul_φ := fun _ _ => rfl
  square_V := fun _ => trivial
  square_φ := fun _ => rfl
  isZero_iff := fun {a} _ => by simp [ops]
  inv_some := fun {a} _ h => ⟨a⁻¹, by simp only [id] at h; simp [ops, h], trivial, rfl⟩

/-- the element-wise specification of `batch_inversion_and_mul` -/
def binvSpec (coeff : F) (x : F) : F := if x = 0 then 0 else coeff * x⁻¹

theorem serialBatchInv_eq (v : List F) (coeff : F) :
    serialBatchInv v coeff = some (v.map (binvSpec coeff)) := by
  obtain ⟨w, hw, hlen, -, hget⟩ :=
    Ops.batchInvMul_correct (opsInterp (F := F)) v coeff (fun _ _ => trivial) trivial
  unfold serialBatchInv
  rw [hw]
  congr 1
  apply List.ext_getElem (by simpa using hlen)
  intro i h1 h2
  have hi : i < v.length := by omega
  obtain ⟨h0, hn⟩ := hget i hi h1
  simp only [opsInterp, id] at h0 hn
  simp only [List.getElem_map, binvSpec]
  by_cases hz : v[i] = 0
  · rw [if_pos hz, h0 hz, hz]
  · rw [if_neg hz, hn hz]

theorem chunkedBatchInv_eq (T : Nat) (v : List F) (coeff : F) :
    chunkedBatchInv T v coeff = some (v.map (binvSpec coeff)) := by
  unfold chunkedBatchInv
  simp only [serialBatchInv_eq]
  rw [allSome_map_some, Option.map_some, ← List.map_flatten, flatten_chunks _ (by omega)]

/-! ## 3. `distribute_powers_and_mul_by_const` -/

theorem dps_append (xs ys : List F) (g p : F) :
    distributePowersSerial (xs ++ ys) g p
      = distributePowersSerial xs g p ++ distributePowersSerial ys g (p * g ^ xs.length) := by
  induction xs generalizing p with
  | nil => simp [distributePowersSerial]
  | cons a as ih =>
    simp only [List.cons_append, distributePowersSerial, ih, List.length_cons, List.cons.injEq,
      true_and]
    congr 2; ring

theorem dps_chunks (k : Nat) (hk : 1 ≤ k) (g c : F) :
    ∀ (fuel : Nat) (l : List F) (i : Nat), l.length ≤ fuel →
      ((enumFrom i (chunksAux k fuel l)).map
        (fun (x : Nat × List F) => distributePowersSerial x.2 g (c * pow g (x.1 * k)))).flatten
        = distributePowersSerial l g (c * g ^ (i * k)) := by
  intro fuel
  induction fuel with
  | zero =>
    intro l i hl
    have : l = [] := List.length_eq_zero_iff.1 (by omega)
    subst this; rfl
  | succ fuel ih =>
    intro l i hl
    by_cases h : l = []
    · subst h; rfl
    · have hpos : 0 < l.length := List.length_pos_iff.2 h
      rw [chunksAux_cons_of_ne k fuel l h]
      simp only [enumFrom, List.map_cons, List.flatten_cons]
      rw [ih _ _ (by rw [List.length_drop]; omega), pow_eq]
      conv_rhs => rw [← List.take_append_drop k l, dps_append]
      congr 1
      rcases Nat.lt_or_ge l.length k with hlt | hge
      · rw [List.drop_of_length_le (by omega)]; rfl
      · rw [List.length_take, Nat.min_eq_left hge]
        congr 1; ring

theorem dps_getElem (l : List F) (g p : F) :
    distributePowersSerial l g p = (List.range l.length).map (fun i => l.getD i 0 * (p * g ^ i)) := by
  induction l generalizing p with
  | nil => rfl
  | cons a as ih =>
    rw [distributePowersSerial, ih, List.length_cons, List.range_succ_eq_map, List.map_cons,
      List.map_map]
    simp only [List.getD_cons_zero, pow_zero, mul_one, List.cons.injEq, true_and]
    apply List.map_congr_left
    intro i _
    simp only [Function.comp, List.getD_cons_succ, Nat.succ_eq_add_one, pow_succ]
    ring

/-! ## 4. Horner in chunks -/

theorem horner_nil (x : F) : hornerEvaluate ([] : List F) x = 0 := rfl

theorem horner_cons (a : F) (l : List F) (x : F) :
    hornerEvaluate (a :: l) x = hornerEvaluate l x * x + a := rfl

theorem horner_append (xs ys : List F) (x : F) :
    hornerEvaluate (xs ++ ys) x = hornerEvaluate xs x + hornerEvaluate ys x * x ^ xs.length := by
  induction xs with
  | nil => simp [horner_nil]
  | cons a as ih => simp only [List.cons_append, horner_cons, ih, List.length_cons]; ring

theorem sum_foldl (l : List F) (acc : F) : l.foldl (· + ·) acc = acc + sum l := by
  unfold sum
  induction l generalizing acc with
  | nil => simp
  | cons a as ih => rw [List.foldl_cons, List.foldl_cons, ih, ih (0 + a)]; ring

theorem sum_nil : sum ([] : List F) = 0 := rfl

theorem sum_cons (a : F) (l : List F) : sum (a :: l) = a + sum l := by
  rw [sum, List.foldl_cons, sum_foldl]; ring

theorem horner_chunks (k : Nat) (hk : 1 ≤ k) (x : F) :
    ∀ (fuel : Nat) (l : List F) (i : Nat), l.length ≤ fuel →
      sum ((enumFrom i (chunksAux k fuel l)).map
        (fun (p : Nat × List F) => hornerEvaluate p.2 x * pow x (p.1 * k)))
        = hornerEvaluate l x * x ^ (i * k) := by
  intro fuel
  induction fuel with
  | zero =>
    intro l i hl
    have : l = [] := List.length_eq_zero_iff.1 (by omega)
    subst this; simp [chunksAux, enumFrom, sum_nil, horner_nil]
  | succ fuel ih =>
    intro l i hl
    by_cases h : l = []
    · subst h; simp [chunksAux, enumFrom, sum_nil, horner_nil]
    · have hpos : 0 < l.length := List.length_pos_iff.2 h
      rw [chunksAux_cons_of_ne k fuel l h]
      simp only [enumFrom, List.map_cons, sum_cons]
      rw [ih _ _ (by rw [List.length_drop]; omega), pow_eq]
      conv_rhs => rw [← List.take_append_drop k l, horner_append]
      rcases Nat.lt_or_ge l.length k with hlt | hge
      · rw [List.drop_of_length_le (by omega)]; simp [horner_nil]
      · rw [List.length_take, Nat.min_eq_left hge]
        ring

theorem horner_eq_sum (l : List F) (x : F) :
    hornerEvaluate l x = ∑ i ∈ Finset.range l.length, l.getD i 0 * x ^ i := by
  induction l with
  | nil => simp [horner_nil]
  | cons a as ih =>
    rw [horner_cons, ih, List.length_cons, Finset.sum_range_succ', Finset.sum_mul]
    simp only [List.getD_cons_succ, List.getD_cons_zero, pow_zero, mul_one]
    congr 1
    apply Finset.sum_congr rfl
    intro i _; ring

theorem horner_all_zero (l : List F) (h : ∀ c ∈ l, c = 0) (x : F) : hornerEvaluate l x = 0 := by
  induction l with
  | nil => rfl
  | cons a as ih =>
    rw [horner_cons, ih (fun c hc => h c (by simp [hc])), h a (by simp)]; simp

/-! ## 5. powers: `powersSeq`, `computePowers*`, `logPowers`, `rootsRec` -/

theorem powersSeq_eq (n : Nat) (g cur : F) :
    powersSeq n g cur = (List.range n).map (fun i => cur * g ^ i) := by
  induction n generalizing cur with
  | zero => rfl
  | succ n ih =>
    rw [powersSeq, ih, List.range_succ_eq_map, List.map_cons, List.map_map]
    simp only [pow_zero, mul_one, List.cons.injEq, true_and]
    apply List.map_congr_left
    intro i _
    simp only [Function.comp, Nat.succ_eq_add_one, pow_succ]; ring

theorem cpamc_eq_powersSeq (n : Nat) (g v : F) :
    computePowersAndMulByConstSerial n g v = powersSeq n g v := by
  induction n generalizing v with
  | zero => rfl
  | succ n ih => rw [computePowersAndMulByConstSerial, powersSeq, ih]

theorem cpamc_eq (n : Nat) (g v : F) :
    computePowersAndMulByConstSerial n g v = (List.range n).map (fun i => v * g ^ i) := by
  rw [cpamc_eq_powersSeq, powersSeq_eq]

theorem computePowersSerial_eq (n : Nat) (g : F) :
    computePowersSerial n g = (List.range n).map (fun i => g ^ i) := by
  unfold computePowersSerial; rw [cpamc_eq]; simp

theorem powersSeq_one (n : Nat) (g : F) : powersSeq n g 1 = (List.range n).map (fun i => g ^ i) := by
  rw [powersSeq_eq]; simp

theorem logPowers_eq (n : Nat) (w : F) :
    logPowers n w = (List.range n).map (fun i => w ^ (2 ^ i)) := by
  induction n generalizing w with
  | zero => rfl
  | succ n ih =>
    rw [logPowers, ih, List.range_succ_eq_map, List.map_cons, List.map_map]
    simp only [pow_zero, pow_one, List.cons.injEq, true_and]
    apply List.map_congr_left
    intro i _
    simp only [Function.comp, Nat.succ_eq_add_one]
    rw [← pow_two, ← pow_mul, ← pow_succ']

theorem logPowers_length (n : Nat) (w : F) : (logPowers n w).length = n := by
  rw [logPowers_eq]; simp

theorem logPowers_take (n m : Nat) (w : F) (h : m ≤ n) :
    (logPowers n w).take m = logPowers m w := by
  induction m generalizing n w with
  | zero => simp [logPowers]
  | succ m ih =>
    cases n with
    | zero => omega
    | succ n => simp only [logPowers, List.take_succ_cons]; rw [ih n _ (by omega)]

theorem logPowers_drop (n m : Nat) (w : F) (h : m ≤ n) :
    (logPowers n w).drop m = logPowers (n - m) (w ^ (2 ^ m)) := by
  induction m generalizing n w with
  | zero => simp
  | succ m ih =>
    cases n with
    | zero => omega
    | succ n =>
      simp only [logPowers, List.drop_succ_cons]
      rw [ih n _ (by omega), Nat.succ_sub_succ, ← pow_two, ← pow_mul, ← pow_succ']

/-- the recombination `out[j·|lo| + i] = hi[j] * lo[i]` of two tables of powers -/
theorem roots_combine (w : F) (a b : Nat) :
    (((List.range a).map (fun j => (w ^ b) ^ j)).map
        (fun h => ((List.range b).map (fun i => w ^ i)).map (fun l => h * l))).flatten
      = (List.range (a * b)).map (fun i => w ^ i) := by
  rw [← flatten_range_blocks (fun i => w ^ i) a b]
  congr 1
  rw [List.map_map]
  apply List.map_congr_left
  intro j _
  simp only [Function.comp, List.map_map]
  apply List.map_congr_left
  intro i _
  simp only [Function.comp]
  rw [← pow_mul, ← pow_add, Nat.mul_comm b j]

theorem rootsRec_eq : ∀ (fuel n : Nat) (w : F), n ≤ fuel →
    rootsRec fuel (logPowers n w) = powersSeq (2 ^ n) w 1 := by
  intro fuel
  induction fuel with
  | zero =>
    intro n w h
    have : n = 0 := by omega
    subst this
    simp [rootsRec, logPowers, powersSeq]
  | succ fuel ih =>
    intro n w h
    simp only [rootsRec, logPowers_length]
    split
    · cases n with
      | zero => simp [logPowers, powersSeq]
      | succ n => simp [logPowers]
    · next hn =>
      simp only [LOG_ROOTS_OF_UNITY_PARALLEL_SIZE] at hn
      have hm1 : (n + 1) / 2 ≤ n := by omega
      rw [logPowers_take _ _ _ hm1, logPowers_drop _ _ _ hm1, ih _ _ (by omega), ih _ _ (by omega)]
      rw [powersSeq_one, powersSeq_one, powersSeq_one, roots_combine, ← pow_add,
        Nat.sub_add_cancel hm1]

theorem log2Ceil_two_pow (k : Nat) : log2Ceil (2 ^ k) = k := by
  unfold log2Ceil
  cases k with
  | zero => simp
  | succ k =>
    have h2 : 2 ≤ 2 ^ (k + 1) := by
      calc 2 = 2 ^ 1 := rfl
        _ ≤ 2 ^ (k + 1) := Nat.pow_le_pow_right (by omega) (by omega)
    rw [if_neg (by omega)]
    have hne : 2 ^ (k + 1) - 1 ≠ 0 := by omega
    have h1 : (2 ^ (k + 1) - 1).log2 < k + 1 := (Nat.log2_lt hne).2 (by omega)
    have h3 : ¬ (2 ^ (k + 1) - 1).log2 < k := by
      rw [Nat.log2_lt hne]
      have : 2 ^ (k + 1) = 2 * 2 ^ k := by rw [pow_succ]; ring
      have : 0 < 2 ^ k := Nat.pos_of_ne_zero (by simp)
      omega
    omega

theorem rootsOfUnityPar_eq (k : Nat) (root : F) :
    rootsOfUnityPar (2 ^ k) root = rootsOfUnitySerial (2 ^ k) root := by
  unfold rootsOfUnityPar rootsOfUnitySerial
  simp only [log2Ceil_two_pow]
  split
  · rfl
  · next hk =>
    simp only [LOG_ROOTS_OF_UNITY_PARALLEL_SIZE] at hk
    rw [logPowers_length, rootsRec_eq _ _ _ (Nat.le_refl _), computePowersSerial, cpamc_eq_powersSeq]
    congr 1
    obtain ⟨j, rfl⟩ : ∃ j, k = j + 1 := ⟨k - 1, by omega⟩
    rw [pow_succ]; simp

/-! ## 6. `compute_powers` (dead code): a prefix of the serial table -/

theorem computePowersPar_small (T size : Nat) (g : F) (h : size < 128) :
    computePowersPar T size g = computePowersSerial size g := by
  unfold computePowersPar
  rw [if_pos (by simpa [MIN_PARALLEL_CHUNK_SIZE] using h)]

/-- with `chunk = max (size / T) 128`, `compute_powers` returns the first
    `(size / chunk) * chunk` powers only -/
theorem computePowersPar_large (T size : Nat) (g : F) (h : 128 ≤ size) :
    computePowersPar T size g
      = computePowersSerial (size / max (size / T) 128 * max (size / T) 128) g := by
  unfold computePowersPar
  rw [if_neg (by simpa [MIN_PARALLEL_CHUNK_SIZE] using h)]
  simp only [MIN_PARALLEL_CHUNK_SIZE]
  generalize hk : max (size / T) 128 = k
  have hk1 : 1 ≤ k := by omega
  rw [computePowersSerial_eq, ← flatten_range_blocks (fun i => g ^ i) (size / k) k]
  congr 1
  apply List.map_congr_left
  intro i hi
  have hi' : i < size / k := List.mem_range.1 hi
  have hle : (i + 1) * k ≤ size := by
    calc (i + 1) * k ≤ (size / k) * k := Nat.mul_le_mul_right _ hi'
      _ ≤ size := Nat.div_mul_le_self _ _
  have hmin : min (size - i * k) k = k := by
    apply Nat.min_eq_right
    rw [Nat.add_mul] at hle; omega
  rw [hmin, cpamc_eq, pow_eq]
  apply List.map_congr_left
  intro j _
  rw [pow_add]

theorem computePowersSerial_length (n : Nat) (g : F) : (computePowersSerial n g).length = n := by
  rw [computePowersSerial_eq]; simp

theorem computePowersSerial_take (n m : Nat) (g : F) (h : m ≤ n) :
    (computePowersSerial n g).take m = computePowersSerial m g := by
  rw [computePowersSerial_eq, computePowersSerial_eq, ← List.map_take, List.take_range,
    Nat.min_eq_left h]

/-! ## 7. `parallel_fft` -/

theorem cosetCoeff_eq (l : List F) (S : Nat) (step : F) (i : Nat) :
    ∀ (n c0 : Nat) (coeff elt : F), (∀ d, d < n → i + (c0 + d) * S < l.length) →
      cosetCoeff l.toArray S step i n c0 (coeff, elt)
        = .ok (coeff + ∑ d ∈ Finset.range n, l.getD (i + (c0 + d) * S) 0 * (elt * step ^ d),
               elt * step ^ n) := by
  intro n
  induction n with
  | zero => intro c0 coeff elt _; simp [cosetCoeff]
  | succ n ih =>
    intro c0 coeff elt hb
    have hlt : i + c0 * S < l.length := by simpa using hb 0 (by omega)
    have hx : l.toArray[i + c0 * S]? = some (l.getD (i + c0 * S) 0) := by
      simp [List.getD_eq_getElem?_getD, List.getElem?_eq_getElem hlt]
    simp only [cosetCoeff, hx]
    rw [ih (c0 + 1) _ _ (fun d hd => by
      have := hb (d + 1) (by omega)
      rwa [show c0 + 1 + d = c0 + (d + 1) by omega])]
    rw [Finset.sum_range_succ']
    simp only [Nat.add_zero, pow_zero, mul_one]
    congr 2
    · rw [add_assoc, add_comm (l.getD (i + c0 * S) 0 * elt)]
      congr 2
      apply Finset.sum_congr rfl
      intro d _
      rw [show c0 + 1 + d = c0 + (d + 1) by omega, pow_succ]; ring
    · rw [pow_succ]; ring

theorem cosetPoly_eq (l : List F) (S C : Nat) (oK step : F) :
    ∀ (n i0 : Nat) (elt : F), (∀ d c, d < n → c < C → i0 + d + c * S < l.length) →
      cosetPoly l.toArray S C oK step n i0 elt
        = .ok ((List.range n).map (fun d => ∑ c ∈ Finset.range C,
            l.getD (i0 + d + c * S) 0 * (elt * (step ^ C * oK) ^ d * step ^ c))) := by
  intro n
  induction n with
  | zero => intro i0 elt _; rfl
  | succ n ih =>
    intro i0 elt hb
    have h1 := cosetCoeff_eq l S step i0 C 0 0 elt (fun c hc => by
      have := hb 0 c (by omega) hc; simpa using this)
    simp only [cosetPoly, h1]
    rw [ih (i0 + 1) _ (fun d c hd hc => by
      have := hb (d + 1) c (by omega) hc
      rwa [show i0 + 1 + d = i0 + (d + 1) by omega])]
    simp only [List.range_succ_eq_map, List.map_cons, List.map_map, Nat.add_zero, pow_zero,
      mul_one, zero_add, Outcome.ok.injEq, List.cons.injEq, true_and]
    apply List.map_congr_left
    intro d _
    simp only [Function.comp]
    apply Finset.sum_congr rfl
    intro c _
    rw [show i0 + 1 + d = i0 + (d + 1) by omega, Nat.succ_eq_add_one, pow_succ]; ring

/-- the coefficients of the `k`-th coset polynomial as produced by the two nested loops -/
def cosetRaw (a : List F) (ω : F) (C S k : Nat) : List F :=
  (List.range S).map (fun i => ∑ c ∈ Finset.range C,
    a.getD (0 + i + c * S) 0 * (1 * ((ω ^ (k * S)) ^ C * ω ^ k) ^ i * (ω ^ (k * S)) ^ c))

theorem cosetRaw_length (a : List F) (ω : F) (C S k : Nat) : (cosetRaw a ω C S k).length = S := by
  simp [cosetRaw]

/-- `parallel_fft` with the results of the sub-FFTs abstracted as `R k` -/
theorem parallelFft_general (sfft : List F → F → Nat → Outcome (List F)) (a : List F) (ω : F)
    (logN logCpus S : Nat) (hle : logCpus ≤ logN) (hm : a.length = S * 2 ^ logCpus)
    (R : Nat → List F)
    (hR : ∀ k, k < 2 ^ logCpus →
      sfft (cosetRaw a ω (2 ^ logCpus) S k) (ω ^ 2 ^ logCpus) (kAdicity 2 S) = .ok (R k))
    (hlen : ∀ k, k < 2 ^ logCpus → (R k).length = S) :
    parallelFft sfft a ω logN logCpus
      = .ok ((List.range a.length).map
          (fun t => (R (t % 2 ^ logCpus)).getD (t / 2 ^ logCpus) 0)) := by
  have hC : 0 < 2 ^ logCpus := Nat.pos_of_ne_zero (by simp)
  have hmod : a.length % 2 ^ logCpus = 0 := by rw [hm]; exact Nat.mul_mod_left _ _
  have hdiv : a.length / 2 ^ logCpus = S := by rw [hm]; exact Nat.mul_div_cancel _ hC
  have hcp : ∀ k, cosetPoly a.toArray S (2 ^ logCpus) (ω ^ k) (ω ^ (k * S)) S 0 1
      = .ok (cosetRaw a ω (2 ^ logCpus) S k) := by
    intro k
    rw [cosetPoly_eq a S (2 ^ logCpus) _ _ S 0 1 (fun d c hd hc => by
      rw [hm]
      calc 0 + d + c * S < S + c * S := by omega
        _ = (c + 1) * S := by ring
        _ ≤ 2 ^ logCpus * S := Nat.mul_le_mul_right _ hc
        _ = S * 2 ^ logCpus := Nat.mul_comm _ _)]
    rfl
  have htmp := List.map_congr_left (l := List.range (2 ^ logCpus))
    (f := fun k => sfft (cosetRaw a ω (2 ^ logCpus) S k) (ω ^ 2 ^ logCpus) (kAdicity 2 S))
    (g := fun k => Outcome.ok (R k)) (fun k hk => hR k (List.mem_range.1 hk))
  unfold parallelFft
  rw [if_neg (by omega)]
  simp only [hmod, ne_eq, not_true_eq_false, if_false, hdiv, pow_eq, hcp, htmp, allOk_map_ok]
  rw [← allOk_map_ok]
  congr 1
  apply List.map_congr_left
  intro t ht
  have ht' : t < S * 2 ^ logCpus := by rw [← hm]; exact List.mem_range.1 ht
  have h1 : t % 2 ^ logCpus < 2 ^ logCpus := Nat.mod_lt _ hC
  have h2 : t / 2 ^ logCpus < S := (Nat.div_lt_iff_lt_mul hC).2 ht'
  have h3 : t / 2 ^ logCpus < (R (t % 2 ^ logCpus)).length := by rw [hlen _ h1]; exact h2
  simp [h1, List.getD_eq_getElem?_getD, List.getElem?_eq_getElem h3]

theorem horner_map_range (n : Nat) (f : Nat → F) (x : F) :
    hornerEvaluate ((List.range n).map f) x = ∑ i ∈ Finset.range n, f i * x ^ i := by
  rw [horner_eq_sum, List.length_map, List.length_range]
  apply Finset.sum_congr rfl
  intro i hi
  have : i < n := Finset.mem_range.1 hi
  simp [List.getD_eq_getElem?_getD, this]

theorem sum_range_mul_split (f : Nat → F) (S C : Nat) :
    ∑ n ∈ Finset.range (S * C), f n
      = ∑ i ∈ Finset.range S, ∑ c ∈ Finset.range C, f (i + c * S) := by
  induction C with
  | zero => simp
  | succ C ih =>
    rw [Nat.mul_succ, Finset.sum_range_add, ih]
    simp only [Finset.sum_range_succ, Finset.sum_add_distrib]
    congr 1
    apply Finset.sum_congr rfl
    intro i _
    rw [Nat.mul_comm C S, Nat.add_comm]

/-- the decimation identity behind `parallel_fft`: the `j`-th value of the sub-DFT of the `k`-th
    coset polynomial is the `(j·C + k)`-th value of the full DFT -/
theorem dft_split (a : List F) (ω : F) (S C : Nat) (hm : a.length = S * C)
    (hω : ω ^ a.length = 1) (k j : Nat) :
    hornerEvaluate (cosetRaw a ω C S k) ((ω ^ C) ^ j) = hornerEvaluate a (ω ^ (j * C + k)) := by
  rw [hm] at hω
  unfold cosetRaw
  rw [horner_map_range, horner_eq_sum a, hm, sum_range_mul_split]
  apply Finset.sum_congr rfl
  intro i _
  rw [Finset.sum_mul]
  apply Finset.sum_congr rfl
  intro c _
  have e1 : (ω ^ (k * S)) ^ C = 1 := by
    rw [← pow_mul, Nat.mul_assoc, Nat.mul_comm k, pow_mul, hω, one_pow]
  have e2 : (ω ^ (j * C + k)) ^ (i + c * S)
      = ω ^ (k * i + k * S * c + C * j * i) * (ω ^ (S * C)) ^ (j * c) := by
    rw [← pow_mul, ← pow_mul, ← pow_add]; congr 1; ring
  rw [e1, e2, hω, Nat.zero_add]
  simp only [one_mul, one_pow, mul_one]
  rw [mul_assoc]
  congr 1
  rw [← pow_mul, ← pow_mul, ← pow_mul, ← pow_mul, ← pow_add, ← pow_add]
  congr 1; ring

theorem naiveDft_eq (a : List F) (ω : F) :
    naiveDft a ω = (List.range a.length).map (fun t => hornerEvaluate a (ω ^ t)) := by
  unfold naiveDft
  rw [powersSeq_one, List.map_map]; rfl

theorem naiveDft_length (a : List F) (ω : F) : (naiveDft a ω).length = a.length := by
  rw [naiveDft_eq]; simp

theorem parallelFft_eq (sfft : List F → F → Nat → Outcome (List F)) (a : List F) (ω : F)
    (logN logCpus : Nat) (hle : logCpus ≤ logN) (hdvd : 2 ^ logCpus ∣ a.length)
    (hω : ω ^ a.length = 1)
    (hs : ∀ b : List F, b.length = a.length / 2 ^ logCpus →
      sfft b (ω ^ 2 ^ logCpus) (kAdicity 2 (a.length / 2 ^ logCpus))
        = .ok (naiveDft b (ω ^ 2 ^ logCpus))) :
    parallelFft sfft a ω logN logCpus = .ok (naiveDft a ω) := by
  have hC : 0 < 2 ^ logCpus := Nat.pos_of_ne_zero (by simp)
  have hm : a.length = a.length / 2 ^ logCpus * 2 ^ logCpus := (Nat.div_mul_cancel hdvd).symm
  rw [parallelFft_general sfft a ω logN logCpus _ hle hm
    (fun k => naiveDft (cosetRaw a ω (2 ^ logCpus) (a.length / 2 ^ logCpus) k) (ω ^ 2 ^ logCpus))
    (fun k _ => hs _ (cosetRaw_length _ _ _ _ _))
    (fun k _ => by rw [naiveDft_length, cosetRaw_length])]
  rw [naiveDft_eq a]
  congr 1
  apply List.map_congr_left
  intro t ht
  have ht' : t < a.length := List.mem_range.1 ht
  have h2 : t / 2 ^ logCpus < a.length / 2 ^ logCpus :=
    (Nat.div_lt_iff_lt_mul hC).2 (by rw [← hm]; exact ht')
  rw [naiveDft_eq, cosetRaw_length]
  simp only [List.getD_eq_getElem?_getD, List.getElem?_map, List.getElem?_range h2, Option.map_some,
    Option.getD_some]
  rw [dft_split a ω _ _ hm hω, Nat.div_add_mod']

/-- panic-freedom of `parallel_fft`: the two `assert`s are the only panics -/
theorem parallelFft_ok (sfft : List F → F → Nat → Outcome (List F)) (a : List F) (ω : F)
    (logN logCpus : Nat) (hle : logCpus ≤ logN) (hdvd : 2 ^ logCpus ∣ a.length)
    (hs : ∀ b : List F, b.length = a.length / 2 ^ logCpus →
      ∃ r, sfft b (ω ^ 2 ^ logCpus) (kAdicity 2 (a.length / 2 ^ logCpus)) = .ok r ∧
        r.length = a.length / 2 ^ logCpus) :
    ∃ r, parallelFft sfft a ω logN logCpus = .ok r ∧ r.length = a.length := by
  have hm : a.length = a.length / 2 ^ logCpus * 2 ^ logCpus := (Nat.div_mul_cancel hdvd).symm
  have hc := fun k => hs (cosetRaw a ω (2 ^ logCpus) (a.length / 2 ^ logCpus) k)
    (cosetRaw_length _ _ _ _ _)
  refine ⟨_, parallelFft_general sfft a ω logN logCpus _ hle hm
    (fun k => Classical.choose (hc k))
    (fun k _ => (Classical.choose_spec (hc k)).1)
    (fun k _ => (Classical.choose_spec (hc k)).2), by simp⟩

/-! ## 8. `best_fft` and the mixed-radix wrappers -/

theorem resize_length (l : List F) (n : Nat) : (resize l n).length = n := by
  unfold resize
  simp only [List.length_append, List.length_take, List.length_replicate]; omega

theorem distributePowersPar_eq (T : Nat) (coeffs : List F) (g c : F) :
    distributePowersPar T coeffs g c = distributePowersSerial coeffs g c := by
  unfold distributePowersPar chunks
  have h := dps_chunks (max (coeffs.length / T) 1024) (by omega) g c coeffs.length coeffs 0
    (Nat.le_refl _)
  simp only [Nat.zero_mul, pow_zero, mul_one] at h
  exact h

theorem hornerChunked_eq (T : Nat) (coeffs : List F) (x : F) :
    hornerChunked T coeffs x = hornerEvaluate coeffs x := by
  unfold hornerChunked chunks
  have h := horner_chunks (max (coeffs.length / T) MIN_ELEMENTS_PER_THREAD)
    (by simp only [MIN_ELEMENTS_PER_THREAD]; omega) x coeffs.length coeffs 0 (Nat.le_refl _)
  simp only [Nat.zero_mul, pow_zero, mul_one] at h
  exact h

theorem bestFft_eq (T : Nat) (sfft : List F → F → Nat → Outcome (List F)) (a : List F) (ω : F)
    (logN : Nat)
    (hpar : log2Floor T < logN →
      2 ^ log2Floor T ∣ a.length ∧ ω ^ a.length = 1 ∧
      (∀ b : List F, b.length = a.length / 2 ^ log2Floor T →
        sfft b (ω ^ 2 ^ log2Floor T) (kAdicity 2 (a.length / 2 ^ log2Floor T))
          = .ok (naiveDft b (ω ^ 2 ^ log2Floor T))) ∧
      sfft a ω logN = .ok (naiveDft a ω)) :
    bestFft T sfft a ω logN = sfft a ω logN := by
  unfold bestFft
  simp only
  split
  · rfl
  · next h =>
    obtain ⟨hd, hω, hs, hf⟩ := hpar (by omega)
    rw [hf, parallelFft_eq sfft a ω logN _ (by omega) hd hω hs]

/-- what `best_fft` / the mixed-radix wrappers need from the `serial_fft` function pointer on a
    domain of `n` points generated by `ω`, when `T` threads are available: nothing if the serial
    branch is taken (`logN ≤ ⌊log₂ T⌋`); otherwise `2^⌊log₂ T⌋ ∣ n` (the second `assert` of
    `parallel_fft`; implied by `2^logN ∣ n`), `ω^n = 1`, and `sfft` is a DFT both on the `n`-point
    input and on the `n / 2^⌊log₂ T⌋`-point coset polynomials with generator `ω^(2^⌊log₂ T⌋)` -/
def SerialFftSpec (T : Nat) (sfft : List F → F → Nat → Outcome (List F)) (n : Nat) (ω : F)
    (logN : Nat) : Prop :=
  log2Floor T < logN →
    2 ^ log2Floor T ∣ n ∧ ω ^ n = 1 ∧
    (∀ b : List F, b.length = n / 2 ^ log2Floor T →
      sfft b (ω ^ 2 ^ log2Floor T) (kAdicity 2 (n / 2 ^ log2Floor T))
        = .ok (naiveDft b (ω ^ 2 ^ log2Floor T))) ∧
    (∀ b : List F, b.length = n → sfft b ω logN = .ok (naiveDft b ω))

theorem bestFft_eq_of_spec (T : Nat) (sfft : List F → F → Nat → Outcome (List F)) (a : List F)
    (ω : F) (logN : Nat) (h : SerialFftSpec T sfft a.length ω logN) :
    bestFft T sfft a ω logN = sfft a ω logN :=
  bestFft_eq T sfft a ω logN (fun hl => by
    obtain ⟨h1, h2, h3, h4⟩ := h hl
    exact ⟨h1, h2, h3, h4 a rfl⟩)

theorem mixedFftPar_eq (T : Nat) (sfft : List F → F → Nat → Outcome (List F)) (d : MixedDomain F)
    (coeffs : List F) (h : SerialFftSpec T sfft d.size d.groupGen d.logSizeOfGroup) :
    mixedFftPar T sfft d coeffs = mixedFftSerial sfft d coeffs := by
  unfold mixedFftPar mixedFftSerial
  simp only [distributePowersPar_eq]
  exact bestFft_eq_of_spec T sfft _ _ _ (by rw [resize_length]; exact h)

theorem mixedIfftPar_eq (T : Nat) (sfft : List F → F → Nat → Outcome (List F)) (d : MixedDomain F)
    (evals : List F) (h : SerialFftSpec T sfft d.size d.groupGenInv d.logSizeOfGroup) :
    mixedIfftPar T sfft d evals = mixedIfftSerial sfft d evals := by
  unfold mixedIfftPar mixedIfftSerial
  rw [bestFft_eq_of_spec T sfft _ _ _ (by rw [resize_length]; exact h)]
  simp only [distributePowersPar_eq]

/-! ## 9. `evaluate` -/

theorem polyIsZero_iff (coeffs : List F) : polyIsZero coeffs = true ↔ ∀ c ∈ coeffs, c = 0 := by
  unfold polyIsZero
  cases coeffs with
  | nil => simp
  | cons a as => simp

theorem evaluateSerial_eq_horner (coeffs : List F) (x : F) :
    evaluateSerial coeffs x = hornerEvaluate coeffs x := by
  unfold evaluateSerial
  split
  · next h => rw [horner_all_zero coeffs ((polyIsZero_iff coeffs).1 h)]
  · split
    · next hx =>
      subst hx
      cases coeffs with
      | nil => rfl
      | cons c cs => simp [horner_cons]
    · rfl

theorem evaluatePar_eq_serial (T : Nat) (coeffs : List F) (x : F) :
    evaluatePar T coeffs x = evaluateSerial coeffs x := by
  unfold evaluatePar evaluateSerial
  rw [hornerChunked_eq]

end Field
end Ark.Par
