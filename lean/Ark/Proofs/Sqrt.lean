import Ark.Model.Sqrt
import Ark.Proofs.ExtB
import Mathlib.Tactic.Ring
import Mathlib.Tactic.FieldSimp
import Mathlib.Tactic.Linarith
import Mathlib.Tactic.LinearCombination
import Mathlib.FieldTheory.Finite.Basic
import Mathlib.NumberTheory.LegendreSymbol.Basic
import Mathlib.NumberTheory.LegendreSymbol.QuadraticChar.Basic
/-
  Helper lemmas for C11 — square roots and Legendre symbols (`Ark.Model.Sqrt`).

  The model is generic over core operator classes; here it is read over a finite field
  `[Field F] [Fintype F] [DecidableEq F]`, `q = |F|`, with the squaring hook `sq` constrained by
  `hsq : ∀ a, sq a = a * a`.
-/
set_option linter.style.haveILetI false
set_option linter.unusedSectionVars false
set_option linter.unusedVariables false

namespace Ark.SqrtP
open Ark Ark.Ext Ark.ExtB Ark.Sqrt

/-! ## 1. `Field::pow` -/

section powsec
variable {M : Type} [Monoid M] [Zero M] [DecidableEq M]

theorem bitsAux_append (fuel n : Nat) (acc : List Bool) :
    bitsAux fuel n acc = bitsAux fuel n [] ++ acc := by
  induction fuel generalizing n acc with
  | zero => simp [bitsAux]
  | succ f ih =>
    unfold bitsAux
    split
    · simp
    · rw [ih (n / 2) (_ :: acc), ih (n / 2) [_]]
      simp

/-- one step of the square-and-multiply loop -/
def powStep (sq : M → M) (a : M) (res : M) (bit : Bool) : M :=
  let s := sq res; if bit then s * a else s

theorem foldl_bitsAux (sq : M → M) (hsq : ∀ a, sq a = a * a) (a : M) (fuel n : Nat)
    (h : n < 2 ^ fuel) :
    (bitsAux fuel n []).foldl (powStep sq a) 1 = a ^ n := by
  induction fuel generalizing n with
  | zero =>
    have : n = 0 := by simpa using h
    subst this
    simp [bitsAux]
  | succ f ih =>
    unfold bitsAux
    split
    · rename_i h0; subst h0; simp
    · rw [bitsAux_append, List.foldl_append, ih (n / 2) (by rw [pow_succ] at h; omega)]
      simp only [List.foldl_cons, List.foldl_nil, powStep, hsq]
      have hn : n = 2 * (n / 2) + n % 2 := by omega
      rcases Nat.mod_two_eq_zero_or_one n with h2 | h2
      · simp only [h2]
        conv_rhs => rw [hn, h2, add_zero, two_mul, pow_add]
        simp
      · simp only [h2]
        conv_rhs => rw [hn, h2, pow_add, two_mul, pow_add, pow_one]
        simp

/-- `Field::pow` computes the power -/
theorem pow_eq (sq : M → M) (hsq : ∀ a, sq a = a * a) (a : M) (e : Nat) :
    Sqrt.pow sq a e = a ^ e := by
  have := foldl_bitsAux sq hsq a (e.log2 + 1) e Nat.lt_log2_self
  exact this

theorem iter_sq (sq : M → M) (hsq : ∀ a, sq a = a * a) (n : Nat) (z : M) :
    Sqrt.iter sq n z = z ^ 2 ^ n := by
  induction n generalizing z with
  | zero => simp [Sqrt.iter]
  | succ n ih =>
    rw [Sqrt.iter, ih, hsq, ← pow_two, ← pow_mul, pow_succ, mul_comm]

end powsec

/-! ## 2. finite-field facts -/

section ff
variable {F : Type} [Field F] [Fintype F] [DecidableEq F]

theorem char_ne_two_of_odd (h : Fintype.card F % 2 = 1) : ringChar F ≠ 2 := by
  intro h2
  have := FiniteField.even_card_of_char_two h2
  omega

theorem neg_one_ne_one (hF : ringChar F ≠ 2) : (-1 : F) ≠ 1 :=
  Ring.neg_one_ne_one_of_char_ne_two hF

theorem card_div_two_pos (hF : ringChar F ≠ 2) : 0 < Fintype.card F / 2 := by
  have h1 := FiniteField.odd_card_of_char_ne_two hF
  have h2 : 1 < Fintype.card F := Fintype.one_lt_card
  omega

/-- Euler's criterion, non-residue form -/
theorem not_isSquare_iff (hF : ringChar F ≠ 2) {a : F} (ha : a ≠ 0) :
    ¬ IsSquare a ↔ a ^ (Fintype.card F / 2) = -1 := by
  rw [FiniteField.isSquare_iff hF ha]
  rcases FiniteField.pow_dichotomy hF ha with h | h
  · rw [h]; simp [(neg_one_ne_one hF).symm]
  · rw [h]; simp [neg_one_ne_one hF]

theorem isSquare_mul_of_not (hF : ringChar F ≠ 2) {a b : F} (ha : ¬ IsSquare a) (hb : ¬ IsSquare b) :
    IsSquare (a * b) := by
  have ha0 : a ≠ 0 := by rintro rfl; exact ha ⟨0, by simp⟩
  have hb0 : b ≠ 0 := by rintro rfl; exact hb ⟨0, by simp⟩
  rw [FiniteField.isSquare_iff hF (mul_ne_zero ha0 hb0), mul_pow,
    (not_isSquare_iff hF ha0).mp ha, (not_isSquare_iff hF hb0).mp hb]
  simp

theorem not_isSquare_mul (hF : ringChar F ≠ 2) {a b : F} (ha : ¬ IsSquare a) (hb : IsSquare b)
    (hb0 : b ≠ 0) : ¬ IsSquare (a * b) := by
  have ha0 : a ≠ 0 := by rintro rfl; exact ha ⟨0, by simp⟩
  rw [not_isSquare_iff hF (mul_ne_zero ha0 hb0), mul_pow,
    (not_isSquare_iff hF ha0).mp ha, (FiniteField.isSquare_iff hF hb0).mp hb]
  simp

/-- a non-square exists only in odd characteristic -/
theorem char_ne_two_of_nonsquare {β : F} (h : ¬ IsSquare β) : ringChar F ≠ 2 :=
  fun h2 => h (FiniteField.isSquare_of_char_two h2 β)

end ff

/-! ## 3. `Case3Mod4` -/

section c3m4
variable {F : Type} [Field F] [Fintype F] [DecidableEq F]

theorem sqrt3Mod4_sound (sq : F → F) (hsq : ∀ a, sq a = a * a) (e : Nat) (x y : F)
    (h : sqrt3Mod4 sq e x = some y) : y * y = x := by
  unfold sqrt3Mod4 at h
  simp only [hsq] at h
  split at h
  · rename_i h1
    cases h
    exact h1
  · cases h

theorem sqrt3Mod4_complete (sq : F → F) (hsq : ∀ a, sq a = a * a) (e : Nat) (x : F)
    (hq : Fintype.card F % 4 = 3) (he : e = (Fintype.card F + 1) / 4) (hx : IsSquare x) :
    sqrt3Mod4 sq e x = some (x ^ e) := by
  have hF : ringChar F ≠ 2 := char_ne_two_of_odd (by omega)
  unfold sqrt3Mod4
  simp only [hsq, pow_eq sq hsq]
  rw [if_pos]
  by_cases hx0 : x = 0
  · subst hx0
    have : e ≠ 0 := by omega
    simp [this]
  · have h1 := (FiniteField.isSquare_iff hF hx0).mp hx
    have h2 : e + e = Fintype.card F / 2 + 1 := by omega
    rw [← pow_add, h2, pow_succ, h1, one_mul]

theorem sqrt3Mod4_none_iff (sq : F → F) (hsq : ∀ a, sq a = a * a) (e : Nat) (x : F)
    (hq : Fintype.card F % 4 = 3) (he : e = (Fintype.card F + 1) / 4) :
    sqrt3Mod4 sq e x = none ↔ ¬ IsSquare x := by
  constructor
  · intro h hx
    rw [sqrt3Mod4_complete sq hsq e x hq he hx] at h
    cases h
  · intro hx
    cases h : sqrt3Mod4 sq e x with
    | none => rfl
    | some y => exact absurd ⟨y, (sqrt3Mod4_sound sq hsq e x y h).symm⟩ hx

theorem sqrt3Mod4_zero (sq : F → F) (hsq : ∀ a, sq a = a * a) (e : Nat) (he : e ≠ 0) :
    sqrt3Mod4 sq e (0 : F) = some 0 := by
  unfold sqrt3Mod4
  simp [hsq, pow_eq sq hsq, he]

end c3m4

/-! ## 4. Legendre symbol by Euler's criterion -/

/-- what a Legendre symbol must say about `x` -/
def LegSpec {K : Type} [Mul K] [Zero K] (l : Legendre) (x : K) : Prop :=
  (l = .zero ↔ x = 0) ∧ (l = .qr ↔ x ≠ 0 ∧ IsSquare x) ∧ (l = .qnr ↔ ¬ IsSquare x)

theorem LegSpec.unique {K : Type} [Mul K] [Zero K] {l l' : Legendre} {x : K}
    (h : LegSpec l x) (h' : LegSpec l' x) : l = l' := by
  obtain ⟨a1, a2, a3⟩ := h
  obtain ⟨b1, b2, b3⟩ := h'
  cases l with
  | zero => exact (b1.mpr (a1.mp rfl)).symm
  | qr => exact (b2.mpr (a2.mp rfl)).symm
  | qnr => exact (b3.mpr (a3.mp rfl)).symm

section legendre
variable {F : Type} [Field F] [Fintype F] [DecidableEq F]

theorem legendreEuler_legSpec (sq : F → F) (hsq : ∀ a, sq a = a * a) (hF : ringChar F ≠ 2)
    (a : F) : LegSpec (legendreEuler sq (Fintype.card F / 2) a) a := by
  unfold legendreEuler
  simp only [pow_eq sq hsq]
  have hpos := card_div_two_pos hF
  by_cases ha : a = 0
  · subst ha
    rw [zero_pow (by omega), if_pos rfl]
    refine ⟨by simp, by simp, ?_⟩
    simp only [reduceCtorEq, false_iff, not_not]
    exact ⟨0, by simp⟩
  · have hne : a ^ (Fintype.card F / 2) ≠ 0 := pow_ne_zero _ ha
    rw [if_neg hne]
    rcases FiniteField.pow_dichotomy hF ha with h | h
    · rw [h, if_pos rfl]
      have hs := (FiniteField.isSquare_iff hF ha).mpr h
      exact ⟨by simp [ha], by simp [ha, hs], by simp [hs]⟩
    · rw [h, if_neg (neg_one_ne_one hF)]
      have hs := (not_isSquare_iff hF ha).mpr h
      exact ⟨by simp [ha], by simp [hs], by simp [hs]⟩

theorem legSpec_toInt_quadraticChar {l : Legendre} {a : F} (h : LegSpec l a) :
    l.toInt = quadraticChar F a := by
  obtain ⟨h1, h2, h3⟩ := h
  cases l with
  | zero => rw [(h1.mp rfl), quadraticChar_zero]; rfl
  | qr =>
    obtain ⟨h0, hs⟩ := h2.mp rfl
    rw [(quadraticChar_one_iff_isSquare h0).mpr hs]; rfl
  | qnr =>
    rw [quadraticChar_neg_one_iff_not_isSquare.mpr (h3.mp rfl)]; rfl

end legendre

section zmodleg
variable (p : ℕ) [Fact p.Prime]

theorem zmod_char_ne_two (hp : p ≠ 2) : ringChar (ZMod p) ≠ 2 := by
  rw [ZMod.ringChar_zmod_n]; exact hp

theorem legendreEuler_zmod_legSpec (hp : p ≠ 2) (sq : ZMod p → ZMod p)
    (hsq : ∀ a, sq a = a * a) (a : ZMod p) : LegSpec (legendreEuler sq (p / 2) a) a := by
  have := legendreEuler_legSpec sq hsq (zmod_char_ne_two p hp) a
  rwa [ZMod.card] at this

theorem legendreEuler_zmod_legendreSym (hp : p ≠ 2) (sq : ZMod p → ZMod p)
    (hsq : ∀ a, sq a = a * a) (a : ℤ) :
    (legendreEuler sq (p / 2) (a : ZMod p)).toInt = legendreSym p a := by
  rw [legSpec_toInt_quadraticChar (legendreEuler_zmod_legSpec p hp sq hsq a)]
  rfl

end zmodleg

/-! ## 5. Tonelli–Shanks -/

section findk
variable {M : Type} [Monoid M] [Zero M] [DecidableEq M]

theorem pow_two_pow_of_le {c : M} {n i : Nat} (h : c ^ 2 ^ n = 1) (hi : n ≤ i) : c ^ 2 ^ i = 1 := by
  obtain ⟨d, rfl⟩ := Nat.exists_eq_add_of_le hi
  rw [pow_add, pow_mul, h, one_pow]

/-- the inner loop returns the least `n` with `c^(2^n) = 1` (offset by the start counter) -/
theorem findK_of_min (sq : M → M) (hsq : ∀ a, sq a = a * a) (n : Nat) :
    ∀ (fuel : Nat) (c : M) (k : Nat), c ^ 2 ^ n = 1 → (∀ i, i < n → c ^ 2 ^ i ≠ 1) → n < fuel →
      findK sq fuel c k = some (k + n) := by
  induction n with
  | zero =>
    intro fuel c k h _ hf
    obtain ⟨f, rfl⟩ := Nat.exists_eq_succ_of_ne_zero (by omega : fuel ≠ 0)
    have hc : c = 1 := by simpa using h
    simp [findK, hc]
  | succ n ih =>
    intro fuel c k h hmin hf
    obtain ⟨f, rfl⟩ := Nat.exists_eq_succ_of_ne_zero (by omega : fuel ≠ 0)
    have hc : c ≠ 1 := by simpa using hmin 0 (by omega)
    rw [findK, if_neg hc, ih f (sq c) (k + 1)]
    · congr 1; omega
    · rw [hsq, ← pow_two, ← pow_mul, ← pow_succ']; exact h
    · intro i hi
      rw [hsq, ← pow_two, ← pow_mul, ← pow_succ']
      exact hmin (i + 1) (by omega)
    · omega

/-- existence of the least exponent -/
theorem exists_min_two_pow {c : M} {n : Nat} (h : c ^ 2 ^ n = 1) :
    ∃ k, k ≤ n ∧ c ^ 2 ^ k = 1 ∧ ∀ i, i < k → c ^ 2 ^ i ≠ 1 := by
  classical
  have hex : ∃ k, c ^ 2 ^ k = 1 := ⟨n, h⟩
  exact ⟨Nat.find hex, Nat.find_min' hex h, Nat.find_spec hex, fun i hi => Nat.find_min hex hi⟩

/-- `findK_spec`: with `b^(2^s) = 1` the inner loop (fuel `s + 1`) finds the least `k`, and `k ≤ s` -/
theorem findK_spec (sq : M → M) (hsq : ∀ a, sq a = a * a) (s : Nat) (b : M) (h : b ^ 2 ^ s = 1) :
    ∃ k, findK sq (s + 1) b 0 = some k ∧ k ≤ s ∧ b ^ 2 ^ k = 1 ∧ ∀ i, i < k → b ^ 2 ^ i ≠ 1 := by
  obtain ⟨k, hk, h1, hmin⟩ := exists_min_two_pow h
  refine ⟨k, ?_, hk, h1, hmin⟩
  have := findK_of_min sq hsq k (s + 1) b 0 h1 hmin (by omega)
  simpa using this

end findk

@[simp] theorem bind_ok {α β : Type} (a : α) (f : α → Res β) : (Res.ok a).bind f = f a := rfl
@[simp] theorem bind_panic {α β : Type} (f : α → Res β) : (Res.panic : Res α).bind f = .panic := rfl
@[simp] theorem bind_diverge {α β : Type} (f : α → Res β) :
    (Res.diverge : Res α).bind f = .diverge := rfl

section ts
variable {F : Type} [Field F] [DecidableEq F]

/-- **loop invariant of Tonelli–Shanks** (Appendix A.6): from `x² = a·b`, `b^(2^(v-1)) = 1`,
    `z^(2^(v-1)) = -1`, `1 ≤ v ≤ s` and fuel `> v`, the loop ends with a square root of `a`. -/
theorem tsLoop_invariant (sq : F → F) (hsq : ∀ a, sq a = a * a) (s : Nat) (a : F) :
    ∀ (fuel : Nat) (z b x : F) (v : Nat),
      x * x = a * b → b ^ 2 ^ (v - 1) = 1 → z ^ 2 ^ (v - 1) = -1 → 1 ≤ v → v ≤ s → v < fuel →
      ∃ x', tsLoop sq s fuel z b x v = .ok (some x') ∧ x' * x' = a := by
  intro fuel
  induction fuel with
  | zero => intro z b x v _ _ _ _ _ hf; omega
  | succ fuel ih =>
    intro z b x v hx hb hz hv1 hvs hf
    by_cases hb1 : b = 1
    · refine ⟨x, ?_, ?_⟩
      · rw [tsLoop, if_pos hb1]
      · rw [hx, hb1, mul_one]
    · obtain ⟨k, hkv, hk1, hkmin⟩ := exists_min_two_pow hb
      have hk0 : k ≠ 0 := by
        rintro rfl
        exact hb1 (by simpa using hk1)
      have hfind : findK sq (s + 1) b 0 = some k := by
        have := findK_of_min sq hsq k (s + 1) b 0 hk1 hkmin (by omega)
        simpa using this
      have hks : k ≠ s := by omega
      have hvk : ¬ v < k := by omega
      rw [tsLoop, if_neg hb1, hfind]
      simp only [if_neg hks, if_neg hvk]
      -- the update
      have hw : Sqrt.iter sq (v - k - 1) z = z ^ 2 ^ (v - k - 1) := iter_sq sq hsq _ z
      have hz' : sq (Sqrt.iter sq (v - k - 1) z) = z ^ 2 ^ (v - k) := by
        rw [hw, hsq, ← pow_two, ← pow_mul, ← pow_succ]
        congr 2; omega
      have hz'k : (z ^ 2 ^ (v - k)) ^ 2 ^ (k - 1) = -1 := by
        rw [← pow_mul, ← pow_add, ← hz]
        congr 2; omega
      have hc : b ^ 2 ^ (k - 1) = -1 := by
        have h1 : b ^ 2 ^ (k - 1) * b ^ 2 ^ (k - 1) = 1 := by
          rw [← pow_two, ← pow_mul, ← pow_succ, ← hk1]
          congr 2; omega
        rcases mul_self_eq_one_iff.mp h1 with h | h
        · exact absurd h (hkmin (k - 1) (by omega))
        · exact h
      apply ih
      · rw [hz', hw]
        have : z ^ 2 ^ (v - k) = z ^ 2 ^ (v - k - 1) * z ^ 2 ^ (v - k - 1) := by
          rw [← pow_two, ← pow_mul, ← pow_succ]
          congr 2; omega
        rw [this]
        linear_combination (z ^ 2 ^ (v - k - 1) * z ^ 2 ^ (v - k - 1)) * hx
      · rw [hz', mul_pow, hc, hz'k]; simp
      · rw [hz']; exact hz'k
      · omega
      · omega
      · omega

/-- first round on a non-residue: the least `k` is `s` and the loop returns `None` -/
theorem tsLoop_first_none (sq : F → F) (hsq : ∀ a, sq a = a * a) (s : Nat) (fuel : Nat)
    (z b x : F) (v : Nat) (hs : 1 ≤ s) (hb : b ^ 2 ^ s = 1) (hb' : b ^ 2 ^ (s - 1) ≠ 1) :
    tsLoop sq s (fuel + 1) z b x v = .ok none := by
  have hb1 : b ≠ 1 := by
    rintro rfl; simp at hb'
  have hmin : ∀ i, i < s → b ^ 2 ^ i ≠ 1 := fun i hi h =>
    hb' (pow_two_pow_of_le h (by omega))
  have hfind : findK sq (s + 1) b 0 = some s := by
    have := findK_of_min sq hsq s (s + 1) b 0 hb hmin (by omega)
    simpa using this
  rw [tsLoop, if_neg hb1, hfind]
  simp

/-- the whole loop as called by `sqrt`: `v = s`, fuel `s + 1`, only `b^(2^s) = 1` known -/
theorem tsLoop_spec (sq : F → F) (hsq : ∀ a, sq a = a * a) (s : Nat) (a z b x : F)
    (hs : 1 ≤ s) (hz : z ^ 2 ^ (s - 1) = -1) (hx : x * x = a * b) (hb : b ^ 2 ^ s = 1) :
    (b ^ 2 ^ (s - 1) = 1 → ∃ x', tsLoop sq s (s + 1) z b x s = .ok (some x') ∧ x' * x' = a) ∧
    (b ^ 2 ^ (s - 1) ≠ 1 → tsLoop sq s (s + 1) z b x s = .ok none) :=
  ⟨fun h => tsLoop_invariant sq hsq s a (s + 1) z b x s hx h hz hs (le_refl _) (by omega),
   fun h => tsLoop_first_none sq hsq s s z b x s hs hb h⟩

theorem sqrtTS_sound (dbg : Bool) (sq : F → F) (hsq : ∀ a, sq a = a * a) (leg : F → Res Legendre)
    (s : Nat) (z : F) (m : Nat) (x y : F) (h : sqrtTS dbg sq leg s z m x = .ok (some y)) :
    y * y = x := by
  unfold sqrtTS at h
  split at h
  · rename_i h0
    cases h
    simp [h0]
  · simp only [] at h
    cases hl : tsLoop sq s (s + 1) z (pow sq x m * x * pow sq x m) (pow sq x m * x) s with
    | panic => rw [hl] at h; cases h
    | diverge => rw [hl] at h; cases h
    | ok r =>
      rw [hl] at h
      cases r with
      | none => cases h
      | some x' =>
        simp only [bind_ok] at h
        by_cases h1 : sq x' = x
        · rw [if_pos h1] at h
          cases h
          rw [← hsq]; exact h1
        · rw [if_neg h1] at h
          split at h
          · cases hleg : leg x with
            | panic => rw [hleg] at h; cases h
            | diverge => rw [hleg] at h; cases h
            | ok l =>
              rw [hleg] at h
              simp only [bind_ok] at h
              split at h <;> cases h
          · cases h

theorem sqrtTS_zero (dbg : Bool) (sq : F → F) (leg : F → Res Legendre) (s : Nat) (z : F) (m : Nat) :
    sqrtTS dbg sq leg s z m (0 : F) = .ok (some 0) := by
  unfold sqrtTS
  rw [if_pos rfl]

end ts

section tsfin
variable {F : Type} [Field F] [Fintype F] [DecidableEq F]

/-- valid Tonelli–Shanks constants: `q - 1 = 2^s·t`, `t = 2m + 1` odd (so `m = (t-1)/2`), `s ≥ 1`,
    and `z` of order exactly `2^s` -/
structure ValidTS (s : Nat) (z : F) (m : Nat) : Prop where
  card : Fintype.card F - 1 = 2 ^ s * (2 * m + 1)
  pos : 1 ≤ s
  root : z ^ 2 ^ (s - 1) = -1

theorem ValidTS.card_half {s : Nat} {z : F} {m : Nat} (h : ValidTS s z m) :
    Fintype.card F / 2 = 2 ^ (s - 1) * (2 * m + 1) := by
  have h1 := h.card
  have hq : 1 < Fintype.card F := Fintype.one_lt_card
  obtain ⟨s', rfl⟩ : ∃ s', s = s' + 1 := ⟨s - 1, by have := h.pos; omega⟩
  rw [pow_succ] at h1
  rw [Nat.add_sub_cancel]
  have : 2 ^ s' * 2 * (2 * m + 1) = 2 * (2 ^ s' * (2 * m + 1)) := by ring
  rw [this] at h1
  generalize 2 ^ s' * (2 * m + 1) = A at *
  omega

theorem ValidTS.char_ne_two {s : Nat} {z : F} {m : Nat} (h : ValidTS s z m) : ringChar F ≠ 2 := by
  apply char_ne_two_of_odd
  have h1 := h.card
  have hq : 1 < Fintype.card F := Fintype.one_lt_card
  obtain ⟨s', rfl⟩ : ∃ s', s = s' + 1 := ⟨s - 1, by have := h.pos; omega⟩
  rw [pow_succ] at h1
  have : 2 ^ s' * 2 * (2 * m + 1) = 2 * (2 ^ s' * (2 * m + 1)) := by ring
  omega

/-- the state on entry of the loop: `x = a^(m+1)`, `b = a^(2m+1)`; `b^(2^(s-1)) = a^((q-1)/2)` -/
theorem ts_entry {s : Nat} {z : F} {m : Nat} (h : ValidTS s z m) (a : F) (ha : a ≠ 0) :
    (a ^ m * a) * (a ^ m * a) = a * (a ^ m * a * a ^ m) ∧
    (a ^ m * a * a ^ m) ^ 2 ^ s = 1 ∧
    (a ^ m * a * a ^ m) ^ 2 ^ (s - 1) = a ^ (Fintype.card F / 2) := by
  have hb : a ^ m * a * a ^ m = a ^ (2 * m + 1) := by ring
  refine ⟨by ring, ?_, ?_⟩
  · rw [hb, ← pow_mul, mul_comm, ← h.card]
    exact FiniteField.pow_card_sub_one_eq_one a ha
  · rw [hb, ← pow_mul, mul_comm, h.card_half]

/-- **Tonelli–Shanks is complete**: with valid constants (any two-adicity `s ≥ 1`), on `x ≠ 0` it
    returns a square root when `x` is a square and `None` otherwise; never panics, never diverges;
    independent of `dbg` and of the `legendre` used by the debug assertion. -/
theorem sqrtTS_spec (dbg : Bool) (sq : F → F) (hsq : ∀ a, sq a = a * a) (leg : F → Res Legendre)
    {s : Nat} {z : F} {m : Nat} (h : ValidTS s z m) (x : F) (hx : x ≠ 0) :
    (IsSquare x → ∃ y, sqrtTS dbg sq leg s z m x = .ok (some y) ∧ y * y = x) ∧
    (¬ IsSquare x → sqrtTS dbg sq leg s z m x = .ok none) := by
  have hF := h.char_ne_two
  obtain ⟨e1, e2, e3⟩ := ts_entry h x hx
  obtain ⟨l1, l2⟩ := tsLoop_spec sq hsq s x z (x ^ m * x * x ^ m) (x ^ m * x) h.pos h.root e1 e2
  rw [e3] at l1 l2
  constructor
  · intro hs
    obtain ⟨x', hx', hxx⟩ := l1 ((FiniteField.isSquare_iff hF hx).mp hs)
    refine ⟨x', ?_, hxx⟩
    unfold sqrtTS
    rw [if_neg hx]
    simp only [pow_eq sq hsq, hx', bind_ok, hsq, hxx, if_true]
  · intro hs
    have := l2 (by rw [(not_isSquare_iff hF hx).mp hs]; exact neg_one_ne_one hF)
    unfold sqrtTS
    rw [if_neg hx]
    simp only [pow_eq sq hsq, this, bind_ok]

/-- item 6, last clause: in the first round the loop returns `None` iff `a^((q-1)/2) = -1` -/
theorem tsLoop_first_round (sq : F → F) (hsq : ∀ a, sq a = a * a)
    {s : Nat} {z : F} {m : Nat} (h : ValidTS s z m) (a : F) (ha : a ≠ 0) :
    tsLoop sq s (s + 1) z (a ^ m * a * a ^ m) (a ^ m * a) s = .ok none ↔
      a ^ ((Fintype.card F - 1) / 2) = -1 := by
  have hF := h.char_ne_two
  have hodd := FiniteField.odd_card_of_char_ne_two hF
  have hdiv : (Fintype.card F - 1) / 2 = Fintype.card F / 2 := by omega
  rw [hdiv]
  obtain ⟨e1, e2, e3⟩ := ts_entry h a ha
  obtain ⟨l1, l2⟩ := tsLoop_spec sq hsq s a z (a ^ m * a * a ^ m) (a ^ m * a) h.pos h.root e1 e2
  rw [e3] at l1 l2
  constructor
  · intro hn
    rcases FiniteField.pow_dichotomy hF ha with h1 | h1
    · obtain ⟨x', hx', _⟩ := l1 h1
      rw [hx'] at hn; cases hn
    · exact h1
  · intro h1
    exact l2 (by rw [h1]; exact neg_one_ne_one hF)

theorem sqrtTS_complete (dbg : Bool) (sq : F → F) (hsq : ∀ a, sq a = a * a) (leg : F → Res Legendre)
    {s : Nat} {z : F} {m : Nat} (h : ValidTS s z m) (x : F) (hx : x ≠ 0) :
    (IsSquare x ↔ ∃ y, sqrtTS dbg sq leg s z m x = .ok (some y)) ∧
    (¬ IsSquare x ↔ sqrtTS dbg sq leg s z m x = .ok none) := by
  obtain ⟨h1, h2⟩ := sqrtTS_spec dbg sq hsq leg h x hx
  refine ⟨⟨fun hs => ?_, fun ⟨y, hy⟩ => ?_⟩, ⟨h2, fun hn hs => ?_⟩⟩
  · obtain ⟨y, hy, _⟩ := h1 hs; exact ⟨y, hy⟩
  · exact ⟨y, (sqrtTS_sound dbg sq hsq leg s z m x y hy).symm⟩
  · obtain ⟨y, hy, _⟩ := h1 hs
    rw [hy] at hn; cases hn

end tsfin

/-! ## 6. the square-root interface: specifications -/

/-- what `sqrt` must return on `x`: no panic, `None` exactly on non-squares, a root otherwise -/
def SqrtSpec {K : Type} [Mul K] (r : Res (Option K)) (x : K) : Prop :=
  ∃ o, r = .ok o ∧ (o = none ↔ ¬ IsSquare x) ∧ ∀ y, o = some y → y * y = x

/-- a dictionary `SqrtD` whose `legendre` and `sqrt` are correct -/
structure SqrtLawful {K : Type} [Mul K] [Zero K] (S : SqrtD K) : Prop where
  legendre : ∀ x, ∃ l, S.legendre x = .ok l ∧ LegSpec l x
  sqrt : ∀ x, SqrtSpec (S.sqrt x) x

theorem SqrtSpec.of_some {K : Type} [Mul K] {x y : K} (h : y * y = x) :
    SqrtSpec (.ok (some y)) x :=
  ⟨some y, rfl, ⟨fun h' => (by cases h'), fun hn => absurd ⟨y, h.symm⟩ hn⟩,
    fun y' hy => by cases hy; exact h⟩

theorem SqrtSpec.of_none {K : Type} [Mul K] {x : K} (h : ¬ IsSquare x) :
    SqrtSpec (.ok none) x :=
  ⟨none, rfl, ⟨fun _ => h, fun _ => rfl⟩, fun y hy => by cases hy⟩

section fieldsqrt
variable {F : Type} [Field F] [Fintype F] [DecidableEq F]

/-- validity of a `SqrtPrecomputation` for the field `F` -/
def ValidPre : Precomp F → Prop
  | .tonelliShanks s z m => ValidTS s z m
  | .case3Mod4 e => Fintype.card F % 4 = 3 ∧ e = (Fintype.card F + 1) / 4

theorem precomp_sqrt_spec (dbg : Bool) (sq : F → F) (hsq : ∀ a, sq a = a * a)
    (leg : F → Res Legendre) (pre : Precomp F) (hpre : ValidPre pre) (x : F) :
    SqrtSpec (pre.sqrt dbg sq leg x) x := by
  cases pre with
  | tonelliShanks s z m =>
    show SqrtSpec (sqrtTS dbg sq leg s z m x) x
    by_cases hx : x = 0
    · subst hx
      rw [sqrtTS_zero]
      exact SqrtSpec.of_some (by simp)
    · obtain ⟨h1, h2⟩ := sqrtTS_spec dbg sq hsq leg hpre x hx
      by_cases hs : IsSquare x
      · obtain ⟨y, hy, hyy⟩ := h1 hs
        rw [hy]; exact SqrtSpec.of_some hyy
      · rw [h2 hs]; exact SqrtSpec.of_none hs
  | case3Mod4 e =>
    show SqrtSpec (.ok (sqrt3Mod4 sq e x)) x
    obtain ⟨hq, he⟩ := hpre
    by_cases hs : IsSquare x
    · rw [sqrt3Mod4_complete sq hsq e x hq he hs]
      exact SqrtSpec.of_some (sqrt3Mod4_sound sq hsq e x _ (sqrt3Mod4_complete sq hsq e x hq he hs))
    · rw [(sqrt3Mod4_none_iff sq hsq e x hq he).mpr hs]
      exact SqrtSpec.of_none hs

theorem fieldSqrt_spec (dbg : Bool) (sq : F → F) (hsq : ∀ a, sq a = a * a)
    (leg : F → Res Legendre) (pre : Precomp F) (hpre : ValidPre pre) (x : F) :
    SqrtSpec (fieldSqrt dbg sq leg (some pre) x) x :=
  precomp_sqrt_spec dbg sq hsq leg pre hpre x

theorem fieldSqrt_none (dbg : Bool) (sq : F → F) (leg : F → Res Legendre) (x : F) :
    fieldSqrt dbg sq leg none x = .panic := rfl

/-- `Field::sqrt_in_place` -/
theorem sqrtInPlace_spec {K : Type} [Mul K] (sqrt : K → Res (Option K)) (x : K)
    (h : SqrtSpec (sqrt x) x) :
    (IsSquare x → ∃ y, sqrtInPlace sqrt x = .ok (y, some y) ∧ y * y = x) ∧
    (¬ IsSquare x → sqrtInPlace sqrt x = .ok (x, none)) := by
  obtain ⟨o, ho, hn, hs⟩ := h
  unfold sqrtInPlace
  rw [ho]
  cases o with
  | none => exact ⟨fun hx => absurd hx (hn.mp rfl), fun _ => rfl⟩
  | some y =>
    refine ⟨fun _ => ⟨y, rfl, hs y rfl⟩, fun hx => ?_⟩
    have := hn.mpr hx
    cases this

end fieldsqrt

/-! ## 7. constants of the Montgomery backend -/

section consts

theorem twoAdicAux_eq (s : Nat) : ∀ (fuel t s0 : Nat), t % 2 = 1 → 2 ^ s * t < 2 ^ fuel →
    twoAdicAux fuel (2 ^ s * t) s0 = (s0 + s, t) := by
  induction s with
  | zero =>
    intro fuel t s0 ht hf
    obtain ⟨f, rfl⟩ : ∃ f, fuel = f + 1 := ⟨fuel - 1, by
      rcases fuel with _ | f
      · simp at hf; omega
      · omega⟩
    rw [twoAdicAux]
    simp only [pow_zero, one_mul, add_zero]
    rw [if_neg (by omega)]
  | succ s ih =>
    intro fuel t s0 ht hf
    obtain ⟨f, rfl⟩ : ∃ f, fuel = f + 1 := ⟨fuel - 1, by
      rcases fuel with _ | f
      · have : 0 < 2 ^ (s + 1) * t := Nat.mul_pos (Nat.two_pow_pos (s + 1)) (by omega)
        simp at hf; omega
      · omega⟩
    have e : 2 ^ (s + 1) * t = 2 * (2 ^ s * t) := by ring
    rw [twoAdicAux, e, if_pos (by omega)]
    have e2 : 2 * (2 ^ s * t) / 2 = 2 ^ s * t := by omega
    have hf' : 2 * (2 ^ s * t) < 2 * 2 ^ f := by rw [← e, ← pow_succ']; exact hf
    rw [e2, ih f t (s0 + 1) ht (by omega)]
    congr 1; omega

/-- `two_adic_valuation` / `two_adic_coefficient`: `twoAdic m = (s, t)` for the unique
    decomposition `m - 1 = 2^s·t`, `t` odd -/
theorem twoAdic_eq (m s t : Nat) (h : m - 1 = 2 ^ s * t) (ht : t % 2 = 1) : twoAdic m = (s, t) := by
  unfold twoAdic
  rw [h]
  have := twoAdicAux_eq s ((2 ^ s * t).log2 + 1) t 0 ht Nat.lt_log2_self
  simpa using this

/-- every positive number is `2^s·t` with `t` odd -/
theorem exists_two_pow_mul_odd (n : Nat) (hn : 0 < n) : ∃ s t, n = 2 ^ s * t ∧ t % 2 = 1 := by
  induction n using Nat.strong_induction_on with
  | _ n ih =>
    rcases Nat.mod_two_eq_zero_or_one n with h | h
    · obtain ⟨s, t, hst, ht⟩ := ih (n / 2) (by omega) (by omega)
      exact ⟨s + 1, t, by rw [show 2 ^ (s + 1) * t = 2 * (2 ^ s * t) by ring, ← hst]; omega, ht⟩
    · exact ⟨0, n, by simp, h⟩

theorem twoAdic_spec (m : Nat) (hm : 1 < m) :
    m - 1 = 2 ^ (twoAdic m).1 * (twoAdic m).2 ∧ (twoAdic m).2 % 2 = 1 := by
  obtain ⟨s, t, hst, ht⟩ := exists_two_pow_mul_odd (m - 1) (by omega)
  rw [twoAdic_eq m s t hst ht]
  exact ⟨hst, ht⟩

theorem modulusPlusOneDivFour_eq (n m : Nat) (h4 : m % 4 = 3) (hlt : m < 2 ^ (64 * n)) :
    modulusPlusOneDivFour n m = some ((m + 1) / 4) := by
  have hn : n ≠ 0 := by
    rintro rfl
    simp at hlt; omega
  obtain ⟨k, hk⟩ : ∃ k, 64 * n = k + 2 := ⟨64 * n - 2, by omega⟩
  have hN : 2 ^ (64 * n) = 4 * 2 ^ k := by rw [hk, pow_add]; ring
  have hH : 2 ^ (64 * n - 1) = 2 * 2 ^ k := by
    have : 64 * n - 1 = k + 1 := by omega
    rw [this, pow_succ]; ring
  unfold modulusPlusOneDivFour
  rw [if_pos h4]
  simp only [hN, hH]
  rw [hN] at hlt
  have hG : 0 < 2 ^ k := Nat.two_pow_pos k
  generalize 2 ^ k = G at *
  congr 1
  by_cases hc : m + 1 = 4 * G
  · have h1 : (m + 1) / (4 * G) = 1 := by rw [hc]; exact Nat.div_self (by omega)
    have h2 : (m + 1) % (4 * G) = 0 := by rw [hc]; exact Nat.mod_self _
    rw [h1, h2]
    omega
  · have h1 : (m + 1) / (4 * G) = 0 := Nat.div_eq_of_lt (by omega)
    have h2 : (m + 1) % (4 * G) = m + 1 := Nat.mod_eq_of_lt (by omega)
    rw [h1, h2]
    omega

theorem modulusPlusOneDivFour_none (n m : Nat) (h4 : m % 4 ≠ 3) :
    modulusPlusOneDivFour n m = none := by
  unfold modulusPlusOneDivFour
  rw [if_neg h4]

/-- `sqrt_precomputation` -/
theorem sqrtPrecomputation_3mod4 {F : Type} (n p : Nat) (root : F) (h4 : p % 4 = 3)
    (hlt : p < 2 ^ (64 * n)) :
    sqrtPrecomputation n p root = some (.case3Mod4 ((p + 1) / 4)) := by
  unfold sqrtPrecomputation
  rw [if_pos h4, modulusPlusOneDivFour_eq n p h4 hlt]

theorem sqrtPrecomputation_ts {F : Type} (n p : Nat) (root : F) (h4 : p % 4 ≠ 3) (s t : Nat)
    (h : p - 1 = 2 ^ s * t) (ht : t % 2 = 1) :
    sqrtPrecomputation n p root = some (.tonelliShanks s root ((t - 1) / 2)) := by
  unfold sqrtPrecomputation
  rw [if_neg h4, twoAdic_eq p s t h ht]
  have : t / 2 = (t - 1) / 2 := by omega
  simp only [this]

section validroot
variable {F : Type} [Field F] [Fintype F] [DecidableEq F]

/-- `TWO_ADIC_ROOT_OF_UNITY = g^t` for a non-residue `g` gives valid Tonelli–Shanks constants -/
theorem validTS_of_nonresidue (s t : Nat) (h : Fintype.card F - 1 = 2 ^ s * t) (ht : t % 2 = 1)
    (g : F) (hg : ¬ IsSquare g) : ValidTS s (g ^ t) ((t - 1) / 2) := by
  have hF := char_ne_two_of_nonsquare hg
  have hodd := FiniteField.odd_card_of_char_ne_two hF
  have hq : 1 < Fintype.card F := Fintype.one_lt_card
  have ht' : 2 * ((t - 1) / 2) + 1 = t := by omega
  have hs : 1 ≤ s := by
    rcases s with _ | s
    · simp at h; omega
    · omega
  have hcard : Fintype.card F - 1 = 2 ^ s * (2 * ((t - 1) / 2) + 1) := by rw [ht']; exact h
  have hg0 : g ≠ 0 := by rintro rfl; exact hg ⟨0, by simp⟩
  refine ⟨hcard, hs, ?_⟩
  have hv : ValidTS s (1 : F) ((t - 1) / 2) → False ∨ True := fun _ => Or.inr trivial
  have half : Fintype.card F / 2 = 2 ^ (s - 1) * t := by
    obtain ⟨s', rfl⟩ : ∃ s', s = s' + 1 := ⟨s - 1, by omega⟩
    rw [pow_succ] at h
    rw [Nat.add_sub_cancel]
    have : 2 ^ s' * 2 * t = 2 * (2 ^ s' * t) := by ring
    rw [this] at h
    generalize 2 ^ s' * t = A at *
    omega
  rw [← pow_mul, mul_comm, ← half]
  exact (not_isSquare_iff hF hg0).mp hg

end validroot

end consts

end Ark.SqrtP
