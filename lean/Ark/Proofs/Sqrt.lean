import Ark.Model.Sqrt
import Ark.Proofs.ExtB
import Mathlib.Tactic.Ring
import Mathlib.Tactic.FieldSimp
import Mathlib.Tactic.Linarith
import Mathlib.Tactic.LinearCombination
import Mathlib.FieldTheory.Finite.Basic
import Mathlib.NumberTheory.LegendreSymbol.Basic
import Mathlib.NumberTheory.LegendreSymbol.QuadraticChar.Basic
/-
  Helper lemmas for C11 — square roots and Legendre symbols (`Ark.Model.Sqrt`).

  The model is generic over core operator classes; here it is read over a finite field
  `[Field F] [Fintype F] [DecidableEq F]`, `q = |F|`, with the squaring hook `sq` constrained by
  `hsq : ∀ a, sq a = a * a`.
-/
set_option linter.style.haveILetI false
set_option linter.unusedSectionVars false
set_option linter.unusedVariables false

namespace Ark.SqrtP
open Ark Ark.Ext Ark.ExtB Ark.Sqrt

/-! ## 1. `Field::pow` -/

section powsec
variable {M : Type} [Monoid M] [Zero M] [DecidableEq M]

theorem bitsAux_append (fuel n : Nat) (acc : List Bool) :
    bitsAux fuel n acc = bitsAux fuel n [] ++ acc := by
  induction fuel generalizing n acc with
  | zero => simp [bitsAux]
  | succ f ih =>
    unfold bitsAux
    split
    · simp
    · rw [ih (n / 2) (_ :: acc), ih (n / 2) [_]]
      simp

/-- one step of the square-and-multiply loop -/
def powStep (sq : M → M) (a : M) (res : M) (bit : Bool) : M :=
  let s := sq res; if bit then s * a else s

theorem foldl_bitsAux (sq : M → M) (hsq : ∀ a, sq a = a * a) (a : M) (fuel n : Nat)
    (h : n < 2 ^ fuel) :
    (bitsAux fuel n []).foldl (powStep sq a) 1 = a ^ n := by
  induction fuel generalizing n with
  | zero =>
    have : n = 0 := by simpa using h
    subst this
    simp [bitsAux]
  | succ f ih =>
    unfold bitsAux
    split
    · rename_i h0; subst h0; simp
    · rw [bitsAux_append, List.foldl_append, ih (n / 2) (by rw [pow_succ] at h; omega)]
      simp only [List.foldl_cons, List.foldl_nil, powStep, hsq]
      have hn : n = 2 * (n / 2) + n % 2 := by omega
      rcases Nat.mod_two_eq_zero_or_one n with h2 | h2
      · simp only [h2]
        conv_rhs => rw [hn, h2, add_zero, two_mul, pow_add]
        simp
      · simp only [h2]
        conv_rhs => rw [hn, h2, pow_add, two_mul, pow_add, pow_one]
        simp

/-- `Field::pow` computes the power -/
theorem pow_eq (sq : M → M) (hsq : ∀ a, sq a = a * a) (a : M) (e : Nat) :
    Sqrt.pow sq a e = a ^ e := by
  have := foldl_bitsAux sq hsq a (e.log2 + 1) e Nat.lt_log2_self
  exact this

theorem iter_sq (sq : M → M) (hsq : ∀ a, sq a = a * a) (n : Nat) (z : M) :
    Sqrt.iter sq n z = z ^ 2 ^ n := by
  induction n generalizing z with
  | zero => simp [Sqrt.iter]
  | succ n ih =>
    rw [Sqrt.iter, ih, hsq, ← pow_two, ← pow_mul, pow_succ, mul_comm]

end powsec

/-! ## 2. finite-field facts -/

section ff
variable {F : Type} [Field F] [Fintype F] [DecidableEq F]

theorem char_ne_two_of_odd (h : Fintype.card F % 2 = 1) : ringChar F ≠ 2 := by
  intro h2
  have := FiniteField.even_card_of_char_two h2
  omega

theorem neg_one_ne_one (hF : ringChar F ≠ 2) : (-1 : F) ≠ 1 :=
  Ring.neg_one_ne_one_of_char_ne_two hF

theorem card_div_two_pos (hF : ringChar F ≠ 2) : 0 < Fintype.card F / 2 := by
  have h1 := FiniteField.odd_card_of_char_ne_two hF
  have h2 : 1 < Fintype.card F := Fintype.one_lt_card
  omega

/-- Euler's criterion, non-residue form -/
theorem not_isSquare_iff (hF : ringChar F ≠ 2) {a : F} (ha : a ≠ 0) :
    ¬ IsSquare a ↔ a ^ (Fintype.card F / 2) = -1 := by
  rw [FiniteField.isSquare_iff hF ha]
  rcases FiniteField.pow_dichotomy hF ha with h | h
  · rw [h]; simp [(neg_one_ne_one hF).symm]
  · rw [h]; simp [neg_one_ne_one hF]

theorem isSquare_mul_of_not (hF : ringChar F ≠ 2) {a b : F} (ha : ¬ IsSquare a) (hb : ¬ IsSquare b) :
    IsSquare (a * b) := by
  have ha0 : a ≠ 0 := by rintro rfl; exact ha ⟨0, by simp⟩
  have hb0 : b ≠ 0 := by rintro rfl; exact hb ⟨0, by simp⟩
  rw [FiniteField.isSquare_iff hF (mul_ne_zero ha0 hb0), mul_pow,
    (not_isSquare_iff hF ha0).mp ha, (not_isSquare_iff hF hb0).mp hb]
  simp

theorem not_isSquare_mul (hF : ringChar F ≠ 2) {a b : F} (ha : ¬ IsSquare a) (hb : IsSquare b)
    (hb0 : b ≠ 0) : ¬ IsSquare (a * b) := by
  have ha0 : a ≠ 0 := by rintro rfl; exact ha ⟨0, by simp⟩
  rw [not_isSquare_iff hF (mul_ne_zero ha0 hb0), mul_pow,
    (not_isSquare_iff hF ha0).mp ha, (FiniteField.isSquare_iff hF hb0).mp hb]
  simp

/-- a non-square exists only in odd characteristic -/
theorem char_ne_two_of_nonsquare {β : F} (h : ¬ IsSquare β) : ringChar F ≠ 2 :=
  fun h2 => h (FiniteField.isSquare_of_char_two h2 β)

end ff

/-! ## 3. `Case3Mod4` -/

section c3m4
variable {F : Type} [Field F] [Fintype F] [DecidableEq F]

theorem sqrt3Mod4_sound (sq : F → F) (hsq : ∀ a, sq a = a * a) (e : Nat) (x y : F)
    (h : sqrt3Mod4 sq e x = some y) : y * y = x := by
  unfold sqrt3Mod4 at h
  simp only [hsq] at h
  split at h
  · rename_i h1
    cases h
    exact h1
  · cases h

theorem sqrt3Mod4_complete (sq : F → F) (hsq : ∀ a, sq a = a * a) (e : Nat) (x : F)
    (hq : Fintype.card F % 4 = 3) (he : e = (Fintype.card F + 1) / 4) (hx : IsSquare x) :
    sqrt3Mod4 sq e x = some (x ^ e) := by
  have hF : ringChar F ≠ 2 := char_ne_two_of_odd (by omega)
  unfold sqrt3Mod4
  simp only [hsq, pow_eq sq hsq]
  rw [if_pos]
  by_cases hx0 : x = 0
  · subst hx0
    have : e ≠ 0 := by omega
    simp [this]
  · have h1 := (FiniteField.isSquare_iff hF hx0).mp hx
    have h2 : e + e = Fintype.card F / 2 + 1 := by omega
    rw [← pow_add, h2, pow_succ, h1, one_mul]

theorem sqrt3Mod4_none_iff (sq : F → F) (hsq : ∀ a, sq a = a * a) (e : Nat) (x : F)
    (hq : Fintype.card F % 4 = 3) (he : e = (Fintype.card F + 1) / 4) :
    sqrt3Mod4 sq e x = none ↔ ¬ IsSquare x := by
  constructor
  · intro h hx
    rw [sqrt3Mod4_complete sq hsq e x hq he hx] at h
    cases h
  · intro hx
    cases h : sqrt3Mod4 sq e x with
    | none => rfl
    | some y => exact absurd ⟨y, (sqrt3Mod4_sound sq hsq e x y h).symm⟩ hx

theorem sqrt3Mod4_zero (sq : F → F) (hsq : ∀ a, sq a = a * a) (e : Nat) (he : e ≠ 0) :
    sqrt3Mod4 sq e (0 : F) = some 0 := by
  unfold sqrt3Mod4
  simp [hsq, pow_eq sq hsq, he]

end c3m4

/-! ## 4. Legendre symbol by Euler's criterion -/

/-- what a Legendre symbol must say about `x` -/
def LegSpec {K : Type} [Mul K] [Zero K] (l : Legendre) (x : K) : Prop :=
  (l = .zero ↔ x = 0) ∧ (l = .qr ↔ x ≠ 0 ∧ IsSquare x) ∧ (l = .qnr ↔ ¬ IsSquare x)

theorem LegSpec.unique {K : Type} [Mul K] [Zero K] {l l' : Legendre} {x : K}
    (h : LegSpec l x) (h' : LegSpec l' x) : l = l' := by
  obtain ⟨a1, a2, a3⟩ := h
  obtain ⟨b1, b2, b3⟩ := h'
  cases l with
  | zero => exact (b1.mpr (a1.mp rfl)).symm
  | qr => exact (b2.mpr (a2.mp rfl)).symm
  | qnr => exact (b3.mpr (a3.mp rfl)).symm

theorem exists_legSpec {K : Type} [MulZeroClass K] (x : K) : ∃ l, LegSpec l x := by
  classical
  by_cases h0 : x = 0
  · refine ⟨.zero, by simp [h0], by simp [h0], ?_⟩
    simp only [reduceCtorEq, false_iff, not_not]
    exact ⟨0, by rw [h0, mul_zero]⟩
  · by_cases hs : IsSquare x
    · exact ⟨.qr, by simp [h0], by simp [h0, hs], by simp [hs]⟩
    · exact ⟨.qnr, by simp [h0], by simp [hs], by simp [hs]⟩

section legendre
variable {F : Type} [Field F] [Fintype F] [DecidableEq F]

theorem legendreEuler_legSpec (sq : F → F) (hsq : ∀ a, sq a = a * a) (hF : ringChar F ≠ 2)
    (a : F) : LegSpec (legendreEuler sq (Fintype.card F / 2) a) a := by
  unfold legendreEuler
  simp only [pow_eq sq hsq]
  have hpos := card_div_two_pos hF
  by_cases ha : a = 0
  · subst ha
    rw [zero_pow (by omega), if_pos rfl]
    refine ⟨by simp, by simp, ?_⟩
    simp only [reduceCtorEq, false_iff, not_not]
    exact ⟨0, by simp⟩
  · have hne : a ^ (Fintype.card F / 2) ≠ 0 := pow_ne_zero _ ha
    rw [if_neg hne]
    rcases FiniteField.pow_dichotomy hF ha with h | h
    · rw [h, if_pos rfl]
      have hs := (FiniteField.isSquare_iff hF ha).mpr h
      exact ⟨by simp [ha], by simp [ha, hs], by simp [hs]⟩
    · rw [h, if_neg (neg_one_ne_one hF)]
      have hs := (not_isSquare_iff hF ha).mpr h
      exact ⟨by simp [ha], by simp [hs], by simp [hs]⟩

theorem legSpec_toInt_quadraticChar {l : Legendre} {a : F} (h : LegSpec l a) :
    l.toInt = quadraticChar F a := by
  obtain ⟨h1, h2, h3⟩ := h
  cases l with
  | zero => rw [(h1.mp rfl), quadraticChar_zero]; rfl
  | qr =>
    obtain ⟨h0, hs⟩ := h2.mp rfl
    rw [(quadraticChar_one_iff_isSquare h0).mpr hs]; rfl
  | qnr =>
    rw [quadraticChar_neg_one_iff_not_isSquare.mpr (h3.mp rfl)]; rfl

end legendre

instance fact13 : Fact (Nat.Prime 13) := ⟨by decide⟩
instance fact17 : Fact (Nat.Prime 17) := ⟨by decide⟩

section zmodleg
variable (p : ℕ) [Fact p.Prime]

theorem zmod_char_ne_two (hp : p ≠ 2) : ringChar (ZMod p) ≠ 2 := by
  rw [ZMod.ringChar_zmod_n]; exact hp

theorem legendreEuler_zmod_legSpec (hp : p ≠ 2) (sq : ZMod p → ZMod p)
    (hsq : ∀ a, sq a = a * a) (a : ZMod p) : LegSpec (legendreEuler sq (p / 2) a) a := by
  have := legendreEuler_legSpec sq hsq (zmod_char_ne_two p hp) a
  rwa [ZMod.card] at this

theorem legendreEuler_zmod_legendreSym (hp : p ≠ 2) (sq : ZMod p → ZMod p)
    (hsq : ∀ a, sq a = a * a) (a : ℤ) :
    (legendreEuler sq (p / 2) (a : ZMod p)).toInt = legendreSym p a := by
  rw [legSpec_toInt_quadraticChar (legendreEuler_zmod_legSpec p hp sq hsq a)]
  rfl

end zmodleg

/-! ## 5. Tonelli–Shanks -/

section findk
variable {M : Type} [Monoid M] [Zero M] [DecidableEq M]

theorem pow_two_pow_of_le {c : M} {n i : Nat} (h : c ^ 2 ^ n = 1) (hi : n ≤ i) : c ^ 2 ^ i = 1 := by
  obtain ⟨d, rfl⟩ := Nat.exists_eq_add_of_le hi
  rw [pow_add, pow_mul, h, one_pow]

/-- the inner loop returns the least `n` with `c^(2^n) = 1` (offset by the start counter) -/
theorem findK_of_min (sq : M → M) (hsq : ∀ a, sq a = a * a) (n : Nat) :
    ∀ (fuel : Nat) (c : M) (k : Nat), c ^ 2 ^ n = 1 → (∀ i, i < n → c ^ 2 ^ i ≠ 1) → n < fuel →
      findK sq fuel c k = some (k + n) := by
  induction n with
  | zero =>
    intro fuel c k h _ hf
    obtain ⟨f, rfl⟩ := Nat.exists_eq_succ_of_ne_zero (by omega : fuel ≠ 0)
    have hc : c = 1 := by simpa using h
    simp [findK, hc]
  | succ n ih =>
    intro fuel c k h hmin hf
    obtain ⟨f, rfl⟩ := Nat.exists_eq_succ_of_ne_zero (by omega : fuel ≠ 0)
    have hc : c ≠ 1 := by simpa using hmin 0 (by omega)
    rw [findK, if_neg hc, ih f (sq c) (k + 1)]
    · congr 1; omega
    · rw [hsq, ← pow_two, ← pow_mul, ← pow_succ']; exact h
    · intro i hi
      rw [hsq, ← pow_two, ← pow_mul, ← pow_succ']
      exact hmin (i + 1) (by omega)
    · omega

/-- existence of the least exponent -/
theorem exists_min_two_pow {c : M} {n : Nat} (h : c ^ 2 ^ n = 1) :
    ∃ k, k ≤ n ∧ c ^ 2 ^ k = 1 ∧ ∀ i, i < k → c ^ 2 ^ i ≠ 1 := by
  classical
  have hex : ∃ k, c ^ 2 ^ k = 1 := ⟨n, h⟩
  exact ⟨Nat.find hex, Nat.find_min' hex h, Nat.find_spec hex, fun i hi => Nat.find_min hex hi⟩

/-- `findK_spec`: with `b^(2^s) = 1` the inner loop (fuel `s + 1`) finds the least `k`, and `k ≤ s` -/
theorem findK_spec (sq : M → M) (hsq : ∀ a, sq a = a * a) (s : Nat) (b : M) (h : b ^ 2 ^ s = 1) :
    ∃ k, findK sq (s + 1) b 0 = some k ∧ k ≤ s ∧ b ^ 2 ^ k = 1 ∧ ∀ i, i < k → b ^ 2 ^ i ≠ 1 := by
  obtain ⟨k, hk, h1, hmin⟩ := exists_min_two_pow h
  refine ⟨k, ?_, hk, h1, hmin⟩
  have := findK_of_min sq hsq k (s + 1) b 0 h1 hmin (by omega)
  simpa using this

end findk

@[simp] theorem bind_ok {α β : Type} (a : α) (f : α → Res β) : (Res.ok a).bind f = f a := rfl
@[simp] theorem bind_panic {α β : Type} (f : α → Res β) : (Res.panic : Res α).bind f = .panic := rfl
@[simp] theorem bind_diverge {α β : Type} (f : α → Res β) :
    (Res.diverge : Res α).bind f = .diverge := rfl

section ts
variable {F : Type} [Field F] [DecidableEq F]

/-- **loop invariant of Tonelli–Shanks** (Appendix A.6): from `x² = a·b`, `b^(2^(v-1)) = 1`,
    `z^(2^(v-1)) = -1`, `1 ≤ v ≤ s` and fuel `> v`, the loop ends with a square root of `a`. -/
theorem tsLoop_invariant (sq : F → F) (hsq : ∀ a, sq a = a * a) (s : Nat) (a : F) :
    ∀ (fuel : Nat) (z b x : F) (v : Nat),
      x * x = a * b → b ^ 2 ^ (v - 1) = 1 → z ^ 2 ^ (v - 1) = -1 → 1 ≤ v → v ≤ s → v < fuel →
      ∃ x', tsLoop sq s fuel z b x v = .ok (some x') ∧ x' * x' = a := by
  intro fuel
  induction fuel with
  | zero => intro z b x v _ _ _ _ _ hf; omega
  | succ fuel ih =>
    intro z b x v hx hb hz hv1 hvs hf
    by_cases hb1 : b = 1
    · refine ⟨x, ?_, ?_⟩
      · rw [tsLoop, if_pos hb1]
      · rw [hx, hb1, mul_one]
    · obtain ⟨k, hkv, hk1, hkmin⟩ := exists_min_two_pow hb
      have hk0 : k ≠ 0 := by
        rintro rfl
        exact hb1 (by simpa using hk1)
      have hfind : findK sq (s + 1) b 0 = some k := by
        have := findK_of_min sq hsq k (s + 1) b 0 hk1 hkmin (by omega)
        simpa using this
      have hks : k ≠ s := by omega
      have hvk : ¬ v < k := by omega
      rw [tsLoop, if_neg hb1, hfind]
      simp only [if_neg hks, if_neg hvk]
      -- the update
      have hw : Sqrt.iter sq (v - k - 1) z = z ^ 2 ^ (v - k - 1) := iter_sq sq hsq _ z
      have hz' : sq (Sqrt.iter sq (v - k - 1) z) = z ^ 2 ^ (v - k) := by
        rw [hw, hsq, ← pow_two, ← pow_mul, ← pow_succ]
        congr 2; omega
      have hz'k : (z ^ 2 ^ (v - k)) ^ 2 ^ (k - 1) = -1 := by
        rw [← pow_mul, ← pow_add, ← hz]
        congr 2; omega
      have hc : b ^ 2 ^ (k - 1) = -1 := by
        have h1 : b ^ 2 ^ (k - 1) * b ^ 2 ^ (k - 1) = 1 := by
          rw [← pow_two, ← pow_mul, ← pow_succ, ← hk1]
          congr 2; omega
        rcases mul_self_eq_one_iff.mp h1 with h | h
        · exact absurd h (hkmin (k - 1) (by omega))
        · exact h
      apply ih
      · rw [hz', hw]
        have : z ^ 2 ^ (v - k) = z ^ 2 ^ (v - k - 1) * z ^ 2 ^ (v - k - 1) := by
          rw [← pow_two, ← pow_mul, ← pow_succ]
          congr 2; omega
        rw [this]
        linear_combination (z ^ 2 ^ (v - k - 1) * z ^ 2 ^ (v - k - 1)) * hx
      · rw [hz', mul_pow, hc, hz'k]; simp
      · rw [hz']; exact hz'k
      · omega
      · omega
      · omega

/-- first round on a non-residue: the least `k` is `s` and the loop returns `None` -/
theorem tsLoop_first_none (sq : F → F) (hsq : ∀ a, sq a = a * a) (s : Nat) (fuel : Nat)
    (z b x : F) (v : Nat) (hs : 1 ≤ s) (hb : b ^ 2 ^ s = 1) (hb' : b ^ 2 ^ (s - 1) ≠ 1) :
    tsLoop sq s (fuel + 1) z b x v = .ok none := by
  have hb1 : b ≠ 1 := by
    rintro rfl; simp at hb'
  have hmin : ∀ i, i < s → b ^ 2 ^ i ≠ 1 := fun i hi h =>
    hb' (pow_two_pow_of_le h (by omega))
  have hfind : findK sq (s + 1) b 0 = some s := by
    have := findK_of_min sq hsq s (s + 1) b 0 hb hmin (by omega)
    simpa using this
  rw [tsLoop, if_neg hb1, hfind]
  simp

/-- the whole loop as called by `sqrt`: `v = s`, fuel `s + 1`, only `b^(2^s) = 1` known -/
theorem tsLoop_spec (sq : F → F) (hsq : ∀ a, sq a = a * a) (s : Nat) (a z b x : F)
    (hs : 1 ≤ s) (hz : z ^ 2 ^ (s - 1) = -1) (hx : x * x = a * b) (hb : b ^ 2 ^ s = 1) :
    (b ^ 2 ^ (s - 1) = 1 → ∃ x', tsLoop sq s (s + 1) z b x s = .ok (some x') ∧ x' * x' = a) ∧
    (b ^ 2 ^ (s - 1) ≠ 1 → tsLoop sq s (s + 1) z b x s = .ok none) :=
  ⟨fun h => tsLoop_invariant sq hsq s a (s + 1) z b x s hx h hz hs (le_refl _) (by omega),
   fun h => tsLoop_first_none sq hsq s s z b x s hs hb h⟩

theorem sqrtTS_sound (dbg : Bool) (sq : F → F) (hsq : ∀ a, sq a = a * a) (leg : F → Res Legendre)
    (s : Nat) (z : F) (m : Nat) (x y : F) (h : sqrtTS dbg sq leg s z m x = .ok (some y)) :
    y * y = x := by
  unfold sqrtTS at h
  split at h
  · rename_i h0
    cases h
    simp [h0]
  · simp only [] at h
    cases hl : tsLoop sq s (s + 1) z (pow sq x m * x * pow sq x m) (pow sq x m * x) s with
    | panic => rw [hl] at h; cases h
    | diverge => rw [hl] at h; cases h
    | ok r =>
      rw [hl] at h
      cases r with
      | none => cases h
      | some x' =>
        simp only [bind_ok] at h
        by_cases h1 : sq x' = x
        · rw [if_pos h1] at h
          cases h
          rw [← hsq]; exact h1
        · rw [if_neg h1] at h
          split at h
          · cases hleg : leg x with
            | panic => rw [hleg] at h; cases h
            | diverge => rw [hleg] at h; cases h
            | ok l =>
              rw [hleg] at h
              simp only [bind_ok] at h
              split at h <;> cases h
          · cases h

theorem sqrtTS_zero (dbg : Bool) (sq : F → F) (leg : F → Res Legendre) (s : Nat) (z : F) (m : Nat) :
    sqrtTS dbg sq leg s z m (0 : F) = .ok (some 0) := by
  unfold sqrtTS
  rw [if_pos rfl]

end ts

section tsfin
variable {F : Type} [Field F] [Fintype F] [DecidableEq F]

/-- valid Tonelli–Shanks constants: `q - 1 = 2^s·t`, `t = 2m + 1` odd (so `m = (t-1)/2`), `s ≥ 1`,
    and `z` of order exactly `2^s` -/
structure ValidTS (s : Nat) (z : F) (m : Nat) : Prop where
  card : Fintype.card F - 1 = 2 ^ s * (2 * m + 1)
  pos : 1 ≤ s
  root : z ^ 2 ^ (s - 1) = -1

theorem ValidTS.card_half {s : Nat} {z : F} {m : Nat} (h : ValidTS s z m) :
    Fintype.card F / 2 = 2 ^ (s - 1) * (2 * m + 1) := by
  have h1 := h.card
  have hq : 1 < Fintype.card F := Fintype.one_lt_card
  obtain ⟨s', rfl⟩ : ∃ s', s = s' + 1 := ⟨s - 1, by have := h.pos; omega⟩
  rw [pow_succ] at h1
  rw [Nat.add_sub_cancel]
  have : 2 ^ s' * 2 * (2 * m + 1) = 2 * (2 ^ s' * (2 * m + 1)) := by ring
  rw [this] at h1
  generalize 2 ^ s' * (2 * m + 1) = A at *
  omega

theorem ValidTS.char_ne_two {s : Nat} {z : F} {m : Nat} (h : ValidTS s z m) : ringChar F ≠ 2 := by
  apply char_ne_two_of_odd
  have h1 := h.card
  have hq : 1 < Fintype.card F := Fintype.one_lt_card
  obtain ⟨s', rfl⟩ : ∃ s', s = s' + 1 := ⟨s - 1, by have := h.pos; omega⟩
  rw [pow_succ] at h1
  have : 2 ^ s' * 2 * (2 * m + 1) = 2 * (2 ^ s' * (2 * m + 1)) := by ring
  omega

/-- the state on entry of the loop: `x = a^(m+1)`, `b = a^(2m+1)`; `b^(2^(s-1)) = a^((q-1)/2)` -/
theorem ts_entry {s : Nat} {z : F} {m : Nat} (h : ValidTS s z m) (a : F) (ha : a ≠ 0) :
    (a ^ m * a) * (a ^ m * a) = a * (a ^ m * a * a ^ m) ∧
    (a ^ m * a * a ^ m) ^ 2 ^ s = 1 ∧
    (a ^ m * a * a ^ m) ^ 2 ^ (s - 1) = a ^ (Fintype.card F / 2) := by
  have hb : a ^ m * a * a ^ m = a ^ (2 * m + 1) := by ring
  refine ⟨by ring, ?_, ?_⟩
  · rw [hb, ← pow_mul, mul_comm, ← h.card]
    exact FiniteField.pow_card_sub_one_eq_one a ha
  · rw [hb, ← pow_mul, mul_comm, h.card_half]

/-- **Tonelli–Shanks is complete**: with valid constants (any two-adicity `s ≥ 1`), on `x ≠ 0` it
    returns a square root when `x` is a square and `None` otherwise; never panics, never diverges;
    independent of `dbg` and of the `legendre` used by the debug assertion. -/
theorem sqrtTS_spec (dbg : Bool) (sq : F → F) (hsq : ∀ a, sq a = a * a) (leg : F → Res Legendre)
    {s : Nat} {z : F} {m : Nat} (h : ValidTS s z m) (x : F) (hx : x ≠ 0) :
    (IsSquare x → ∃ y, sqrtTS dbg sq leg s z m x = .ok (some y) ∧ y * y = x) ∧
    (¬ IsSquare x → sqrtTS dbg sq leg s z m x = .ok none) := by
  have hF := h.char_ne_two
  obtain ⟨e1, e2, e3⟩ := ts_entry h x hx
  obtain ⟨l1, l2⟩ := tsLoop_spec sq hsq s x z (x ^ m * x * x ^ m) (x ^ m * x) h.pos h.root e1 e2
  rw [e3] at l1 l2
  constructor
  · intro hs
    obtain ⟨x', hx', hxx⟩ := l1 ((FiniteField.isSquare_iff hF hx).mp hs)
    refine ⟨x', ?_, hxx⟩
    unfold sqrtTS
    rw [if_neg hx]
    simp only [pow_eq sq hsq, hx', bind_ok, hsq, hxx, if_true]
  · intro hs
    have := l2 (by rw [(not_isSquare_iff hF hx).mp hs]; exact neg_one_ne_one hF)
    unfold sqrtTS
    rw [if_neg hx]
    simp only [pow_eq sq hsq, this, bind_ok]

/-- item 6, last clause: in the first round the loop returns `None` iff `a^((q-1)/2) = -1` -/
theorem tsLoop_first_round (sq : F → F) (hsq : ∀ a, sq a = a * a)
    {s : Nat} {z : F} {m : Nat} (h : ValidTS s z m) (a : F) (ha : a ≠ 0) :
    tsLoop sq s (s + 1) z (a ^ m * a * a ^ m) (a ^ m * a) s = .ok none ↔
      a ^ ((Fintype.card F - 1) / 2) = -1 := by
  have hF := h.char_ne_two
  have hodd := FiniteField.odd_card_of_char_ne_two hF
  have hdiv : (Fintype.card F - 1) / 2 = Fintype.card F / 2 := by omega
  rw [hdiv]
  obtain ⟨e1, e2, e3⟩ := ts_entry h a ha
  obtain ⟨l1, l2⟩ := tsLoop_spec sq hsq s a z (a ^ m * a * a ^ m) (a ^ m * a) h.pos h.root e1 e2
  rw [e3] at l1 l2
  constructor
  · intro hn
    rcases FiniteField.pow_dichotomy hF ha with h1 | h1
    · obtain ⟨x', hx', _⟩ := l1 h1
      rw [hx'] at hn; cases hn
    · exact h1
  · intro h1
    exact l2 (by rw [h1]; exact neg_one_ne_one hF)

theorem sqrtTS_complete (dbg : Bool) (sq : F → F) (hsq : ∀ a, sq a = a * a) (leg : F → Res Legendre)
    {s : Nat} {z : F} {m : Nat} (h : ValidTS s z m) (x : F) (hx : x ≠ 0) :
    (IsSquare x ↔ ∃ y, sqrtTS dbg sq leg s z m x = .ok (some y)) ∧
    (¬ IsSquare x ↔ sqrtTS dbg sq leg s z m x = .ok none) := by
  obtain ⟨h1, h2⟩ := sqrtTS_spec dbg sq hsq leg h x hx
  refine ⟨⟨fun hs => ?_, fun ⟨y, hy⟩ => ?_⟩, ⟨h2, fun hn hs => ?_⟩⟩
  · obtain ⟨y, hy, _⟩ := h1 hs; exact ⟨y, hy⟩
  · exact ⟨y, (sqrtTS_sound dbg sq hsq leg s z m x y hy).symm⟩
  · obtain ⟨y, hy, _⟩ := h1 hs
    rw [hy] at hn; cases hn

end tsfin

/-! ## 6. the square-root interface: specifications -/

/-- what `sqrt` must return on `x`: no panic, `None` exactly on non-squares, a root otherwise -/
def SqrtSpec {K : Type} [Mul K] (r : Res (Option K)) (x : K) : Prop :=
  ∃ o, r = .ok o ∧ (o = none ↔ ¬ IsSquare x) ∧ ∀ y, o = some y → y * y = x

/-- a dictionary `SqrtD` whose `legendre` and `sqrt` are correct -/
structure SqrtLawful {K : Type} [Mul K] [Zero K] (S : SqrtD K) : Prop where
  legendre : ∀ x, ∃ l, S.legendre x = .ok l ∧ LegSpec l x
  sqrt : ∀ x, SqrtSpec (S.sqrt x) x

theorem SqrtSpec.of_some {K : Type} [Mul K] {x y : K} (h : y * y = x) :
    SqrtSpec (.ok (some y)) x :=
  ⟨some y, rfl, ⟨fun h' => (by cases h'), fun hn => absurd ⟨y, h.symm⟩ hn⟩,
    fun y' hy => by cases hy; exact h⟩

theorem SqrtSpec.of_none {K : Type} [Mul K] {x : K} (h : ¬ IsSquare x) :
    SqrtSpec (.ok none) x :=
  ⟨none, rfl, ⟨fun _ => h, fun _ => rfl⟩, fun y hy => by cases hy⟩

theorem SqrtSpec.ne_panic {K : Type} [Mul K] {r : Res (Option K)} {x : K} (h : SqrtSpec r x) :
    r ≠ .panic ∧ r ≠ .diverge := by
  obtain ⟨o, rfl, _, _⟩ := h
  exact ⟨fun h => (by cases h), fun h => (by cases h)⟩

theorem SqrtSpec.isSquare_iff {K : Type} [Mul K] {r : Res (Option K)} {x : K} (h : SqrtSpec r x) :
    IsSquare x ↔ r ≠ .ok none := by
  obtain ⟨o, rfl, hn, _⟩ := h
  constructor
  · intro hs hr
    exact hn.mp (by cases hr; rfl) hs
  · intro hr
    by_contra hs
    exact hr (by rw [hn.mpr hs])

theorem SqrtSpec.none_iff {K : Type} [Mul K] {r : Res (Option K)} {x : K} (h : SqrtSpec r x) :
    r = .ok none ↔ ¬ IsSquare x := by
  rw [h.isSquare_iff]; simp

theorem SqrtSpec.sound {K : Type} [Mul K] {r : Res (Option K)} {x y : K} (h : SqrtSpec r x)
    (hr : r = .ok (some y)) : y * y = x := by
  obtain ⟨o, rfl, _, hs⟩ := h
  exact hs y (by cases hr; rfl)

theorem SqrtSpec.some_of_isSquare {K : Type} [Mul K] {r : Res (Option K)} {x : K}
    (h : SqrtSpec r x) (hx : IsSquare x) : ∃ y, r = .ok (some y) ∧ y * y = x := by
  obtain ⟨o, rfl, hn, hs⟩ := h
  cases o with
  | none => exact absurd hx (hn.mp rfl)
  | some y => exact ⟨y, rfl, hs y rfl⟩

section fieldsqrt
variable {F : Type} [Field F] [Fintype F] [DecidableEq F]

/-- validity of a `SqrtPrecomputation` for the field `F` -/
def ValidPre : Precomp F → Prop
  | .tonelliShanks s z m => ValidTS s z m
  | .case3Mod4 e => Fintype.card F % 4 = 3 ∧ e = (Fintype.card F + 1) / 4

theorem precomp_sqrt_spec (dbg : Bool) (sq : F → F) (hsq : ∀ a, sq a = a * a)
    (leg : F → Res Legendre) (pre : Precomp F) (hpre : ValidPre pre) (x : F) :
    SqrtSpec (pre.sqrt dbg sq leg x) x := by
  cases pre with
  | tonelliShanks s z m =>
    show SqrtSpec (sqrtTS dbg sq leg s z m x) x
    by_cases hx : x = 0
    · subst hx
      rw [sqrtTS_zero]
      exact SqrtSpec.of_some (by simp)
    · obtain ⟨h1, h2⟩ := sqrtTS_spec dbg sq hsq leg hpre x hx
      by_cases hs : IsSquare x
      · obtain ⟨y, hy, hyy⟩ := h1 hs
        rw [hy]; exact SqrtSpec.of_some hyy
      · rw [h2 hs]; exact SqrtSpec.of_none hs
  | case3Mod4 e =>
    show SqrtSpec (.ok (sqrt3Mod4 sq e x)) x
    obtain ⟨hq, he⟩ := hpre
    by_cases hs : IsSquare x
    · rw [sqrt3Mod4_complete sq hsq e x hq he hs]
      exact SqrtSpec.of_some (sqrt3Mod4_sound sq hsq e x _ (sqrt3Mod4_complete sq hsq e x hq he hs))
    · rw [(sqrt3Mod4_none_iff sq hsq e x hq he).mpr hs]
      exact SqrtSpec.of_none hs

theorem fieldSqrt_spec (dbg : Bool) (sq : F → F) (hsq : ∀ a, sq a = a * a)
    (leg : F → Res Legendre) (pre : Precomp F) (hpre : ValidPre pre) (x : F) :
    SqrtSpec (fieldSqrt dbg sq leg (some pre) x) x :=
  precomp_sqrt_spec dbg sq hsq leg pre hpre x

theorem fieldSqrt_none (dbg : Bool) (sq : F → F) (leg : F → Res Legendre) (x : F) :
    fieldSqrt dbg sq leg none x = .panic := rfl

/-- `Field::sqrt_in_place` -/
theorem sqrtInPlace_spec {K : Type} [Mul K] (sqrt : K → Res (Option K)) (x : K)
    (h : SqrtSpec (sqrt x) x) :
    (IsSquare x → ∃ y, sqrtInPlace sqrt x = .ok (y, some y) ∧ y * y = x) ∧
    (¬ IsSquare x → sqrtInPlace sqrt x = .ok (x, none)) := by
  obtain ⟨o, ho, hn, hs⟩ := h
  unfold sqrtInPlace
  rw [ho]
  cases o with
  | none => exact ⟨fun hx => absurd hx (hn.mp rfl), fun _ => rfl⟩
  | some y =>
    refine ⟨fun _ => ⟨y, rfl, hs y rfl⟩, fun hx => ?_⟩
    have := hn.mpr hx
    cases this

end fieldsqrt

/-! ## 7. constants of the Montgomery backend -/

section consts

theorem twoAdicAux_eq (s : Nat) : ∀ (fuel t s0 : Nat), t % 2 = 1 → 2 ^ s * t < 2 ^ fuel →
    twoAdicAux fuel (2 ^ s * t) s0 = (s0 + s, t) := by
  induction s with
  | zero =>
    intro fuel t s0 ht hf
    obtain ⟨f, rfl⟩ : ∃ f, fuel = f + 1 := ⟨fuel - 1, by
      rcases fuel with _ | f
      · simp at hf; omega
      · omega⟩
    rw [twoAdicAux]
    simp only [pow_zero, one_mul, add_zero]
    rw [if_neg (by omega)]
  | succ s ih =>
    intro fuel t s0 ht hf
    obtain ⟨f, rfl⟩ : ∃ f, fuel = f + 1 := ⟨fuel - 1, by
      rcases fuel with _ | f
      · have : 0 < 2 ^ (s + 1) * t := Nat.mul_pos (Nat.two_pow_pos (s + 1)) (by omega)
        simp at hf; omega
      · omega⟩
    have e : 2 ^ (s + 1) * t = 2 * (2 ^ s * t) := by ring
    rw [twoAdicAux, e, if_pos (by omega)]
    have e2 : 2 * (2 ^ s * t) / 2 = 2 ^ s * t := by omega
    have hf' : 2 * (2 ^ s * t) < 2 * 2 ^ f := by rw [← e, ← pow_succ']; exact hf
    rw [e2, ih f t (s0 + 1) ht (by omega)]
    congr 1; omega

/-- `two_adic_valuation` / `two_adic_coefficient`: `twoAdic m = (s, t)` for the unique
    decomposition `m - 1 = 2^s·t`, `t` odd -/
theorem twoAdic_eq (m s t : Nat) (h : m - 1 = 2 ^ s * t) (ht : t % 2 = 1) : twoAdic m = (s, t) := by
  unfold twoAdic
  rw [h]
  have := twoAdicAux_eq s ((2 ^ s * t).log2 + 1) t 0 ht Nat.lt_log2_self
  simpa using this

/-- every positive number is `2^s·t` with `t` odd -/
theorem exists_two_pow_mul_odd (n : Nat) (hn : 0 < n) : ∃ s t, n = 2 ^ s * t ∧ t % 2 = 1 := by
  induction n using Nat.strong_induction_on with
  | _ n ih =>
    rcases Nat.mod_two_eq_zero_or_one n with h | h
    · obtain ⟨s, t, hst, ht⟩ := ih (n / 2) (by omega) (by omega)
      exact ⟨s + 1, t, by rw [show 2 ^ (s + 1) * t = 2 * (2 ^ s * t) by ring, ← hst]; omega, ht⟩
    · exact ⟨0, n, by simp, h⟩

theorem twoAdic_spec (m : Nat) (hm : 1 < m) :
    m - 1 = 2 ^ (twoAdic m).1 * (twoAdic m).2 ∧ (twoAdic m).2 % 2 = 1 := by
  obtain ⟨s, t, hst, ht⟩ := exists_two_pow_mul_odd (m - 1) (by omega)
  rw [twoAdic_eq m s t hst ht]
  exact ⟨hst, ht⟩

theorem modulusPlusOneDivFour_eq (n m : Nat) (h4 : m % 4 = 3) (hlt : m < 2 ^ (64 * n)) :
    modulusPlusOneDivFour n m = some ((m + 1) / 4) := by
  have hn : n ≠ 0 := by
    rintro rfl
    simp at hlt; omega
  obtain ⟨k, hk⟩ : ∃ k, 64 * n = k + 2 := ⟨64 * n - 2, by omega⟩
  have hN : 2 ^ (64 * n) = 4 * 2 ^ k := by rw [hk, pow_add]; ring
  have hH : 2 ^ (64 * n - 1) = 2 * 2 ^ k := by
    have : 64 * n - 1 = k + 1 := by omega
    rw [this, pow_succ]; ring
  unfold modulusPlusOneDivFour
  rw [if_pos h4]
  simp only [hN, hH]
  rw [hN] at hlt
  have hG : 0 < 2 ^ k := Nat.two_pow_pos k
  generalize 2 ^ k = G at *
  congr 1
  by_cases hc : m + 1 = 4 * G
  · have h1 : (m + 1) / (4 * G) = 1 := by rw [hc]; exact Nat.div_self (by omega)
    have h2 : (m + 1) % (4 * G) = 0 := by rw [hc]; exact Nat.mod_self _
    rw [h1, h2]
    omega
  · have h1 : (m + 1) / (4 * G) = 0 := Nat.div_eq_of_lt (by omega)
    have h2 : (m + 1) % (4 * G) = m + 1 := Nat.mod_eq_of_lt (by omega)
    rw [h1, h2]
    omega

theorem modulusPlusOneDivFour_none (n m : Nat) (h4 : m % 4 ≠ 3) :
    modulusPlusOneDivFour n m = none := by
  unfold modulusPlusOneDivFour
  rw [if_neg h4]

/-- `sqrt_precomputation` -/
theorem sqrtPrecomputation_3mod4 {F : Type} (n p : Nat) (root : F) (h4 : p % 4 = 3)
    (hlt : p < 2 ^ (64 * n)) :
    sqrtPrecomputation n p root = some (.case3Mod4 ((p + 1) / 4)) := by
  unfold sqrtPrecomputation
  rw [if_pos h4, modulusPlusOneDivFour_eq n p h4 hlt]

theorem sqrtPrecomputation_ts {F : Type} (n p : Nat) (root : F) (h4 : p % 4 ≠ 3) (s t : Nat)
    (h : p - 1 = 2 ^ s * t) (ht : t % 2 = 1) :
    sqrtPrecomputation n p root = some (.tonelliShanks s root ((t - 1) / 2)) := by
  unfold sqrtPrecomputation
  rw [if_neg h4, twoAdic_eq p s t h ht]
  have : t / 2 = (t - 1) / 2 := by omega
  simp only [this]

section validroot
variable {F : Type} [Field F] [Fintype F] [DecidableEq F]

/-- `TWO_ADIC_ROOT_OF_UNITY = g^t` for a non-residue `g` gives valid Tonelli–Shanks constants -/
theorem validTS_of_nonresidue (s t : Nat) (h : Fintype.card F - 1 = 2 ^ s * t) (ht : t % 2 = 1)
    (g : F) (hg : ¬ IsSquare g) : ValidTS s (g ^ t) ((t - 1) / 2) := by
  have hF := char_ne_two_of_nonsquare hg
  have hodd := FiniteField.odd_card_of_char_ne_two hF
  have hq : 1 < Fintype.card F := Fintype.one_lt_card
  have ht' : 2 * ((t - 1) / 2) + 1 = t := by omega
  have hs : 1 ≤ s := by
    rcases s with _ | s
    · simp at h; omega
    · omega
  have hcard : Fintype.card F - 1 = 2 ^ s * (2 * ((t - 1) / 2) + 1) := by rw [ht']; exact h
  have hg0 : g ≠ 0 := by rintro rfl; exact hg ⟨0, by simp⟩
  refine ⟨hcard, hs, ?_⟩
  have half : Fintype.card F / 2 = 2 ^ (s - 1) * t := by
    obtain ⟨s', rfl⟩ : ∃ s', s = s' + 1 := ⟨s - 1, by omega⟩
    rw [pow_succ] at h
    rw [Nat.add_sub_cancel]
    have : 2 ^ s' * 2 * t = 2 * (2 ^ s' * t) := by ring
    rw [this] at h
    generalize 2 ^ s' * t = A at *
    omega
  rw [← pow_mul, mul_comm, ← half]
  exact (not_isSquare_iff hF hg0).mp hg

end validroot

end consts

/-! ## 8. the prime field -/

/-- `fpSqrtD` with the same bodies over an arbitrary field (as `primeD` mirrors `fpD`);
    `half` is `MODULUS_MINUS_ONE_DIV_TWO` -/
def primeSqrtD (F : Type) [Field F] [DecidableEq F] (dbg : Bool) (half : Nat)
    (cmp : F → F → Ordering) (pre : Option (Precomp F)) : SqrtD F :=
  let sq : F → F := fun a => a * a
  let leg : F → Res Legendre := fun a => .ok (legendreEuler sq half a)
  { legendre := leg
    sqrt := fieldSqrt dbg sq leg pre
    cmp := cmp }

section primelawful
variable {F : Type} [Field F] [Fintype F] [DecidableEq F]

theorem primeSqrtD_lawful (dbg : Bool) (cmp : F → F → Ordering) (hF : ringChar F ≠ 2)
    (pre : Precomp F) (hpre : ValidPre pre) :
    SqrtLawful (primeSqrtD F dbg (Fintype.card F / 2) cmp (some pre)) where
  legendre x := ⟨_, rfl, legendreEuler_legSpec _ (fun _ => rfl) hF x⟩
  sqrt x := fieldSqrt_spec dbg _ (fun _ => rfl) _ pre hpre x

theorem primeSqrtD_none (dbg : Bool) (half : Nat) (cmp : F → F → Ordering) (x : F) :
    (primeSqrtD F dbg half cmp none).sqrt x = .panic := rfl

end primelawful

/-- the prime field `ZMod p` with the order on canonical representatives -/
def zmodSqrtD (dbg : Bool) (p : Nat) [Fact p.Prime] (pre : Option (Precomp (ZMod p))) :
    SqrtD (ZMod p) :=
  primeSqrtD (ZMod p) dbg (p / 2) (fun a b => compare a.val b.val) pre

section zmodsqrt
variable (p : ℕ) [Fact p.Prime]

/-- `sqrt_precomputation` yields valid constants for every odd prime that fits its limbs, when
    `TWO_ADIC_ROOT_OF_UNITY = g^TRACE` for a non-residue `g` -/
theorem sqrtPrecomputation_valid (hp : p ≠ 2) (n : Nat) (hlt : p < 2 ^ (64 * n)) (g : ZMod p)
    (hg : ¬ IsSquare g) :
    ∃ pre, sqrtPrecomputation n p (g ^ (twoAdic p).2) = some pre ∧ ValidPre pre := by
  have hp1 : 1 < p := (Fact.out : p.Prime).one_lt
  by_cases h4 : p % 4 = 3
  · exact ⟨_, sqrtPrecomputation_3mod4 n p _ h4 hlt, by
      show Fintype.card (ZMod p) % 4 = 3 ∧ _
      rw [ZMod.card]; exact ⟨h4, rfl⟩⟩
  · obtain ⟨h1, h2⟩ := twoAdic_spec p hp1
    refine ⟨_, sqrtPrecomputation_ts n p _ h4 _ _ h1 h2, ?_⟩
    show ValidTS _ _ _
    exact validTS_of_nonresidue _ _ (by rw [ZMod.card]; exact h1) h2 g hg

/-- **`fpSqrtD_correct`** over `ZMod p` -/
theorem zmodSqrtD_lawful (dbg : Bool) (hp : p ≠ 2) (n : Nat) (hlt : p < 2 ^ (64 * n))
    (g : ZMod p) (hg : ¬ IsSquare g) :
    SqrtLawful (zmodSqrtD dbg p (sqrtPrecomputation n p (g ^ (twoAdic p).2))) := by
  obtain ⟨pre, h1, h2⟩ := sqrtPrecomputation_valid p hp n hlt g hg
  rw [h1]
  have := primeSqrtD_lawful dbg (fun a b : ZMod p => compare a.val b.val)
    (zmod_char_ne_two p hp) pre h2
  rw [ZMod.card] at this
  exact this

theorem zmodSqrtD_lawful_of_valid (dbg : Bool) (hp : p ≠ 2) (pre : Precomp (ZMod p))
    (hpre : ValidPre pre) : SqrtLawful (zmodSqrtD dbg p (some pre)) := by
  have := primeSqrtD_lawful dbg (fun a b : ZMod p => compare a.val b.val)
    (zmod_char_ne_two p hp) pre hpre
  rw [ZMod.card] at this
  exact this

end zmodsqrt

/-! ## 9. transport along an embedding (from `ZMod p` to the executable `Fp p`) -/

def Res.map {α β : Type} (f : α → β) : Res α → Res β
  | .ok a => .ok (f a)
  | .panic => .panic
  | .diverge => .diverge

def precompMap {G H : Type} (f : G → H) : Precomp G → Precomp H
  | .tonelliShanks s z m => .tonelliShanks s (f z) m
  | .case3Mod4 e => .case3Mod4 e

section transport
variable {G H : Type} [Mul G] [Zero G] [One G] [DecidableEq G]
  [Mul H] [Zero H] [One H] [DecidableEq H]

/-- an injective map preserving `*`, `0`, `1` -/
structure Emb (f : G → H) : Prop where
  inj : Function.Injective f
  mul : ∀ a b, f (a * b) = f a * f b
  zero : f 0 = 0
  one : f 1 = 1

variable {f : G → H} (hf : Emb f) {sqG : G → G} {sqH : H → H} (hsq : ∀ a, sqH (f a) = f (sqG a))
include hf hsq

theorem pow_map (a : G) (e : Nat) : Sqrt.pow sqH (f a) e = f (Sqrt.pow sqG a e) := by
  unfold Sqrt.pow
  rw [← hf.one]
  generalize (1 : G) = r
  induction bitsBE e generalizing r with
  | nil => rfl
  | cons b l ih =>
    simp only [List.foldl_cons]
    rw [← ih]
    congr 1
    cases b
    · simp [hsq]
    · simp [hsq, hf.mul]

theorem iter_map (n : Nat) (z : G) : Sqrt.iter sqH n (f z) = f (Sqrt.iter sqG n z) := by
  induction n generalizing z with
  | zero => rfl
  | succ n ih => rw [Sqrt.iter, Sqrt.iter, hsq, ih]

theorem eq_one_map (c : G) : f c = 1 ↔ c = 1 := by
  constructor
  · intro h; exact hf.inj (by rw [h, hf.one])
  · rintro rfl; exact hf.one

theorem eq_zero_map (c : G) : f c = 0 ↔ c = 0 := by
  constructor
  · intro h; exact hf.inj (by rw [h, hf.zero])
  · rintro rfl; exact hf.zero

theorem findK_map (fuel : Nat) (c : G) (k : Nat) :
    findK sqH fuel (f c) k = findK sqG fuel c k := by
  induction fuel generalizing c k with
  | zero => rfl
  | succ n ih =>
    rw [findK, findK, hsq, ih]
    by_cases h : c = 1
    · rw [if_pos h, if_pos ((eq_one_map hf hsq c).mpr h)]
    · rw [if_neg h, if_neg (fun h' => h ((eq_one_map hf hsq c).mp h'))]

theorem tsLoop_map (s fuel : Nat) (z b x : G) (v : Nat) :
    tsLoop sqH s fuel (f z) (f b) (f x) v = Res.map (Option.map f) (tsLoop sqG s fuel z b x v) := by
  induction fuel generalizing z b x v with
  | zero => rfl
  | succ n ih =>
    rw [tsLoop, tsLoop, findK_map hf hsq]
    by_cases h : b = 1
    · rw [if_pos h, if_pos ((eq_one_map hf hsq b).mpr h)]; rfl
    · rw [if_neg h, if_neg (fun h' => h ((eq_one_map hf hsq b).mp h'))]
      cases findK sqG (s + 1) b 0 with
      | none => rfl
      | some k =>
        simp only []
        split
        · rfl
        · split
          · rfl
          · rw [iter_map hf hsq, hsq, ← hf.mul, ← hf.mul, ih]

theorem sqrt3Mod4_map (e : Nat) (x : G) :
    sqrt3Mod4 sqH e (f x) = Option.map f (sqrt3Mod4 sqG e x) := by
  unfold sqrt3Mod4
  simp only [pow_map hf hsq, hsq]
  by_cases h : sqG (Sqrt.pow sqG x e) = x
  · rw [if_pos h, if_pos (by rw [h])]; rfl
  · rw [if_neg h, if_neg (fun h' => h (hf.inj h'))]; rfl

theorem legendreEuler_map (e : Nat) (a : G) :
    legendreEuler sqH e (f a) = legendreEuler sqG e a := by
  unfold legendreEuler
  simp only [pow_map hf hsq]
  by_cases h0 : Sqrt.pow sqG a e = 0
  · rw [if_pos h0, if_pos ((eq_zero_map hf hsq _).mpr h0)]
  · rw [if_neg h0, if_neg (fun h' => h0 ((eq_zero_map hf hsq _).mp h'))]
    by_cases h1 : Sqrt.pow sqG a e = 1
    · rw [if_pos h1, if_pos ((eq_one_map hf hsq _).mpr h1)]
    · rw [if_neg h1, if_neg (fun h' => h1 ((eq_one_map hf hsq _).mp h'))]

theorem sqrtTS_map (dbg : Bool) (legG : G → Res Legendre) (legH : H → Res Legendre)
    (hleg : ∀ a, legH (f a) = legG a) (s : Nat) (z : G) (m : Nat) (x : G) :
    sqrtTS dbg sqH legH s (f z) m (f x) = Res.map (Option.map f) (sqrtTS dbg sqG legG s z m x) := by
  unfold sqrtTS
  by_cases h0 : x = 0
  · rw [if_pos h0, if_pos ((eq_zero_map hf hsq _).mpr h0)]
    show _ = Res.ok (some (f 0))
    rw [hf.zero]
  · rw [if_neg h0, if_neg (fun h' => h0 ((eq_zero_map hf hsq _).mp h'))]
    simp only [pow_map hf hsq, ← hf.mul, tsLoop_map hf hsq]
    cases tsLoop sqG s (s + 1) z (Sqrt.pow sqG x m * x * Sqrt.pow sqG x m) (Sqrt.pow sqG x m * x) s with
    | panic => rfl
    | diverge => rfl
    | ok r =>
      cases r with
      | none => rfl
      | some x' =>
        simp only [Res.map, Option.map, bind_ok, hsq, hleg]
        by_cases h1 : sqG x' = x
        · rw [if_pos h1, if_pos (by rw [h1])]
        · rw [if_neg h1, if_neg (fun h' => h1 (hf.inj h'))]
          cases dbg with
          | false => rfl
          | true =>
            simp only [if_true]
            cases legG x with
            | panic => rfl
            | diverge => rfl
            | ok l =>
              simp only [bind_ok]
              split <;> rfl

theorem fieldSqrt_map (dbg : Bool) (legG : G → Res Legendre) (legH : H → Res Legendre)
    (hleg : ∀ a, legH (f a) = legG a) (pre : Option (Precomp G)) (x : G) :
    fieldSqrt dbg sqH legH (pre.map (precompMap f)) (f x) =
      Res.map (Option.map f) (fieldSqrt dbg sqG legG pre x) := by
  cases pre with
  | none => rfl
  | some pre =>
    cases pre with
    | tonelliShanks s z m => exact sqrtTS_map hf hsq dbg legG legH hleg s z m x
    | case3Mod4 e =>
      show Res.ok (sqrt3Mod4 sqH e (f x)) = _
      rw [sqrt3Mod4_map hf hsq]; rfl

end transport

section fpbridge
variable (p : ℕ) [Fact p.Prime]

/-- canonical representative in the executable prime field -/
def ofZ (z : ZMod p) : Fp p := ⟨z.val⟩

theorem ofZ_emb : Emb (ofZ p) where
  inj := by
    intro a b h
    have hv : a.val = b.val := congrArg Fp.val h
    haveI : NeZero p := ⟨(Fact.out : p.Prime).ne_zero⟩
    exact ZMod.val_injective p hv
  mul := by
    intro a b
    show (⟨(a * b).val⟩ : Fp p) = ⟨(a.val * b.val) % p⟩
    rw [ZMod.val_mul]
  zero := by
    show (⟨(0 : ZMod p).val⟩ : Fp p) = ⟨0⟩
    rw [ZMod.val_zero]
  one := by
    show (⟨(1 : ZMod p).val⟩ : Fp p) = ⟨1 % p⟩
    rw [ZMod.val_one_eq_one_mod]

/-- every reduced element of `Fp p` is a canonical representative -/
theorem ofZ_surj_reduced (a : Fp p) (h : a.val < p) : ofZ p (a.val : ZMod p) = a := by
  show (⟨((a.val : ℕ) : ZMod p).val⟩ : Fp p) = a
  rw [ZMod.val_natCast, Nat.mod_eq_of_lt h]

theorem sqrtPrecomputation_map {G H : Type} (f : G → H) (n m : Nat) (root : G) :
    sqrtPrecomputation n m (f root) = (sqrtPrecomputation n m root).map (precompMap f) := by
  unfold sqrtPrecomputation
  split
  · cases modulusPlusOneDivFour n m <;> rfl
  · rfl

/-- the executable `fpSqrtD` on canonical representatives is the image of `zmodSqrtD` -/
theorem fpSqrtD_sqrt_ofZ (dbg : Bool) (pre : Option (Precomp (ZMod p))) (x : ZMod p) :
    (fpSqrtD dbg p (pre.map (precompMap (ofZ p)))).sqrt (ofZ p x) =
      Res.map (Option.map (ofZ p)) ((zmodSqrtD dbg p pre).sqrt x) := by
  have hf := ofZ_emb p
  have hsq : ∀ a : ZMod p, (fun a : Fp p => a * a) (ofZ p a) = ofZ p ((fun a => a * a) a) :=
    fun a => (hf.mul a a).symm
  exact fieldSqrt_map (sqG := fun a : ZMod p => a * a) (sqH := fun a : Fp p => a * a) hf hsq dbg
    (fun a => .ok (legendreEuler (fun a : ZMod p => a * a) (p / 2) a))
    (fun a => .ok (legendreEuler (fun a : Fp p => a * a) (p / 2) a))
    (fun a => by
      show Res.ok _ = Res.ok _
      rw [legendreEuler_map (sqG := fun a : ZMod p => a * a) (sqH := fun a : Fp p => a * a) hf hsq])
    pre x

theorem fpSqrtD_legendre_ofZ (dbg : Bool) (pre : Option (Precomp (Fp p))) (x : ZMod p) :
    (fpSqrtD dbg p pre).legendre (ofZ p x) =
      .ok (legendreEuler (fun a : ZMod p => a * a) (p / 2) x) := by
  have hf := ofZ_emb p
  have hsq : ∀ a : ZMod p, (fun a : Fp p => a * a) (ofZ p a) = ofZ p ((fun a => a * a) a) :=
    fun a => (hf.mul a a).symm
  show Res.ok _ = Res.ok _
  rw [legendreEuler_map (sqG := fun a : ZMod p => a * a) (sqH := fun a : Fp p => a * a) hf hsq]

theorem fpSqrtD_cmp_ofZ (dbg : Bool) (pre : Option (Precomp (Fp p))) (a b : ZMod p) :
    (fpSqrtD dbg p pre).cmp (ofZ p a) (ofZ p b) = compare a.val b.val := rfl

end fpbridge

/-! ## 10. the quadratic extension: `legendre` through the norm, `sqrt` by the complex method -/

@[simp] theorem ofOutcome_ok {α : Type} (a : α) : Res.ofOutcome (Outcome.ok a) = Res.ok a := rfl
@[simp] theorem expect_some {α : Type} (a : α) : Res.expect (some a) = Res.ok a := rfl
@[simp] theorem expect_none {α : Type} : Res.expect (none : Option α) = Res.panic := rfl

theorem isQr_iff (l : Legendre) : l.isQr = true ↔ l = .qr := by cases l <;> decide
theorem isQnr_iff (l : Legendre) : l.isQnr = true ↔ l = .qnr := by cases l <;> decide

section quadsqrt
variable {P F : Type} [Field F] [Fintype F] [DecidableEq F]
variable {cfg : QuadCfg F} {B : FieldD P F}

theorem nonresidue_not_isSquare (hnr : ∀ x : F, x * x ≠ cfg.nonresidue) :
    ¬ IsSquare cfg.nonresidue := fun ⟨r, hr⟩ => hnr r hr.symm

theorem fdiv_eq (hB : BaseLawful B) (a b : F) (hb : b ≠ 0) : fdiv B a b = .ok (a * b⁻¹) := by
  unfold fdiv
  rw [hB.inverse, if_neg hb]
  rfl

/-- the two candidates `δ, δ - α` of the complex method: their product is `β·(c1/2)²`, a
    non-residue, so exactly one of them is a square — the one the algorithm selects -/
theorem delta_props (β c0 c1 α : F) (hβ : ¬ IsSquare β) (hc1 : c1 ≠ 0)
    (hα : α * α = c0 ^ 2 - β * c1 ^ 2) (l : Legendre) (hl : LegSpec l ((α + c0) * 2⁻¹))
    (δ : F) (hδ : δ = if l.isQnr = true then (α + c0) * 2⁻¹ - α else (α + c0) * 2⁻¹) :
    δ ≠ 0 ∧ IsSquare δ ∧ δ * δ - c0 * δ + β * c1 ^ 2 * (2⁻¹) ^ 2 = 0 := by
  have hF := char_ne_two_of_nonsquare hβ
  have h2 : (2 : F) ≠ 0 := Ring.two_ne_zero hF
  have hβ0 : β ≠ 0 := by rintro rfl; exact hβ ⟨0, by simp⟩
  have hprod : ((α + c0) * 2⁻¹) * ((α + c0) * 2⁻¹ - α) = β * ((c1 * 2⁻¹) * (c1 * 2⁻¹)) := by
    field_simp
    linear_combination (-1 : F) * hα
  have hns : ¬ IsSquare (β * ((c1 * 2⁻¹) * (c1 * 2⁻¹))) :=
    not_isSquare_mul hF hβ ⟨c1 * 2⁻¹, rfl⟩
      (mul_ne_zero (mul_ne_zero hc1 (inv_ne_zero h2)) (mul_ne_zero hc1 (inv_ne_zero h2)))
  have hne : β * ((c1 * 2⁻¹) * (c1 * 2⁻¹)) ≠ 0 := by
    intro h; exact hns ⟨0, by rw [h]; simp⟩
  have e1 : ((α + c0) * 2⁻¹) * ((α + c0) * 2⁻¹) - c0 * ((α + c0) * 2⁻¹) + β * c1 ^ 2 * (2⁻¹) ^ 2 = 0 := by
    field_simp
    linear_combination hα
  have e2 : ((α + c0) * 2⁻¹ - α) * ((α + c0) * 2⁻¹ - α) - c0 * ((α + c0) * 2⁻¹ - α)
      + β * c1 ^ 2 * (2⁻¹) ^ 2 = 0 := by
    field_simp
    linear_combination hα
  by_cases hq : l = .qnr
  · have hq' : l.isQnr = true := (isQnr_iff l).mpr hq
    rw [if_pos hq'] at hδ
    subst hδ
    refine ⟨?_, ?_, e2⟩
    · intro h; rw [h, mul_zero] at hprod; exact hne hprod.symm
    · by_contra hn
      have h1 : ¬ IsSquare ((α + c0) * 2⁻¹) := hl.2.2.mp hq
      exact hns (hprod ▸ isSquare_mul_of_not hF h1 hn)
  · have hq' : ¬ l.isQnr = true := fun h => hq ((isQnr_iff l).mp h)
    rw [if_neg hq'] at hδ
    subst hδ
    refine ⟨?_, ?_, e1⟩
    · intro h; rw [h, zero_mul] at hprod; exact hne hprod.symm
    · by_contra hn
      exact hq (hl.2.2.mpr hn)

variable (hB : BaseLawful B) (hc : QuadLawful cfg) (hnr : ∀ x : F, x * x ≠ cfg.nonresidue)
include hB hc hnr

/-- `c1 = 0`: the first `sqrt` never fails on a residue, and on a non-residue `c0`, `c0/β` is a
    residue; the result is always a root -/
theorem quadSqrt_c1_zero {SB : SqrtD F} (hS : SqrtLawful SB) (dbg : Bool) (PD : PrimeD P)
    (a : Quad F) (h1 : a.c1 = 0) :
    ∃ y, quadSqrt dbg cfg B SB PD a = .ok (some y) ∧ Quad.mul cfg B y y = a := by
  have hβ := nonresidue_not_isSquare hnr
  have hF := char_ne_two_of_nonsquare hβ
  have hβ0 : cfg.nonresidue ≠ 0 := by rintro h; exact hβ ⟨0, by rw [h]; simp⟩
  obtain ⟨l, hl, hls⟩ := hS.legendre a.c0
  unfold quadSqrt
  rw [if_pos h1, hl, bind_ok]
  by_cases hq : l = .qr
  · obtain ⟨h0, hsq⟩ := hls.2.1.mp hq
    obtain ⟨o, ho, hn, hsome⟩ := hS.sqrt a.c0
    rw [if_pos ((isQr_iff l).mpr hq), ho, bind_ok]
    cases o with
    | none => exact absurd hsq (hn.mp rfl)
    | some r =>
      refine ⟨⟨r, 0⟩, rfl, ?_⟩
      rw [Quad.mul_eq hB hc]
      apply Quad.ext' <;> simp [hsome r rfl, h1]
  · rw [if_neg (fun h => hq ((isQr_iff l).mp h)), fdiv_eq hB _ _ hβ0, bind_ok]
    have hd : IsSquare (a.c0 * cfg.nonresidue⁻¹) := by
      by_cases h0 : a.c0 = 0
      · exact ⟨0, by rw [h0]; simp⟩
      · have hns : ¬ IsSquare a.c0 := fun h => hq (hls.2.1.mpr ⟨h0, h⟩)
        have hβi : ¬ IsSquare cfg.nonresidue⁻¹ := by
          rintro ⟨r, hr⟩
          exact hβ ⟨r⁻¹, by rw [← mul_inv, ← hr, inv_inv]⟩
        exact isSquare_mul_of_not hF hns hβi
    obtain ⟨o, ho, hn, hsome⟩ := hS.sqrt (a.c0 * cfg.nonresidue⁻¹)
    rw [ho, bind_ok]
    cases o with
    | none => exact absurd hd (hn.mp rfl)
    | some r =>
      refine ⟨⟨0, r⟩, rfl, ?_⟩
      rw [Quad.mul_eq hB hc]
      apply Quad.ext'
      · simp only [mul_zero, zero_add]
        rw [hsome r rfl]
        field_simp
      · simp [h1]

/-- `c1 ≠ 0` and the norm is a square: both `expect`s are unreachable and the candidate is a root -/
theorem quadSqrt_c1_ne_some {SB : SqrtD F} (hS : SqrtLawful SB) (dbg : Bool) (PD : PrimeD P)
    (hti : twoInv B PD = .ok (2⁻¹ : F)) (a : Quad F) (h1 : a.c1 ≠ 0)
    (hsqn : IsSquare (Quad.norm cfg B a)) :
    ∃ y, quadSqrt dbg cfg B SB PD a = .ok (some y) ∧ Quad.mul cfg B y y = a := by
  have hβ := nonresidue_not_isSquare hnr
  have hF := char_ne_two_of_nonsquare hβ
  have h2 : (2 : F) ≠ 0 := Ring.two_ne_zero hF
  obtain ⟨o, ho, hn, hsome⟩ := hS.sqrt (Quad.norm cfg B a)
  unfold quadSqrt
  rw [if_neg h1]
  simp only [hti, bind_ok, ho]
  cases o with
  | none => exact absurd hsqn (hn.mp rfl)
  | some α =>
    dsimp only
    have hα : α * α = a.c0 ^ 2 - cfg.nonresidue * a.c1 ^ 2 := by
      rw [hsome α rfl, Quad.norm_eq hB hc]
    obtain ⟨l, hl, hls⟩ := hS.legendre ((α + a.c0) * 2⁻¹)
    rw [hl, bind_ok]
    obtain ⟨hδ0, hδs, hδe⟩ := delta_props cfg.nonresidue a.c0 a.c1 α hβ h1 hα l hls _ rfl
    generalize (if l.isQnr = true then (α + a.c0) * 2⁻¹ - α else (α + a.c0) * 2⁻¹) = δ at *
    obtain ⟨o', ho', hn', hsome'⟩ := hS.sqrt δ
    rw [ho', bind_ok]
    cases o' with
    | none => exact absurd hδs (hn'.mp rfl)
    | some c =>
      have hcc : c * c = δ := hsome' c rfl
      have hc0 : c ≠ 0 := by rintro rfl; exact hδ0 (by rw [← hcc]; simp)
      simp only [expect_some, bind_ok, hB.inverse, if_neg hc0, ofOutcome_ok]
      have hcand : Quad.square cfg B ⟨c, a.c1 * 2⁻¹ * c⁻¹⟩ = a := by
        rw [Quad.square_eq hB hc, Quad.mul_eq hB hc]
        apply Quad.ext'
        · simp only []
          rw [← hcc] at hδe
          field_simp
          field_simp at hδe
          linear_combination hδe
        · simp only []
          field_simp
          ring
      rw [if_pos hcand]
      exact ⟨_, rfl, by rw [← Quad.square_eq hB hc]; exact hcand⟩

/-- `c1 ≠ 0` and the norm is not a square: `None` -/
theorem quadSqrt_c1_ne_none {SB : SqrtD F} (hS : SqrtLawful SB) (dbg : Bool) (PD : PrimeD P)
    (hti : twoInv B PD = .ok (2⁻¹ : F)) (a : Quad F) (h1 : a.c1 ≠ 0)
    (hsqn : ¬ IsSquare (Quad.norm cfg B a)) :
    quadSqrt dbg cfg B SB PD a = .ok none := by
  obtain ⟨o, ho, hn, hsome⟩ := hS.sqrt (Quad.norm cfg B a)
  unfold quadSqrt
  rw [if_neg h1]
  simp only [hti, bind_ok, ho]
  cases o with
  | none => rfl
  | some α => exact absurd ⟨α, (hsome α rfl).symm⟩ hsqn

/-- squares of the extension have square norm -/
theorem isSquare_norm_of_isSquare (a : Quad F)
    (h : ∃ b, a = Quad.mul cfg B b b) : IsSquare (Quad.norm cfg B a) := by
  obtain ⟨b, rfl⟩ := h
  exact ⟨Quad.norm cfg B b, Quad.norm_mul hB hc b b⟩

/-- in `F_{q²}`: `a` is a square iff its norm is a square in `F_q` (pure field theory: the algebra of
    the complex method, no dictionary involved) -/
theorem quad_isSquare_iff (a : Quad F) :
    (∃ b, a = Quad.mul cfg B b b) ↔ IsSquare (Quad.norm cfg B a) := by
  have hβ := nonresidue_not_isSquare hnr
  have hF := char_ne_two_of_nonsquare hβ
  have h2 : (2 : F) ≠ 0 := Ring.two_ne_zero hF
  have hβ0 : cfg.nonresidue ≠ 0 := by rintro h; exact hβ ⟨0, by rw [h]; simp⟩
  constructor
  · exact isSquare_norm_of_isSquare hB hc hnr a
  · intro hN
    by_cases h1 : a.c1 = 0
    · by_cases hs : IsSquare a.c0
      · obtain ⟨r, hr⟩ := hs
        refine ⟨⟨r, 0⟩, ?_⟩
        rw [Quad.mul_eq hB hc]
        apply Quad.ext' <;> simp [hr, h1]
      · have hβi : ¬ IsSquare cfg.nonresidue⁻¹ := by
          rintro ⟨r, hr⟩
          exact hβ ⟨r⁻¹, by rw [← mul_inv, ← hr, inv_inv]⟩
        obtain ⟨r, hr⟩ := isSquare_mul_of_not hF hs hβi
        refine ⟨⟨0, r⟩, ?_⟩
        rw [Quad.mul_eq hB hc]
        apply Quad.ext'
        · simp only [mul_zero, zero_add]
          rw [← hr]
          field_simp
        · simp [h1]
    · obtain ⟨α, hα'⟩ := hN
      have hα : α * α = a.c0 ^ 2 - cfg.nonresidue * a.c1 ^ 2 := by
        rw [← hα', Quad.norm_eq hB hc]
      obtain ⟨l, hls⟩ := exists_legSpec ((α + a.c0) * 2⁻¹)
      obtain ⟨hδ0, ⟨c, hc'⟩, hδe⟩ := delta_props cfg.nonresidue a.c0 a.c1 α hβ h1 hα l hls _ rfl
      generalize (if l.isQnr = true then (α + a.c0) * 2⁻¹ - α else (α + a.c0) * 2⁻¹) = δ at *
      have hc0 : c ≠ 0 := by rintro rfl; exact hδ0 (by rw [hc']; simp)
      refine ⟨⟨c, a.c1 * 2⁻¹ * c⁻¹⟩, ?_⟩
      rw [Quad.mul_eq hB hc]
      apply Quad.ext'
      · simp only []
        rw [hc'] at hδe
        field_simp
        field_simp at hδe
        linear_combination (-1 : F) * hδe
      · simp only []
        field_simp
        ring

end quadsqrt

section quadlawful
variable {P F : Type} [Field F] [Fintype F] [DecidableEq F]
variable {cfg : QuadCfg F} {B : FieldD P F}
variable (hB : BaseLawful B) (hc : QuadLawful cfg) (hnr : ∀ x : F, x * x ≠ cfg.nonresidue)
include hB hc hnr

/-- `quadLegendre` is (definitionally) the base Legendre symbol of the norm -/
theorem quadLegendre_eq (SB : SqrtD F) (a : Quad F) :
    quadLegendre cfg B SB a = SB.legendre (Quad.norm cfg B a) := rfl

/-- … and this is the Legendre symbol of `a` in the quadratic extension field -/
theorem quadLegendre_legSpec {SB : SqrtD F} (hS : SqrtLawful SB) (a : Quad F) :
    letI := Quad.field cfg B hB hc hnr
    ∃ l, quadLegendre cfg B SB a = .ok l ∧ LegSpec l a := by
  letI := Quad.field cfg B hB hc hnr
  obtain ⟨l, hl, h1, h2, h3⟩ := hS.legendre (Quad.norm cfg B a)
  have hz : Quad.norm cfg B a = 0 ↔ a = 0 := by
    constructor
    · intro h
      by_contra ha
      exact Quad.norm_ne_zero hB hc hnr a ha h
    · rintro rfl; exact Quad.norm_zero hB hc
  have hsq : IsSquare a ↔ IsSquare (Quad.norm cfg B a) := quad_isSquare_iff hB hc hnr a
  refine ⟨l, hl, ?_, ?_, ?_⟩
  · rw [h1, hz]
  · rw [h2, hsq, ne_eq, ne_eq, hz]
  · rw [h3, hsq]

/-- Euler's criterion through the norm: `a^((q²-1)/2) = norm(a)^((q-1)/2)` (embedded) -/
theorem quad_euler_norm (a : Quad F) :
    letI := Quad.field cfg B hB hc hnr
    a ^ (Fintype.card (Quad F) / 2) = Quad.ofBase hB hc (Quad.norm cfg B a ^ (Fintype.card F / 2)) := by
  letI := Quad.field cfg B hB hc hnr
  have hF := char_ne_two_of_nonsquare (nonresidue_not_isSquare hnr)
  have hK : ringChar (Quad F) ≠ 2 := by
    apply char_ne_two_of_odd
    rw [Quad.card, Nat.pow_mod, FiniteField.odd_card_of_char_ne_two hF]
  obtain ⟨l, h1, h2, h3⟩ := exists_legSpec (Quad.norm cfg B a)
  have hz : Quad.norm cfg B a = 0 ↔ a = 0 := by
    constructor
    · intro h
      by_contra ha
      exact Quad.norm_ne_zero hB hc hnr a ha h
    · rintro rfl; exact Quad.norm_zero hB hc
  have hsq : IsSquare a ↔ IsSquare (Quad.norm cfg B a) := quad_isSquare_iff hB hc hnr a
  have hla : LegSpec l a := ⟨by rw [h1, hz], by rw [h2, hsq, ne_eq, ne_eq, hz], by rw [h3, hsq]⟩
  have e1 := legSpec_toInt_quadraticChar hla
  have e2 := legSpec_toInt_quadraticChar (F := F) ⟨h1, h2, h3⟩
  rw [← quadraticChar_eq_pow_of_char_ne_two' hK a, ← quadraticChar_eq_pow_of_char_ne_two' hF,
    ← e1, ← e2, map_intCast]

theorem quadSqrt_spec {SB : SqrtD F} (hS : SqrtLawful SB) (dbg : Bool) (PD : PrimeD P)
    (hti : twoInv B PD = .ok (2⁻¹ : F)) (a : Quad F) :
    letI := Quad.field cfg B hB hc hnr
    SqrtSpec (quadSqrt dbg cfg B SB PD a) a := by
  letI := Quad.field cfg B hB hc hnr
  by_cases h1 : a.c1 = 0
  · obtain ⟨y, hy, hyy⟩ := quadSqrt_c1_zero hB hc hnr hS dbg PD a h1
    rw [hy]; exact SqrtSpec.of_some hyy
  · by_cases hN : IsSquare (Quad.norm cfg B a)
    · obtain ⟨y, hy, hyy⟩ := quadSqrt_c1_ne_some hB hc hnr hS dbg PD hti a h1 hN
      rw [hy]; exact SqrtSpec.of_some hyy
    · rw [quadSqrt_c1_ne_none hB hc hnr hS dbg PD hti a h1 hN]
      apply SqrtSpec.of_none
      intro hs
      exact hN ((quad_isSquare_iff hB hc hnr a).mp hs)

/-- the quadratic layer of a tower is again a lawful square-root dictionary -/
theorem quadSqrtD_lawful {SB : SqrtD F} (hS : SqrtLawful SB) (dbg : Bool) (PD : PrimeD P)
    (hti : twoInv B PD = .ok (2⁻¹ : F)) :
    letI := Quad.field cfg B hB hc hnr
    SqrtLawful (quadSqrtD dbg cfg B SB PD) := by
  letI := Quad.field cfg B hB hc hnr
  exact ⟨fun a => quadLegendre_legSpec hB hc hnr hS a,
    fun a => quadSqrt_spec hB hc hnr hS dbg PD hti a⟩

/-- soundness alone needs neither the `legendre` nor completeness of the base `sqrt` -/
theorem quadSqrt_sound {SB : SqrtD F} (hSs : ∀ x y, SB.sqrt x = .ok (some y) → y * y = x)
    (dbg : Bool) (PD : PrimeD P) (a y : Quad F)
    (h : quadSqrt dbg cfg B SB PD a = .ok (some y)) : Quad.square cfg B y = a := by
  have hβ0 : cfg.nonresidue ≠ 0 := by
    intro h0; exact hnr 0 (by rw [h0]; ring)
  unfold quadSqrt at h
  split at h
  · rename_i h1
    cases hl : SB.legendre a.c0 with
    | panic => rw [hl] at h; cases h
    | diverge => rw [hl] at h; cases h
    | ok l =>
      rw [hl, bind_ok] at h
      split at h
      · cases hs : SB.sqrt a.c0 with
        | panic => rw [hs] at h; cases h
        | diverge => rw [hs] at h; cases h
        | ok o =>
          rw [hs, bind_ok] at h
          cases o with
          | none => cases h
          | some r =>
            cases h
            rw [Quad.square_eq hB hc, Quad.mul_eq hB hc]
            apply Quad.ext' <;> simp [hSs _ _ hs, h1]
      · rw [fdiv_eq hB _ _ hβ0, bind_ok] at h
        cases hs : SB.sqrt (a.c0 * cfg.nonresidue⁻¹) with
        | panic => rw [hs] at h; cases h
        | diverge => rw [hs] at h; cases h
        | ok o =>
          rw [hs, bind_ok] at h
          cases o with
          | none => cases h
          | some r =>
            cases h
            rw [Quad.square_eq hB hc, Quad.mul_eq hB hc]
            apply Quad.ext'
            · simp only [mul_zero, zero_add]
              rw [hSs _ _ hs]
              field_simp
            · simp [h1]
  · -- the candidate is checked by squaring
    simp only [] at h
    cases ht : twoInv B PD with
    | panic => rw [ht] at h; cases h
    | diverge => rw [ht] at h; cases h
    | ok ti =>
      rw [ht, bind_ok] at h
      cases hs : SB.sqrt (Quad.norm cfg B a) with
      | panic => rw [hs] at h; cases h
      | diverge => rw [hs] at h; cases h
      | ok o =>
        rw [hs, bind_ok] at h
        cases o with
        | none => cases h
        | some α =>
          dsimp only at h
          cases hl : SB.legendre ((α + a.c0) * ti) with
          | panic => rw [hl] at h; cases h
          | diverge => rw [hl] at h; cases h
          | ok l =>
            rw [hl, bind_ok] at h
            cases hs2 : SB.sqrt (if l.isQnr = true then (α + a.c0) * ti - α else (α + a.c0) * ti) with
            | panic => rw [hs2] at h; cases h
            | diverge => rw [hs2] at h; cases h
            | ok o2 =>
              rw [hs2, bind_ok] at h
              cases o2 with
              | none => cases h
              | some c =>
                rw [expect_some, bind_ok, hB.inverse, ofOutcome_ok, bind_ok] at h
                split at h
                · cases h
                · rw [expect_some, bind_ok] at h
                  split at h
                  · rename_i hcand
                    cases h
                    exact hcand
                  · split at h
                    · cases hql : quadLegendre cfg B SB a with
                      | panic => rw [hql] at h; cases h
                      | diverge => rw [hql] at h; cases h
                      | ok l' =>
                        rw [hql, bind_ok] at h
                        split at h <;> cases h
                    · cases h

theorem quadSqrt_zero {SB : SqrtD F} (hS : SqrtLawful SB) (dbg : Bool) (PD : PrimeD P) :
    quadSqrt dbg cfg B SB PD (0 : Quad F) = .ok (some 0) := by
  obtain ⟨y, hy, hyy⟩ := quadSqrt_c1_zero hB hc hnr hS dbg PD (0 : Quad F) rfl
  rw [hy]
  have hy0 : y = 0 := by
    letI := Quad.field cfg B hB hc hnr
    have : y * y = 0 := hyy
    exact mul_self_eq_zero.mp this
  rw [hy0]

end quadlawful

/-! ## 11. the cubic extension -/

/-- `(q³ - 1)/2 = (1 + q + q²)·((q - 1)/2)` -/
theorem card_cube_half (q : Nat) (hq : q % 2 = 1) : q ^ 3 / 2 = (q + (q ^ 2 + 1)) * (q / 2) := by
  obtain ⟨k, rfl⟩ : ∃ k, q = 2 * k + 1 := ⟨q / 2, by omega⟩
  have h1 : (2 * k + 1) / 2 = k := by omega
  have h2 : (2 * k + 1) ^ 3 = 2 * ((2 * k + 1 + ((2 * k + 1) ^ 2 + 1)) * k) + 1 := by ring
  rw [h1, h2]
  omega

section cubic
variable {P F : Type} [Field F] [Fintype F] [DecidableEq F]
variable {cfg : CubicCfg F} {B : FieldD P F}
variable (hB : BaseLawful B) (hc : CubicLawful cfg) (hnc : ∀ x : F, x ^ 3 ≠ cfg.nonresidue)
include hc hnc

theorem cubic_char_ne_two (hF : ringChar F ≠ 2) :
    letI := Cubic.field cfg hc hnc
    ringChar (Cubic F) ≠ 2 := by
  letI := Cubic.field cfg hc hnc
  apply char_ne_two_of_odd
  rw [Cubic.card]
  have := FiniteField.odd_card_of_char_ne_two hF
  rw [Nat.pow_mod, this]

/-- Euler's criterion descends along the norm: if `(n, 0, 0) = a^q · (a^(q²) · a)` then `a` and `n`
    have the same Legendre symbol -/
theorem cubic_legSpec_of_norm (hF : ringChar F ≠ 2) (a : Cubic F) (n : F)
    (hn : letI := Cubic.commRing cfg hc
      (⟨n, 0, 0⟩ : Cubic F) = a ^ Fintype.card F * (a ^ Fintype.card F ^ 2 * a))
    (l : Legendre) (hl : LegSpec l n) :
    letI := Cubic.field cfg hc hnc
    LegSpec l a := by
  letI := Cubic.field cfg hc hnc
  have hK := cubic_char_ne_two hc hnc hF
  have hodd := FiniteField.odd_card_of_char_ne_two hF
  have hq : 0 < Fintype.card F := Fintype.card_pos
  have hn' : Cubic.ofBase hc n = a ^ (Fintype.card F + (Fintype.card F ^ 2 + 1)) := by
    rw [pow_add, pow_add, pow_one]; exact hn
  have hz : n = 0 ↔ a = 0 := by
    constructor
    · rintro rfl
      rw [map_zero] at hn'
      exact pow_eq_zero_iff (by omega) |>.mp hn'.symm
    · rintro rfl
      rw [zero_pow (by omega)] at hn'
      exact (map_eq_zero (Cubic.ofBase hc)).mp hn'
  have hsq : a ≠ 0 → (IsSquare a ↔ IsSquare n) := by
    intro ha
    have hn0 : n ≠ 0 := fun h => ha (hz.mp h)
    rw [FiniteField.isSquare_iff hK ha, FiniteField.isSquare_iff hF hn0, Cubic.card,
      card_cube_half _ hodd, pow_mul, ← hn', ← map_pow]
    constructor
    · intro h
      exact Cubic.ofBase_injective hc (by rw [h, map_one])
    · intro h
      rw [h, map_one]
  obtain ⟨h1, h2, h3⟩ := hl
  refine ⟨by rw [h1, hz], ?_, ?_⟩
  · rw [h2, ne_eq, ne_eq, hz]
    constructor
    · rintro ⟨h0, hs⟩; exact ⟨h0, (hsq h0).mpr hs⟩
    · rintro ⟨h0, hs⟩; exact ⟨h0, (hsq h0).mp hs⟩
  · rw [h3]
    by_cases ha : a = 0
    · subst ha
      have : n = 0 := hz.mpr rfl
      subst this
      simp
    · rw [hsq ha]

/-- `cubicLegendre` is Euler's criterion in `F_{q³}`, given that `frobenius_map(d)` and
    `frobenius_map(2d)` are the `q`- and `q²`-power maps (valid Frobenius tables); the `assert!` of the
    norm is then unreachable -/
theorem cubicLegendre_legSpec {SB : SqrtD F} (hS : SqrtLawful SB) (hF : ringChar F ≠ 2)
    (a : Cubic F)
    (hf1 : letI := Cubic.commRing cfg hc
      Cubic.frob cfg B a B.extDeg = .ok (a ^ Fintype.card F))
    (hf2 : letI := Cubic.commRing cfg hc
      Cubic.frob cfg B a (2 * B.extDeg) = .ok (a ^ Fintype.card F ^ 2)) :
    letI := Cubic.field cfg hc hnc
    ∃ l, cubicLegendre cfg B SB a = .ok l ∧ LegSpec l a := by
  letI := Cubic.field cfg hc hnc
  obtain ⟨n, hn1, hn2⟩ := Cubic.norm_spec hc hnc a hf1 hf2
  obtain ⟨l, hl, hls⟩ := hS.legendre n
  refine ⟨l, ?_, cubic_legSpec_of_norm hc hnc hF a n hn2 l hls⟩
  unfold cubicLegendre
  rw [hn1, ofOutcome_ok, bind_ok, hl]

include hB

/-- `cubicSqrt` = Tonelli–Shanks / 3-mod-4 in `F_{q³}` with the configured constants -/
theorem cubicSqrt_spec (dbg : Bool) (SB : SqrtD F) (pre : Precomp (Cubic F))
    (hpre : letI := Cubic.field cfg hc hnc
      ValidPre pre) (a : Cubic F) :
    letI := Cubic.field cfg hc hnc
    SqrtSpec (cubicSqrt dbg cfg B SB (some pre) a) a := by
  letI := Cubic.field cfg hc hnc
  exact fieldSqrt_spec dbg (Cubic.square cfg B) (fun x => Cubic.square_eq hB hc x)
    (cubicLegendre cfg B SB) pre hpre a

theorem cubicSqrt_none (dbg : Bool) (SB : SqrtD F) (a : Cubic F) :
    cubicSqrt dbg cfg B SB none a = .panic := rfl

theorem cubicSqrt_sound (dbg : Bool) (SB : SqrtD F) (s : Nat) (z : Cubic F) (m : Nat)
    (a y : Cubic F) (h : cubicSqrt dbg cfg B SB (fp3Precomp s z m) a = .ok (some y)) :
    Cubic.mul cfg y y = a := by
  letI := Cubic.field cfg hc hnc
  exact sqrtTS_sound dbg (Cubic.square cfg B) (fun x => Cubic.square_eq hB hc x)
    (cubicLegendre cfg B SB) s z m a y h

/-- the cubic layer of a tower is a lawful square-root dictionary -/
theorem cubicSqrtD_lawful {SB : SqrtD F} (hS : SqrtLawful SB) (hF : ringChar F ≠ 2) (dbg : Bool)
    (pre : Precomp (Cubic F))
    (hpre : letI := Cubic.field cfg hc hnc
      ValidPre pre)
    (hf1 : letI := Cubic.commRing cfg hc
      ∀ a : Cubic F, Cubic.frob cfg B a B.extDeg = .ok (a ^ Fintype.card F))
    (hf2 : letI := Cubic.commRing cfg hc
      ∀ a : Cubic F, Cubic.frob cfg B a (2 * B.extDeg) = .ok (a ^ Fintype.card F ^ 2)) :
    letI := Cubic.field cfg hc hnc
    SqrtLawful (cubicSqrtD dbg cfg B SB (some pre)) := by
  letI := Cubic.field cfg hc hnc
  exact ⟨fun a => cubicLegendre_legSpec hc hnc hS hF a (hf1 a) (hf2 a),
    fun a => cubicSqrt_spec hB hc hnc dbg SB pre hpre a⟩

end cubic

/-! ## 12. coordinate recovery -/

/-- `cmp` is oriented: `a > b ↔ b < a` (true of every lawful `Ord`) -/
def CmpOriented {K : Type} (S : SqrtD K) : Prop := ∀ a b, S.cmp a b = .gt ↔ S.cmp b a = .lt

theorem CmpOriented.eq_iff {K : Type} {S : SqrtD K} (h : CmpOriented S) (a b : K) :
    S.cmp a b = .eq ↔ S.cmp b a = .eq := by
  have h1 := h a b
  have h2 := h b a
  cases hab : S.cmp a b <;> cases hba : S.cmp b a <;> simp_all

/-- `Ord for QuadExtField` (`c1` first, then `c0`) is oriented when the base order is -/
theorem quadCmp_oriented {K : Type} {SB : SqrtD K} (h : CmpOriented SB) (a b : Quad K) :
    quadCmp SB a b = .gt ↔ quadCmp SB b a = .lt := by
  unfold quadCmp
  have h1 := h a.c1 b.c1
  have h2 := h b.c1 a.c1
  have h3 := h a.c0 b.c0
  cases h11 : SB.cmp a.c1 b.c1 <;> cases h12 : SB.cmp b.c1 a.c1 <;> simp_all

/-- `Ord for CubicExtField` (`c2`, `c1`, `c0`) likewise -/
theorem cubicCmp_oriented {K : Type} {SB : SqrtD K} (h : CmpOriented SB) (a b : Cubic K) :
    cubicCmp SB a b = .gt ↔ cubicCmp SB b a = .lt := by
  unfold cubicCmp
  have h1 := h a.c2 b.c2
  have h2 := h b.c2 a.c2
  have h3 := h a.c1 b.c1
  have h4 := h b.c1 a.c1
  have h5 := h a.c0 b.c0
  cases h11 : SB.cmp a.c2 b.c2 <;> cases h12 : SB.cmp b.c2 a.c2 <;>
    cases h21 : SB.cmp a.c1 b.c1 <;> cases h22 : SB.cmp b.c1 a.c1 <;>
    simp_all [Ordering.then]

section curves
variable {P F : Type} [Field F] [DecidableEq F]
variable {B : FieldD P F} {S : SqrtD F}

/-- the right-hand side assembled by `get_ys_from_x_unchecked` (with the `a = 0` / `b = 0`
    short-cuts of `mul_by_a` / `add_b`) is `x³ + a·x + b` -/
theorem sw_rhs_eq (hB : BaseLawful B) (a b x : F) :
    (if a ≠ 0 then swAddB b (B.square x * x) + swMulByA a x else swAddB b (B.square x * x))
      = x ^ 3 + a * x + b := by
  unfold swAddB swMulByA
  rw [hB.square]
  by_cases ha : a = 0 <;> by_cases hb : b = 0 <;> simp [ha, hb] <;> ring


theorem lt_iff (S : SqrtD F) (a b : F) : S.lt a b = true ↔ S.cmp a b = .lt := by
  unfold SqrtD.lt
  cases S.cmp a b <;> decide

theorem le_iff (S : SqrtD F) (a b : F) : S.le a b = true ↔ S.cmp a b ≠ .gt := by
  unfold SqrtD.le
  cases S.cmp a b <;> decide

theorem sq_eq_cases {y y1 r : F} (h : y * y = r) (h1 : y1 * y1 = r) : y = y1 ∨ y = -y1 := by
  have : (y - y1) * (y + y1) = 0 := by ring_nf; rw [← pow_two] at *; linear_combination h - h1
  rcases mul_eq_zero.mp this with h | h
  · left; linear_combination h
  · right; linear_combination h

variable (hB : BaseLawful B) (hS : ∀ x, SqrtSpec (S.sqrt x) x) (hcmp : CmpOriented S)
include hB hS

theorem getYsFromX_none_iff (a b x : F) :
    getYsFromX B S a b x = .ok none ↔ ¬ IsSquare (x ^ 3 + a * x + b) := by
  unfold getYsFromX
  simp only [sw_rhs_eq hB]
  obtain ⟨o, ho, hn, hsome⟩ := hS (x ^ 3 + a * x + b)
  rw [ho, bind_ok]
  cases o with
  | none => simp [hn.mp rfl]
  | some y =>
    have : IsSquare (x ^ 3 + a * x + b) := ⟨y, (hsome y rfl).symm⟩
    dsimp only
    split <;> simp [this]

theorem getYsFromX_total (a b x : F) : ∃ r, getYsFromX B S a b x = .ok r := by
  unfold getYsFromX
  simp only [sw_rhs_eq hB]
  obtain ⟨o, ho, hn, hsome⟩ := hS (x ^ 3 + a * x + b)
  rw [ho, bind_ok]
  cases o with
  | none => exact ⟨_, rfl⟩
  | some y =>
    dsimp only
    split <;> exact ⟨_, rfl⟩

include hcmp in
theorem getYsFromX_some (a b x y1 y2 : F) (h : getYsFromX B S a b x = .ok (some (y1, y2))) :
    y1 * y1 = x ^ 3 + a * x + b ∧ y2 = -y1 ∧ S.cmp y1 y2 ≠ .gt ∧
      ∀ y, y * y = x ^ 3 + a * x + b → y = y1 ∨ y = y2 := by
  unfold getYsFromX at h
  simp only [sw_rhs_eq hB] at h
  obtain ⟨o, ho, hn, hsome⟩ := hS (x ^ 3 + a * x + b)
  rw [ho, bind_ok] at h
  cases o with
  | none => cases h
  | some y =>
    have hy := hsome y rfl
    dsimp only at h
    split at h
    · rename_i hlt
      simp only [Res.ok.injEq, Option.some.injEq, Prod.mk.injEq] at h
      obtain ⟨rfl, rfl⟩ := h
      refine ⟨hy, rfl, ?_, fun y' hy' => sq_eq_cases hy' hy⟩
      rw [(lt_iff S _ _).mp hlt]; decide
    · rename_i hlt
      simp only [Res.ok.injEq, Option.some.injEq, Prod.mk.injEq] at h
      obtain ⟨rfl, rfl⟩ := h
      have hy' : -y * -y = x ^ 3 + a * x + b := by rw [neg_mul_neg]; exact hy
      refine ⟨hy', (neg_neg y).symm, ?_, fun y' hy'' => ?_⟩
      · intro hgt
        exact hlt ((lt_iff S _ _).mpr ((hcmp _ _).mp hgt))
      · rcases sq_eq_cases hy'' hy with h | h
        · right; exact h
        · left; exact h

theorem getPointFromX_eq (a b x : F) (greatest : Bool) :
    (getYsFromX B S a b x = .ok none → getPointFromX B S a b x greatest = .ok none) ∧
    (∀ y1 y2, getYsFromX B S a b x = .ok (some (y1, y2)) →
      getPointFromX B S a b x greatest = .ok (some (x, if greatest then y2 else y1))) := by
  unfold getPointFromX
  constructor
  · intro h; rw [h]; rfl
  · intro y1 y2 h
    rw [h, bind_ok]
    cases greatest <;> rfl

theorem getXsFromY_none_iff (a d y : F) :
    getXsFromY B S a d y = .ok none ↔
      a - d * y ^ 2 = 0 ∨ ¬ IsSquare ((1 - y ^ 2) / (a - d * y ^ 2)) := by
  unfold getXsFromY
  simp only [hB.square, hB.inverse, ofOutcome_ok, bind_ok]
  have e : a - y * y * d = a - d * y ^ 2 := by ring
  rw [e]
  by_cases hden : a - d * y ^ 2 = 0
  · simp [hden]
  · rw [if_neg hden]
    dsimp only
    have e2 : (a - d * y ^ 2)⁻¹ * (1 - y * y) = (1 - y ^ 2) / (a - d * y ^ 2) := by
      rw [div_eq_mul_inv]; ring
    rw [e2]
    obtain ⟨o, ho, hn, hsome⟩ := hS ((1 - y ^ 2) / (a - d * y ^ 2))
    rw [ho, bind_ok]
    cases o with
    | none => simp [hn.mp rfl]
    | some x =>
      have : IsSquare ((1 - y ^ 2) / (a - d * y ^ 2)) := ⟨x, (hsome x rfl).symm⟩
      dsimp only
      split <;> simp [this, hden]

theorem getXsFromY_total (a d y : F) : ∃ r, getXsFromY B S a d y = .ok r := by
  unfold getXsFromY
  simp only [hB.square, hB.inverse, ofOutcome_ok, bind_ok]
  split
  · exact ⟨_, rfl⟩
  · rename_i x0 _
    obtain ⟨o, ho, hn, hsome⟩ := hS (x0 * (1 - y * y))
    rw [ho, bind_ok]
    cases o with
    | none => exact ⟨_, rfl⟩
    | some x =>
      dsimp only
      split <;> exact ⟨_, rfl⟩

include hcmp in
/-- both results lie on the curve `a·x² + y² = 1 + d·x²·y²`, are opposite, ordered, and exhaust the
    solutions -/
theorem getXsFromY_some (a d y x1 x2 : F) (h : getXsFromY B S a d y = .ok (some (x1, x2))) :
    a - d * y ^ 2 ≠ 0 ∧ x1 * x1 = (1 - y ^ 2) / (a - d * y ^ 2) ∧
      a * x1 ^ 2 + y ^ 2 = 1 + d * x1 ^ 2 * y ^ 2 ∧ x2 = -x1 ∧ S.cmp x1 x2 ≠ .gt ∧
      ∀ x, a * x ^ 2 + y ^ 2 = 1 + d * x ^ 2 * y ^ 2 → x = x1 ∨ x = x2 := by
  unfold getXsFromY at h
  simp only [hB.square, hB.inverse, ofOutcome_ok, bind_ok] at h
  have e : a - y * y * d = a - d * y ^ 2 := by ring
  rw [e] at h
  by_cases hden : a - d * y ^ 2 = 0
  · rw [if_pos hden] at h; cases h
  · rw [if_neg hden] at h
    dsimp only at h
    have e2 : (a - d * y ^ 2)⁻¹ * (1 - y * y) = (1 - y ^ 2) / (a - d * y ^ 2) := by
      rw [div_eq_mul_inv]; ring
    rw [e2] at h
    obtain ⟨o, ho, hn, hsome⟩ := hS ((1 - y ^ 2) / (a - d * y ^ 2))
    rw [ho, bind_ok] at h
    have curve_of : ∀ x, x * x = (1 - y ^ 2) / (a - d * y ^ 2) →
        a * x ^ 2 + y ^ 2 = 1 + d * x ^ 2 * y ^ 2 := by
      intro x hx
      have : x * x * (a - d * y ^ 2) = 1 - y ^ 2 := by rw [hx, div_mul_cancel₀ _ hden]
      linear_combination this
    have of_curve : ∀ x, a * x ^ 2 + y ^ 2 = 1 + d * x ^ 2 * y ^ 2 →
        x * x = (1 - y ^ 2) / (a - d * y ^ 2) := by
      intro x hx
      rw [eq_div_iff hden]
      linear_combination hx
    cases o with
    | none => cases h
    | some x =>
      have hx := hsome x rfl
      dsimp only at h
      split at h
      · rename_i hle
        simp only [Res.ok.injEq, Option.some.injEq, Prod.mk.injEq] at h
        obtain ⟨rfl, rfl⟩ := h
        exact ⟨hden, hx, curve_of _ hx, rfl, (le_iff S _ _).mp hle,
          fun x' hx' => sq_eq_cases (of_curve _ hx') hx⟩
      · rename_i hle
        simp only [Res.ok.injEq, Option.some.injEq, Prod.mk.injEq] at h
        obtain ⟨rfl, rfl⟩ := h
        have hx' : -x * -x = (1 - y ^ 2) / (a - d * y ^ 2) := by rw [neg_mul_neg]; exact hx
        refine ⟨hden, hx', curve_of _ hx', (neg_neg x).symm, ?_, fun x'' hx'' => ?_⟩
        · have hgt : S.cmp x (-x) = .gt := by
            by_contra hne
            exact hle ((le_iff S _ _).mpr hne)
          rw [(hcmp _ _).mp hgt]; decide
        · rcases sq_eq_cases (of_curve _ hx'') hx with h | h
          · right; exact h
          · left; exact h

theorem getPointFromY_eq (a d y : F) (greatest : Bool) :
    (getXsFromY B S a d y = .ok none → getPointFromY B S a d y greatest = .ok none) ∧
    (∀ x1 x2, getXsFromY B S a d y = .ok (some (x1, x2)) →
      getPointFromY B S a d y greatest = .ok (some (if greatest then x2 else x1, y))) := by
  unfold getPointFromY
  constructor
  · intro h; rw [h]; rfl
  · intro x1 x2 h
    rw [h, bind_ok]
    cases greatest <;> rfl

end curves

/-- the order of the prime field (integers `< p`) is oriented -/
theorem zmod_cmp_oriented (dbg : Bool) (p : Nat) [Fact p.Prime] (pre : Option (Precomp (ZMod p))) :
    CmpOriented (zmodSqrtD dbg p pre) := by
  intro a b
  show compare a.val b.val = .gt ↔ compare b.val a.val = .lt
  rw [Nat.compare_eq_gt, Nat.compare_eq_lt]

/-! ## 13. the constant `1/2` of the complex method, and the executable prime field -/

/-- `fpPrimeD` over `ZMod p` (same bodies) -/
def zmodPrimeD (p n : Nat) : PrimeD (ZMod p) :=
  { modulus := p, limbs := n, fromBigint := fun x => if x < p then some (x : ZMod p) else none }

theorem twoInv_zmod (p : Nat) [Fact p.Prime] (hp : p ≠ 2) (n : Nat) (hlt : p + 1 < 2 ^ (64 * n)) :
    twoInv (primeD (ZMod p)) (zmodPrimeD p n) = .ok (2⁻¹ : ZMod p) := by
  have hodd : p % 2 = 1 := ((Fact.out : p.Prime).eq_two_or_odd).resolve_left hp
  have hp3 : 3 ≤ p := by
    have := (Fact.out : p.Prime).two_le
    omega
  unfold twoInv
  show (Res.expect (if (p + 1) % 2 ^ (64 * n) / 2 < p then
      some (((p + 1) % 2 ^ (64 * n) / 2 : ℕ) : ZMod p) else none)).bind _ = _
  rw [Nat.mod_eq_of_lt hlt, if_pos (by omega), expect_some, bind_ok]
  show Res.ok (((p + 1) / 2 : ℕ) : ZMod p) = _
  congr 1
  apply eq_inv_of_mul_eq_one_left
  have h2 : (p + 1) / 2 * 2 = p + 1 := by omega
  have : ((((p + 1) / 2 * 2 : ℕ)) : ZMod p) = ((p + 1 : ℕ) : ZMod p) := by rw [h2]
  push_cast at this
  rw [this]
  simp

section twoinvtower
variable {P F : Type} [Field F] [DecidableEq F]

/-- the constant is inherited by the quadratic layer … -/
theorem twoInv_quad {cfg : QuadCfg F} {B : FieldD P F} (hB : BaseLawful B) (hc : QuadLawful cfg)
    (hnr : ∀ x : F, x * x ≠ cfg.nonresidue) (PD : PrimeD P) (h2 : (2 : F) ≠ 0)
    (h : twoInv B PD = .ok (2⁻¹ : F)) :
    letI := Quad.field cfg B hB hc hnr
    twoInv (Quad.fieldD cfg B) PD = .ok (2⁻¹ : Quad F) := by
  letI := Quad.field cfg B hB hc hnr
  unfold twoInv at h ⊢
  dsimp only at h ⊢
  cases hfb : PD.fromBigint ((PD.modulus + 1) % 2 ^ (64 * PD.limbs) / 2) with
  | none => rw [hfb] at h; cases h
  | some e =>
    rw [hfb] at h
    rw [expect_some, bind_ok] at h ⊢
    have he : B.ofPrime e = 2⁻¹ := Res.ok.inj h
    show Res.ok (⟨B.ofPrime e, 0⟩ : Quad F) = _
    congr 1
    apply eq_inv_of_mul_eq_one_left
    rw [← one_add_one_eq_two]
    show Quad.mul cfg B ⟨B.ofPrime e, 0⟩ (1 + 1) = 1
    rw [Quad.mul_eq hB hc, he]
    apply Quad.ext'
    · simp only [Quad.add_c0, Quad.add_c1, Quad.one_c0, Quad.one_c1]
      field_simp
      norm_num
    · simp

/-- … and by the cubic layer -/
theorem twoInv_cubic {cfg : CubicCfg F} {B : FieldD P F} (hc : CubicLawful cfg)
    (hnc : ∀ x : F, x ^ 3 ≠ cfg.nonresidue) (PD : PrimeD P) (h2 : (2 : F) ≠ 0)
    (h : twoInv B PD = .ok (2⁻¹ : F)) :
    letI := Cubic.field cfg hc hnc
    twoInv (Cubic.fieldD cfg B) PD = .ok (2⁻¹ : Cubic F) := by
  letI := Cubic.field cfg hc hnc
  unfold twoInv at h ⊢
  dsimp only at h ⊢
  cases hfb : PD.fromBigint ((PD.modulus + 1) % 2 ^ (64 * PD.limbs) / 2) with
  | none => rw [hfb] at h; cases h
  | some e =>
    rw [hfb] at h
    rw [expect_some, bind_ok] at h ⊢
    have he : B.ofPrime e = 2⁻¹ := Res.ok.inj h
    show Res.ok (⟨B.ofPrime e, 0, 0⟩ : Cubic F) = _
    congr 1
    apply eq_inv_of_mul_eq_one_left
    rw [← one_add_one_eq_two]
    show Cubic.mul cfg ⟨B.ofPrime e, 0, 0⟩ (1 + 1) = 1
    rw [Cubic.mul_eq hc, he]
    apply Cubic.ext'
    · simp only [Cubic.add_c0, Cubic.add_c1, Cubic.add_c2, Cubic.one_c0, Cubic.one_c1, Cubic.one_c2]
      field_simp
      norm_num
    · simp
    · simp

end twoinvtower

section fpcorrect
variable (p : ℕ) [Fact p.Prime]

/-- **`fpSqrtD_correct`** on the executable prime field `Fp p`: with the constants produced by
    `sqrt_precomputation`, `sqrt` of a canonical representative never panics, returns `None` exactly on
    non-residues and otherwise a canonical representative of a root -/
theorem fpSqrtD_correct (dbg : Bool) (hp : p ≠ 2) (n : Nat) (hlt : p < 2 ^ (64 * n))
    (g : ZMod p) (hg : ¬ IsSquare g) (x : ZMod p) :
    ∃ r, (fpSqrtD dbg p (sqrtPrecomputation n p (ofZ p (g ^ (twoAdic p).2)))).sqrt (ofZ p x) = .ok r ∧
      (r = none ↔ ¬ IsSquare x) ∧
      ∀ y, r = some y → y * y = ofZ p x ∧ ∃ y', y = ofZ p y' ∧ y' * y' = x := by
  obtain ⟨o, ho, hn, hsome⟩ := (zmodSqrtD_lawful p dbg hp n hlt g hg).sqrt x
  refine ⟨o.map (ofZ p), ?_, ?_, ?_⟩
  · rw [sqrtPrecomputation_map, fpSqrtD_sqrt_ofZ, ho]; rfl
  · rw [← hn]; cases o <;> simp
  · intro y hy
    cases o with
    | none => cases hy
    | some y' =>
      simp only [Option.map, Option.some.injEq] at hy
      subst hy
      have := hsome y' rfl
      exact ⟨by rw [← (ofZ_emb p).mul, this], y', rfl, this⟩

/-- `Fp::legendre` on the executable prime field is the Legendre symbol -/
theorem fpSqrtD_legendre_correct (dbg : Bool) (hp : p ≠ 2) (pre : Option (Precomp (Fp p)))
    (a : ℤ) :
    ∃ l, (fpSqrtD dbg p pre).legendre (ofZ p (a : ZMod p)) = .ok l ∧ LegSpec l (a : ZMod p) ∧
      l.toInt = legendreSym p a :=
  ⟨_, fpSqrtD_legendre_ofZ p dbg pre _, legendreEuler_zmod_legSpec p hp _ (fun _ => rfl) _,
    legendreEuler_zmod_legendreSym p hp _ (fun _ => rfl) a⟩

end fpcorrect

/-! ## 14. `Fp3` over the prime field: unconditional -/

section fp3
variable {F : Type} [Field F] [Fintype F] [DecidableEq F]

theorem fp3SqrtD_lawful (p : ℕ) [Fact p.Prime] [CharP F p] (hp3 : p % 3 = 1)
    (hcard : Fintype.card F = p) (c : Fp3Cfg F) (hc : CubicLawful c.wrap)
    (hnc : ∀ x : F, x ^ 3 ≠ c.wrap.nonresidue)
    (hlen1 : c.frobC1.length = 3) (hlen2 : c.frobC2.length = 3)
    (htbl1 : ∀ i, i < 3 → c.frobC1.getD i 0 = c.nonresidue ^ ((p ^ i - 1) / 3))
    (htbl2 : ∀ i, i < 3 → c.frobC2.getD i 0 = c.nonresidue ^ ((2 * p ^ i - 2) / 3))
    {SB : SqrtD F} (hS : SqrtLawful SB) (hF : ringChar F ≠ 2) (dbg : Bool)
    (pre : Precomp (Cubic F))
    (hpre : letI := Cubic.field c.wrap hc hnc
      ValidPre pre) :
    letI := Cubic.field c.wrap hc hnc
    SqrtLawful (cubicSqrtD dbg c.wrap (primeD F) SB (some pre)) := by
  letI := Cubic.commRing c.wrap hc
  refine cubicSqrtD_lawful primeD_lawful hc hnc hS hF dbg pre hpre ?_ ?_
  · intro a
    have := Fp3.frob_eq_pow p hp3 hcard c hc hnc hlen1 hlen2 htbl1 htbl2 a 1
    rw [pow_one] at this
    rw [hcard]; exact this
  · intro a
    have := Fp3.frob_eq_pow p hp3 hcard c hc hnc hlen1 hlen2 htbl1 htbl2 a 2
    rw [hcard]; exact this

end fp3

/-! ## 14b. two quadratic layers: `Fp4 = Fp2[Y]/(Y² - X)` -/

section fp4
variable {P F : Type} [Field F] [Fintype F] [DecidableEq F]

theorem fp4SqrtD_lawful (c2 : Fp2Cfg F) {B : FieldD P F} (hB : BaseLawful B)
    (hc : QuadLawful c2.wrap) (hnr : ∀ x : F, x * x ≠ c2.wrap.nonresidue) (tbl : List F)
    (hnr4 : letI := Quad.field c2.wrap B hB hc hnr
      ∀ x : Quad F, x * x ≠ ⟨0, 1⟩)
    {SB : SqrtD F} (hS : SqrtLawful SB) (dbg : Bool) (PD : PrimeD P)
    (hti : twoInv B PD = .ok (2⁻¹ : F)) :
    letI := Quad.field c2.wrap B hB hc hnr
    letI := Quad.field (Fp4.cfg c2 ⟨0, 1⟩ tbl) (Quad.fieldD c2.wrap B)
      (Quad.fieldD_baseLawful hB hc hnr) (Fp4.cfg_lawful c2 hB hc hnr tbl) hnr4
    SqrtLawful (quadSqrtD dbg (Fp4.cfg c2 ⟨0, 1⟩ tbl) (Quad.fieldD c2.wrap B)
      (quadSqrtD dbg c2.wrap B SB PD) PD) := by
  letI := Quad.field c2.wrap B hB hc hnr
  have h2 : (2 : F) ≠ 0 :=
    Ring.two_ne_zero (char_ne_two_of_nonsquare (nonresidue_not_isSquare hnr))
  have h1 := quadSqrtD_lawful hB hc hnr hS dbg PD hti
  have hti2 := twoInv_quad hB hc hnr PD h2 hti
  exact quadSqrtD_lawful (Quad.fieldD_baseLawful hB hc hnr) (Fp4.cfg_lawful c2 hB hc hnr tbl) hnr4
    h1 dbg PD hti2

end fp4

/-! ## 15. concrete instances for the non-vacuity examples -/

section concrete

/-- `F₁₃`: `12 = 2²·3`, `2` is a non-residue, `z = 2³ = 8` -/
theorem valid13 : ValidTS (F := ZMod 13) 2 8 1 :=
  ⟨by rw [ZMod.card]; norm_num, by norm_num, by decide⟩

/-- `F₁₇`: `16 = 2⁴·1`, `3` is a non-residue, `z = 3` -/
theorem valid17 : ValidTS (F := ZMod 17) 4 3 0 :=
  ⟨by rw [ZMod.card]; norm_num, by norm_num, by decide⟩

/-- `F₅`: `4 = 2²·1`, `2` is a non-residue, `z = 2` -/
theorem valid5 : ValidTS (F := ZMod 5) 2 2 0 :=
  ⟨by rw [ZMod.card]; norm_num, by norm_num, by decide⟩

def S5 : SqrtD (ZMod 5) := zmodSqrtD false 5 (some (.tonelliShanks 2 2 0))
theorem S5_lawful : SqrtLawful S5 :=
  zmodSqrtD_lawful_of_valid 5 false (by norm_num) _ valid5
theorem twoInv5 : twoInv (primeD (ZMod 5)) (zmodPrimeD 5 1) = .ok (2⁻¹ : ZMod 5) :=
  twoInv_zmod 5 (by norm_num) 1 (by norm_num)

def S13 : SqrtD (ZMod 13) := zmodSqrtD false 13 (some (.tonelliShanks 2 8 1))
def S17 : SqrtD (ZMod 17) := zmodSqrtD false 17 (some (.tonelliShanks 4 3 0))
def S7 : SqrtD (ZMod 7) := zmodSqrtD false 7 (some (.case3Mod4 2))

theorem S13_lawful : SqrtLawful S13 :=
  zmodSqrtD_lawful_of_valid 13 false (by norm_num) _ valid13
theorem S17_lawful : SqrtLawful S17 :=
  zmodSqrtD_lawful_of_valid 17 false (by norm_num) _ valid17
theorem S7_lawful : SqrtLawful S7 :=
  zmodSqrtD_lawful_of_valid 7 false (by norm_num) _ ⟨by rw [ZMod.card], by rw [ZMod.card]⟩

def B13 : FieldD (ZMod 13) (ZMod 13) := primeD (ZMod 13)
theorem B13_lawful : BaseLawful B13 := primeD_lawful

/-- `F₁₃[X]/(X² - 2)` -/
def c13two : Fp2Cfg (ZMod 13) := Fp2Cfg.default 2 [1, 12]
theorem c13two_lawful : QuadLawful c13two.wrap := Fp2Cfg.default_wrap_lawful _ _
theorem nonsq13 : ∀ x : ZMod 13, x * x ≠ c13two.wrap.nonresidue := by decide

/-- `F₁₃[X]/(X³ - 2)` with its Frobenius tables -/
def c13cub : Fp3Cfg (ZMod 13) := Fp3Cfg.default 2 [1, 3, 9] [1, 9, 3]
theorem c13cub_lawful : CubicLawful c13cub.wrap := Fp3Cfg.default_wrap_lawful _ _ _
theorem noncube13 : ∀ x : ZMod 13, x ^ 3 ≠ c13cub.wrap.nonresidue := by decide

theorem twoInv13 : twoInv B13 (zmodPrimeD 13 1) = .ok (2⁻¹ : ZMod 13) :=
  twoInv_zmod 13 (by norm_num) 1 (by norm_num)

theorem twoInv7 : twoInv B7 (zmodPrimeD 7 1) = .ok (2⁻¹ : ZMod 7) :=
  twoInv_zmod 7 (by norm_num) 1 (by norm_num)

/-- `F_{13³}`: `13³ - 1 = 2²·549`, `549 = 2·274 + 1`, `5² = -1` -/
theorem valid13cub :
    letI := Cubic.field c13cub.wrap c13cub_lawful noncube13
    ValidTS (F := Cubic (ZMod 13)) 2 ⟨5, 0, 0⟩ 274 := by
  letI := Cubic.field c13cub.wrap c13cub_lawful noncube13
  refine ⟨by rw [Cubic.card, ZMod.card]; norm_num, by norm_num, ?_⟩
  decide +kernel

theorem c13cub_tables :
    c13cub.frobC1.length = 3 ∧ c13cub.frobC2.length = 3 ∧
    (∀ i, i < 3 → c13cub.frobC1.getD i 0 = c13cub.nonresidue ^ ((13 ^ i - 1) / 3)) ∧
    (∀ i, i < 3 → c13cub.frobC2.getD i 0 = c13cub.nonresidue ^ ((2 * 13 ^ i - 2) / 3)) := by
  refine ⟨rfl, rfl, fun i hi => ?_, fun i hi => ?_⟩ <;> interval_cases i <;> decide +kernel

end concrete

end Ark.SqrtP
