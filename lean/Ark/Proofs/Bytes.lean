import Ark.Model.Bytes
import Mathlib.Tactic.Ring
import Mathlib.Tactic.Linarith
import Mathlib.Tactic.NormNum
/-
  Ark.Proofs.Bytes — helper lemmas for properties C09 / C10 about the executable model
  `Ark.Model.Bytes` (field-element and curve-point (de)serialisation of arkworks).

  Contents: little-endian byte algebra (`toB`, `leVal`); the `SerBuf` accessors on the canonical
  shape `init ++ [lastLimb]`; well-formed configurations (`WFc`); closed forms of
  `fpSerFlags` (`fpSer_char`) and `fpDeFlags` (`fpDe_char`); size / round trip / uniqueness /
  totality / consumption for `Fp` and towers; the point layer over an abstract `Codec`.
-/
open Ark
set_option linter.unusedSimpArgs false
namespace Ark.Bytes

/-- `k` little-endian bytes of `n` -/
def toB : Nat → Nat → List Nat
  | 0, _ => []
  | k+1, n => n % 256 :: toB k (n / 256)

theorem toB_length (k n : Nat) : (toB k n).length = k := by
  induction k generalizing n with
  | zero => rfl
  | succ k ih => simp [toB, ih]

theorem toB_lt (k n : Nat) : ∀ b ∈ toB k n, b < 256 := by
  induction k generalizing n with
  | zero => simp [toB]
  | succ k ih =>
    intro b hb
    simp only [toB, List.mem_cons] at hb
    rcases hb with rfl | hb
    · exact Nat.mod_lt _ (by decide)
    · exact ih _ b hb

theorem leVal_toB (k n : Nat) : leVal (toB k n) = n % 256 ^ k := by
  induction k generalizing n with
  | zero => simp [toB, leVal, Nat.mod_one]
  | succ k ih =>
    simp only [toB, leVal, ih]
    rw [Nat.pow_succ, Nat.mul_comm (256 ^ k) 256, Nat.mod_mul]

theorem leVal_append (a b : List Nat) : leVal (a ++ b) = leVal a + 256 ^ a.length * leVal b := by
  induction a with
  | nil => simp [leVal]
  | cons x xs ih => simp only [List.cons_append, leVal, ih, List.length_cons, Nat.pow_succ]; ring

theorem leVal_replicate_zero (k : Nat) : leVal (List.replicate k 0) = 0 := by
  induction k with
  | zero => rfl
  | succ k ih => simp [List.replicate_succ, leVal, ih]

theorem leVal_lt (l : List Nat) (h : ∀ b ∈ l, b < 256) : leVal l < 256 ^ l.length := by
  induction l with
  | nil => simp [leVal]
  | cons x xs ih =>
    have h1 : x < 256 := h x (by simp)
    have h2 := ih (fun b hb => h b (by simp [hb]))
    simp only [leVal, List.length_cons, Nat.pow_succ]
    omega

theorem toB_leVal_add (l : List Nat) (h : ∀ b ∈ l, b < 256) (m : Nat) :
    toB l.length (leVal l + 256 ^ l.length * m) = l := by
  induction l with
  | nil => rfl
  | cons x xs ih =>
    have h1 : x < 256 := h x (by simp)
    have h2 := ih (fun b hb => h b (by simp [hb]))
    simp only [List.length_cons, toB, leVal, Nat.pow_succ]
    have e : x + 256 * leVal xs + 256 ^ xs.length * 256 * m = x + 256 * (leVal xs + 256 ^ xs.length * m) := by ring
    rw [e, Nat.add_mul_mod_self_left, Nat.mod_eq_of_lt h1, Nat.add_mul_div_left _ _ (by decide : 0 < 256),
      Nat.div_eq_of_lt h1, Nat.zero_add, h2]

theorem toB_add (a b n : Nat) : toB (a + b) n = toB a n ++ toB b (n / 256 ^ a) := by
  induction a generalizing n with
  | zero => simp [toB]
  | succ a ih =>
    rw [show a + 1 + b = (a + b) + 1 by omega]
    simp only [toB, ih, List.cons_append, Nat.pow_succ]
    rw [Nat.div_div_eq_div_mul, Nat.mul_comm 256]

theorem toB_take (j k n : Nat) (h : j ≤ k) : (toB k n).take j = toB j n := by
  obtain ⟨d, rfl⟩ := Nat.exists_eq_add_of_le h
  rw [toB_add, List.take_left' (toB_length _ _)]

theorem le8_eq_toB (x : Nat) : le8 x = toB 8 x := by
  have : List.range 8 = [0,1,2,3,4,5,6,7] := by decide
  simp only [le8, this, List.map, toB, Nat.div_div_eq_div_mul]
  norm_num

theorem wsub_eq (a b : Nat) (h : b ≤ a) (h2 : a - b < 2 ^ 64) : wsub a b = a - b := by
  unfold wsub; omega

theorem toB_mod (k n : Nat) : toB k (n % 256 ^ k) = toB k n := by
  induction k generalizing n with
  | zero => rfl
  | succ k ih =>
    simp only [toB]
    have h1 : n % 256 ^ (k + 1) % 256 = n % 256 := by
      rw [Nat.pow_succ, Nat.mul_comm]; exact Nat.mod_mul_right_mod _ _ _
    have h2 : n % 256 ^ (k + 1) / 256 = (n / 256) % 256 ^ k := by
      rw [Nat.pow_succ, Nat.mul_comm, Nat.mod_mul_right_div_self]
    rw [h1, h2, ih]

theorem getD_toB (k n j : Nat) (h : j < k) : (toB k n).getD j 0 = n / 256 ^ j % 256 := by
  induction k generalizing n j with
  | zero => omega
  | succ k ih =>
    cases j with
    | zero => simp [toB]
    | succ j =>
      simp only [toB, List.getD_cons_succ]
      rw [ih _ _ (by omega), Nat.div_div_eq_div_mul, Nat.pow_succ, Nat.mul_comm]

theorem take_set_succ {α : Type} (l : List α) (j : Nat) (w : α) (h : j < l.length) :
    (l.set j w).take (j + 1) = l.take j ++ [w] := by
  induction l generalizing j with
  | nil => simp at h
  | cons x xs ih =>
    cases j with
    | zero => simp
    | succ j => simp [ih j (by simpa using h)]

theorem B_eq_256 : B = 256 ^ 8 := by unfold B; norm_num

theorem toLimbs_succ_right (n v : Nat) : toLimbs (n + 1) v = toLimbs n v ++ [v / B ^ n % B] := by
  induction n generalizing v with
  | zero => simp [toLimbs]
  | succ n ih =>
    rw [toLimbs, ih (v / B)]
    simp only [toLimbs, List.cons_append, Nat.div_div_eq_div_mul, Nat.pow_succ]
    rw [Nat.mul_comm B]

theorem flatten_le8_toLimbs (n v : Nat) : ((toLimbs n v).map le8).flatten = toB (8 * n) v := by
  induction n generalizing v with
  | zero => rfl
  | succ n ih =>
    simp only [toLimbs, List.map_cons, List.flatten_cons, ih]
    rw [show 8 * (n + 1) = 8 + 8 * n by omega, toB_add, le8_eq_toB, B_eq_256, toB_mod]

/-! ## `SerBuf` on the canonical shape `init ++ [lastLimb]` -/
namespace SerBuf

theorem copyGo_eq (os : List Nat) (ts : List (List Nat)) (h : os.length = ts.length) :
    copyFromU64Slice.go os ts = os.map le8 := by
  induction os generalizing ts with
  | nil => cases ts with
    | nil => simp [copyFromU64Slice.go]
    | cons t ts => simp at h
  | cons o os ih => cases ts with
    | nil => simp at h
    | cons t ts =>
      simp only [copyFromU64Slice.go, List.map_cons]
      rw [ih ts (by simpa using h)]

theorem get_last (N : Nat) (b : SerBuf) : get N b (8 * N) = .ok b.last := by
  simp [get]

theorem getElem?_init_last {α : Type} (init : List α) (ll : α) (n : Nat) (hi : init.length = n) :
    (init ++ [ll])[n]? = some ll := by
  rw [List.getElem?_append_right (by omega)]; simp [hi]

theorem get_ll (N : Nat) (init : List (List Nat)) (ll : List Nat) (last j : Nat) (hN : 1 ≤ N)
    (hi : init.length = N - 1) (hj : j < ll.length) (hj8 : j < 8) :
    get N ⟨init ++ [ll], last⟩ (8 * (N - 1) + j) = .ok (ll.getD j 0) := by
  have e1 : (8 * (N - 1) + j) / 8 = N - 1 := by omega
  have e2 : (8 * (N - 1) + j) % 8 = j := by omega
  have e3 : ¬ (8 * (N - 1) + j = 8 * N) := by omega
  simp only [get, e1, e2, if_neg e3, getElem?_init_last init ll _ hi]
  simp [List.getD, List.getElem?_eq_getElem hj]

theorem set_last (N : Nat) (b : SerBuf) (v : Nat) : set N b (8 * N) v = .ok { b with last := v } := by
  simp [set]

theorem set_ll (N : Nat) (init : List (List Nat)) (ll : List Nat) (last j v : Nat) (hN : 1 ≤ N)
    (hi : init.length = N - 1) (hj8 : j < 8) :
    set N ⟨init ++ [ll], last⟩ (8 * (N - 1) + j) v = .ok ⟨init ++ [ll.set j v], last⟩ := by
  have e1 : (8 * (N - 1) + j) / 8 = N - 1 := by omega
  have e2 : (8 * (N - 1) + j) % 8 = j := by omega
  have e3 : ¬ (8 * (N - 1) + j = 8 * N) := by omega
  simp only [set, e1, e2, if_neg e3, getElem?_init_last init ll _ hi]
  congr 2
  rw [List.set_append_right _ _ (by omega)]
  simp [hi]

theorem writeUpTo_eq (N : Nat) (init : List (List Nat)) (ll : List Nat) (last S : Nat) (hN : 1 ≤ N)
    (hi : init.length = N - 1) (h1 : 8 * (N - 1) < S) (h2 : S ≤ 8 * N + 1) :
    writeUpTo N ⟨init ++ [ll], last⟩ S =
      .ok (init.flatten ++ ll.take (min 8 (S - 8 * (N - 1))) ++ (if S - 8 * (N - 1) > 8 then [last] else [])) := by
  have e0 : ¬ N = 0 := by omega
  have e5 : wsub S (8 * (N - 1)) = S - 8 * (N - 1) := by
    unfold wsub; omega
  have e6 : (init ++ [ll]).take (N - 1) = init := by
    rw [← hi]; simp
  simp only [writeUpTo, if_neg e0, getElem?_init_last init ll _ hi, e5, e6]

theorem value_map_leVal (ls : List (List Nat)) (h : ∀ l ∈ ls, l.length = 8) :
    value (ls.map leVal) = leVal ls.flatten := by
  induction ls with
  | nil => rfl
  | cons l ls ih =>
    have h1 : l.length = 8 := h l (by simp)
    have h2 := ih (fun l hl => h l (by simp [hl]))
    simp only [List.map_cons, value, List.flatten_cons, leVal_append, h1, h2, B_eq_256]

theorem toBigint_eq (init : List (List Nat)) (ll : List Nat) (last : Nat)
    (h : ∀ l ∈ init, l.length = 8) (hl : ll.length = 8) :
    toBigint ⟨init ++ [ll], last⟩ = leVal (init.flatten ++ ll) := by
  unfold toBigint
  rw [value_map_leVal _ (by
    intro l hm; rcases List.mem_append.mp hm with h' | h'
    · exact h l h'
    · simp at h'; rw [h']; exact hl)]
  simp

end SerBuf

/-! ## The monad `M` -/

theorem M_bind_apply {α β : Type} (m : M α) (k : α → M β) (s : Rd) :
    (m >>= k) s = match m s with
      | .ok a s' => k a s'
      | .err e s' => .err e s'
      | .panic => .panic := rfl

theorem M_pure_apply {α : Type} (a : α) (s : Rd) : (pure a : M α) s = .ok a s := rfl

theorem M_bind_ok {α β : Type} {m : M α} {k : α → M β} {s s' : Rd} {a : α} (h : m s = .ok a s') :
    (m >>= k) s = k a s' := by rw [M_bind_apply, h]

theorem M_bind_err {α β : Type} {m : M α} {k : α → M β} {s s' : Rd} {e : Err} (h : m s = .err e s') :
    (m >>= k) s = .err e s' := by rw [M_bind_apply, h]

theorem readExact_ok (n : Nat) (s : Rd) (h : n ≤ s.inp.length) :
    readExact n s = .ok (s.inp.take n) ⟨s.inp.drop n, s.used + n⟩ := by
  unfold readExact; rw [if_neg (by omega)]

theorem readExact_short (n : Nat) (s : Rd) (h : s.inp.length < n) :
    readExact n s = .err .io ⟨[], s.used + s.inp.length⟩ := by
  unfold readExact; rw [if_pos h]

namespace SerBuf

theorem readLimbs_ok (n : Nat) (s : Rd) (h : 8 * n ≤ s.inp.length) :
    ∃ ls, readLimbs n s = .ok ls ⟨s.inp.drop (8 * n), s.used + 8 * n⟩ ∧ ls.length = n ∧
      (∀ l ∈ ls, l.length = 8) ∧ ls.flatten = s.inp.take (8 * n) := by
  induction n generalizing s with
  | zero => exact ⟨[], by simp [readLimbs, M_pure_apply]⟩
  | succ n ih =>
    obtain ⟨ls, h1, h2, h3, h4⟩ := ih ⟨s.inp.drop 8, s.used + 8⟩ (by simp; omega)
    refine ⟨s.inp.take 8 :: ls, ?_, by simp [h2], ?_, ?_⟩
    · simp only [readLimbs]
      rw [M_bind_ok (readExact_ok 8 s (by omega)), M_bind_ok h1, M_pure_apply]
      simp only [List.drop_drop]
      rw [show 8 * (n + 1) = 8 + 8 * n by omega, Nat.add_assoc]
    · intro l hl
      rcases List.mem_cons.mp hl with rfl | hl
      · simp; omega
      · exact h3 l hl
    · simp only [List.flatten_cons, h4]
      rw [show 8 * (n + 1) = 8 + 8 * n by omega, List.take_add]

theorem readLimbs_short (n : Nat) (s : Rd) (h : s.inp.length < 8 * n) :
    readLimbs n s = .err .io ⟨[], s.used + s.inp.length⟩ := by
  induction n generalizing s with
  | zero => omega
  | succ n ih =>
    simp only [readLimbs]
    by_cases h8 : s.inp.length < 8
    · rw [M_bind_err (readExact_short 8 s h8)]
    · rw [M_bind_ok (readExact_ok 8 s (by omega)),
        M_bind_err (ih ⟨s.inp.drop 8, s.used + 8⟩ (by simp; omega))]
      simp only [List.length_drop]
      congr 2; omega

end SerBuf

/-! ## Well-formed configurations -/

/-- a real `FpConfig<N>`: at least one limb, the modulus fills the top limb and fits `N` limbs -/
structure WFc (c : FpCfg) : Prop where
  N_pos : 1 ≤ c.N
  p_ge : 2 ^ (64 * (c.N - 1)) ≤ c.p
  p_lt : c.p < 2 ^ (64 * c.N)

namespace WFc
variable {c : FpCfg} (h : WFc c)
include h

theorem top_eq : c.p / 2 ^ (64 * (c.N - 1)) % 2 ^ 64 = c.p / 2 ^ (64 * (c.N - 1)) := by
  apply Nat.mod_eq_of_lt
  rw [Nat.div_lt_iff_lt_mul (Nat.two_pow_pos _), ← Nat.pow_add]
  have := h.p_lt; have := h.N_pos
  rwa [show 64 + 64 * (c.N - 1) = 64 * c.N by omega]

theorem top_pos : 1 ≤ c.p / 2 ^ (64 * (c.N - 1)) :=
  (Nat.one_le_div_iff (Nat.two_pow_pos _)).mpr h.p_ge

theorem top_lt : c.p / 2 ^ (64 * (c.N - 1)) < 2 ^ 64 := by
  rw [← h.top_eq]; exact Nat.mod_lt _ (Nat.two_pow_pos _)

theorem bits_eq : c.bits = 64 * (c.N - 1) + ((c.p / 2 ^ (64 * (c.N - 1))).log2 + 1) := by
  unfold FpCfg.bits bitLen
  rw [h.top_eq, if_neg (by have := h.top_pos; omega), Nat.mul_comm]

theorem bits_gt : 64 * (c.N - 1) < c.bits := by rw [h.bits_eq]; omega

theorem bits_le : c.bits ≤ 64 * c.N := by
  rw [h.bits_eq]
  have h1 : (c.p / 2 ^ (64 * (c.N - 1))).log2 < 64 :=
    (Nat.log2_lt (by have := h.top_pos; omega)).mpr h.top_lt
  have := h.N_pos
  omega

theorem p_lt_bits : c.p < 2 ^ c.bits := by
  rw [h.bits_eq, Nat.pow_add]
  have h1 : c.p / 2 ^ (64 * (c.N - 1)) < 2 ^ ((c.p / 2 ^ (64 * (c.N - 1))).log2 + 1) := Nat.lt_log2_self
  rw [Nat.div_lt_iff_lt_mul (Nat.two_pow_pos _)] at h1
  rwa [Nat.mul_comm]

theorem p_ge_bits : 2 ^ (c.bits - 1) ≤ c.p := by
  rw [h.bits_eq, show 64 * (c.N - 1) + ((c.p / 2 ^ (64 * (c.N - 1))).log2 + 1) - 1
    = 64 * (c.N - 1) + (c.p / 2 ^ (64 * (c.N - 1))).log2 by omega, Nat.pow_add]
  have h1 : 2 ^ (c.p / 2 ^ (64 * (c.N - 1))).log2 ≤ c.p / 2 ^ (64 * (c.N - 1)) :=
    Nat.log2_self_le (by have := h.top_pos; omega)
  calc 2 ^ (64 * (c.N - 1)) * 2 ^ (c.p / 2 ^ (64 * (c.N - 1))).log2
      ≤ 2 ^ (64 * (c.N - 1)) * (c.p / 2 ^ (64 * (c.N - 1))) := Nat.mul_le_mul_left _ h1
    _ ≤ c.p := Nat.mul_div_le _ _

theorem p_pos : 0 < c.p := Nat.lt_of_lt_of_le (Nat.two_pow_pos _) h.p_ge

/-- the advertised size is in the range `write_up_to` / `read_exact_up_to` expect -/
theorem size_range (Fl : Type) [Flags Fl] (hf : bitSize Fl ≤ 8) :
    8 * (c.N - 1) < fpSizeFlags c Fl ∧ fpSizeFlags c Fl ≤ 8 * c.N + 1 := by
  unfold fpSizeFlags bufferByteSize
  have := h.bits_gt; have := h.bits_le; have := h.N_pos
  omega

end WFc

theorem fpSizeFlags_eq (c : FpCfg) (Fl : Type) [Flags Fl] :
    fpSizeFlags c Fl = (c.bits + bitSize Fl + 7) / 8 := rfl

/-- a value below `2^bits` leaves the top `f` bits of the last serialised byte free -/
theorem top_byte_lt (c : FpCfg) (Fl : Type) [Flags Fl] (hf : bitSize Fl ≤ 8) (x : Nat)
    (hx : x < 2 ^ c.bits) (hS : 1 ≤ fpSizeFlags c Fl) :
    x / 256 ^ (fpSizeFlags c Fl - 1) < 2 ^ (8 - bitSize Fl) := by
  rw [Nat.div_lt_iff_lt_mul (Nat.pow_pos (by decide)), show (256:Nat) = 2 ^ 8 by norm_num,
    ← Nat.pow_mul, ← Nat.pow_add]
  refine Nat.lt_of_lt_of_le hx (Nat.pow_le_pow_right (by decide) ?_)
  unfold fpSizeFlags bufferByteSize at *
  omega

/-! ## Closed form of `fpSerFlags` -/

theorem toLimbs_length' (n v : Nat) : (toLimbs n v).length = n := by
  induction n generalizing v with
  | zero => rfl
  | succ n ih => simp [toLimbs, ih]

theorem ser_bytes_eq (n v : Nat) :
    (SerBuf.zeroed (n + 1)).copyFromU64Slice (toLimbs (n + 1) v) =
      ⟨(toLimbs n v).map le8 ++ [toB 8 (v / 256 ^ (8 * n))], 0⟩ := by
  unfold SerBuf.copyFromU64Slice SerBuf.zeroed
  simp only
  rw [SerBuf.copyGo_eq _ _ (by simp [toLimbs_length']), toLimbs_succ_right, List.map_append]
  simp only [List.map_cons, List.map_nil, le8_eq_toB, B_eq_256, toB_mod, ← Nat.pow_mul]

/-- the byte of the integer that `serialize_with_flags` ORs the flags into -/
def serOld (c : FpCfg) (Fl : Type) [Flags Fl] (x : Nat) : Nat :=
  if fpSizeFlags c Fl = 8 * c.N + 1 then 0 else x / 256 ^ (fpSizeFlags c Fl - 1) % 256

theorem fpSer_char {c : FpCfg} (h : WFc c) (Fl : Type) [Flags Fl] (hf : bitSize Fl ≤ 8)
    (x : Fp c.p) (fl : Fl) :
    fpSerFlags c Fl x fl =
      .ok (toB (fpSizeFlags c Fl - 1) x.val ++ [serOld c Fl x.val ||| (Flags.u8Bitmask fl % 256)]) := by
  obtain ⟨h1, h2⟩ := h.size_range Fl hf
  have hN := h.N_pos
  unfold serOld
  unfold fpSerFlags
  rw [if_neg (by omega)]
  show (if fpSizeFlags c Fl = 0 then Res.panic else _) = _
  rw [if_neg (by omega)]
  obtain ⟨p, N⟩ := c
  obtain ⟨n, rfl⟩ : ∃ n, N = n + 1 := ⟨N - 1, by simp at hN; omega⟩
  generalize hS : fpSizeFlags ⟨p, n + 1⟩ Fl = S at *
  simp only [Nat.add_sub_cancel] at h1
  simp only [intoBigint, fpSizeFlags] at *
  rw [hS, ser_bytes_eq]
  have hi : ((toLimbs n x.val).map le8).length = n + 1 - 1 := by simp [toLimbs_length']
  by_cases hc : S = 8 * (n + 1) + 1
  · subst hc
    rw [if_pos rfl, show 8 * (n + 1) + 1 - 1 = 8 * (n + 1) by omega, SerBuf.get_last]
    simp only [SerBuf.set_last]
    rw [SerBuf.writeUpTo_eq _ _ _ _ _ (by omega) hi (by simp; omega) (by omega)]
    simp only [Res.ofOutcome, Nat.add_sub_cancel]
    rw [show min 8 (8 * (n + 1) + 1 - 8 * n) = 8 by omega, if_pos (by omega), flatten_le8_toLimbs,
      List.take_of_length_le (by simp [toB_length]), show 8 * (n + 1) = 8 * n + 8 by omega, toB_add]
  · rw [if_neg hc]
    obtain ⟨j, hj, hj8⟩ : ∃ j, S - 1 = 8 * (n + 1 - 1) + j ∧ j < 8 := ⟨S - 1 - 8 * n, by simp; omega, by omega⟩
    rw [hj, SerBuf.get_ll _ _ _ _ _ (by omega) hi (by simp [toB_length]; exact hj8) hj8]
    simp only
    rw [SerBuf.set_ll _ _ _ _ _ _ (by omega) hi hj8]
    simp only
    rw [SerBuf.writeUpTo_eq _ _ _ _ _ (by omega) hi (by simp; omega) (by omega)]
    simp only [Res.ofOutcome, Nat.add_sub_cancel]
    rw [show min 8 (S - 8 * n) = j + 1 by simp at hj; omega, if_neg (by omega), flatten_le8_toLimbs,
      take_set_succ _ _ _ (by simp [toB_length]; exact hj8), toB_take _ _ _ (by omega),
      getD_toB _ _ _ hj8, List.append_nil, ← List.append_assoc, ← toB_add,
      Nat.div_div_eq_div_mul, ← Nat.pow_add]

namespace SerBuf

theorem zeroed_getD (n : Nat) : (zeroed (n + 1)).buffers.getD (n + 1 - 1) [] = List.replicate 8 0 := by
  simp [zeroed, List.getD]

theorem readExactUpTo_short (n S : Nat) (s : Rd) (h1 : 8 * n < S) (h2 : S ≤ 8 * (n + 1) + 1)
    (hs : s.inp.length < S) :
    readExactUpTo (n + 1) (zeroed (n + 1)) S s = .err .io ⟨[], s.used + s.inp.length⟩ := by
  have e5 : wsub S (8 * n) = S - 8 * n := by unfold wsub; omega
  unfold readExactUpTo
  simp only [Nat.add_one_ne_zero, if_false, Nat.add_sub_cancel]
  simp only [e5]
  by_cases hl : s.inp.length < 8 * n
  · rw [M_bind_err (readLimbs_short n s hl)]
  · obtain ⟨first, hf1, -, -, -⟩ := readLimbs_ok n s (by omega)
    rw [M_bind_ok hf1]
    by_cases hp : s.inp.length - 8 * n < min 8 (S - 8 * n)
    · rw [M_bind_err (readExact_short _ _ (by simpa using hp))]
      simp only [List.length_drop]
      congr 2; omega
    · rw [M_bind_ok (readExact_ok _ _ (by simp only [List.length_drop]; omega))]
      rw [if_pos (by omega), M_bind_err (readExact_short _ _ (by simp only [List.length_drop]; omega))]
      simp only [List.length_drop]
      congr 2; omega

theorem readExactUpTo_ok_lt (n S : Nat) (s : Rd) (h1 : 8 * n < S) (h2 : S ≤ 8 * (n + 1))
    (hs : S ≤ s.inp.length) :
    ∃ first, first.length = n ∧ (∀ l ∈ first, l.length = 8) ∧ first.flatten = s.inp.take (8 * n) ∧
      readExactUpTo (n + 1) (zeroed (n + 1)) S s =
        .ok ⟨first ++ [(s.inp.drop (8 * n)).take (S - 8 * n) ++ List.replicate (8 - (S - 8 * n)) 0], 0⟩
          ⟨s.inp.drop S, s.used + S⟩ := by
  have e5 : wsub S (8 * (n + 1 - 1)) = S - 8 * n := by unfold wsub; simp only [Nat.add_sub_cancel]; omega
  obtain ⟨first, hf1, hf2, hf3, hf4⟩ := readLimbs_ok n s (by omega)
  refine ⟨first, hf2, hf3, hf4, ?_⟩
  unfold readExactUpTo
  simp only [Nat.add_one_ne_zero, if_false, e5]
  simp only [Nat.add_sub_cancel]
  rw [M_bind_ok hf1, M_bind_ok (readExact_ok _ _ (by simp only [List.length_drop]; omega)),
    if_neg (by omega), M_pure_apply]
  have e7 : min 8 (S - 8 * n) = S - 8 * n := by omega
  simp only [overwritePrefix, zeroed, List.drop_drop, e7]
  have e8 : ((List.replicate (n + 1) (List.replicate 8 0)).getD n []) = List.replicate 8 0 := by
    simp [List.getD]
  rw [e8]
  have e9 : (List.take (S - 8 * n) (List.drop (8 * n) s.inp)).length = S - 8 * n := by
    simp only [List.length_take, List.length_drop]; omega
  rw [e9, List.drop_replicate, show 8 * n + (S - 8 * n) = S by omega, Nat.add_assoc,
    show 8 * n + (S - 8 * n) = S by omega]

theorem readExactUpTo_ok_extra (n : Nat) (s : Rd) (hs : 8 * (n + 1) + 1 ≤ s.inp.length) :
    ∃ first, first.length = n ∧ (∀ l ∈ first, l.length = 8) ∧ first.flatten = s.inp.take (8 * n) ∧
      readExactUpTo (n + 1) (zeroed (n + 1)) (8 * (n + 1) + 1) s =
        .ok ⟨first ++ [(s.inp.drop (8 * n)).take 8], s.inp.getD (8 * (n + 1)) 0⟩
          ⟨s.inp.drop (8 * (n + 1) + 1), s.used + (8 * (n + 1) + 1)⟩ := by
  have e5 : wsub (8 * (n + 1) + 1) (8 * (n + 1 - 1)) = 9 := by
    unfold wsub; simp only [Nat.add_sub_cancel]; omega
  obtain ⟨first, hf1, hf2, hf3, hf4⟩ := readLimbs_ok n s (by omega)
  refine ⟨first, hf2, hf3, hf4, ?_⟩
  unfold readExactUpTo
  simp only [Nat.add_one_ne_zero, if_false, e5]
  simp only [Nat.add_sub_cancel]
  rw [M_bind_ok hf1, M_bind_ok (readExact_ok _ _ (by simp only [List.length_drop]; omega)),
    if_pos (by omega), M_bind_ok (readExact_ok _ _ (by simp only [List.length_drop]; omega)), M_pure_apply]
  simp only [overwritePrefix, zeroed, List.drop_drop, show min 8 9 = 8 by decide]
  have e8 : ((List.replicate (n + 1) (List.replicate 8 0)).getD n []) = List.replicate 8 0 := by
    simp [List.getD]
  have e9 : (List.take 8 (List.drop (8 * n) s.inp)).length = 8 := by
    simp only [List.length_take, List.length_drop]; omega
  rw [e8, e9, List.drop_replicate]
  simp only [Nat.sub_self, List.replicate_zero, List.append_nil]
  have e10 : (List.take 1 (List.drop (8 * n + 8) s.inp)).headD 0 = s.inp.getD (8 * (n + 1)) 0 := by
    rw [show 8 * n + 8 = 8 * (n + 1) by omega]
    cases hd : List.drop (8 * (n + 1)) s.inp with
    | nil => simp at hd; omega
    | cons a t =>
      have := List.getElem?_drop (xs := s.inp) (i := 8 * (n + 1)) (j := 0)
      rw [hd] at this
      simp only [List.getElem?_cons_zero, Nat.add_zero] at this
      simp [List.getD, ← this]
  rw [e10]
  congr 2

end SerBuf

theorem take_succ_getD (l : List Nat) (i : Nat) (h : i < l.length) :
    l.take (i + 1) = l.take i ++ [l.getD i 0] := by
  rw [List.take_add_one]; simp [List.getD, List.getElem?_eq_getElem h]

theorem getD_mid (P Z : List Nat) (v : Nat) : (P ++ [v] ++ Z).getD P.length 0 = v := by
  simp [List.getD]

theorem set_mid (P Z : List Nat) (v w : Nat) : (P ++ [v] ++ Z).set P.length w = P ++ [w] ++ Z := by
  simp [List.set_append_right]

theorem getD_drop (l : List Nat) (a b : Nat) : (l.drop a).getD b 0 = l.getD (a + b) 0 := by
  simp [List.getD, List.getElem?_drop]

theorem M_pure_bind {α β : Type} (a : α) (k : α → M β) : ((pure a : M α) >>= k) = k a := rfl
theorem M_throw_bind {α β : Type} (e : Err) (k : α → M β) : ((throwE e : M α) >>= k) = throwE e := rfl

/-- closed form of `deserialize_with_flags` on a reader state -/
def fpDeSpec (c : FpCfg) (Fl : Type) [Flags Fl] (s : Rd) : R (Fp c.p × Fl) :=
  let S := fpSizeFlags c Fl
  if s.inp.length < S then .err .io ⟨[], s.used + s.inp.length⟩ else
  let s' : Rd := ⟨s.inp.drop S, s.used + S⟩
  let v := s.inp.getD (S - 1) 0
  match Flags.fromU8 (Fl := Fl) v with
  | none => .err .flags s'
  | some fl =>
    let v' := v &&& (255 - Flags.u8Bitmask fl % 256)
    if S > c.N * 8 ∧ v' ≠ 0 then .err .invalid s' else
    match fromBigint c (leVal (s.inp.take (S - 1)) + 256 ^ (S - 1) * v') with
    | some x => .ok (x, fl) s'
    | none => .err .invalid s'

theorem fpDe_char {c : FpCfg} (h : WFc c) (Fl : Type) [Flags Fl] (hf : bitSize Fl ≤ 8) (s : Rd) :
    fpDeFlags c Fl s = fpDeSpec c Fl s := by
  obtain ⟨h1, h2⟩ := h.size_range Fl hf
  have hN := h.N_pos
  unfold fpDeSpec fpDeFlags
  obtain ⟨p, N⟩ := c
  obtain ⟨n, rfl⟩ : ∃ n, N = n + 1 := ⟨N - 1, by simp at hN; omega⟩
  generalize hS : fpSizeFlags ⟨p, n + 1⟩ Fl = S at *
  simp only [Nat.add_sub_cancel] at h1 h2
  simp only [if_neg (show ¬ bitSize Fl > 8 by omega), if_neg (show ¬ S = 0 by omega)]
  by_cases hshort : s.inp.length < S
  · rw [if_pos hshort, M_bind_err (SerBuf.readExactUpTo_short n S s h1 h2 hshort)]
  rw [if_neg hshort]
  by_cases hc : S = 8 * (n + 1) + 1
  · -- the flags live in the extra byte
    subst hc
    obtain ⟨first, hf2, hf3, hf4, hrd⟩ := SerBuf.readExactUpTo_ok_extra n s (by omega)
    have e1 : 8 * (n + 1) + 1 - 1 = 8 * (n + 1) := by omega
    have e2 : decide (8 * (n + 1) + 1 > (n + 1) * 8) = true := by simp; omega
    have e3 : (8 * (n + 1) + 1 > (n + 1) * 8) := by omega
    have hll : (List.take 8 (List.drop (8 * n) s.inp)).length = 8 := by
      simp only [List.length_take, List.length_drop]; omega
    rw [M_bind_ok hrd]
    simp only [e1, SerBuf.get_last, SerBuf.set_last, liftO, M_pure_bind, fromU8RemoveFlags]
    cases hfl : Flags.fromU8 (Fl := Fl) (s.inp.getD (8 * (n + 1)) 0) with
    | none => simp only [Option.map, throwE]
    | some fl =>
      simp only [Option.map, SerBuf.set_last, SerBuf.get_last, liftO, M_pure_bind, e2, Bool.true_and, e3, true_and]
      generalize (s.inp.getD (8 * (n + 1)) 0 &&& 255 - Flags.u8Bitmask fl % 256) = v'
      by_cases hz : v' = 0
      · subst hz
        simp only [bne_self_eq_false, Bool.false_eq_true, if_false, ne_eq, not_true_eq_false]
        rw [SerBuf.toBigint_eq _ _ _ hf3 hll, hf4,
          ← List.take_add, show 8 * n + 8 = 8 * (n + 1) by omega, Nat.mul_zero, Nat.add_zero]
        cases fromBigint ⟨p, n + 1⟩ (leVal (List.take (8 * (n + 1)) s.inp)) <;> rfl
      · have e4 : (v' != 0) = true := by simpa using hz
        simp only [e4, if_true, M_throw_bind, ne_eq, hz, not_false_eq_true]
        rfl
  · -- the flags live in the last limb
    have h2' : S ≤ 8 * (n + 1) := by omega
    obtain ⟨first, hf2, hf3, hf4, hrd⟩ := SerBuf.readExactUpTo_ok_lt n S s h1 h2' (by omega)
    obtain ⟨j, hj, hj8⟩ : ∃ j, S = 8 * n + j + 1 ∧ j < 8 := ⟨S - 1 - 8 * n, by omega, by omega⟩
    subst hj
    have e1 : 8 * n + j + 1 - 1 = 8 * (n + 1 - 1) + j := by simp
    have e2 : decide (8 * n + j + 1 > (n + 1) * 8) = false := by simp; omega
    have e3 : ¬ (8 * n + j + 1 > (n + 1) * 8) := by omega
    have e5 : 8 * n + j + 1 - 8 * n = j + 1 := by omega
    have hP : (List.take j (List.drop (8 * n) s.inp)).length = j := by
      simp only [List.length_take, List.length_drop]; omega
    rw [e5, take_succ_getD _ _ (by simp only [List.length_drop]; omega), getD_drop] at hrd
    have hi : first.length = n + 1 - 1 := by simpa using hf2
    rw [M_bind_ok hrd]
    generalize hPd : List.take j (List.drop (8 * n) s.inp) = P at *
    generalize hZd : List.replicate (8 - (j + 1)) 0 = Z at *
    have hZ : Z.length = 7 - j := by rw [← hZd, List.length_replicate]; omega
    have hZ0 : leVal Z = 0 := by rw [← hZd]; exact leVal_replicate_zero _
    have hget : ∀ w lst, SerBuf.get (n + 1) ⟨first ++ [P ++ [w] ++ Z], lst⟩ (8 * (n + 1 - 1) + j) = .ok w := by
      intro w lst
      rw [SerBuf.get_ll _ _ _ _ _ (by omega) hi (by simp; omega) hj8]
      rw [← hP, getD_mid]
    have hset : ∀ w w' lst, SerBuf.set (n + 1) ⟨first ++ [P ++ [w] ++ Z], lst⟩ (8 * (n + 1 - 1) + j) w' =
        .ok ⟨first ++ [P ++ [w'] ++ Z], lst⟩ := by
      intro w w' lst
      rw [SerBuf.set_ll _ _ _ _ _ _ (by omega) hi hj8]
      rw [← hP, set_mid]
    simp only [e1, hget, hset, liftO, M_pure_bind, fromU8RemoveFlags]
    rw [show 8 * (n + 1 - 1) + j = 8 * n + j by simp]
    cases hfl : Flags.fromU8 (Fl := Fl) (s.inp.getD (8 * n + j) 0) with
    | none => simp only [Option.map, throwE]
    | some fl =>
      simp only [Option.map, hget, hset, liftO, M_pure_bind, e2, Bool.false_and, e3, false_and,
        Bool.false_eq_true, if_false]
      generalize (s.inp.getD (8 * n + j) 0 &&& 255 - Flags.u8Bitmask fl % 256) = v'
      rw [SerBuf.toBigint_eq _ _ _ hf3 (by simp; omega), hf4]
      have e6 : leVal (List.take (8 * n) s.inp ++ (P ++ [v'] ++ Z)) =
          leVal (List.take (8 * n + j) s.inp) + 256 ^ (8 * n + j) * v' := by
        rw [← List.append_assoc, ← List.append_assoc, leVal_append, leVal_append, hZ0, ← hPd,
          ← List.take_add]
        simp only [leVal, List.length_take, Nat.mul_zero, Nat.add_zero]
        rw [Nat.min_eq_left (by omega)]
      rw [e6]
      cases fromBigint ⟨p, n + 1⟩ (leVal (List.take (8 * n + j) s.inp) + 256 ^ (8 * n + j) * v') <;> rfl

theorem byte_rt (k m o : Nat) (hk : k ≤ 8) (hm : m < 256) (hm0 : m % 2 ^ k = 0) (ho : o < 2 ^ k) :
    (o ||| m) &&& (255 - m) = o := by
  apply Nat.eq_of_testBit_eq; intro i
  have e : 255 - m = 2 ^ 8 - (m + 1) := by omega
  rw [Nat.testBit_and, Nat.testBit_or, e, Nat.testBit_two_pow_sub_succ (by omega)]
  have h1 : (m % 2 ^ k).testBit i = false := by rw [hm0]; simp
  rw [Nat.testBit_mod_two_pow] at h1
  by_cases hik : i < k
  · simp only [hik, decide_true, Bool.true_and] at h1
    have : i < 8 := by omega
    simp [h1, this]
  · have : o.testBit i = false :=
      Nat.testBit_lt_two_pow (Nat.lt_of_lt_of_le ho (Nat.pow_le_pow_right (by decide) (by omega)))
    simp only [this, Bool.false_or]
    cases m.testBit i <;> simp

theorem byte_uniq (v m : Nat) (hv : v < 256) (hm : m < 256) (h : v ||| m = v) :
    (v &&& (255 - m)) ||| m = v := by
  apply Nat.eq_of_testBit_eq; intro i
  have e : 255 - m = 2 ^ 8 - (m + 1) := by omega
  have hi := congrArg (fun x => x.testBit i) h
  simp only [Nat.testBit_or] at hi
  rw [Nat.testBit_or, Nat.testBit_and, e, Nat.testBit_two_pow_sub_succ (by omega)]
  cases hmi : m.testBit i with
  | true => rw [hmi] at hi; simp at hi; simp [hi]
  | false =>
    cases hvi : v.testBit i with
    | false => simp
    | true =>
      have : i < 8 := by
        by_contra hge
        have := Nat.testBit_lt_two_pow (x := v) (i := i)
          (Nat.lt_of_lt_of_le hv (Nat.pow_le_pow_right (by decide) (by omega) : 2 ^ 8 ≤ 2 ^ i))
        rw [this] at hvi; cases hvi
      simp [this]

theorem byte_top_sub (k v : Nat) (hv : v < 256) : v ||| (v / 2 ^ k * 2 ^ k % 256) = v := by
  have hle : v / 2 ^ k * 2 ^ k ≤ v := Nat.div_mul_le_self _ _
  rw [Nat.mod_eq_of_lt (by omega)]
  apply Nat.eq_of_testBit_eq; intro i
  rw [Nat.testBit_or, Nat.testBit_mul_two_pow, Nat.testBit_div_two_pow]
  by_cases hik : k ≤ i
  · simp [hik, Nat.sub_add_cancel hik]
  · simp [hik]

/-! ## Flag types -/

/-- a flag type that fits the top `BIT_SIZE ≤ 8` bits of a byte: the masks live there, a byte whose
    top bits are a mask decodes to that flag, and `from_u8` only looks at the top bits -/
structure FlagsOK (Fl : Type) [Flags Fl] : Prop where
  bits_le : bitSize Fl ≤ 8
  mask_lt : ∀ fl : Fl, Flags.u8Bitmask fl < 256
  mask_top : ∀ fl : Fl, Flags.u8Bitmask fl % 2 ^ (8 - bitSize Fl) = 0
  from_or : ∀ (fl : Fl) (low : Nat), low < 2 ^ (8 - bitSize Fl) →
    Flags.fromU8 (Flags.u8Bitmask fl ||| low) = some fl
  from_top : ∀ (v : Nat) (fl : Fl), v < 256 → Flags.fromU8 v = some fl →
    Flags.u8Bitmask fl = v / 2 ^ (8 - bitSize Fl) * 2 ^ (8 - bitSize Fl)

/-- the part of `FlagsOK` that uniqueness needs: the mask of a decoded flag is contained in the byte -/
def FlagsSub (Fl : Type) [Flags Fl] : Prop :=
  ∀ (v : Nat) (fl : Fl), v < 256 → Flags.fromU8 v = some fl → v ||| (Flags.u8Bitmask fl % 256) = v

theorem FlagsOK.sub {Fl : Type} [Flags Fl] (h : FlagsOK Fl) : FlagsSub Fl := by
  intro v fl hv hfl
  rw [h.from_top v fl hv hfl]
  exact byte_top_sub _ v hv

theorem shiftRight_and_one (v i : Nat) : (v >>> i) &&& 1 = v / 2 ^ i % 2 := by
  rw [Nat.shiftRight_eq_div_pow, Nat.and_one_is_mod]

theorem emptyFlagsOK : FlagsOK EmptyFlags where
  bits_le := by decide
  mask_lt := by intro fl; show 0 < 256; decide
  mask_top := by intro fl; rfl
  from_or := by intro fl low _; cases fl; rfl
  from_top := by
    intro v fl hv _
    show 0 = v / 2 ^ (8 - 0) * 2 ^ (8 - 0)
    rw [Nat.div_eq_of_lt (by simpa using hv), Nat.zero_mul]

theorem or_low_div (m low k : Nat) (hl : low < 2 ^ k) : (m ||| low) / 2 ^ k = m / 2 ^ k := by
  apply Nat.eq_of_testBit_eq; intro i
  rw [Nat.testBit_div_two_pow, Nat.testBit_div_two_pow, Nat.testBit_or]
  have : low.testBit (i + k) = false :=
    Nat.testBit_lt_two_pow (Nat.lt_of_lt_of_le hl (Nat.pow_le_pow_right (by decide) (by omega)))
  simp [this]

theorem swFlags_fromU8 (v : Nat) : Flags.fromU8 (Fl := SWFlags) v =
    (match v / 64 % 4 with
      | 0 => some .yIsPositive | 1 => some .pointAtInfinity | 2 => some .yIsNegative | _ => none) := by
  show (match (v >>> 7) &&& 1 == 1, (v >>> 6) &&& 1 == 1 with
    | true, true => none
    | false, true => some SWFlags.pointAtInfinity
    | true, false => some SWFlags.yIsNegative
    | false, false => some SWFlags.yIsPositive) = _
  rw [shiftRight_and_one, shiftRight_and_one]
  have h4 : v / 64 % 4 < 4 := Nat.mod_lt _ (by decide)
  have e7 : v / 2 ^ 7 % 2 = v / 64 % 4 / 2 := by omega
  have e6 : v / 2 ^ 6 % 2 = v / 64 % 4 % 2 := by omega
  rw [e7, e6]
  generalize v / 64 % 4 = q at *
  match q, h4 with
  | 0, _ => rfl
  | 1, _ => rfl
  | 2, _ => rfl
  | 3, _ => rfl

theorem swFlagsOK : FlagsOK SWFlags where
  bits_le := by decide
  mask_lt := by intro fl; cases fl <;> decide
  mask_top := by intro fl; cases fl <;> decide
  from_or := by
    intro fl low hl
    have hl' : low < 2 ^ 6 := hl
    rw [swFlags_fromU8, show (64 : Nat) = 2 ^ 6 by rfl, or_low_div _ _ 6 hl']
    cases fl <;> rfl
  from_top := by
    intro v fl hv hfl
    rw [swFlags_fromU8] at hfl
    show _ = v / 2 ^ 6 * 2 ^ 6
    have e : v / 64 % 4 = v / 64 := Nat.mod_eq_of_lt (by omega)
    rw [e] at hfl
    have h4 : v / 64 < 4 := by omega
    rw [show (2:Nat) ^ 6 = 64 by rfl]
    generalize v / 64 = q at *
    match q, h4 with
    | 0, _ => cases hfl; rfl
    | 1, _ => cases hfl; rfl
    | 2, _ => cases hfl; rfl
    | 3, _ => cases hfl

theorem teFlags_fromU8 (v : Nat) : Flags.fromU8 (Fl := TEFlags) v =
    if v / 128 % 2 = 1 then some .xIsNegative else some .xIsPositive := by
  show (if (v >>> 7) &&& 1 == 1 then some TEFlags.xIsNegative else some TEFlags.xIsPositive) = _
  rw [shiftRight_and_one]
  simp

theorem teFlagsOK : FlagsOK TEFlags where
  bits_le := by decide
  mask_lt := by intro fl; cases fl <;> decide
  mask_top := by intro fl; cases fl <;> decide
  from_or := by
    intro fl low hl
    have hl' : low < 2 ^ 7 := hl
    rw [teFlags_fromU8, show (128 : Nat) = 2 ^ 7 by rfl, or_low_div _ _ 7 hl']
    cases fl <;> rfl
  from_top := by
    intro v fl hv hfl
    rw [teFlags_fromU8] at hfl
    show _ = v / 2 ^ 7 * 2 ^ 7
    rw [show (2:Nat) ^ 7 = 128 by rfl]
    have h2 : v / 128 < 2 := by omega
    rw [Nat.mod_eq_of_lt h2] at hfl
    generalize v / 128 = q at *
    match q, h2 with
    | 0, _ => simp at hfl; cases hfl; rfl
    | 1, _ => simp at hfl; cases hfl; rfl

/-! ## `Fp`: size, round trip, uniqueness -/

theorem fpSer_notenough (c : FpCfg) (Fl : Type) [Flags Fl] (hf : ¬ bitSize Fl ≤ 8) (x : Fp c.p) (fl : Fl) :
    fpSerFlags c Fl x fl = .err .notenough := by
  unfold fpSerFlags; rw [if_pos (by omega)]

theorem fpSer_bits_le {c : FpCfg} {Fl : Type} [Flags Fl] {x : Fp c.p} {fl : Fl} {bs : List Nat}
    (hs : fpSerFlags c Fl x fl = .ok bs) : bitSize Fl ≤ 8 := by
  by_contra hf
  rw [fpSer_notenough c Fl hf] at hs; cases hs

theorem fpSer_size {c : FpCfg} (h : WFc c) {Fl : Type} [Flags Fl] {x : Fp c.p} {fl : Fl} {bs : List Nat}
    (hs : fpSerFlags c Fl x fl = .ok bs) : bs.length = fpSizeFlags c Fl := by
  have hf := fpSer_bits_le hs
  rw [fpSer_char h Fl hf] at hs
  cases hs
  have := (h.size_range Fl hf).1
  simp [toB_length]; omega

/-- for a reduced value the byte receiving the flags is the top part of the integer, below `2^(8-f)` -/
theorem serOld_reduced {c : FpCfg} (h : WFc c) (Fl : Type) [Flags Fl] (hf : bitSize Fl ≤ 8) (x : Nat)
    (hx : x < c.p) :
    serOld c Fl x = x / 256 ^ (fpSizeFlags c Fl - 1) ∧ serOld c Fl x < 2 ^ (8 - bitSize Fl) := by
  obtain ⟨h1, h2⟩ := h.size_range Fl hf
  have hlt := top_byte_lt c Fl hf x (Nat.lt_trans hx h.p_lt_bits) (by omega)
  have h256 : (2 : Nat) ^ (8 - bitSize Fl) ≤ 256 :=
    Nat.le_trans (Nat.pow_le_pow_right (by decide) (Nat.sub_le _ _)) (by decide)
  have e : serOld c Fl x = x / 256 ^ (fpSizeFlags c Fl - 1) := by
    unfold serOld
    split
    · next hS =>
      rw [hS, Nat.add_sub_cancel]
      symm; apply Nat.div_eq_of_lt
      rw [show (256 : Nat) = 2 ^ 8 by rfl, ← Nat.pow_mul, show 8 * (8 * c.N) = 64 * c.N by omega]
      exact Nat.lt_trans hx h.p_lt
    · exact Nat.mod_eq_of_lt (by omega)
  exact ⟨e, e ▸ hlt⟩

theorem fromBigint_reduced (c : FpCfg) (x : Fp c.p) (hx : x.val < c.p) : fromBigint c x.val = some x := by
  unfold fromBigint
  obtain ⟨v⟩ := x
  by_cases h0 : v = 0
  · subst h0; rfl
  · have hx' : v < c.p := hx
    rw [if_neg h0, if_neg (by omega)]

theorem fromBigint_some {c : FpCfg} (hp : 0 < c.p) {n : Nat} {x : Fp c.p} (h : fromBigint c n = some x) :
    x.val = n ∧ n < c.p := by
  unfold fromBigint at h
  by_cases h0 : n = 0
  · rw [if_pos h0] at h; cases h; exact ⟨h0.symm, by omega⟩
  · rw [if_neg h0] at h
    by_cases hge : n ≥ c.p
    · rw [if_pos hge] at h; cases h
    · rw [if_neg hge] at h; cases h; exact ⟨rfl, by omega⟩

/-- round trip on an arbitrary reader state -/
theorem fpRT {c : FpCfg} (h : WFc c) {Fl : Type} [Flags Fl] (hF : FlagsOK Fl) (x : Fp c.p)
    (hx : x.val < c.p) (fl : Fl) (bs : List Nat) (hs : fpSerFlags c Fl x fl = .ok bs) (t : List Nat) (u : Nat) :
    fpDeFlags c Fl ⟨bs ++ t, u⟩ = .ok (x, fl) ⟨t, u + bs.length⟩ := by
  have hf := hF.bits_le
  obtain ⟨h1, h2⟩ := h.size_range Fl hf
  have hlen := fpSer_size h hs
  rw [fpSer_char h Fl hf] at hs
  obtain ⟨ho1, ho2⟩ := serOld_reduced h Fl hf x.val hx
  cases hs
  rw [fpDe_char h Fl hf, fpDeSpec]
  generalize hS : fpSizeFlags c Fl = S at *
  generalize hO : serOld c Fl x.val = o at *
  have hpre : (toB (S - 1) x.val).length = S - 1 := toB_length _ _
  have hm : Flags.u8Bitmask fl % 256 = Flags.u8Bitmask fl := Nat.mod_eq_of_lt (hF.mask_lt fl)
  have hv : (toB (S - 1) x.val ++ [o ||| Flags.u8Bitmask fl % 256] ++ t).getD (S - 1) 0 =
      o ||| Flags.u8Bitmask fl := by
    have := getD_mid (toB (S - 1) x.val) t (o ||| Flags.u8Bitmask fl % 256)
    rw [hpre, hm] at this; rw [hm]; exact this
  have htake : (toB (S - 1) x.val ++ [o ||| Flags.u8Bitmask fl % 256] ++ t).take (S - 1) = toB (S - 1) x.val := by
    rw [List.append_assoc, List.take_left' hpre]
  have hdrop : (toB (S - 1) x.val ++ [o ||| Flags.u8Bitmask fl % 256] ++ t).drop S = t := by
    rw [List.drop_left' (by simp [hpre]; omega)]
  simp only
  rw [if_neg (by simp [hpre]; omega), hv, htake, hdrop, Nat.or_comm, hF.from_or fl o ho2]
  simp only
  rw [Nat.or_comm, hm, byte_rt (8 - bitSize Fl) _ o (Nat.sub_le _ _) (hF.mask_lt fl) (hF.mask_top fl) ho2]
  have ho0 : S > c.N * 8 → o = 0 := by
    intro hgt
    have : S = 8 * c.N + 1 := by omega
    rw [← hO]; unfold serOld; rw [if_pos (by omega)]
  rw [if_neg (by intro ⟨a, b⟩; exact b (ho0 a))]
  rw [leVal_toB, ho1, Nat.mod_add_div, fromBigint_reduced c x hx]
  simp only [List.length_append, toB_length, List.length_cons, List.length_nil]
  rw [show S - 1 + (0 + 1) = S by omega]

/-- inversion of a successful `deserialize_with_flags` -/
theorem fpDe_ok_inv {c : FpCfg} (h : WFc c) {Fl : Type} [Flags Fl] (hf : bitSize Fl ≤ 8) {s s' : Rd}
    {x : Fp c.p} {fl : Fl} (hd : fpDeFlags c Fl s = .ok (x, fl) s') :
    fpSizeFlags c Fl ≤ s.inp.length ∧ s' = ⟨s.inp.drop (fpSizeFlags c Fl), s.used + fpSizeFlags c Fl⟩ ∧
    Flags.fromU8 (s.inp.getD (fpSizeFlags c Fl - 1) 0) = some fl ∧
    (fpSizeFlags c Fl > c.N * 8 →
      s.inp.getD (fpSizeFlags c Fl - 1) 0 &&& (255 - Flags.u8Bitmask fl % 256) = 0) ∧
    x.val = leVal (s.inp.take (fpSizeFlags c Fl - 1)) + 256 ^ (fpSizeFlags c Fl - 1) *
      (s.inp.getD (fpSizeFlags c Fl - 1) 0 &&& (255 - Flags.u8Bitmask fl % 256)) ∧
    x.val < c.p := by
  rw [fpDe_char h Fl hf, fpDeSpec] at hd
  generalize fpSizeFlags c Fl = S at *
  simp only at hd
  by_cases hshort : s.inp.length < S
  · rw [if_pos hshort] at hd; cases hd
  rw [if_neg hshort] at hd
  cases hfl : Flags.fromU8 (Fl := Fl) (s.inp.getD (S - 1) 0) with
  | none => rw [hfl] at hd; cases hd
  | some fl' =>
    rw [hfl] at hd
    simp only at hd
    by_cases hchk : S > c.N * 8 ∧ s.inp.getD (S - 1) 0 &&& 255 - Flags.u8Bitmask fl' % 256 ≠ 0
    · rw [if_pos hchk] at hd; cases hd
    rw [if_neg hchk] at hd
    cases hfb : fromBigint c (leVal (List.take (S - 1) s.inp) +
        256 ^ (S - 1) * (s.inp.getD (S - 1) 0 &&& 255 - Flags.u8Bitmask fl' % 256)) with
    | none => rw [hfb] at hd; cases hd
    | some x' =>
      rw [hfb] at hd
      simp only [R.ok.injEq, Prod.mk.injEq] at hd
      obtain ⟨⟨rfl, rfl⟩, rfl⟩ := hd
      obtain ⟨e1, e2⟩ := fromBigint_some h.p_pos hfb
      refine ⟨by omega, rfl, rfl, ?_, e1, e1 ▸ e2⟩
      intro hgt
      by_contra hne
      exact hchk ⟨hgt, hne⟩

/-- the value returned by a successful deserialisation is reduced -/
theorem fpDe_ok_lt {c : FpCfg} (h : WFc c) {Fl : Type} [Flags Fl] {s s' : Rd}
    {x : Fp c.p} {fl : Fl} (hd : fpDeFlags c Fl s = .ok (x, fl) s') : x.val < c.p := by
  by_cases hf : bitSize Fl ≤ 8
  · exact (fpDe_ok_inv h hf hd).2.2.2.2.2
  · unfold fpDeFlags at hd
    simp only [if_pos (show bitSize Fl > 8 by omega), M_throw_bind] at hd
    cases hd

/-- uniqueness on an arbitrary reader state: an accepted byte string is the serialisation of the result -/
theorem fpUniq {c : FpCfg} (h : WFc c) {Fl : Type} [Flags Fl] (hf : bitSize Fl ≤ 8) (hsub : FlagsSub Fl)
    {s s' : Rd} (hb : ∀ b ∈ s.inp, b < 256) {x : Fp c.p} {fl : Fl}
    (hd : fpDeFlags c Fl s = .ok (x, fl) s') :
    fpSerFlags c Fl x fl = .ok (s.inp.take (fpSizeFlags c Fl)) := by
  obtain ⟨h1, h2⟩ := h.size_range Fl hf
  obtain ⟨hlen, -, hfl, hchk, hx, hlt⟩ := fpDe_ok_inv h hf hd
  rw [fpSer_char h Fl hf]
  unfold serOld
  generalize hS : fpSizeFlags c Fl = S at *
  have hv : s.inp.getD (S - 1) 0 < 256 := by
    have hlt : S - 1 < s.inp.length := by omega
    simp only [List.getD, List.getElem?_eq_getElem hlt, Option.getD_some]
    exact hb _ (List.getElem_mem _)
  have hm : Flags.u8Bitmask fl % 256 < 256 := Nat.mod_lt _ (by decide)
  have hpre : ∀ b ∈ s.inp.take (S - 1), b < 256 := fun b hb' => hb b (List.mem_of_mem_take hb')
  have hpl : (s.inp.take (S - 1)).length = S - 1 := by rw [List.length_take]; omega
  have hv' : s.inp.getD (S - 1) 0 &&& 255 - Flags.u8Bitmask fl % 256 < 256 :=
    Nat.lt_of_le_of_lt Nat.and_le_right (by omega)
  generalize hv'd : s.inp.getD (S - 1) 0 &&& 255 - Flags.u8Bitmask fl % 256 = v' at *
  have hold : (if S = 8 * c.N + 1 then 0 else x.val / 256 ^ (S - 1) % 256) = v' := by
    split
    · next hS' => exact (hchk (by omega)).symm
    · rw [hx, Nat.add_mul_div_left _ _ (Nat.pow_pos (by decide)),
        Nat.div_eq_of_lt (by have := leVal_lt _ hpre; rwa [hpl] at this), Nat.zero_add,
        Nat.mod_eq_of_lt hv']
  have hpre' : toB (S - 1) x.val = s.inp.take (S - 1) := by
    have := toB_leVal_add _ hpre v'
    rw [hpl] at this; rw [hx]; exact this
  rw [hold, hpre', ← hv'd, byte_uniq _ _ hv hm (hsub _ fl hv hfl)]
  have : S = (S - 1) + 1 := by omega
  rw [this, take_succ_getD _ _ (by omega), ← this]

/-! ## Consumption discipline of readers -/

/-- `m` never panics, reads exactly `k` bytes when it succeeds and at most `k` (and never more than
    the input holds) when it fails -/
structure Reads {α : Type} (m : M α) (k : Nat) : Prop where
  no_panic : ∀ s, m s ≠ .panic
  ok_used : ∀ s a s', m s = .ok a s' → k ≤ s.inp.length ∧ s' = ⟨s.inp.drop k, s.used + k⟩
  err_used : ∀ s e s', m s = .err e s' →
    s.used ≤ s'.used ∧ s'.used ≤ s.used + k ∧ s'.used ≤ s.used + s.inp.length

theorem Reads.short {α : Type} {m : M α} {k : Nat} (h : Reads m k) (s : Rd) (hs : s.inp.length < k) :
    ∃ e s', m s = .err e s' := by
  cases hm : m s with
  | ok a s' => have := (h.ok_used s a s' hm).1; omega
  | err e s' => exact ⟨e, s', rfl⟩
  | panic => exact absurd hm (h.no_panic s)

theorem Reads.pure {α : Type} (a : α) : Reads (pure a : M α) 0 where
  no_panic := by intro s hm; cases hm
  ok_used := by
    intro s a' s' hm
    cases hm
    exact ⟨Nat.zero_le _, rfl⟩
  err_used := by intro s e s' hm; cases hm

theorem Reads.throw {α : Type} (e : Err) (k : Nat) : Reads (throwE e : M α) k where
  no_panic := by intro s hm; cases hm
  ok_used := by intro s a s' hm; cases hm
  err_used := by
    intro s e' s' hm
    cases hm
    exact ⟨Nat.le_refl _, Nat.le_add_right _ _, Nat.le_add_right _ _⟩

theorem Reads.bind {α β : Type} {m : M α} {f : α → M β} {k k' : Nat} (hm : Reads m k)
    (hf : ∀ a, Reads (f a) k') : Reads (m >>= f) (k + k') where
  no_panic := by
    intro s hp
    rw [M_bind_apply] at hp
    cases h1 : m s with
    | ok a s1 => rw [h1] at hp; exact (hf a).no_panic s1 hp
    | err e s1 => rw [h1] at hp; cases hp
    | panic => exact hm.no_panic s h1
  ok_used := by
    intro s b s' hp
    rw [M_bind_apply] at hp
    cases h1 : m s with
    | ok a s1 =>
      rw [h1] at hp
      obtain ⟨h2, rfl⟩ := hm.ok_used s a s1 h1
      obtain ⟨h3, rfl⟩ := (hf a).ok_used _ b s' hp
      simp only [List.length_drop] at h3
      refine ⟨by omega, ?_⟩
      simp only [List.drop_drop, Nat.add_assoc]
    | err e s1 => rw [h1] at hp; cases hp
    | panic => rw [h1] at hp; cases hp
  err_used := by
    intro s e s' hp
    rw [M_bind_apply] at hp
    cases h1 : m s with
    | ok a s1 =>
      rw [h1] at hp
      obtain ⟨h2, rfl⟩ := hm.ok_used s a s1 h1
      obtain ⟨h3, h4, h5⟩ := (hf a).err_used _ e s' hp
      simp only [List.length_drop] at h3 h4 h5
      exact ⟨by omega, by omega, by omega⟩
    | err e1 s1 =>
      rw [h1] at hp; cases hp
      obtain ⟨h3, h4, h5⟩ := hm.err_used s e s' h1
      exact ⟨h3, by omega, h5⟩
    | panic => rw [h1] at hp; cases hp

theorem Reads.bind0 {α β : Type} {m : M α} {f : α → M β} {k : Nat} (hm : Reads m k)
    (hf : ∀ a, Reads (f a) 0) : Reads (m >>= f) k := by
  have := Reads.bind hm hf; rwa [Nat.add_zero] at this

theorem Reads.congr {α : Type} {m : M α} {k k' : Nat} (h : Reads m k) (e : k = k') : Reads m k' := e ▸ h

/-- `deserialize_with_flags` of `Fp`: for every flag type (a flag type wider than 8 bits is refused
    before anything is read) -/
theorem fpDeFlags_reads {c : FpCfg} (h : WFc c) (Fl : Type) [Flags Fl] :
    Reads (fpDeFlags c Fl) (fpSizeFlags c Fl) := by
  by_cases hf : bitSize Fl ≤ 8
  · have hspec : ∀ s, fpDeFlags c Fl s = fpDeSpec c Fl s := fpDe_char h Fl hf
    refine ⟨?_, ?_, ?_⟩
    · intro s hp
      rw [hspec, fpDeSpec] at hp
      simp only at hp
      split at hp
      · cases hp
      · split at hp
        · cases hp
        · split at hp
          · cases hp
          · split at hp <;> cases hp
    · intro s ⟨x, fl⟩ s' hd
      have := fpDe_ok_inv h hf hd
      exact ⟨this.1, this.2.1⟩
    · intro s e s' hp
      rw [hspec, fpDeSpec] at hp
      simp only at hp
      have hgen : ∀ (S : Nat) (s' : Rd), ¬ s.inp.length < S → s' = ⟨s.inp.drop S, s.used + S⟩ →
          s.used ≤ s'.used ∧ s'.used ≤ s.used + S ∧ s'.used ≤ s.used + s.inp.length := by
        intro S s' h1 h2; subst h2; simp only; omega
      split at hp
      · next hlt => cases hp; simp only; omega
      · next hlt =>
        split at hp
        · cases hp; exact hgen _ _ hlt rfl
        · split at hp
          · cases hp; exact hgen _ _ hlt rfl
          · split at hp <;> cases hp
            exact hgen _ _ hlt rfl
  · have e : fpDeFlags c Fl = throwE .notenough := by
      unfold fpDeFlags
      simp only [if_pos (show bitSize Fl > 8 by omega), M_throw_bind]
    rw [e]; exact Reads.throw _ _

/-- a short input is an `IoError` (for a flag type of at most 8 bits) -/
theorem fpDeFlags_short {c : FpCfg} (h : WFc c) (Fl : Type) [Flags Fl] (hf : bitSize Fl ≤ 8) (s : Rd)
    (hs : s.inp.length < fpSizeFlags c Fl) :
    fpDeFlags c Fl s = .err .io ⟨[], s.used + s.inp.length⟩ := by
  rw [fpDe_char h Fl hf, fpDeSpec]
  simp only
  rw [if_pos hs]

theorem fpDe_reads {c : FpCfg} (h : WFc c) (cm : Compress) (vd : Validate) :
    Reads (fpDe c cm vd) (fpSizeFlags c EmptyFlags) := by
  unfold fpDe
  exact Reads.bind0 (fpDeFlags_reads h EmptyFlags) (fun ⟨r, _⟩ => Reads.pure r)

/-! ## Extension towers -/

theorem Res_bind_ok_inv {α β : Type} {m : Res α} {k : α → Res β} {b : β} (h : (m >>= k) = .ok b) :
    ∃ a, m = .ok a ∧ k a = .ok b := by
  cases m with
  | ok a => exact ⟨a, rfl, h⟩
  | err e => cases h
  | panic => cases h

theorem Res_bind_ok {α β : Type} (a : α) (k : α → Res β) : ((Res.ok a : Res α) >>= k) = k a := rfl
theorem Res_pure {α : Type} (a : α) : (pure a : Res α) = .ok a := rfl

/-- the value is an element of the tower `t` (Rust: guaranteed by the type) -/
def ExtV.hasShape {p : Nat} : ExtV p → Tower → Prop
  | .base _, .base => True
  | .quad a b, .quad t => a.hasShape t ∧ b.hasShape t
  | .cubic a b d, .cubic t => a.hasShape t ∧ b.hasShape t ∧ d.hasShape t
  | _, _ => False

/-- the tower a value belongs to, read off its first coordinates -/
def ExtV.shape {p : Nat} : ExtV p → Tower
  | .base _ => .base
  | .quad a _ => .quad a.shape
  | .cubic a _ _ => .cubic a.shape

/-- every prime-field coefficient is reduced -/
def ExtV.reduced {p : Nat} : ExtV p → Prop
  | .base x => x.val < p
  | .quad a b => a.reduced ∧ b.reduced
  | .cubic a b d => a.reduced ∧ b.reduced ∧ d.reduced

theorem ExtV.shape_of_hasShape {p : Nat} {v : ExtV p} {t : Tower} (h : v.hasShape t) : v.shape = t := by
  induction t generalizing v with
  | base => cases v <;> simp [ExtV.hasShape] at h; rfl
  | quad t ih => cases v <;> simp [ExtV.hasShape] at h; simp [ExtV.shape, ih h.1]
  | cubic t ih => cases v <;> simp [ExtV.hasShape] at h; simp [ExtV.shape, ih h.1]

theorem extSer_size {c : FpCfg} (h : WFc c) (t : Tower) : ∀ (Fl : Type) [Flags Fl] (v : ExtV c.p) (fl : Fl)
    (bs : List Nat), v.hasShape t → extSerFlags c Fl v fl = .ok bs → bs.length = extSizeFlags c Fl t := by
  induction t with
  | base =>
    intro Fl _ v fl bs hv hs
    cases v <;> simp only [ExtV.hasShape] at hv
    simp only [extSerFlags] at hs
    exact fpSer_size h hs
  | quad t ih =>
    intro Fl _ v fl bs hv hs
    cases v <;> simp only [ExtV.hasShape] at hv
    simp only [extSerFlags] at hs
    obtain ⟨a, ha, hs⟩ := Res_bind_ok_inv hs
    obtain ⟨b, hb, hs⟩ := Res_bind_ok_inv hs
    cases hs
    simp only [List.length_append, extSizeFlags, ih _ _ _ _ hv.1 ha, ih _ _ _ _ hv.2 hb]
  | cubic t ih =>
    intro Fl _ v fl bs hv hs
    cases v <;> simp only [ExtV.hasShape] at hv
    simp only [extSerFlags] at hs
    obtain ⟨a, ha, hs⟩ := Res_bind_ok_inv hs
    obtain ⟨b, hb, hs⟩ := Res_bind_ok_inv hs
    obtain ⟨d, hd, hs⟩ := Res_bind_ok_inv hs
    cases hs
    simp only [List.length_append, extSizeFlags, ih _ _ _ _ hv.1 ha, ih _ _ _ _ hv.2.1 hb,
      ih _ _ _ _ hv.2.2 hd]

theorem extDe_reads {c : FpCfg} (h : WFc c) (t : Tower) (cm : Compress) (vd : Validate) :
    Reads (extDe c t cm vd) (extSizeFlags c EmptyFlags t) := by
  induction t with
  | base =>
    simp only [extDe, extSizeFlags]
    exact Reads.bind0 (fpDe_reads h cm vd) (fun x => Reads.pure _)
  | quad t ih =>
    simp only [extDe, extSizeFlags]
    exact Reads.bind ih (fun c0 => Reads.bind0 ih (fun c1 => Reads.pure _))
  | cubic t ih =>
    simp only [extDe, extSizeFlags]
    refine Reads.congr (Reads.bind ih (fun c0 => Reads.bind ih (fun c1 => Reads.bind0 ih (fun c2 => Reads.pure _)))) ?_
    omega

theorem extDeFlags_reads {c : FpCfg} (h : WFc c) (Fl : Type) [Flags Fl] (t : Tower) :
    Reads (extDeFlags c Fl t) (extSizeFlags c Fl t) := by
  induction t with
  | base =>
    simp only [extDeFlags, extSizeFlags]
    exact Reads.bind0 (fpDeFlags_reads h Fl) (fun ⟨x, fl⟩ => Reads.pure _)
  | quad t ih =>
    simp only [extDeFlags, extSizeFlags]
    exact Reads.bind (extDe_reads h t .yes .yes) (fun c0 => Reads.bind0 ih (fun ⟨c1, fl⟩ => Reads.pure _))
  | cubic t ih =>
    simp only [extDeFlags, extSizeFlags]
    refine Reads.congr (Reads.bind (extDe_reads h t .yes .yes) (fun c0 =>
      Reads.bind (extDe_reads h t .yes .yes) (fun c1 => Reads.bind0 ih (fun ⟨c2, fl⟩ => Reads.pure _)))) ?_
    omega

end Ark.Bytes
