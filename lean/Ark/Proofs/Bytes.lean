import Ark.Model.Bytes
import Mathlib.Tactic.Ring
import Mathlib.Tactic.Linarith
import Mathlib.Tactic.NormNum
import Mathlib.Tactic.FieldSimp
import Mathlib.Tactic.LinearCombination
import Mathlib.Data.Nat.Prime.Basic
import Mathlib.RingTheory.Int.Basic
import Mathlib.Data.Int.ModEq
import Mathlib.Data.Nat.ModEq
import Mathlib.Algebra.Field.Basic
/-
  Ark.Proofs.Bytes — helper lemmas for properties C09 / C10 about the executable model
  `Ark.Model.Bytes` (field-element and curve-point (de)serialisation of arkworks).

  Contents: little-endian byte algebra (`toB`, `leVal`); the `SerBuf` accessors on the canonical
  shape `init ++ [lastLimb]`; well-formed configurations (`WFc`); closed forms of
  `fpSerFlags` (`fpSer_char`) and `fpDeFlags` (`fpDe_char`); size / round trip / uniqueness /
  totality / consumption for `Fp` and towers; the point layer over an abstract `Codec`.
-/
open Ark
set_option linter.unusedSimpArgs false
set_option linter.unusedSectionVars false
namespace Ark.Bytes

/-- `simp` then `omega` if something is left -/
local macro "simp_omega" : tactic => `(tactic| first | omega | (simp; done) | (simp; omega))

/-- `k` little-endian bytes of `n` -/
def toB : Nat → Nat → List Nat
  | 0, _ => []
  | k+1, n => n % 256 :: toB k (n / 256)

theorem toB_length (k n : Nat) : (toB k n).length = k := by
  induction k generalizing n with
  | zero => rfl
  | succ k ih => simp [toB, ih]

theorem toB_lt (k n : Nat) : ∀ b ∈ toB k n, b < 256 := by
  induction k generalizing n with
  | zero => simp [toB]
  | succ k ih =>
    intro b hb
    simp only [toB, List.mem_cons] at hb
    rcases hb with rfl | hb
    · exact Nat.mod_lt _ (by decide)
    · exact ih _ b hb

theorem leVal_toB (k n : Nat) : leVal (toB k n) = n % 256 ^ k := by
  induction k generalizing n with
  | zero => simp [toB, leVal, Nat.mod_one]
  | succ k ih =>
    simp only [toB, leVal, ih]
    rw [Nat.pow_succ, Nat.mul_comm (256 ^ k) 256, Nat.mod_mul]

theorem leVal_append (a b : List Nat) : leVal (a ++ b) = leVal a + 256 ^ a.length * leVal b := by
  induction a with
  | nil => simp [leVal]
  | cons x xs ih => simp only [List.cons_append, leVal, ih, List.length_cons, Nat.pow_succ]; ring

theorem leVal_replicate_zero (k : Nat) : leVal (List.replicate k 0) = 0 := by
  induction k with
  | zero => rfl
  | succ k ih => simp [List.replicate_succ, leVal, ih]

theorem leVal_lt (l : List Nat) (h : ∀ b ∈ l, b < 256) : leVal l < 256 ^ l.length := by
  induction l with
  | nil => simp [leVal]
  | cons x xs ih =>
    have h1 : x < 256 := h x (by simp)
    have h2 := ih (fun b hb => h b (by simp [hb]))
    simp only [leVal, List.length_cons, Nat.pow_succ]
    omega

theorem toB_leVal_add (l : List Nat) (h : ∀ b ∈ l, b < 256) (m : Nat) :
    toB l.length (leVal l + 256 ^ l.length * m) = l := by
  induction l with
  | nil => rfl
  | cons x xs ih =>
    have h1 : x < 256 := h x (by simp)
    have h2 := ih (fun b hb => h b (by simp [hb]))
    simp only [List.length_cons, toB, leVal, Nat.pow_succ]
    have e : x + 256 * leVal xs + 256 ^ xs.length * 256 * m = x + 256 * (leVal xs + 256 ^ xs.length * m) := by ring
    rw [e, Nat.add_mul_mod_self_left, Nat.mod_eq_of_lt h1, Nat.add_mul_div_left _ _ (by decide : 0 < 256),
      Nat.div_eq_of_lt h1, Nat.zero_add, h2]

theorem toB_add (a b n : Nat) : toB (a + b) n = toB a n ++ toB b (n / 256 ^ a) := by
  induction a generalizing n with
  | zero => simp [toB]
  | succ a ih =>
    rw [show a + 1 + b = (a + b) + 1 by omega]
    simp only [toB, ih, List.cons_append, Nat.pow_succ]
    rw [Nat.div_div_eq_div_mul, Nat.mul_comm 256]

theorem toB_take (j k n : Nat) (h : j ≤ k) : (toB k n).take j = toB j n := by
  obtain ⟨d, rfl⟩ := Nat.exists_eq_add_of_le h
  rw [toB_add, List.take_left' (toB_length _ _)]

theorem le8_eq_toB (x : Nat) : le8 x = toB 8 x := by
  have : List.range 8 = [0,1,2,3,4,5,6,7] := by decide
  simp only [le8, this, List.map, toB, Nat.div_div_eq_div_mul]
  norm_num

theorem wsub_eq (a b : Nat) (h : b ≤ a) (h2 : a - b < 2 ^ 64) : wsub a b = a - b := by
  unfold wsub; omega

theorem toB_mod (k n : Nat) : toB k (n % 256 ^ k) = toB k n := by
  induction k generalizing n with
  | zero => rfl
  | succ k ih =>
    simp only [toB]
    have h1 : n % 256 ^ (k + 1) % 256 = n % 256 := by
      rw [Nat.pow_succ, Nat.mul_comm]; exact Nat.mod_mul_right_mod _ _ _
    have h2 : n % 256 ^ (k + 1) / 256 = (n / 256) % 256 ^ k := by
      rw [Nat.pow_succ, Nat.mul_comm, Nat.mod_mul_right_div_self]
    rw [h1, h2, ih]

theorem getD_toB (k n j : Nat) (h : j < k) : (toB k n).getD j 0 = n / 256 ^ j % 256 := by
  induction k generalizing n j with
  | zero => omega
  | succ k ih =>
    cases j with
    | zero => simp [toB]
    | succ j =>
      simp only [toB, List.getD_cons_succ]
      rw [ih _ _ (by omega), Nat.div_div_eq_div_mul, Nat.pow_succ, Nat.mul_comm]

theorem take_set_succ {α : Type} (l : List α) (j : Nat) (w : α) (h : j < l.length) :
    (l.set j w).take (j + 1) = l.take j ++ [w] := by
  induction l generalizing j with
  | nil => simp at h
  | cons x xs ih =>
    cases j with
    | zero => simp
    | succ j => simp [ih j (by simpa using h)]

theorem B_eq_256 : B = 256 ^ 8 := by unfold B; norm_num

theorem toLimbs_succ_right (n v : Nat) : toLimbs (n + 1) v = toLimbs n v ++ [v / B ^ n % B] := by
  induction n generalizing v with
  | zero => simp [toLimbs]
  | succ n ih =>
    rw [toLimbs, ih (v / B)]
    simp only [toLimbs, List.cons_append, Nat.div_div_eq_div_mul, Nat.pow_succ]
    rw [Nat.mul_comm B]

theorem flatten_le8_toLimbs (n v : Nat) : ((toLimbs n v).map le8).flatten = toB (8 * n) v := by
  induction n generalizing v with
  | zero => rfl
  | succ n ih =>
    simp only [toLimbs, List.map_cons, List.flatten_cons, ih]
    rw [show 8 * (n + 1) = 8 + 8 * n by omega, toB_add, le8_eq_toB, B_eq_256, toB_mod]

/-! ## `SerBuf` on the canonical shape `init ++ [lastLimb]` -/
namespace SerBuf

theorem copyGo_eq (os : List Nat) (ts : List (List Nat)) (h : os.length = ts.length) :
    copyFromU64Slice.go os ts = os.map le8 := by
  induction os generalizing ts with
  | nil => cases ts with
    | nil => simp [copyFromU64Slice.go]
    | cons t ts => simp at h
  | cons o os ih => cases ts with
    | nil => simp at h
    | cons t ts =>
      simp only [copyFromU64Slice.go, List.map_cons]
      rw [ih ts (by simpa using h)]

theorem get_last (N : Nat) (b : SerBuf) : get N b (8 * N) = .ok b.last := by
  simp [get]

theorem getElem?_init_last {α : Type} (init : List α) (ll : α) (n : Nat) (hi : init.length = n) :
    (init ++ [ll])[n]? = some ll := by
  rw [List.getElem?_append_right (by omega)]; simp [hi]

theorem get_ll (N : Nat) (init : List (List Nat)) (ll : List Nat) (last j : Nat) (hN : 1 ≤ N)
    (hi : init.length = N - 1) (hj : j < ll.length) (hj8 : j < 8) :
    get N ⟨init ++ [ll], last⟩ (8 * (N - 1) + j) = .ok (ll.getD j 0) := by
  have e1 : (8 * (N - 1) + j) / 8 = N - 1 := by omega
  have e2 : (8 * (N - 1) + j) % 8 = j := by omega
  have e3 : ¬ (8 * (N - 1) + j = 8 * N) := by omega
  simp only [get, e1, e2, if_neg e3, getElem?_init_last init ll _ hi]
  simp [List.getD, List.getElem?_eq_getElem hj]

theorem set_last (N : Nat) (b : SerBuf) (v : Nat) : set N b (8 * N) v = .ok { b with last := v } := by
  simp [set]

theorem set_ll (N : Nat) (init : List (List Nat)) (ll : List Nat) (last j v : Nat) (hN : 1 ≤ N)
    (hi : init.length = N - 1) (hj8 : j < 8) :
    set N ⟨init ++ [ll], last⟩ (8 * (N - 1) + j) v = .ok ⟨init ++ [ll.set j v], last⟩ := by
  have e1 : (8 * (N - 1) + j) / 8 = N - 1 := by omega
  have e2 : (8 * (N - 1) + j) % 8 = j := by omega
  have e3 : ¬ (8 * (N - 1) + j = 8 * N) := by omega
  simp only [set, e1, e2, if_neg e3, getElem?_init_last init ll _ hi]
  congr 2
  rw [List.set_append_right _ _ (by omega)]
  simp [hi]

theorem writeUpTo_eq (N : Nat) (init : List (List Nat)) (ll : List Nat) (last S : Nat) (hN : 1 ≤ N)
    (hi : init.length = N - 1) (h1 : 8 * (N - 1) < S) (h2 : S ≤ 8 * N + 1) :
    writeUpTo N ⟨init ++ [ll], last⟩ S =
      .ok (init.flatten ++ ll.take (min 8 (S - 8 * (N - 1))) ++ (if S - 8 * (N - 1) > 8 then [last] else [])) := by
  have e0 : ¬ N = 0 := by omega
  have e5 : wsub S (8 * (N - 1)) = S - 8 * (N - 1) := by
    unfold wsub; omega
  have e6 : (init ++ [ll]).take (N - 1) = init := by
    rw [← hi]; simp
  simp only [writeUpTo, if_neg e0, getElem?_init_last init ll _ hi, e5, e6]

theorem value_map_leVal (ls : List (List Nat)) (h : ∀ l ∈ ls, l.length = 8) :
    value (ls.map leVal) = leVal ls.flatten := by
  induction ls with
  | nil => rfl
  | cons l ls ih =>
    have h1 : l.length = 8 := h l (by simp)
    have h2 := ih (fun l hl => h l (by simp [hl]))
    simp only [List.map_cons, value, List.flatten_cons, leVal_append, h1, h2, B_eq_256]

theorem toBigint_eq (init : List (List Nat)) (ll : List Nat) (last : Nat)
    (h : ∀ l ∈ init, l.length = 8) (hl : ll.length = 8) :
    toBigint ⟨init ++ [ll], last⟩ = leVal (init.flatten ++ ll) := by
  unfold toBigint
  rw [value_map_leVal _ (by
    intro l hm; rcases List.mem_append.mp hm with h' | h'
    · exact h l h'
    · simp at h'; rw [h']; exact hl)]
  simp

end SerBuf

/-! ## The monad `M` -/

theorem M_bind_apply {α β : Type} (m : M α) (k : α → M β) (s : Rd) :
    (m >>= k) s = match m s with
      | .ok a s' => k a s'
      | .err e s' => .err e s'
      | .panic => .panic := rfl

theorem M_pure_apply {α : Type} (a : α) (s : Rd) : (pure a : M α) s = .ok a s := rfl

theorem M_bind_ok {α β : Type} {m : M α} {k : α → M β} {s s' : Rd} {a : α} (h : m s = .ok a s') :
    (m >>= k) s = k a s' := by rw [M_bind_apply, h]

theorem M_bind_err {α β : Type} {m : M α} {k : α → M β} {s s' : Rd} {e : Err} (h : m s = .err e s') :
    (m >>= k) s = .err e s' := by rw [M_bind_apply, h]

theorem readExact_ok (n : Nat) (s : Rd) (h : n ≤ s.inp.length) :
    readExact n s = .ok (s.inp.take n) ⟨s.inp.drop n, s.used + n⟩ := by
  unfold readExact; rw [if_neg (by omega)]

theorem readExact_short (n : Nat) (s : Rd) (h : s.inp.length < n) :
    readExact n s = .err .io ⟨[], s.used + s.inp.length⟩ := by
  unfold readExact; rw [if_pos h]

namespace SerBuf

theorem readLimbs_ok (n : Nat) (s : Rd) (h : 8 * n ≤ s.inp.length) :
    ∃ ls, readLimbs n s = .ok ls ⟨s.inp.drop (8 * n), s.used + 8 * n⟩ ∧ ls.length = n ∧
      (∀ l ∈ ls, l.length = 8) ∧ ls.flatten = s.inp.take (8 * n) := by
  induction n generalizing s with
  | zero => exact ⟨[], by simp [readLimbs, M_pure_apply]⟩
  | succ n ih =>
    obtain ⟨ls, h1, h2, h3, h4⟩ := ih ⟨s.inp.drop 8, s.used + 8⟩ (by simp_omega)
    refine ⟨s.inp.take 8 :: ls, ?_, by simp [h2], ?_, ?_⟩
    · simp only [readLimbs]
      rw [M_bind_ok (readExact_ok 8 s (by omega)), M_bind_ok h1, M_pure_apply]
      simp only [List.drop_drop]
      rw [show 8 * (n + 1) = 8 + 8 * n by omega, Nat.add_assoc]
    · intro l hl
      rcases List.mem_cons.mp hl with rfl | hl
      · simp_omega
      · exact h3 l hl
    · simp only [List.flatten_cons, h4]
      rw [show 8 * (n + 1) = 8 + 8 * n by omega, List.take_add]

theorem readLimbs_short (n : Nat) (s : Rd) (h : s.inp.length < 8 * n) :
    readLimbs n s = .err .io ⟨[], s.used + s.inp.length⟩ := by
  induction n generalizing s with
  | zero => omega
  | succ n ih =>
    simp only [readLimbs]
    by_cases h8 : s.inp.length < 8
    · rw [M_bind_err (readExact_short 8 s h8)]
    · rw [M_bind_ok (readExact_ok 8 s (by omega)),
        M_bind_err (ih ⟨s.inp.drop 8, s.used + 8⟩ (by simp_omega))]
      simp only [List.length_drop]
      congr 2; omega

end SerBuf

/-! ## Well-formed configurations -/

/-- a real `FpConfig<N>`: at least one limb, the modulus fills the top limb and fits `N` limbs -/
structure WFc (c : FpCfg) : Prop where
  N_pos : 1 ≤ c.N
  p_ge : 2 ^ (64 * (c.N - 1)) ≤ c.p
  p_lt : c.p < 2 ^ (64 * c.N)

namespace WFc
variable {c : FpCfg} (h : WFc c)
include h

theorem top_eq : c.p / 2 ^ (64 * (c.N - 1)) % 2 ^ 64 = c.p / 2 ^ (64 * (c.N - 1)) := by
  apply Nat.mod_eq_of_lt
  rw [Nat.div_lt_iff_lt_mul (Nat.two_pow_pos _), ← Nat.pow_add]
  have := h.p_lt; have := h.N_pos
  rwa [show 64 + 64 * (c.N - 1) = 64 * c.N by omega]

theorem top_pos : 1 ≤ c.p / 2 ^ (64 * (c.N - 1)) :=
  (Nat.one_le_div_iff (Nat.two_pow_pos _)).mpr h.p_ge

theorem top_lt : c.p / 2 ^ (64 * (c.N - 1)) < 2 ^ 64 := by
  rw [← h.top_eq]; exact Nat.mod_lt _ (Nat.two_pow_pos _)

theorem bits_eq : c.bits = 64 * (c.N - 1) + ((c.p / 2 ^ (64 * (c.N - 1))).log2 + 1) := by
  unfold FpCfg.bits bitLen
  rw [h.top_eq, if_neg (by have := h.top_pos; omega), Nat.mul_comm]

theorem bits_gt : 64 * (c.N - 1) < c.bits := by rw [h.bits_eq]; omega

theorem bits_le : c.bits ≤ 64 * c.N := by
  rw [h.bits_eq]
  have h1 : (c.p / 2 ^ (64 * (c.N - 1))).log2 < 64 :=
    (Nat.log2_lt (by have := h.top_pos; omega)).mpr h.top_lt
  have := h.N_pos
  omega

theorem p_lt_bits : c.p < 2 ^ c.bits := by
  rw [h.bits_eq, Nat.pow_add]
  have h1 : c.p / 2 ^ (64 * (c.N - 1)) < 2 ^ ((c.p / 2 ^ (64 * (c.N - 1))).log2 + 1) := Nat.lt_log2_self
  rw [Nat.div_lt_iff_lt_mul (Nat.two_pow_pos _)] at h1
  rwa [Nat.mul_comm]

theorem p_ge_bits : 2 ^ (c.bits - 1) ≤ c.p := by
  rw [h.bits_eq, show 64 * (c.N - 1) + ((c.p / 2 ^ (64 * (c.N - 1))).log2 + 1) - 1
    = 64 * (c.N - 1) + (c.p / 2 ^ (64 * (c.N - 1))).log2 by omega, Nat.pow_add]
  have h1 : 2 ^ (c.p / 2 ^ (64 * (c.N - 1))).log2 ≤ c.p / 2 ^ (64 * (c.N - 1)) :=
    Nat.log2_self_le (by have := h.top_pos; omega)
  calc 2 ^ (64 * (c.N - 1)) * 2 ^ (c.p / 2 ^ (64 * (c.N - 1))).log2
      ≤ 2 ^ (64 * (c.N - 1)) * (c.p / 2 ^ (64 * (c.N - 1))) := Nat.mul_le_mul_left _ h1
    _ ≤ c.p := Nat.mul_div_le _ _

theorem p_pos : 0 < c.p := Nat.lt_of_lt_of_le (Nat.two_pow_pos _) h.p_ge

/-- the advertised size is in the range `write_up_to` / `read_exact_up_to` expect -/
theorem size_range (Fl : Type) [Flags Fl] (hf : bitSize Fl ≤ 8) :
    8 * (c.N - 1) < fpSizeFlags c Fl ∧ fpSizeFlags c Fl ≤ 8 * c.N + 1 := by
  unfold fpSizeFlags bufferByteSize
  have := h.bits_gt; have := h.bits_le; have := h.N_pos
  omega

end WFc

theorem fpSizeFlags_eq (c : FpCfg) (Fl : Type) [Flags Fl] :
    fpSizeFlags c Fl = (c.bits + bitSize Fl + 7) / 8 := rfl

/-- a value below `2^bits` leaves the top `f` bits of the last serialised byte free -/
theorem top_byte_lt (c : FpCfg) (Fl : Type) [Flags Fl] (hf : bitSize Fl ≤ 8) (x : Nat)
    (hx : x < 2 ^ c.bits) (hS : 1 ≤ fpSizeFlags c Fl) :
    x / 256 ^ (fpSizeFlags c Fl - 1) < 2 ^ (8 - bitSize Fl) := by
  rw [Nat.div_lt_iff_lt_mul (Nat.pow_pos (by decide)), show (256:Nat) = 2 ^ 8 by norm_num,
    ← Nat.pow_mul, ← Nat.pow_add]
  refine Nat.lt_of_lt_of_le hx (Nat.pow_le_pow_right (by decide) ?_)
  unfold fpSizeFlags bufferByteSize at *
  omega

/-! ## Closed form of `fpSerFlags` -/

theorem toLimbs_length' (n v : Nat) : (toLimbs n v).length = n := by
  induction n generalizing v with
  | zero => rfl
  | succ n ih => simp [toLimbs, ih]

theorem ser_bytes_eq (n v : Nat) :
    (SerBuf.zeroed (n + 1)).copyFromU64Slice (toLimbs (n + 1) v) =
      ⟨(toLimbs n v).map le8 ++ [toB 8 (v / 256 ^ (8 * n))], 0⟩ := by
  unfold SerBuf.copyFromU64Slice SerBuf.zeroed
  simp only
  rw [SerBuf.copyGo_eq _ _ (by simp [toLimbs_length']), toLimbs_succ_right, List.map_append]
  simp only [List.map_cons, List.map_nil, le8_eq_toB, B_eq_256, toB_mod, ← Nat.pow_mul]

/-- the byte of the integer that `serialize_with_flags` ORs the flags into -/
def serOld (c : FpCfg) (Fl : Type) [Flags Fl] (x : Nat) : Nat :=
  if fpSizeFlags c Fl = 8 * c.N + 1 then 0 else x / 256 ^ (fpSizeFlags c Fl - 1) % 256

theorem fpSer_char {c : FpCfg} (h : WFc c) (Fl : Type) [Flags Fl] (hf : bitSize Fl ≤ 8)
    (x : Fp c.p) (fl : Fl) :
    fpSerFlags c Fl x fl =
      .ok (toB (fpSizeFlags c Fl - 1) x.val ++ [serOld c Fl x.val ||| (Flags.u8Bitmask fl % 256)]) := by
  obtain ⟨h1, h2⟩ := h.size_range Fl hf
  have hN := h.N_pos
  unfold serOld
  unfold fpSerFlags
  rw [if_neg (by omega)]
  show (if fpSizeFlags c Fl = 0 then Res.panic else _) = _
  rw [if_neg (by omega)]
  obtain ⟨p, N⟩ := c
  obtain ⟨n, rfl⟩ : ∃ n, N = n + 1 := ⟨N - 1, by simp at hN; omega⟩
  generalize hS : fpSizeFlags ⟨p, n + 1⟩ Fl = S at *
  simp only [Nat.add_sub_cancel] at h1
  simp only [intoBigint, fpSizeFlags] at *
  rw [hS, ser_bytes_eq]
  have hi : ((toLimbs n x.val).map le8).length = n + 1 - 1 := by simp [toLimbs_length']
  by_cases hc : S = 8 * (n + 1) + 1
  · subst hc
    rw [if_pos rfl, show 8 * (n + 1) + 1 - 1 = 8 * (n + 1) by omega, SerBuf.get_last]
    simp only [SerBuf.set_last]
    rw [SerBuf.writeUpTo_eq _ _ _ _ _ (by omega) hi (by simp_omega) (by omega)]
    simp only [Res.ofOutcome, Nat.add_sub_cancel]
    rw [show min 8 (8 * (n + 1) + 1 - 8 * n) = 8 by omega, if_pos (by omega), flatten_le8_toLimbs,
      List.take_of_length_le (by simp [toB_length]), show 8 * (n + 1) = 8 * n + 8 by omega, toB_add]
  · rw [if_neg hc]
    obtain ⟨j, hj, hj8⟩ : ∃ j, S - 1 = 8 * (n + 1 - 1) + j ∧ j < 8 := ⟨S - 1 - 8 * n, by simp_omega, by omega⟩
    rw [hj, SerBuf.get_ll _ _ _ _ _ (by omega) hi (by simp [toB_length]; exact hj8) hj8]
    simp only
    rw [SerBuf.set_ll _ _ _ _ _ _ (by omega) hi hj8]
    simp only
    rw [SerBuf.writeUpTo_eq _ _ _ _ _ (by omega) hi (by simp_omega) (by omega)]
    simp only [Res.ofOutcome, Nat.add_sub_cancel]
    rw [show min 8 (S - 8 * n) = j + 1 by simp at hj; omega, if_neg (by omega), flatten_le8_toLimbs,
      take_set_succ _ _ _ (by simp [toB_length]; exact hj8), toB_take _ _ _ (by omega),
      getD_toB _ _ _ hj8, List.append_nil, ← List.append_assoc, ← toB_add,
      Nat.div_div_eq_div_mul, ← Nat.pow_add]

namespace SerBuf

theorem zeroed_getD (n : Nat) : (zeroed (n + 1)).buffers.getD (n + 1 - 1) [] = List.replicate 8 0 := by
  simp [zeroed, List.getD]

theorem readExactUpTo_short (n S : Nat) (s : Rd) (h1 : 8 * n < S) (h2 : S ≤ 8 * (n + 1) + 1)
    (hs : s.inp.length < S) :
    readExactUpTo (n + 1) (zeroed (n + 1)) S s = .err .io ⟨[], s.used + s.inp.length⟩ := by
  have e5 : wsub S (8 * n) = S - 8 * n := by unfold wsub; omega
  unfold readExactUpTo
  simp only [Nat.add_one_ne_zero, if_false, Nat.add_sub_cancel]
  simp only [e5]
  by_cases hl : s.inp.length < 8 * n
  · rw [M_bind_err (readLimbs_short n s hl)]
  · obtain ⟨first, hf1, -, -, -⟩ := readLimbs_ok n s (by omega)
    rw [M_bind_ok hf1]
    by_cases hp : s.inp.length - 8 * n < min 8 (S - 8 * n)
    · rw [M_bind_err (readExact_short _ _ (by simpa using hp))]
      simp only [List.length_drop]
      congr 2; omega
    · rw [M_bind_ok (readExact_ok _ _ (by simp only [List.length_drop]; omega))]
      rw [if_pos (by omega), M_bind_err (readExact_short _ _ (by simp only [List.length_drop]; omega))]
      simp only [List.length_drop]
      congr 2; omega

theorem readExactUpTo_ok_lt (n S : Nat) (s : Rd) (h1 : 8 * n < S) (h2 : S ≤ 8 * (n + 1))
    (hs : S ≤ s.inp.length) :
    ∃ first, first.length = n ∧ (∀ l ∈ first, l.length = 8) ∧ first.flatten = s.inp.take (8 * n) ∧
      readExactUpTo (n + 1) (zeroed (n + 1)) S s =
        .ok ⟨first ++ [(s.inp.drop (8 * n)).take (S - 8 * n) ++ List.replicate (8 - (S - 8 * n)) 0], 0⟩
          ⟨s.inp.drop S, s.used + S⟩ := by
  have e5 : wsub S (8 * (n + 1 - 1)) = S - 8 * n := by unfold wsub; simp only [Nat.add_sub_cancel]; omega
  obtain ⟨first, hf1, hf2, hf3, hf4⟩ := readLimbs_ok n s (by omega)
  refine ⟨first, hf2, hf3, hf4, ?_⟩
  unfold readExactUpTo
  simp only [Nat.add_one_ne_zero, if_false, e5]
  simp only [Nat.add_sub_cancel]
  rw [M_bind_ok hf1, M_bind_ok (readExact_ok _ _ (by simp only [List.length_drop]; omega)),
    if_neg (by omega), M_pure_apply]
  have e7 : min 8 (S - 8 * n) = S - 8 * n := by omega
  simp only [overwritePrefix, zeroed, List.drop_drop, e7]
  have e8 : ((List.replicate (n + 1) (List.replicate 8 0)).getD n []) = List.replicate 8 0 := by
    simp [List.getD]
  rw [e8]
  have e9 : (List.take (S - 8 * n) (List.drop (8 * n) s.inp)).length = S - 8 * n := by
    simp only [List.length_take, List.length_drop]; omega
  rw [e9, List.drop_replicate, show 8 * n + (S - 8 * n) = S by omega, Nat.add_assoc,
    show 8 * n + (S - 8 * n) = S by omega]

theorem readExactUpTo_ok_extra (n : Nat) (s : Rd) (hs : 8 * (n + 1) + 1 ≤ s.inp.length) :
    ∃ first, first.length = n ∧ (∀ l ∈ first, l.length = 8) ∧ first.flatten = s.inp.take (8 * n) ∧
      readExactUpTo (n + 1) (zeroed (n + 1)) (8 * (n + 1) + 1) s =
        .ok ⟨first ++ [(s.inp.drop (8 * n)).take 8], s.inp.getD (8 * (n + 1)) 0⟩
          ⟨s.inp.drop (8 * (n + 1) + 1), s.used + (8 * (n + 1) + 1)⟩ := by
  have e5 : wsub (8 * (n + 1) + 1) (8 * (n + 1 - 1)) = 9 := by
    unfold wsub; simp only [Nat.add_sub_cancel]; omega
  obtain ⟨first, hf1, hf2, hf3, hf4⟩ := readLimbs_ok n s (by omega)
  refine ⟨first, hf2, hf3, hf4, ?_⟩
  unfold readExactUpTo
  simp only [Nat.add_one_ne_zero, if_false, e5]
  simp only [Nat.add_sub_cancel]
  rw [M_bind_ok hf1, M_bind_ok (readExact_ok _ _ (by simp only [List.length_drop]; omega)),
    if_pos (by omega), M_bind_ok (readExact_ok _ _ (by simp only [List.length_drop]; omega)), M_pure_apply]
  simp only [overwritePrefix, zeroed, List.drop_drop, show min 8 9 = 8 by decide]
  have e8 : ((List.replicate (n + 1) (List.replicate 8 0)).getD n []) = List.replicate 8 0 := by
    simp [List.getD]
  have e9 : (List.take 8 (List.drop (8 * n) s.inp)).length = 8 := by
    simp only [List.length_take, List.length_drop]; omega
  rw [e8, e9, List.drop_replicate]
  simp only [Nat.sub_self, List.replicate_zero, List.append_nil]
  have e10 : (List.take 1 (List.drop (8 * n + 8) s.inp)).headD 0 = s.inp.getD (8 * (n + 1)) 0 := by
    rw [show 8 * n + 8 = 8 * (n + 1) by omega]
    cases hd : List.drop (8 * (n + 1)) s.inp with
    | nil => simp at hd; omega
    | cons a t =>
      have := List.getElem?_drop (xs := s.inp) (i := 8 * (n + 1)) (j := 0)
      rw [hd] at this
      simp only [List.getElem?_cons_zero, Nat.add_zero] at this
      simp [List.getD, ← this]
  rw [e10]
  congr 2

end SerBuf

theorem take_succ_getD (l : List Nat) (i : Nat) (h : i < l.length) :
    l.take (i + 1) = l.take i ++ [l.getD i 0] := by
  rw [List.take_add_one]; simp [List.getD, List.getElem?_eq_getElem h]

theorem getD_mid (P Z : List Nat) (v : Nat) : (P ++ [v] ++ Z).getD P.length 0 = v := by
  simp [List.getD]

theorem set_mid (P Z : List Nat) (v w : Nat) : (P ++ [v] ++ Z).set P.length w = P ++ [w] ++ Z := by
  simp [List.set_append_right]

theorem getD_drop (l : List Nat) (a b : Nat) : (l.drop a).getD b 0 = l.getD (a + b) 0 := by
  simp [List.getD, List.getElem?_drop]

theorem M_pure_bind {α β : Type} (a : α) (k : α → M β) : ((pure a : M α) >>= k) = k a := rfl
theorem M_throw_bind {α β : Type} (e : Err) (k : α → M β) : ((throwE e : M α) >>= k) = throwE e := rfl

/-- closed form of `deserialize_with_flags` on a reader state -/
def fpDeSpec (c : FpCfg) (Fl : Type) [Flags Fl] (s : Rd) : R (Fp c.p × Fl) :=
  let S := fpSizeFlags c Fl
  if s.inp.length < S then .err .io ⟨[], s.used + s.inp.length⟩ else
  let s' : Rd := ⟨s.inp.drop S, s.used + S⟩
  let v := s.inp.getD (S - 1) 0
  match Flags.fromU8 (Fl := Fl) v with
  | none => .err .flags s'
  | some fl =>
    let v' := v &&& (255 - Flags.u8Bitmask fl % 256)
    if S > c.N * 8 ∧ v' ≠ 0 then .err .invalid s' else
    match fromBigint c (leVal (s.inp.take (S - 1)) + 256 ^ (S - 1) * v') with
    | some x => .ok (x, fl) s'
    | none => .err .invalid s'

theorem fpDe_char {c : FpCfg} (h : WFc c) (Fl : Type) [Flags Fl] (hf : bitSize Fl ≤ 8) (s : Rd) :
    fpDeFlags c Fl s = fpDeSpec c Fl s := by
  obtain ⟨h1, h2⟩ := h.size_range Fl hf
  have hN := h.N_pos
  unfold fpDeSpec fpDeFlags
  obtain ⟨p, N⟩ := c
  obtain ⟨n, rfl⟩ : ∃ n, N = n + 1 := ⟨N - 1, by simp at hN; omega⟩
  generalize hS : fpSizeFlags ⟨p, n + 1⟩ Fl = S at *
  simp only [Nat.add_sub_cancel] at h1 h2
  simp only [if_neg (show ¬ bitSize Fl > 8 by omega), if_neg (show ¬ S = 0 by omega)]
  by_cases hshort : s.inp.length < S
  · rw [if_pos hshort, M_bind_err (SerBuf.readExactUpTo_short n S s h1 h2 hshort)]
  rw [if_neg hshort]
  by_cases hc : S = 8 * (n + 1) + 1
  · -- the flags live in the extra byte
    subst hc
    obtain ⟨first, hf2, hf3, hf4, hrd⟩ := SerBuf.readExactUpTo_ok_extra n s (by omega)
    have e1 : 8 * (n + 1) + 1 - 1 = 8 * (n + 1) := by omega
    have e2 : decide (8 * (n + 1) + 1 > (n + 1) * 8) = true := by simp_omega
    have e3 : (8 * (n + 1) + 1 > (n + 1) * 8) := by omega
    have hll : (List.take 8 (List.drop (8 * n) s.inp)).length = 8 := by
      simp only [List.length_take, List.length_drop]; omega
    rw [M_bind_ok hrd]
    simp only [e1, SerBuf.get_last, SerBuf.set_last, liftO, M_pure_bind, fromU8RemoveFlags]
    cases hfl : Flags.fromU8 (Fl := Fl) (s.inp.getD (8 * (n + 1)) 0) with
    | none => simp only [Option.map, throwE]
    | some fl =>
      simp only [Option.map, SerBuf.set_last, SerBuf.get_last, liftO, M_pure_bind, e2, Bool.true_and, e3, true_and]
      generalize (s.inp.getD (8 * (n + 1)) 0 &&& 255 - Flags.u8Bitmask fl % 256) = v'
      by_cases hz : v' = 0
      · subst hz
        simp only [bne_self_eq_false, Bool.false_eq_true, if_false, ne_eq, not_true_eq_false]
        rw [SerBuf.toBigint_eq _ _ _ hf3 hll, hf4,
          ← List.take_add, show 8 * n + 8 = 8 * (n + 1) by omega, Nat.mul_zero, Nat.add_zero]
        cases fromBigint ⟨p, n + 1⟩ (leVal (List.take (8 * (n + 1)) s.inp)) <;> rfl
      · have e4 : (v' != 0) = true := by simpa using hz
        simp only [e4, if_true, M_throw_bind, ne_eq, hz, not_false_eq_true]
        rfl
  · -- the flags live in the last limb
    have h2' : S ≤ 8 * (n + 1) := by omega
    obtain ⟨first, hf2, hf3, hf4, hrd⟩ := SerBuf.readExactUpTo_ok_lt n S s h1 h2' (by omega)
    obtain ⟨j, hj, hj8⟩ : ∃ j, S = 8 * n + j + 1 ∧ j < 8 := ⟨S - 1 - 8 * n, by omega, by omega⟩
    subst hj
    have e1 : 8 * n + j + 1 - 1 = 8 * (n + 1 - 1) + j := by simp
    have e2 : decide (8 * n + j + 1 > (n + 1) * 8) = false := by simp_omega
    have e3 : ¬ (8 * n + j + 1 > (n + 1) * 8) := by omega
    have e5 : 8 * n + j + 1 - 8 * n = j + 1 := by omega
    have hP : (List.take j (List.drop (8 * n) s.inp)).length = j := by
      simp only [List.length_take, List.length_drop]; omega
    rw [e5, take_succ_getD _ _ (by simp only [List.length_drop]; omega), getD_drop] at hrd
    have hi : first.length = n + 1 - 1 := by simpa using hf2
    rw [M_bind_ok hrd]
    generalize hPd : List.take j (List.drop (8 * n) s.inp) = P at *
    generalize hZd : List.replicate (8 - (j + 1)) 0 = Z at *
    have hZ : Z.length = 7 - j := by rw [← hZd, List.length_replicate]; omega
    have hZ0 : leVal Z = 0 := by rw [← hZd]; exact leVal_replicate_zero _
    have hget : ∀ w lst, SerBuf.get (n + 1) ⟨first ++ [P ++ [w] ++ Z], lst⟩ (8 * (n + 1 - 1) + j) = .ok w := by
      intro w lst
      rw [SerBuf.get_ll _ _ _ _ _ (by omega) hi (by simp_omega) hj8]
      rw [← hP, getD_mid]
    have hset : ∀ w w' lst, SerBuf.set (n + 1) ⟨first ++ [P ++ [w] ++ Z], lst⟩ (8 * (n + 1 - 1) + j) w' =
        .ok ⟨first ++ [P ++ [w'] ++ Z], lst⟩ := by
      intro w w' lst
      rw [SerBuf.set_ll _ _ _ _ _ _ (by omega) hi hj8]
      rw [← hP, set_mid]
    simp only [e1, hget, hset, liftO, M_pure_bind, fromU8RemoveFlags]
    rw [show 8 * (n + 1 - 1) + j = 8 * n + j by simp]
    cases hfl : Flags.fromU8 (Fl := Fl) (s.inp.getD (8 * n + j) 0) with
    | none => simp only [Option.map, throwE]
    | some fl =>
      simp only [Option.map, hget, hset, liftO, M_pure_bind, e2, Bool.false_and, e3, false_and,
        Bool.false_eq_true, if_false]
      generalize (s.inp.getD (8 * n + j) 0 &&& 255 - Flags.u8Bitmask fl % 256) = v'
      rw [SerBuf.toBigint_eq _ _ _ hf3 (by simp_omega), hf4]
      have e6 : leVal (List.take (8 * n) s.inp ++ (P ++ [v'] ++ Z)) =
          leVal (List.take (8 * n + j) s.inp) + 256 ^ (8 * n + j) * v' := by
        rw [← List.append_assoc, ← List.append_assoc, leVal_append, leVal_append, hZ0, ← hPd,
          ← List.take_add]
        simp only [leVal, List.length_take, Nat.mul_zero, Nat.add_zero]
        rw [Nat.min_eq_left (by omega)]
      rw [e6]
      cases fromBigint ⟨p, n + 1⟩ (leVal (List.take (8 * n + j) s.inp) + 256 ^ (8 * n + j) * v') <;> rfl

theorem byte_rt (k m o : Nat) (hk : k ≤ 8) (hm : m < 256) (hm0 : m % 2 ^ k = 0) (ho : o < 2 ^ k) :
    (o ||| m) &&& (255 - m) = o := by
  apply Nat.eq_of_testBit_eq; intro i
  have e : 255 - m = 2 ^ 8 - (m + 1) := by omega
  rw [Nat.testBit_and, Nat.testBit_or, e, Nat.testBit_two_pow_sub_succ (by omega)]
  have h1 : (m % 2 ^ k).testBit i = false := by rw [hm0]; simp
  rw [Nat.testBit_mod_two_pow] at h1
  by_cases hik : i < k
  · simp only [hik, decide_true, Bool.true_and] at h1
    have : i < 8 := by omega
    simp [h1, this]
  · have : o.testBit i = false :=
      Nat.testBit_lt_two_pow (Nat.lt_of_lt_of_le ho (Nat.pow_le_pow_right (by decide) (by omega)))
    simp only [this, Bool.false_or]
    cases m.testBit i <;> simp

theorem byte_uniq (v m : Nat) (hv : v < 256) (hm : m < 256) (h : v ||| m = v) :
    (v &&& (255 - m)) ||| m = v := by
  apply Nat.eq_of_testBit_eq; intro i
  have e : 255 - m = 2 ^ 8 - (m + 1) := by omega
  have hi := congrArg (fun x => x.testBit i) h
  simp only [Nat.testBit_or] at hi
  rw [Nat.testBit_or, Nat.testBit_and, e, Nat.testBit_two_pow_sub_succ (by omega)]
  cases hmi : m.testBit i with
  | true => rw [hmi] at hi; simp at hi; simp [hi]
  | false =>
    cases hvi : v.testBit i with
    | false => simp
    | true =>
      have : i < 8 := by
        by_contra hge
        have := Nat.testBit_lt_two_pow (x := v) (i := i)
          (Nat.lt_of_lt_of_le hv (Nat.pow_le_pow_right (by decide) (by omega) : 2 ^ 8 ≤ 2 ^ i))
        rw [this] at hvi; cases hvi
      simp [this]

theorem byte_top_sub (k v : Nat) (hv : v < 256) : v ||| (v / 2 ^ k * 2 ^ k % 256) = v := by
  have hle : v / 2 ^ k * 2 ^ k ≤ v := Nat.div_mul_le_self _ _
  rw [Nat.mod_eq_of_lt (by omega)]
  apply Nat.eq_of_testBit_eq; intro i
  rw [Nat.testBit_or, Nat.testBit_mul_two_pow, Nat.testBit_div_two_pow]
  by_cases hik : k ≤ i
  · simp [hik, Nat.sub_add_cancel hik]
  · simp [hik]

/-! ## Flag types -/

/-- a flag type that fits the top `BIT_SIZE ≤ 8` bits of a byte: the masks live there, a byte whose
    top bits are a mask decodes to that flag, and `from_u8` only looks at the top bits -/
structure FlagsOK (Fl : Type) [Flags Fl] : Prop where
  bits_le : bitSize Fl ≤ 8
  mask_lt : ∀ fl : Fl, Flags.u8Bitmask fl < 256
  mask_top : ∀ fl : Fl, Flags.u8Bitmask fl % 2 ^ (8 - bitSize Fl) = 0
  from_or : ∀ (fl : Fl) (low : Nat), low < 2 ^ (8 - bitSize Fl) →
    Flags.fromU8 (Flags.u8Bitmask fl ||| low) = some fl
  from_top : ∀ (v : Nat) (fl : Fl), v < 256 → Flags.fromU8 v = some fl →
    Flags.u8Bitmask fl = v / 2 ^ (8 - bitSize Fl) * 2 ^ (8 - bitSize Fl)

/-- the part of `FlagsOK` that uniqueness needs: the mask of a decoded flag is contained in the byte -/
def FlagsSub (Fl : Type) [Flags Fl] : Prop :=
  ∀ (v : Nat) (fl : Fl), v < 256 → Flags.fromU8 v = some fl → v ||| (Flags.u8Bitmask fl % 256) = v

theorem FlagsOK.sub {Fl : Type} [Flags Fl] (h : FlagsOK Fl) : FlagsSub Fl := by
  intro v fl hv hfl
  rw [h.from_top v fl hv hfl]
  exact byte_top_sub _ v hv

theorem shiftRight_and_one (v i : Nat) : (v >>> i) &&& 1 = v / 2 ^ i % 2 := by
  rw [Nat.shiftRight_eq_div_pow, Nat.and_one_is_mod]

theorem emptyFlagsOK : FlagsOK EmptyFlags where
  bits_le := by decide
  mask_lt := by intro fl; show 0 < 256; decide
  mask_top := by intro fl; rfl
  from_or := by intro fl low _; cases fl; rfl
  from_top := by
    intro v fl hv _
    show 0 = v / 2 ^ (8 - 0) * 2 ^ (8 - 0)
    rw [Nat.div_eq_of_lt (by simpa using hv), Nat.zero_mul]

theorem or_low_div (m low k : Nat) (hl : low < 2 ^ k) : (m ||| low) / 2 ^ k = m / 2 ^ k := by
  apply Nat.eq_of_testBit_eq; intro i
  rw [Nat.testBit_div_two_pow, Nat.testBit_div_two_pow, Nat.testBit_or]
  have : low.testBit (i + k) = false :=
    Nat.testBit_lt_two_pow (Nat.lt_of_lt_of_le hl (Nat.pow_le_pow_right (by decide) (by omega)))
  simp [this]

theorem swFlags_fromU8 (v : Nat) : Flags.fromU8 (Fl := SWFlags) v =
    (match v / 64 % 4 with
      | 0 => some .yIsPositive | 1 => some .pointAtInfinity | 2 => some .yIsNegative | _ => none) := by
  show (match (v >>> 7) &&& 1 == 1, (v >>> 6) &&& 1 == 1 with
    | true, true => none
    | false, true => some SWFlags.pointAtInfinity
    | true, false => some SWFlags.yIsNegative
    | false, false => some SWFlags.yIsPositive) = _
  rw [shiftRight_and_one, shiftRight_and_one]
  have h4 : v / 64 % 4 < 4 := Nat.mod_lt _ (by decide)
  have e7 : v / 2 ^ 7 % 2 = v / 64 % 4 / 2 := by omega
  have e6 : v / 2 ^ 6 % 2 = v / 64 % 4 % 2 := by omega
  rw [e7, e6]
  generalize v / 64 % 4 = q at *
  match q, h4 with
  | 0, _ => rfl
  | 1, _ => rfl
  | 2, _ => rfl
  | 3, _ => rfl

theorem swFlagsOK : FlagsOK SWFlags where
  bits_le := by decide
  mask_lt := by intro fl; cases fl <;> decide
  mask_top := by intro fl; cases fl <;> decide
  from_or := by
    intro fl low hl
    have hl' : low < 2 ^ 6 := hl
    rw [swFlags_fromU8, show (64 : Nat) = 2 ^ 6 by rfl, or_low_div _ _ 6 hl']
    cases fl <;> rfl
  from_top := by
    intro v fl hv hfl
    rw [swFlags_fromU8] at hfl
    show _ = v / 2 ^ 6 * 2 ^ 6
    have e : v / 64 % 4 = v / 64 := Nat.mod_eq_of_lt (by omega)
    rw [e] at hfl
    have h4 : v / 64 < 4 := by omega
    rw [show (2:Nat) ^ 6 = 64 by rfl]
    generalize v / 64 = q at *
    match q, h4 with
    | 0, _ => cases hfl; rfl
    | 1, _ => cases hfl; rfl
    | 2, _ => cases hfl; rfl
    | 3, _ => cases hfl

theorem teFlags_fromU8 (v : Nat) : Flags.fromU8 (Fl := TEFlags) v =
    if v / 128 % 2 = 1 then some .xIsNegative else some .xIsPositive := by
  show (if (v >>> 7) &&& 1 == 1 then some TEFlags.xIsNegative else some TEFlags.xIsPositive) = _
  rw [shiftRight_and_one]
  simp

theorem teFlagsOK : FlagsOK TEFlags where
  bits_le := by decide
  mask_lt := by intro fl; cases fl <;> decide
  mask_top := by intro fl; cases fl <;> decide
  from_or := by
    intro fl low hl
    have hl' : low < 2 ^ 7 := hl
    rw [teFlags_fromU8, show (128 : Nat) = 2 ^ 7 by rfl, or_low_div _ _ 7 hl']
    cases fl <;> rfl
  from_top := by
    intro v fl hv hfl
    rw [teFlags_fromU8] at hfl
    show _ = v / 2 ^ 7 * 2 ^ 7
    rw [show (2:Nat) ^ 7 = 128 by rfl]
    have h2 : v / 128 < 2 := by omega
    rw [Nat.mod_eq_of_lt h2] at hfl
    generalize v / 128 = q at *
    match q, h2 with
    | 0, _ => simp at hfl; cases hfl; rfl
    | 1, _ => simp at hfl; cases hfl; rfl

/-! ## `Fp`: size, round trip, uniqueness -/

theorem fpSer_notenough (c : FpCfg) (Fl : Type) [Flags Fl] (hf : ¬ bitSize Fl ≤ 8) (x : Fp c.p) (fl : Fl) :
    fpSerFlags c Fl x fl = .err .notenough := by
  unfold fpSerFlags; rw [if_pos (by omega)]

theorem fpSer_bits_le {c : FpCfg} {Fl : Type} [Flags Fl] {x : Fp c.p} {fl : Fl} {bs : List Nat}
    (hs : fpSerFlags c Fl x fl = .ok bs) : bitSize Fl ≤ 8 := by
  by_contra hf
  rw [fpSer_notenough c Fl hf] at hs; cases hs

theorem fpSer_size {c : FpCfg} (h : WFc c) {Fl : Type} [Flags Fl] {x : Fp c.p} {fl : Fl} {bs : List Nat}
    (hs : fpSerFlags c Fl x fl = .ok bs) : bs.length = fpSizeFlags c Fl := by
  have hf := fpSer_bits_le hs
  rw [fpSer_char h Fl hf] at hs
  cases hs
  have := (h.size_range Fl hf).1
  first | (simp [toB_length]; done) | (simp [toB_length]; omega)

/-- for a reduced value the byte receiving the flags is the top part of the integer, below `2^(8-f)` -/
theorem serOld_reduced {c : FpCfg} (h : WFc c) (Fl : Type) [Flags Fl] (hf : bitSize Fl ≤ 8) (x : Nat)
    (hx : x < c.p) :
    serOld c Fl x = x / 256 ^ (fpSizeFlags c Fl - 1) ∧ serOld c Fl x < 2 ^ (8 - bitSize Fl) := by
  obtain ⟨h1, h2⟩ := h.size_range Fl hf
  have hlt := top_byte_lt c Fl hf x (Nat.lt_trans hx h.p_lt_bits) (by omega)
  have h256 : (2 : Nat) ^ (8 - bitSize Fl) ≤ 256 :=
    Nat.le_trans (Nat.pow_le_pow_right (by decide) (Nat.sub_le _ _)) (by decide)
  have e : serOld c Fl x = x / 256 ^ (fpSizeFlags c Fl - 1) := by
    unfold serOld
    split
    · next hS =>
      rw [hS, Nat.add_sub_cancel]
      symm; apply Nat.div_eq_of_lt
      rw [show (256 : Nat) = 2 ^ 8 by rfl, ← Nat.pow_mul, show 8 * (8 * c.N) = 64 * c.N by omega]
      exact Nat.lt_trans hx h.p_lt
    · exact Nat.mod_eq_of_lt (by omega)
  exact ⟨e, e ▸ hlt⟩

theorem fromBigint_reduced (c : FpCfg) (x : Fp c.p) (hx : x.val < c.p) : fromBigint c x.val = some x := by
  unfold fromBigint
  obtain ⟨v⟩ := x
  by_cases h0 : v = 0
  · subst h0; rfl
  · have hx' : v < c.p := hx
    rw [if_neg h0, if_neg (by omega)]

theorem fromBigint_some {c : FpCfg} (hp : 0 < c.p) {n : Nat} {x : Fp c.p} (h : fromBigint c n = some x) :
    x.val = n ∧ n < c.p := by
  unfold fromBigint at h
  by_cases h0 : n = 0
  · rw [if_pos h0] at h; cases h; exact ⟨h0.symm, by omega⟩
  · rw [if_neg h0] at h
    by_cases hge : n ≥ c.p
    · rw [if_pos hge] at h; cases h
    · rw [if_neg hge] at h; cases h; exact ⟨rfl, by omega⟩

/-- round trip on an arbitrary reader state -/
theorem fpRT {c : FpCfg} (h : WFc c) {Fl : Type} [Flags Fl] (hF : FlagsOK Fl) (x : Fp c.p)
    (hx : x.val < c.p) (fl : Fl) (bs : List Nat) (hs : fpSerFlags c Fl x fl = .ok bs) (t : List Nat) (u : Nat) :
    fpDeFlags c Fl ⟨bs ++ t, u⟩ = .ok (x, fl) ⟨t, u + bs.length⟩ := by
  have hf := hF.bits_le
  obtain ⟨h1, h2⟩ := h.size_range Fl hf
  have hlen := fpSer_size h hs
  rw [fpSer_char h Fl hf] at hs
  obtain ⟨ho1, ho2⟩ := serOld_reduced h Fl hf x.val hx
  cases hs
  rw [fpDe_char h Fl hf, fpDeSpec]
  generalize hS : fpSizeFlags c Fl = S at *
  generalize hO : serOld c Fl x.val = o at *
  have hpre : (toB (S - 1) x.val).length = S - 1 := toB_length _ _
  have hm : Flags.u8Bitmask fl % 256 = Flags.u8Bitmask fl := Nat.mod_eq_of_lt (hF.mask_lt fl)
  have hv : (toB (S - 1) x.val ++ [o ||| Flags.u8Bitmask fl % 256] ++ t).getD (S - 1) 0 =
      o ||| Flags.u8Bitmask fl := by
    have := getD_mid (toB (S - 1) x.val) t (o ||| Flags.u8Bitmask fl % 256)
    rw [hpre, hm] at this; rw [hm]; exact this
  have htake : (toB (S - 1) x.val ++ [o ||| Flags.u8Bitmask fl % 256] ++ t).take (S - 1) = toB (S - 1) x.val := by
    rw [List.append_assoc, List.take_left' hpre]
  have hdrop : (toB (S - 1) x.val ++ [o ||| Flags.u8Bitmask fl % 256] ++ t).drop S = t := by
    rw [List.drop_left' (by first | (simp [hpre]; done) | (simp [hpre]; omega))]
  simp only
  rw [if_neg (by first | (simp [hpre]; done) | (simp [hpre]; omega)), hv, htake, hdrop, Nat.or_comm, hF.from_or fl o ho2]
  simp only
  rw [Nat.or_comm, hm, byte_rt (8 - bitSize Fl) _ o (Nat.sub_le _ _) (hF.mask_lt fl) (hF.mask_top fl) ho2]
  have ho0 : S > c.N * 8 → o = 0 := by
    intro hgt
    have : S = 8 * c.N + 1 := by omega
    rw [← hO]; unfold serOld; rw [if_pos (by omega)]
  rw [if_neg (by intro ⟨a, b⟩; exact b (ho0 a))]
  rw [leVal_toB, ho1, Nat.mod_add_div, fromBigint_reduced c x hx]
  simp only [List.length_append, toB_length, List.length_cons, List.length_nil]
  rw [show S - 1 + (0 + 1) = S by omega]

/-- inversion of a successful `deserialize_with_flags` -/
theorem fpDe_ok_inv {c : FpCfg} (h : WFc c) {Fl : Type} [Flags Fl] (hf : bitSize Fl ≤ 8) {s s' : Rd}
    {x : Fp c.p} {fl : Fl} (hd : fpDeFlags c Fl s = .ok (x, fl) s') :
    fpSizeFlags c Fl ≤ s.inp.length ∧ s' = ⟨s.inp.drop (fpSizeFlags c Fl), s.used + fpSizeFlags c Fl⟩ ∧
    Flags.fromU8 (s.inp.getD (fpSizeFlags c Fl - 1) 0) = some fl ∧
    (fpSizeFlags c Fl > c.N * 8 →
      s.inp.getD (fpSizeFlags c Fl - 1) 0 &&& (255 - Flags.u8Bitmask fl % 256) = 0) ∧
    x.val = leVal (s.inp.take (fpSizeFlags c Fl - 1)) + 256 ^ (fpSizeFlags c Fl - 1) *
      (s.inp.getD (fpSizeFlags c Fl - 1) 0 &&& (255 - Flags.u8Bitmask fl % 256)) ∧
    x.val < c.p := by
  rw [fpDe_char h Fl hf, fpDeSpec] at hd
  generalize fpSizeFlags c Fl = S at *
  simp only at hd
  by_cases hshort : s.inp.length < S
  · rw [if_pos hshort] at hd; cases hd
  rw [if_neg hshort] at hd
  cases hfl : Flags.fromU8 (Fl := Fl) (s.inp.getD (S - 1) 0) with
  | none => rw [hfl] at hd; cases hd
  | some fl' =>
    rw [hfl] at hd
    simp only at hd
    by_cases hchk : S > c.N * 8 ∧ s.inp.getD (S - 1) 0 &&& 255 - Flags.u8Bitmask fl' % 256 ≠ 0
    · rw [if_pos hchk] at hd; cases hd
    rw [if_neg hchk] at hd
    cases hfb : fromBigint c (leVal (List.take (S - 1) s.inp) +
        256 ^ (S - 1) * (s.inp.getD (S - 1) 0 &&& 255 - Flags.u8Bitmask fl' % 256)) with
    | none => rw [hfb] at hd; cases hd
    | some x' =>
      rw [hfb] at hd
      simp only [R.ok.injEq, Prod.mk.injEq] at hd
      obtain ⟨⟨rfl, rfl⟩, rfl⟩ := hd
      obtain ⟨e1, e2⟩ := fromBigint_some h.p_pos hfb
      refine ⟨by omega, rfl, rfl, ?_, e1, e1 ▸ e2⟩
      intro hgt
      by_contra hne
      exact hchk ⟨hgt, hne⟩

/-- the value returned by a successful deserialisation is reduced -/
theorem fpDe_ok_lt {c : FpCfg} (h : WFc c) {Fl : Type} [Flags Fl] {s s' : Rd}
    {x : Fp c.p} {fl : Fl} (hd : fpDeFlags c Fl s = .ok (x, fl) s') : x.val < c.p := by
  by_cases hf : bitSize Fl ≤ 8
  · exact (fpDe_ok_inv h hf hd).2.2.2.2.2
  · unfold fpDeFlags at hd
    simp only [if_pos (show bitSize Fl > 8 by omega), M_throw_bind] at hd
    cases hd

/-- uniqueness on an arbitrary reader state: an accepted byte string is the serialisation of the result -/
theorem fpUniq {c : FpCfg} (h : WFc c) {Fl : Type} [Flags Fl] (hf : bitSize Fl ≤ 8) (hsub : FlagsSub Fl)
    {s s' : Rd} (hb : ∀ b ∈ s.inp, b < 256) {x : Fp c.p} {fl : Fl}
    (hd : fpDeFlags c Fl s = .ok (x, fl) s') :
    fpSerFlags c Fl x fl = .ok (s.inp.take (fpSizeFlags c Fl)) := by
  obtain ⟨h1, h2⟩ := h.size_range Fl hf
  obtain ⟨hlen, -, hfl, hchk, hx, hlt⟩ := fpDe_ok_inv h hf hd
  rw [fpSer_char h Fl hf]
  unfold serOld
  generalize hS : fpSizeFlags c Fl = S at *
  have hv : s.inp.getD (S - 1) 0 < 256 := by
    have hlt : S - 1 < s.inp.length := by omega
    simp only [List.getD, List.getElem?_eq_getElem hlt, Option.getD_some]
    exact hb _ (List.getElem_mem _)
  have hm : Flags.u8Bitmask fl % 256 < 256 := Nat.mod_lt _ (by decide)
  have hpre : ∀ b ∈ s.inp.take (S - 1), b < 256 := fun b hb' => hb b (List.mem_of_mem_take hb')
  have hpl : (s.inp.take (S - 1)).length = S - 1 := by rw [List.length_take]; omega
  have hv' : s.inp.getD (S - 1) 0 &&& 255 - Flags.u8Bitmask fl % 256 < 256 :=
    Nat.lt_of_le_of_lt Nat.and_le_right (by omega)
  generalize hv'd : s.inp.getD (S - 1) 0 &&& 255 - Flags.u8Bitmask fl % 256 = v' at *
  have hold : (if S = 8 * c.N + 1 then 0 else x.val / 256 ^ (S - 1) % 256) = v' := by
    split
    · next hS' => exact (hchk (by omega)).symm
    · rw [hx, Nat.add_mul_div_left _ _ (Nat.pow_pos (by decide)),
        Nat.div_eq_of_lt (by have := leVal_lt _ hpre; rwa [hpl] at this), Nat.zero_add,
        Nat.mod_eq_of_lt hv']
  have hpre' : toB (S - 1) x.val = s.inp.take (S - 1) := by
    have := toB_leVal_add _ hpre v'
    rw [hpl] at this; rw [hx]; exact this
  rw [hold, hpre', ← hv'd, byte_uniq _ _ hv hm (hsub _ fl hv hfl)]
  have : S = (S - 1) + 1 := by omega
  rw [this, take_succ_getD _ _ (by omega), ← this]

/-! ## Consumption discipline of readers -/

/-- `m` never panics, reads exactly `k` bytes when it succeeds and at most `k` (and never more than
    the input holds) when it fails -/
structure Reads {α : Type} (m : M α) (k : Nat) : Prop where
  no_panic : ∀ s, m s ≠ .panic
  ok_used : ∀ s a s', m s = .ok a s' → k ≤ s.inp.length ∧ s' = ⟨s.inp.drop k, s.used + k⟩
  err_used : ∀ s e s', m s = .err e s' →
    s.used ≤ s'.used ∧ s'.used ≤ s.used + k ∧ s'.used ≤ s.used + s.inp.length

theorem Reads.short {α : Type} {m : M α} {k : Nat} (h : Reads m k) (s : Rd) (hs : s.inp.length < k) :
    ∃ e s', m s = .err e s' := by
  cases hm : m s with
  | ok a s' => have := (h.ok_used s a s' hm).1; omega
  | err e s' => exact ⟨e, s', rfl⟩
  | panic => exact absurd hm (h.no_panic s)

theorem Reads.pure {α : Type} (a : α) : Reads (pure a : M α) 0 where
  no_panic := by intro s hm; cases hm
  ok_used := by
    intro s a' s' hm
    cases hm
    exact ⟨Nat.zero_le _, rfl⟩
  err_used := by intro s e s' hm; cases hm

theorem Reads.throw {α : Type} (e : Err) (k : Nat) : Reads (throwE e : M α) k where
  no_panic := by intro s hm; cases hm
  ok_used := by intro s a s' hm; cases hm
  err_used := by
    intro s e' s' hm
    cases hm
    exact ⟨Nat.le_refl _, Nat.le_add_right _ _, Nat.le_add_right _ _⟩

theorem Reads.bind {α β : Type} {m : M α} {f : α → M β} {k k' : Nat} (hm : Reads m k)
    (hf : ∀ a, Reads (f a) k') : Reads (m >>= f) (k + k') where
  no_panic := by
    intro s hp
    rw [M_bind_apply] at hp
    cases h1 : m s with
    | ok a s1 => rw [h1] at hp; exact (hf a).no_panic s1 hp
    | err e s1 => rw [h1] at hp; cases hp
    | panic => exact hm.no_panic s h1
  ok_used := by
    intro s b s' hp
    rw [M_bind_apply] at hp
    cases h1 : m s with
    | ok a s1 =>
      rw [h1] at hp
      obtain ⟨h2, rfl⟩ := hm.ok_used s a s1 h1
      obtain ⟨h3, rfl⟩ := (hf a).ok_used _ b s' hp
      simp only [List.length_drop] at h3
      refine ⟨by omega, ?_⟩
      simp only [List.drop_drop, Nat.add_assoc]
    | err e s1 => rw [h1] at hp; cases hp
    | panic => rw [h1] at hp; cases hp
  err_used := by
    intro s e s' hp
    rw [M_bind_apply] at hp
    cases h1 : m s with
    | ok a s1 =>
      rw [h1] at hp
      obtain ⟨h2, rfl⟩ := hm.ok_used s a s1 h1
      obtain ⟨h3, h4, h5⟩ := (hf a).err_used _ e s' hp
      simp only [List.length_drop] at h3 h4 h5
      exact ⟨by omega, by omega, by omega⟩
    | err e1 s1 =>
      rw [h1] at hp; cases hp
      obtain ⟨h3, h4, h5⟩ := hm.err_used s e s' h1
      exact ⟨h3, by omega, h5⟩
    | panic => rw [h1] at hp; cases hp

theorem Reads.bind0 {α β : Type} {m : M α} {f : α → M β} {k : Nat} (hm : Reads m k)
    (hf : ∀ a, Reads (f a) 0) : Reads (m >>= f) k := by
  have := Reads.bind hm hf; rwa [Nat.add_zero] at this

theorem Reads.congr {α : Type} {m : M α} {k k' : Nat} (h : Reads m k) (e : k = k') : Reads m k' := e ▸ h

/-- `deserialize_with_flags` of `Fp`: for every flag type (a flag type wider than 8 bits is refused
    before anything is read) -/
theorem fpDeFlags_reads {c : FpCfg} (h : WFc c) (Fl : Type) [Flags Fl] :
    Reads (fpDeFlags c Fl) (fpSizeFlags c Fl) := by
  by_cases hf : bitSize Fl ≤ 8
  · have hspec : ∀ s, fpDeFlags c Fl s = fpDeSpec c Fl s := fpDe_char h Fl hf
    refine ⟨?_, ?_, ?_⟩
    · intro s hp
      rw [hspec, fpDeSpec] at hp
      simp only at hp
      split at hp
      · cases hp
      · split at hp
        · cases hp
        · split at hp
          · cases hp
          · split at hp <;> cases hp
    · intro s ⟨x, fl⟩ s' hd
      have := fpDe_ok_inv h hf hd
      exact ⟨this.1, this.2.1⟩
    · intro s e s' hp
      rw [hspec, fpDeSpec] at hp
      simp only at hp
      have hgen : ∀ (S : Nat) (s' : Rd), ¬ s.inp.length < S → s' = ⟨s.inp.drop S, s.used + S⟩ →
          s.used ≤ s'.used ∧ s'.used ≤ s.used + S ∧ s'.used ≤ s.used + s.inp.length := by
        intro S s' h1 h2; subst h2; simp only; omega
      split at hp
      · next hlt => cases hp; simp only; omega
      · next hlt =>
        split at hp
        · cases hp; exact hgen _ _ hlt rfl
        · split at hp
          · cases hp; exact hgen _ _ hlt rfl
          · split at hp <;> cases hp
            exact hgen _ _ hlt rfl
  · have e : fpDeFlags c Fl = throwE .notenough := by
      unfold fpDeFlags
      simp only [if_pos (show bitSize Fl > 8 by omega), M_throw_bind]
    rw [e]; exact Reads.throw _ _

/-- a short input is an `IoError` (for a flag type of at most 8 bits) -/
theorem fpDeFlags_short {c : FpCfg} (h : WFc c) (Fl : Type) [Flags Fl] (hf : bitSize Fl ≤ 8) (s : Rd)
    (hs : s.inp.length < fpSizeFlags c Fl) :
    fpDeFlags c Fl s = .err .io ⟨[], s.used + s.inp.length⟩ := by
  rw [fpDe_char h Fl hf, fpDeSpec]
  simp only
  rw [if_pos hs]

theorem fpDe_reads {c : FpCfg} (h : WFc c) (cm : Compress) (vd : Validate) :
    Reads (fpDe c cm vd) (fpSizeFlags c EmptyFlags) := by
  unfold fpDe
  exact Reads.bind0 (fpDeFlags_reads h EmptyFlags) (fun ⟨r, _⟩ => Reads.pure r)

/-! ## Extension towers -/

theorem Res_bind_ok_inv {α β : Type} {m : Res α} {k : α → Res β} {b : β} (h : (m >>= k) = .ok b) :
    ∃ a, m = .ok a ∧ k a = .ok b := by
  cases m with
  | ok a => exact ⟨a, rfl, h⟩
  | err e => cases h
  | panic => cases h

theorem Res_bind_ok {α β : Type} (a : α) (k : α → Res β) : ((Res.ok a : Res α) >>= k) = k a := rfl
theorem Res_pure {α : Type} (a : α) : (pure a : Res α) = .ok a := rfl

/-- the value is an element of the tower `t` (Rust: guaranteed by the type) -/
def ExtV.hasShape {p : Nat} : ExtV p → Tower → Prop
  | .base _, .base => True
  | .quad a b, .quad t => a.hasShape t ∧ b.hasShape t
  | .cubic a b d, .cubic t => a.hasShape t ∧ b.hasShape t ∧ d.hasShape t
  | _, _ => False

/-- the tower a value belongs to, read off its first coordinates -/
def ExtV.shape {p : Nat} : ExtV p → Tower
  | .base _ => .base
  | .quad a _ => .quad a.shape
  | .cubic a _ _ => .cubic a.shape

/-- every prime-field coefficient is reduced -/
def ExtV.reduced {p : Nat} : ExtV p → Prop
  | .base x => x.val < p
  | .quad a b => a.reduced ∧ b.reduced
  | .cubic a b d => a.reduced ∧ b.reduced ∧ d.reduced

theorem ExtV.shape_of_hasShape {p : Nat} {v : ExtV p} {t : Tower} (h : v.hasShape t) : v.shape = t := by
  induction t generalizing v with
  | base => cases v <;> simp [ExtV.hasShape] at h; rfl
  | quad t ih => cases v <;> simp [ExtV.hasShape] at h; simp [ExtV.shape, ih h.1]
  | cubic t ih => cases v <;> simp [ExtV.hasShape] at h; simp [ExtV.shape, ih h.1]

theorem extSer_size {c : FpCfg} (h : WFc c) (t : Tower) : ∀ (Fl : Type) [Flags Fl] (v : ExtV c.p) (fl : Fl)
    (bs : List Nat), v.hasShape t → extSerFlags c Fl v fl = .ok bs → bs.length = extSizeFlags c Fl t := by
  induction t with
  | base =>
    intro Fl _ v fl bs hv hs
    cases v <;> simp only [ExtV.hasShape] at hv
    simp only [extSerFlags] at hs
    exact fpSer_size h hs
  | quad t ih =>
    intro Fl _ v fl bs hv hs
    cases v <;> simp only [ExtV.hasShape] at hv
    simp only [extSerFlags] at hs
    obtain ⟨a, ha, hs⟩ := Res_bind_ok_inv hs
    obtain ⟨b, hb, hs⟩ := Res_bind_ok_inv hs
    cases hs
    simp only [List.length_append, extSizeFlags, ih _ _ _ _ hv.1 ha, ih _ _ _ _ hv.2 hb]
  | cubic t ih =>
    intro Fl _ v fl bs hv hs
    cases v <;> simp only [ExtV.hasShape] at hv
    simp only [extSerFlags] at hs
    obtain ⟨a, ha, hs⟩ := Res_bind_ok_inv hs
    obtain ⟨b, hb, hs⟩ := Res_bind_ok_inv hs
    obtain ⟨d, hd, hs⟩ := Res_bind_ok_inv hs
    cases hs
    simp only [List.length_append, extSizeFlags, ih _ _ _ _ hv.1 ha, ih _ _ _ _ hv.2.1 hb,
      ih _ _ _ _ hv.2.2 hd]

theorem extDe_reads {c : FpCfg} (h : WFc c) (t : Tower) (cm : Compress) (vd : Validate) :
    Reads (extDe c t cm vd) (extSizeFlags c EmptyFlags t) := by
  induction t with
  | base =>
    simp only [extDe, extSizeFlags]
    exact Reads.bind0 (fpDe_reads h cm vd) (fun x => Reads.pure _)
  | quad t ih =>
    simp only [extDe, extSizeFlags]
    exact Reads.bind ih (fun c0 => Reads.bind0 ih (fun c1 => Reads.pure _))
  | cubic t ih =>
    simp only [extDe, extSizeFlags]
    refine Reads.congr (Reads.bind ih (fun c0 => Reads.bind ih (fun c1 => Reads.bind0 ih (fun c2 => Reads.pure _)))) ?_
    omega

theorem extDeFlags_reads {c : FpCfg} (h : WFc c) (Fl : Type) [Flags Fl] (t : Tower) :
    Reads (extDeFlags c Fl t) (extSizeFlags c Fl t) := by
  induction t with
  | base =>
    simp only [extDeFlags, extSizeFlags]
    exact Reads.bind0 (fpDeFlags_reads h Fl) (fun ⟨x, fl⟩ => Reads.pure _)
  | quad t ih =>
    simp only [extDeFlags, extSizeFlags]
    exact Reads.bind (extDe_reads h t .yes .yes) (fun c0 => Reads.bind0 ih (fun ⟨c1, fl⟩ => Reads.pure _))
  | cubic t ih =>
    simp only [extDeFlags, extSizeFlags]
    refine Reads.congr (Reads.bind (extDe_reads h t .yes .yes) (fun c0 =>
      Reads.bind (extDe_reads h t .yes .yes) (fun c1 => Reads.bind0 ih (fun ⟨c2, fl⟩ => Reads.pure _)))) ?_
    omega

theorem M_bind_ok_inv {α β : Type} {m : M α} {k : α → M β} {s s' : Rd} {b : β}
    (h : (m >>= k) s = .ok b s') : ∃ a s1, m s = .ok a s1 ∧ k a s1 = .ok b s' := by
  rw [M_bind_apply] at h
  cases h1 : m s with
  | ok a s1 => rw [h1] at h; exact ⟨a, s1, rfl, h⟩
  | err e s1 => rw [h1] at h; cases h
  | panic => rw [h1] at h; cases h

theorem fpDe_RT {c : FpCfg} (h : WFc c) (x : Fp c.p) (hx : x.val < c.p) (bs : List Nat)
    (hs : fpSerFlags c EmptyFlags x .mk = .ok bs) (cm : Compress) (vd : Validate) (t : List Nat) (u : Nat) :
    fpDe c cm vd ⟨bs ++ t, u⟩ = .ok x ⟨t, u + bs.length⟩ := by
  unfold fpDe
  rw [M_bind_ok (fpRT h emptyFlagsOK x hx .mk bs hs t u)]
  rfl

/-- round trip through a tower, on an arbitrary reader state (flagged and plain deserialisers) -/
theorem extRT {c : FpCfg} (h : WFc c) (t : Tower) :
    (∀ (Fl : Type) [Flags Fl], FlagsOK Fl → ∀ (v : ExtV c.p) (fl : Fl) (bs : List Nat),
      v.hasShape t → v.reduced → extSerFlags c Fl v fl = .ok bs → ∀ (tl : List Nat) (u : Nat),
      extDeFlags c Fl t ⟨bs ++ tl, u⟩ = .ok (v, fl) ⟨tl, u + bs.length⟩) ∧
    (∀ (v : ExtV c.p) (bs : List Nat) (cm : Compress) (vd : Validate),
      v.hasShape t → v.reduced → extSerFlags c EmptyFlags v .mk = .ok bs → ∀ (tl : List Nat) (u : Nat),
      extDe c t cm vd ⟨bs ++ tl, u⟩ = .ok v ⟨tl, u + bs.length⟩) := by
  induction t with
  | base =>
    constructor
    · intro Fl _ hF v fl bs hv hr hs tl u
      cases v <;> simp only [ExtV.hasShape] at hv
      simp only [extSerFlags] at hs
      simp only [extDeFlags]
      rw [M_bind_ok (fpRT h hF _ hr fl bs hs tl u)]
      rfl
    · intro v bs cm vd hv hr hs tl u
      cases v <;> simp only [ExtV.hasShape] at hv
      simp only [extSerFlags] at hs
      simp only [extDe]
      rw [M_bind_ok (fpDe_RT h _ hr bs hs cm vd tl u)]
      rfl
  | quad t ih =>
    obtain ⟨ih1, ih2⟩ := ih
    constructor
    · intro Fl _ hF v fl bs hv hr hs tl u
      cases v <;> simp only [ExtV.hasShape] at hv
      simp only [extSerFlags] at hs
      obtain ⟨a, ha, hs⟩ := Res_bind_ok_inv hs
      obtain ⟨b, hb, hs⟩ := Res_bind_ok_inv hs
      cases hs
      simp only [extDeFlags, List.append_assoc]
      rw [M_bind_ok (ih2 _ a .yes .yes hv.1 hr.1 ha (b ++ tl) u),
        M_bind_ok (ih1 Fl hF _ fl b hv.2 hr.2 hb tl (u + a.length))]
      simp only [M_pure_apply, List.length_append, Nat.add_assoc]
    · intro v bs cm vd hv hr hs tl u
      cases v <;> simp only [ExtV.hasShape] at hv
      simp only [extSerFlags] at hs
      obtain ⟨a, ha, hs⟩ := Res_bind_ok_inv hs
      obtain ⟨b, hb, hs⟩ := Res_bind_ok_inv hs
      cases hs
      simp only [extDe, List.append_assoc]
      rw [M_bind_ok (ih2 _ a cm vd hv.1 hr.1 ha (b ++ tl) u),
        M_bind_ok (ih2 _ b cm vd hv.2 hr.2 hb tl (u + a.length))]
      simp only [M_pure_apply, List.length_append, Nat.add_assoc]
  | cubic t ih =>
    obtain ⟨ih1, ih2⟩ := ih
    constructor
    · intro Fl _ hF v fl bs hv hr hs tl u
      cases v <;> simp only [ExtV.hasShape] at hv
      simp only [extSerFlags] at hs
      obtain ⟨a, ha, hs⟩ := Res_bind_ok_inv hs
      obtain ⟨b, hb, hs⟩ := Res_bind_ok_inv hs
      obtain ⟨d, hd, hs⟩ := Res_bind_ok_inv hs
      cases hs
      simp only [extDeFlags, List.append_assoc]
      rw [M_bind_ok (ih2 _ a .yes .yes hv.1 hr.1 ha (b ++ (d ++ tl)) u),
        M_bind_ok (ih2 _ b .yes .yes hv.2.1 hr.2.1 hb (d ++ tl) (u + a.length)),
        M_bind_ok (ih1 Fl hF _ fl d hv.2.2 hr.2.2 hd tl (u + a.length + b.length))]
      simp only [M_pure_apply, List.length_append, Nat.add_assoc]
    · intro v bs cm vd hv hr hs tl u
      cases v <;> simp only [ExtV.hasShape] at hv
      simp only [extSerFlags] at hs
      obtain ⟨a, ha, hs⟩ := Res_bind_ok_inv hs
      obtain ⟨b, hb, hs⟩ := Res_bind_ok_inv hs
      obtain ⟨d, hd, hs⟩ := Res_bind_ok_inv hs
      cases hs
      simp only [extDe, List.append_assoc]
      rw [M_bind_ok (ih2 _ a cm vd hv.1 hr.1 ha (b ++ (d ++ tl)) u),
        M_bind_ok (ih2 _ b cm vd hv.2.1 hr.2.1 hb (d ++ tl) (u + a.length)),
        M_bind_ok (ih2 _ d cm vd hv.2.2 hr.2.2 hd tl (u + a.length + b.length))]
      simp only [M_pure_apply, List.length_append, Nat.add_assoc]

theorem fpDe_uniq {c : FpCfg} (h : WFc c) {cm : Compress} {vd : Validate} {s s' : Rd}
    (hb : ∀ b ∈ s.inp, b < 256) {x : Fp c.p} (hd : fpDe c cm vd s = .ok x s') :
    x.val < c.p ∧ fpSerFlags c EmptyFlags x .mk = .ok (s.inp.take (fpSizeFlags c EmptyFlags)) := by
  unfold fpDe at hd
  obtain ⟨⟨x', fl⟩, s1, h1, h2⟩ := M_bind_ok_inv hd
  cases h2
  cases fl
  exact ⟨fpDe_ok_lt h h1, fpUniq h emptyFlagsOK.bits_le emptyFlagsOK.sub hb h1⟩

theorem mem_drop_lt {l : List Nat} (hb : ∀ b ∈ l, b < 256) (k : Nat) : ∀ b ∈ l.drop k, b < 256 :=
  fun b hm => hb b (List.mem_of_mem_drop hm)

/-- uniqueness through a tower: an accepted byte string is the serialisation of the (well-shaped,
    reduced) result -/
theorem extUniq {c : FpCfg} (h : WFc c) (t : Tower) :
    (∀ (Fl : Type) [Flags Fl], bitSize Fl ≤ 8 → FlagsSub Fl → ∀ (s s' : Rd) (v : ExtV c.p) (fl : Fl),
      (∀ b ∈ s.inp, b < 256) → extDeFlags c Fl t s = .ok (v, fl) s' →
      v.hasShape t ∧ v.reduced ∧ extSerFlags c Fl v fl = .ok (s.inp.take (extSizeFlags c Fl t))) ∧
    (∀ (cm : Compress) (vd : Validate) (s s' : Rd) (v : ExtV c.p),
      (∀ b ∈ s.inp, b < 256) → extDe c t cm vd s = .ok v s' →
      v.hasShape t ∧ v.reduced ∧
        extSerFlags c EmptyFlags v .mk = .ok (s.inp.take (extSizeFlags c EmptyFlags t))) := by
  induction t with
  | base =>
    constructor
    · intro Fl _ hf hsub s s' v fl hb hd
      simp only [extDeFlags] at hd
      obtain ⟨⟨x, fl'⟩, s1, h1, h2⟩ := M_bind_ok_inv hd
      cases h2
      exact ⟨trivial, fpDe_ok_lt h h1, by simp only [extSerFlags, extSizeFlags]; exact fpUniq h hf hsub hb h1⟩
    · intro cm vd s s' v hb hd
      simp only [extDe] at hd
      obtain ⟨x, s1, h1, h2⟩ := M_bind_ok_inv hd
      cases h2
      obtain ⟨e1, e2⟩ := fpDe_uniq h hb h1
      exact ⟨trivial, e1, by simp only [extSerFlags, extSizeFlags]; exact e2⟩
  | quad t ih =>
    obtain ⟨ih1, ih2⟩ := ih
    constructor
    · intro Fl _ hf hsub s s' v fl hb hd
      simp only [extDeFlags] at hd
      obtain ⟨c0, s1, h1, hd⟩ := M_bind_ok_inv hd
      obtain ⟨⟨c1, fl'⟩, s2, h2, hd⟩ := M_bind_ok_inv hd
      cases hd
      obtain ⟨-, rfl⟩ := (extDe_reads h t .yes .yes).ok_used _ _ _ h1
      obtain ⟨a1, a2, a3⟩ := ih2 _ _ _ _ _ hb h1
      obtain ⟨b1, b2, b3⟩ := ih1 Fl hf hsub _ _ _ _ (mem_drop_lt hb _) h2
      refine ⟨⟨a1, b1⟩, ⟨a2, b2⟩, ?_⟩
      simp only [extSerFlags, a3, b3, Res_bind_ok, Res_pure, extSizeFlags, List.take_add]
    · intro cm vd s s' v hb hd
      simp only [extDe] at hd
      obtain ⟨c0, s1, h1, hd⟩ := M_bind_ok_inv hd
      obtain ⟨c1, s2, h2, hd⟩ := M_bind_ok_inv hd
      cases hd
      obtain ⟨-, rfl⟩ := (extDe_reads h t cm vd).ok_used _ _ _ h1
      obtain ⟨a1, a2, a3⟩ := ih2 _ _ _ _ _ hb h1
      obtain ⟨b1, b2, b3⟩ := ih2 _ _ _ _ _ (mem_drop_lt hb _) h2
      refine ⟨⟨a1, b1⟩, ⟨a2, b2⟩, ?_⟩
      simp only [extSerFlags, a3, b3, Res_bind_ok, Res_pure, extSizeFlags, List.take_add]
  | cubic t ih =>
    obtain ⟨ih1, ih2⟩ := ih
    constructor
    · intro Fl _ hf hsub s s' v fl hb hd
      simp only [extDeFlags] at hd
      obtain ⟨c0, s1, h1, hd⟩ := M_bind_ok_inv hd
      obtain ⟨c1, s2, h2, hd⟩ := M_bind_ok_inv hd
      obtain ⟨⟨c2, fl'⟩, s3, h3, hd⟩ := M_bind_ok_inv hd
      cases hd
      obtain ⟨-, rfl⟩ := (extDe_reads h t .yes .yes).ok_used _ _ _ h1
      obtain ⟨-, rfl⟩ := (extDe_reads h t .yes .yes).ok_used _ _ _ h2
      obtain ⟨a1, a2, a3⟩ := ih2 _ _ _ _ _ hb h1
      obtain ⟨b1, b2, b3⟩ := ih2 _ _ _ _ _ (mem_drop_lt hb _) h2
      obtain ⟨d1, d2, d3⟩ := ih1 Fl hf hsub _ _ _ _ (mem_drop_lt (mem_drop_lt hb _) _) h3
      refine ⟨⟨a1, b1, d1⟩, ⟨a2, b2, d2⟩, ?_⟩
      simp only [List.drop_drop] at d3
      simp only [extSerFlags, a3, b3, d3, Res_bind_ok, Res_pure, extSizeFlags, List.take_add,
        List.append_assoc, List.drop_drop]
    · intro cm vd s s' v hb hd
      simp only [extDe] at hd
      obtain ⟨c0, s1, h1, hd⟩ := M_bind_ok_inv hd
      obtain ⟨c1, s2, h2, hd⟩ := M_bind_ok_inv hd
      obtain ⟨c2, s3, h3, hd⟩ := M_bind_ok_inv hd
      cases hd
      obtain ⟨-, rfl⟩ := (extDe_reads h t cm vd).ok_used _ _ _ h1
      obtain ⟨-, rfl⟩ := (extDe_reads h t cm vd).ok_used _ _ _ h2
      obtain ⟨a1, a2, a3⟩ := ih2 _ _ _ _ _ hb h1
      obtain ⟨b1, b2, b3⟩ := ih2 _ _ _ _ _ (mem_drop_lt hb _) h2
      obtain ⟨d1, d2, d3⟩ := ih2 _ _ _ _ _ (mem_drop_lt (mem_drop_lt hb _) _) h3
      refine ⟨⟨a1, b1, d1⟩, ⟨a2, b2, d2⟩, ?_⟩
      simp only [List.drop_drop] at d3
      simp only [extSerFlags, a3, b3, d3, Res_bind_ok, Res_pure, extSizeFlags, List.take_add,
        List.append_assoc, List.drop_drop]

/-! ## The point layer over an abstract coordinate-field dictionary -/

/-- what the point code needs from the (de)serialisers of its coordinate field; `canon` singles out
    the canonical representatives (`val < p` for `Fp`, everything for a genuine field) -/
structure CodecOK {F : Type} (K : Codec F) (canon : F → Prop) : Prop where
  ser_size : ∀ (Fl : Type) [Flags Fl] (x : F) (fl : Fl) (bs : List Nat),
    K.serFlags Fl x fl = .ok bs → bs.length = K.sizeFlags Fl
  deFlags_reads : ∀ (Fl : Type) [Flags Fl], Reads (K.deFlags Fl) (K.sizeFlags Fl)
  de_reads : ∀ (cm : Compress) (vd : Validate), Reads (K.de cm vd) (K.sizeFlags EmptyFlags)
  deFlags_canon : ∀ (Fl : Type) [Flags Fl] (s s' : Rd) (x : F) (fl : Fl),
    K.deFlags Fl s = .ok (x, fl) s' → canon x
  de_canon : ∀ (cm : Compress) (vd : Validate) (s s' : Rd) (x : F), K.de cm vd s = .ok x s' → canon x
  rt_flags : ∀ (Fl : Type) [Flags Fl], FlagsOK Fl → ∀ (x : F) (fl : Fl) (bs : List Nat), canon x →
    K.serFlags Fl x fl = .ok bs → ∀ (tl : List Nat) (u : Nat),
    K.deFlags Fl ⟨bs ++ tl, u⟩ = .ok (x, fl) ⟨tl, u + bs.length⟩
  rt_plain : ∀ (x : F) (bs : List Nat) (cm : Compress) (vd : Validate), canon x →
    K.serFlags EmptyFlags x .mk = .ok bs → ∀ (tl : List Nat) (u : Nat),
    K.de cm vd ⟨bs ++ tl, u⟩ = .ok x ⟨tl, u + bs.length⟩

/-- the prime-field dictionary used by the driver -/
theorem fpCodecOK {c : FpCfg} (h : WFc c) : CodecOK (fpCodec c) (fun x => x.val < c.p) where
  ser_size := fun _ _ _ _ _ hs => fpSer_size h hs
  deFlags_reads := fun Fl _ => fpDeFlags_reads h Fl
  de_reads := fun cm vd => fpDe_reads h cm vd
  deFlags_canon := fun _ _ _ _ _ _ hd => fpDe_ok_lt h hd
  de_canon := by
    intro cm vd s s' x hd
    have hd' : fpDe c cm vd s = .ok x s' := hd
    unfold fpDe at hd'
    obtain ⟨⟨x', fl⟩, s1, h1, h2⟩ := M_bind_ok_inv hd'
    cases h2
    exact fpDe_ok_lt h h1
  rt_flags := fun _ _ hF x fl bs hx hs tl u => fpRT h hF x hx fl bs hs tl u
  rt_plain := fun x bs cm vd hx hs tl u => fpDe_RT h x hx bs hs cm vd tl u

section points
variable {F : Type} [Add F] [Sub F] [Mul F] [Neg F] [Zero F] [One F] [Inv F] [DecidableEq F]

/-! ### Short Weierstrass: size, consumption, totality -/

theorem swSer_size {K : Codec F} {canon : F → Prop} (hK : CodecOK K canon) (P : SWAff F) (cm : Compress)
    (bs : List Nat) (hs : swSerialize K P cm = .ok bs) : bs.length = swSerializedSize K cm := by
  unfold swSerialize at hs
  cases cm with
  | yes => exact hK.ser_size _ _ _ _ hs
  | no =>
    simp only at hs
    obtain ⟨a, ha, hs⟩ := Res_bind_ok_inv hs
    obtain ⟨b, hb, hs⟩ := Res_bind_ok_inv hs
    cases hs
    simp only [List.length_append, swSerializedSize, Codec.size, hK.ser_size _ _ _ _ ha,
      hK.ser_size _ _ _ _ hb]

theorem Res_ofOutcome_ok_inv {α : Type} {o : Outcome α} {a : α} (h : Res.ofOutcome o = .ok a) : o = .ok a := by
  cases o with
  | ok b => cases h; rfl
  | panic => cases h

theorem swProjSer_size {K : Codec F} {canon : F → Prop} (hK : CodecOK K canon) (P : SWProj F) (cm : Compress)
    (bs : List Nat) (hs : swProjSerialize K P cm = .ok bs) : bs.length = swSerializedSize K cm := by
  unfold swProjSerialize at hs
  obtain ⟨a, -, hs⟩ := Res_bind_ok_inv hs
  exact swSer_size hK a cm bs hs

/-- the validation stage after the coordinates have been read -/
theorem swFinish_reads (E : SWCfg F) (vd : Validate) (q : F × F × SWFlags) :
    Reads (if q.2.2.isInfinity = true then pure SWAff.identity
      else if (decide (vd = Validate.yes) && !swCheck E { x := q.1, y := q.2.1, infinity := false }) = true
        then throwE Err.invalid
        else (pure { x := q.1, y := q.2.1, infinity := false } : M (SWAff F))) 0 := by
  split
  · exact Reads.pure _
  · split
    · exact Reads.throw _ _
    · exact Reads.pure _

theorem swDe_reads {K : Codec F} {canon : F → Prop} (hK : CodecOK K canon) (E : SWCfg F) (cm : Compress)
    (vd : Validate) : Reads (swDeserialize K E cm vd) (swSerializedSize K cm) := by
  unfold swDeserialize
  cases cm with
  | yes =>
    simp only [swSerializedSize]
    refine Reads.bind0 (Reads.bind0 (hK.deFlags_reads SWFlags) ?_) (swFinish_reads E vd)
    rintro ⟨x, flags⟩
    cases flags with
    | pointAtInfinity => exact Reads.pure _
    | yIsPositive =>
      simp only [SWFlags.isPositive]
      split
      · exact Reads.throw _ _
      · split <;> exact Reads.pure _
    | yIsNegative =>
      simp only [SWFlags.isPositive]
      split
      · exact Reads.throw _ _
      · split <;> exact Reads.pure _
  | no =>
    simp only [swSerializedSize, Codec.size]
    exact Reads.bind0 (Reads.bind (hK.de_reads _ _) (fun x =>
      Reads.bind0 (hK.deFlags_reads SWFlags) (fun q => Reads.pure _))) (swFinish_reads E vd)

theorem swProjDe_reads {K : Codec F} {canon : F → Prop} (hK : CodecOK K canon) (E : SWCfg F) (cm : Compress)
    (vd : Validate) : Reads (swProjDeserialize K E cm vd) (swSerializedSize K cm) := by
  unfold swProjDeserialize
  exact Reads.bind0 (swDe_reads hK E cm vd) (fun a => Reads.pure _)

end points

section points
variable {F : Type} [Add F] [Sub F] [Mul F] [Neg F] [Zero F] [One F] [Inv F] [DecidableEq F]

/-! ### Short Weierstrass: validity of accepted points, sign flag, uncompressed round trip -/

/-- second stage of `swDeserialize` -/
def swFinish (E : SWCfg F) (vd : Validate) (q : F × F × SWFlags) : M (SWAff F) :=
  if q.2.2.isInfinity = true then pure SWAff.identity
  else if (decide (vd = Validate.yes) && !swCheck E { x := q.1, y := q.2.1, infinity := false }) = true
    then throwE Err.invalid
    else pure { x := q.1, y := q.2.1, infinity := false }

theorem swFinish_ok_inv {E : SWCfg F} {vd : Validate} {q : F × F × SWFlags} {s s' : Rd} {P : SWAff F}
    (h : swFinish E vd q s = .ok P s') :
    (q.2.2.isInfinity = true ∧ P = SWAff.identity) ∨
    (q.2.2.isInfinity = false ∧ P = ⟨q.1, q.2.1, false⟩ ∧ (vd = .yes → swCheck E P = true)) := by
  unfold swFinish at h
  by_cases hi : q.2.2.isInfinity = true
  · rw [if_pos hi] at h; cases h; exact Or.inl ⟨hi, rfl⟩
  · rw [if_neg hi] at h
    right
    by_cases hc : (decide (vd = Validate.yes) && !swCheck E { x := q.1, y := q.2.1, infinity := false }) = true
    · rw [if_pos hc] at h; cases h
    · rw [if_neg hc] at h; cases h
      refine ⟨by simpa using hi, rfl, fun hv => ?_⟩
      subst hv
      simpa using hc

theorem swDeserialize_eq (K : Codec F) (E : SWCfg F) (cm : Compress) (vd : Validate) :
    swDeserialize K E cm vd =
      ((match cm with
        | .yes => do
          let (x, flags) ← K.deFlags SWFlags
          match flags with
          | .pointAtInfinity => pure ((0 : F), (0 : F), flags)
          | _ =>
            match flags.isPositive with
            | none => panicM
            | some isPositive =>
              match swGetYsFromX K E x with
              | none => throwE .invalid
              | some (y, negY) => if isPositive then pure (x, y, flags) else pure (x, negY, flags)
        | .no => do
          let x ← K.de cm vd
          let (y, flags) ← K.deFlags SWFlags
          pure (x, y, flags)) >>= swFinish E vd) := rfl

/-- a point accepted in checked mode is the identity or passes `Valid::check` -/
theorem swDe_valid {K : Codec F} {E : SWCfg F} {cm : Compress} {s s' : Rd} {P : SWAff F}
    (h : swDeserialize K E cm .yes s = .ok P s') :
    P = SWAff.identity ∨ (P.infinity = false ∧ swCheck E P = true) := by
  rw [swDeserialize_eq] at h
  obtain ⟨q, s1, -, h2⟩ := M_bind_ok_inv h
  rcases swFinish_ok_inv h2 with ⟨-, rfl⟩ | ⟨-, rfl, hc⟩
  · exact Or.inl rfl
  · exact Or.inr ⟨rfl, hc rfl⟩

/-- `to_flags`: the sign flag is `yIsPositive` exactly when `y ≤ −y` -/
theorem swToFlags_pos_iff (K : Codec F) (P : SWAff F) (hP : P.infinity = false) :
    swToFlags K P = .yIsPositive ↔ K.le P.y (-P.y) = true := by
  unfold swToFlags
  rw [if_neg (by simp [hP])]
  by_cases hle : K.le P.y (-P.y) = true
  · simp [hle]
  · simp [hle]

theorem swToFlags_not_inf (K : Codec F) (P : SWAff F) (hP : P.infinity = false) :
    (swToFlags K P).isInfinity = false := by
  unfold swToFlags
  rw [if_neg (by simp [hP])]
  split <;> rfl

theorem swToFlags_inf (K : Codec F) (P : SWAff F) (hP : P.infinity = true) :
    swToFlags K P = .pointAtInfinity := by
  unfold swToFlags; rw [if_pos hP]

/-- uncompressed round trip on an arbitrary reader state -/
theorem swRT_uncompressed {K : Codec F} {canon : F → Prop} (hK : CodecOK K canon) (h0 : canon 0)
    (E : SWCfg F) (P : SWAff F) (hc : P.infinity = false → canon P.x ∧ canon P.y) (vd : Validate)
    (bs : List Nat) (hs : swSerialize K P .no = .ok bs) (tl : List Nat) (u : Nat) :
    swDeserialize K E .no vd ⟨bs ++ tl, u⟩ =
      if P.infinity = true then .ok SWAff.identity ⟨tl, u + bs.length⟩
      else if vd = .yes ∧ swCheck E P = false then .err .invalid ⟨tl, u + bs.length⟩
      else .ok P ⟨tl, u + bs.length⟩ := by
  rw [swDeserialize_eq]
  unfold swSerialize at hs
  simp only at hs
  obtain ⟨a, ha, hs⟩ := Res_bind_ok_inv hs
  obtain ⟨b, hb, hs⟩ := Res_bind_ok_inv hs
  cases hs
  obtain ⟨x, y, inf⟩ := P
  cases inf with
  | true =>
    simp only [if_true] at ha hb ⊢
    simp only [List.append_assoc]
    refine Eq.trans (M_bind_ok (a := ((0 : F), (0 : F), SWFlags.pointAtInfinity))
      (s' := ⟨tl, u + a.length + b.length⟩) ?_) ?_
    · rw [M_bind_ok (hK.rt_plain _ a _ vd h0 ha (b ++ tl) u),
        M_bind_ok (hK.rt_flags SWFlags swFlagsOK _ _ b h0 hb tl (u + a.length))]
      rfl
    simp only [M_pure_apply, swFinish, SWFlags.isInfinity, if_true, List.length_append, Nat.add_assoc]
    rfl
  | false =>
    obtain ⟨hx, hy⟩ := hc rfl
    simp only [Bool.false_eq_true, if_false] at ha hb ⊢
    simp only [List.append_assoc]
    refine Eq.trans (M_bind_ok (a := (x, y, swToFlags K ⟨x, y, false⟩))
      (s' := ⟨tl, u + a.length + b.length⟩) ?_) ?_
    · rw [M_bind_ok (hK.rt_plain _ a _ vd hx ha (b ++ tl) u),
        M_bind_ok (hK.rt_flags SWFlags swFlagsOK _ _ b hy hb tl (u + a.length))]
      rfl
    simp only [M_pure_apply, swFinish, swToFlags_not_inf K ⟨x, y, false⟩ rfl, Bool.false_eq_true, if_false,
      List.length_append, Nat.add_assoc]
    cases vd with
    | yes =>
      cases hchk : swCheck E ⟨x, y, false⟩ <;> simp [throwE, M_pure_apply]
    | no => simp [M_pure_apply]

end points

section points
variable {F : Type} [Add F] [Sub F] [Mul F] [Neg F] [Zero F] [One F] [Inv F] [DecidableEq F]

/-! ### Sign rule and compressed round trip (short Weierstrass) -/

/-- the little algebra the sign rule needs, on canonical representatives -/
structure SignLaws (F : Type) [Add F] [Mul F] [Neg F] (canon : F → Prop) : Prop where
  canon_add : ∀ a b : F, canon (a + b)
  canon_mul : ∀ a b : F, canon (a * b)
  canon_neg : ∀ a : F, canon (-a)
  neg_neg : ∀ a : F, canon a → - -a = a
  neg_sq : ∀ a : F, (-a) * (-a) = a * a
  sq_eq : ∀ y y' : F, canon y → canon y' → y' * y' = y * y → y' = y ∨ y' = -y

/-- `Field::sqrt` returns some root exactly for squares -/
structure SqrtOK (K : Codec F) (canon : F → Prop) : Prop where
  sound : ∀ a y : F, canon a → K.sqrt a = some y → canon y ∧ y * y = a
  complete : ∀ a y : F, canon a → canon y → y * y = a → ∃ y', K.sqrt a = some y'

/-- `Ord` on the coordinate field is a strict total order (on canonical representatives) -/
structure LtOK (K : Codec F) (canon : F → Prop) : Prop where
  asymm : ∀ a b : F, K.lt a b = true → K.lt b a = false
  total : ∀ a b : F, canon a → canon b → K.lt a b = false → K.lt b a = false → a = b

/-- right-hand side `x³ + a·x + b` as the Rust code computes it -/
def swRhs (E : SWCfg F) (x : F) : F :=
  let x3b := swAddB E ((x * x) * x)
  if E.a ≠ 0 then x3b + swMulByA E x else x3b

theorem swRhs_canon {canon : F → Prop} (hL : SignLaws F canon) (E : SWCfg F) (x : F) : canon (swRhs E x) := by
  unfold swRhs swAddB
  simp only
  split
  · exact hL.canon_add _ _
  · split
    · exact hL.canon_mul _ _
    · exact hL.canon_add _ _

theorem swIsOnCurve_iff (E : SWCfg F) (P : SWAff F) (hP : P.infinity = false) :
    swIsOnCurve E P = true ↔ P.y * P.y = swRhs E P.x := by
  unfold swIsOnCurve
  rw [if_neg (by simp [hP])]
  simp only [swRhs, beq_iff_eq]

theorem swGetYsFromX_eq (K : Codec F) (E : SWCfg F) (x : F) :
    swGetYsFromX K E x = match K.sqrt (swRhs E x) with
      | none => none
      | some y => if K.lt y (-y) then some (y, -y) else some (-y, y) := rfl

/-- sign rule: `get_ys_from_x_unchecked` returns `(y, −y)` with `y ≤ −y`, both roots of the curve equation -/
theorem swGetYs_spec {K : Codec F} {canon : F → Prop} (hL : SignLaws F canon) (hS : SqrtOK K canon)
    (hO : LtOK K canon) (E : SWCfg F) (x y1 y2 : F) (h : swGetYsFromX K E x = some (y1, y2)) :
    y2 = -y1 ∧ K.lt y2 y1 = false ∧ y1 * y1 = swRhs E x ∧ canon y1 ∧ canon y2 := by
  rw [swGetYsFromX_eq] at h
  cases hsq : K.sqrt (swRhs E x) with
  | none => rw [hsq] at h; cases h
  | some y =>
    rw [hsq] at h
    obtain ⟨hy, hyy⟩ := hS.sound _ _ (swRhs_canon hL E x) hsq
    simp only at h
    by_cases hlt : K.lt y (-y) = true
    · rw [if_pos hlt] at h
      simp only [Option.some.injEq, Prod.mk.injEq] at h
      rw [← h.1, ← h.2]
      exact ⟨rfl, hO.asymm _ _ hlt, hyy, hy, hL.canon_neg _⟩
    · rw [if_neg hlt] at h
      simp only [Option.some.injEq, Prod.mk.injEq] at h
      rw [← h.1, ← h.2]
      exact ⟨(hL.neg_neg y hy).symm, by simpa using hlt, by rw [hL.neg_sq, hyy], hL.canon_neg _, hy⟩

theorem swGetYs_some {K : Codec F} {canon : F → Prop} (hL : SignLaws F canon) (hS : SqrtOK K canon)
    (E : SWCfg F) (x y : F) (hy : canon y) (hyy : y * y = swRhs E x) :
    ∃ y1 y2, swGetYsFromX K E x = some (y1, y2) := by
  obtain ⟨y', hy'⟩ := hS.complete _ y (swRhs_canon hL E x) hy hyy
  rw [swGetYsFromX_eq, hy']
  simp only
  split
  · exact ⟨_, _, rfl⟩
  · exact ⟨_, _, rfl⟩

/-- the pair is determined by the curve equation and the order alone -/
theorem swGetYs_determined {K : Codec F} {canon : F → Prop} (hL : SignLaws F canon) (hO : LtOK K canon)
    (r y1 y1' : F) (h1 : canon y1) (h1' : canon y1') (e1 : y1 * y1 = r) (e1' : y1' * y1' = r)
    (l1 : K.lt (-y1) y1 = false) (l1' : K.lt (-y1') y1' = false) : y1' = y1 := by
  rcases hL.sq_eq y1 y1' h1 h1' (by rw [e1, e1']) with e | e
  · exact e
  · -- y1' = -y1
    subst e
    rw [hL.neg_neg y1 h1] at l1'
    exact (hO.total _ _ (hL.canon_neg _) h1 l1 l1')

/-- independence of the root chosen by `sqrt`: two dictionaries with the same order give the same pair -/
theorem swGetYs_indep {K K' : Codec F} {canon : F → Prop} (hL : SignLaws F canon) (hS : SqrtOK K canon)
    (hS' : SqrtOK K' canon) (hO : LtOK K canon) (hlt : K'.lt = K.lt) (E : SWCfg F) (x : F) :
    swGetYsFromX K' E x = swGetYsFromX K E x := by
  have hO' : LtOK K' canon := ⟨by rw [hlt]; exact hO.asymm, by rw [hlt]; exact hO.total⟩
  cases h : swGetYsFromX K E x with
  | none =>
    cases h' : swGetYsFromX K' E x with
    | none => rfl
    | some q =>
      obtain ⟨y1, y2⟩ := q
      obtain ⟨-, -, e, c, -⟩ := swGetYs_spec hL hS' hO' E x y1 y2 h'
      obtain ⟨a, b, hab⟩ := swGetYs_some (K := K) hL hS E x y1 c e
      rw [hab] at h; cases h
  | some q =>
    obtain ⟨y1, y2⟩ := q
    obtain ⟨e2, l, e, c, -⟩ := swGetYs_spec hL hS hO E x y1 y2 h
    obtain ⟨y1', y2', h'⟩ := swGetYs_some (K := K') hL hS' E x y1 c e
    obtain ⟨e2', l', e', c', -⟩ := swGetYs_spec hL hS' hO' E x y1' y2' h'
    rw [h']
    subst e2 e2'
    rw [hlt] at l'
    have := swGetYs_determined hL hO _ y1 y1' c c' e e' l l'
    rw [this]

end points

section points
variable {F : Type} [Add F] [Sub F] [Mul F] [Neg F] [Zero F] [One F] [Inv F] [DecidableEq F]

/-- the root selected by the sign flag is the serialised `y` -/
theorem swSelect_y {K : Codec F} {canon : F → Prop} (hL : SignLaws F canon) (hS : SqrtOK K canon)
    (hO : LtOK K canon) (E : SWCfg F) (x y : F) (hy : canon y) (hon : y * y = swRhs E x) :
    ∃ y1 y2, swGetYsFromX K E x = some (y1, y2) ∧
      (if K.le y (-y) = true then y1 else y2) = y := by
  obtain ⟨y1, y2, hg⟩ := swGetYs_some (K := K) hL hS E x y hy hon
  obtain ⟨e2, l, e, c1, c2⟩ := swGetYs_spec hL hS hO E x y1 y2 hg
  refine ⟨y1, y2, hg, ?_⟩
  subst e2
  rcases hL.sq_eq y y1 hy c1 (by rw [e, hon]) with e1 | e1
  · -- y1 = y
    subst e1
    unfold Codec.le
    rw [l]; simp
  · -- y1 = -y
    subst e1
    rw [hL.neg_neg y hy] at l ⊢
    unfold Codec.le
    by_cases hlt : K.lt (-y) y = true
    · rw [hlt]; simp
    · have hlt' : K.lt (-y) y = false := by simpa using hlt
      rw [hlt']; simp
      exact hO.total _ _ (hL.canon_neg _) hy hlt' l

/-- compressed round trip on an arbitrary reader state, for a point on the curve -/
theorem swRT_compressed {K : Codec F} {canon : F → Prop} (hK : CodecOK K canon) (h0 : canon 0)
    (hL : SignLaws F canon) (hS : SqrtOK K canon) (hO : LtOK K canon)
    (E : SWCfg F) (P : SWAff F) (hc : P.infinity = false → canon P.x ∧ canon P.y)
    (hon : swIsOnCurve E P = true) (vd : Validate)
    (bs : List Nat) (hs : swSerialize K P .yes = .ok bs) (tl : List Nat) (u : Nat) :
    swDeserialize K E .yes vd ⟨bs ++ tl, u⟩ =
      if P.infinity = true then .ok SWAff.identity ⟨tl, u + bs.length⟩
      else if vd = .yes ∧ swCheck E P = false then .err .invalid ⟨tl, u + bs.length⟩
      else .ok P ⟨tl, u + bs.length⟩ := by
  rw [swDeserialize_eq]
  unfold swSerialize at hs
  simp only at hs
  obtain ⟨x, y, inf⟩ := P
  cases inf with
  | true =>
    simp only [if_true] at hs ⊢
    refine Eq.trans (M_bind_ok (a := ((0 : F), (0 : F), SWFlags.pointAtInfinity))
      (s' := ⟨tl, u + bs.length⟩) ?_) ?_
    · rw [M_bind_ok (hK.rt_flags SWFlags swFlagsOK _ _ bs h0 hs tl u)]
      rfl
    · rfl
  | false =>
    obtain ⟨hx, hy⟩ := hc rfl
    simp only [Bool.false_eq_true, if_false] at hs ⊢
    have hon' := (swIsOnCurve_iff E ⟨x, y, false⟩ rfl).mp hon
    obtain ⟨y1, y2, hg, hsel⟩ := swSelect_y hL hS hO E x y hy hon'
    refine Eq.trans (M_bind_ok (a := (x, y, swToFlags K ⟨x, y, false⟩))
      (s' := ⟨tl, u + bs.length⟩) ?_) ?_
    · rw [M_bind_ok (hK.rt_flags SWFlags swFlagsOK _ _ bs hx hs tl u)]
      simp only
      by_cases hle : K.le y (-y) = true
      · have hf : swToFlags K ⟨x, y, false⟩ = .yIsPositive := by simp [swToFlags, hle]
        rw [if_pos hle] at hsel
        rw [hf]
        simp only [SWFlags.isPositive, hg, if_true, hsel, M_pure_apply]
      · have hf : swToFlags K ⟨x, y, false⟩ = .yIsNegative := by simp [swToFlags, hle]
        rw [if_neg hle] at hsel
        rw [hf]
        simp only [SWFlags.isPositive, hg, Bool.false_eq_true, if_false, hsel, M_pure_apply]
    · simp only [swFinish, swToFlags_not_inf K ⟨x, y, false⟩ rfl, Bool.false_eq_true, if_false]
      cases vd with
      | yes =>
        cases hchk : swCheck E ⟨x, y, false⟩ <;> simp [throwE, M_pure_apply]
      | no => simp [M_pure_apply]

end points

section points
variable {F : Type} [Add F] [Sub F] [Mul F] [Neg F] [Zero F] [One F] [Inv F] [DecidableEq F]

/-! ### Projective wrappers (short Weierstrass) -/

/-- `into_affine` never hits the `unwrap` of `z.inverse()`: `z = 0` is matched first -/
theorem swToAffine_total (P : SWProj F) : ∃ A, swToAffine P = .ok A := by
  unfold swToAffine
  by_cases hz : P.isZero = true
  · rw [if_pos hz]; exact ⟨_, rfl⟩
  · rw [if_neg hz]
    by_cases h1 : P.z = 1
    · rw [if_pos h1]; exact ⟨_, rfl⟩
    · rw [if_neg h1]
      have : P.z ≠ 0 := by
        intro h0; apply hz; unfold SWProj.isZero; rw [h0]; simp
      unfold inverse
      rw [if_neg this]
      exact ⟨_, rfl⟩

theorem swProjSerialize_eq {K : Codec F} {P : SWProj F} {A : SWAff F} (h : swToAffine P = .ok A)
    (cm : Compress) : swProjSerialize K P cm = swSerialize K A cm := by
  unfold swProjSerialize; rw [h]; rfl

theorem swProjDeserialize_apply (K : Codec F) (E : SWCfg F) (cm : Compress) (vd : Validate) (s : Rd) :
    swProjDeserialize K E cm vd s = match swDeserialize K E cm vd s with
      | .ok a s' => .ok (swFromAffine a) s'
      | .err e s' => .err e s'
      | .panic => .panic := by
  unfold swProjDeserialize; rw [M_bind_apply]
  cases swDeserialize K E cm vd s <;> rfl

/-! ### Twisted Edwards -/

theorem teSer_size {K : Codec F} {canon : F → Prop} (hK : CodecOK K canon) (P : TEAff F) (cm : Compress)
    (bs : List Nat) (hs : teSerialize K P cm = .ok bs) : bs.length = teSerializedSize K cm := by
  unfold teSerialize at hs
  cases cm with
  | yes => exact hK.ser_size _ _ _ _ hs
  | no =>
    simp only at hs
    obtain ⟨a, ha, hs⟩ := Res_bind_ok_inv hs
    obtain ⟨b, hb, hs⟩ := Res_bind_ok_inv hs
    cases hs
    simp only [List.length_append, teSerializedSize, Codec.size, hK.ser_size _ _ _ _ ha,
      hK.ser_size _ _ _ _ hb]

theorem teProjSer_size {K : Codec F} {canon : F → Prop} (hK : CodecOK K canon) (P : TEProj F) (cm : Compress)
    (bs : List Nat) (hs : teProjSerialize K P cm = .ok bs) : bs.length = teSerializedSize K cm := by
  unfold teProjSerialize at hs
  obtain ⟨a, -, hs⟩ := Res_bind_ok_inv hs
  exact teSer_size hK a cm bs hs

/-- second stage of `teDeserialize` -/
def teFinish (E : TECfg F) (vd : Validate) (q : F × F) : M (TEAff F) :=
  if (decide (vd = Validate.yes) && !teCheck E { x := q.1, y := q.2 }) = true then throwE Err.invalid
  else pure { x := q.1, y := q.2 }

theorem teFinish_reads (E : TECfg F) (vd : Validate) (q : F × F) : Reads (teFinish E vd q) 0 := by
  unfold teFinish
  split
  · exact Reads.throw _ _
  · exact Reads.pure _

theorem teDeserialize_eq (K : Codec F) (E : TECfg F) (cm : Compress) (vd : Validate) :
    teDeserialize K E cm vd =
      ((match cm with
        | .yes => do
          let (y, flags) ← K.deFlags TEFlags
          match teGetXsFromY K E y with
          | none => throwE .invalid
          | some (x, negX) => if flags.isNegative then pure (negX, y) else pure (x, y)
        | .no => do
          let x ← K.de .no .yes
          let y ← K.de .no .yes
          pure (x, y)) >>= teFinish E vd) := rfl

theorem teDe_reads {K : Codec F} {canon : F → Prop} (hK : CodecOK K canon) (E : TECfg F) (cm : Compress)
    (vd : Validate) : Reads (teDeserialize K E cm vd) (teSerializedSize K cm) := by
  rw [teDeserialize_eq]
  cases cm with
  | yes =>
    simp only [teSerializedSize]
    refine Reads.bind0 (Reads.bind0 (hK.deFlags_reads TEFlags) ?_) (teFinish_reads E vd)
    rintro ⟨y, flags⟩
    simp only
    split
    · exact Reads.throw _ _
    · split <;> exact Reads.pure _
  | no =>
    simp only [teSerializedSize, Codec.size]
    exact Reads.bind0 (Reads.bind (hK.de_reads _ _) (fun x =>
      Reads.bind0 (hK.de_reads _ _) (fun q => Reads.pure _))) (teFinish_reads E vd)

theorem teProjDe_reads {K : Codec F} {canon : F → Prop} (hK : CodecOK K canon) (E : TECfg F) (cm : Compress)
    (vd : Validate) : Reads (teProjDeserialize K E cm vd) (teSerializedSize K cm) := by
  unfold teProjDeserialize
  exact Reads.bind0 (teDe_reads hK E cm vd) (fun a => Reads.pure _)

theorem teFinish_ok_inv {E : TECfg F} {vd : Validate} {q : F × F} {s s' : Rd} {P : TEAff F}
    (h : teFinish E vd q s = .ok P s') : P = ⟨q.1, q.2⟩ ∧ (vd = .yes → teCheck E P = true) := by
  unfold teFinish at h
  by_cases hc : (decide (vd = Validate.yes) && !teCheck E { x := q.1, y := q.2 }) = true
  · rw [if_pos hc] at h; cases h
  · rw [if_neg hc] at h; cases h
    refine ⟨rfl, fun hv => ?_⟩
    subst hv
    simpa using hc

/-- a point accepted in checked mode passes `Valid::check` -/
theorem teDe_valid {K : Codec F} {E : TECfg F} {cm : Compress} {s s' : Rd} {P : TEAff F}
    (h : teDeserialize K E cm .yes s = .ok P s') : teCheck E P = true := by
  rw [teDeserialize_eq] at h
  obtain ⟨q, s1, -, h2⟩ := M_bind_ok_inv h
  exact (teFinish_ok_inv h2).2 rfl

/-- `into_affine` never hits the `unwrap` of `z.inverse()` unless `z = 0` on a non-identity
    representation -/
theorem teToAffine_total (P : TEProj F) (hz : P.z ≠ 0) : ∃ A, teToAffine P = .ok A := by
  unfold teToAffine
  split
  · exact ⟨_, rfl⟩
  · split
    · exact ⟨_, rfl⟩
    · unfold inverse; rw [if_neg hz]; exact ⟨_, rfl⟩

theorem teProjSerialize_eq {K : Codec F} {P : TEProj F} {A : TEAff F} (h : teToAffine P = .ok A)
    (cm : Compress) : teProjSerialize K P cm = teSerialize K A cm := by
  unfold teProjSerialize; rw [h]; rfl

theorem teProjDeserialize_apply (K : Codec F) (E : TECfg F) (cm : Compress) (vd : Validate) (s : Rd) :
    teProjDeserialize K E cm vd s = match teDeserialize K E cm vd s with
      | .ok a s' => .ok (teFromAffine a) s'
      | .err e s' => .err e s'
      | .panic => .panic := by
  unfold teProjDeserialize; rw [M_bind_apply]
  cases teDeserialize K E cm vd s <;> rfl

/-- uncompressed round trip on an arbitrary reader state -/
theorem teRT_uncompressed {K : Codec F} {canon : F → Prop} (hK : CodecOK K canon)
    (E : TECfg F) (P : TEAff F) (hx : canon P.x) (hy : canon P.y) (vd : Validate)
    (bs : List Nat) (hs : teSerialize K P .no = .ok bs) (tl : List Nat) (u : Nat) :
    teDeserialize K E .no vd ⟨bs ++ tl, u⟩ =
      if vd = .yes ∧ teCheck E P = false then .err .invalid ⟨tl, u + bs.length⟩
      else .ok P ⟨tl, u + bs.length⟩ := by
  rw [teDeserialize_eq]
  unfold teSerialize at hs
  simp only at hs
  obtain ⟨a, ha, hs⟩ := Res_bind_ok_inv hs
  obtain ⟨b, hb, hs⟩ := Res_bind_ok_inv hs
  cases hs
  obtain ⟨x, y⟩ := P
  simp only [List.append_assoc]
  refine Eq.trans (M_bind_ok (a := (x, y)) (s' := ⟨tl, u + a.length + b.length⟩) ?_) ?_
  · rw [M_bind_ok (hK.rt_plain _ a _ _ hx ha (b ++ tl) u),
      M_bind_ok (hK.rt_plain _ b _ _ hy hb tl (u + a.length))]
    rfl
  simp only [teFinish, List.length_append, Nat.add_assoc]
  cases vd with
  | yes => cases hchk : teCheck E ⟨x, y⟩ <;> simp [throwE, M_pure_apply]
  | no => simp [M_pure_apply]

end points

section points
variable {F : Type} [Add F] [Sub F] [Mul F] [Neg F] [Zero F] [One F] [Inv F] [DecidableEq F]

/-! ### Twisted Edwards: sign rule and compressed round trip -/

/-- given the smaller root `y1` of a pair `(y1, −y1)`, the flag computed from `y` selects `y` -/
theorem sign_select {K : Codec F} {canon : F → Prop} (hL : SignLaws F canon) (hO : LtOK K canon)
    (y y1 : F) (hy : canon y) (c1 : canon y1) (e : y1 * y1 = y * y) (l : K.lt (-y1) y1 = false) :
    (if K.le y (-y) = true then y1 else -y1) = y := by
  rcases hL.sq_eq y y1 hy c1 e with e1 | e1
  · subst e1
    unfold Codec.le
    rw [l]; simp
  · subst e1
    rw [hL.neg_neg y hy] at l ⊢
    unfold Codec.le
    by_cases hlt : K.lt (-y) y = true
    · rw [hlt]; simp
    · have hlt' : K.lt (-y) y = false := by simpa using hlt
      rw [hlt']; simp
      exact hO.total _ _ (hL.canon_neg _) hy hlt' l

/-- `x²` recovered from `y`: `(1 − y²) / (a − d·y²)` as the Rust code computes it -/
def teX2 (E : TECfg F) (y : F) : F := (E.a - (y * y) * E.d)⁻¹ * (1 - y * y)

theorem teGetXsFromY_eq (K : Codec F) (E : TECfg F) (y : F) :
    teGetXsFromY K E y =
      if E.a - (y * y) * E.d = 0 then none else
      match K.sqrt (teX2 E y) with
      | none => none
      | some x => if K.le x (-x) then some (x, -x) else some (-x, x) := by
  unfold teGetXsFromY inverse teX2
  by_cases hden : E.a - y * y * E.d = 0
  · simp only [hden, if_true]
  · simp only [hden, if_false]
    rfl

/-- sign rule: `get_xs_from_y_unchecked` returns `(x, −x)` with `x ≤ −x`, both roots of `x² = (1−y²)/(a−d·y²)` -/
theorem teGetXs_spec {K : Codec F} {canon : F → Prop} (hL : SignLaws F canon) (hS : SqrtOK K canon)
    (hO : LtOK K canon) (E : TECfg F) (y x1 x2 : F) (h : teGetXsFromY K E y = some (x1, x2)) :
    x2 = -x1 ∧ K.lt x2 x1 = false ∧ x1 * x1 = teX2 E y ∧ canon x1 ∧ canon x2 ∧
      E.a - (y * y) * E.d ≠ 0 := by
  rw [teGetXsFromY_eq] at h
  by_cases hden : E.a - (y * y) * E.d = 0
  · rw [if_pos hden] at h; cases h
  rw [if_neg hden] at h
  have hcan : canon (teX2 E y) := hL.canon_mul _ _
  cases hsq : K.sqrt (teX2 E y) with
  | none => rw [hsq] at h; cases h
  | some x =>
    rw [hsq] at h
    obtain ⟨hx, hxx⟩ := hS.sound _ _ hcan hsq
    simp only at h
    by_cases hle : K.le x (-x) = true
    · rw [if_pos hle] at h
      simp only [Option.some.injEq, Prod.mk.injEq] at h
      rw [← h.1, ← h.2]
      refine ⟨rfl, ?_, hxx, hx, hL.canon_neg _, hden⟩
      unfold Codec.le at hle; simpa using hle
    · rw [if_neg hle] at h
      simp only [Option.some.injEq, Prod.mk.injEq] at h
      rw [← h.1, ← h.2]
      refine ⟨(hL.neg_neg x hx).symm, ?_, by rw [hL.neg_sq, hxx], hL.canon_neg _, hx, hden⟩
      unfold Codec.le at hle
      exact hO.asymm _ _ (by simpa using hle)

theorem teGetXs_some {K : Codec F} {canon : F → Prop} (hL : SignLaws F canon) (hS : SqrtOK K canon)
    (E : TECfg F) (y x : F) (hden : E.a - (y * y) * E.d ≠ 0) (hx : canon x) (hxx : x * x = teX2 E y) :
    ∃ x1 x2, teGetXsFromY K E y = some (x1, x2) := by
  obtain ⟨x', hx'⟩ := hS.complete (teX2 E y) x (show canon (teX2 E y) from hL.canon_mul _ _) hx hxx
  rw [teGetXsFromY_eq, if_neg hden, hx']
  simp only
  split
  · exact ⟨_, _, rfl⟩
  · exact ⟨_, _, rfl⟩

/-- independence of the root chosen by `sqrt` -/
theorem teGetXs_indep {K K' : Codec F} {canon : F → Prop} (hL : SignLaws F canon) (hS : SqrtOK K canon)
    (hS' : SqrtOK K' canon) (hO : LtOK K canon) (hlt : K'.lt = K.lt) (E : TECfg F) (y : F) :
    teGetXsFromY K' E y = teGetXsFromY K E y := by
  have hO' : LtOK K' canon := ⟨by rw [hlt]; exact hO.asymm, by rw [hlt]; exact hO.total⟩
  cases h : teGetXsFromY K E y with
  | none =>
    cases h' : teGetXsFromY K' E y with
    | none => rfl
    | some q =>
      obtain ⟨x1, x2⟩ := q
      obtain ⟨-, -, e, c, -, hden⟩ := teGetXs_spec hL hS' hO' E y x1 x2 h'
      obtain ⟨a, b, hab⟩ := teGetXs_some (K := K) hL hS E y x1 hden c e
      rw [hab] at h; cases h
  | some q =>
    obtain ⟨x1, x2⟩ := q
    obtain ⟨e2, l, e, c, -, hden⟩ := teGetXs_spec hL hS hO E y x1 x2 h
    obtain ⟨x1', x2', h'⟩ := teGetXs_some (K := K') hL hS' E y x1 hden c e
    obtain ⟨e2', l', e', c', -, -⟩ := teGetXs_spec hL hS' hO' E y x1' x2' h'
    rw [h']
    subst e2 e2'
    rw [hlt] at l'
    have := swGetYs_determined hL hO _ x1 x1' c c' e e' l l'
    rw [this]

/-- compressed round trip on an arbitrary reader state: `hsolve` is the curve equation solved for `x²`
    (a consequence of `teIsOnCurve` in a field, see `te_solve_field`) -/
theorem teRT_compressed {K : Codec F} {canon : F → Prop} (hK : CodecOK K canon)
    (hL : SignLaws F canon) (hS : SqrtOK K canon) (hO : LtOK K canon)
    (E : TECfg F) (P : TEAff F) (hx : canon P.x) (hy : canon P.y)
    (hden : E.a - (P.y * P.y) * E.d ≠ 0) (hsolve : P.x * P.x = teX2 E P.y) (vd : Validate)
    (bs : List Nat) (hs : teSerialize K P .yes = .ok bs) (tl : List Nat) (u : Nat) :
    teDeserialize K E .yes vd ⟨bs ++ tl, u⟩ =
      if vd = .yes ∧ teCheck E P = false then .err .invalid ⟨tl, u + bs.length⟩
      else .ok P ⟨tl, u + bs.length⟩ := by
  rw [teDeserialize_eq]
  unfold teSerialize at hs
  simp only at hs
  obtain ⟨x, y⟩ := P
  obtain ⟨x1, x2, hg⟩ := teGetXs_some (K := K) hL hS E y x hden hx hsolve
  obtain ⟨e2, l, e, c1, -, -⟩ := teGetXs_spec hL hS hO E y x1 x2 hg
  subst e2
  have hsel := sign_select hL hO x x1 hx c1 (by rw [e]; exact hsolve.symm) l
  refine Eq.trans (M_bind_ok (a := (x, y)) (s' := ⟨tl, u + bs.length⟩) ?_) ?_
  · simp only
    rw [M_bind_ok (hK.rt_flags TEFlags teFlagsOK _ _ bs hy hs tl u)]
    simp only [hg]
    by_cases hle : K.le x (-x) = true
    · rw [if_pos hle] at hsel
      have hf : teFlagsFromX K x = .xIsPositive := by simp [teFlagsFromX, hle]
      rw [hf]
      simp only [TEFlags.isNegative, Bool.false_eq_true, if_false, hsel, M_pure_apply]
      rfl
    · rw [if_neg hle] at hsel
      have hf : teFlagsFromX K x = .xIsNegative := by simp [teFlagsFromX, hle]
      rw [hf]
      simp only [TEFlags.isNegative, if_true, hsel, M_pure_apply]
      rfl
  simp only [teFinish]
  cases vd with
  | yes => cases hchk : teCheck E ⟨x, y⟩ <;> simp [throwE, M_pure_apply]
  | no => simp [M_pure_apply]

end points

/-! ## The prime-field instantiation -/

theorem Fp.ext' {p : Nat} {a b : Fp p} (h : a.val = b.val) : a = b := by
  cases a; cases b; simp only at h; rw [h]

theorem Fp.add_val {p : Nat} (a b : Fp p) : (a + b).val = (a.val + b.val) % p := rfl
theorem Fp.mul_val {p : Nat} (a b : Fp p) : (a * b).val = (a.val * b.val) % p := rfl
theorem Fp.neg_val {p : Nat} (a : Fp p) : (-a).val = (p - a.val % p) % p := rfl
theorem Fp.zero_val {p : Nat} : (0 : Fp p).val = 0 := rfl

theorem fpLtOK (c : FpCfg) : LtOK (fpCodec c) (fun x => x.val < c.p) where
  asymm := by
    intro a b h
    have h' : decide (a.val < b.val) = true := h
    show decide (b.val < a.val) = false
    simp at h' ⊢; omega
  total := by
    intro a b _ _ h1 h2
    have h1' : decide (a.val < b.val) = false := h1
    have h2' : decide (b.val < a.val) = false := h2
    simp at h1' h2'
    exact Fp.ext' (by omega)

theorem fpSignLaws {p : Nat} (hp : p.Prime) : SignLaws (Fp p) (fun x => x.val < p) where
  canon_add := fun a b => Nat.mod_lt _ hp.pos
  canon_mul := fun a b => Nat.mod_lt _ hp.pos
  canon_neg := fun a => Nat.mod_lt _ hp.pos
  neg_neg := by
    intro a ha
    apply Fp.ext'
    simp only [Fp.neg_val]
    have ha' : a.val < p := ha
    rw [Nat.mod_eq_of_lt ha']
    by_cases h0 : a.val = 0
    · rw [h0]; simp
    · rw [Nat.mod_eq_of_lt (by omega : p - a.val < p), Nat.mod_eq_of_lt (by omega : p - a.val < p)]
      rw [Nat.mod_eq_of_lt (by omega)]; omega
  neg_sq := by
    intro a
    apply Fp.ext'
    simp only [Fp.mul_val, Fp.neg_val]
    have hr : a.val % p < p := Nat.mod_lt _ hp.pos
    rw [← Nat.mul_mod]
    have h1 : (p - a.val % p) * (p - a.val % p) ≡ (a.val % p) * (a.val % p) [MOD p] := by
      have hle : a.val % p ≤ p := hr.le
      obtain ⟨k, hk⟩ := Nat.exists_eq_add_of_le hle
      have hk' : p - a.val % p = k := by omega
      rw [hk']
      generalize a.val % p = r at *
      -- k = p - r, k*k ≡ r*r
      have : (k * k + 2 * p * r) = p * p + r * r := by subst hk; ring
      have h2 : k * k + 2 * p * r ≡ r * r [MOD p] := by
        rw [this]; unfold Nat.ModEq; rw [Nat.mul_add_mod]
      have h3 : k * k + 2 * p * r ≡ k * k [MOD p] := by
        have : 2 * p * r = p * (2 * r) := by ring
        rw [this]; unfold Nat.ModEq; rw [Nat.add_mul_mod_self_left]
      exact h3.symm.trans h2
    rw [h1, ← Nat.mul_mod]
  sq_eq := by
    intro y y' hy hy' h
    have hy1 : y.val < p := hy
    have hy1' : y'.val < p := hy'
    have hv : (y'.val * y'.val) % p = (y.val * y.val) % p := congrArg Fp.val h
    have hdvd : (p : Int) ∣ ((y'.val : Int) - y.val) * ((y'.val : Int) + y.val) := by
      have : ((y'.val : Int) - y.val) * ((y'.val : Int) + y.val) = (y'.val * y'.val : Nat) - (y.val * y.val : Nat) := by
        push_cast; ring
      rw [this]
      exact Nat.modEq_iff_dvd.mp hv.symm
    rcases Int.Prime.dvd_mul' hp hdvd with h1 | h1
    · left
      apply Fp.ext'
      have := Int.eq_zero_of_abs_lt_dvd h1 (by rw [abs_lt]; constructor <;> omega)
      omega
    · right
      apply Fp.ext'
      rw [Fp.neg_val, Nat.mod_eq_of_lt hy1]
      obtain ⟨k, hk⟩ := h1
      have hk0 : 0 ≤ k := by
        by_contra hneg
        have : (p : Int) * k ≤ (p : Int) * (-1) := Int.mul_le_mul_of_nonneg_left (by omega) (by omega)
        omega
      have hk2 : k < 2 := by
        by_contra hge
        have : (p : Int) * 2 ≤ (p : Int) * k := Int.mul_le_mul_of_nonneg_left (by omega) (by omega)
        omega
      have : k = 0 ∨ k = 1 := by omega
      rcases this with rfl | rfl
      · have h1 : y'.val = 0 := by omega
        have h2 : y.val = 0 := by omega
        rw [h1, h2]; simp
      · have : y'.val = p - y.val := by omega
        rw [this]
        by_cases h0 : y.val = 0
        · omega
        · rw [Nat.mod_eq_of_lt (by omega)]

/-! ## A genuine field as coordinate field -/

theorem fieldSignLaws (F : Type) [Field F] : SignLaws F (fun _ => True) where
  canon_add := fun _ _ => trivial
  canon_mul := fun _ _ => trivial
  canon_neg := fun _ => trivial
  neg_neg := fun a _ => neg_neg a
  neg_sq := fun a => neg_mul_neg a a
  sq_eq := by
    intro y y' _ _ h
    exact mul_self_eq_mul_self_iff.mp h

/-- the twisted-Edwards equation solved for `x²` -/
theorem te_solve_field {F : Type} [Field F] [DecidableEq F] (E : TECfg F) (P : TEAff F)
    (hon : teIsOnCurve E P = true) (hden : E.a - (P.y * P.y) * E.d ≠ 0) :
    P.x * P.x = teX2 E P.y := by
  unfold teIsOnCurve at hon
  simp only [beq_iff_eq] at hon
  unfold teX2
  rw [eq_comm, inv_mul_eq_iff_eq_mul₀ hden]
  linear_combination (-1 : F) * hon

/-- on a curve with `a ≠ d` the denominator never vanishes at a curve point -/
theorem te_den_ne_zero {F : Type} [Field F] [DecidableEq F] (E : TECfg F) (P : TEAff F)
    (hon : teIsOnCurve E P = true) (had : E.a ≠ E.d) : E.a - (P.y * P.y) * E.d ≠ 0 := by
  unfold teIsOnCurve at hon
  simp only [beq_iff_eq] at hon
  intro h0
  have h1 : P.y * P.y = 1 := by linear_combination hon - (P.x * P.x) * h0
  rw [h1, one_mul] at h0
  exact had (sub_eq_zero.mp h0)

/-! ## Validity of accepted points over `Fp`, in terms of the spec-level group `Ark.AffPt` -/

theorem Fp.add_zero_of_lt {p : Nat} (t : Fp p) (ht : t.val < p) : t + 0 = t := by
  apply Fp.ext'; rw [Fp.add_val, Fp.zero_val, Nat.add_zero, Nat.mod_eq_of_lt ht]

theorem Fp.mul_comm' {p : Nat} (a b : Fp p) : a * b = b * a := by
  apply Fp.ext'; rw [Fp.mul_val, Fp.mul_val, Nat.mul_comm]

theorem Fp.zero_mul' {p : Nat} (a : Fp p) : (0 : Fp p) * a = 0 := by
  apply Fp.ext'; rw [Fp.mul_val, Fp.zero_val, Nat.zero_mul, Nat.zero_mod]

theorem Fp.add_right_comm' {p : Nat} (a b d : Fp p) : a + b + d = a + d + b := by
  apply Fp.ext'
  simp only [Fp.add_val, Nat.mod_add_mod]
  rw [Nat.add_right_comm]

/-- the right-hand side computed by the Rust code is `x³ + a·x + b` -/
theorem swRhs_fp {p : Nat} (hp : 0 < p) (E : SWCfg (Fp p)) (x : Fp p) :
    swRhs E x = x * x * x + E.a * x + E.b := by
  have ht : (x * x * x).val < p := Nat.mod_lt _ hp
  unfold swRhs swAddB swMulByA
  simp only
  by_cases ha : E.a = 0
  · rw [if_neg (by simp [ha]), ha, Fp.zero_mul', Fp.add_zero_of_lt _ ht]
    by_cases hb : E.b = 0
    · rw [if_pos hb, hb, Fp.add_zero_of_lt _ ht]
    · rw [if_neg hb]
  · rw [if_pos ha, if_neg ha, Fp.mul_comm' x E.a]
    by_cases hb : E.b = 0
    · rw [if_pos hb, hb, Fp.add_zero_of_lt (x * x * x + E.a * x) (Nat.mod_lt _ hp)]
    · rw [if_neg hb, Fp.add_right_comm']

theorem AffPt.smulAux_none {p : Nat} {E : SWParams p} (fuel k : Nat) :
    AffPt.smulAux fuel k (⟨none⟩ : AffPt p E) ⟨none⟩ = ⟨none⟩ := by
  induction fuel generalizing k with
  | zero => rfl
  | succ fuel ih =>
    unfold AffPt.smulAux
    split
    · rfl
    · have e : AffPt.affAdd (⟨none⟩ : AffPt p E) ⟨none⟩ = ⟨none⟩ := rfl
      rw [e]
      split <;> exact ih _

theorem AffPt.smul_none {p : Nat} {E : SWParams p} (k : Nat) : AffPt.smul k (⟨none⟩ : AffPt p E) = 0 :=
  AffPt.smulAux_none _ _

/-- `Valid::check` of the default prime-field curve record, in terms of the spec-level group -/
theorem swCheck_fp {p : Nat} (hp : 0 < p) (a b : Fp p) (h1 : Bool) (r : Nat) (P : SWAff (Fp p))
    (hcof : h1 = true → ∀ Q : AffPt p ⟨a, b⟩, Q.onCurve = true → AffPt.smul r Q = 0)
    (hc : swCheck (swCfgFp a b h1 r) P = true) :
    AffPt.onCurve (P.toAffPt (E := ⟨a, b⟩)) = true ∧ AffPt.smul r (P.toAffPt (E := ⟨a, b⟩)) = 0 := by
  unfold swCheck at hc
  simp only [Bool.and_eq_true] at hc
  obtain ⟨hon, hsub⟩ := hc
  have honc : AffPt.onCurve (P.toAffPt (E := ⟨a, b⟩)) = true := by
    obtain ⟨x, y, inf⟩ := P
    cases inf with
    | true => rfl
    | false =>
      have := (swIsOnCurve_iff _ ⟨x, y, false⟩ rfl).mp hon
      rw [swRhs_fp hp] at this
      simp only [SWAff.toAffPt, AffPt.onCurve, Bool.false_eq_true, if_false, beq_iff_eq]
      exact this
  refine ⟨honc, ?_⟩
  cases h1 with
  | true => exact hcof rfl _ honc
  | false =>
    have h2 : (AffPt.smul r (P.toAffPt (E := ⟨a, b⟩))).pt.isNone = true := hsub
    cases hq : AffPt.smul r (P.toAffPt (E := ⟨a, b⟩)) with
    | mk pt =>
      rw [hq] at h2
      cases pt with
      | none => rfl
      | some v => cases h2

section points
variable {F : Type} [Add F] [Sub F] [Mul F] [Neg F] [Zero F] [One F] [Inv F] [DecidableEq F]

/-! ### The coordinates of an accepted point are canonical -/

theorem swGetYs_canon {K : Codec F} {canon : F → Prop} (hneg : ∀ a : F, canon (-a))
    (hsq : ∀ a y : F, K.sqrt a = some y → canon y) (E : SWCfg F) (x y1 y2 : F)
    (h : swGetYsFromX K E x = some (y1, y2)) : canon y1 ∧ canon y2 := by
  rw [swGetYsFromX_eq] at h
  cases hs : K.sqrt (swRhs E x) with
  | none => rw [hs] at h; cases h
  | some y =>
    rw [hs] at h
    simp only at h
    have hy := hsq _ _ hs
    split at h <;> (simp only [Option.some.injEq, Prod.mk.injEq] at h; rw [← h.1, ← h.2])
    · exact ⟨hy, hneg _⟩
    · exact ⟨hneg _, hy⟩

theorem teGetXs_canon {K : Codec F} {canon : F → Prop} (hneg : ∀ a : F, canon (-a))
    (hsq : ∀ a y : F, K.sqrt a = some y → canon y) (E : TECfg F) (y x1 x2 : F)
    (h : teGetXsFromY K E y = some (x1, x2)) : canon x1 ∧ canon x2 := by
  rw [teGetXsFromY_eq] at h
  split at h
  · cases h
  cases hs : K.sqrt (teX2 E y) with
  | none => rw [hs] at h; cases h
  | some x =>
    rw [hs] at h
    simp only at h
    have hx := hsq _ _ hs
    split at h <;> (simp only [Option.some.injEq, Prod.mk.injEq] at h; rw [← h.1, ← h.2])
    · exact ⟨hx, hneg _⟩
    · exact ⟨hneg _, hx⟩

theorem swDe_canon {K : Codec F} {canon : F → Prop} (hK : CodecOK K canon) (h0 : canon 0)
    (hneg : ∀ a : F, canon (-a)) (hsq : ∀ a y : F, K.sqrt a = some y → canon y)
    {E : SWCfg F} {cm : Compress} {vd : Validate} {s s' : Rd} {P : SWAff F}
    (h : swDeserialize K E cm vd s = .ok P s') : canon P.x ∧ canon P.y := by
  rw [swDeserialize_eq] at h
  obtain ⟨q, s1, h1, h2⟩ := M_bind_ok_inv h
  have hq : canon q.1 ∧ canon q.2.1 := by
    cases cm with
    | yes =>
      simp only at h1
      obtain ⟨⟨x, fl⟩, s2, h3, h4⟩ := M_bind_ok_inv h1
      have hx := hK.deFlags_canon _ _ _ _ _ h3
      cases fl with
      | pointAtInfinity => cases h4; exact ⟨h0, h0⟩
      | yIsPositive =>
        simp only [SWFlags.isPositive] at h4
        cases hg : swGetYsFromX K E x with
        | none => rw [hg] at h4; cases h4
        | some yy =>
          obtain ⟨y1, y2⟩ := yy
          rw [hg] at h4
          cases h4
          exact ⟨hx, (swGetYs_canon hneg hsq E x y1 y2 hg).1⟩
      | yIsNegative =>
        simp only [SWFlags.isPositive] at h4
        cases hg : swGetYsFromX K E x with
        | none => rw [hg] at h4; cases h4
        | some yy =>
          obtain ⟨y1, y2⟩ := yy
          rw [hg] at h4
          cases h4
          exact ⟨hx, (swGetYs_canon hneg hsq E x y1 y2 hg).2⟩
    | no =>
      simp only at h1
      obtain ⟨x, s2, h3, h4⟩ := M_bind_ok_inv h1
      obtain ⟨⟨y, fl⟩, s3, h5, h6⟩ := M_bind_ok_inv h4
      cases h6
      exact ⟨hK.de_canon _ _ _ _ _ h3, hK.deFlags_canon _ _ _ _ _ h5⟩
  rcases swFinish_ok_inv h2 with ⟨-, rfl⟩ | ⟨-, rfl, -⟩
  · exact ⟨h0, h0⟩
  · exact hq

theorem teDe_canon {K : Codec F} {canon : F → Prop} (hK : CodecOK K canon)
    (hneg : ∀ a : F, canon (-a)) (hsq : ∀ a y : F, K.sqrt a = some y → canon y)
    {E : TECfg F} {cm : Compress} {vd : Validate} {s s' : Rd} {P : TEAff F}
    (h : teDeserialize K E cm vd s = .ok P s') : canon P.x ∧ canon P.y := by
  rw [teDeserialize_eq] at h
  obtain ⟨q, s1, h1, h2⟩ := M_bind_ok_inv h
  have hq : canon q.1 ∧ canon q.2 := by
    cases cm with
    | yes =>
      simp only at h1
      obtain ⟨⟨y, fl⟩, s2, h3, h4⟩ := M_bind_ok_inv h1
      have hy := hK.deFlags_canon _ _ _ _ _ h3
      simp only at h4
      cases hg : teGetXsFromY K E y with
      | none => rw [hg] at h4; cases h4
      | some xx =>
        obtain ⟨x1, x2⟩ := xx
        rw [hg] at h4
        simp only at h4
        obtain ⟨c1, c2⟩ := teGetXs_canon hneg hsq E y x1 x2 hg
        split at h4 <;> (cases h4)
        · exact ⟨c2, hy⟩
        · exact ⟨c1, hy⟩
    | no =>
      simp only at h1
      obtain ⟨x, s2, h3, h4⟩ := M_bind_ok_inv h1
      obtain ⟨y, s3, h5, h6⟩ := M_bind_ok_inv h4
      cases h6
      exact ⟨hK.de_canon _ _ _ _ _ h3, hK.de_canon _ _ _ _ _ h5⟩
  obtain ⟨rfl, -⟩ := teFinish_ok_inv h2
  exact hq

end points

/-! ### `fpSqrt` returns reduced values -/

theorem powModAux_lt (m : Nat) : ∀ (fuel b e acc : Nat), acc < m → Spec.powModAux m fuel b e acc < m := by
  intro fuel
  induction fuel with
  | zero => intro b e acc h; exact h
  | succ fuel ih =>
    intro b e acc h
    unfold Spec.powModAux
    split
    · exact h
    · apply ih
      split
      · exact Nat.mod_lt _ (by omega)
      · exact h

theorem powMod_lt (b e m : Nat) (hm : 0 < m) : Spec.powMod b e m < m :=
  powModAux_lt m _ _ _ _ (Nat.mod_lt _ hm)

theorem tsLoop_lt (p : Nat) (hp : 0 < p) : ∀ (fuel x t c m : Nat), x < p → tsLoop p fuel x t c m < p := by
  intro fuel
  induction fuel with
  | zero => intro x t c m h; exact h
  | succ fuel ih =>
    intro x t c m h
    unfold tsLoop
    split
    · exact h
    · exact ih _ _ _ _ (Nat.mod_lt _ hp)

theorem fpSqrt_lt {p : Nat} (hp : 0 < p) (a y : Fp p) (h : fpSqrt p a = some y) : y.val < p := by
  unfold fpSqrt at h
  simp only at h
  split at h
  · cases h; exact hp
  · split at h
    · cases h; exact Nat.mod_lt _ hp
    · split at h
      · cases h
      · split at h
        · cases h; exact powMod_lt _ _ _ hp
        · cases h; exact tsLoop_lt p hp _ _ _ _ _ (powMod_lt _ _ _ hp)

/-! ## The quadratic-extension dictionary `fp2Codec` -/

/-- `Reads.bind0` when the continuation is only known to behave on the values `m` can return -/
theorem Reads.bind0_of {α β : Type} {m : M α} {f : α → M β} {k : Nat} (Q : α → Prop) (hm : Reads m k)
    (hQ : ∀ s a s', m s = .ok a s' → Q a) (hf : ∀ a, Q a → Reads (f a) 0) : Reads (m >>= f) k where
  no_panic := by
    intro s hp
    rw [M_bind_apply] at hp
    cases h1 : m s with
    | ok a s1 => rw [h1] at hp; exact (hf a (hQ _ _ _ h1)).no_panic s1 hp
    | err e s1 => rw [h1] at hp; cases hp
    | panic => exact hm.no_panic s h1
  ok_used := by
    intro s b s' hp
    rw [M_bind_apply] at hp
    cases h1 : m s with
    | ok a s1 =>
      rw [h1] at hp
      obtain ⟨h2, rfl⟩ := hm.ok_used s a s1 h1
      obtain ⟨h3, rfl⟩ := (hf a (hQ _ _ _ h1)).ok_used _ b s' hp
      exact ⟨h2, by simp⟩
    | err e s1 => rw [h1] at hp; cases hp
    | panic => rw [h1] at hp; cases hp
  err_used := by
    intro s e s' hp
    rw [M_bind_apply] at hp
    cases h1 : m s with
    | ok a s1 =>
      rw [h1] at hp
      obtain ⟨h2, rfl⟩ := hm.ok_used s a s1 h1
      obtain ⟨h3, h4, h5⟩ := (hf a (hQ _ _ _ h1)).err_used _ e s' hp
      simp only [List.length_drop] at h3 h4 h5
      exact ⟨by omega, by omega, by omega⟩
    | err e1 s1 =>
      rw [h1] at hp; cases hp
      exact hm.err_used s e s' h1
    | panic => rw [h1] at hp; cases hp

/-- what a tower deserialiser returns is an element of that tower with reduced coefficients -/
theorem extDe_shape {c : FpCfg} (h : WFc c) (t : Tower) :
    (∀ (Fl : Type) [Flags Fl] (s s' : Rd) (v : ExtV c.p) (fl : Fl),
      extDeFlags c Fl t s = .ok (v, fl) s' → v.hasShape t ∧ v.reduced) ∧
    (∀ (cm : Compress) (vd : Validate) (s s' : Rd) (v : ExtV c.p),
      extDe c t cm vd s = .ok v s' → v.hasShape t ∧ v.reduced) := by
  induction t with
  | base =>
    constructor
    · intro Fl _ s s' v fl hd
      simp only [extDeFlags] at hd
      obtain ⟨⟨x, fl'⟩, s1, h1, h2⟩ := M_bind_ok_inv hd
      cases h2
      exact ⟨trivial, fpDe_ok_lt h h1⟩
    · intro cm vd s s' v hd
      simp only [extDe] at hd
      obtain ⟨x, s1, h1, h2⟩ := M_bind_ok_inv hd
      cases h2
      unfold fpDe at h1
      obtain ⟨⟨x', fl⟩, s2, h3, h4⟩ := M_bind_ok_inv h1
      cases h4
      exact ⟨trivial, fpDe_ok_lt h h3⟩
  | quad t ih =>
    obtain ⟨ih1, ih2⟩ := ih
    constructor
    · intro Fl _ s s' v fl hd
      simp only [extDeFlags] at hd
      obtain ⟨c0, s1, h1, hd⟩ := M_bind_ok_inv hd
      obtain ⟨⟨c1, fl'⟩, s2, h2, hd⟩ := M_bind_ok_inv hd
      cases hd
      obtain ⟨a1, a2⟩ := ih2 _ _ _ _ _ h1
      obtain ⟨b1, b2⟩ := ih1 Fl _ _ _ _ h2
      exact ⟨⟨a1, b1⟩, ⟨a2, b2⟩⟩
    · intro cm vd s s' v hd
      simp only [extDe] at hd
      obtain ⟨c0, s1, h1, hd⟩ := M_bind_ok_inv hd
      obtain ⟨c1, s2, h2, hd⟩ := M_bind_ok_inv hd
      cases hd
      obtain ⟨a1, a2⟩ := ih2 _ _ _ _ _ h1
      obtain ⟨b1, b2⟩ := ih2 _ _ _ _ _ h2
      exact ⟨⟨a1, b1⟩, ⟨a2, b2⟩⟩
  | cubic t ih =>
    obtain ⟨ih1, ih2⟩ := ih
    constructor
    · intro Fl _ s s' v fl hd
      simp only [extDeFlags] at hd
      obtain ⟨c0, s1, h1, hd⟩ := M_bind_ok_inv hd
      obtain ⟨c1, s2, h2, hd⟩ := M_bind_ok_inv hd
      obtain ⟨⟨c2, fl'⟩, s3, h3, hd⟩ := M_bind_ok_inv hd
      cases hd
      obtain ⟨a1, a2⟩ := ih2 _ _ _ _ _ h1
      obtain ⟨b1, b2⟩ := ih2 _ _ _ _ _ h2
      obtain ⟨d1, d2⟩ := ih1 Fl _ _ _ _ h3
      exact ⟨⟨a1, b1, d1⟩, ⟨a2, b2, d2⟩⟩
    · intro cm vd s s' v hd
      simp only [extDe] at hd
      obtain ⟨c0, s1, h1, hd⟩ := M_bind_ok_inv hd
      obtain ⟨c1, s2, h2, hd⟩ := M_bind_ok_inv hd
      obtain ⟨c2, s3, h3, hd⟩ := M_bind_ok_inv hd
      cases hd
      obtain ⟨a1, a2⟩ := ih2 _ _ _ _ _ h1
      obtain ⟨b1, b2⟩ := ih2 _ _ _ _ _ h2
      obtain ⟨d1, d2⟩ := ih2 _ _ _ _ _ h3
      exact ⟨⟨a1, b1, d1⟩, ⟨a2, b2, d2⟩⟩

/-- the shape test after a degree-2 read never fails -/
theorem quadBase_cases {p : Nat} (v : ExtV p) (hv : v.hasShape (.quad .base)) :
    ∃ a b, v = .quad (.base a) (.base b) := by
  cases v with
  | base x => simp [ExtV.hasShape] at hv
  | cubic a b d => simp [ExtV.hasShape] at hv
  | quad a b =>
    simp only [ExtV.hasShape] at hv
    obtain ⟨ha, hb⟩ := hv
    cases a <;> simp only [ExtV.hasShape] at ha
    cases b <;> simp only [ExtV.hasShape] at hb
    exact ⟨_, _, rfl⟩

theorem hasShape_quadBase {p : Nat} (a b : Fp p) : (ExtV.quad (.base a) (.base b)).hasShape (.quad .base) :=
  ⟨trivial, trivial⟩

theorem fp2CodecOK {c : FpCfg} (h : WFc c) (β : Nat) :
    CodecOK (fp2Codec c β) (fun x => x.c0.val < c.p ∧ x.c1.val < c.p) where
  ser_size := by
    intro Fl _ x fl bs hs
    exact extSer_size h (.quad .base) Fl _ fl bs (hasShape_quadBase x.c0 x.c1) hs
  deFlags_reads := by
    intro Fl _
    refine Reads.bind0_of (fun q => q.1.hasShape (.quad .base)) (extDeFlags_reads h Fl (.quad .base)) ?_ ?_
    · rintro s ⟨v, fl⟩ s' hd
      exact ((extDe_shape h _).1 Fl _ _ _ _ hd).1
    · rintro ⟨v, fl⟩ hv
      obtain ⟨a, b, rfl⟩ := quadBase_cases v hv
      exact Reads.pure _
  de_reads := by
    intro cm vd
    refine Reads.bind0_of (fun v => v.hasShape (.quad .base)) (extDe_reads h (.quad .base) cm vd) ?_ ?_
    · intro s v s' hd
      exact ((extDe_shape h _).2 _ _ _ _ _ hd).1
    · intro v hv
      obtain ⟨a, b, rfl⟩ := quadBase_cases v hv
      exact Reads.pure _
  deFlags_canon := by
    intro Fl _ s s' x fl hd
    obtain ⟨⟨v, fl'⟩, s1, h1, h2⟩ := M_bind_ok_inv hd
    obtain ⟨hv, hr⟩ := (extDe_shape h _).1 Fl _ _ _ _ h1
    obtain ⟨a, b, rfl⟩ := quadBase_cases v hv
    cases h2
    exact hr
  de_canon := by
    intro cm vd s s' x hd
    obtain ⟨v, s1, h1, h2⟩ := M_bind_ok_inv hd
    obtain ⟨hv, hr⟩ := (extDe_shape h _).2 _ _ _ _ _ h1
    obtain ⟨a, b, rfl⟩ := quadBase_cases v hv
    cases h2
    exact hr
  rt_flags := by
    intro Fl _ hF x fl bs hx hs tl u
    have := (extRT h (.quad .base)).1 Fl hF _ fl bs (hasShape_quadBase x.c0 x.c1) hx hs tl u
    show (extDeFlags c Fl (.quad .base) >>= _) _ = _
    rw [M_bind_ok this]
    rfl
  rt_plain := by
    intro x bs cm vd hx hs tl u
    have := (extRT h (.quad .base)).2 _ bs cm vd (hasShape_quadBase x.c0 x.c1) hx hs tl u
    show (extDe c (.quad .base) cm vd >>= _) _ = _
    rw [M_bind_ok this]
    rfl

/-! ## Decidable equality of outcomes (for closed examples), in-range accessors, small instances -/

deriving instance DecidableEq for Ark.Bytes.Res
deriving instance DecidableEq for Ark.Bytes.Rd
deriving instance DecidableEq for Ark.Bytes.R

/-- `SerBuffer` indexing never panics for an index `≤ 8N` -/
theorem SerBuf.get_in_range (N : Nat) (b : SerBuf) (i : Nat) (hb : b.buffers.length = N)
    (hl : ∀ l ∈ b.buffers, l.length = 8) (hi : i ≤ 8 * N) : ∃ v, SerBuf.get N b i = .ok v := by
  unfold SerBuf.get
  by_cases h8 : i = 8 * N
  · rw [if_pos h8]; exact ⟨_, rfl⟩
  · rw [if_neg h8]
    have h1 : i / 8 < b.buffers.length := by omega
    rw [List.getElem?_eq_getElem h1]
    have h2 : b.buffers[i / 8].length = 8 := hl _ (List.getElem_mem _)
    have h3 : i % 8 < b.buffers[i / 8].length := by omega
    simp only [List.getElem?_eq_getElem h3]
    exact ⟨_, rfl⟩

theorem SerBuf.set_in_range (N : Nat) (b : SerBuf) (i v : Nat) (hb : b.buffers.length = N)
    (hi : i ≤ 8 * N) : ∃ b', SerBuf.set N b i v = .ok b' := by
  unfold SerBuf.set
  by_cases h8 : i = 8 * N
  · rw [if_pos h8]; exact ⟨_, rfl⟩
  · rw [if_neg h8]
    have h1 : i / 8 < b.buffers.length := by omega
    rw [List.getElem?_eq_getElem h1]
    exact ⟨_, rfl⟩

/-- `flags.is_positive().unwrap()` is only reached for a flag that is not the infinity flag -/
theorem SWFlags.isPositive_ne_none (fl : SWFlags) (h : fl ≠ .pointAtInfinity) : fl.isPositive ≠ none := by
  cases fl <;> simp [SWFlags.isPositive] at h ⊢

/-- `fpSqrt` on `F_13` -/
theorem fpSqrtOK_13 : SqrtOK (fpCodec ⟨13, 1⟩) (fun x => x.val < 13) where
  sound := by
    intro a y ha hs
    obtain ⟨n⟩ := a
    have key : ∀ n, n < 13 → ∀ y ∈ fpSqrt 13 (⟨n⟩ : Fp 13), y.val < 13 ∧ y * y = (⟨n⟩ : Fp 13) := by
      decide +kernel
    exact key n ha y hs
  complete := by
    intro a y ha hy hyy
    obtain ⟨n⟩ := a
    obtain ⟨m⟩ := y
    have key : ∀ n, n < 13 → ∀ m, m < 13 → ((⟨m⟩ : Fp 13) * ⟨m⟩ = ⟨n⟩) →
        (fpSqrt 13 (⟨n⟩ : Fp 13)).isSome = true := by decide +kernel
    have := key n ha m hy hyy
    exact Option.isSome_iff_exists.mp this

theorem wfc_13 : WFc ⟨13, 1⟩ := ⟨by decide, by decide, by decide⟩

/-- a 63-bit prime modulus: two flag bits spill into a ninth byte -/
theorem wfc_63 : WFc ⟨2 ^ 63 - 25, 1⟩ := ⟨by decide, by decide, by decide⟩

section field
variable {F : Type} [Field F] [DecidableEq F]

/-- in a field `into_affine` is the normalisation `(X/Z², Y/Z³)` -/
theorem swToAffine_field (P : SWProj F) : swToAffine P = .ok (swNormalize P) := by
  unfold swToAffine swNormalize
  by_cases hz : P.isZero = true
  · rw [if_pos hz, if_pos hz]
  · rw [if_neg hz, if_neg hz]
    by_cases h1 : P.z = 1
    · rw [if_pos h1, h1]; simp
    · rw [if_neg h1]
      have : P.z ≠ 0 := by
        intro h0; apply hz; unfold SWProj.isZero; rw [h0]; simp
      unfold inverse
      rw [if_neg this]
      simp only [mul_assoc]

/-- in a field `into_affine` is the normalisation `(X/Z, Y/Z)` (for `Z ≠ 0`) -/
theorem teToAffine_field (P : TEProj F) (hz : P.z ≠ 0) : teToAffine P = .ok (teNormalize P) := by
  unfold teToAffine teNormalize
  by_cases hzero : P.isZero = true
  · rw [if_pos hzero, if_pos hzero]
  · rw [if_neg hzero, if_neg hzero]
    by_cases h1 : P.z = 1
    · rw [if_pos h1, h1]; simp
    · rw [if_neg h1]
      unfold inverse
      rw [if_neg hz]
      simp only [if_neg hz]

end field

/-- over `Fp` the curve test of the Rust code is the textbook equation `a·x² + y² = 1 + d·x²·y²`
    (in the shape the driver's verdict uses) -/
theorem teIsOnCurve_fp {p : Nat} (E : TECfg (Fp p)) (P : TEAff (Fp p)) :
    teIsOnCurve E P = true ↔
      E.a * P.x * P.x + P.y * P.y = 1 + E.d * (P.x * P.x) * (P.y * P.y) := by
  unfold teIsOnCurve
  simp only [beq_iff_eq]
  have e1 : P.y * P.y + P.x * P.x * E.a = E.a * P.x * P.x + P.y * P.y := by
    apply Fp.ext'
    simp only [Fp.add_val, Fp.mul_val, Nat.mod_add_mod, Nat.add_mod_mod, Nat.mul_mod_mod, Nat.mod_mul_mod]
    ring_nf
  have e2 : (1 : Fp p) + E.d * (P.x * P.x * (P.y * P.y)) = 1 + E.d * (P.x * P.x) * (P.y * P.y) := by
    apply Fp.ext'
    simp only [Fp.add_val, Fp.mul_val, Nat.mod_add_mod, Nat.add_mod_mod, Nat.mul_mod_mod, Nat.mod_mul_mod]
    ring_nf
  rw [e1, e2]

end Ark.Bytes
