import Ark.Proofs.Limbs
import Mathlib.Tactic.Ring
import Mathlib.Tactic.Linarith
import Mathlib.Data.Nat.ModEq
/-
  Helper lemmas for C15 part B: multiplication, shifts, bits, bytes.
-/
namespace Ark

/-! ### generic facts about `value`, `WF` -/

theorem value_append (xs ys : List Nat) :
    value (xs ++ ys) = value xs + B ^ xs.length * value ys := by
  induction xs with
  | nil => simp [value]
  | cons x xs ih =>
    simp only [List.cons_append, value, ih, List.length_cons, pow_succ]
    ring

theorem WF_append {xs ys : List Nat} : WF (xs ++ ys) ↔ WF xs ∧ WF ys := by
  unfold WF; simp only [List.mem_append]
  constructor
  · intro h; exact ⟨fun l hl => h l (Or.inl hl), fun l hl => h l (Or.inr hl)⟩
  · rintro ⟨h1, h2⟩ l (hl | hl)
    · exact h1 l hl
    · exact h2 l hl

theorem value_replicate_zero (n : Nat) : value (List.replicate n 0) = 0 := by
  induction n with
  | zero => rfl
  | succ n ih => simp [List.replicate_succ, value, ih]

theorem WF_replicate_zero (n : Nat) : WF (List.replicate n 0) := by
  intro l hl
  rw [List.eq_of_mem_replicate hl]; exact B_pos

theorem map_zero_eq_replicate (a : List Nat) : a.map (fun _ => 0) = List.replicate a.length 0 := by
  induction a with
  | nil => rfl
  | cons x xs ih => simp [List.replicate_succ, ih]

theorem value_map_zero (a : List Nat) : value (a.map (fun _ => 0)) = 0 := by
  rw [map_zero_eq_replicate, value_replicate_zero]

theorem WF_map_zero (a : List Nat) : WF (a.map (fun _ => 0)) := by
  rw [map_zero_eq_replicate]; exact WF_replicate_zero _

theorem value_take_add_drop (a : List Nat) (n : Nat) :
    value (a.take n) + B ^ (a.take n).length * value (a.drop n) = value a := by
  rw [← value_append, List.take_append_drop]

theorem WF_take {a : List Nat} (h : WF a) (n : Nat) : WF (a.take n) :=
  fun l hl => h l (List.mem_of_mem_take hl)

theorem WF_drop {a : List Nat} (h : WF a) (n : Nat) : WF (a.drop n) :=
  fun l hl => h l (List.mem_of_mem_drop hl)

theorem value_lt' {a : List Nat} {n : Nat} (h : WF a) (hn : a.length = n) : value a < B ^ n :=
  hn ▸ value_lt a h

/-- well-formed limb lists of the same length are determined by their value -/
theorem value_inj : ∀ (a b : List Nat), WF a → WF b → a.length = b.length →
    value a = value b → a = b
  | [], [], _, _, _, _ => rfl
  | [], _ :: _, _, _, h, _ => by simp at h
  | _ :: _, [], _, _, h, _ => by simp at h
  | x :: xs, y :: ys, ha, hb, hl, hv => by
    have ⟨hx, hxs⟩ := WF_cons.mp ha
    have ⟨hy, hys⟩ := WF_cons.mp hb
    simp only [value] at hv
    have h1 : x = y := by
      have := congrArg (· % B) hv
      simp only [Nat.add_mul_mod_self_left, Nat.mod_eq_of_lt hx, Nat.mod_eq_of_lt hy] at this
      exact this
    have h2 : value xs = value ys := by
      subst h1
      exact Nat.eq_of_mul_eq_mul_left B_pos (Nat.add_left_cancel hv)
    rw [h1, value_inj xs ys hxs hys (by simpa using hl) h2]

theorem isZero_value {a : List Nat} (h : isZero a = true) : value a = 0 := by
  induction a with
  | nil => rfl
  | cons x xs ih =>
    simp only [isZero, List.all_cons, Bool.and_eq_true, beq_iff_eq] at h
    have := ih (by simpa [isZero] using h.2)
    simp [value, h.1, this]

/-- `x + B*y` splits modulo `B*M` -/
theorem add_mul_mod_mul {x y M : Nat} (hx : x < B) :
    (x + B * y) % (B * M) = x + B * (y % M) := by
  rcases Nat.eq_zero_or_pos M with rfl | hM
  · simp
  have h1 : x + B * y = (x + B * (y % M)) + (B * M) * (y / M) := by
    have := Nat.div_add_mod y M
    calc x + B * y = x + B * (M * (y / M) + y % M) := by rw [this]
      _ = _ := by ring
  rw [h1, Nat.add_mul_mod_self_left, Nat.mod_eq_of_lt]
  have : y % M < M := Nat.mod_lt _ hM
  have : y % M + 1 ≤ M := this
  calc x + B * (y % M) < B + B * (y % M) := by omega
    _ = B * (y % M + 1) := by ring
    _ ≤ B * M := Nat.mul_le_mul_left B this

/-! ### multiplication -/

theorem macRow_length (r : List Nat) (x : Nat) (b : List Nat) (c : Nat) (h : r.length = b.length) :
    (macRow r x b c).1.length = r.length := by
  induction r generalizing b c with
  | nil => cases b <;> simp [macRow]
  | cons y ys ih =>
    cases b with
    | nil => simp at h
    | cons z zs =>
      simp only [macRow, List.length_cons]
      rw [ih zs _ (by simpa using h)]

theorem macRow_wf (r : List Nat) (x : Nat) (b : List Nat) (c : Nat) : WF (macRow r x b c).1 := by
  induction r generalizing b c with
  | nil => cases b <;> simp [macRow, WF]
  | cons y ys ih =>
    cases b with
    | nil => simp [macRow, WF]
    | cons z zs =>
      simp only [macRow]
      exact WF_cons.mpr ⟨Nat.mod_lt _ B_pos, ih zs _⟩

/-- one multiply-accumulate row is exact -/
theorem macRow_spec (r : List Nat) (x : Nat) (b : List Nat) (c : Nat) (h : r.length = b.length) :
    value (macRow r x b c).1 + B ^ r.length * (macRow r x b c).2 = value r + x * value b + c := by
  induction r generalizing b c with
  | nil =>
    cases b with
    | nil => simp [macRow, value]
    | cons z zs => simp at h
  | cons y ys ih =>
    cases b with
    | nil => simp at h
    | cons z zs =>
      have ih := ih zs ((y + x * z + c) / B) (by simpa using h)
      simp only [macRow, value, List.length_cons, pow_succ]
      have hdm := Nat.div_add_mod (y + x * z + c) B
      generalize (y + x * z + c) / B = q at *
      generalize (y + x * z + c) % B = m at *
      generalize value (macRow ys x zs q).1 = v at *
      generalize (macRow ys x zs q).2 = c' at *
      generalize B ^ ys.length = P at *
      nlinarith [ih, hdm]

/-- the carry out of a row stays a `u64` -/
theorem macRow_carry_lt (r : List Nat) (x : Nat) (b : List Nat) (c : Nat)
    (hr : WF r) (hx : x < B) (hb : WF b) (hc : c < B) : (macRow r x b c).2 < B := by
  induction r generalizing b c with
  | nil => cases b <;> simpa [macRow]
  | cons y ys ih =>
    cases b with
    | nil => simpa [macRow]
    | cons z zs =>
      have ⟨hy, hys⟩ := WF_cons.mp hr
      have ⟨hz, hzs⟩ := WF_cons.mp hb
      simp only [macRow]
      apply ih zs _ hys hzs
      apply Nat.div_lt_of_lt_mul
      have hB := B_pos
      generalize B = Bv at *
      obtain ⟨B', rfl⟩ : ∃ B', Bv = B' + 1 := ⟨Bv - 1, by omega⟩
      have : x * z ≤ B' * B' := Nat.mul_le_mul (by omega) (by omega)
      nlinarith

/-- unfolding of one `mulRows` step on a buffer `lo ++ 0…0` -/
theorem mulRows_step (x : Nat) (as b lo : List Nat) (hlo : lo.length = b.length) :
    mulRows (x :: as) b (lo ++ List.replicate (as.length + 1) 0) =
      match (macRow lo x b 0).1 ++ [(macRow lo x b 0).2] with
      | [] => []
      | h :: t => h :: mulRows as b (t ++ List.replicate as.length 0) := by
  have h1 : (lo ++ List.replicate (as.length + 1) 0).take b.length = lo := by
    rw [← hlo]; simp
  have h2 : (lo ++ List.replicate (as.length + 1) 0).drop (b.length + 1) =
      List.replicate as.length 0 := by
    rw [← hlo, List.drop_append]; simp [List.replicate_succ]
  simp only [mulRows, h1, h2]
  cases hq : (macRow lo x b 0).1 with
  | nil => simp
  | cons h t => simp

theorem mulRows_spec (a b lo : List Nat) (hlo : lo.length = b.length)
    (ha : WF a) (hb : WF b) (hl : WF lo) :
    value (mulRows a b (lo ++ List.replicate a.length 0)) = value lo + value a * value b ∧
    WF (mulRows a b (lo ++ List.replicate a.length 0)) ∧
    (mulRows a b (lo ++ List.replicate a.length 0)).length = a.length + b.length := by
  induction a generalizing lo with
  | nil => simp [mulRows, value, hl, hlo]
  | cons x as ih =>
    have ⟨hx, has⟩ := WF_cons.mp ha
    rw [List.length_cons, mulRows_step x as b lo hlo]
    have hspec := macRow_spec lo x b 0 hlo
    have hlen := macRow_length lo x b 0 hlo
    have hwf := macRow_wf lo x b 0
    have hc := macRow_carry_lt lo x b 0 hl hx hb B_pos
    have hv : value ((macRow lo x b 0).1 ++ [(macRow lo x b 0).2]) = value lo + x * value b := by
      rw [value_append, hlen]; simpa [value] using hspec
    have hw : WF ((macRow lo x b 0).1 ++ [(macRow lo x b 0).2]) :=
      WF_append.mpr ⟨hwf, WF_cons.mpr ⟨hc, WF_nil⟩⟩
    have hl2 : ((macRow lo x b 0).1 ++ [(macRow lo x b 0).2]).length = b.length + 1 := by
      simp [hlen, hlo]
    generalize (macRow lo x b 0).1 ++ [(macRow lo x b 0).2] = L at hv hw hl2
    cases L with
    | nil => simp at hl2
    | cons h t =>
      have ⟨hh, ht⟩ := WF_cons.mp hw
      have ⟨i1, i2, i3⟩ := ih t (by simpa using hl2) has ht
      refine ⟨?_, WF_cons.mpr ⟨hh, i2⟩, ?_⟩
      · simp only [value] at hv ⊢
        rw [i1]
        generalize value t = vt at *
        generalize value as = va at *
        generalize value b = vb at *
        generalize value lo = vl at *
        nlinarith [hv]
      · simp only [List.length_cons, i3]; omega

/-- splitting the double-width product buffer into halves -/
theorem mul_spec (a b : List Nat) (h : a.length = b.length) (ha : WF a) (hb : WF b) :
    value (mul a b).1 + B ^ a.length * value (mul a b).2 = value a * value b ∧
    WF (mul a b).1 ∧ WF (mul a b).2 ∧
    (mul a b).1.length = a.length ∧ (mul a b).2.length = a.length := by
  unfold mul
  by_cases hz : (isZero a || isZero b) = true
  · simp only [hz, if_true, value_map_zero, List.length_map]
    refine ⟨?_, WF_map_zero a, WF_map_zero a, trivial, trivial⟩
    rcases Bool.or_eq_true _ _ |>.mp hz with h0 | h0
    · simp [isZero_value h0]
    · simp [isZero_value h0]
  · have hz' : (isZero a || isZero b) = false := by simpa using hz
    simp only [hz', Bool.false_eq_true, if_false]
    have e : List.replicate (2 * a.length) 0 =
        List.replicate b.length 0 ++ List.replicate a.length 0 := by
      rw [← h, List.replicate_append_replicate]; congr 1; omega
    rw [e]
    have ⟨s1, s2, s3⟩ := mulRows_spec a b (List.replicate b.length 0) (by simp) ha hb
      (WF_replicate_zero _)
    generalize mulRows a b (List.replicate b.length 0 ++ List.replicate a.length 0) = R at *
    have hlt : (R.take a.length).length = a.length := by
      rw [List.length_take, s3]; omega
    refine ⟨?_, WF_take s2 _, WF_drop s2 _, hlt, by rw [List.length_drop, s3]; omega⟩
    have := value_take_add_drop R a.length
    rw [hlt] at this
    rw [this, s1, value_replicate_zero, Nat.zero_add]

theorem value_take_modEq (b : List Nat) (k : Nat) (hk : k ≤ b.length) :
    value (b.take k) ≡ value b [MOD B ^ k] := by
  have h := value_take_add_drop b k
  rw [List.length_take, Nat.min_eq_left hk] at h
  rw [← h]
  exact (Nat.modEq_iff_dvd' (Nat.le_add_right _ _)).mpr (by simp)

theorem mulLowRows_spec (a b r : List Nat) (hr : r.length = a.length) (hab : a.length ≤ b.length) :
    value (mulLowRows a b r) ≡ value r + value a * value b [MOD B ^ a.length] ∧
    WF (mulLowRows a b r) ∧ (mulLowRows a b r).length = a.length := by
  induction a generalizing r with
  | nil =>
    have : r = [] := List.eq_nil_of_length_eq_zero hr
    subst this
    simp [mulLowRows, value, WF_nil, Nat.ModEq]
  | cons x as ih =>
    simp only [List.length_cons] at hr hab
    have hbt : (b.take r.length).length = r.length := by
      rw [List.length_take]; omega
    have hspec := macRow_spec r x (b.take r.length) 0 hbt.symm
    have hlen := macRow_length r x (b.take r.length) 0 hbt.symm
    have hwf := macRow_wf r x (b.take r.length) 0
    have hmod := value_take_modEq b r.length (by omega)
    simp only [mulLowRows]
    generalize b.take r.length = bt at *
    generalize (macRow r x bt 0).2 = c at *
    generalize (macRow r x bt 0).1 = q at *
    cases q with
    | nil => rw [hr] at hlen; simp at hlen
    | cons h t =>
      have ⟨hh, ht⟩ := WF_cons.mp hwf
      have ⟨i1, i2, i3⟩ := ih t (by simp at hlen; omega) (by omega)
      refine ⟨?_, WF_cons.mpr ⟨hh, i2⟩, by simp [i3]⟩
      simp only [value, List.length_cons, pow_succ] at hspec ⊢
      rw [hr, pow_succ] at hspec hmod
      rw [Nat.add_zero] at hspec
      have e1 : h + B * value t ≡ value r + x * value bt
          [MOD B ^ as.length * B] := by
        rw [← hspec]
        exact (Nat.modEq_iff_dvd' (Nat.le_add_right _ _)).mpr (by simp)
      have e2 : B * value (mulLowRows as b t) ≡ B * (value t + value as * value b)
          [MOD B ^ as.length * B] := by
        rw [Nat.mul_comm (B ^ as.length) B]
        exact Nat.ModEq.mul_left' B i1
      calc h + B * value (mulLowRows as b t)
          ≡ h + B * (value t + value as * value b) [MOD B ^ as.length * B] :=
            Nat.ModEq.add_left _ e2
        _ = (h + B * value t) + B * value as * value b := by ring
        _ ≡ (value r + x * value bt) + B * value as * value b
            [MOD B ^ as.length * B] := Nat.ModEq.add_right _ e1
        _ ≡ (value r + x * value b) + B * value as * value b [MOD B ^ as.length * B] :=
            Nat.ModEq.add_right _ (Nat.ModEq.add_left _ (Nat.ModEq.mul_left _ hmod))
        _ = value r + (x + B * value as) * value b := by ring

theorem mulLow_spec (a b : List Nat) (h : a.length = b.length) :
    value (mulLow a b) = (value a * value b) % B ^ a.length ∧
    WF (mulLow a b) ∧ (mulLow a b).length = a.length := by
  unfold mulLow
  by_cases hz : (isZero a || isZero b) = true
  · simp only [hz, if_true, value_map_zero, List.length_map]
    refine ⟨?_, WF_map_zero a, trivial⟩
    rcases Bool.or_eq_true _ _ |>.mp hz with h0 | h0
    · simp [isZero_value h0]
    · simp [isZero_value h0]
  · have hz' : (isZero a || isZero b) = false := by simpa using hz
    simp only [hz', Bool.false_eq_true, if_false]
    have ⟨s1, s2, s3⟩ := mulLowRows_spec a b (a.map (fun _ => 0)) (by simp) (by omega)
    refine ⟨?_, s2, s3⟩
    rw [value_map_zero, Nat.zero_add] at s1
    have hlt := value_lt' s2 s3
    have := s1
    unfold Nat.ModEq at this
    rwa [Nat.mod_eq_of_lt hlt] at this

/-! ### shifts -/

theorem B_pow_eq (n : Nat) : B ^ n = 2 ^ (64 * n) := by
  unfold B; rw [← Nat.pow_mul]

theorem B_split {r : Nat} (hr : r ≤ 64) : B = 2 ^ (64 - r) * 2 ^ r := by
  unfold B; rw [← Nat.pow_add]; congr 1; omega

theorem iter_length {f : List Nat → List Nat} (hf : ∀ a, (f a).length = a.length)
    (k : Nat) (a : List Nat) : (iter f k a).length = a.length := by
  induction k generalizing a with
  | zero => rfl
  | succ k ih => simp only [iter]; rw [ih, hf]

theorem iter_wf {f : List Nat → List Nat} (hf : ∀ a, WF a → WF (f a))
    (k : Nat) (a : List Nat) (h : WF a) : WF (iter f k a) := by
  induction k generalizing a with
  | zero => exact h
  | succ k ih => simp only [iter]; exact ih _ (hf a h)

theorem shlLimb_length (a : List Nat) : (shlLimb a).length = a.length := by
  cases a with
  | nil => rfl
  | cons x xs => simp [shlLimb]

theorem WF_dropLast {a : List Nat} (h : WF a) : WF a.dropLast :=
  fun l hl => h l (List.dropLast_subset a hl)

theorem shlLimb_wf (a : List Nat) (h : WF a) : WF (shlLimb a) := by
  cases a with
  | nil => exact h
  | cons x xs =>
    simp only [shlLimb]
    exact WF_cons.mpr ⟨B_pos, WF_dropLast h⟩

theorem shlLimb_value (a : List Nat) (h : WF a) :
    value (shlLimb a) = (value a * B) % B ^ a.length := by
  cases a with
  | nil => simp [shlLimb, value]
  | cons x xs =>
    have hne : (x :: xs) ≠ [] := by simp
    have hsplit := List.dropLast_concat_getLast hne
    have hwd : WF (x :: xs).dropLast := WF_dropLast h
    have hld : (x :: xs).dropLast.length = xs.length := by simp
    have hlt := value_lt' hwd hld
    have hv : value (x :: xs) = value (x :: xs).dropLast + B ^ xs.length * (x :: xs).getLast hne := by
      conv_lhs => rw [← hsplit]
      rw [value_append, hld]; simp [value]
    simp only [shlLimb, List.length_cons]
    rw [hv]
    generalize (x :: xs).dropLast = d at *
    generalize (x :: xs).getLast hne = l at *
    simp only [value, Nat.zero_add]
    have : (value d + B ^ xs.length * l) * B = B * value d + B ^ (xs.length + 1) * l := by ring
    rw [this, Nat.add_mul_mod_self_left, Nat.mod_eq_of_lt]
    rw [pow_succ, Nat.mul_comm (B ^ xs.length) B]
    exact Nat.mul_lt_mul_of_pos_left hlt B_pos

theorem iter_shlLimb_value (k : Nat) (a : List Nat) (h : WF a) :
    value (iter shlLimb k a) = (value a * B ^ k) % B ^ a.length := by
  induction k generalizing a with
  | zero =>
    simp only [iter, pow_zero, Nat.mul_one]
    exact (Nat.mod_eq_of_lt (value_lt a h)).symm
  | succ k ih =>
    simp only [iter]
    rw [ih _ (shlLimb_wf a h), shlLimb_length, shlLimb_value a h, Nat.mod_mul_mod, pow_succ]
    congr 1; ring

/-- single-limb facts for the bit shift left -/
theorem shl_limb_facts {a r t : Nat} (hr' : r ≤ 64) (ha : a < B) (ht : t < 2 ^ r) :
    (a * 2 ^ r) % B + t < B ∧ a * 2 ^ r = (a / 2 ^ (64 - r)) * B + (a * 2 ^ r) % B ∧
    a / 2 ^ (64 - r) < 2 ^ r := by
  have hB := B_split hr'
  have h2r : 0 < 2 ^ r := Nat.two_pow_pos r
  have h2s : 0 < 2 ^ (64 - r) := Nat.two_pow_pos _
  have hdiv : a * 2 ^ r / B = a / 2 ^ (64 - r) := by
    rw [hB]; exact Nat.mul_div_mul_right _ _ h2r
  have hmod : a * 2 ^ r % B = (a % 2 ^ (64 - r)) * 2 ^ r := by
    rw [hB]; exact Nat.mul_mod_mul_right _ _ _
  refine ⟨?_, ?_, ?_⟩
  · rw [hmod]
    have : a % 2 ^ (64 - r) + 1 ≤ 2 ^ (64 - r) := Nat.mod_lt _ h2s
    have := Nat.mul_le_mul_right (2 ^ r) this
    rw [← hB] at this
    linarith
  · rw [← hdiv]; have := Nat.div_add_mod (a * 2 ^ r) B; linarith
  · rw [Nat.div_lt_iff_lt_mul h2s, Nat.mul_comm, ← hB]; exact ha

theorem shlBitsC_length (r : Nat) (a : List Nat) (t : Nat) : (shlBitsC r a t).length = a.length := by
  induction a generalizing t with
  | nil => rfl
  | cons x xs ih => simp [shlBitsC, ih]

theorem shlBitsC_spec (r : Nat) (hr' : r ≤ 64) (a : List Nat) (t : Nat) (ht : t < 2 ^ r)
    (ha : WF a) :
    value (shlBitsC r a t) = (value a * 2 ^ r + t) % B ^ a.length ∧ WF (shlBitsC r a t) := by
  induction a generalizing t with
  | nil => simp [shlBitsC, value, WF_nil, Nat.mod_one]
  | cons x xs ih =>
    have ⟨hx, hxs⟩ := WF_cons.mp ha
    have ⟨f1, f2, f3⟩ := shl_limb_facts hr' hx ht
    have ⟨i1, i2⟩ := ih _ f3 hxs
    simp only [shlBitsC]
    refine ⟨?_, WF_cons.mpr ⟨f1, i2⟩⟩
    simp only [value, List.length_cons]
    rw [i1, pow_succ, Nat.mul_comm (B ^ xs.length) B, ← add_mul_mod_mul f1]
    congr 1
    generalize x / 2 ^ (64 - r) = c at *
    generalize x * 2 ^ r % B = m at *
    generalize value xs = v at *
    nlinarith [f2]

theorem shl_spec (a : List Nat) (n : Nat) (ha : WF a) :
    value (shl a n) = (value a * 2 ^ n) % B ^ a.length ∧ WF (shl a n) ∧
    (shl a n).length = a.length := by
  unfold shl
  by_cases hn : n ≥ 64 * a.length
  · simp only [hn, if_true, value_map_zero, List.length_map]
    refine ⟨?_, WF_map_zero a, trivial⟩
    rw [B_pow_eq]
    obtain ⟨d, rfl⟩ := Nat.exists_eq_add_of_le hn
    rw [Nat.pow_add]
    symm
    calc value a * (2 ^ (64 * a.length) * 2 ^ d) % 2 ^ (64 * a.length)
        = (2 ^ (64 * a.length) * (value a * 2 ^ d)) % 2 ^ (64 * a.length) := by congr 1; ring
      _ = 0 := Nat.mul_mod_right _ _
  · simp only [hn, if_false]
    have hw1 := iter_wf shlLimb_wf (n / 64) a ha
    have hl1 := iter_length shlLimb_length (n / 64) a
    have hv1 := iter_shlLimb_value (n / 64) a ha
    have hn2 : 2 ^ n = B ^ (n / 64) * 2 ^ (n % 64) := by
      rw [B_pow_eq, ← Nat.pow_add, Nat.div_add_mod]
    by_cases hr : n % 64 > 0
    · simp only [hr, if_true]
      have ⟨s1, s2⟩ := shlBitsC_spec (n % 64) (by omega) _ 0 (Nat.two_pow_pos _) hw1
      refine ⟨?_, s2, by rw [shlBitsC_length, hl1]⟩
      rw [s1, hl1, hv1, Nat.add_zero, Nat.mod_mul_mod, hn2]
      congr 1; ring
    · simp only [hr, if_false]
      refine ⟨?_, hw1, hl1⟩
      have : n % 64 = 0 := by omega
      rw [hv1, hn2, this]; simp

theorem shrLimb_length (a : List Nat) : (shrLimb a).length = a.length := by
  cases a with
  | nil => rfl
  | cons x xs => simp [shrLimb]

theorem shrLimb_wf (a : List Nat) (h : WF a) : WF (shrLimb a) := by
  cases a with
  | nil => exact h
  | cons x xs =>
    simp only [shrLimb]
    exact WF_append.mpr ⟨(WF_cons.mp h).2, WF_cons.mpr ⟨B_pos, WF_nil⟩⟩

theorem shrLimb_value (a : List Nat) (h : WF a) : value (shrLimb a) = value a / B := by
  cases a with
  | nil => simp [shrLimb, value]
  | cons x xs =>
    have ⟨hx, _⟩ := WF_cons.mp h
    simp only [shrLimb, value_append, value, Nat.mul_zero, Nat.add_zero]
    rw [Nat.add_mul_div_left _ _ B_pos, Nat.div_eq_of_lt hx, Nat.zero_add]

theorem iter_shrLimb_value (k : Nat) (a : List Nat) (h : WF a) :
    value (iter shrLimb k a) = value a / B ^ k := by
  induction k generalizing a with
  | zero => simp [iter]
  | succ k ih =>
    simp only [iter]
    rw [ih _ (shrLimb_wf a h), shrLimb_value a h, Nat.div_div_eq_div_mul, pow_succ,
      Nat.mul_comm]

theorem shrBitsRev_length (r : Nat) (a : List Nat) (t : Nat) :
    (shrBitsRev r a t).length = a.length := by
  induction a generalizing t with
  | nil => rfl
  | cons x xs ih => simp [shrBitsRev, ih]

/-- single-limb facts for the bit shift right -/
theorem shr_limb_facts {a r u : Nat} (hr' : r ≤ 64) (ha : a < B) (hu : u < 2 ^ r) :
    a / 2 ^ r + u * 2 ^ (64 - r) < B ∧ (a * 2 ^ (64 - r)) % B = (a % 2 ^ r) * 2 ^ (64 - r) := by
  have hB := B_split hr'
  have h2r : 0 < 2 ^ r := Nat.two_pow_pos r
  constructor
  · have h1 : a / 2 ^ r < 2 ^ (64 - r) := by
      rw [Nat.div_lt_iff_lt_mul h2r, ← hB]; exact ha
    have h2 : (u + 1) * 2 ^ (64 - r) ≤ 2 ^ r * 2 ^ (64 - r) := Nat.mul_le_mul_right _ hu
    rw [hB]; nlinarith
  · rw [hB, Nat.mul_comm (2 ^ (64 - r)) (2 ^ r)]; exact Nat.mul_mod_mul_right _ _ _

theorem shrBitsRev_spec (r : Nat) (hr' : r ≤ 64) (l : List Nat) (u : Nat) (hu : u < 2 ^ r)
    (hl : WF l) :
    value (shrBitsRev r l (u * 2 ^ (64 - r))).reverse =
      (u * B ^ l.length + value l.reverse) / 2 ^ r ∧
    WF (shrBitsRev r l (u * 2 ^ (64 - r))).reverse := by
  induction l generalizing u with
  | nil =>
    simp only [shrBitsRev, List.reverse_nil, value, List.length_nil, pow_zero, Nat.mul_one,
      Nat.add_zero]
    exact ⟨(Nat.div_eq_of_lt hu).symm, WF_nil⟩
  | cons x xs ih =>
    have ⟨hx, hxs⟩ := WF_cons.mp hl
    have ⟨f1, f2⟩ := shr_limb_facts hr' hx hu
    have h2r : 0 < 2 ^ r := Nat.two_pow_pos r
    have ⟨i1, i2⟩ := ih (x % 2 ^ r) (Nat.mod_lt _ h2r) hxs
    simp only [shrBitsRev, List.reverse_cons, f2]
    refine ⟨?_, WF_append.mpr ⟨i2, WF_cons.mpr ⟨f1, WF_nil⟩⟩⟩
    rw [value_append, value_append, i1, List.length_reverse, List.length_reverse,
      shrBitsRev_length, List.length_cons]
    simp only [value, Nat.mul_zero, Nat.add_zero]
    have hB := B_split hr'
    have hdm := Nat.div_add_mod x (2 ^ r)
    have key : u * B ^ (xs.length + 1) + (value xs.reverse + B ^ xs.length * x) =
        2 ^ r * (B ^ xs.length * (x / 2 ^ r + u * 2 ^ (64 - r))) +
          (x % 2 ^ r * B ^ xs.length + value xs.reverse) := by
      rw [pow_succ]
      generalize B ^ xs.length = P
      generalize x / 2 ^ r = q at hdm ⊢
      generalize x % 2 ^ r = m at hdm ⊢
      subst hdm
      rw [hB]
      ring
    rw [key, Nat.mul_add_div h2r]
    ring

theorem shr_spec (a : List Nat) (n : Nat) (ha : WF a) :
    value (shr a n) = value a / 2 ^ n ∧ WF (shr a n) ∧ (shr a n).length = a.length := by
  unfold shr
  by_cases hn : n ≥ 64 * a.length
  · simp only [hn, if_true, value_map_zero, List.length_map]
    refine ⟨?_, WF_map_zero a, trivial⟩
    symm
    apply Nat.div_eq_of_lt
    calc value a < B ^ a.length := value_lt a ha
      _ = 2 ^ (64 * a.length) := B_pow_eq _
      _ ≤ 2 ^ n := Nat.pow_le_pow_right (by omega) hn
  · simp only [hn, if_false]
    have hw1 := iter_wf shrLimb_wf (n / 64) a ha
    have hl1 := iter_length shrLimb_length (n / 64) a
    have hv1 := iter_shrLimb_value (n / 64) a ha
    have hn2 : 2 ^ n = B ^ (n / 64) * 2 ^ (n % 64) := by
      rw [B_pow_eq, ← Nat.pow_add, Nat.div_add_mod]
    by_cases hr : n % 64 > 0
    · simp only [hr, if_true]
      have hwr : WF (iter shrLimb (n / 64) a).reverse := fun l hl => hw1 l (List.mem_reverse.mp hl)
      have ⟨s1, s2⟩ := shrBitsRev_spec (n % 64) (by omega) _ 0 (Nat.two_pow_pos _) hwr
      simp only [Nat.zero_mul, Nat.zero_add, List.reverse_reverse] at s1 s2
      refine ⟨?_, s2, by rw [List.length_reverse, shrBitsRev_length, List.length_reverse, hl1]⟩
      rw [s1, hv1, Nat.div_div_eq_div_mul, hn2]
    · simp only [hr, if_false]
      refine ⟨?_, hw1, hl1⟩
      have : n % 64 = 0 := by omega
      rw [hv1, hn2, this]; simp

/-! ### bits -/

theorem bitLen_le_iff (v k : Nat) : bitLen v ≤ k ↔ v < 2 ^ k := by
  unfold bitLen
  by_cases hv : v = 0
  · simp [hv]
  · simp only [hv, if_false]
    rw [← Nat.log2_lt hv]; omega

theorem bitLen_shift (V a L : Nat) (hV : V < B ^ L) (ha : a ≠ 0) :
    bitLen (V + B ^ L * a) = 64 * L + bitLen a := by
  have hne : V + B ^ L * a ≠ 0 := by
    have : 0 < B ^ L * a := Nat.mul_pos (Nat.pow_pos B_pos) (Nat.pos_of_ne_zero ha)
    omega
  unfold bitLen
  simp only [hne, ha, if_false]
  have h1 := Nat.log2_self_le ha
  have h2 := @Nat.lt_log2_self a
  rw [← Nat.add_assoc, Nat.add_right_cancel_iff, Nat.log2_eq_iff hne, Nat.add_assoc,
    Nat.pow_add, Nat.pow_add, ← B_pow_eq]
  generalize B ^ L = P at *
  generalize 2 ^ a.log2 = Q at *
  constructor
  · have := Nat.mul_le_mul_left P h1
    omega
  · rw [pow_succ] at h2
    have := Nat.mul_le_mul_left P (show a + 1 ≤ 2 ^ (a.log2 + 1) from h2)
    rw [pow_succ] at this ⊢
    nlinarith

theorem numBitsRev_spec (l : List Nat) (hl : WF l) :
    numBitsRev l (64 * l.length) = bitLen (value l.reverse) := by
  induction l with
  | nil => simp [numBitsRev, value, bitLen]
  | cons a as ih =>
    have ⟨ha, has⟩ := WF_cons.mp hl
    have hb : bitLen a ≤ 64 := (bitLen_le_iff a 64).mpr ha
    simp only [numBitsRev, List.reverse_cons, value_append, List.length_reverse, value,
      Nat.mul_zero, Nat.add_zero, List.length_cons]
    by_cases h0 : a = 0
    · subst h0
      have : bitLen 0 = 0 := rfl
      simp only [this, Nat.sub_zero, bne_self_eq_false, Bool.false_eq_true, if_false,
        Nat.mul_zero, Nat.add_zero]
      rw [← ih has]; congr 1
    · have hpos : 0 < bitLen a := by
        unfold bitLen; simp [h0]
      have hne : (64 - bitLen a != 64) = true := by
        rw [bne_iff_ne]; omega
      simp only [hne, if_true]
      have hwr : WF as.reverse := fun l hl => has l (List.mem_reverse.mp hl)
      have hV := value_lt' hwr (List.length_reverse)
      rw [bitLen_shift _ a _ hV h0]
      omega

theorem numBits_spec (a : List Nat) (ha : WF a) : numBits a = bitLen (value a) := by
  unfold numBits
  have hwr : WF a.reverse := fun l hl => ha l (List.mem_reverse.mp hl)
  have := numBitsRev_spec a.reverse hwr
  rwa [List.length_reverse, List.reverse_reverse] at this

/-- limb `k` of a well-formed list is digit `k` of its value -/
theorem value_digit (a : List Nat) (ha : WF a) (k : Nat) :
    value a / B ^ k % B = a.getD k 0 := by
  induction a generalizing k with
  | nil => simp [value]
  | cons x xs ih =>
    have ⟨hx, hxs⟩ := WF_cons.mp ha
    cases k with
    | zero => simp [value, Nat.mod_eq_of_lt hx]
    | succ k =>
      simp only [value, List.getD_cons_succ]
      rw [pow_succ, Nat.mul_comm (B ^ k) B, ← Nat.div_div_eq_div_mul,
        Nat.add_mul_div_left _ _ B_pos, Nat.div_eq_of_lt hx, Nat.zero_add]
      exact ih hxs k

theorem getBit_spec (a : List Nat) (ha : WF a) (i : Nat) : getBit a i = (value a).testBit i := by
  unfold getBit
  by_cases hi : i ≥ 64 * a.length
  · simp only [hi, if_true]
    symm
    apply Nat.testBit_lt_two_pow
    calc value a < B ^ a.length := value_lt a ha
      _ = 2 ^ (64 * a.length) := B_pow_eq _
      _ ≤ 2 ^ i := Nat.pow_le_pow_right (by omega) hi
  · simp only [hi, if_false]
    rw [← value_digit a ha (i / 64), Bool.beq_eq_decide_eq, ← Nat.testBit_eq_decide_div_mod_eq,
      B_pow_eq]
    have hB : B = 2 ^ 64 := rfl
    rw [hB, Nat.testBit_mod_two_pow, Nat.testBit_div_two_pow]
    have h1 : i - 64 * (i / 64) < 64 := by omega
    have h2 : i - 64 * (i / 64) + 64 * (i / 64) = i := by omega
    simp [h1, h2]

theorem limbBitsLE_length (x : Nat) : (limbBitsLE x).length = 64 := by
  simp [limbBitsLE]

theorem toBitsLE_length (a : List Nat) : (toBitsLE a).length = 64 * a.length := by
  induction a with
  | nil => rfl
  | cons x xs ih =>
    simp only [toBitsLE, List.flatMap_cons, List.length_append, limbBitsLE_length,
      List.length_cons] at ih ⊢
    rw [ih]; ring

theorem toBitsLE_getElem? (a : List Nat) (ha : WF a) (i : Nat) :
    (toBitsLE a)[i]? = if i < 64 * a.length then some ((value a).testBit i) else none := by
  induction a generalizing i with
  | nil => simp [toBitsLE]
  | cons x xs ih =>
    have ⟨hx, hxs⟩ := WF_cons.mp ha
    have hB : B = 2 ^ 64 := rfl
    have e : toBitsLE (x :: xs) = limbBitsLE x ++ toBitsLE xs := by simp [toBitsLE]
    have ht := Nat.testBit_two_pow_mul_add (value xs) (hB ▸ hx) i
    rw [e, List.getElem?_append, limbBitsLE_length, value, hB, Nat.add_comm x, ht,
      List.length_cons]
    by_cases h64 : i < 64
    · have : i < 64 * (xs.length + 1) := by omega
      simp only [h64, this, if_true]
      simp only [limbBitsLE, List.getElem?_map, List.getElem?_range h64, Option.map_some]
      rw [Bool.beq_eq_decide_eq, ← Nat.testBit_eq_decide_div_mod_eq]
    · simp only [h64, if_false]
      rw [ih hxs]
      by_cases h2 : i - 64 < 64 * xs.length
      · have : i < 64 * (xs.length + 1) := by omega
        simp [h2, this]
      · have : ¬ i < 64 * (xs.length + 1) := by omega
        simp [h2, this]

theorem bitsToNat_append (l1 l2 : List Bool) :
    bitsToNat (l1 ++ l2) = bitsToNat l1 + 2 ^ l1.length * bitsToNat l2 := by
  induction l1 with
  | nil => simp [bitsToNat]
  | cons b bs ih =>
    simp only [List.cons_append, bitsToNat, ih, List.length_cons, pow_succ]
    ring

theorem bitsToNat_lt (l : List Bool) : bitsToNat l < 2 ^ l.length := by
  induction l with
  | nil => simp [bitsToNat]
  | cons b bs ih =>
    simp only [bitsToNat, List.length_cons, pow_succ]
    cases b <;> simp <;> omega

theorem bitsToNat_range (x k : Nat) :
    bitsToNat ((List.range k).map (fun i => (x / 2 ^ i) % 2 == 1)) = x % 2 ^ k := by
  induction k with
  | zero => simp [bitsToNat, Nat.mod_one]
  | succ k ih =>
    rw [List.range_succ, List.map_append, bitsToNat_append, ih, Nat.mod_pow_succ]
    simp only [List.length_map, List.length_range, List.map_cons, List.map_nil, bitsToNat]
    rcases Nat.mod_two_eq_zero_or_one (x / 2 ^ k) with h | h <;> simp [h]

theorem bitsToNat_limbBitsLE (x : Nat) (hx : x < B) : bitsToNat (limbBitsLE x) = x := by
  unfold limbBitsLE
  rw [bitsToNat_range]; exact Nat.mod_eq_of_lt hx

theorem bitsToNat_toBitsLE (a : List Nat) (ha : WF a) : bitsToNat (toBitsLE a) = value a := by
  induction a with
  | nil => rfl
  | cons x xs ih =>
    have ⟨hx, hxs⟩ := WF_cons.mp ha
    have e : toBitsLE (x :: xs) = limbBitsLE x ++ toBitsLE xs := by simp [toBitsLE]
    rw [e, bitsToNat_append, bitsToNat_limbBitsLE x hx, limbBitsLE_length, ih hxs]
    rfl

theorem fromBits_aux (fuel n m : Nat) (bits : List Bool) (hf : bits.length ≤ fuel) (hm : n ≤ m) :
    value ((((chunks 64 bits fuel).map bitsToNat) ++ List.replicate m 0).take n) =
      bitsToNat bits % B ^ n ∧
    WF ((((chunks 64 bits fuel).map bitsToNat) ++ List.replicate m 0).take n) ∧
    ((((chunks 64 bits fuel).map bitsToNat) ++ List.replicate m 0).take n).length = n := by
  have base : ∀ n m : Nat, n ≤ m →
      value ((([] : List (List Bool)).map bitsToNat ++ List.replicate m 0).take n) =
        bitsToNat [] % B ^ n ∧
      WF ((([] : List (List Bool)).map bitsToNat ++ List.replicate m 0).take n) ∧
      ((([] : List (List Bool)).map bitsToNat ++ List.replicate m 0).take n).length = n := by
    intro n m hm
    simp only [List.map_nil, List.nil_append, List.take_replicate, Nat.min_eq_left hm,
      value_replicate_zero, bitsToNat, Nat.zero_mod, List.length_replicate]
    exact ⟨trivial, WF_replicate_zero n, trivial⟩
  induction fuel generalizing n m bits with
  | zero =>
    have : bits = [] := List.eq_nil_of_length_eq_zero (by omega)
    subst this
    simp only [chunks]
    exact base n m hm
  | succ fuel ih =>
    by_cases he : bits = []
    · subst he
      simp only [chunks, List.isEmpty_nil, if_true]
      exact base n m hm
    · have he' : bits.isEmpty = false := by simpa using he
      have hpos : 0 < bits.length := List.length_pos_iff.mpr he
      simp only [chunks, he', Bool.false_eq_true, if_false, List.map_cons, List.cons_append]
      cases n with
      | zero => simp [value, WF_nil, Nat.mod_one]
      | succ n =>
        simp only [List.take_succ_cons]
        have hd : (bits.drop 64).length ≤ fuel := by
          simp only [List.length_drop]; omega
        have ⟨i1, i2, i3⟩ := ih n m (bits.drop 64) hd (by omega)
        have hc : bitsToNat (bits.take 64) < B := by
          have h1 := bitsToNat_lt (bits.take 64)
          have h2 : 2 ^ (bits.take 64).length ≤ 2 ^ 64 :=
            Nat.pow_le_pow_right (by omega) (by rw [List.length_take]; omega)
          exact Nat.lt_of_lt_of_le h1 h2
        refine ⟨?_, WF_cons.mpr ⟨hc, i2⟩, by simp only [List.length_cons, i3]⟩
        simp only [value]
        rw [i1, pow_succ, Nat.mul_comm (B ^ n) B, ← add_mul_mod_mul hc]
        congr 1
        conv_rhs => rw [← List.take_append_drop 64 bits, bitsToNat_append]
        by_cases hlen : 64 ≤ bits.length
        · rw [List.length_take, Nat.min_eq_left hlen]; rfl
        · have : bits.drop 64 = [] := List.drop_eq_nil_of_le (by omega)
          rw [this]; simp [bitsToNat]

theorem fromBitsLE_spec (n : Nat) (bits : List Bool) :
    value (fromBitsLE n bits) = bitsToNat bits % B ^ n ∧ WF (fromBitsLE n bits) ∧
    (fromBitsLE n bits).length = n :=
  fromBits_aux bits.length n n bits (Nat.le_refl _) (Nat.le_refl _)

theorem fromBitsLE_toBitsLE (a : List Nat) (ha : WF a) : fromBitsLE a.length (toBitsLE a) = a := by
  have ⟨s1, s2, s3⟩ := fromBitsLE_spec a.length (toBitsLE a)
  apply value_inj _ _ s2 ha s3
  rw [s1, bitsToNat_toBitsLE a ha, Nat.mod_eq_of_lt (value_lt a ha)]

/-! ### bytes (`Σ byteᵢ·256^i` written as a right fold) -/

theorem bytesFold_append (l1 l2 : List Nat) :
    (l1 ++ l2).foldr (fun b acc => b + 256 * acc) 0 =
      l1.foldr (fun b acc => b + 256 * acc) 0 +
        256 ^ l1.length * l2.foldr (fun b acc => b + 256 * acc) 0 := by
  induction l1 with
  | nil => simp
  | cons b bs ih =>
    simp only [List.cons_append, List.foldr_cons, ih, List.length_cons, pow_succ]
    ring

theorem bytesFold_range (x k : Nat) :
    ((List.range k).map (fun i => (x / 256 ^ i) % 256)).foldr (fun b acc => b + 256 * acc) 0 =
      x % 256 ^ k := by
  induction k with
  | zero => simp [Nat.mod_one]
  | succ k ih =>
    rw [List.range_succ, List.map_append, bytesFold_append, ih, Nat.mod_pow_succ]
    simp

theorem limbBytesLE_length (x : Nat) : (limbBytesLE x).length = 8 := by
  simp [limbBytesLE]

theorem toBytesLE_length (a : List Nat) : (toBytesLE a).length = 8 * a.length := by
  induction a with
  | nil => rfl
  | cons x xs ih =>
    simp only [toBytesLE, List.flatMap_cons, List.length_append, limbBytesLE_length,
      List.length_cons] at ih ⊢
    rw [ih]; ring

theorem toBytesLE_lt (a : List Nat) : ∀ b ∈ toBytesLE a, b < 256 := by
  intro b hb
  simp only [toBytesLE, limbBytesLE, List.mem_flatMap, List.mem_map] at hb
  obtain ⟨x, _, i, _, rfl⟩ := hb
  exact Nat.mod_lt _ (by decide)

theorem toBytesLE_fold (a : List Nat) (ha : WF a) :
    (toBytesLE a).foldr (fun b acc => b + 256 * acc) 0 = value a := by
  induction a with
  | nil => rfl
  | cons x xs ih =>
    have ⟨hx, hxs⟩ := WF_cons.mp ha
    have e : toBytesLE (x :: xs) = limbBytesLE x ++ toBytesLE xs := by simp [toBytesLE]
    have hB : (256 : Nat) ^ 8 = B := by unfold B; norm_num
    rw [e, bytesFold_append, limbBytesLE_length, ih hxs, hB]
    unfold limbBytesLE
    rw [bytesFold_range, hB, Nat.mod_eq_of_lt hx]
    rfl

end Ark
